import Driver.Common
import LalModel.Model.Md5
import LalModel.Model.Url
import LalModel.Model.Auth
import LalModel.Model.Path
import LalModel.Model.Admission
import LalModel.Spec.AccessSpec
/-
  Driver handlers for C14 (see harness/c14.go for the op syntax): auth.check, rtsp.parse, rtsp.mkauth,
  rtsp.sess, bl.seq, path.req, path.write, hls.serve, hls.mux, grp.files.
  The model's parameters are instantiated with the executable MD5 / base64 / ParseQuery of Model/Md5, Model/Url.
-/
open Lal Drv Lal.Str

namespace Drv.C14

def E : Auth.Ext :=
  { md5hex := Md5.md5hex, parseQuery := Url.parseQuery, b64enc := Md5.b64enc, b64dec := Md5.b64dec }

def hx (b : Bytes) : String := Hex.ofBytes b
def bit (s : String) (i : Nat) : Bool := (s.toList.getD i '0') == '1'
def int! (s : String) : Int :=
  if s.startsWith "-" then - Int.ofNat (nat! (s.drop 1).toString) else Int.ofNat (nat! s)

def showVerdict : Auth.Verdict → String
  | .ok => "ok" | .notFound => "err:notfound" | .failed => "err:failed" | .badQuery => "err:query"

def cfgOf (flags : String) (key ov : Bytes) : Auth.SimpleAuthConfig :=
  { key := key, dangerousLalSecret := ov, pubRtmp := bit flags 0, subRtmp := bit flags 1, subHttpflv := bit flags 2,
    subHttpts := bit flags 3, pubRtsp := bit flags 4, subRtsp := bit flags 5, hlsM3u8 := bit flags 6 }

/-- specification-side: is simple auth enabled for this kind / protocol (read off the configuration keys) -/
def specEnabled (flags kind : String) (proto : Bytes) : Bool :=
  match kind with
  | "pub" => (bit flags 0 && proto == asc "RTMP") || (bit flags 4 && proto == asc "RTSP")
  | "sub" => (bit flags 1 && proto == asc "RTMP") || (bit flags 2 && proto == asc "FLV") ||
             (bit flags 3 && proto == asc "TS") || (bit flags 5 && proto == asc "RTSP")
  | _ => bit flags 6

def authCheck (args : List String) (impl : String) : Ans :=
  match args with
  | [flags, key, ov, kind, proto, stream, param] =>
    let key := hex! key; let ov := hex! ov; let proto := hex! proto; let stream := hex! stream; let param := hex! param
    let cfg := cfgOf flags key ov
    let v := match kind with
      | "pub" => Auth.onPubStart E cfg proto stream param
      | "sub" => Auth.onSubStart E cfg proto stream param
      | _ => Auth.onHls E cfg stream param
    let admitted := impl == "ok"
    let verdict :=
      if !specEnabled flags kind proto then (if admitted then "ok" else "bad:rejected-although-disabled")
      else if admitted && !AccessSpec.carriesSomewhere Md5.md5hex key ov stream param then "bad:admitted-without-secret"
      else if !admitted && AccessSpec.carriesProperly Md5.md5hex key ov stream param then "bad:rejected-with-secret"
      else "ok"
    { model := showVerdict v, verdict := verdict }
  | _ => { model := "bad-args" }

def showAuth (a : Auth.AuthSt) : String :=
  " ".intercalate ([a.typ, a.username, a.password, a.realm, a.nonce, a.uri, a.algorithm, a.response, a.opaqueV, a.stale].map hx)

/-! ### rtsp.sess -/

def digestHeader (user realm pass nonce method uri : Bytes) : Bytes :=
  asc "Digest username=\"" ++ user ++ asc "\", realm=\"" ++ realm ++ asc "\", nonce=\"" ++ nonce ++ asc "\", uri=\"" ++ uri ++
    asc "\", response=\"" ++ Auth.digestResponse E user realm pass nonce method uri ++ asc "\", algorithm=\"MD5\""

def trimSp (s : Bytes) : Bytes := ((s.dropWhile (· == 32)).reverse.dropWhile (· == 32)).reverse

/-- the Authorization value of one step (`none` = no header); `nonces` latest first -/
def sessUri : Bytes := asc "rtsp://127.0.0.1:5544/live/test110"

def credHeader (cred : String) (nonces : List Bytes) (foreign : Bytes) (lastWww : Option Bytes) : Option Bytes :=
  match cred.splitOn ":" with
  | ["none"] => none
  | ["lalclient", u, p] =>
    let h := Auth.makeAuthorization E (Auth.feedWwwAuthenticate {} lastWww.toList (hex! u) (hex! p)) (asc "DESCRIBE") sessUri
    if h.isEmpty then none else some h
  | ["basic", u, p] => some (asc "Basic " ++ Md5.b64enc (hex! u ++ [58] ++ hex! p))
  | ["basicraw", r] => some (asc "Basic " ++ hex! r)
  | ["raw", r] => some (hex! r)
  | ["digest", u, p, sel, realm, uri, method] =>
    let nonce := match sel with
      | "cur" => nonces.headD []
      | "prev" => (nonces.drop 1).headD []
      | "other" => foreign
      | _ => []
    some (digestHeader (hex! u) (hex! realm) (hex! p) nonce (hex! method) (hex! uri))
  | _ => some (asc "?")

structure SessSt where
  auth : Auth.AuthSt := {}
  nonces : List Bytes := []
  closed : Bool := false
  hasSession : Bool := false   -- a DESCRIBE of this connection was answered: the connection holds its sub session
  lastWww : Option Bytes := none
  out : List String := []
  spec : List String := []   -- specification-side verdict per step: "sdp" | "nosdp"

def sessStep (conf : Auth.AuthConf) (st : SessSt) (step : String) : SessSt :=
  if st.closed then { st with out := st.out ++ ["-"], spec := st.spec ++ ["-"] } else
  let cred := (step.drop 2).toString
  let hdr := (credHeader cred st.nonces (asc "foreign-nonce") st.lastWww).map trimSp
  let authorization := hdr.getD []
  let fresh := asc "nonce-" ++ natDec (st.nonces.length + 1)
  let (a, o) := Auth.describeAuth E conf st.auth authorization fresh
  -- specification: answered with the description iff authentication is off or the credentials are valid
  let issued := st.nonces.headD []
  let valid := !conf.enable ||
    (authorization != [] &&
      ((conf.method == 0 && AccessSpec.validBasic Md5.b64dec conf.username conf.password authorization) ||
       (conf.method == 1 && AccessSpec.validDigest Md5.md5hex conf.username conf.password issued (asc "DESCRIBE") authorization)))
  let spec := if valid then "sdp" else "nosdp"
  match o with
  | .pass =>
    -- one ANNOUNCE / DESCRIBE per connection (handleDescribe, after the authentication stage): a repeated DESCRIBE on a
    -- connection that already holds a session ends the connection whatever its credentials; the authentication
    -- property speaks about requests up to the first description (verdict `-` afterwards)
    if st.hasSession then { st with auth := a, closed := true, out := st.out ++ ["closed"], spec := st.spec ++ ["-"] }
    else { st with auth := a, hasSession := true, out := st.out ++ ["sdp"], spec := st.spec ++ [spec] }
  | .fail => { st with auth := a, closed := true, out := st.out ++ ["closed"], spec := st.spec ++ [spec] }
  | .challenge s =>
    if hasPrefix s (asc "Digest") then
      { st with auth := a, nonces := fresh :: st.nonces, lastWww := some s, out := st.out ++ ["401D"], spec := st.spec ++ [spec] }
    else { st with auth := a, lastWww := some s, out := st.out ++ ["401B"], spec := st.spec ++ [spec] }

def rtspSess (args : List String) (impl : String) : Ans :=
  match args with
  | [en, method, user, pass, steps] =>
    let conf : Auth.AuthConf := { enable := en == "1", method := int! method, username := hex! user, password := hex! pass }
    let st := (steps.splitOn ",").foldl (sessStep conf) {}
    let implSteps := impl.splitOn ","
    let bad := (List.zip implSteps st.spec).filterMap fun (i, s) =>
      if s == "sdp" && i != "sdp" then some "rejected-valid-credentials"
      else if s == "nosdp" && i == "sdp" then some "answered-without-valid-credentials"
      else none
    { model := ",".intercalate st.out,
      verdict := if implSteps.length != st.spec.length then "bad:step-count" else match bad with
        | [] => "ok"
        | b :: _ => "bad:" ++ b }
  | _ => { model := "bad-args" }

/-! ### bl.seq -/

structure BlSt where
  l : Auth.Blacklist := []
  hist : AccessSpec.History := []
  now : Int := 1000
  out : List String := []
  spec : List String := []

def blStep (st : BlSt) (step : String) : BlSt :=
  match step.splitOn ":" with
  | ["a", ip, d] =>
    { st with l := Auth.blAdd st.l (hex! ip) (int! d) st.now, hist := (hex! ip, st.now, int! d) :: st.hist }
  | ["h", ip] =>
    let (l, r) := Auth.blHas st.l (hex! ip) st.now
    { st with l := l, out := st.out ++ [if r then "1" else "0"],
              spec := st.spec ++ [if AccessSpec.listed st.hist (hex! ip) st.now then "1" else "0"] }
  | ["w", s] => { st with now := st.now + int! s }
  | _ => st

def blSeq (args : List String) (impl : String) : Ans :=
  match args with
  | [steps] =>
    let st := (steps.splitOn ",").foldl blStep {}
    let show_ := fun (l : List String) => if l.isEmpty then "-" else ",".intercalate l
    { model := show_ st.out, verdict := if show_ st.spec == impl then "ok" else "bad:blacklist-answer-differs-from-history" }
  | _ => { model := "bad-args" }

/-! ### paths -/

def showUnder (root p : Bytes) : Bool := decide (Path.under root p)

def pathReq (args : List String) (impl : String) : Ans :=
  match args with
  | [root, uri] =>
    let root := hex! root
    match Url.parseRequestUri (hex! uri) with
    | none => { model := "err", verdict := "na" }
    | some u =>
      let ri := Path.getRequestInfo u root
      let verdict := match impl.splitOn " " with
        | [_, f, _, _] => if f == "-" then "na" else if showUnder root (hex! f) then "ok" else "bad:file-outside-root"
        | _ => "na"
      { model := s!"{hx ri.streamName} {hx ri.fileNameWithPath} {hx u.lastItem} {hx u.fileType}", verdict := verdict }
  | _ => { model := "bad-args" }

def pathWrite (args : List String) (impl : String) : Ans :=
  match args with
  | [root, name, id, ts] =>
    let root := hex! root; let name := hex! name
    let op := Path.muxerOutPath root name
    let fn := Path.tsFileName name (int! id) (int! ts)
    let outs := [op, Path.liveM3u8 op, Path.recordM3u8 op, fn, Path.tsFileNameWithPath op fn]
    let verdict :=
      if !Path.safeName name then "na" else
      match (impl.splitOn " ").map hex! with
      | [a, b, c, _, e] => if [a, b, c, e].all (showUnder root) then "ok" else "bad:path-outside-root"
      | _ => "bad:shape"
    { model := " ".intercalate (outs.map hx), verdict := verdict }
  | _ => { model := "bad-args" }

def hlsServe (args : List String) (impl : String) : Ans :=
  match args with
  | [root, uri, delivered] =>
    let root := hex! root; let uri := hex! uri
    let verdict :=
      if impl.startsWith "read:" then
        (if showUnder root (hex! (impl.drop 5).toString) then "ok" else "bad:file-outside-root")
      else if impl.startsWith "reads:" then "bad:more-than-one-file" else "na"
    if delivered != "1" then { model := "mux", verdict := verdict } else
    -- request targets that are not in origin-form (`*`, absolute-form): no model, the oracle only
    if uri.head? != some 47 then { model := impl, verdict := verdict } else
    match Url.parseRequestUri uri with
    | none => { model := "nourl", verdict := verdict }
    | some u =>
      match Path.serve u root with
      | .invalid => { model := "invalid", verdict := verdict }
      | .read f => { model := "read:" ++ hx f, verdict := verdict }
  | _ => { model := "bad-args" }

def insertSorted (x : String) : List String → List String
  | [] => [x]
  | y :: r => if x < y then x :: y :: r else if x == y then y :: r else y :: insertSorted x r

def sortU (l : List String) : List String := l.foldl (fun acc x => insertSorted x acc) []

def showSet (l : List String) : String := if l.isEmpty then "-" else ",".intercalate (sortU l)

def clockBase : Int := 1700000000000

def hlsMux (args : List String) (impl : String) : Ans :=
  match args with
  | [root, name, n, mode] =>
    let root := hex! root; let name := hex! name
    let frags := (List.range (nat! n)).map fun (i : Nat) => (Int.ofNat i, clockBase + Int.ofNat i * 1000)
    let ps := Path.muxerPaths root name (nat! mode) frags
    let verdict :=
      if !Path.safeName name then "na" else
      if impl == "-" then "na" else
      if (impl.splitOn ",").all (fun p => showUnder root (hex! p)) then "ok" else "bad:path-outside-root"
    { model := showSet (ps.map hx), verdict := verdict }
  | _ => { model := "bad-args" }

def hlsRoot : Bytes := asc "d1/d2/d3/hls"
def flvRoot : Bytes := asc "d1/d2/d3/flv"
def tsRoot : Bytes := asc "d1/d2/d3/ts"

/-- replace the decimal time of `<name>-<time>.<ext>` by `T` -/
def canonTime (p : Bytes) (ext : Bytes) : Bytes :=
  let body := p.take (p.length - ext.length)
  let digits := body.reverse.takeWhile (fun c => 48 ≤ c.toNat && c.toNat ≤ 57)
  body.take (body.length - digits.length) ++ [84] ++ ext

def grpFiles (args : List String) (impl : String) : Ans :=
  match args with
  | [flags, name] =>
    let name := hex! name
    let conf : Path.OutConf := { hlsEnable := bit flags 0, hlsRoot := hlsRoot, flvEnable := bit flags 1, flvRoot := flvRoot,
                                 tsEnable := bit flags 2, tsRoot := tsRoot }
    let items := (Path.groupPaths conf name 0 []).flatMap fun (dir, p) =>
      -- the cleanup task removes the muxer's directory; the other paths are what the muxer itself touches
      if dir == hlsRoot then (if p == Path.muxerOutPath hlsRoot name then ["hls:" ++ hx p, "cleanup:" ++ hx p] else ["hls:" ++ hx p])
      else if dir == flvRoot then ["file:" ++ hx (canonTime p (asc ".flv"))]
      else ["file:" ++ hx (canonTime p (asc ".ts"))]
    let checkItem := fun (it : String) =>
      match it.splitOn ":" with
      | ["hls", p] => showUnder hlsRoot (hex! p)
      | ["cleanup", p] => showUnder hlsRoot (hex! p) && hex! p != hlsRoot
      | ["file", p] => showUnder flvRoot (hex! p) || showUnder tsRoot (hex! p)
      | _ => false
    let verdict := if impl == "-" then "ok" else if (impl.splitOn ",").all checkItem then "ok" else "bad:path-outside-configured-directories"
    { model := showSet items, verdict := verdict }
  | _ => { model := "bad-args" }

/-! ### server level -/

def srvKey : Bytes := asc "q191201771"
def srvOverride : Bytes := asc "pengrl"
def srvUser : Bytes := asc "admin"
def srvPass : Bytes := asc "123456"

def entryOf : String → Option Admission.Entry
  | "rtmp-pub" => some .rtmpPub | "rtmp-sub" => some .rtmpSub | "flv-sub" => some .flvSub | "ts-sub" => some .tsSub
  | "hls-m3u8" => some .hlsM3u8 | "hls-ts" => some .hlsTs | "rtsp-pub" => some .rtspPub | "rtsp-sub" => some .rtspSub
  | _ => none

def kindOf : Admission.Entry → String
  | .rtmpPub | .rtspPub => "pub"
  | .hlsM3u8 | .hlsTs => "hls"
  | _ => "sub"

/-- the DESCRIBE exchange the harness performs for this credential form, through the RTSP model -/
def rtspPassed (rtspAuth cred : String) (uri : Bytes) : Bool :=
  let conf : Auth.AuthConf := { enable := rtspAuth != "off", method := if rtspAuth == "digest" then 1 else 0, username := srvUser, password := srvPass }
  let pass := if cred == "wrong" then srvPass ++ asc "x" else srvPass
  let steps : List String :=
    if cred == "none" then ["D:none"]
    else if rtspAuth == "digest" then
      ["D:none", "D:digest:" ++ hx srvUser ++ ":" ++ hx pass ++ ":cur:" ++ hx (asc "lal") ++ ":" ++ hx uri ++ ":" ++ hx (asc "DESCRIBE")]
    else ["D:basic:" ++ hx srvUser ++ ":" ++ hx pass]
  let st := steps.foldl (sessStep conf) {}
  st.out.getLast? == some "sdp"

def b01 (b : Bool) : String := if b then "1" else "0"

def srvReq (args : List String) (impl : String) : Ans :=
  match args with
  | [flags, rtspAuth, entry, stream, query, cred] =>
    match entryOf entry with
    | none => { model := "bad-entry" }
    | some e =>
      let stream := hex! stream; let query := hex! query
      let cfg := cfgOf flags srvKey srvOverride
      let passed := if e == .rtspSub then rtspPassed rtspAuth cred (asc "rtsp://x/live/" ++ stream) else true
      let (sm, o) := Admission.onNew E cfg {} e stream query passed false
      let model :=
        if o.admitted then s!"admitted listed={b01 (!sm.sessions.isEmpty)} notified={b01 (!sm.notified.isEmpty)} answered={b01 o.answered}"
        else "rejected listed=0 notified=0 answered=0"
      -- specification side: who must be admitted, who must not, and a rejected request has no effect
      let enabled := e != .hlsTs && specEnabled flags (kindOf e) e.protocol
      let rtspOk := e != .rtspSub || rtspAuth == "off" || cred == "right"
      let mustAdmit := rtspOk && (!enabled || AccessSpec.carriesProperly Md5.md5hex srvKey srvOverride stream query)
      let mustReject := !rtspOk || (enabled && !AccessSpec.carriesSomewhere Md5.md5hex srvKey srvOverride stream query)
      let admitted := impl.startsWith "admitted"
      let verdict :=
        if admitted && mustReject then "bad:admitted-unauthorised-request"
        else if !admitted && mustAdmit then "bad:rejected-authorised-request"
        else if !admitted && impl != "rejected listed=0 notified=0 answered=0" then "bad:rejected-request-had-an-effect"
        else "ok"
      { model := model, verdict := verdict }
  | _ => { model := "bad-args" }

def srvKick (args : List String) (impl : String) : Ans :=
  match args with
  | [entry, which] =>
    match entryOf entry with
    | none => { model := "bad-entry" }
    | some e =>
      let stream := asc "kick" ++ asc entry
      let (sm, _) := Admission.onNew E (cfgOf "0000000" srvKey srvOverride) {} e stream [] true false
      let id := if which == "self" then 0 else 1
      let (sm', found) := Admission.kick sm stream id
      let model := s!"{if found then "kicked" else "notfound"} closed={b01 (sm'.closed.contains 0)} listed={b01 (!sm'.sessions.isEmpty)}"
      let verdict :=
        if which == "self" then (if impl == "kicked closed=1 listed=0" then "ok" else "bad:kicked-session-not-disconnected")
        else (if impl == "notfound closed=0 listed=1" then "ok" else "bad:kick-of-unknown-id-had-an-effect")
      { model := model, verdict := verdict }
  | _ => { model := "bad-args" }

def srvBl (args : List String) (impl : String) : Ans :=
  match args with
  | [d, wait] =>
    let ip := asc "127.0.0.1"
    let bl := Auth.blAdd [] ip (int! d) 1000
    let now := 1000 + int! wait
    let u : Url.UrlCtx := Url.parseUrlPath (asc "/hls/blstream.m3u8") []
    let g := Auth.serveHlsGate E (cfgOf "0000000" srvKey srvOverride) (some u) Path.requestStream bl ip now
    let model := if g == .serve then "served" else "blocked"
    let spec := if AccessSpec.listed [(ip, 1000, int! d)] ip now then "blocked" else "served"
    { model := model, verdict := if impl == spec then "ok" else "bad:blacklist-not-honoured" }
  | _ => { model := "bad-args" }

def handleC14 : Handler := fun comp args impl =>
  match comp with
  | "auth.check" => some (authCheck args impl)
  | "rtsp.parse" =>
    match args with
    | [h] => some { model := showAuth (Auth.parseAuthorization E {} (hex! h)) }
    | _ => some { model := "bad-args" }
  | "rtsp.mkauth" =>
    match args with
    | [ch, u, p, m, uri] =>
      some { model := hx (Auth.makeAuthorization E (Auth.feedWwwAuthenticate {} [hex! ch] (hex! u) (hex! p)) (hex! m) (hex! uri)) }
    | _ => some { model := "bad-args" }
  | "rtsp.sess" => some (rtspSess args impl)
  | "bl.seq" => some (blSeq args impl)
  | "path.req" => some (pathReq args impl)
  | "path.write" => some (pathWrite args impl)
  | "hls.serve" => some (hlsServe args impl)
  | "hls.mux" => some (hlsMux args impl)
  | "grp.files" => some (grpFiles args impl)
  | "srv.req" => some (srvReq args impl)
  | "srv.kick" => some (srvKick args impl)
  | "srv.bl" => some (srvBl args impl)
  | _ => none

end Drv.C14
