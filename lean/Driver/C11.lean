import Driver.Common
import LalModel.Model.Flv
import LalModel.Model.Ws
import LalModel.Spec.FlvSpec
import LalModel.Spec.WsSpec
import LalModel.Generated.Consts
/- Driver handlers for C11: flv.pack, flv.read, flv.file, ws.hdr, ws.sub -/
open Lal Drv

namespace Drv.C11

def tagsArg (s : String) : List (UInt8 × Nat × Bytes) :=
  if s == "-" then [] else
  (splitOnChar s ',').map fun t =>
    match splitOnChar t ':' with
    | [a, b, c] => (UInt8.ofNat (nat! a), nat! b, hex! c)
    | _ => (0, 0, [])

def showTags (ts : List (UInt8 × Nat × Bytes)) : String :=
  String.join (ts.map fun (t, ts, p) => s!" {t.toNat}:{ts}:{Hex.ofBytes p}")

def handleC11 : Handler := fun comp a impl =>
  match comp, a with
  | "flv.pack", [t, ts, p] =>
    let t8 := UInt8.ofNat (nat! t); let tsn := nat! ts; let pb := hex! p
    let m := Flv.packTag t8 tsn pb
    let ib := hex! impl
    let v :=
      if t8.toNat ≥ 32 then "na" else
      match FlvSpec.readTag ib, Flv.readTag ib with
      | some (tag, []), some (h, raw, []) =>
        if tag.typ == t8 && tag.ts == tsn && tag.payload == pb && h.typ == t8 && h.ts == tsn
           && h.dataSize == pb.length && raw == ib && Flv.payloadOfRaw raw == pb
        then "ok" else "bad:decoded-differs"
      | none, _ => "bad:spec-reader-rejects"
      | _, none => "bad:lal-reader-rejects"
      | _, _ => "bad:trailing-bytes"
    some { model := Hex.ofBytes m, verdict := v }
  | "flv.read", [b] =>
    let bb := hex! b
    -- oracle: one answer however the bytes arrive; a tag the specification reader reads is read, with its sizes
    let v := if impl.startsWith "byte-by-byte:" || impl.startsWith "pieces-of-7:" then "bad:answer-depends-on-how-the-bytes-arrive"
      else match FlvSpec.readTag bb with
        | some (t, rest) =>
          if impl == s!"ok {t.typ.toNat} {t.payload.length} {t.ts} {t.payload.length + 15} {rest.length}" then "ok" else "bad:valid-tag-not-read-back"
        | none => "ok"
    match Flv.readTag bb with
    | none => some { model := "err", verdict := v }
    | some (h, raw, rest) => some { model := s!"ok {h.typ.toNat} {h.dataSize} {h.ts} {raw.length} {rest.length}", verdict := v }
  | "flv.file", [ts] =>
    let tags := tagsArg ts
    let file := Gen.flvHeader ++ tags.flatMap fun (t, ts, p) => Flv.packTag t ts p
    let back := match Flv.readFile file with
      | none => " hdr-err"
      | some l => showTags (l.map fun (h, raw) => (h.typ, h.ts, Flv.payloadOfRaw raw))
    -- oracle: the implementation's file, read by the specification reader, is exactly the tags written
    let implFile := hex! ((impl.splitOn " ;").headD "")
    let v := match FlvSpec.readFile implFile with
      | none => "bad:spec-reader-rejects-file"
      | some f =>
        if f.tags.map (fun t => (t.typ, t.ts, t.payload)) == tags then "ok" else "bad:file-tags-differ"
    let guard := tags.all fun (t, ts, p) => t.toNat < 32 && ts < 4294967296 && p.length < 16777216
    some { model := Hex.ofBytes file ++ " ;" ++ back, verdict := if guard then v else "na" }
  | "ws.hdr", [fin, r1, r2, r3, op, len, mk, key] =>
    let h : Ws.Header :=
      { fin := fin == "1", rsv1 := r1 == "1", rsv2 := r2 == "1", rsv3 := r3 == "1",
        opcode := nat! op, payloadLength := nat! len, masked := mk == "1", maskKey := nat! key }
    some { model := Hex.ofBytes (Ws.makeFrameHeader h) }
  | "ws.sub", [isWs, units] =>
    let us := (splitOnChar units ',').map hex!
    let items := us.flatMap (Ws.subWrite (isWs == "1"))
    let implItems := (splitOnChar impl ',').map hex!
    let stream := implItems.flatten
    let v :=
      if isWs == "1" then
        match WsSpec.readFrames stream.length stream with
        | none => "bad:rfc6455-reader-rejects"
        | some fs =>
          if fs.all (fun f => f.fin && f.opcode == 2) && fs.map (·.payload) == us then "ok"
          else "bad:frames-differ"
      else if stream == us.flatten then "ok" else "bad:bytes-differ"
    some { model := String.intercalate "," (items.map Hex.ofBytes), verdict := v }
  | _, _ => none


end Drv.C11
