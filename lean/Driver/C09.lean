import Driver.Common
import LalModel.Model.Ts
import LalModel.Model.Psi
import LalModel.Model.Crc
import LalModel.Spec.TsSpec
import LalModel.Generated.C09
/- Driver handlers for C09: ts.pack, ts.pat, ts.pmt, ts.crc -/
open Lal Drv

namespace Drv.C09

def int! (s : String) : Int := s.toInt?.getD 0

/-- The property's oracle for one packed frame: the specification demultiplexer applied to the
    IMPLEMENTATION's packets must give back the frame that went in. -/
def packVerdict (f : Ts.Frame) (implBytes : Bytes) (implCc : Nat) : String :=
  if f.raw.isEmpty then "na"                                   -- the property speaks about frames of length ≥ 1
  else if f.pid ≥ 8192 then "na"                               -- not a PID
  else if f.sid < 0xC0 ∨ f.sid > 0xEF then "na"                -- not an audio / video stream_id
  else if implBytes.length % 188 ≠ 0 then "bad:not-whole-packets"
  else
    let pkts := TsSpec.chunk188 implBytes.length implBytes
    match TsSpec.demuxUnit pkts with
    | none =>
      -- say which layer rejects
      match TsSpec.parsePackets pkts with
      | none => "bad:ts-packet-malformed"
      | some ps =>
        if !(ps.headD { pusi := false, pid := 0, cc := 0, af := none, payload := [] }).pusi then "bad:no-pusi-on-first"
        else if (ps.drop 1).any (·.pusi) then "bad:pusi-on-later-packet"
        else if !TsSpec.ccChain ((ps.headD { pusi := false, pid := 0, cc := 0, af := none, payload := [] }).cc) (ps.drop 1) then "bad:continuity"
        else
          let pl : Bytes := ps.flatMap (fun (q : TsSpec.Packet) => q.payload)
          -- PES_packet_length = 0 on a non-video stream is reported under its own name (known finding)
          match pl with
          | 0x00 :: 0x00 :: 0x01 :: sid :: 0x00 :: 0x00 :: _ =>
            if !TsSpec.videoStreamId sid.toNat then "bad:pes-length-zero-non-video" else "bad:pes-malformed"
          | _ => "bad:pes-malformed"
    | some u =>
      let n := pkts.length
      let pcrExp : Option (Nat × Nat) :=
        if f.key then some ((if f.dts > Ts.delay then f.dts - Ts.delay else 0) % 8589934592, 0) else none
      if u.pid ≠ f.pid then "bad:pid"
      else if u.pes.sid ≠ f.sid then "bad:stream-id"
      else if u.pes.pts ≠ some ((f.pts + Ts.delay) % 8589934592) then "bad:pts"
      else if u.pes.dts ≠ some ((f.dts + Ts.delay) % 8589934592) then "bad:dts"
      else if u.rai ≠ f.key then "bad:random-access"
      else if u.pcr ≠ pcrExp then "bad:pcr"
      else if u.laterMarks then "bad:marking-on-later-packet"
      else if u.pes.data ≠ f.raw then "bad:payload"
      else if u.cc0 ≠ (f.cc + 1) % 16 then "bad:first-counter"
      else if implCc ≠ (f.cc + n) % 256 then "bad:returned-counter"
      else "ok"

/-- PAT / PMT oracle: 188 bytes, section valid under the Annex A CRC, 0xFF fill, declares exactly the codecs. -/
def patVerdict (impl : Bytes) : String :=
  match TsSpec.parsePsiPacket impl with
  | none => "bad:psi-section-invalid"
  | some (pid, s) =>
    if pid ≠ 0 then "bad:pat-pid"
    else if s.tableId ≠ 0 then "bad:table-id"
    else if !s.current || s.number ≠ 0 || s.last ≠ 0 then "bad:section-numbering"
    else match TsSpec.parsePatData s.data.length s.data with
      | some [(1, pmtPid)] => if pmtPid = Gen.tsPidPmt then "ok" else "bad:pmt-pid"
      | _ => "bad:pat-programs"

def expectCodecs (v a : Int) : List (TsSpec.Codec × Nat) :=
  (if v = Gen.rtmpCodecIdAvc then [(TsSpec.Codec.avc, Gen.tsPidVideo)]
   else if v = Gen.rtmpCodecIdHevc then [(TsSpec.Codec.hevc, Gen.tsPidVideo)] else []) ++
  (if a = Gen.rtmpSoundFormatAac then [(TsSpec.Codec.aac, Gen.tsPidAudio)]
   else if a = Gen.rtmpSoundFormatOpus then [(TsSpec.Codec.opus, Gen.tsPidAudio)] else [])

def pmtVerdict (v a : Int) (impl : Bytes) : String :=
  match TsSpec.parsePsiPacket impl with
  | none => "bad:psi-section-invalid"
  | some (pid, s) =>
    if pid ≠ Gen.tsPidPmt then "bad:pmt-pid"
    else if s.tableId ≠ 2 then "bad:table-id"
    else if s.ext ≠ 1 then "bad:program-number"
    else if !s.current || s.number ≠ 0 || s.last ≠ 0 then "bad:section-numbering"
    else match TsSpec.parsePmtData s.data with
      | none => "bad:pmt-body"
      | some pmt =>
        if pmt.streams.map (fun e => (TsSpec.codecOf e, e.pid)) == (expectCodecs v a).map (fun (c, p) => (some c, p))
        then "ok" else "bad:pmt-streams"

def handleC09 : Handler := fun comp a impl =>
  match comp, a with
  | "ts.pack", [pid, sid, key, pts, dts, cc, raw] =>
    let f : Ts.Frame := { pid := nat! pid, sid := nat! sid, key := key == "1", pts := nat! pts, dts := nat! dts,
                          cc := nat! cc, raw := hex! raw }
    let (pk, cc') := Ts.pack f
    let v := match impl.splitOn " " with
      | [h, c] => if h == "panic" then "bad:panic" else packVerdict f (hex! h) (nat! c)
      | _ => if impl == "panic" then "bad:panic" else "bad:output-shape"
    some { model := s!"{Hex.ofBytes pk.flatten} {cc'}", verdict := v }
  | "ts.pat", [] =>
    some { model := Hex.ofBytes Psi.packPat, verdict := patVerdict (hex! impl) }
  | "ts.pmt", [v, a] =>
    some { model := Hex.ofBytes (Psi.packPmt (int! v) (int! a)), verdict := pmtVerdict (int! v) (int! a) (hex! impl) }
  | "ts.patpmt", [v1, a1, v2, a2] =>
    let m1 := Psi.packPat ++ Psi.packPmt (int! v1) (int! a1)
    let m2 := Psi.packPat ++ Psi.packPmt (int! v2) (int! a2)
    let v := match impl.splitOn " " with
      | [h1, h2] =>
        let b1 := hex! h1; let b2 := hex! h2
        if b1.length != 376 || b2.length != 376 then "bad:block-size" else
        let r := [patVerdict (b1.take 188), pmtVerdict (int! v1) (int! a1) (b1.drop 188),
                  patVerdict (b2.take 188), pmtVerdict (int! v2) (int! a2) (b2.drop 188)].filter (· != "ok")
        r.headD "ok"
      | _ => "bad:output-shape"
    some { model := s!"{Hex.ofBytes m1} {Hex.ofBytes m2}", verdict := v }
  | "ts.crc", [init, b] =>
    let bb := hex! b
    let m := Crc.calcCrc32 (nat! init) bb
    -- oracle: lal keeps the Annex A register byte-swapped; stored little-endian it is the CRC_32 field
    let implN := nat! impl
    let v := if le32 implN == be32 (TsSpec.crc32From (rd32 (b8 (nat! init)) (b8 (nat! init / 256)) (b8 (nat! init / 65536)) (b8 (nat! init / 16777216))) bb)
             then "ok" else "bad:crc-differs-from-annex-a"
    some { model := toString m, verdict := v }
  | _, _ => none

end Drv.C09
