import Driver.Common
import LalModel.Model.RtspIn
import LalModel.Model.GopRing
import LalModel.Proof.GopRing
import LalModel.Model.Group
import LalModel.Spec.ChunkSpec
import LalModel.Spec.FlvSpec
import LalModel.Spec.WsSpec
/- Driver handler for the group streaming model (C01, C02, C16): grp.run -/
open Lal Drv

namespace Drv.C01
open Lal.Group

def parseCfg (s : String) : Cfg :=
  (splitOnChar s ',').foldl (fun c kv =>
    match splitOnChar kv '=' with
    | [k, v] =>
      let n := nat! v
      match k with
      | "rc" => { c with rtmpCache := n != 0 }
      | "fc" => { c with flvCache := n != 0 }
      | "rg" => { c with rtmpGopNum := n }
      | "rk" => { c with rtmpCap := n }
      | "fg" => { c with flvGopNum := n }
      | "fk" => { c with flvCap := n }
      | "ms" => { c with mergeSize := n }
      | "rec" => { c with recordFlv := n != 0 }
      | _ => c
    | _ => c) {}

def kindOf (s : String) : Kind :=
  if s == "r" then .rtmp else if s == "f" then .flv else if s == "w" then .wsflv else .record

def kindTag : Kind → String
  | .rtmp => "r" | .flv => "f" | .wsflv => "w" | .record => "R"

def parseEv (s : String) : Option Ev :=
  match splitOnChar s ':' with
  | ["P"] => some .addPub
  | ["p"] => some .delPub
  | ["M", t, ts, p] => some (.msg { typ := nat! t, ts := nat! ts, payload := hex! p })
  | ["J", k, id] => some (.join (kindOf k) (nat! id))
  | ["L", k, id] => some (.leave (kindOf k) (nat! id))
  | _ => none

def parseEvs (s : String) : List Ev := (splitOnChar s ';').filterMap parseEv

/-- the harness only sends `p` / `M` / `L` for sessions it holds; mirror its bookkeeping -/
def joined (evs : List Ev) : List (Kind × Nat) :=
  evs.filterMap fun e => match e with
    | .join k id => some (k, id)
    | _ => none

def showRun (s : St) (evs : List Ev) : String :=
  let subs := (joined evs).map fun (k, id) => (kindTag k ++ toString id, (s.log k id).flatten)
  let subs := subs.toArray.qsort (fun a b => a.1 < b.1) |>.toList
  let recs := (List.range s.nextRecord).map fun i => ("R" ++ toString i, (s.log .record i).flatten)
  let parts := (subs ++ recs).map fun (k, b) => k ++ "=" ++ Hex.ofBytes b
  if parts.isEmpty then "-" else String.intercalate "|" parts

/-- the publisher's non-empty messages as a consumer must see them: (type, timestamp, payload with the
    @setDataFrame rule applied); computed from the event list alone -/
def published (evs : List Ev) : List (Nat × Nat × Bytes) :=
  (evs.foldl (fun (acc : Bool × List (Nat × Nat × Bytes)) e =>
    match e with
    | .addPub => (true, acc.2)
    | .delPub => (false, acc.2)
    | .msg m => if acc.1 && !m.payload.isEmpty then (acc.1, acc.2 ++ [(m.typ, m.ts, withoutSdf m.typ m.payload)]) else acc
    | _ => acc) (false, [])).2

def indexOf? (l : List (Nat × Nat × Bytes)) (x : Nat × Nat × Bytes) : Option Nat :=
  let i := l.findIdx (· == x)
  if i < l.length then some i else none

/-- positions of what a consumer received in the published list. Equal messages can be published more than once (a
    publisher may repeat its metadata): each received message is attributed to the first equal published one AFTER the
    position of the previous received message, and to the first equal one at all when there is none -/
def indexSeq (pub got : List (Nat × Nat × Bytes)) : Option (List Nat) :=
  (got.foldl (fun (acc : Option (List Nat × Nat)) x =>
    match acc with
    | none => none
    | some (out, next) =>
      let later := (List.range (pub.length - next)).find? fun d => pub.getD (next + d) (0, 0, []) == x
      match later with
      | some d => some (out ++ [next + d], next + d + 1)
      | none =>
        match indexOf? pub x with
        | some i => some (out ++ [i], next)
        | none => none) (some ([], 0))).map (·.1)

def isHeaderMsg (x : Nat × Nat × Bytes) : Bool :=
  x.1 == 18 || Classify.isVideoKeySeqHeader x.1 x.2.2 || Classify.isAacSeqHeader x.1 x.2.2

def hdrClass (x : Nat × Nat × Bytes) : Nat :=
  if x.1 == 18 then 0 else if Classify.isVideoKeySeqHeader x.1 x.2.2 then 1 else 2

def consecutive : List Nat → Bool
  | a :: b :: rest => b == a + 1 && consecutive (b :: rest)
  | _ => true

def ascending : List Nat → Bool
  | a :: b :: rest => a < b && ascending (b :: rest)
  | _ => true

/-- C01/C02 as an executable check on what one consumer decoded: every message is a published one and
    the sequence is  H ++ G ++ L  with H = cached headers (metadata, video header, audio header, each at
    most once, in that order) followed by the headers published while the consumer waits for a key frame, G = replayed GOP frames (ascending), L = one contiguous duplicate-free
    run; everything in H and G precedes L, and between the first replayed frame and L only header
    messages and (when a per-GOP cap is configured) non-key frames may be missing. -/
def contiguousRun (cap : Nat) (pub : List (Nat × Nat × Bytes)) (got : List (Nat × Nat × Bytes)) : String :=
  match indexSeq pub got with
  | none => "bad:received-a-message-that-was-never-published"
  | some idx =>
    let n := idx.length
    let msgAt (i : Nat) : Nat × Nat × Bytes := pub.getD i (0, 0, [])
    let okSplit (h g : Nat) : Bool :=
      let H := idx.take h
      let G := (idx.drop h).take g
      let L := idx.drop (h + g)
      -- cached headers (one per class, class order) then headers forwarded while waiting (publish order)
      let hdrOk := H.all (fun i => isHeaderMsg (msgAt i)) &&
        (List.range (min 3 H.length + 1)).any (fun c => ascending ((H.take c).map fun i => hdrClass (msgAt i)) && ascending (H.drop c))
      let gOk := ascending G && G.all (fun i => !isHeaderMsg (msgAt i))
      let lOk := consecutive L
      let before := match L with
        | [] => true
        | a :: _ => H.all (· < a) && G.all (· < a)
      let gapOk := match G, L with
        | g0 :: _, a :: _ =>
          (List.range (a - g0)).all fun d =>
            let i := g0 + d
            G.contains i || isHeaderMsg (msgAt i) || (cap > 0 && !Classify.isVideoKeyNalu (msgAt i).1 (msgAt i).2.2)
        | _, _ => true
      -- a replayed GOP never holds more frames than the configured cap
      let capOk := cap == 0 ||
        (G.foldl (fun (acc : Nat × Bool) i =>
            let n := if Classify.isVideoKeyNalu (msgAt i).1 (msgAt i).2.2 then 1 else acc.1 + 1
            (n, acc.2 && n ≤ cap)) (0, true)).2
      hdrOk && gOk && lOk && before && gapOk && capOk
    if (List.range (n + 1)).any fun h => (List.range (n - h + 1)).any fun g => okSplit h g
    then "ok" else "bad:not-headers-then-gop-replay-then-one-contiguous-run"

/-- C02 "a consumer of a stream that currently has no video is never held back": the first message
    published after consumer (k, id) joined, in an incarnation that has published no video sequence
    header so far, must have been received (checked when nothing can still be pending in a merge writer). -/
def neverHeldBack (evs : List Ev) (k : Kind) (id : Nat) (got : List (Nat × Nat × Bytes)) : Bool :=
  let r := evs.foldl (fun (acc : Bool × Bool × Bool × Bool) e =>
    -- (publisher on, video header seen in this incarnation, consumer present, verdict so far)
    let (on, vid, here, ok) := acc
    match e with
    | .addPub => (true, vid, here, ok)
    | .delPub => (false, false, here, ok)
    | .join k' id' => if k' == k && id' == id then (on, vid, true, ok) else acc
    | .leave k' id' => if k' == k && id' == id then (on, vid, false, ok) else acc
    | .msg m =>
      if !on || m.payload.isEmpty then acc else
      let isV := Classify.isVideoKeySeqHeader m.typ m.payload
      let ok' := if here && !vid && !isV then ok && got.contains (m.typ, m.ts, withoutSdf m.typ m.payload) else ok
      (on, vid || isV, here, ok')) (false, false, false, true)
  r.2.2.2

/-- C02 "each consumer's first video frame is a key frame": a consumer that joined while the current input had already
    published a video sequence header receives, as its first video frame OF THAT INPUT (sequence headers aside), a key
    frame. (When that input ends the wait ends with it; what a later input sends is not held back, see C16.) -/
def firstVideoIsKey (evs : List Ev) (pub : List (Nat × Nat × Bytes)) (inc : List Nat) (k : Kind) (id : Nat)
    (got : List (Nat × Nat × Bytes)) : Bool :=
  -- (publisher on, video header of this incarnation seen, incarnation number, result at the join)
  let r := evs.foldl (fun (acc : Bool × Bool × Nat × Option (Bool × Nat)) e =>
    let (on, vid, i, res) := acc
    if res.isSome then acc else
    match e with
    | .addPub => if on then acc else (true, vid, i + 1, res)
    | .delPub => (false, false, i, res)
    | .msg m => if on && !m.payload.isEmpty && Classify.isVideoKeySeqHeader m.typ m.payload then (on, true, i, res) else acc
    | .join k' id' => if k' == k && id' == id then (on, vid, i, some (on && vid, i)) else acc
    | _ => acc) (false, false, 0, none)
  match r.2.2.2 with
  | some (true, ji) =>
    match indexSeq pub got with
    | none => true
    | some idx =>
      match idx.find? (fun j => inc.getD j 0 == ji && (pub.getD j (0, 0, [])).1 == 9 &&
          !Classify.isVideoKeySeqHeader 9 (pub.getD j (0, 0, [])).2.2) with
      | some j => Classify.isVideoKeyNalu 9 (pub.getD j (0, 0, [])).2.2
      | none => true
  | _ => true

/-- incarnation number of every published message (same filter as `published`) -/
def publishedInc (evs : List Ev) : List Nat :=
  (evs.foldl (fun (acc : Bool × Nat × List Nat) e =>
    match e with
    | .addPub => if acc.1 then acc else (true, acc.2.1 + 1, acc.2.2)
    | .delPub => (false, acc.2.1, acc.2.2)
    | .msg m => if acc.1 && !m.payload.isEmpty then (acc.1, acc.2.1, acc.2.2 ++ [acc.2.1]) else acc
    | _ => acc) (false, 0, [])).2.2

/-- C02 "every frame is preceded by a sequence header with the same content as the one in force when
    that frame was published": walk what the consumer decoded; for each audio / video frame compare the
    last sequence header of its kind the consumer has seen with the last one published before the frame
    in the same incarnation. -/
def seqHdrInForce (pub : List (Nat × Nat × Bytes)) (inc : List Nat) (got : List (Nat × Nat × Bytes)) : Bool :=
  match indexSeq pub got with
  | none => true
  | some idx =>
    let msgAt (i : Nat) : Nat × Nat × Bytes := pub.getD i (0, 0, [])
    let inForce (isHdr : Nat × Nat × Bytes → Bool) (i : Nat) : Option Bytes :=
      ((List.range i).reverse.find? fun j => inc.getD j 0 == inc.getD i 0 && isHdr (msgAt j)).map fun j => (msgAt j).2.2
    let isV (x : Nat × Nat × Bytes) : Bool := Classify.isVideoKeySeqHeader x.1 x.2.2
    let isA (x : Nat × Nat × Bytes) : Bool := Classify.isAacSeqHeader x.1 x.2.2
    (idx.foldl (fun (acc : Option Bytes × Option Bytes × Bool) i =>
      let (lv, la, ok) := acc
      let x := msgAt i
      if isV x then (some x.2.2, la, ok)
      else if isA x then (lv, some x.2.2, ok)
      else if x.1 == 9 then
        (lv, la, ok && (match inForce isV i with | none => true | some h => lv == some h))
      else if x.1 == 8 then
        (lv, la, ok && (match inForce isA i with | none => true | some h => la == some h))
      else acc) (none, none, true)).2.2

/-- C16 "a new publisher starts clean": whatever consumer (k, id) receives is either published after it
    joined, or was published earlier by the publisher that is on at the moment of the join. A message that
    equals several published ones is attributed to whichever makes the verdict `ok`. -/
def noStale (evs : List Ev) (pub : List (Nat × Nat × Bytes)) (inc : List Nat) (k : Kind) (id : Nat)
    (got : List (Nat × Nat × Bytes)) : Bool :=
  -- state at the join: (found, publisher on, incarnation, messages published so far)
  let r := evs.foldl (fun (acc : Bool × Bool × Nat × Nat) e =>
    let (found, on, i, n) := acc
    if found then acc else
    match e with
    | .addPub => if on then acc else (false, true, i + 1, n)
    | .delPub => (false, false, i, n)
    | .msg m => if on && !m.payload.isEmpty then (false, on, i, n + 1) else acc
    | .join k' id' => if k' == k && id' == id then (true, on, i, n) else acc
    | _ => acc) (false, false, 0, 0)
  let (found, on, i, n) := r
  !found || got.all fun x =>
    (List.range pub.length).any fun j => pub.getD j (0, 0, []) == x && (j ≥ n || (on && inc.getD j 0 == i))

def decodeRtmp (b : Bytes) : Option (List (Nat × Nat × Bytes)) :=
  (ChunkSpec.read Gen.localChunkSize b).map fun ms => ms.map fun m => (m.typ, m.ts, m.payload)

def decodeFlv (b : Bytes) : Option (List (Nat × Nat × Bytes)) :=
  (FlvSpec.readFile b).map fun f => f.tags.map fun t => (t.typ.toNat, t.ts, t.payload)

def decodeWs (b : Bytes) : Option (List (Nat × Nat × Bytes)) :=
  match WsSpec.readFrames b.length b with
  | none => none
  | some fs => if fs.all (fun f => f.fin && f.opcode == 2) then decodeFlv (fs.map (·.payload)).flatten else none

def oracle (cfg : Cfg) (evs : List Ev) (impl : String) : String :=
  if impl == "-" then "ok" else
  let pub := published evs
  let verdicts := (splitOnChar impl '|').map fun part =>
    match splitOnChar part '=' with
    | [k, h] =>
      let b := hex! h
      if b.isEmpty then "ok" else
      let dec := if k.startsWith "r" then decodeRtmp b else if k.startsWith "w" then decodeWs b else decodeFlv b
      match dec with
      | none => "bad:" ++ k ++ "-stream-not-well-framed"
      | some got =>
        let kk := kindOf (k.take 1).toString
        let idn := nat! (k.drop 1).toString
        if kk != .record && (kk != .rtmp || cfg.mergeSize == 0) && !neverHeldBack evs kk idn got then
          "bad:held-back-although-the-stream-has-no-video:" ++ k else
        -- a protocol whose server is disabled has no cache and, in a real server, no subscribers
        let cached := if kk == .rtmp then cfg.rtmpCache else cfg.flvCache
        if kk != .record && cached && !seqHdrInForce pub (publishedInc evs) got then
          "bad:frame-not-preceded-by-the-sequence-header-in-force:" ++ k else
        if kk != .record && !firstVideoIsKey evs pub (publishedInc evs) kk idn got then
          "bad:first-video-frame-is-not-a-key-frame:" ++ k else
        if kk != .record && !noStale evs pub (publishedInc evs) kk idn got then
          "bad:received-data-of-an-earlier-publisher:" ++ k else
        let v := contiguousRun (if k.startsWith "r" then cfg.rtmpCap else if k.startsWith "R" then 0 else cfg.flvCap) pub got; if v.startsWith "bad" then v ++ ":" ++ k else v
    | _ => "bad:unparsable"
  (verdicts.find? (·.startsWith "bad")).getD "ok"

def handleC01 : Handler := fun comp a impl =>
  match comp, a with
  | "grp.run", [cfg, evs] =>
    let es := parseEvs evs
    let c := parseCfg cfg
    let s := run c es
    some { model := showRun s es, verdict := oracle c es impl }
  | "c02.boundary", [codec, body] =>
    let b := hex! body
    let m := if codec == "avc" then RtspIn.avcBoundaryOfBody b else RtspIn.hevcBoundaryOfBody b
    let model := match m with | .ok true => "1" | .ok false => "0" | .error _ => "panic"
    -- the property: a waiting consumer is started only at a packet that BEGINS a key picture or a parameter set (a
    -- single such NAL unit, an aggregation whose first unit is one, or the FIRST fragment of one), and at every such packet
    let byteAt (i : Nat) : Nat := (b.getD i 0).toNat
    let spec : Bool :=
      if b.isEmpty then false else
      if codec == "avc" then
        let key (t : Nat) : Bool := t == 5 || t == 7 || t == 8
        let t := byteAt 0 % 32
        key t || (t == 24 && b.length > 3 && key (byteAt 3 % 32)) || (t == 28 && b.length > 1 && key (byteAt 1 % 32) && byteAt 1 ≥ 128)
      else
        let key (t : Nat) : Bool := t == 32 || t == 33 || t == 34 || (16 ≤ t && t ≤ 23)
        let t := byteAt 0 / 2 % 64
        key t || (t == 49 && b.length > 2 && key (byteAt 2 % 64) && byteAt 2 ≥ 128)
    some { model := model, verdict := if impl == (if spec then "1" else "0") then "ok" else "bad:key-frame-gate-opens-at-the-wrong-packet" }
  | "gopts.run", [gopNum, cap, evs] =>
    let n := nat! gopNum; let c := nat! cap
    let es := (splitOnChar evs ',').map (splitOnChar · ':')
    -- the model: remux.GopCacheMpegts as modelled for C05 (ring with first / last indices, Go index expressions)
    let r0 : GopRing.Ring Bytes := GopRing.Ring.new n c
    let rM := es.foldl (fun (acc : Except Fault (GopRing.Ring Bytes)) e =>
      match acc with
      | .error f => .error f
      | .ok r =>
        match e with
        | ["b", h] => r.feedMpegts (hex! h) true
        | ["n", h] => r.feedMpegts (hex! h) false
        | ["c"] => .ok { r with first := 0, last := 0 }
        | _ => .ok r) (.ok r0)
    let showG (G : List (List Bytes)) : String :=
      if G.isEmpty then "-" else String.intercalate "/" (G.map fun gop => String.intercalate "." (gop.map Hex.ofBytes))
    let model := match rM with
      | .error _ => "panic"
      | .ok r =>
        match r.count with
        | .error _ => "panic"
        | .ok k =>
          match (List.range k).mapM (fun i => r.dataAt i) with
          | .ok G => showG G
          | .error _ => "panic"
    -- the property: the cache IS a queue of at most gopNum GOPs, a GOP = the frames since its boundary (at most cap,
    -- 0 = unbounded), empty after Clear(): nothing of an earlier input, nothing out of order
    let spec := es.foldl (fun (G : List (List Bytes)) e =>
      match e with
      | ["b", h] => GopCache.specFeed n c G false false true (hex! h)
      | ["n", h] => GopCache.specFeed n c G false false false (hex! h)
      | ["c"] => []
      | _ => G) []
    some { model := model, verdict := if impl == showG spec then "ok" else "bad:ts-gop-cache-is-not-the-queue-of-the-last-gops" }
  | "lazy.msg", [typ, ts, payload] =>
    let m : InMsg := { typ := nat! typ, ts := nat! ts, payload := hex! payload }
    let model := s!"{Hex.ofBytes (chunksWithSdf m)} {Hex.ofBytes (chunksWithoutSdf m)} {Hex.ofBytes (tagWithoutSdf m)}"
    -- oracle: the strict readers read each form back as ONE message / tag with the message's type and timestamp whose
    -- payload is the published payload with the @setDataFrame rule applied
    let v := match impl.splitOn " " with
      | [cw, cwo, two] =>
        let chunkOk (h : String) (want : Bytes) : Bool :=
          match decodeRtmp (hex! h) with
          | some [(t, s, p)] => t == m.typ && s == m.ts && p == want
          | _ => false
        let tagOk (h : String) (want : Bytes) : Bool :=
          match FlvSpec.readTags (hex! h).length (hex! h) with
          | some [t] => t.typ.toNat == m.typ && t.ts == m.ts && t.payload == want
          | _ => false
        if !chunkOk cw (withSdf m.typ m.payload) then "bad:chunks-with-sdf-do-not-decode-to-the-message"
        else if !chunkOk cwo (withoutSdf m.typ m.payload) then "bad:chunks-without-sdf-do-not-decode-to-the-message"
        else if !tagOk two (withoutSdf m.typ m.payload) then "bad:tag-without-sdf-does-not-decode-to-the-message"
        else "ok"
      | _ => "bad:" ++ impl
    some { model := model, verdict := v }
  | _, _ => none

end Drv.C01
