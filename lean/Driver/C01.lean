import Driver.Common
import LalModel.Model.Group
/- Driver handler for the group streaming model (C01, C02, C16): grp.run -/
open Lal Drv

namespace Drv.C01
open Lal.Group

def parseCfg (s : String) : Cfg :=
  (splitOnChar s ',').foldl (fun c kv =>
    match splitOnChar kv '=' with
    | [k, v] =>
      let n := nat! v
      match k with
      | "rc" => { c with rtmpCache := n != 0 }
      | "fc" => { c with flvCache := n != 0 }
      | "rg" => { c with rtmpGopNum := n }
      | "rk" => { c with rtmpCap := n }
      | "fg" => { c with flvGopNum := n }
      | "fk" => { c with flvCap := n }
      | "ms" => { c with mergeSize := n }
      | "rec" => { c with recordFlv := n != 0 }
      | _ => c
    | _ => c) {}

def kindOf (s : String) : Kind :=
  if s == "r" then .rtmp else if s == "f" then .flv else if s == "w" then .wsflv else .record

def kindTag : Kind → String
  | .rtmp => "r" | .flv => "f" | .wsflv => "w" | .record => "R"

def parseEv (s : String) : Option Ev :=
  match splitOnChar s ':' with
  | ["P"] => some .addPub
  | ["p"] => some .delPub
  | ["M", t, ts, p] => some (.msg { typ := nat! t, ts := nat! ts, payload := hex! p })
  | ["J", k, id] => some (.join (kindOf k) (nat! id))
  | ["L", k, id] => some (.leave (kindOf k) (nat! id))
  | _ => none

def parseEvs (s : String) : List Ev := (splitOnChar s ';').filterMap parseEv

/-- the harness only sends `p` / `M` / `L` for sessions it holds; mirror its bookkeeping -/
def joined (evs : List Ev) : List (Kind × Nat) :=
  evs.filterMap fun e => match e with
    | .join k id => some (k, id)
    | _ => none

def showRun (s : St) (evs : List Ev) : String :=
  let subs := (joined evs).map fun (k, id) => (kindTag k ++ toString id, (s.log k id).flatten)
  let subs := subs.toArray.qsort (fun a b => a.1 < b.1) |>.toList
  let recs := (List.range s.nextRecord).map fun i => ("R" ++ toString i, (s.log .record i).flatten)
  let parts := (subs ++ recs).map fun (k, b) => k ++ "=" ++ Hex.ofBytes b
  if parts.isEmpty then "-" else String.intercalate "|" parts

def handleC01 : Handler := fun comp a _impl =>
  match comp, a with
  | "grp.run", [cfg, evs] =>
    let es := parseEvs evs
    let s := run (parseCfg cfg) es
    some { model := showRun s es }
  | _, _ => none

end Drv.C01
