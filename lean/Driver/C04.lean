import Driver.Common
import Driver.Sha256
import LalModel.Model.RtmpServer
/-
  Driver handlers for C04:  rtmp.sess <env> <frag> <stream>  and  rtmp.srv <pub>.<sub> <stream>
  (the text formats are described in harness/c04.go). The fragmentation argument is ignored by the model: the
  session reads through io.ReadAtLeast / io.ReadFull, whose result does not depend on how the bytes arrive.
  Oracle: the implementation's outcome must be `alive` or `closed` (verdict `bad:` on `panic`).
-/
open Lal Drv Lal.RtmpServer

namespace Drv.C04

def parseStream (s : String) : Bytes :=
  if s == "-" then [] else
  (splitOnChar s ',').flatMap fun seg =>
    match seg.toList with
    | 'x' :: r => hex! (String.ofList r)
    | 'z' :: r => List.replicate (nat! (String.ofList r)) 0
    | 'r' :: r =>
      match (String.ofList r).splitOn "x" with
      | [n, h] => List.replicate (nat! n) ((hex! h).headD 0)
      | _ => []
    | _ => []

def parseEnv (s : String) : Env :=
  match splitOnChar s '.' with
  | [p, q, w] =>
    { pubMode := if p == "a" then 0 else if p == "d" then 1 else 2,
      subDeny := q == "d",
      wfail := if w == "-" then none else some (nat! w) }
  | _ => {}

def compress (items : List String) : String :=
  let rec go (fuel : Nat) (l : List String) (acc : List String) : List String :=
    match fuel, l with
    | 0, _ => acc.reverse
    | _, [] => acc.reverse
    | fuel + 1, x :: r =>
      let n := (r.takeWhile (· == x)).length
      let r' := r.drop n
      go fuel r' ((if n > 0 then s!"{x}*{n + 1}" else x) :: acc)
  if items.isEmpty then "-" else String.intercalate "," (go (items.length + 1) items [])

def showEv : Ev → Option String
  | .connect => some "C"
  | .newPub => some "P"
  | .newSub => some "S"
  | .av t l => some s!"A{t}:{l}"
  | .reply .. => none

def showOut (o : Out) : String :=
  let final := if o.final == .alive then "alive" else "closed"
  let h := if o.hs = 0 then "-" else if o.hs = 1 then "s" else "c"
  let evs := o.evs.filterMap showEv
  let sy := o.evs.filterMap fun | .reply t l false => some s!"{t}:{l}" | _ => none
  let as := o.evs.filterMap fun | .reply _ l true => some s!"q:{l}" | _ => none
  let queued := o.evs.any fun | .newPub => true | .newSub => true | _ => false
  let a := if o.final == .alive || !queued then compress as else "~"
  s!"{final} h={h} e={compress evs} s={compress sy} a={a}"

def s1zero : Bytes := List.replicate 1536 0

def handleC04 : Handler := fun comp a impl =>
  match comp, a with
  | "rtmp.sess", [env, _frag, stream] =>
    let m := match run Sha256.hmac (parseEnv env) s1zero (parseStream stream) with
      | .ok o => showOut o
      | .error _ => "panic"
    let v := if impl == "panic" || impl.startsWith "stackfault" || impl.startsWith "crash" then "bad:server-process-would-terminate" else "ok"
    some { model := m, verdict := v }
  | "rtmp.pbuf", [cap, script] =>
    let ops := (splitOnChar script ',').map fun o =>
      match o.toList with
      | 'w' :: r => PStep.op (.w (nat! (String.ofList r)))
      | 'b' :: _ => PStep.op .b
      | 'm' :: r => PStep.modWritePos (nat! (String.ofList r))
      | _ => PStep.reset
    let m := match pbufRun { cap := nat! cap, wpos := 0 } ops with
      | .ok p => (match p.bytesLen with
        | .ok n => s!"{p.wpos} {n}"
        | .error _ => "panic")
      | .error _ => "panic"
    -- ModWritePos beyond the capacity is a misuse of the Buffer API (lal only uses ModWritePos(12) on 256 bytes): outside the guard
    let legit := ops.all fun | PStep.modWritePos pos => pos ≤ nat! cap | _ => true
    some { model := m, verdict := if !legit then "na" else if impl == "panic" then "bad:packer-buffer-overrun" else "ok" }
  | "rtmp.srv", [env, stream] =>
    let e := match splitOnChar env '.' with
      | [p, q] => parseEnv s!"{p}.{q}.-"
      | _ => {}
    let m := match run Sha256.hmac e s1zero (parseStream stream) with
      | .ok o =>
        let del := match delCallback o with
          | some true => ["DP"]
          | some false => ["DS"]
          | none => []
        s!"served e={compress (o.evs.filterMap showEv ++ del)}"
      | .error _ => "dead"
    let v := if impl.startsWith "served " then "ok" else "bad:" ++ (if impl == "dead" then "server-process-terminated" else "healthy-connection-not-served")
    some { model := m, verdict := v }
  | _, _ => none

end Drv.C04
