import LalModel.Model.Bytes
/-
  SHA-256 (FIPS 180-4) and HMAC (RFC 2104) for the driver only: the C04 model takes HMAC-SHA256 as a parameter;
  the driver instantiates it so that the model's choice between the simple and the complex handshake can be compared
  with the implementation's. Not used by any theorem.
-/
open Lal

namespace Drv.Sha256

def k : Array UInt32 := #[
  0x428a2f98, 0x71374491, 0xb5c0fbcf, 0xe9b5dba5, 0x3956c25b, 0x59f111f1, 0x923f82a4, 0xab1c5ed5,
  0xd807aa98, 0x12835b01, 0x243185be, 0x550c7dc3, 0x72be5d74, 0x80deb1fe, 0x9bdc06a7, 0xc19bf174,
  0xe49b69c1, 0xefbe4786, 0x0fc19dc6, 0x240ca1cc, 0x2de92c6f, 0x4a7484aa, 0x5cb0a9dc, 0x76f988da,
  0x983e5152, 0xa831c66d, 0xb00327c8, 0xbf597fc7, 0xc6e00bf3, 0xd5a79147, 0x06ca6351, 0x14292967,
  0x27b70a85, 0x2e1b2138, 0x4d2c6dfc, 0x53380d13, 0x650a7354, 0x766a0abb, 0x81c2c92e, 0x92722c85,
  0xa2bfe8a1, 0xa81a664b, 0xc24b8b70, 0xc76c51a3, 0xd192e819, 0xd6990624, 0xf40e3585, 0x106aa070,
  0x19a4c116, 0x1e376c08, 0x2748774c, 0x34b0bcb5, 0x391c0cb3, 0x4ed8aa4a, 0x5b9cca4f, 0x682e6ff3,
  0x748f82ee, 0x78a5636f, 0x84c87814, 0x8cc70208, 0x90befffa, 0xa4506ceb, 0xbef9a3f7, 0xc67178f2]

def rotr (x : UInt32) (n : UInt32) : UInt32 := (x >>> n) ||| (x <<< (32 - n))

def h0 : Array UInt32 := #[0x6a09e667, 0xbb67ae85, 0x3c6ef372, 0xa54ff53a, 0x510e527f, 0x9b05688c, 0x1f83d9ab, 0x5be0cd19]

/-- one 64-byte block -/
def block (h : Array UInt32) (blk : Array UInt8) : Array UInt32 := Id.run do
  let mut w : Array UInt32 := Array.replicate 64 0
  for i in [0:16] do
    w := w.set! i ((blk[4*i]!.toUInt32 <<< 24) ||| (blk[4*i+1]!.toUInt32 <<< 16) ||| (blk[4*i+2]!.toUInt32 <<< 8) ||| blk[4*i+3]!.toUInt32)
  for i in [16:64] do
    let x := w[i-15]!
    let y := w[i-2]!
    let s0 := rotr x 7 ^^^ rotr x 18 ^^^ (x >>> 3)
    let s1 := rotr y 17 ^^^ rotr y 19 ^^^ (y >>> 10)
    w := w.set! i (w[i-16]! + s0 + w[i-7]! + s1)
  let mut a := h[0]!
  let mut b := h[1]!
  let mut c := h[2]!
  let mut d := h[3]!
  let mut e := h[4]!
  let mut f := h[5]!
  let mut g := h[6]!
  let mut hh := h[7]!
  for i in [0:64] do
    let s1 := rotr e 6 ^^^ rotr e 11 ^^^ rotr e 25
    let ch := (e &&& f) ^^^ ((~~~ e) &&& g)
    let t1 := hh + s1 + ch + k[i]! + w[i]!
    let s0 := rotr a 2 ^^^ rotr a 13 ^^^ rotr a 22
    let mj := (a &&& b) ^^^ (a &&& c) ^^^ (b &&& c)
    let t2 := s0 + mj
    hh := g; g := f; f := e; e := d + t1; d := c; c := b; b := a; a := t1 + t2
  return #[h[0]! + a, h[1]! + b, h[2]! + c, h[3]! + d, h[4]! + e, h[5]! + f, h[6]! + g, h[7]! + hh]

def sha256 (msg : Bytes) : Bytes := Id.run do
  let len := msg.length
  let bits := len * 8
  let padLen := (55 + 64 - len % 64) % 64
  let mut data : Array UInt8 := msg.toArray
  data := data.push 0x80
  for _ in [0:padLen] do
    data := data.push 0
  for i in [0:8] do
    data := data.push (UInt8.ofNat ((bits >>> (8 * (7 - i))) % 256))
  let mut h := h0
  for i in [0:data.size / 64] do
    h := block h (data.extract (64 * i) (64 * i + 64))
  let mut out : Array UInt8 := #[]
  for x in h do
    out := out.push (x >>> 24).toUInt8
    out := out.push (x >>> 16).toUInt8
    out := out.push (x >>> 8).toUInt8
    out := out.push x.toUInt8
  return out.toList

def hmac (key data : Bytes) : Bytes :=
  let key := if key.length > 64 then sha256 key else key
  let key := key ++ List.replicate (64 - key.length) 0
  let ipad := key.map (· ^^^ 0x36)
  let opad := key.map (· ^^^ 0x5c)
  sha256 (opad ++ sha256 (ipad ++ data))

end Drv.Sha256
