import Driver.Common
import LalModel.Model.AdmissionRun
/- Driver handler for C03 (admission of inputs):
     adm.grp <events>   L1: one real logic.Group, direct calls         (Grp operations of Model/Admission.lean)
     adm.srv <events>   L2: one real logic.ServerManager, real clients (Model/AdmissionRun.lean `step`)
   plus the property's executable oracle applied to the implementation's output. -/
open Lal Drv

namespace Drv.C03
open Lal.Adm


def showOpt : Option Sid → String
  | some x => toString x
  | none => "-"

def showList (l : List Sid) : String := String.intercalate "," (l.map toString)

def sortNat (l : List Nat) : List Nat := (l.toArray.qsort (· < ·)).toList

/-! ## L1 -/

def snapshot (g : Grp) : String :=
  "r" ++ showOpt g.rtmpPub ++ " s" ++ showOpt g.rtspPub ++ " c" ++ showOpt g.custPub ++ " g" ++ showOpt g.psPub ++
  " lr" ++ showOpt g.pullRtmp ++ " ls" ++ showOpt g.pullRtsp ++
  " p" ++ (if g.pulling then "1" else "0") ++ " u" ++ showOpt g.pullingUk ++ " e" ++ (if g.apiEnable then "1" else "0") ++
  " n" ++ toString g.startCount ++ " h" ++ (if g.hook.isSome then "1" else "0") ++
  " rs[" ++ showList (sortNat g.rtmpSubs) ++ "] ss[" ++ showList (sortNat g.rtspSubs) ++ "]" ++
  " ia" ++ (if g.isInactive then "1" else "0")

def showObs : GObs → Option String
  | .relayStart x => some ("rs" ++ toString x)
  | .relayStop x => some ("rp" ++ toString x)
  | .hookStart k => some ("hs" ++ showOpt k)
  | .hookStop => some "hp"
  | _ => none

/-- a pull attempt the group itself started; its goroutine is parked at the harness's origin -/
structure Att where
  id : Sid
  rtsp : Bool
  answered : Bool := false

structure L1 where
  g : Grp := {}
  inflight : List Att := []                  -- the attempts that have not ended, oldest first
  kinds : List (Sid × Grp.KKind) := []
  custs : List (Sid × Bool) := []            -- customize contexts the harness holds ↦ disposed
  dead : Bool := false                       -- Dispose() was called

def L1.kind (s : L1) (x : Sid) : Grp.KKind := ((s.kinds.find? (·.1 == x)).map (·.2)).getD .other

def retryOf (s : String) : Option Nat := if s == "f" then none else some (nat! s)

def bstr (b : Bool) (t f : String) : String := if b then t else f

/-- one L1 event: new state, result token, observer calls -/
def stepL1 (code : Code) (s : L1) (ev : List String) : L1 × String × List GObs :=
  let g := s.g
  let spawn (s : L1) (a : Option Sid) : L1 :=
    match a with
    | some n => { s with inflight := s.inflight ++ [{ id := n, rtsp := s.g.pullIsRtsp }], kinds := (n, .pull) :: s.kinds }
    | none => s
  -- the attached pull session was disposed (StopPull, kick): its goroutine — one of the group's own
  -- attempts — calls Del…PullSession; the harness waits for it, the two critical sections are one event
  let finish (r : L1 × String × List GObs) : L1 × String × List GObs :=
    r.2.2.foldl (fun acc o =>
      match o with
      | .dispose x =>
        if acc.1.inflight.any (·.id == x) then
          let d := acc.1.g.delPull code x
          ({ acc.1 with g := d.1, inflight := acc.1.inflight.filter (·.id != x) }, acc.2.1, acc.2.2 ++ d.2)
        else acc
      | _ => acc) r
  let arrival (ev : List String) : Bool :=
    match ev with
    | t :: _ => ["RP", "SP", "CP", "GP", "LA", "LS", "LO", "RS", "SD", "SY", "T", "D"].contains t
    | [] => false
  let unknownDeparture (ev : List String) : Bool :=
    match ev with
    | t :: x :: _ => ["Rp", "Sp", "LD", "Rs", "Ss", "SY"].contains t && !(s.kinds.any (·.1 == nat! x))
    | _ => false
  if (s.dead && arrival ev) || unknownDeparture ev then (s, "na", []) else
  match ev with
  | ["RP", x] => let x := nat! x; let r := g.addRtmpPub x
    ({ s with g := r.1, kinds := (x, .rtmp) :: s.kinds }, bstr r.2.1 "ok" "dup", r.2.2)
  | ["Rp", x] => let r := g.delRtmpPub (nat! x); ({ s with g := r.1 }, "-", r.2)
  | ["SP", x] => let x := nat! x; let r := g.addRtspPub x
    ({ s with g := r.1, kinds := (x, .rtspPub) :: s.kinds }, bstr r.2.1 "ok" "dup", r.2.2)
  | ["Sp", x] => let r := g.delRtspPub (nat! x); ({ s with g := r.1 }, "-", r.2)
  | ["CP", x] => let x := nat! x; let r := g.addCustPub x
    ({ s with g := r.1, custs := if r.2.1 then (x, false) :: s.custs else s.custs }, bstr r.2.1 "ok" "dup", r.2.2)
  | ["Cp", x] => let x := nat! x
    if (s.custs.find? (·.1 == x)).isNone then (s, "na", []) else
    let r := g.delCustPub x
    let disp := code.custDispose && g.custPub == some x
    ({ s with g := r.1, custs := s.custs.map fun (k, d) => if k == x then (k, d || disp) else (k, d) }, "-", r.2)
  | ["CM", x] => let x := nat! x
    match s.custs.find? (·.1 == x) with
    | none => (s, "na", [])
    | some (_, d) => (s, if !d && g.hook.isSome then "fwd" else "drop", [])
  | ["GP", x] => let x := nat! x; let r := g.startRtpPub code x
    ({ s with g := r.1, kinds := (x, .psPub) :: s.kinds }, bstr r.2.1 "ok" "dup", r.2.2)
  | ["GK", x] => let x := nat! x; let r := g.kick code .psPub x
    if r.2.1 then let r2 := r.1.delPsPub x; ({ s with g := r2.1 }, "true", r2.2) else ({ s with g := r.1 }, "false", [])
  | ["LA", x, r] => let x := nat! x
    let ans := match g.pullRefusal code x with
      | none => "ok" | some .dup => "dup" | some .stopped => "err"
    let r := if r == "1" then g.addRtspPull code x else g.addRtmpPull code x
    ({ s with g := r.1, kinds := (x, .pull) :: s.kinds }, ans, r.2.2)
  | ["LD", x, _] => let r := g.delPull code (nat! x); ({ s with g := r.1 }, "-", r.2)
  | ["LS", retry, nid] => let r := g.startPull false (retryOf retry) (nat! nid)
    (spawn { s with g := r.1 } r.2.1, bstr r.2.1.isSome "ok" "fail", r.2.2)
  | ["LS", retry, nid, rt] => let r := g.startPull (rt == "1") (retryOf retry) (nat! nid)
    (spawn { s with g := r.1 } r.2.1, bstr r.2.1.isSome "ok" "fail", r.2.2)
  | ["LO"] =>
    match s.inflight.find? (!·.answered) with
    | none => (s, "na", [])
    | some a =>
      let r := if a.rtsp then g.addRtspPull code a.id else g.addRtmpPull code a.id
      if r.2.1 then
        ({ s with g := r.1, inflight := s.inflight.map fun b => if b.id == a.id then { b with answered := true } else b }, "ok", r.2.2)
      else
        -- refused: the callback disposes the session and the same goroutine calls Del…PullSession
        let d := g.delPull code a.id
        ({ s with g := d.1, inflight := s.inflight.filter (·.id != a.id) }, "refused", d.2)
  | ["LF"] =>
    match s.inflight with
    | [] => (s, "na", [])
    | a :: rest => let r := g.delPull code a.id; ({ s with g := r.1, inflight := rest }, "-", r.2)
  | ["LT"] => let r := g.stopPull code; finish ({ s with g := r.1 }, "id" ++ showOpt r.2.1, r.2.2)
  | ["RS", x, nid] => let x := nat! x; let r := g.addRtmpSub x (nat! nid)
    (spawn { s with g := r.1, kinds := (x, .rtmp) :: s.kinds } r.2.1, "-", r.2.2)
  | ["Rs", x] => ({ s with g := g.delRtmpSub (nat! x) }, "-", [])
  | ["SD", x] => let x := nat! x
    ({ s with g := g.describeRtspSub x, kinds := (x, .rtspSub) :: s.kinds }, "-", [])
  | ["SY", _, nid] => let r := g.playRtspSub (nat! nid); (spawn { s with g := r.1 } r.2.1, "-", r.2.2)
  | ["Ss", x] => ({ s with g := g.delRtspSub (nat! x) }, "-", [])
  | ["K", x] => let x := nat! x; let r := g.kick code (s.kind x) x
    finish ({ s with g := r.1 }, bstr r.2.1 "true" "false", r.2.2)
  | ["T", nid] => let r := g.tick (nat! nid); (spawn { s with g := r.1 } r.2.1, "-", r.2.2)
  | ["D"] => let r := g.dispose; ({ s with g := r.1, dead := true }, "-", r.2)
  | _ => (s, "bad-event", [])

def runL1 (code : Code) (evs : List (List String)) : String :=
  let r := evs.foldl (fun (acc : L1 × List String) ev =>
    let (s, res, obs) := stepL1 code acc.1 ev
    let o := String.intercalate "," (obs.filterMap showObs)
    (s, acc.2 ++ [res ++ ";" ++ o ++ ";" ++ snapshot s.g])) ({}, [])
  String.intercalate " | " r.2

/-! ### the property, checked on what the implementation printed (L1) -/

structure Snap where
  slots : List (String × String)     -- slot tag ↦ id ("-" when empty)
  hook : Bool
  raw : String

def parseSnap (s : String) : Snap :=
  let toks := splitOnChar s ' '
  let slot (tag : String) : (String × String) :=
    match toks.find? (fun t => t.startsWith tag && !(tag == "s" && t.startsWith "ss[") && !(tag == "r" && t.startsWith "rs[")) with
    | some t => (tag, (t.drop tag.length).toString)
    | none => (tag, "?")
  { slots := [slot "r", slot "s", slot "c", slot "g", slot "lr", slot "ls"],
    hook := toks.contains "h1", raw := s }

def Snap.inputs (s : Snap) : List String := (s.slots.filter (·.2 != "-")).map (·.2)
def Snap.core (s : Snap) : String := String.intercalate " " (s.slots.map fun (a, b) => a ++ b) ++ (if s.hook then " h1" else " h0")

/-- which session (if any) an L1 event makes depart -/
def departs (ev : List String) : Option String :=
  match ev with
  | ["Rp", x] => some x | ["Sp", x] => some x | ["Cp", x] => some x | ["GK", x] => some x
  | ["LD", x, _] => some x | ["Rs", x] => some x | ["Ss", x] => some x | ["K", x] => some x
  | _ => none

def oracleL1 (evs : List (List String)) (impl : String) : String :=
  let parts := impl.splitOn " | "
  if parts.length != evs.length then "bad:unparsable" else
  let step (acc : Snap × List String × String × Bool) (p : List String × String) : Snap × List String × String × Bool :=
    let (prev, relay, verdict, dead) := acc
    if verdict != "ok" then acc else
    let (ev, out) := p
    let dead := dead || ev == ["D"]      -- after Dispose() the group object is garbage (it is out of the manager's map)
    match out.splitOn ";" with
    | [res, obs, snap] =>
      let sn := parseSnap snap
      let obsL := if obs == "" then [] else splitOnChar obs ','
      let v :=
        if sn.inputs.length > 1 then "bad:two-inputs-installed:" ++ sn.core
        else if (res == "dup" || res == "err") && (sn.core != prev.core || !obsL.isEmpty) then "bad:refusal-not-silent"
        -- a refused attempt of the group's own ends at once: exactly its relay_pull_stop, nothing else moves
        else if res == "refused" && (sn.core != prev.core || obsL.any (fun o => !o.startsWith "rp")) then "bad:refusal-not-silent"
        else if res == "fwd" && !(match ev with | [_, x] => sn.inputs.contains x | _ => false) then "bad:forwarded-media-of-a-session-that-is-not-the-input"
        else match departs ev with
          | some x =>
            if !prev.inputs.contains x && (sn.core != prev.core || obsL.contains "hp") then "bad:departure-of-a-foreign-session-disturbed-the-input:" ++ x
            else "ok"
          | none =>
            -- the failure of a pull attempt that never attached (LF) is the departure of a foreign session too
            if ev == ["LF"] && (sn.core != prev.core || obsL.contains "hp") && prev.slots.all (fun (t, v) => !(t == "lr" || t == "ls") || v == "-")
            then "bad:failed-pull-attempt-disturbed-the-input" else "ok"
      -- relay_pull_start / relay_pull_stop: at most one of each per session, start never after stop
      let (relay, v) := obsL.foldl (fun (acc : List String × String) o =>
        if acc.2 != "ok" then acc else
        if o.startsWith "rs" || o.startsWith "rp" then
          let id := (o.drop 2).toString
          if acc.1.contains o then (acc.1, "bad:relay-notification-repeated:" ++ o)
          else if o.startsWith "rs" && acc.1.contains ("rp" ++ id) then (acc.1, "bad:relay-start-after-stop:" ++ id)
          else (o :: acc.1, "ok")
        else acc) (relay, v)
      -- the pipeline is started for the accepted input and stopped once
      let v := if v != "ok" then v else
        if obsL.contains "hp" && !prev.hook then "bad:pipeline-stopped-twice"
        -- Dispose() (shutdown) ends whatever input there is, a relay pull too: the running pipeline is stopped, once
        else if ev == ["D"] && prev.hook && !obsL.contains "hp" then "bad:dispose-left-the-pipeline-of-the-input-running"
        else if (obsL.any (·.startsWith "hs")) && prev.hook && !obsL.contains "hp" then "bad:pipeline-started-while-running"
        else if !dead && sn.hook != !sn.inputs.isEmpty then "bad:pipeline-state-does-not-match-input:" ++ sn.core
        -- a group that reports itself inactive is erased by the manager: with a relay-pull attempt still in flight the
        -- attempt would later attach to the orphan and the name could be given to a second input
        else if !dead && (snap.splitOn " ").contains "p1" && (snap.splitOn " ").contains "ia1" then "bad:inactive-with-a-pull-attempt-in-flight"
        else "ok"
      (sn, relay, v, dead)
    | _ => (prev, relay, "bad:unparsable", dead)
  let init : Snap := parseSnap "r- s- c- g- lr- ls- h0"
  ((evs.zip parts).foldl step (init, [], "ok", false)).2.2.1

/-! ## L2 -/

def parseBool (s : String) : Bool := s == "1"

def parseEv (f : List String) : Option Ev :=
  match f with
  | ["rO", c] => some (.rOpen (nat! c))
  | ["rP", c, st, a] => some (.rPublish (nat! c) (nat! st) (parseBool a))
  | ["rY", c, st, a, n] => some (.rPlay (nat! c) (nat! st) (parseBool a) (nat! n))
  | ["rM", c] => some (.rMedia (nat! c))
  | ["rC", c] => some (.rClose (nat! c))
  | ["sO", c] => some (.sOpen (nat! c))
  | ["sA", c, p, st, a] => some (.sAnnounce (nat! c) (nat! p) (nat! st) (parseBool a))
  | ["sD", c, q, st, a] => some (.sDescribe (nat! c) (nat! q) (nat! st) (parseBool a))
  | ["sS", c] => some (.sSetup (nat! c))
  | ["sR", c] => some (.sRecord (nat! c))
  | ["sY", c, n] => some (.sPlay (nat! c) (nat! n))
  | ["sM", c] => some (.sMedia (nat! c))
  | ["sC", c] => some (.sClose (nat! c))
  | ["cA", k, st] => some (.custAdd (nat! k) (nat! st))
  | ["cD", k] => some (.custDel (nat! k))
  | ["cM", k] => some (.custFeed (nat! k))
  | ["gP", k, st] => some (.rtpPub (nat! k) (nat! st))
  | ["gE", k] => some (.psEnd (nat! k))
  | ["gM", k] => some (.psMedia (nat! k))
  | ["lS", st, r, retry, n] => some (.startPull (nat! st) (parseBool r) (retryOf retry) (nat! n))
  | ["lA", a] => some (.pullAttach (nat! a))
  | ["lD", a] => some (.pullDone (nat! a))
  | ["lM", a] => some (.pullMedia (nat! a))
  | ["lT", st] => some (.stopPull (nat! st))
  | ["K", st, x] => some (.kick (nat! st) (nat! x))
  | ["T", st, n] => some (.tick (nat! st) (nat! n))
  | ["S", st] => some (.stat (nat! st))
  | _ => none

def showRes : Res → String
  | .ok => "ok" | .refused => "refused" | .fail => "fail" | .closed => "closed"
  | .fwd st => "fwd" ++ toString st | .drop => "drop" | .na => "na" | .crash => "panic"

def showKind : NKind → String
  | .pubStart => "pub_start" | .pubStop => "pub_stop" | .subStart => "sub_start" | .subStop => "sub_stop"
  | .pullStart => "relay_pull_start" | .pullStop => "relay_pull_stop"

/-- session ids are renamed to their order of first appearance in the output -/
def rename (seen : List Sid) (x : Sid) : List Sid × String :=
  let i := seen.findIdx (· == x)
  if i < seen.length then (seen, "#" ++ toString i) else (seen ++ [x], "#" ++ toString seen.length)

def renameList (seen : List Sid) (l : List Sid) : List Sid × List String :=
  l.foldl (fun acc x => let r := rename acc.1 x; (r.1, acc.2 ++ [r.2])) (seen, [])

def renameOpt (seen : List Sid) : Option Sid → List Sid × String
  | some x => rename seen x
  | none => (seen, "-")

/-- what the harness can tell apart: a refused publish / play / ANNOUNCE / DESCRIBE and a protocol
    error both show as "the server closed the connection" -/
def showRes2 (e : Ev) (r : Res) : String :=
  match e, r with
  | .rPublish .., .refused => "closed" | .rPlay .., .refused => "closed"
  | .sAnnounce .., .refused => "closed" | .sDescribe .., .refused => "closed"
  | _, r => showRes r

/-- inside a subs=[…] list the ids already seen come first (by their number), unseen ones after -/
def renameSubs (seen : List Sid) (l : List Sid) : List Sid × List String :=
  let old := (l.filter seen.contains).toArray.qsort (fun a b => seen.findIdx (· == a) < seen.findIdx (· == b)) |>.toList
  let new := sortNat (l.filter (!seen.contains ·))
  renameList seen (old ++ new)

/-- `<res> | … || <notifications and stat views, in order>`, session ids renamed to their order of
    first appearance -/
def runL2 (code : Code) (evs : List Ev) : String :=
  let r := evs.foldl (fun (acc : Srv × List Sid × List String × List String) e =>
    let (s, seen, res, seq) := acc
    let (s', r) := step code s e
    let newN := s'.log.drop s.log.length
    let (seen, ns) := newN.foldl (fun (a : List Sid × List String) n =>
      let r := rename a.1 n.sid; (r.1, a.2 ++ [showKind n.kind ++ r.2])) (seen, [])
    let (seen, extra) := match e with
      | .stat st =>
        let v := statView s' st
        let (seen, p) := renameOpt seen v.1
        let (seen, l) := renameOpt seen v.2.1
        let (seen, subs) := renameSubs seen v.2.2
        (seen, ["S" ++ toString st ++ ":pub=" ++ p ++ ";pull=" ++ l ++ ";subs=[" ++ String.intercalate "," subs ++ "]"])
      | _ => (seen, [])
    (s', seen, res ++ [showRes2 e r], seq ++ ns ++ extra)) (init, [], [], [])
  String.intercalate " | " r.2.2.1 ++ " || " ++ String.intercalate "," r.2.2.2

/-- C03 on the implementation's notification sequence and stat lists: per session id the notifications
    form `start`, `start stop`, or (relay pull only) a lone `stop`, kinds matching; a refused arrival
    is not followed by any notification about a new session before the next event's own; a stat list
    names only sessions whose start was notified and whose stop was not (GB28181 publishers cause no
    notification at all and are exempt); forwarded media comes from the session the stat view shows. -/
def oracleL2 (evs : List Ev) (impl : String) : String :=
  match impl.splitOn " || " with
  | [resS, seqS] =>
    let res := resS.splitOn " | "
    if res.length != evs.length then "bad:unparsable" else
    -- a stat marker contains commas inside subs=[…]: split on ",", then glue
    let raw := if seqS == "" then [] else splitOnChar seqS ','
    let items := raw.foldl (fun (acc : List String) t =>
      match acc.reverse with
      | last :: _ => if last.contains '[' && !last.contains ']' then acc.dropLast ++ [last ++ "," ++ t] else acc ++ [t]
      | [] => [t]) []
    let r := items.foldl (fun (a : List (String × List String) × String) n =>
      if a.2 != "ok" then a else
      if n.startsWith "S" then
        let ids := (n.splitOn "#").drop 1 |>.map fun t => (t.takeWhile Char.isDigit).toString
        let live (id : String) : Bool :=
          match a.1.find? (·.1 == id) with
          | some (_, [k]) => k.endsWith "_start"
          | some _ => false
          | none => true       -- never notified: a GB28181 publisher (its presence is checked by the correspondence)
        if ids.all live then a else (a.1, "bad:stat-lists-a-session-that-is-not-attached:" ++ n)
      else
      match n.splitOn "#" with
      | [k, id] =>
        let h := ((a.1.find? (·.1 == id)).map (·.2)).getD []
        let legal := match h, k with
          | [], "pub_start" => true | [], "sub_start" => true | [], "relay_pull_start" => true
          | [], "relay_pull_stop" => true
          | ["pub_start"], "pub_stop" => true | ["sub_start"], "sub_stop" => true
          | ["relay_pull_start"], "relay_pull_stop" => true
          | _, _ => false
        if legal then ((id, h ++ [k]) :: a.1.filter (·.1 != id), "ok")
        else (a.1, "bad:notification-not-paired:" ++ String.intercalate "," (h ++ [k]) ++ "#" ++ id)
      | _ => (a.1, "bad:unparsable")) ([], "ok")
    if r.2 != "ok" then r.2 else
    -- as many sessions were notified as arrivals were answered `ok` (a refused one contributes nothing)
    let accepted := (evs.zip res).foldl (fun n (p : Ev × String) =>
      match p.1, p.2 with
      | .rPublish .., "ok" => n + 1 | .rPlay .., "ok" => n + 1 | .sAnnounce .., "ok" => n + 1
      | .sDescribe .., "ok" => n + 1 | _, _ => n) 0
    let attempts := (evs.filter fun e => match e with | .pullAttach _ => true | .pullDone _ => true | _ => false).length
    let notified := (r.1.filter fun (_, h) => h.head? != some "relay_pull_start" && h.head? != some "relay_pull_stop").length
    if notified > accepted then "bad:a-refused-session-was-notified" else
    let pulls := (r.1.filter fun (_, h) => h.head? == some "relay_pull_start" || h.head? == some "relay_pull_stop").length
    if pulls > attempts then "bad:more-relay-pull-sessions-notified-than-attempts-seen" else
    -- when every connection of the scenario has ended (and it used nothing but RTMP / RTSP connections), every session
    -- that was started has been stopped: "start/stop ... as matching pairs"
    let onlyConns := evs.all fun e => match e with
      | .rOpen _ | .rPublish .. | .rPlay .. | .rMedia _ | .rClose _ | .sOpen _ | .sAnnounce .. | .sDescribe .. | .sSetup _
      | .sRecord _ | .sPlay .. | .sMedia _ | .sClose _ | .stat _ => true
      | _ => false
    let opened := evs.filterMap fun e => match e with | .rOpen c => some c | .sOpen c => some c | _ => none
    let ended (c : Sid) : Bool := (evs.zip res).any fun (e, r) =>
      match e with
      | .rClose c' => c' == c | .sClose c' => c' == c
      | .rPublish c' _ _ | .rPlay c' _ _ _ | .rMedia c' | .sAnnounce c' _ _ _ | .sDescribe c' _ _ _ | .sSetup c' | .sRecord c'
      | .sPlay c' _ | .sMedia c' => c' == c && r == "closed"
      | _ => false
    if onlyConns && opened.all ended && r.1.any (fun (_, h) => h.length == 1 && (h.head?.getD "").endsWith "_start") then
      "bad:session-started-but-never-stopped-although-every-connection-ended" else
    -- media is broadcast only for a source the server itself accepted (its own answers) and that has not left
    let fw := (evs.zip res).foldl (fun (a : List Sid × String) (p : Ev × String) =>
      if a.2 != "ok" then a else
      let (acc, _) := a
      match p.1, p.2 with
      | .rPublish c _ _, "ok" => (c :: acc, "ok")
      | .rClose c, _ => (acc.filter (· != c), "ok")
      | .custAdd k _, "ok" => (k :: acc, "ok")
      | .custDel k, _ => (acc.filter (· != k), "ok")
      | .pullAttach x, "ok" => (x :: acc, "ok")
      | .pullDone x, _ => (acc.filter (· != x), "ok")
      | e, r =>
        if r.startsWith "fwd" then
          match e with
          | .rMedia c => if acc.contains c then a else (acc, "bad:forwarded-media-of-a-session-that-is-not-the-input:" ++ toString c)
          | .custFeed k => if acc.contains k then a else (acc, "bad:forwarded-media-of-a-session-that-is-not-the-input:" ++ toString k)
          | .pullMedia x => if acc.contains x then a else (acc, "bad:forwarded-media-of-a-session-that-is-not-the-input:" ++ toString x)
          | _ => a
        else a) ([], "ok")
    fw.2
  | _ => "bad:unparsable"

def grp (code : Code) (evs impl : String) : Option Ans :=
  let es := (splitOnChar evs ';').map (splitOnChar · ':')
  some { model := runL1 code es, verdict := oracleL1 es impl }

def srv (code : Code) (evs impl : String) : Option Ans :=
  let raw := (splitOnChar evs ';').map (splitOnChar · ':')
  match raw.mapM parseEv with
  | some es => some { model := runL2 code es, verdict := oracleL2 es impl }
  | none => some { model := "bad-event" }

def handleC03 : Handler := fun comp a impl =>
  match comp, a with
  | "adm.grp", [evs] => grp Code.fixed evs impl
  | "adm.grp.pinned", [evs] => grp Code.pinned evs impl      -- the tree before the C03 repairs (witness replays)
  | "adm.srv", [evs] => srv Code.fixed evs impl
  | "adm.srv.pinned", [evs] => srv Code.pinned evs impl
  | _, _ => none

end Drv.C03
