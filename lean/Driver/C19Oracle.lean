import Driver.Common
import Driver.Codec
import LalModel.Model.Nalu
import LalModel.Model.SeqHeader
import LalModel.Spec.SpsEnc
import LalModel.Spec.AnnexB
import LalModel.Spec.ConfigRecord
import LalModel.Spec.AudioSpec
import LalModel.Spec.SdpSpec
/-
  The property oracles of C19: specification-side readers applied to the IMPLEMENTATION's output.
  `ok` / `na` (outside the property's guard) / `bad:<why>`.
-/
open Lal Drv

namespace Drv.C19

/-- what emulation prevention guarantees of a NAL unit (the `NalWF` of Props/C19) -/
def noStartCode : Bytes → Bool
  | 0 :: 0 :: 0 :: _ => false
  | 0 :: 0 :: 1 :: _ => false
  | _ :: rest => noStartCode rest
  | [] => true

def nalWF (n : Bytes) : Bool := !n.isEmpty && n.getLast? != some 0 && noStartCode n

def psLenOk (b : Bytes) : Bool := 1 ≤ b.length && b.length ≤ 65535

def isFail (impl : String) : Bool := impl == "err" || impl == "panic"

def scalingWFb (cf : Nat) (m : List (Option (List Int))) : Bool :=
  m.length == (if cf = 3 then 12 else 8) &&
  (List.range m.length).all fun i => match m.getD i none with
    | none => true
    | some ds => ds.length == (if i < 6 then 16 else 64) && ds.all fun d => -128 ≤ d && d ≤ 127

def seOk (x : Int) : Bool := -2147483647 ≤ x && x ≤ 2147483647

/-- decidable `SpsEnc.SpsWF` -/
def spsWFb (p : SpsEnc.SpsParams) : Bool :=
  p.profileIdc < 256 && p.constraintFlags < 256 && p.levelIdc < 256 && p.spsId < 32 && p.chromaFormatIdc ≤ 3
  && p.bitDepthLumaMinus8 ≤ 6 && p.bitDepthChromaMinus8 ≤ 6
  && (match p.scalingMatrix with | none => true | some m => scalingWFb p.chromaFormatIdc m)
  && p.log2MaxFrameNumMinus4 ≤ 12
  && (match p.poc with
      | .t0 l => l ≤ 12
      | .t1 _ a b offs => offs.length ≤ 255 && seOk a && seOk b && offs.all seOk
      | .t2 => true)
  && p.maxNumRefFrames ≤ 16
  && (p.picWidthInMbsMinus1 + 1) * 16 < 4294967296 && 2 * (p.picHeightInMapUnitsMinus1 + 1) * 16 < 4294967296
  && (match p.crop with
      | none => true
      | some (l, r, t, b) => SpsEnc.cropUnitX p * (l + r) < SpsEnc.picWidthInSamplesL p
                             && SpsEnc.cropUnitY p * (t + b) < SpsEnc.frameHeightInSamplesL p)
  && (match p.vui with
      | some { aspect := some (idc, w, h), .. } => idc < 256 && w < 65536 && h < 65536
      | _ => true)

def oracleSpsEnc (p : SpsEnc.SpsParams) (impl : String) : String :=
  if !spsWFb p then "na" else
  let (w, h) := SpsEnc.specDims p
  match impl.splitOn " " with
  | [_, iw, ih] => if iw == toString w && ih == toString h then "ok" else s!"bad:dims-{iw}x{ih}-spec-{w}x{h}"
  | _ => "bad:parse-fails-on-spec-sps"

def oracleNaluRt (items : List (Nat × Bytes)) (impl : String) : String :=
  let nals := items.map (·.2)
  if !(items.all fun (k, n) => k ≥ 2 && nalWF n) then "na" else
  match impl.splitOn " ; " with
  | [a, b, c, d] =>
    let want := "ok " ++ (if nals.isEmpty then "." else String.intercalate "," (nals.map Hex.ofBytes))
    if a != want then "bad:split-annexb" else if b != want then "bad:split-avcc" else
    match c.splitOn " ", d.splitOn " " with
    | ["ok", avcc], ["ok", annexb] =>
      if ConfigRecord.readLengthPrefixed (hex! avcc) != some nals then "bad:annexb2avcc-not-the-units"
      else if AnnexB.read (hex! annexb) != some nals then "bad:avcc2annexb-not-the-units"
      else "ok"
    | _, _ => "bad:conversion-error"
  | _ => "bad:output"

def oracleAvcBuild (sps pps : Bytes) (impl : String) : String :=
  if isFail impl || !psLenOk sps || !psLenOk pps then "na" else
  let b := hex! impl
  if ConfigRecord.avcSeqHeader b != some ([sps], [pps]) then "bad:avcC-reader"
  else match SeqHeader.avcParse b with
    | .ok (s, p) => if s == sps && p == pps then "ok" else "bad:lal-reader-differs"
    | _ => "bad:lal-reader-rejects"

def oracleHevcBuild (vps sps pps : Bytes) (impl : String) : String :=
  if isFail impl || !psLenOk vps || !psLenOk sps || !psLenOk pps then "na" else
  let b := hex! impl
  match ConfigRecord.hevcSeqHeader b with
  | none => "bad:hvcC-reader-rejects"
  | some r =>
    if r.ofType 32 != [vps] || r.ofType 33 != [sps] || r.ofType 34 != [pps] then "bad:hvcC-sets-differ"
    else match SeqHeader.hevcParse b with
      | .ok (v, s, p) => if v == vps && s == sps && p == pps then "ok" else "bad:lal-reader-differs"
      | _ => "bad:lal-reader-rejects"

def oracleAnnexbOf (units : List Bytes) (impl : String) : String :=
  if !units.all nalWF then "na"
  else if isFail impl then "bad:conversion-fails"
  else if AnnexB.read (hex! impl) == some units then "ok" else "bad:annexb-units-differ"

def oracleAvcSh2Annexb (p : Bytes) (impl : String) : String :=
  -- lal only accepts the header it writes itself: key frame, AVC, sequence header, composition time 0
  if p.take 5 != [0x17, 0, 0, 0, 0] then "na" else
  match ConfigRecord.avcSeqHeader p with
  | some (s, q) => if s.isEmpty && q.isEmpty then "na" else oracleAnnexbOf (s ++ q) impl
  | none => "na"

def oracleHevcSh2Annexb (p : Bytes) (enhanced : Bool) (impl : String) : String :=
  -- the enhanced-RTMP header is also 5 bytes before the record
  match ConfigRecord.hvcC (p.drop 5) with
  | some r =>
    if !enhanced && (p.take 5 != [0x1c, 0, 0, 0, 0]) then "na" else
    match r.ofType 32, r.ofType 33, r.ofType 34 with
    | [v], [s], [q] => if r.arrays.length == 3 then oracleAnnexbOf [v, s, q] impl else "na"
    | _, _, _ => "na"
  | none => "na"

def oracleAscPack (o s c : Nat) (impl : String) : String :=
  if !(o ≥ 1 && o < 31 && s < 15 && c < 16) then "na" else
  match AudioSpec.readAsc (hex! impl) with
  | some a => if a.objectType == o && a.samplingFrequencyIndex == s && a.channelConfiguration == c then "ok" else "bad:asc-differs"
  | none => "bad:asc-reader-rejects"

def oracleAdts (o s c n : Nat) (impl : String) : String :=
  if !(1 ≤ o && o ≤ 4 && s < 13 && c < 8 && n + 7 < 8192) then "na" else
  match AudioSpec.readAdts (hex! impl) with
  | some a =>
    if a.id == 0 && a.protectionAbsent == 1 && a.profileObjectType + 1 == o && a.samplingFrequencyIndex == s
       && a.channelConfiguration == c && a.frameLength == n + 7 && a.rawDataBlocks == 0 && (hex! impl).length == 7
    then "ok" else "bad:adts-header-differs"
  | none => "bad:adts-reader-rejects"

/-- ADTS header → (object type, index, channels, length) by lal and by the specification reader -/
def oracleUnadts (h : Bytes) (impl : String) : String :=
  match AudioSpec.readAdts h with
  | some a =>
    if impl == s!"{a.profileObjectType + 1} {a.samplingFrequencyIndex} {a.channelConfiguration} {a.frameLength}" then "ok"
    else "bad:adts-fields-differ"
  | none => "na"

def oracleAdts2Asc (h : Bytes) (impl : String) (skip : Nat) : String :=
  match AudioSpec.readAdts h with
  | some a =>
    if isFail impl then "bad:conversion-fails" else
    match AudioSpec.readAsc ((hex! impl).drop skip) with
    | some x => if x.objectType == a.profileObjectType + 1 && x.samplingFrequencyIndex == a.samplingFrequencyIndex
                   && x.channelConfiguration == a.channelConfiguration && (skip == 0 || (hex! impl).take 2 == [0xaf, 0])
                then (if a.samplingFrequencyIndex == 15 then "na" else "ok") else "bad:asc-of-adts-differs"
    | none => "bad:asc-reader-rejects"
  | none => "na"

def oracleAscUnpack (b : Bytes) (impl : String) : String :=
  match AudioSpec.readAsc b with
  | some a =>
    if a.objectType ≥ 31 || a.samplingFrequencyIndex == 15 then "na"
    else if impl == s!"{a.objectType} {a.samplingFrequencyIndex} {a.channelConfiguration}" then "ok" else "bad:asc-fields-differ"
  | none => "na"

/-- the `key=value` fields the harness prints for a LogicContext -/
def fieldsOf (s : String) : List (String × String) :=
  (s.splitOn " ").filterMap fun kv => match kv.splitOn "=" with
    | [k, v] => some (k, v)
    | _ => none

def fld (fs : List (String × String)) (k : String) : String := ((fs.find? (·.1 == k)).map (·.2)).getD "?"

structure WantVideo where
  pt : Nat
  enc : String
  vps : Option Bytes
  sps : Bytes
  pps : Bytes

structure WantAudio where
  pt : Nat
  enc : String
  clock : Nat
  encParams : Option String
  asc : Option Bytes

def ctlHex (streamid : Nat) : String := Hex.ofBytes (Sdp.asc s!"u/streamid={streamid}")

/-- the SDP (raw) read by the RFC reader, and lal's own reading (printed fields), against what was packed -/
def oracleSdp (raw : Bytes) (fs : List (String × String)) (v : Option WantVideo) (a : Option WantAudio) : String :=
  match SdpSpec.read raw with
  | none => "bad:rfc4566-reader-rejects"
  | some ms =>
    match ms.mapM SdpSpec.Media.stream with
    | none => "bad:media-without-rtpmap"
    | some ss =>
      let dec := Drv.Codec.b64dec
      let nv := if v.isSome then 1 else 0
      let na := if a.isSome then 1 else 0
      if ss.length != nv + na then "bad:media-count" else
      let vres := match v with
        | none => "ok"
        | some w =>
          match ss[0]? with
          | none => "bad:no-video"
          | some s =>
            if s.media != SdpSpec.str "video" || s.pt != w.pt || s.encoding != SdpSpec.str w.enc || s.clockRate != 90000
               || s.control != some (SdpSpec.str "streamid=0") then "bad:video-description"
            else
              let sets := match w.vps with
                | none => s.h264Sets dec == some [w.sps, w.pps]
                | some vps => s.h265Sets dec == some ([vps], [w.sps], [w.pps])
              if !sets then "bad:video-parameter-sets"
              else if fld fs "vcr" != "90000" || fld fs "vpt" != toString w.pt || fld fs "vo" != toString w.pt
                      || fld fs "sps" != Hex.ofBytes w.sps || fld fs "pps" != Hex.ofBytes w.pps
                      || fld fs "vps" != (match w.vps with | some x => Hex.ofBytes x | none => "nil")
                      || fld fs "vctl" != ctlHex 0 || fld fs "vu" != "1" then "bad:lal-video-reading"
              else "ok"
      let ares := match a with
        | none => "ok"
        | some w =>
          match ss[nv]? with
          | none => "bad:no-audio"
          | some s =>
            if s.media != SdpSpec.str "audio" || s.pt != w.pt || s.encoding != SdpSpec.str w.enc || s.clockRate != w.clock
               || s.encParams != w.encParams.map SdpSpec.str || s.control != some (SdpSpec.str s!"streamid={nv}") then "bad:audio-description"
            else if w.asc.isSome && s.aacConfig Drv.Codec.hexdec != w.asc then "bad:audio-config"
            else if fld fs "acr" != toString w.clock || fld fs "apt" != toString w.pt || fld fs "ao" != toString w.pt
                    || fld fs "asc" != (match w.asc with | some x => Hex.ofBytes x | none => "nil")
                    || fld fs "actl" != ctlHex nv || fld fs "au" != "1" then "bad:lal-audio-reading"
            else "ok"
      if vres != "ok" then vres else ares

def wantVideo (vpt : Int) (vps sps pps : Option Bytes) : Option (Option WantVideo) :=
  -- `none` = outside the guard; `some none` = no video section expected
  if vpt == 96 then
    match sps, pps with
    | some s, some p => if psLenOk s && psLenOk p then some (some { pt := 96, enc := "H264", vps := none, sps := s, pps := p }) else none
    | _, _ => some none
  else if vpt == 98 then
    match vps, sps, pps with
    | some v, some s, some p =>
      if psLenOk v && psLenOk s && psLenOk p then some (some { pt := 98, enc := "H265", vps := some v, sps := s, pps := p }) else none
    | _, _, _ => some none
  else some none

def wantAudio (apt freq : Int) (ascb : Option Bytes) : Option (Option WantAudio) :=
  if apt == 97 then
    match ascb with
    | some x => if x.length ≥ 2 && freq ≥ 0 then some (some { pt := 97, enc := "MPEG4-GENERIC", clock := freq.toNat, encParams := some "2", asc := some x }) else none
    | none => some none
  else if apt == 8 then (if freq ≥ 0 then some (some { pt := 8, enc := "PCMA", clock := freq.toNat, encParams := none, asc := none }) else none)
  else if apt == 0 then (if freq ≥ 0 then some (some { pt := 0, enc := "PCMU", clock := freq.toNat, encParams := none, asc := none }) else none)
  else if apt == 101 then some (some { pt := 101, enc := "opus", clock := 48000, encParams := some "2", asc := none })
  else some none

/-- the `CodecLaws` of Proof/Sdp.lean, checked of the driver's RFC 4648 codec on concrete values -/
def lawsHold (xs : List Bytes) : Bool :=
  let clean (t : Bytes) := t.all fun ch => !Sdp.isSpace ch && ch != 44 && ch != 59
  xs.all fun x =>
    Drv.Codec.b64dec (Drv.Codec.b64enc x) == (x, true) && Drv.Codec.hexdec (Drv.Codec.hexenc x) == (x, true)
    && clean (Drv.Codec.b64enc x) && clean (Drv.Codec.hexenc x) && (Drv.Codec.hexenc x).length == 2 * x.length

def oracleSdpPack (vpt : Int) (vps sps pps : Option Bytes) (apt freq : Int) (ascb : Option Bytes) (impl : String) : String :=
  if !lawsHold ([vps, sps, pps, ascb].filterMap id) then "bad:codec-laws" else
  match wantVideo vpt vps sps pps, wantAudio apt freq ascb with
  | some v, some a =>
    if v.isNone && a.isNone then (if impl == "err" then "ok" else "bad:packed-nothing")
    else if isFail impl then "bad:pack-fails"
    else match impl.splitOn " " with
      | raw :: _ => oracleSdp (hex! raw) (fieldsOf impl) v a
      | [] => "bad:output"
  | _, _ => "na"

/-- RTMP sequence headers in, SDP out: the parameter sets the specification readers find on both sides agree -/
def oracleRemuxSdp (v a : Option Bytes) (impl : String) : String :=
  if impl == "none" || isFail impl then "na" else
  match v, a with
  | some vb, some ab =>
    let wa : Option WantAudio := match AudioSpec.readAsc (ab.drop 2) with
      | some x => (AudioSpec.frequencies[x.samplingFrequencyIndex]?).map fun f =>
          { pt := 97, enc := "MPEG4-GENERIC", clock := f, encParams := some "2", asc := some (ab.drop 2) }
      | none => none
    let wv : Option WantVideo :=
      match ConfigRecord.avcSeqHeader vb with
      | some ([s], [p]) => some { pt := 96, enc := "H264", vps := none, sps := s, pps := p }
      | _ => match ConfigRecord.hevcSeqHeader vb with
        | some r => match r.ofType 32, r.ofType 33, r.ofType 34 with
          | [x], [s], [p] => some { pt := 98, enc := "H265", vps := some x, sps := s, pps := p }
          | _, _, _ => none
        | none => none
    match wv, wa, impl.splitOn " " with
    | some wv, some wa, raw :: _ => oracleSdp (hex! raw) (fieldsOf impl) (some wv) (some wa)
    | _, _, _ => "na"
  | _, _ => "na"

/-- SDP parameter sets in, RTMP sequence headers out -/
def oracleRemuxInit (ascb vps sps pps : Option Bytes) (impl : String) : String :=
  if impl == "none" || isFail impl then "na" else
  let msgs := (impl.splitOn " ").filterMap fun m => match m.splitOn ":" with
    | [t, p] => some (nat! t, hex! p)
    | _ => none
  let aOk := match ascb with
    | some x => msgs.any fun (t, p) => t == 8 && p == 0xaf :: 0 :: x
    | none => !msgs.any fun (t, _) => t == 8
  let vOk := match sps, pps with
    | some s, some p =>
      if !psLenOk s || !psLenOk p then true else
      match vps with
      | none => msgs.any fun (t, b) => t == 9 && ConfigRecord.avcSeqHeader b == some ([s], [p])
      | some v => !psLenOk v || msgs.any fun (t, b) => t == 9 &&
          (match ConfigRecord.hevcSeqHeader b with
           | some r => r.ofType 32 == [v] && r.ofType 33 == [s] && r.ofType 34 == [p]
           | none => false)
    | _, _ => true
  if !aOk then "bad:audio-seq-header" else if !vOk then "bad:video-seq-header" else "ok"

end Drv.C19
