import Driver.Common
import Driver.Codec
import LalModel.Model.MsgClass
import LalModel.Model.GopRing
import LalModel.Model.DummyAudio
import LalModel.Model.TsRemux
import LalModel.Model.RtspRemux
import LalModel.Model.HevcPs
import LalModel.Model.Fanout
import LalModel.Model.AvPacketRemux
import LalModel.Generated.C19Consts
/- Driver handlers for C05 (see harness/c05.go, c05group.go for the op formats) -/
open Lal Drv Lal.MsgClass

namespace Drv.C05

/-- FNV-1a, 32 bit (`c05Fnv` of the harness) -/
def fnvStep (h : UInt32) (x : UInt8) : UInt32 := (h ^^^ x.toUInt32) * 16777619
def fnv (b : Bytes) : Nat := (b.foldl fnvStep 2166136261).toNat
def fnvL (bs : List Bytes) : Nat := (bs.foldl (fun (h : UInt32) (b : Bytes) => b.foldl fnvStep h) 2166136261).toNat

def parseMsg (s : String) : Msg :=
  match splitOnChar s ':' with
  | [t, ts, p] => { typeId := nat! t, ts := nat! ts, payload := hex! p }
  | _ => { typeId := 0, ts := 0, payload := [] }

def parseMsgs (s : String) : List Msg :=
  if s == "-" || s == "" then [] else (splitOnChar s ',').map parseMsg

def b01 (b : Bool) : String := if b then "1" else "0"
def gB (r : GoM Bool) : String := outcome b01 r
def gN (r : GoM Nat) : String := outcome toString r

def cls (m : Msg) : String :=
  String.intercalate " " [gB (isAvcKeySeqHeader m), gB (isHevcKeySeqHeader m), gB (isEnhanced m), gB (isVideoKeySeqHeader m),
    gB (isAvcKeyNalu m), gB (isHevcKeyNalu m), gB (isEnchanedHevcNalu m), gN (getEnchanedHevcNaluIndex m), gB (isVideoKeyNalu m),
    gB (isAacSeqHeader m), gN (videoCodecId m), gN (audioCodecId m), gN (cts m), gN (pts m)]

/-- the property's oracle on an implementation output: no part of it may be a Go panic -/
def noPanic (impl : String) : String :=
  if (impl.splitOn "panic").length > 1 then "bad:panic"
  else if impl == "timeout" then "bad:did-not-return"     -- the harness gave up waiting (an unbounded loop)
  else if impl == "skipped-after-timeout" then "na"
  else "ok"

/-! ### c05.gop -/

def gopRun (gopNum maxFrames : Nat) (ms : List Msg) : GoM String := do
  let mut c : GopRing.Cache Nat := GopRing.Cache.new gopNum maxFrames
  let mut rets := ""
  let mut i := 0
  for m in ms do
    let (c', ok) ← c.feed m i
    c := c'
    rets := rets ++ b01 ok
    i := i + 1
  let n ← c.r.count
  let mut gops : List String := []
  for k in List.range n do
    let d ← c.r.dataAt k
    gops := gops ++ [String.intercalate "." (d.map toString)]
  let so (o : Option Nat) : String := match o with | some v => toString v | none => "-"
  return s!"r={if rets == "" then "-" else rets} v={so c.vsh} a={so c.ash} n={n} g={if gops.isEmpty then "-" else String.intercalate "/" gops}"

/-! ### c05.ts -/

def showTsEv : TsRemux.Ev → String
  | .patpmt b => s!"P:{b.length}:{fnv b}"
  | .mark => "X"
  | .frame e =>
    let pk := e.packets
    s!"F:{e.f.sid}:{b01 e.f.key}:{b01 e.boundary}:{e.f.dts}:{e.f.pts}:{e.cts}:{e.ccAfter}:{e.f.raw.length}:{fnv e.f.raw}:{(pk.map List.length).sum}:{fnvL pk}"

def showEvs (l : List String) : String := if l.isEmpty then "-" else String.intercalate " " l

/-! ### c05.rtsp -/

def env : RtspRemux.Env := { codec := Drv.Codec.real, tool := Gen.lalPackSdp }

def showRtspEv : RtspRemux.Ev → String
  | .sdp ctx => "S:" ++ Hex.ofBytes ctx.rawSdp
  | .rtp _ p =>
    let body := p.raw.drop 12
    s!"R:{p.hdr.packetType}:{p.hdr.mark}:{p.hdr.seq}:{p.hdr.timestamp}:{body.length}:{fnv body}"

/-! ### c05.dummy -/

def showDummy (out : List Msg) : String :=
  let items := out.map fun m => s!"{m.typeId}:{m.ts}:{m.payload.length}:{fnv m.payload}"
  let h := (items.foldl (fun h s => s.toUTF8.foldl fnvStep h) (2166136261 : UInt32)).toNat
  s!"n={out.length} h={h} {showEvs (items.take 64)}"

/-- the cost bound of `Props.C05.dummy_steps_bounded` checked on the IMPLEMENTATION's output: at most
    `maxGapMs / 21 + 3` messages handed on per input message -/
def dummyVerdict (nIn : Nat) (impl : String) : String :=
  if impl == "panic" then "bad:panic" else if impl == "timeout" then "bad:did-not-return"
  else if impl == "skipped-after-timeout" then "na" else
  match (impl.splitOn " ").head? with
  | some f =>
    match f.splitOn "=" with
    | ["n", v] => if nat! v ≤ (DummyAudio.maxGapMs / 21 + 3) * nIn then "ok" else "bad:work-not-bounded-by-input"
    | _ => "bad:output-shape"
  | none => "bad:output-shape"

/-! ### c05.group -/

def parseCfg (bits gopNum wait : Nat) : Fanout.Cfg :=
  let on (b : Nat) : Bool := bits / b % 2 = 1
  { rtmp := on 1, flv := on 2, hls := on 4, httpts := on 8, rtsp := on 16, recFlv := on 32, recTs := on 64, dummy := on 128,
    rtspWaitKey := on 256, gopNum := gopNum, dummyWaitMs := wait }

def parseEvent (s : String) : Fanout.Event :=
  if s == "Jr" then .join .rtmp else if s == "Jf" then .join .flv else if s == "Jt" then .join .ts
  else if s == "Js" then .join .rtsp else .msg (parseMsg s)

def dash (s : String) : String := if s == "" then "-" else s

def showSub (s : Fanout.Sub) : String :=
  (match s.kind with | .rtmp => "r" | .flv => "f" | .ts => "t" | .rtsp => "s") ++ toString s.count

def groupRun (c : Fanout.Cfg) (evs : List Fanout.Event) : GoM String := do
  let g ← Fanout.runAll env (Fanout.G.new c) evs
  let g2 ← Fanout.finish g
  let h : Fanout.Hls := g2.hls.getD {}
  let subs := if g.subs.isEmpty then "-" else String.intercalate " " (g.subs.map showSub)
  return s!"ok stat={dash g.stat.audioCodec}/{dash g.stat.videoCodec}/{g.stat.width}/{g.stat.height} hls={h.creates}/{h.bytes} rec={g2.recFlv}/{g2.recTs} {subs}"

def avpktRun (ms : List Msg) : GoM String := do
  let mut sp : Option Bytes := none
  let mut evs : List String := []
  for m in ms do
    let (sp', pkt, err) ← AvPacketRemux.feed sp m
    sp := sp'
    match pkt with
    | some p => evs := evs ++ [s!"A:{p.pt}:{p.ts}:{p.pts}:{p.payload.length}:{fnv p.payload}"]
    | none => pure ()
    if err then evs := evs ++ ["e"]
  return showEvs evs

def handleC05 : Handler := fun comp args impl =>
  match comp, args with
  | "c05.cls", [t, p] =>
    some { model := cls { typeId := nat! t, ts := 1000, payload := hex! p }, verdict := noPanic impl }
  | "c05.gop", [g, mf, ms] =>
    some { model := outcome id (gopRun (nat! g) (nat! mf) (parseMsgs ms)), verdict := noPanic impl }
  | "c05.ts", [rf, ms] =>
    some { model := outcome (fun l => showEvs (l.map showTsEv)) (TsRemux.run (rf == "1") (parseMsgs ms)), verdict := noPanic impl }
  | "c05.rtsp", [ms] =>
    some { model := outcome (fun r => showEvs (r.2.map showRtspEv)) (RtspRemux.feedAll env {} (parseMsgs ms)), verdict := noPanic impl }
  | "c05.dummy", [w, ms] =>
    let l := parseMsgs ms
    some { model := outcome (fun r => showDummy r.2) (DummyAudio.feedAll (DummyAudio.St.new (nat! w)) l), verdict := dummyVerdict l.length impl }
  | "c05.group", [bits, gn, w, evs] =>
    some { model := outcome id (groupRun (parseCfg (nat! bits) (nat! gn) (nat! w)) ((splitOnChar evs ',').map parseEvent)),
           verdict := noPanic impl }
  | "c05.avpkt", [ms] =>
    some { model := outcome id (avpktRun (parseMsgs ms)), verdict := noPanic impl }
  | "c05.hsps", [b] =>
    some { model := match HevcPs.parseSps (hex! b) {} with
             | .ok (some _, c) => s!"ok {c.picWidthInLumaSamples} {c.picHeightInLumaSamples}"
             | .ok (none, _) => "err"
             | .error .err => "err"
             | .error (.panic _) => "panic",
           verdict := noPanic impl }
  | _, _ => none

end Drv.C05
