import Driver.Common
import Driver.Codec
import Driver.C07Oracle
import LalModel.Model.Av2Rtmp
import LalModel.Model.AvQueue
import LalModel.Model.RtspIngest
import LalModel.Model.PsU
/- Driver handlers for C07: av2rtmp.feed, avq.feed, rtsp.ingest, ps.ingest (formats: harness/c07.go) -/
open Lal Drv Lal.Av

namespace Drv.C07

def int! (s : String) : Int := s.toInt?.getD 0

def optArg (s : String) : Option Bytes := if s == "nil" then none else some (hex! s)

def showMsgs (ms : List Av2Rtmp.Msg) : String :=
  if ms.isEmpty then "none"
  else String.intercalate "," (ms.map fun m => s!"{m.typ}.{m.csid}.{m.msid}.{m.ts}.{Hex.ofBytes m.payload}")

def parsePkts (s : String) : List AvPacket :=
  if s == "none" then [] else
  (splitOnChar s ',').map fun x =>
    match splitOnChar x ':' with
    | [pt, ts, p] => { pt := int! pt, ts := int! ts, payload := hex! p }
    | [pt, ts] => { pt := int! pt, ts := int! ts, payload := [] }
    | _ => { pt := -1, ts := 0, payload := [] }

def listArg (s : String) : List Bytes := if s == "none" then [] else (splitOnChar s ',').map hex!

def showAvs (l : List AvPacket) : String :=
  if l.isEmpty then "none"
  else String.intercalate "," (l.map fun p => s!"{p.pt}:{p.ts}:{p.pts}:{Hex.ofBytes p.payload}")

/-- `ps.ingest` on the model: PsUnpacker, then the remuxer as StartRtpPub configures it -/
def psRun (mode items : String) : GoM (List AvPacket × List Av2Rtmp.Msg) := do
  let (_, avs) ←
    (if mode == "rtp" then PsU.feedRtpPackets .fixed {} (listArg items)
     else PsU.feedRtpBodies .fixed {} ((if items == "none" then [] else splitOnChar items ',').map fun x =>
       match splitOnChar x ':' with
       | [ts, b] => (nat! ts, hex! b)
       | _ => (0, [])))
  let (_, ms) := Av2Rtmp.feedAll .fixed { videoFormat := 2, audioFormat := 2 } avs
  return (avs, ms)

def handleC07 : Handler := fun comp a impl =>
  match comp, a with
  | "av2rtmp.feed", [mode, vf, af, asc, vps, sps, pps, pkts] =>
    let st0 : Av2Rtmp.St := { videoFormat := nat! vf, audioFormat := nat! af }
    let (ascO, vpsO, spsO, ppsO) := (optArg asc, optArg vps, optArg sps, optArg pps)
    let (st1, m0) :=
      if mode == "cust" then
        (if ascO.isSome then Av2Rtmp.initWithAvConfig st0 ascO none none none else (st0, []))
      else if ascO.isSome || vpsO.isSome || spsO.isSome || ppsO.isSome then Av2Rtmp.initWithAvConfig st0 ascO vpsO spsO ppsO
      else (st0, [])
    let ps := parsePkts pkts
    let (_, ms) := Av2Rtmp.feedAll .fixed st1 ps
    some { model := showMsgs (m0 ++ ms), verdict := Oracle.av2rtmp (mode == "cust") (nat! vf) (nat! af) ascO vpsO spsO ppsO ps impl }
  | "avq.feed", [rot, pkts] =>
    let ps := parsePkts pkts
    let tagged := (List.range ps.length).zip ps |>.map fun (i, p) => { p with payload := be16 i }
    let (_, out) := AvQueue.feedAll (rot == "1") {} tagged
    let sh := if out.isEmpty then "none" else
      String.intercalate "," (out.map fun p => s!"{p.pt}:{p.ts}:{match p.payload with | [x, y] => rd16 x y | _ => 0}")
    some { model := sh, verdict := Oracle.avq (rot == "1") ps impl }
  | "rtsp.ingest", [sdp, order, pkts] =>
    let raws := listArg pkts
    let run (l : List Bytes) := RtspIngest.ingest .fixed true Drv.Codec.real (hex! sdp) l
    if order == "-" then
      some { model := outcome showMsgs (run raws), verdict := Oracle.rtsp (hex! sdp) raws none impl }
    else
      let ord := (splitOnChar order '.').map nat!
      let perm := ord.filterMap fun i => raws[i]?
      let mo := match run perm, run raws with
        | .ok x, .ok y => showMsgs x ++ " ; " ++ showMsgs y
        | .error .err, _ => "err ; err"
        | _, _ => "panic"
      some { model := mo, verdict := Oracle.rtsp (hex! sdp) raws (some ord) impl }
  | "ps.ingest", [mode, items] =>
    some { model := outcome (fun (avs, ms) => showAvs avs ++ " ; " ++ showMsgs ms) (psRun mode items),
           verdict := Oracle.ps mode items impl }
  | _, _ => none

end Drv.C07
