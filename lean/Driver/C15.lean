import Driver.Common
import Driver.C01
import LalModel.Model.Queue
import LalModel.Model.Group
import LalModel.Spec.ChunkSpec
import LalModel.Spec.FlvSpec
import LalModel.Spec.WsSpec
import LalModel.Spec.TsSpec
import LalModel.Spec.InterleavedSpec
import LalModel.Generated.C15
import LalModel.Generated.C08
import LalModel.Generated.Consts
/-
  Driver handlers for C15: q.sess (one real subscriber session over a gated socket), q.grp (a real
  logic.Group with stalled and healthy subscribers, liveness sweep), q.il (packInterleaved).

  The harness realises the schedules in which the writer goroutine takes the next item as soon as it
  is free (`settle`); the theorems of Props/C15 quantify over every placement of `take`.
-/
open Lal Drv

namespace Drv.C15
open Lal.Queue

/-- the harness's gate: `open_` = the consumer reads, so everything queued drains -/
structure DS where
  s : Sess
  open_ : Bool := true

def drain : Nat → Conn → Conn
  | 0, c => c
  | fuel+1, c =>
    let c1 := c.take
    match c1.inflight with
    | some _ => drain fuel c1.done
    | none => c1

def DS.settle (d : DS) : DS :=
  if d.open_ then { d with s := { d.s with conn := drain (d.s.conn.queue.length + 2) d.s.conn } }
  else { d with s := { d.s with conn := d.s.conn.take } }

def protoOf (s : String) : Proto :=
  match s with
  | "rtmp" => .rtmp | "flv" => .flv | "wsflv" => .wsflv | "ts" => .ts | "wsts" => .wsts
  | "rtsp" => .rtsp | _ => .wsrtsp

def respHeader (p : Proto) : Bytes :=
  match p with
  | .flv => Gen.c15FlvRespHeader
  | .ts => Gen.c15TsRespHeader
  | _ => Gen.c15WsRespHeader

def DS.status (d : DS) : String :=
  let b := if d.s.conn.inflight.isSome && !d.open_ && !d.s.conn.closed then 1 else 0
  s!"q{d.s.conn.queue.length}b{b}"

/-- the unit an event writes, if it is a write -/
def unitOf (p : Proto) (f : List String) : Option U :=
  match f with
  | ["H"] => some { data := respHeader p, raw := true }
  | ["F"] => some { data := Gen.flvHeader }
  | ["W", h] => some { data := hex! h }
  | ["V", hs] => some { data := ((splitOnChar hs ',').map hex!).flatten }
  | ["P", k, h] => some { data := hex! h, ch := if k == "a" then 2 else 0 }
  | _ => none

def errTok (p : Proto) (os : List Outcome) : String :=
  if p == .rtmp then (if os.getLast? == some .accepted then "0" else "1") else "-"

def stepEv (items : Proto → U → List Item) (d : DS) (f : List String) : DS × String :=
  match unitOf d.s.proto f with
  | some u =>
    let r := d.s.writeWith items u
    let d1 := ({ d with s := r.1 }).settle
    let tok := if r.2.any (· == .blocked) then "BLOCKED" else errTok d.s.proto r.2
    (d1, "w" ++ tok ++ d1.status)
  | none =>
    match f with
    | ["S"] => let d1 := ({ d with open_ := false }).settle; (d1, d1.status)
    | ["R"] => let d1 := ({ d with open_ := true }).settle; (d1, d1.status)
    | ["r"] =>
      let d1 := if d.open_ then d else ({ d with s := { d.s with conn := d.s.conn.done } }).settle
      (d1, d1.status)
    | ["X", k] =>
      let d1 := if d.open_ then d else ({ d with s := { d.s with conn := d.s.conn.fail (nat! k) } }).settle
      (d1, d1.status)
    | ["D"] => let d1 := ({ d with s := d.s.dispose }).settle; (d1, d1.status)
    | ["A"] => let r := d.s.isAlive; ({ d with s := r.1 }, if r.2 then "a1" else "a0")
    | _ => (d, "?")

def runSess (items : Proto → U → List Item) (p : Proto) (cap : Nat) (evs : List (List String)) : DS × List String :=
  evs.foldl (fun (acc : DS × List String) f => let r := stepEv items acc.1 f; (r.1, acc.2 ++ [r.2]))
    ({ s := Sess.init p cap }, [])

/-! ### oracle: the specification readers applied to what the consumer received -/

def stripPrefix? (pre b : Bytes) : Option Bytes :=
  if pre.isPrefixOf b then some (b.drop pre.length) else none

def showMsg (m : ChunkSpec.Message) : String := s!"m{m.csid}:{m.typ}:{m.msid}:{m.ts}:{Hex.ofBytes m.payload}"

def decRtmp (b : Bytes) : Option (List String) := (ChunkSpec.read Gen.localChunkSize b).map (·.map showMsg)

/-- an FLV body: optional 13-byte header, then tags to the end -/
def decFlvBody (b : Bytes) : Option (List String) :=
  let (hd, rest) := match stripPrefix? Gen.flvHeader b with
    | some r => (["flvheader"], r)
    | none => ([], b)
  (FlvSpec.readTags rest.length rest).map fun ts => hd ++ ts.map fun t => s!"t{t.typ.toNat}:{t.ts}:{Hex.ofBytes t.payload}"

def decTs (b : Bytes) : Option (List String) :=
  if b.length % 188 != 0 then none else
  let pk := TsSpec.chunk188 b.length b
  (TsSpec.parsePackets pk).map fun _ => pk.map Hex.ofBytes

def decIl (b : Bytes) : Option (List String) :=
  (InterleavedSpec.readFrames b.length b).map fun fs => fs.map fun f => s!"i{f.channel}:{Hex.ofBytes f.data}"

def decWs (inner : Bytes → Option (List String)) (b : Bytes) : Option (List (List String)) :=
  match WsSpec.readFrames b.length b with
  | none => none
  | some fs => if fs.all (fun f => f.fin && f.opcode == 2) then fs.mapM (fun f => inner f.payload) else none

/-- the stream as a list of units, each a list of abstract elements (one WebSocket frame = one unit;
    without WebSocket the unit boundaries are not on the wire and every element is its own unit) -/
def decStream (p : Proto) (b : Bytes) : Option (List String) :=
  match p with
  | .rtmp => decRtmp b
  | .flv => decFlvBody b
  | .ts => decTs b
  | .rtsp => decIl b
  | .wsflv => (decWs decFlvBody b).map (·.flatten)
  | .wsts => (decWs decTs b).map (·.flatten)
  | .wsrtsp => (decWs decIl b).map (·.flatten)

/-- what one written unit is, read in isolation by the same specification reader -/
def decUnit (p : Proto) (u : U) : Option (List String) :=
  match p with
  | .rtmp => decRtmp u.data
  | .flv | .wsflv => decFlvBody u.data
  | .ts | .wsts => decTs u.data
  | .rtsp | .wsrtsp => some [s!"i{u.ch}:{Hex.ofBytes u.data}"]

/-- `got` is the concatenation of a subsequence of `units` (whole units only) -/
def wholeUnits : List (List String) → List String → Bool
  | _, [] => true
  | [], _ :: _ => false
  | u :: us, got =>
    if !u.isEmpty && u.isPrefixOf got && wholeUnits us (got.drop u.length) then true
    else wholeUnits us got

/-- the longest prefix (dropping at most `n` bytes) the reader accepts: a connection that was closed may
    end in a truncated unit -/
def decTrunc (p : Proto) (b : Bytes) : Nat → Option (List String)
  | 0 => decStream p b
  | n+1 => match decStream p b with
    | some r => some r
    | none => if b.isEmpty then none else decTrunc p b.dropLast n

def oracleStream (p : Proto) (units : List U) (closed : Bool) (stream : Bytes) : String :=
  -- the HTTP / WebSocket-upgrade response travels outside the media framing
  let hdr := units.find? (·.raw)
  let media := units.filter (!·.raw)
  let body? : Option Bytes := match hdr with
    | none => some stream
    | some h =>
      match stripPrefix? h.data stream with
      | some r => some r
      | none => if stream.isPrefixOf h.data && (closed || stream.isEmpty) then some [] else none
  match body? with
  | none => "bad:response-header-damaged"
  | some body =>
    match media.mapM (decUnit p) with
    | none => "na"      -- the generator wrote something that is not a unit of the protocol
    | some us =>
      match (if closed then decTrunc p body 24 else decStream p body) with
      | none => "bad:stream-not-well-framed"
      | some got => if wholeUnits us got then "ok" else "bad:not-a-subsequence-of-whole-units"

/-- "is itself disconnected once the periodic liveness sweep fires": in the implementation's own event tokens, when
    every write between two consecutive liveness checks (`A`) was refused by the full queue while the writer stayed
    blocked (`w-q<n>b1`), the second check must report the subscriber dead (`a0`) -/
def oracleSweep (toks : List String) : String :=
  -- a token carries the queue status `q<n>b<0|1>` (after a leading `w-` for a write); a write is REFUSED when the writer
  -- was and stays blocked and the queue is as long as before
  let status (t : String) : Option String :=
    let body := if t.startsWith "w" then (t.drop 2).toString else t
    if body.startsWith "q" then some body else none
  let r := toks.foldl (fun (acc : Bool × Bool × Nat × Bool × Option String) t =>
    -- (a liveness check was seen, only refused writes since, how many, verdict ok, last status)
    let (seenA, quiet, n, ok, last) := acc
    if t == "a1" || t == "a0" then
      (true, true, 0, ok && !(seenA && quiet && n > 0 && t == "a1"), last)
    else
      let st := status t
      let refused := t.startsWith "w" && st.isSome && st == last && t.endsWith "b1"
      if refused then (seenA, quiet, n + 1, ok, st) else (seenA, false, n, ok, if st.isSome then st else last))
    (false, true, 0, true, none)
  if r.2.2.2.1 then "ok" else "bad:stalled-subscriber-reported-alive-after-a-sweep-without-progress"

/-! ### group level -/

structure GS where
  g : Lal.Group.St
  subs : List (String × DS) := []      -- key ↦ session (join order)
  present : List String := []          -- keys still in the group's sets
  toks : List String := []

def GS.mod (s : GS) (k : String) (f : DS → DS) : GS :=
  { s with subs := s.subs.map fun (k', d) => if k' == k then (k', f d) else (k', d) }

def kindProto (k : String) : Proto := if k == "r" then .rtmp else if k == "f" then .flv else .wsflv

/-- group one subscriber's new connection writes into units: over WebSocket the group model logs header and
    payload separately (`Ws.subWrite`), the unit is the payload -/
def unitsOf (p : Proto) : List Bytes → List U
  | a :: b :: rest => if p.ws then { data := b } :: unitsOf p rest else { data := a } :: unitsOf p (b :: rest)
  | [a] => [{ data := a }]
  | [] => []

def GS.deliver (items : Proto → U → List Item) (s : GS) (newOut : List (Lal.Group.Kind × Nat × Bytes)) : GS :=
  s.subs.foldl (fun acc (k, _) =>
    let mine := newOut.filterMap fun (kd, id, b) =>
      if Drv.C01.kindTag kd ++ toString id == k then some b else none
    if mine.isEmpty then acc else
    acc.mod k fun d => (unitsOf d.s.proto mine).foldl (fun d u => { d with s := (d.s.writeWith items u).1 }) d) s

def GS.settleAll (s : GS) : GS := { s with subs := s.subs.map fun (k, d) => (k, d.settle) }

def closedKeys (s : GS) : String :=
  let ks := (s.subs.filter fun (_, d) => d.s.conn.closed).map (·.1)
  String.intercalate "+" (ks.toArray.qsort (· < ·)).toList

def stepGrp (items : Proto → U → List Item) (cap interval : Nat) (s : GS) (e : String) : GS :=
  let f := splitOnChar e ':'
  let groupEv (ev : Lal.Group.Ev) (pre : GS) : GS :=
    let g1 := Lal.Group.step pre.g ev
    (({ pre with g := g1 }).deliver items (g1.out.drop pre.g.out.length)).settleAll
  let f := match f with
    | ["J", k, id] => ["J", k, id, toString cap, "-"]
    | ["J", k, id, c] => ["J", k, id, c, "-"]
    | _ => f
  match f with
  | ["J", k, id, capS, born] =>
    let key := k ++ id
    if s.subs.any (·.1 == key) then s else
    let p := kindProto k
    let d0 : DS := { s := Sess.init p (nat! capS), open_ := born != "s" }
    let s1 := { s with subs := s.subs ++ [(key, d0)], present := s.present ++ [key] }
    -- AddHttpflvSubSession writes the HTTP response header before the FLV header
    let s2 := if k == "r" then s1 else
      s1.mod key fun d => { d with s := (d.s.writeWith items { data := respHeader p, raw := true }).1 }
    groupEv (.join (Drv.C01.kindOf k) (nat! id)) s2
  | ["L", k, id] =>
    let key := k ++ id
    groupEv (.leave (Drv.C01.kindOf k) (nat! id)) { s with present := s.present.filter (· != key) }
  | ["S", k, id] => (s.mod (k ++ id) fun d => { d with open_ := false }).settleAll
  | ["R", k, id] => (s.mod (k ++ id) fun d => { d with open_ := true }).settleAll
  | ["r", k, id] =>
    (s.mod (k ++ id) fun d => if d.open_ then d else { d with s := { d.s with conn := d.s.conn.done } }).settleAll
  | ["T", n] =>
    let s1 := if interval > 0 && nat! n % interval == 0 then
        { s with subs := s.subs.map fun (k, d) => if s.present.contains k then (k, { d with s := d.s.sweep }) else (k, d) }
      else s
    let s2 := s1.settleAll
    { s2 with toks := s2.toks ++ ["t" ++ closedKeys s2] }
  | _ =>
    match Drv.C01.parseEv e with
    | some ev => groupEv ev s
    | none => s

def showGrp (s : GS) : String :=
  let subs := (s.subs.toArray.qsort (fun a b => a.1 < b.1)).toList
  String.intercalate "|" (String.intercalate "," s.toks ::
    subs.map fun (k, d) => s!"{k}={if d.s.conn.closed then 1 else 0}:{Hex.ofBytes d.s.conn.received}")

def runGrp (items : Proto → U → List Item) (cfg : Lal.Group.Cfg) (cap interval : Nat) (evs : List String) : GS :=
  evs.foldl (stepGrp items cap interval) { g := Lal.Group.init cfg }

/-- group-level oracle: every subscriber's stream is well framed (up to a truncated tail when its connection
    was closed) and carries only messages the publisher sent -/
def oracleGrp (evs : List String) (impl : String) : String :=
  let pub := Drv.C01.published (evs.filterMap Drv.C01.parseEv)
  let parts := (splitOnChar impl '|').drop 1
  let verdicts := parts.map fun part =>
    match splitOnChar part '=' with
    | [k, v] =>
      match splitOnChar v ':' with
      | [cl, h] =>
        let b := hex! h
        let closed := cl == "1"
        let p := kindProto (k.take 1).toString
        let body? := if p == .rtmp then some b else
          match stripPrefix? (respHeader p) b with
          | some r => some r
          | none => if b.isPrefixOf (respHeader p) then some [] else none
        match body? with
        | none => "bad:response-header-damaged:" ++ k
        | some body =>
          match (if closed then decTrunc p body 24 else decStream p body) with
          | none => "bad:stream-not-well-framed:" ++ k
          | some got =>
            let known := pub.map fun (t, ts, pl) =>
              if p == .rtmp then s!":{t}:1:{ts}:{Hex.ofBytes pl}" else s!"t{t}:{ts}:{Hex.ofBytes pl}"
            if got.all fun x => x == "flvheader" || known.any fun kx => if p == .rtmp then (x.splitOn kx).length == 2 && x.endsWith kx else x == kx
            then "ok" else "bad:received-something-never-published:" ++ k
      | _ => "bad:unparsable"
    | _ => "bad:unparsable"
  (verdicts.find? (·.startsWith "bad")).getD "ok"

def handleC15 : Handler := fun comp a impl =>
  match comp, a with
  | "q.sess", [p, cap, evs] =>
    let pr := protoOf p
    let fs := (splitOnChar evs ';').map (splitOnChar · ':')
    let (d, toks) := runSess subItems pr (nat! cap) fs
    let model := String.intercalate "," toks ++ "|" ++ (if d.s.conn.closed then "1" else "0") ++ "|" ++ Hex.ofBytes d.s.conn.received
    let v := match splitOnChar impl '|' with
      | [tk, cl, h] =>
        let v1 := oracleStream pr (fs.filterMap (unitOf pr)) (cl == "1") (hex! h)
        if v1.startsWith "bad" then v1 else
        let v2 := oracleSweep (splitOnChar tk ',')
        if v2.startsWith "bad" then v2 else v1
      | _ => "bad:unparsable"
    some { model := model, verdict := v }
  | "q.sess0", [p, cap, evs] =>
    -- the pinned tree's write path (WebSocket header and payload as two queue items): model output only
    let pr := protoOf p
    let fs := (splitOnChar evs ';').map (splitOnChar · ':')
    let (d, toks) := runSess PreFix.subItems pr (nat! cap) fs
    some { model := String.intercalate "," toks ++ "|" ++ (if d.s.conn.closed then "1" else "0") ++ "|" ++ Hex.ofBytes d.s.conn.received }
  | "q.grp", [cfg, cap, iv, evs] =>
    let es := splitOnChar evs ';'
    let s := runGrp subItems (Drv.C01.parseCfg cfg) (nat! cap) (nat! iv) es
    some { model := showGrp s, verdict := oracleGrp es impl }
  | "q.il", [ch, h] =>
    -- oracle: the RFC 2326 reader reads the implementation's frame back as (channel, packet), nothing left over
    let pkt := hex! h
    let v := if nat! ch ≥ 256 || pkt.length ≥ 65536 then "na" else
      match InterleavedSpec.readFrame (hex! impl) with
      | some (f, []) => if f.channel == nat! ch && f.data == pkt then "ok" else "bad:frame-differs"
      | some _ => "bad:trailing-bytes"
      | none => "bad:rfc2326-reader-rejects"
    some { model := Hex.ofBytes (Interleaved.pack (nat! ch) pkt), verdict := v }
  | _, _ => none

end Drv.C15
