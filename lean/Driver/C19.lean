import Driver.Common
import Driver.Codec
import Driver.C19Oracle
import LalModel.Model.Nalu
import LalModel.Model.SeqHeader
import LalModel.Model.Aac
import LalModel.Model.Bits
import LalModel.Model.Sps
import LalModel.Model.Sdp
import LalModel.Model.CfgChain
import LalModel.Spec.SpsEnc
import LalModel.Generated.C19Consts
/- Driver handlers for C19 (see harness/c19.go for the op formats) -/
open Lal Drv

namespace Drv.C19

def int! (s : String) : Int := s.toInt?.getD 0

def showList (l : List Bytes) : String :=
  if l.isEmpty then "." else String.intercalate "," (l.map Hex.ofBytes)

def listArg (s : String) : List Bytes :=
  if s == "." then [] else (splitOnChar s ',').map hex!

def optArg (s : String) : Option Bytes := if s == "nil" then none else some (hex! s)
def showOpt : Option Bytes → String
  | none => "nil"
  | some b => Hex.ofBytes b

def es (e : Bool) : String := if e then "err" else "ok"

def outB : GoM Bytes → String := outcome Hex.ofBytes

def intsArg (s : String) : List Int :=
  if s == "_" || s == "" then [] else (splitOnChar s ',').map int!

def bitsArg (s : String) : List Bool :=
  if s == "_" then [] else s.toList.map (· == '1')

/-- the textual SPS parameter record of harness/c19.go -/
def spsParams (a : List String) : Option SpsEnc.SpsParams :=
  match a with
  | [ref, profile, cflags, level, id, chroma, sep, bdl, bdc, bypass, scaling, log2fn, poc, nref, gaps, w, h, fmo, mbaff, d8, crop, vui] =>
    let pocv : SpsEnc.Poc := match splitOnChar poc ':' with
      | ["0", l] => .t0 (nat! l)
      | ["1", z, x, y, offs] => .t1 (z == "1") (int! x) (int! y) (intsArg offs)
      | _ => .t2
    let scal : Option (List (Option (List Int))) :=
      if scaling == "-" then none
      else some ((splitOnChar scaling '/').map fun l => if l == "n" then none else some (intsArg l))
    let cropv := match splitOnChar crop ':' with
      | [l, r, t, b] => some (nat! l, nat! r, nat! t, nat! b)
      | _ => none
    let vuiv : Option SpsEnc.Vui := match splitOnChar vui ':' with
      | ["n", tail] => some { aspect := none, tail := bitsArg tail }
      | ["a", idc, sw, sh, tail] => some { aspect := some (nat! idc, nat! sw, nat! sh), tail := bitsArg tail }
      | _ => none
    some { nalRefIdc := nat! ref, profileIdc := nat! profile, constraintFlags := nat! cflags, levelIdc := nat! level,
           spsId := nat! id, chromaFormatIdc := nat! chroma, separateColourPlane := sep == "1",
           bitDepthLumaMinus8 := nat! bdl, bitDepthChromaMinus8 := nat! bdc, qpprimeYZeroTransformBypass := bypass == "1",
           scalingMatrix := scal, log2MaxFrameNumMinus4 := nat! log2fn, poc := pocv, maxNumRefFrames := nat! nref,
           gapsInFrameNumAllowed := gaps == "1", picWidthInMbsMinus1 := nat! w, picHeightInMapUnitsMinus1 := nat! h,
           frameMbsOnly := fmo == "1", mbAdaptiveFrameField := mbaff == "1", direct8x8Inference := d8 == "1",
           crop := cropv, vui := vuiv }
  | _ => none

def showCtx (c : Sps.Context) : String :=
  let s := c.sps
  s!"ok {c.profile} {c.level} {c.width} {c.height} | {s.profileIdc} {s.constraintSet0} {s.constraintSet1} {s.constraintSet2} {s.levelIdc} {s.spsId} " ++
  s!"{s.chromaFormatIdc} {s.residualColorTransformFlag} {s.bitDepthLuma} {s.bitDepthChroma} {s.transFormBypass} " ++
  s!"{s.log2MaxFrameNumMinus4} {s.picOrderCntType} {s.log2MaxPicOrderCntLsb} {s.numRefFrames} {s.gapsInFrameNumValueAllowedFlag} " ++
  s!"{s.picWidthInMbsMinusOne} {s.picHeightInMapUnitsMinusOne} {s.frameMbsOnlyFlag} {s.mbAdaptiveFrameFieldFlag} {s.direct8X8InferenceFlag} " ++
  s!"{s.frameCroppingFlag} {s.frameCropLeftOffset} {s.frameCropRightOffset} {s.frameCropTopOffset} {s.frameCropBottomOffset} " ++
  s!"{s.sarNum} {s.sarDen}"

def tool : Bytes := Gen.lalPackSdp
def codec : Sdp.Codec := Drv.Codec.real

def showLogic (c : Sdp.LogicContext) : String :=
  let ctl (b : Bytes) := if b.isEmpty then "-" else Hex.ofBytes (Sdp.makeSetupUri (Sdp.asc "u") b)
  let au := c.hasAudio && ((c.audioPayloadTypeBase == Sdp.ptAac && c.asc.isSome) || c.audioPayloadTypeBase == Sdp.ptG711A
            || c.audioPayloadTypeBase == Sdp.ptG711U || c.audioPayloadTypeBase == Sdp.ptOpus)
  let vu := c.videoPayloadTypeBase == Sdp.ptAvc || c.videoPayloadTypeBase == Sdp.ptHevc
  s!"acr={c.audioClockRate} vcr={c.videoClockRate} asc={showOpt c.asc} vps={showOpt c.vps} sps={showOpt c.sps} pps={showOpt c.pps} " ++
  s!"apt={c.audioPayloadTypeBase} vpt={c.videoPayloadTypeBase} ao={c.audioPayloadTypeOrigin} vo={c.videoPayloadTypeOrigin} " ++
  s!"actl={ctl c.audioAControl} vctl={ctl c.videoAControl} au={if au then 1 else 0} vu={if vu then 1 else 0}"

/-- bits.rd script interpreter over the nazabits model -/
def runScript (b : Bytes) (script : List String) : String :=
  let rec go (items : List String) (br : Bits.BitReader) (acc : List String) : String :=
    match items with
    | [] => String.intercalate " " acc.reverse
    | it :: rest =>
      let num (r : Bits.Rd Nat) : String :=
        match r with
        | .ok (some v, br') => go rest br' (toString v :: acc)
        | .ok (none, br') => go rest br' ("e" :: acc)
        | .error _ => "panic"
      if it == "ue" then num (Bits.readUe br)
      else if it == "se" then
        match Bits.readSe br with
        | .ok (some v, br') => go rest br' (toString v :: acc)
        | .ok (none, br') => go rest br' ("e" :: acc)
        | .error _ => "panic"
      else
        let n := nat! (it.drop 1).toString
        if it.startsWith "b" then
          (if n ≤ 8 then num (Bits.readBits n br)
           else if n ≤ 16 then num (match Bits.readBits n br with
                 | .ok (some v, br') => .ok (some (v % 65536), br') | r => r)
           else if n ≤ 32 then num (Bits.readBits32 n br)
           else num (match Bits.readBits n br with
                 | .ok (some v, br') => .ok (some (v % 18446744073709551616), br') | r => r))
        else if it.startsWith "B" then
          match Bits.readBytes n br with
          | .ok (some v, br') => go rest br' (Hex.ofBytes v :: acc)
          | .ok (none, br') => go rest br' ("e" :: acc)
          | .error _ => "panic"
        else
          match Bits.skipBits n br with
          | (some _, br') => go rest br' ("k" :: acc)
          | (none, br') => go rest br' ("e" :: acc)
  go script (Bits.newBitReader b) []

def handleC19 : Handler := fun comp a impl =>
  match comp, a with
  -- ---- NAL unit streams
  | "nalu.sc", [b, start] =>
    some { model := match Nalu.iterateNaluStartCode (hex! b) (nat! start) with
      | some (p, l) => s!"{p} {l}"
      | none => "-1 -1" }
  | "nalu.annexb", [b] => let (l, e) := Nalu.splitNaluAnnexb (hex! b); some { model := es e ++ " " ++ showList l }
  | "nalu.avcc", [b] => let (l, e) := Nalu.splitNaluAvcc (hex! b); some { model := es e ++ " " ++ showList l }
  | "nalu.a2b", [b] => let (r, e) := Nalu.avcc2Annexb (hex! b); some { model := es e ++ " " ++ Hex.ofBytes r }
  | "nalu.b2a", [b] => let (r, e) := Nalu.annexb2Avcc (hex! b); some { model := es e ++ " " ++ Hex.ofBytes r }
  | "nalu.join", [l] => some { model := Hex.ofBytes (Nalu.joinNaluAvcc (listArg l)) }
  | "nalu.rt", [arg] =>
    let items := (splitOnChar arg ',').map fun it => match splitOnChar it ':' with
      | [k, n] => (nat! k, hex! n)
      | _ => (0, [])
    let annexb := items.flatMap fun (k, n) => List.replicate k 0 ++ [1] ++ n
    let nals := items.map (·.2)
    let avcc := Nalu.joinNaluAvcc nals
    let (s1, e1) := Nalu.splitNaluAnnexb annexb
    let (s2, e2) := Nalu.splitNaluAvcc avcc
    let (c1, e3) := Nalu.annexb2Avcc annexb
    let (c2, e4) := Nalu.avcc2Annexb avcc
    some { model := s!"{es e1} {showList s1} ; {es e2} {showList s2} ; {es e3} {Hex.ofBytes c1} ; {es e4} {Hex.ofBytes c2}",
           verdict := oracleNaluRt items impl }
  -- ---- sequence headers
  | "avc.build", [s, p] => some { model := outB (SeqHeader.avcBuild (hex! s) (hex! p)), verdict := oracleAvcBuild (hex! s) (hex! p) impl }
  | "avc.parse", [p] =>
    some { model := outcome (fun (s, q) => Hex.ofBytes s ++ " " ++ Hex.ofBytes q) (SeqHeader.avcParse (hex! p)) }
  | "avc.sh2annexb", [p] => some { model := outB (SeqHeader.avcSeqHeader2Annexb (hex! p)), verdict := oracleAvcSh2Annexb (hex! p) impl }
  | "avc.annexb", [s, p] =>
    some { model := Hex.ofBytes (SeqHeader.avcBuildAnnexb (hex! s) (hex! p)), verdict := oracleAnnexbOf [hex! s, hex! p] impl }
  | "hevc.build", [v, s, p] =>
    some { model := outB (SeqHeader.hevcBuild (hex! v) (hex! s) (hex! p)), verdict := oracleHevcBuild (hex! v) (hex! s) (hex! p) impl }
  | "hevc.parse", [p] =>
    some { model := outcome (fun (v, s, q) => s!"{Hex.ofBytes v} {Hex.ofBytes s} {Hex.ofBytes q}") (SeqHeader.hevcParse (hex! p)) }
  | "hevc.eparse", [p] =>
    some { model := outcome (fun (v, s, q) => s!"{Hex.ofBytes v} {Hex.ofBytes s} {Hex.ofBytes q}") (SeqHeader.hevcParseEnhanced (hex! p)) }
  | "hevc.sh2annexb", [p] =>
    some { model := outB (SeqHeader.hevcSeqHeader2Annexb (hex! p)), verdict := oracleHevcSh2Annexb (hex! p) false impl }
  | "hevc.esh2annexb", [p] =>
    some { model := outB (SeqHeader.hevcEnhancedSeqHeader2Annexb (hex! p)), verdict := oracleHevcSh2Annexb (hex! p) true impl }
  | "hevc.annexb", [v, s, p] =>
    some { model := outB (SeqHeader.hevcBuildAnnexb (hex! v) (hex! s) (hex! p)),
           verdict := if isFail impl then "na" else oracleAnnexbOf [hex! v, hex! s, hex! p] impl }
  -- ---- AAC
  | "aac.asc", [b] =>
    some { model := outcome (fun (c : Aac.AscContext) => s!"{c.audioObjectType} {c.samplingFrequencyIndex} {c.channelConfiguration}") (Aac.ascUnpack (hex! b)),
           verdict := oracleAscUnpack (hex! b) impl }
  | "aac.pack", [o, s, c] =>
    some { model := Hex.ofBytes (Aac.ascPack ⟨nat! o, nat! s, nat! c⟩), verdict := oracleAscPack (nat! o) (nat! s) (nat! c) impl }
  | "aac.adts", [o, s, c, n] =>
    some { model := Hex.ofBytes (Aac.packAdtsHeader ⟨nat! o, nat! s, nat! c⟩ (nat! n)),
           verdict := oracleAdts (nat! o) (nat! s) (nat! c) (nat! n) impl }
  | "aac.freq", [o, s, c] =>
    some { model := match Aac.samplingFrequency ⟨nat! o, nat! s, nat! c⟩ with | some f => toString f | none => "err" }
  | "aac.unadts", [b] =>
    some { model := outcome (fun (c : Aac.AdtsHeaderContext) =>
      s!"{c.asc.audioObjectType} {c.asc.samplingFrequencyIndex} {c.asc.channelConfiguration} {c.adtsLength}") (Aac.adtsUnpack (hex! b)),
           verdict := oracleUnadts (hex! b) impl }
  | "aac.adts2asc", [b] => some { model := outB (Aac.makeAscWithAdtsHeader (hex! b)), verdict := oracleAdts2Asc (hex! b) impl 0 }
  | "aac.seqhdr", [b] =>
    some { model := outB (Aac.makeAudioDataSeqHeaderWithAsc (hex! b)),
           verdict := if (hex! b).length < 2 then "na" else if hex! impl == 0xaf :: 0 :: hex! b then "ok" else "bad:aac-seq-header" }
  | "aac.adts2seqhdr", [b] =>
    some { model := outB (Aac.makeAudioDataSeqHeaderWithAdtsHeader (hex! b)), verdict := oracleAdts2Asc (hex! b) impl 2 }
  | "aac.shctx", [b] =>
    let (f, r, s, t, p) := Aac.seqHeaderUnpack (hex! b)
    some { model := s!"{f} {r} {s} {t} {p}" }
  -- ---- bits
  | "bits.rd", [b, script] => some { model := runScript (hex! b) (splitOnChar script ',') }
  | "bits.ue", [v] =>
    let bytes := Bits.packBits (Bits.ueBits (nat! v) ++ [true])
    let r := match Bits.readUe (Bits.newBitReader bytes) with
      | .ok (some x, _) => toString x
      | .ok (none, _) => "e"
      | .error _ => "panic"
    some { model := Hex.ofBytes bytes ++ " " ++ r,
           verdict := if nat! v ≤ 4294967294 then (if impl == Hex.ofBytes bytes ++ " " ++ v then "ok" else "bad:ue-round-trip") else "na" }
  | "bits.se", [v] =>
    let bytes := Bits.packBits (Bits.seBits (int! v) ++ [true])
    let r := match Bits.readSe (Bits.newBitReader bytes) with
      | .ok (some x, _) => toString x
      | .ok (none, _) => "e"
      | .error _ => "panic"
    some { model := Hex.ofBytes bytes ++ " " ++ r,
           verdict := if -1073741823 ≤ int! v && int! v ≤ 1073741823 then
                        (if impl == Hex.ofBytes bytes ++ " " ++ v then "ok" else "bad:se-round-trip") else "na" }
  -- ---- SPS
  | "sps.parse", [b] => some { model := outcome showCtx (Sps.parseSps (hex! b)) }
  | "sps.enc", args =>
    match spsParams args with
    | none => some { model := "bad-args" }
    | some p =>
      let nal := SpsEnc.encSps p
      let r := match Sps.parseSps nal with
        | .ok c => s!"{c.width} {c.height}"
        | .error .err => "err"
        | .error (.panic _) => "panic"
      some { model := Hex.ofBytes nal ++ " " ++ r, verdict := oracleSpsEnc p impl }
  -- ---- SDP
  | "sdp.pack", [vpt, vps, sps, pps, apt, freq, ascb] =>
    let v : Sdp.VideoInfo := { videoPt := int! vpt, vps := optArg vps, sps := optArg sps, pps := optArg pps }
    let au : Sdp.AudioInfo := { audioPt := int! apt, samplingFrequency := int! freq, asc := optArg ascb }
    some { model := match Sdp.pack codec tool v au with
      | none => "err"
      | some c => Hex.ofBytes c.rawSdp ++ " " ++ showLogic c,
           verdict := oracleSdpPack (int! vpt) (optArg vps) (optArg sps) (optArg pps) (int! apt) (int! freq) (optArg ascb) impl }
  | "sdp.parse", [raw] =>
    some { model := match Sdp.parseLogic codec (hex! raw) with
      | none => "err"
      | some c => showLogic c }
  -- ---- chains
  | "remux.sdp", [v, au] =>
    some { model := match CfgChain.rtmp2rtspSdp codec tool (optArg v) (optArg au) with
      | .ok none => "none"
      | .ok (some c) => Hex.ofBytes c.rawSdp ++ " " ++ showLogic c
      | .error .err => "err"
      | .error (.panic _) => "panic",
           verdict := oracleRemuxSdp (optArg v) (optArg au) impl }
  | "remux.init", [ascb, vps, sps, pps] =>
    some { model := match CfgChain.initWithAvConfig (optArg ascb) (optArg vps) (optArg sps) (optArg pps) with
      | .ok [] => "none"
      | .ok l => String.intercalate " " (l.map fun (t, p) => s!"{t}:{Hex.ofBytes p}")
      | .error .err => "err"
      | .error (.panic _) => "panic",
           verdict := oracleRemuxInit (optArg ascb) (optArg vps) (optArg sps) (optArg pps) impl }
  | _, _ => none

end Drv.C19
