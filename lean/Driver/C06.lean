import Driver.Common
import Driver.Codec
import LalModel.Model.TsRmx
import LalModel.Model.RtspRmx
import LalModel.Model.HlsConcat
import LalModel.Generated.C19Consts
import Driver.C06Oracle
/- Driver handlers for C06 (see harness/c06.go for the op formats): c06.ts, c06.rtsp -/
open Lal Drv

namespace Drv.C06

def parseEvents (s : String) : List TsRmx.Ev :=
  if s == "-" || s == "" then [] else
  (splitOnChar s ';').filterMap fun it =>
    if it == "f" then some .flush else
    match splitOnChar it ':' with
    | [k, ts, p] => some (.msg { typ := if k == "v" then 9 else 8, ts := nat! ts, payload := hex! p })
    | _ => none

def msgsOf (evs : List TsRmx.Ev) : List TsRmx.Msg :=
  evs.filterMap fun e => match e with | .msg m => some m | .flush => none

def b01 (b : Bool) : String := if b then "1" else "0"

def showTsOut : TsRmx.Out → String
  | .patpmt b => "P:" ++ Hex.ofBytes b
  | .ts i =>
    s!"T:{i.sid}:{b01 i.key}:{i.dts}:{i.pts}:{i.cc}:{b01 i.boundary}:{Hex.ofBytes i.packets.flatten}"

def showRtspOut : RtspRmx.Out → String
  | .sdp none => "S:-"
  | .sdp (some c) => "S:" ++ Hex.ofBytes c.rawSdp
  | .rtp p => "R:" ++ Hex.ofBytes p.raw

def joinOuts (l : List String) : String := if l.isEmpty then "none" else String.intercalate ";" l

def tool : Bytes := Gen.lalPackSdp
def codec : Sdp.Codec := Drv.Codec.real

def handleC06 : Handler := fun comp a impl =>
  match comp, a with
  | "c06.ts", [tag, hook, evs] =>
    let evs := parseEvents evs
    let (_, _, outs) := TsRmx.run (TsRmx.hookObs (hook == "1")) {} () evs
    some { model := joinOuts (outs.map showTsOut),
           verdict := if impl == "panic" then "bad:panic" else if tag == "x" then "na" else C06O.tsVerdict tag evs impl }
  | "c06.rtsp", [tag, evs] =>
    let ms := msgsOf (parseEvents evs)
    let (_, outs) := RtspRmx.run codec tool {} ms
    some { model := joinOuts (outs.map showRtspOut),
           verdict := if impl == "panic" then "bad:panic" else if tag == "x" then "na" else C06O.rtspVerdict tag ms impl }
  | "c06.tsopus", [evs] =>
    let evs := parseEvents evs
    let (_, _, outs) := TsRmx.run (TsRmx.hookObs false) {} () evs
    some { model := joinOuts (outs.map showTsOut), verdict := C06O.tsOpusVerdict impl }
  | "c06.hls", [tag, fragMs, evs] =>
    let evs := parseEvents evs
    let (_, m, _) := TsRmx.run HlsConcat.observer {} { fragMs := nat! fragMs } evs
    some { model := joinOuts (m.segs.map fun g => "G:" ++ Hex.ofBytes g),
           verdict := if impl == "panic" then "bad:panic" else if tag == "x" then "na" else C06O.hlsVerdict tag evs impl }
  | _, _ => none

end Drv.C06
