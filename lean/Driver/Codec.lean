import LalModel.Model.Sdp
/-
  The real base64 (RFC 4648 §4, with padding; `encoding/base64.StdEncoding`) and hex (`encoding/hex`)
  used to instantiate the `Codec` parameter of Model/Sdp.lean in the driver. Decoders return the bytes
  decoded before an error together with the success flag, as Go's `DecodeString` does.
-/
open Lal

namespace Drv.Codec

def b64Alphabet : Array UInt8 :=
  "ABCDEFGHIJKLMNOPQRSTUVWXYZabcdefghijklmnopqrstuvwxyz0123456789+/".toList.toArray.map fun c => UInt8.ofNat c.toNat

def b64Char (n : Nat) : UInt8 := b64Alphabet.getD n 0

def b64enc : Bytes → Bytes
  | a :: b :: c :: rest =>
    let n := a.toNat * 65536 + b.toNat * 256 + c.toNat
    b64Char (n / 262144) :: b64Char (n / 4096 % 64) :: b64Char (n / 64 % 64) :: b64Char (n % 64) :: b64enc rest
  | [a, b] =>
    let n := a.toNat * 65536 + b.toNat * 256
    [b64Char (n / 262144), b64Char (n / 4096 % 64), b64Char (n / 64 % 64), 61]
  | [a] =>
    let n := a.toNat * 65536
    [b64Char (n / 262144), b64Char (n / 4096 % 64), 61, 61]
  | [] => []

def b64Val (x : UInt8) : Option Nat :=
  let n := x.toNat
  if 65 ≤ n ∧ n ≤ 90 then some (n - 65)
  else if 97 ≤ n ∧ n ≤ 122 then some (n - 71)
  else if 48 ≤ n ∧ n ≤ 57 then some (n + 4)
  else if n = 43 then some 62
  else if n = 47 then some 63
  else none

/-- quantum by quantum; CR and LF are skipped (as Go does) -/
partial def b64decLoop (s : Bytes) (acc : Bytes) : Bytes × Bool :=
  match s with
  | [] => (acc.reverse, true)
  | a :: b :: c :: d :: rest =>
    match b64Val a, b64Val b with
    | some va, some vb =>
      if c == 61 then
        -- Go writes the bytes of a padded quantum before it reports trailing garbage
        if d == 61 then ((UInt8.ofNat ((va * 64 + vb) / 16) :: acc).reverse, rest.isEmpty) else (acc.reverse, false)
      else match b64Val c with
        | none => (acc.reverse, false)
        | some vc =>
          if d == 61 then
            let n := va * 4096 + vb * 64 + vc
            ((UInt8.ofNat (n / 4 % 256) :: UInt8.ofNat (n / 1024) :: acc).reverse, rest.isEmpty)
          else match b64Val d with
            | none => (acc.reverse, false)
            | some vd =>
              let n := va * 262144 + vb * 4096 + vc * 64 + vd
              b64decLoop rest (UInt8.ofNat (n % 256) :: UInt8.ofNat (n / 256 % 256) :: UInt8.ofNat (n / 65536) :: acc)
    | _, _ => (acc.reverse, false)
  | _ => (acc.reverse, false)

def b64dec (s : Bytes) : Bytes × Bool := b64decLoop (s.filter fun x => x != 13 && x != 10) []

def hexChar (n : Nat) : UInt8 := UInt8.ofNat (if n < 10 then 48 + n else 87 + n)
def hexenc (b : Bytes) : Bytes := b.flatMap fun x => [hexChar (x.toNat / 16), hexChar (x.toNat % 16)]
def hexVal (x : UInt8) : Option Nat :=
  let n := x.toNat
  if 48 ≤ n ∧ n ≤ 57 then some (n - 48) else if 97 ≤ n ∧ n ≤ 102 then some (n - 87)
  else if 65 ≤ n ∧ n ≤ 70 then some (n - 55) else none

def hexdecLoop : Bytes → Bytes → Bytes × Bool
  | [], acc => (acc.reverse, true)
  | [_], acc => (acc.reverse, false)
  | a :: b :: rest, acc =>
    match hexVal a, hexVal b with
    | some x, some y => hexdecLoop rest (UInt8.ofNat (x * 16 + y) :: acc)
    | _, _ => (acc.reverse, false)

def hexdec (s : Bytes) : Bytes × Bool := hexdecLoop s []

def real : Sdp.Codec := { b64enc := b64enc, b64dec := b64dec, hexenc := hexenc, hexdec := hexdec }

end Drv.Codec
