import Driver.Common
import LalModel.Model.Amf0
import LalModel.Spec.Amf0Spec
import LalModel.Generated.Amf0Consts
/-
  Driver handlers for C18: amf.enc, amf.dec, amf.deep, amf.sdf.with, amf.sdf.without, amf.sdf.law,
  amf.meta.build, amf.meta.parse.

  One-token text syntax of value trees (lower-case hex, upper-case type letters):
    N<16 hex>            number (IEEE-754 bits)
    T | F                boolean
    S<hex>               string (hex may be empty)      R<len>x<hh>  string of <len> bytes <hh>
    O{<key>:<v>,...}     object       E{...}  ECMA array      A[<v>,...]  strict array
    Z                    null         U       undefined
  a key is <hex> (may be empty) or R<len>x<hh>. Canonical printing: a string/key of ≥ 64 equal bytes is
  printed in the R form, everything else in hex. Go-side values (`Val`) print with the same letters; every
  container prints as O{...}.
-/
open Lal Drv Lal.Amf0

namespace Drv.C18

/-- stack budget (container frames) the model readers run with: the bound of `Props.C18.read_total` -/
def stackBudget : Nat := Gen.amf0MaxDepth - 1
def lim : Nat := Gen.amf0MaxDepth

/-! ### printing -/

def showBytes (b : Bytes) : String :=
  match b with
  | [] => ""
  | x :: _ =>
    if b.length ≥ 64 ∧ b.all (· == x) then s!"R{b.length}x{Hex.ofBytes [x]}" else Hex.ofBytes b

partial def showVal : Val → String
  | .num bits => "N" ++ Hex.ofBytes bits
  | .bool b => if b then "T" else "F"
  | .str s => match showBytes s with
    | "" => "S"
    | t => if t.startsWith "R" then t else "S" ++ t
  | .opa kvs => "O{" ++ String.intercalate "," (kvs.map fun (k, v) => showBytes k ++ ":" ++ showVal v) ++ "}"

partial def showAmf : Amf → String
  | .num bits => "N" ++ Hex.ofBytes bits
  | .bool b => if b then "T" else "F"
  | .str s => match showBytes s with
    | "" => "S"
    | t => if t.startsWith "R" then t else "S" ++ t
  | .obj kvs => "O{" ++ String.intercalate "," (kvs.map fun (k, v) => showBytes k ++ ":" ++ showAmf v) ++ "}"
  | .ecma kvs => "E{" ++ String.intercalate "," (kvs.map fun (k, v) => showBytes k ++ ":" ++ showAmf v) ++ "}"
  | .strict vs => "A[" ++ String.intercalate "," (vs.map showAmf) ++ "]"
  | .null => "Z"
  | .undef => "U"

/-! ### parsing the tree syntax -/

def isHex (c : Char) : Bool := ('0' ≤ c ∧ c ≤ '9') || ('a' ≤ c ∧ c ≤ 'f')

def spanHex (cs : List Char) : List Char × List Char := cs.span isHex

def hexOf (cs : List Char) : Bytes := (Hex.parseChars cs []).getD []

/-- <hex> | R<len>x<hh> -/
def parseBytes (cs : List Char) : Bytes × List Char :=
  match cs with
  | 'R' :: r =>
    let (ds, r1) := r.span Char.isDigit
    match r1 with
    | 'x' :: a :: b :: r2 =>
      (List.replicate ((String.ofList ds).toNat?.getD 0) ((hexOf [a, b]).headD 0), r2)
    | _ => ([], r1)
  | _ => let (h, r) := spanHex cs; (hexOf h, r)

mutual
partial def parseAmf (cs : List Char) : Option (Amf × List Char) :=
  match cs with
  | 'N' :: r => let (h, r') := spanHex r; some (.num (hexOf h), r')
  | 'T' :: r => some (.bool true, r)
  | 'F' :: r => some (.bool false, r)
  | 'S' :: r => let (h, r') := spanHex r; some (.str (hexOf h), r')
  | 'R' :: _ => let (b, r') := parseBytes cs; some (.str b, r')
  | 'Z' :: r => some (.null, r)
  | 'U' :: r => some (.undef, r)
  | 'O' :: '{' :: r => (parseKvs r []).map fun (kvs, r') => (.obj kvs, r')
  | 'E' :: '{' :: r => (parseKvs r []).map fun (kvs, r') => (.ecma kvs, r')
  | 'A' :: '[' :: r => (parseVs r []).map fun (vs, r') => (.strict vs, r')
  | _ => none
partial def parseKvs (cs : List Char) (acc : List (Bytes × Amf)) : Option (List (Bytes × Amf) × List Char) :=
  match cs with
  | '}' :: r => some (acc.reverse, r)
  | ',' :: r => parseKvs r acc
  | _ =>
    let (k, r) := parseBytes cs
    match r with
    | ':' :: r' =>
      match parseAmf r' with
      | some (v, r'') => parseKvs r'' ((k, v) :: acc)
      | none => none
    | _ => none
partial def parseVs (cs : List Char) (acc : List Amf) : Option (List Amf × List Char) :=
  match cs with
  | ']' :: r => some (acc.reverse, r)
  | ',' :: r => parseVs r acc
  | _ =>
    match parseAmf cs with
    | some (v, r) => parseVs r (v :: acc)
    | none => none
end

def tree! (s : String) : Amf :=
  match parseAmf s.toList with
  | some (v, []) => v
  | _ => .undef

/-! ### model outputs -/

def showRead (r : GoM (Opa × Nat)) : String :=
  outcome (fun (v, n) => s!"{showVal (.opa v)} {n}") r

/-- the exported reader named by `kind` -/
def readKind (kind : String) (b : Bytes) : String :=
  match kind with
  | "num" => outcome (fun (v, n) => s!"{showVal (.num v)} {n}") (readNumber b)
  | "bool" => outcome (fun (v, n) => s!"{showVal (.bool v)} {n}") (readBoolean b)
  | "str" => outcome (fun (v, n) => s!"{showVal (.str v)} {n}") (readString b)
  | "null" => outcome (fun n => s!"Z {n}") (readNull b)
  | "obj" => showRead (readObject lim stackBudget b)
  | "arr" => showRead (readArray lim stackBudget b)
  | "sarr" => showRead (readStrictArray lim stackBudget b)
  | "ooa" => showRead (readObjectOrArray lim stackBudget b)
  | _ => "bad-kind"

def kindOf : Amf → String
  | .num _ => "num" | .bool _ => "bool" | .str _ => "str" | .null => "null" | .undef => "undef"
  | .obj _ => "obj" | .ecma _ => "arr" | .strict _ => "sarr"

/-- what a conforming reading of `v` looks like through lal's API of that kind -/
def expectRead (v : Amf) (n : Nat) : String :=
  match v with
  | .null => s!"Z {n}"
  | _ => s!"{showVal (erase v)} {n}"

/-- Well-formedness under which the reader must return the tree (`Props.C18.WF`): sizes fit their length
    fields, numbers are 8 bytes, nesting within the reader's limit. -/
partial def wf : Amf → Bool
  | .num b => b.length == 8
  | .str s => s.length < 4294967296
  | .obj kvs => kvs.all fun (k, v) => k.length < 65536 && wf v
  | .ecma kvs => kvs.length < 4294967296 && kvs.all fun (k, v) => k.length < 65536 && wf v
  | .strict vs => vs.length < 4294967296 && vs.all wf
  | _ => true

def kindMatches (kind : String) (v : Amf) : Bool :=
  kindOf v == kind || (kind == "ooa" && (kindOf v == "obj" || kindOf v == "arr"))

/-- unit^k ++ 05 ++ closer^k : a valid encoding of nesting depth k around a null -/
def deepInput (kind : String) (k : Nat) : Bytes :=
  let (u, c) : Bytes × Bytes := match kind with
    | "obj" => ([0x03, 0, 0], [0, 0, 9])
    | "arr" => ([0x08, 0, 0, 0, 1, 0, 0], [0, 0, 9])
    | _ => ([0x0a, 0, 0, 0, 1], [])
  (List.replicate k u).flatten ++ [0x05] ++ (List.replicate k c).flatten

def int! (s : String) : Int :=
  if s.startsWith "-" then -((s.drop 1).toString.toNat?.getD 0 : Nat) else (s.toNat?.getD 0 : Nat)

def handleC18 : Handler := fun comp a impl =>
  match comp, a with
  | "amf.enc", [t] =>
    let v := tree! t
    match write v with
    | none => some { model := "panic", verdict := if impl == "panic" then "na" else "bad:wrote-unwritable" }
    | some bytes =>
      let m := Hex.ofBytes bytes ++ " ; " ++ readKind (kindOf v) bytes
      -- oracle: the implementation's bytes, read by the specification decoder, are exactly the tree, and
      -- lal's own reader returned the tree (as it represents it) consuming exactly the encoding
      let verdict :=
        match impl.splitOn " ; " with
        | [ihex, iread] =>
          let ib := hex! ihex
          if !wf v then "na" else
          match Amf0Spec.decode ib with
          | none => "bad:spec-decoder-rejects"
          | some (sv, n) =>
            if showAmf sv != showAmf v then "bad:spec-decodes-other-value"
            else if n != ib.length then "bad:spec-trailing-bytes"
            else if iread != expectRead v ib.length then "bad:lal-read-back-differs"
            else "ok"
        | _ => "bad:no-output"
      some { model := m, verdict := verdict }
  | "amf.dec", [kind, h] =>
    let b := hex! h
    let m := readKind kind b
    -- oracle: never a panic, never more consumed than there is; and whenever the bytes start with a
    -- specification-valid value of the requested kind within the nesting limit, lal returns that value
    let verdict :=
      if impl == "panic" then "bad:panic" else
      let consumedOk := match impl.splitOn " " with
        | [_, n] => nat! n ≤ b.length
        | _ => impl == "err"
      if !consumedOk then "bad:consumed-more-than-input" else
      match Amf0Spec.decode b with
      | some (sv, n) =>
        if kindMatches kind sv && wf sv && depth sv ≤ Gen.amf0MaxDepth then
          if impl == expectRead sv n then "ok" else "bad:differs-from-spec-decoder"
        else "na"
      | none => "na"
    some { model := m, verdict := verdict }
  | "amf.deep", [kind, k, _] =>
    let b := deepInput kind (nat! k)
    let m := match kind with
      | "obj" => outcome (fun (_, n) => s!"ok {n}") (readObject lim stackBudget b)
      | "arr" => outcome (fun (_, n) => s!"ok {n}") (readArray lim stackBudget b)
      | _ => outcome (fun (_, n) => s!"ok {n}") (readStrictArray lim stackBudget b)
    let verdict :=
      if impl == "stackfault" then "bad:stack-exhausted"
      else if impl == "panic" then "bad:panic"
      else "ok"
    some { model := m, verdict := verdict }
  | "amf.sdf.with", [h] =>
    let b := hex! h
    let m := outcome (fun (o, e) => s!"{Hex.ofBytes o} {if e then "err" else "ok"}") (metadataEnsureWithSdf b)
    let verdict :=
      if impl == "panic" then "bad:panic" else
      match Amf0Spec.decode b with
      | some (.str s, _) =>
        let want := if s == sdfName then b else [0x02, 0x00, 0x0d] ++ sdfName ++ b
        if impl == s!"{Hex.ofBytes want} ok" then "ok" else "bad:with-sdf-wrong-bytes"
      | _ => if impl == s!"{Hex.ofBytes b} err" then "ok" else "bad:not-a-string-but-no-error"
    some { model := m, verdict := verdict }
  | "amf.sdf.without", [h] =>
    let b := hex! h
    let m := outcome (fun (o, e) => s!"{Hex.ofBytes o} {if e then "err" else "ok"}") (metadataEnsureWithoutSdf b)
    let verdict :=
      if impl == "panic" then "bad:panic" else
      match Amf0Spec.decode b with
      | some (.str s, n) =>
        let want := if s == sdfName then b.drop n else b
        if impl == s!"{Hex.ofBytes want} ok" then "ok" else "bad:without-sdf-wrong-bytes"
      | _ => if impl == s!"{Hex.ofBytes b} err" then "ok" else "bad:not-a-string-but-no-error"
    some { model := m, verdict := verdict }
  | "amf.sdf.law", [h] =>
    let b := hex! h
    let wo (x : Bytes) : String := outcome (fun (o, _) => Hex.ofBytes o) (metadataEnsureWithoutSdf x)
    let m := match metadataEnsureWithSdf b with
      | .ok (w, _) => s!"{wo w} {wo b}"
      | .error .err => "err"
      | .error (.panic _) => "panic"
    let verdict := match impl.splitOn " " with
      | [x, y] => if x == y then "ok" else "bad:without-of-with-differs"
      | _ => "bad:" ++ impl
    some { model := m, verdict := verdict }
  | "amf.meta.build", [w, h, ac, vc] =>
    let args := [int! w, int! h, int! ac, int! vc]
    match buildMetadata Gen.metaEncoder Gen.lalVersionDot (int! w) (int! h) (int! ac) (int! vc) with
    | none => some { model := "panic" }
    | some bytes =>
      let m := Hex.ofBytes bytes ++ " ; " ++ outcome (fun o => showVal (.opa o)) (parseMetadata lim stackBudget bytes)
      -- oracle: specification decoder: string "onMetaData", then an object whose numeric fields are the
      -- arguments ≠ -1 in order (as doubles that are exactly those integers), then version and lal strings
      let names := [kWidth, kHeight, kAudiocodecid, kVideocodecid]
      let wantNums := (names.zip args).filter fun (_, x) => x != -1
      let exact := args.all fun x => x.natAbs ≤ 9007199254740992
      let verdict :=
        match impl.splitOn " ; " with
        | [ihex, iparse] =>
          let ib := hex! ihex
          match Amf0Spec.decode ib with
          | some (.str s, n) =>
            if s != onMetaData then "bad:not-onMetaData" else
            match Amf0Spec.decode (ib.drop n) with
            | some (.obj kvs, n2) =>
              if n + n2 != ib.length then "bad:trailing-bytes" else
              let nums := kvs.filterMap fun (k, v) => match v with
                | .num bits => some (k, Amf0Spec.f64ToInt? bits)
                | _ => none
              let strs := kvs.filterMap fun (k, v) => match v with
                | .str s => some (k, s)
                | _ => none
              if !exact then "na"
              else if nums != wantNums.map (fun (k, x) => (k, some x)) then "bad:numeric-fields-differ"
              else if strs != [(kVersion, Gen.metaEncoder), (kLal, Gen.lalVersionDot)] then "bad:string-fields-differ"
              else if nums.length + strs.length != kvs.length then "bad:extra-fields"
              else if iparse != showVal (erase (.obj kvs)) then "bad:parse-back-differs"
              else "ok"
            | _ => "bad:no-object"
          | _ => "bad:no-name-string"
        | _ => "bad:no-output"
      some { model := m, verdict := verdict }
  | "amf.meta.parse", [h] =>
    let b := hex! h
    let m := outcome (fun o => showVal (.opa o)) (parseMetadata lim stackBudget b)
    some { model := m, verdict := if impl == "panic" then "bad:panic" else "ok" }
  | _, _ => none

end Drv.C18
