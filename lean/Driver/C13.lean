import Driver.Common
import Driver.Codec
import LalModel.Model.Rtp
import LalModel.Model.RtpUnpack
import LalModel.Model.Rtcp
import LalModel.Model.RtspIn
import LalModel.Model.RtspSrv
import LalModel.Model.WsRead
import LalModel.Model.Ps
import LalModel.Model.UrlCtx
import LalModel.Generated.C13
/- Driver handlers for C13 (no input terminates lal): model output per entry point and the oracle
   "the implementation did not panic" (`bad:panic` when the implementation's output contains a Go panic). -/
open Lal Drv Lal.Rtp Lal.RtpUnpack

namespace Drv.C13

def int! (s : String) : Int := s.toInt?.getD 0

def hasSub (s pat : String) : Bool := (s.splitOn pat).length > 1

/-- the property's oracle on the implementation's output -/
def noPanic (impl : String) : String :=
  if hasSub impl "panic" then "bad:panic" else if hasSub impl "hang" then "bad:hang" else "ok"

def kindOf (s : String) : Option Kind :=
  match s with
  | "avc" => some .avc | "hevc" => some .hevc | "aac" => some .aac | "pcm" => some .pcm | "opus" => some .opus
  | _ => none

def parseList (s : String) : List Bytes :=
  if s == "none" then [] else (splitOnChar s ',').map hex!

def showB (b : Bool) : String := if b then "1" else "0"

def showUnits (us : List AvPacket) : String :=
  if us.isEmpty then "none" else String.intercalate "," (us.map fun u => s!"{u.ts}:{Hex.ofBytes u.payload}")

def showEv : RtspIn.Ev → String
  | .rtp seq => s!"r:{seq}"
  | .av pt ts p => s!"a:{pt}:{ts}:{Hex.ofBytes p}"
  | .wr ch b => s!"w:{ch}:{Hex.ofBytes b}"

def showEvs (l : List RtspIn.Ev) : String :=
  if l.isEmpty then "none" else String.intercalate "," (l.map showEv)

def showOut (o : Ps.Out) : String := s!"{o.pt}:{o.ts}:{o.pts}:{Hex.ofBytes o.payload}"
def showOuts (l : List Ps.Out) : String :=
  if l.isEmpty then "none" else String.intercalate "," (l.map showOut)

/-- `<rtp>-<rtcp>` of a SETUP argument; `-` = no SETUP for that stream -/
def chanArg (s : String) : Option (Int × Int) :=
  if s == "-" then none else
  match splitOnChar s '/' with
  | [a, b] => some (int! a, int! b)
  | _ => none

def sessSetup (s : RtspIn.Sess) (uri : String) (ch : String) : RtspIn.Sess × String :=
  match chanArg ch with
  | none => (s, "-")
  | some (a, b) =>
    match RtspIn.setupWithChannel s (hex! uri) a b with
    | none => (s, "err")
    | some s' => (s', "ok")

def sessItems (s : String) : List (Int × Bytes) :=
  if s == "none" then [] else
  (splitOnChar s ',').map fun it =>
    match splitOnChar it ':' with
    | [c, b] => (int! c, hex! b)
    | _ => (0, [])

def bodyItems (s : String) : List (Nat × Bytes) :=
  if s == "none" then [] else
  (splitOnChar s ',').map fun it =>
    match splitOnChar it ':' with
    | [c, b] => (nat! c, hex! b)
    | _ => (0, [])

def hx (b : Bytes) : String := Hex.ofBytes b

def showCtx (c : UrlCtx.Ctx) : String :=
  let ft := match UrlCtx.fileNameType c with
    | .ok (a, t) => s!"{hx a} {hx t}"
    | .error _ => "panic"
  s!"ok {hx c.scheme} {hx c.stdHost} {hx c.hostWithPort} {hx c.host} {c.port} {hx c.pathWithRawQuery} {hx c.path} " ++
  s!"{hx c.pathWithoutLastItem} {hx c.lastItemOfPath} {hx c.rawQuery} {hx c.rawUrlWithoutUserInfo} {ft}"

def optHex (s : String) : Bytes := if s == "-" then [] else hex! s

def parseTok (t : String) : RtspSrv.Tok :=
  match splitOnChar t ':' with
  | ["M", meth, uri, uok, cseq, tr, body] =>
    .req { method := Sdp.asc meth, uri := optHex uri, uriOk := uok == "1", cseq := optHex cseq, transport := optHex tr, body := optHex body }
  | ["I", ch, b] => .frame (nat! ch) (optHex b)
  | _ => .frame 0 []

def showItem : RtspSrv.Item → String
  | .wsHdr _ => "h"
  | .resp code cseq extra => s!"R{code}:{Hex.ofBytes cseq}:{Hex.ofBytes extra}"
  | .frame ch b => s!"F{ch}:{Hex.ofBytes b}"

def handleC13 : Handler := fun comp a impl =>
  if comp.startsWith "fz." then
    -- differential fuzzing only: no model, the oracle alone decides
    some { model := impl, verdict := noPanic impl }
  else
  match comp, a with
  | "rtpin.pkt", [b] =>
    let m := match parseRtpPacket (hex! b) with
      | .error _ => "err"
      | .ok p => s!"ok {outcome Hex.ofBytes p.body} {outcome showB (RtspIn.isAvcBoundary p)} {outcome showB (RtspIn.isHevcBoundary p)}"
    some { model := m, verdict := noPanic impl }
  | "rtcp.sr", [b] =>
    let bb := hex! b
    let h := outcome (fun (h : Rtcp.RtcpHeader) => s!"{h.version} {h.padding} {h.count} {h.pt} {h.length}") (Rtcp.parseRtcpHeader bb)
    let s := outcome (fun (s : Rtcp.Sr) => s!"{s.ssrc} {s.msw} {s.lsw} {s.ts} {s.pktCnt} {s.octCnt} {s.middleNtp}") (Rtcp.parseSr bb)
    -- ParseRtcpHeader / ParseSr have the documented precondition len >= 4 / 28; the claim is made for handleRtcpPacket
    some { model := h ++ " ; " ++ s, verdict := if bb.length < Gen.rtcpSrMinLength then "na" else noPanic impl }
  | "rtpin.unpack", [k, rate, max, pkts] =>
    match kindOf k with
    | none => none
    | some kd =>
      let ps := (parseList pkts).filterMap fun b => match parseRtpPacket b with | .ok p => some p | .error _ => none
      let m := match feedAll (protoOf kd (int! rate)) { maxSize := nat! max } ps with
        | .ok (_, o) => showUnits o
        | .error .err => "err"
        | .error (.panic _) => "panic"
      some { model := m, verdict := noPanic impl }
  | "rtpin.sess", [_flag, sdp, auri, ach, vuri, vch, items] =>
    let m := match Sdp.parseLogic Codec.real (hex! sdp) with
      | none => "sdp-err"
      | some ctx =>
        let s := RtspIn.initWithSdp ctx
        let (s, r1) := sessSetup s auri ach
        let (s, r2) := sessSetup s vuri vch
        match RtspIn.run s (sessItems items) with
        | .ok (_, evs) => s!"{r1} {r2} ; {showEvs evs}"
        | .error .err => "err"
        | .error (.panic _) => "panic"
    some { model := m, verdict := noPanic impl }
  | "ws.read", [b] =>
    some { model := outcome (fun (p : Bytes × Bytes) => Hex.ofBytes p.1) (WsRead.readWsPayload (hex! b)), verdict := noPanic impl }
  | "ps.feed", [pkts] =>
    let m := match Ps.feedAll (Ps.init Gen.maxUnpackRtpListSize) (parseList pkts) with
      | .ok (_, o) => showOuts o
      | .error .err => "err"
      | .error (.panic _) => "panic"
    some { model := m, verdict := noPanic impl }
  | "ps.body", [items] =>
    let m := match Ps.bodyAll {} (bodyItems items) with
      | .ok (es, o) => String.join (es.map fun e => if e then "e" else "n") ++ " " ++ showOuts o
      | .error .err => "err"
      | .error (.panic _) => "panic"
    some { model := m, verdict := noPanic impl }
  | "url.parse", [kind, _raw, ok, scheme, host, path, rq, sp, h, p] =>
    let u : UrlCtx.Std := { ok := ok == "1", scheme := hex! scheme, host := hex! host, path := hex! path, rawQuery := hex! rq,
                            split := if sp == "1" then some (hex! h, hex! p) else none }
    let r := match kind with
      | "rtmp" => UrlCtx.parseRtmpUrl u
      | "rtsp" => UrlCtx.parseRtspUrl u
      | "flv" => UrlCtx.parseHttpflvUrl u
      | k => UrlCtx.parseUrl u (int! k)
    some { model := outcome showCtx r, verdict := noPanic impl }
  | "rtsp.msg", [_kind, _v, ato, avail] =>
    let cl : RtspSrv.ContentLength := if ato == "-" then .absent else if ato == "e" then .bad else .val (int! ato)
    let m := match RtspSrv.readMsgBody cl (optHex avail) with
      | .ok (some (b, r)) => s!"ok {hx b} {hx r}"
      | .ok none => "eof"
      | .error .err => "err"
      | .error (.panic _) => "panic"
    some { model := m, verdict := noPanic impl }
  | "rtsp.session", ws :: auth :: d :: toks =>
    let dd : RtspSrv.Describe := if d == "no" then .refuse else if d == "nil" then .later else .sdp (hex! d)
    let m := match RtspSrv.runSession Codec.real (ws == "1") (nat! auth) dd (toks.map parseTok) with
      | .ok (items, evs, c) =>
        let its := if items.isEmpty then "none" else String.intercalate "," (items.map showItem)
        let e := match c with | none => "eof" | some k => s!"closed@{k}"
        s!"{its} ; {showEvs evs} ; {e}"
      | .error .err => "err"
      | .error (.panic _) => "panic"
    some { model := m, verdict := noPanic impl }
  | _, _ => none

end Drv.C13
