import LalModel.Model.Bytes
import LalModel.Model.Hex
/- Shared helpers of the line-protocol driver. -/
open Lal

namespace Drv

def nat! (s : String) : Nat := s.toNat?.getD 0
def hex! (s : String) : Bytes := (Hex.toBytes s).getD []
def splitOnChar (s : String) (c : Char) : List String := s.splitOn (String.singleton c)

/-- The driver's answer: the model's output and the property oracle's verdict on the
    implementation's output (`ok`, `na` = outside the property's guard, `bad:<why>`). -/
structure Ans where
  model : String
  verdict : String := "na"

/-- A component handler: `none` when the component is not its own. -/
abbrev Handler := String → List String → String → Option Ans

end Drv
