import Driver.Common
import LalModel.Model.Hls
import LalModel.Model.HlsText
import LalModel.Spec.HlsSpec
/- Driver handler for C10: `hls.run` — one whole muxer scenario per op (see harness/c10.go for the line format).
   Model output = the file-system operation log of the model, printed like the harness prints the real one.
   Verdict = `HlsSpec.checkNow` after EVERY operation of the IMPLEMENTATION's log plus the per-event checks
   (packets partitioned over the segments in order, ENDLIST after unpublish, record playlist lists every segment). -/
open Lal Drv

namespace Drv.C10
open Lal.Hls

def root := "h"
def stream := "s"

def bytesToString (b : Bytes) : String := String.ofList (b.map fun x => Char.ofNat x.toNat)
def stringToBytes (s : String) : Bytes := s.toList.map fun c => UInt8.ofNat c.toNat

def parseEv (s : String) : Option Ev :=
  match s.splitOn ":" with
  | ["S"] => some .start
  | ["P", h] => some (.patpmt (hex! h))
  | ["A", pts, b, h] => some (.pend { audio := true, pts := nat! pts, dts := nat! pts, key := false, boundary := b == "1", pkts := hex! h })
  | ["F", t, pts, dts, k, b, now, h] =>
    some (.feed { audio := t == "a", pts := nat! pts, dts := nat! dts, key := k == "1", boundary := b == "1", pkts := hex! h } (nat! now))
  | ["D"] => some .dispose
  | ["C"] => some .cleanup
  | _ => none

def found (d : Dir) (p : Path) : String := if (d p).isSome then "1" else "0"

def opText (d : Dir) : FOp → String
  | .mkdirAll p => "mkdir:" ++ Text.pathText root stream p
  | .create p => "create:" ++ Text.pathText root stream p
  | .write p c => "write:" ++ Text.pathText root stream p ++ ":" ++ Hex.ofBytes c.bytes
  | .close p => "close:" ++ Text.pathText root stream p
  | .writeFile p pl => "wf:" ++ Text.pathText root stream p ++ ":" ++ Hex.ofBytes (stringToBytes (Text.playlistText stream pl))
  | .rename a b => "mv:" ++ Text.pathText root stream a ++ ":" ++ Text.pathText root stream b
  | .remove p => "rm:" ++ Text.pathText root stream p ++ ":" ++ found d p
  | .readFile p => "rd:" ++ Text.pathText root stream p ++ ":" ++ found d p
  | .removeAll p => "rmall:" ++ Text.pathText root stream p

def groupText (d : Dir) (ops : List FOp) : String :=
  if ops.isEmpty then "-" else
  let (_, acc) := ops.foldl (fun (st : Dir × List String) op => (Fs.apply under st.1 op, opText st.1 op :: st.2)) (d, [])
  String.intercalate "," acc.reverse

def modelText (c : Cfg) (evs : List Ev) : String :=
  let (_, acc) := evs.foldl (fun (st : World × List String) e =>
    let (w', ops) := step c st.1 e
    (w', groupText st.1.dir ops :: st.2)) (({} : World), [])
  String.intercalate ";" acc.reverse

/-! ### the implementation's log -/

def parseOp (s : String) : Option HlsSpec.SOp :=
  match s.splitOn ":" with
  | ["mkdir", p] => some (.mkdirAll p)
  | ["create", p] => some (.create p)
  | ["write", p, h] => some (.write p (hex! h))
  | ["close", p] => some (.close p)
  | ["wf", p, h] => some (.writeFile p (bytesToString (hex! h)))
  | ["mv", a, b] => some (.rename a b)
  | ["rm", p, _] => some (.remove p)
  | ["rd", p, _] => some (.readFile p)
  | ["rmall", p] => some (.removeAll p)
  | _ => none

def parseGroup (s : String) : Option (List HlsSpec.SOp) :=
  if s == "-" then some [] else (s.splitOn ",").mapM parseOp

/-- spec-side bookkeeping across events -/
structure OState where
  hist      : HlsSpec.Hist := {}
  dir       : HlsSpec.SDir := Fs.empty
  live      : Bool := false                 -- between publish and unpublish
  openedYet : Bool := false                 -- a segment has been opened in this session
  patpmt    : Bytes := []
  pending   : Option Bytes := none
  /-- every segment ever created, newest first, chunks newest first -/
  segs      : List (String × List Bytes) := []
  /-- the packets that must be in the segments, newest first -/
  expected  : List Bytes := []
  /-- segments closed since the directory was last wiped, newest first -/
  closed    : List String := []

def isCreate : HlsSpec.SOp → Bool
  | .create _ => true
  | _ => false

/-- track segment files through one op; `some why` when the first write of a segment is not the PAT/PMT -/
def trackOp (o : OState) : HlsSpec.SOp → Option String × OState
  | .create p => (none, { o with segs := (p, []) :: o.segs })
  | .write p b =>
    match o.segs with
    | (q, cs) :: rest =>
      if p = q then
        if cs.isEmpty ∧ b ≠ o.patpmt then (some "segment-does-not-begin-with-current-pat-pmt", o)
        else (none, { o with segs := (q, b :: cs) :: rest })
      else (some "write-to-a-segment-that-is-not-the-newest", o)
    | [] => (some "write-without-create", o)
  | .close p => (none, { o with closed := p :: o.closed })
  | .removeAll _ => (none, { o with closed := [] })
  | _ => (none, o)

def runGroup (P : HlsSpec.Params) : OState → List HlsSpec.SOp → Option String × OState
  | o, [] => (none, o)
  | o, op :: ops =>
    match trackOp o op with
    | (some why, o') => (some why, o')
    | (none, o1) =>
      let d' := Fs.apply HlsSpec.sUnder o1.dir op
      match HlsSpec.checkNow P o1.hist d' with
      | (some why, h') => (some why, { o1 with hist := h', dir := d' })
      | (none, h') => runGroup P { o1 with hist := h', dir := d' } ops

def writtenPackets (o : OState) : Bytes :=
  (o.segs.reverse.map fun s => (s.2.reverse.drop 1).flatten).flatten

def baseName (dirPath p : String) : String := String.ofList (p.toList.drop (dirPath.length + 1))

/-- checks at the end of one event -/
def eventEnd (P : HlsSpec.Params) (o : OState) (e : Ev) : Option String :=
  if writtenPackets o ≠ o.expected.reverse.flatten then some "segments-do-not-partition-the-packets"
  else
    let endBad : Bool := match e with
      | .dispose =>
        match o.dir (HlsSpec.livePath P) with
        | some { content := .doc t, .. } => match HlsSpec.parsePlaylist t.toList with
          | some pl => !pl.ended
          | none => true
        | _ => false
      | _ => false
    if endBad then some "no-endlist-after-unpublish"
    else if P.recordKeeps ∧ !o.closed.isEmpty then
      match o.dir (HlsSpec.recordPath P) with
      | some { content := .doc t, .. } => match HlsSpec.parsePlaylist t.toList with
        | some pl =>
          if pl.entries.map (·.uri) = o.closed.reverse.map (baseName P.dirPath) then none
          else some "record-playlist-does-not-list-every-segment"
        | none => some "record-malformed"
      | _ => some "record-playlist-missing"
    else none

def oracle (P : HlsSpec.Params) : Nat → OState → List Ev → List (List HlsSpec.SOp) → String
  | _, _, [], [] => "ok"
  | i, o, e :: es, g :: gs =>
    -- what the event adds to the packets that must end up in the segments
    let hasCreate := g.any isCreate
    let o1 : OState := match e with
      | .start => if o.live then o else { o with live := true, openedYet := false, pending := none, patpmt := [] }
      | .patpmt b => if o.live then { o with patpmt := b } else o
      | .pend f => { o with pending := some f.pkts }
      | .feed f _ =>
        if !o.live then o else
        let (exp1, pend1) := match hasCreate, o.pending with
          | true, some a => (a :: o.expected, none)
          | _, p => (o.expected, p)
        let opened := o.openedYet || hasCreate
        { o with expected := if opened then f.pkts :: exp1 else exp1, pending := pend1, openedYet := opened }
      | .dispose => { o with live := false }
      | .cleanup => o
    match runGroup P o1 g with
    | (some why, _) => s!"bad:{why}@{i}"
    | (none, o2) =>
      match eventEnd P o2 e with
      | some why => s!"bad:{why}@{i}"
      | none => oracle P (i + 1) o2 es gs
  | _, _, _, _ => "bad:event-count"

def keyGuarantee (evs : List Ev) : Bool :=
  let hasVideo := evs.any fun e => match e with
    | .feed f _ => !f.audio
    | _ => false
  evs.all fun e => match e with
    | .feed f _ => if f.audio then !(f.boundary && hasVideo) else (!f.boundary || f.key)
    | .pend f => !(f.boundary && hasVideo)
    | _ => true

/-- every publish delivers PAT/PMT exactly once, before its first frame (what `rtmp2MpegtsFilter.drain` does) -/
def patGuarantee : Bool → Bool → Bool → List Ev → Bool
  | _, _, _, [] => true
  | live, hasP, hasF, e :: es =>
    match e with
    | .start => if live then patGuarantee live hasP hasF es else patGuarantee true false false es
    | .dispose => patGuarantee false false false es
    | .patpmt _ => if !live then patGuarantee live hasP hasF es else if hasP || hasF then false else patGuarantee live true hasF es
    | .feed _ _ => if !live then patGuarantee live hasP hasF es else if !hasP then false else patGuarantee live hasP true es
    | _ => patGuarantee live hasP hasF es

def handleC10 : Handler := fun comp a impl =>
  match comp, a with
  | "hls.ends", [en, https] =>
    -- `ended_on_dispose`: whenever a muxer was started for the input (HLS enabled over http or https), it is disposed with
    -- the input and the live playlist carries the end marker
    let on := en == "1" || https == "1"
    let model := if on then "started=1 alive=0 endlist=1" else "started=0 alive=0 endlist=-"
    some { model := model, verdict := if impl == model then "ok" else "bad:hls-output-not-finalised-when-the-input-ended" }
  | "hls.republish", [_mode] =>
    -- `cleanup_spares_live`: the cleanup task performs no operation while a muxer for the name exists
    some { model := "kept", verdict := if impl == "kept" then "ok" else "bad:cleanup-removed-the-directory-of-a-live-publish" }
  | "hls.run", [fd, fn, dt, cm, evs] =>
    match (evs.splitOn ";").mapM parseEv with
    | none => some { model := "bad-op" }
    | some es =>
      let c : Cfg := { fragDurMs := nat! fd, fragNum := nat! fn, delThr := nat! dt, cleanup := nat! cm }
      let P : HlsSpec.Params := { dirPath := root ++ "/" ++ stream, delThr := c.delThr,
                                  recordKeeps := c.cleanup = Gen.c10CleanupNever ∨ c.cleanup = Gen.c10CleanupInTheEnd,
                                  keyGuarantee := keyGuarantee es, patGuarantee := patGuarantee false false false es }
      let verdict :=
        if impl == "panic" then "bad:panic"
        else match (impl.splitOn ";").mapM parseGroup with
          | none => "bad:output-shape"
          | some gs => oracle P 0 {} es gs
      some { model := modelText c es, verdict := verdict }
  | _, _ => none

end Drv.C10
