import Driver.Common
import Driver.Codec
import LalModel.Model.AvPacket
import LalModel.Model.Sps
import LalModel.Model.SeqHeader
import LalModel.Spec.AnnexB
import LalModel.Spec.ConfigRecord
import LalModel.Spec.AudioSpec
import LalModel.Spec.RtpSpec
import LalModel.Spec.SdpSpec
import LalModel.Spec.PsSpec
/-
  The property oracles of C07: specification-side readers applied to the IMPLEMENTATION's output.
  Nothing here uses the models of lal's remuxer / queue / unpackers: the sent elementary stream is recovered from
  the op's arguments with the RFC / ISO readers of LalModel/Spec, the received one from the RTMP messages with the
  FLV / ISO 14496-15 readers, and the two are compared as the property states:
    same NAL units and audio frames, byte for byte, in order, exactly once (AUD dropped, parameter sets only in
    sequence headers, which must carry the publisher's current sets), key frames marked, timestamps = source
    timestamps in ms up to one constant per track, error < 1 ms.
  `ok` / `na` (outside the property's guard) / `bad:<why>`.
-/
open Lal Drv Lal.Av

namespace Drv.C07.Oracle

/-! ### received side -/

structure RMsg where
  typ : Nat
  csid : Nat
  msid : Nat
  ts : Nat
  payload : Bytes

def parseMsgs (s : String) : Option (List RMsg) :=
  if s == "none" then some [] else
  (splitOnChar s ',').mapM fun x =>
    match splitOnChar x '.' with
    | [t, c, m, ts, p] => some { typ := nat! t, csid := nat! c, msid := nat! m, ts := nat! ts, payload := hex! p }
    | _ => none

/-- parameter sets: (vps, sps, pps); `vps = []` for H.264 -/
abbrev Sets := Bytes × Bytes × Bytes

inductive VEv where
  | seq (ts : Nat) (sets : Sets)
  | data (ts : Nat) (key : Bool) (nals : List Bytes)

inductive AEv where
  | asc (ts : Nat) (b : Bytes)
  | frame (ts : Nat) (hdr : Nat) (data : Bytes)

/-- FLV VIDEODATA of codec 7 / 12 -/
def decodeVideo (hevc : Bool) (m : RMsg) : Except String VEv :=
  match ConfigRecord.videoTagHeader m.payload with
  | none => .error "bad:video-tag-too-short"
  | some (h, rest) =>
    if h.codecId ≠ (if hevc then 12 else 7) then .error "bad:video-codec-id"
    else if h.compositionTime ≠ 0 then .error "bad:composition-time"
    else if h.packetType = 0 then
      if h.frameType ≠ 1 then .error "bad:seq-header-not-key" else
      if hevc then
        match ConfigRecord.hevcSeqHeader m.payload with
        | some r =>
          match r.ofType 32, r.ofType 33, r.ofType 34 with
          | [v], [s], [p] => .ok (.seq m.ts (v, s, p))
          | _, _, _ => .error "bad:hvcC-not-one-of-each"
        | none => .error "bad:hvcC-unreadable"
      else
        match ConfigRecord.avcSeqHeader m.payload with
        | some ([s], [p]) => .ok (.seq m.ts ([], s, p))
        | some _ => .error "bad:avcC-not-one-of-each"
        | none => .error "bad:avcC-unreadable"
    else if h.packetType = 1 then
      if h.frameType ≠ 1 ∧ h.frameType ≠ 2 then .error "bad:frame-type" else
      match ConfigRecord.readLengthPrefixed rest with
      | some nals => if nals.isEmpty ∨ nals.any (·.isEmpty) then .error "bad:empty-nal-in-message" else .ok (.data m.ts (h.frameType = 1) nals)
      | none => .error "bad:length-prefixed-sample-unreadable"
    else .error "bad:video-packet-type"

/-- FLV AUDIODATA -/
def decodeAudio (m : RMsg) : Except String AEv :=
  match m.payload with
  | [] => .error "bad:empty-audio-message"
  | h :: rest =>
    if h.toNat / 16 = 10 then
      match rest with
      | 0 :: asc => .ok (.asc m.ts asc)
      | 1 :: d => .ok (.frame m.ts h.toNat d)
      | _ => .error "bad:aac-packet-type"
    else .ok (.frame m.ts h.toNat rest)

/-! ### sent side -/

structure VUnit where
  ts : Nat               -- source clock
  nals : List Bytes

structure AUnit where
  ts : Nat
  frame : Bytes

inductive TsRule where
  | exact                 -- out = src mod 2^32 (source already in ms)
  | rel (rate : Nat)      -- (out - out0) = (src - src0)·1000/rate within 1 ms, one constant per track
  | abs (rate : Nat)      -- out = src·1000/rate within 1 ms

def nalType (hevc : Bool) (n : Bytes) : Nat :=
  let h := (n.headD 0).toNat
  if hevc then h / 2 % 64 else h % 32

def isAud (hevc : Bool) (n : Bytes) : Bool := nalType hevc n == (if hevc then 35 else 9)
def isParamSet (hevc : Bool) (n : Bytes) : Bool :=
  let t := nalType hevc n
  if hevc then t == 32 || t == 33 || t == 34 else t == 7 || t == 8
def isKeyNal (hevc : Bool) (n : Bytes) : Bool :=
  let t := nalType hevc n
  if hevc then 16 ≤ t && t ≤ 23 else t == 5

def updSets (hevc : Bool) (s : Sets) (n : Bytes) : Sets :=
  let t := nalType hevc n
  if hevc then (if t == 32 then (n, s.2.1, s.2.2) else if t == 33 then (s.1, n, s.2.2) else if t == 34 then (s.1, s.2.1, n) else s)
  else (if t == 7 then (s.1, n, s.2.2) else if t == 8 then (s.1, s.2.1, n) else s)

def complete (hevc : Bool) (s : Sets) : Bool := (!hevc || !s.1.isEmpty) && !s.2.1.isEmpty && !s.2.2.isEmpty

def tsOk (rule : TsRule) (base : Option (Nat × Nat)) (src out : Nat) : Bool :=
  match rule with
  | .exact => out == src % 4294967296
  | .abs rate =>
    let d : Int := (out : Int) * rate - (src : Int) * 1000
    decide (-(rate : Int) < d ∧ d < rate)
  | .rel rate =>
    match base with
    | none => true
    | some (s0, o0) =>
      let d : Int := ((out : Int) - o0) * rate - ((src : Int) - s0) * 1000
      decide (-(rate : Int) < d ∧ d < rate)

/-- flattened source: (unit index, unit ts, nal) -/
def flatten (us : List VUnit) : List (Nat × Nat × Bytes) :=
  ((List.range us.length).zip us).flatMap fun (i, u) => u.nals.map fun n => (i, u.ts, n)

/-- skip AUD and parameter sets at the head of the source, folding the latter into the publisher's sets -/
def skipNonData (hevc : Bool) : Sets → List (Nat × Nat × Bytes) → Sets × List (Nat × Nat × Bytes)
  | pub, [] => (pub, [])
  | pub, (i, t, n) :: rest =>
    if isAud hevc n then skipNonData hevc pub rest
    else if isParamSet hevc n then skipNonData hevc (updSets hevc pub n) rest
    else (pub, (i, t, n) :: rest)

/-- the NAL units of one received message against the head of the source -/
def matchNals (hevc : Bool) : Sets → List (Nat × Nat × Bytes) → List Bytes → Option Nat →
    Except String (Sets × List (Nat × Nat × Bytes) × Option (Nat × Nat))
  | pub, src, [], _ => .ok (pub, src, none)
  | pub, src, n :: ns, unit =>
    let (pub', src') := skipNonData hevc pub src
    match src' with
    | [] => .error "bad:nal-not-sent"
    | (i, t, sn) :: rest =>
      if sn ≠ n then (if isParamSet hevc n then .error "bad:parameter-set-in-frame-message" else if isAud hevc n then .error "bad:aud-forwarded" else .error "bad:nal-differs-or-out-of-order")
      else if unit.isSome ∧ unit ≠ some i then .error "bad:message-mixes-units"
      else
        match matchNals hevc pub' rest ns (some i) with
        | .error e => .error e
        | .ok (p, r, _) => .ok (p, r, some (i, t))

structure VState where
  pub : Sets
  con : Option Sets
  src : List (Nat × Nat × Bytes)
  base : Option (Nat × Nat) := none
  lastOut : Nat := 0
  count : Nat := 0

def videoStep (hevc : Bool) (rule : TsRule) (allSets : List Bytes) (st : VState) : VEv → Except String VState
  | .seq _ sets =>
    let members := (if hevc then [sets.1, sets.2.1, sets.2.2] else [sets.2.1, sets.2.2])
    if members.all (allSets.contains ·) then .ok { st with con := some sets }
    else .error "bad:seq-header-not-from-publisher-sets"
  | .data ts key nals =>
    match matchNals hevc st.pub st.src nals none with
    | .error e => .error e
    | .ok (pub, src, some (_, srcTs)) =>
      if key ≠ nals.any (isKeyNal hevc) then
        .error (if key then "bad:inter-frame-marked-key" else "bad:key-frame-not-marked")
      else if complete hevc pub ∧ st.con ≠ some pub then
        .error (if st.con.isNone then "bad:no-seq-header-before-frame" else "bad:seq-header-stale")
      else if !tsOk rule st.base srcTs ts then .error "bad:timestamp"
      else .ok { st with pub := pub, src := src, base := st.base.orElse fun _ => some (srcTs, ts), lastOut := ts, count := st.count + 1 }
    | .ok _ => .error "bad:empty-message"

def runVideo (hevc : Bool) (rule : TsRule) (allSets : List Bytes) : VState → List VEv → Except String VState
  | st, [] => .ok st
  | st, e :: es =>
    match videoStep hevc rule allSets st e with
    | .error x => .error x
    | .ok st' => runVideo hevc rule allSets st' es

/-- source data NAL units not yet received: (unit ts) of each -/
def remainingData (hevc : Bool) (src : List (Nat × Nat × Bytes)) : List Nat :=
  (src.filter fun (_, _, n) => !isAud hevc n && !isParamSet hevc n).map (·.2.1)

structure AState where
  src : List AUnit
  asc : Option Bytes := none
  base : Option (Nat × Nat) := none
  lastOut : Nat := 0

/-- `hdr`: the FLV sound byte expected; for AAC the ASC the consumer must have been given -/
def audioStep (hdr : Nat) (wantAsc : Option Bytes) (rule : TsRule) (st : AState) : AEv → Except String AState
  | .asc _ b =>
    if wantAsc.isSome ∧ wantAsc ≠ some b then .error "bad:aac-seq-header-not-the-publisher-asc" else .ok { st with asc := some b }
  | .frame ts h d =>
    match st.src with
    | [] => .error "bad:audio-frame-not-sent"
    | u :: rest =>
      if h ≠ hdr then .error "bad:audio-tag-header"
      else if u.frame ≠ d then .error "bad:audio-frame-differs-or-out-of-order"
      else if wantAsc.isSome ∧ st.asc.isNone then .error "bad:aac-frame-before-seq-header"
      else if !tsOk rule st.base u.ts ts then .error "bad:timestamp"
      else .ok { st with src := rest, base := st.base.orElse fun _ => some (u.ts, ts), lastOut := ts }

def runAudio (hdr : Nat) (wantAsc : Option Bytes) (rule : TsRule) : AState → List AEv → Except String AState
  | st, [] => .ok st
  | st, e :: es =>
    match audioStep hdr wantAsc rule st e with
    | .error x => .error x
    | .ok st' => runAudio hdr wantAsc rule st' es

/-- RTMP header constants of every message, metadata first (iff anything was emitted) -/
def checkEnvelope (ms : List RMsg) : Option String :=
  match ms with
  | [] => none
  | m0 :: rest =>
    if m0.typ ≠ 18 ∨ m0.csid ≠ 5 ∨ m0.msid ≠ 1 ∨ m0.ts ≠ 0 then some "bad:first-message-not-metadata"
    else if rest.any (fun m => m.typ = 18) then some "bad:second-metadata"
    else if rest.any (fun m => !((m.typ = 8 ∧ m.csid = 6) ∨ (m.typ = 9 ∧ m.csid = 7)) || m.msid ≠ 1) then some "bad:message-header"
    else none

def decodeAll (hevc : Bool) (ms : List RMsg) : Except String (List VEv × List AEv) :=
  let vs := (ms.filter (·.typ = 9)).mapM (decodeVideo hevc)
  let as := (ms.filter (·.typ = 8)).mapM decodeAudio
  match vs, as with
  | .ok v, .ok a => .ok (v, a)
  | .error e, _ => .error e
  | _, .error e => .error e

/-- the FLV sound byte lal is expected to write per payload type -/
def soundByte (pt : Int) : Nat := if pt = ptAac then 0xaf else if pt = ptG711A then 0x72 else if pt = ptG711U then 0x82 else 0xdf

def spsOk (hevc : Bool) (s : Sets) : Bool :=
  if hevc then (SeqHeader.hevcBuild s.1 s.2.1 s.2.2).toOption.isSome else (Sps.parseSps s.2.1).toOption.isSome

def tag (t e : String) : String := if e.startsWith "bad:" then "bad:" ++ t ++ "-" ++ (e.drop 4).toString else e

/-! ### av2rtmp.feed -/

def av2rtmp (cust : Bool) (vf af : Nat) (asc vps sps pps : Option Bytes) (ps : List AvPacket) (impl : String) : String :=
  let vps := if cust then none else vps
  let sps := if cust then none else sps
  let pps := if cust then none else pps
  -- guard
  let vpk := ps.filter (·.isVideo)
  let apk := ps.filter (fun p => !p.isVideo)
  if vf ≠ 1 ∧ vf ≠ 2 then "na:g1" else
  if ps.any (fun p => !(p.isVideo || p.isAudio)) then "na:g2" else
  if vpk.any (·.pt = ptAvc) ∧ vpk.any (·.pt = ptHevc) then "na:g3" else
  let hevc := vpk.any (·.pt = ptHevc) || (vpk.isEmpty && vps.isSome)
  let apts := (apk.map (·.pt)).eraseDups
  if apts.length > 1 then "na:g4" else
  let apt : Int := apts.headD ptAac
  if apt = ptAac ∧ !apk.isEmpty ∧ af ≠ 1 ∧ af ≠ 2 then "na:g5" else
  if apt = ptAac ∧ !apk.isEmpty ∧ af = 1 ∧ asc.isNone then "na:g6" else      -- raw AAC without any AudioSpecificConfig from the publisher
  -- InitWithAvConfig arguments: all-or-nothing per codec, usable ASC
  if sps.isSome ≠ pps.isSome then "na:g7" else
  if vps.isSome ∧ sps.isNone then "na:g8" else
  if (match asc with | some a => decide (a.length < 2) | none => false) then "na:g9" else
  if vps.isSome ∧ vpk.any (·.pt = ptAvc) then "na:g10" else
  if sps.isSome ∧ vps.isNone ∧ vpk.any (·.pt = ptHevc) then "na:g11" else
  -- sent elementary streams
  let vunits : Option (List VUnit) := vpk.mapM fun p =>
    (if vf = 1 then ConfigRecord.readLengthPrefixed p.payload else AnnexB.read p.payload).bind fun nals =>
      if nals.isEmpty ∨ nals.any (·.isEmpty) then none else some { ts := (p.ts % 4294967296).toNat, nals := nals }
  let aunits : Option (List AUnit) := apk.mapM fun p =>
    if p.pt = ptAac ∧ af = 2 then
      match AudioSpec.readAdts p.payload with
      | some h => if h.frameLength = p.payload.length ∧ h.protectionAbsent = 1 ∧ p.payload.length ≥ 12 then some { ts := (p.ts % 4294967296).toNat, frame := p.payload.drop 7 } else none
      | none => none
    else some { ts := (p.ts % 4294967296).toNat, frame := p.payload }
  match vunits, aunits with
  | some vu, some au =>
    let initSets : Sets := ((vps.getD []), (sps.getD []), (pps.getD []))
    let srcSets := (flatten vu).filterMap fun (_, _, n) => if isParamSet hevc n then some n else none
    let allSets := [initSets.1, initSets.2.1, initSets.2.2] ++ srcSets
    -- every SPS involved must be one lal's SPS reader accepts (C19 covers that reader)
    let spsList := allSets.filter fun n => !n.isEmpty && nalType hevc n == (if hevc then 33 else 7)
    if !hevc ∧ spsList.any (fun s => (Sps.parseSps s).toOption.isNone) then "na:g12" else
    if hevc && complete hevc initSets && !spsOk hevc initSets then "na:g13" else
    if hevc && !srcSets.isEmpty && (let s := srcSets.foldl (updSets hevc) initSets; complete hevc s && !spsOk hevc s) then "na:g14" else
    -- ADTS: the ASC the first header implies
    let wantAsc : Option Bytes :=
      if apt ≠ ptAac then none
      else if af = 1 then asc
      else match apk with
        | p :: _ => (AudioSpec.readAdts p.payload).map fun h =>
            [b8 ((h.profileObjectType + 1) * 8 + h.samplingFrequencyIndex / 2), b8 (h.samplingFrequencyIndex % 2 * 128 + h.channelConfiguration * 8)]
        | [] => asc
    if impl == "panic" || impl == "err" then "bad:remuxer-failed" else
    match parseMsgs impl with
    | none => "bad:unparsable-output"
    | some ms =>
      match checkEnvelope ms with
      | some e => e
      | none =>
        match decodeAll hevc ms with
        | .error e => e
        | .ok (vev, aev) =>
          -- init: the sequence headers of InitWithAvConfig come first with timestamp 0 — checked through con == pub below
          let v0 : VState := { pub := initSets, con := none, src := flatten vu }
          match runVideo hevc .exact allSets v0 vev with
          | .error e => e
          | .ok vs =>
            if !(remainingData hevc vs.src).isEmpty then "bad:nal-not-forwarded" else
            if complete hevc initSets ∧ vev.isEmpty then "bad:no-seq-header-for-init-sets" else
            match runAudio (soundByte apt) (if apt = ptAac then (wantAsc.orElse fun _ => some []) else none) .exact { src := au } aev with
            | .error e => e
            | .ok as =>
              if !as.src.isEmpty then "bad:audio-frame-not-forwarded"
              else if asc.isSome ∧ apk.isEmpty ∧ aev.isEmpty then "bad:no-aac-seq-header-for-init-asc"
              else "ok"
  | _, _ => "na:g15"

/-! ### avq.feed -/

def avq (rot : Bool) (ps : List AvPacket) (impl : String) : String :=
  if impl == "panic" then "bad:queue-failed" else
  let outs : List (Int × Int × Nat) :=
    if impl == "none" then [] else (splitOnChar impl ',').map fun x =>
      match splitOnChar x ':' with
      | [pt, ts, i] => (pt.toInt?.getD 0, ts.toInt?.getD 0, nat! i)
      | _ => (0, 0, 0)
  let idx := (List.range ps.length).zip ps
  let vin := idx.filter (·.2.isVideo)
  let ain := idx.filter (fun x => !x.2.isVideo)
  let vout := outs.filter fun (pt, _, _) => pt = ptAvc ∨ pt = ptHevc
  let aout := outs.filter fun (pt, _, _) => !(pt = ptAvc ∨ pt = ptHevc)
  -- per track: order preserved, nothing dropped in the middle, nothing duplicated, payload type kept
  let prefixOk (inp : List (Nat × AvPacket)) (out : List (Int × Int × Nat)) : Bool :=
    out.length ≤ inp.length && (out.zip inp).all fun ((pt, _, i), (j, p)) => i == j && pt == p.pt
  if !prefixOk vin vout ∨ !prefixOk ain aout then "bad:per-track-order-or-loss" else
  if vout.length < vin.length ∧ aout.length < ain.length then "bad:both-tracks-held-back" else
  if !rot then "ok" else
  -- re-base: with non-decreasing source timestamps per track the output is ts - first ts
  let mono (inp : List (Nat × AvPacket)) : Bool := (inp.zip (inp.drop 1)).all fun (a, b) => a.2.ts ≤ b.2.ts
  let rebased (inp : List (Nat × AvPacket)) (out : List (Int × Int × Nat)) : Bool :=
    match inp with
    | [] => true
    | (_, p0) :: _ => (out.zip inp).all fun ((_, ts, _), (_, p)) => ts == p.ts - p0.ts
  if !(mono vin ∧ mono ain) then "na:g16" else
  if !rebased vin vout ∨ !rebased ain aout then "bad:not-rebased-to-zero" else
  -- merged output non-decreasing as long as no queue can have filled up
  if ps.length < 128 ∧ !((outs.zip (outs.drop 1)).all fun (a, b) => a.2.1 ≤ b.2.1) then "bad:merged-output-not-monotone" else
  "ok"

/-! ### rtsp.ingest -/

structure Track where
  pt : Nat
  rate : Nat
  codec : String       -- "avc" "hevc" "aac" "pcma" "pcmu" "opus"
  sets : Sets := ([], [], [])
  asc : Option Bytes := none

def lower (b : Bytes) : Bytes := b.map fun x => if 65 ≤ x.toNat ∧ x.toNat ≤ 90 then x + 32 else x

def hexDec (v : Bytes) : Bytes × Bool := Drv.Codec.real.hexdec v

def trackOf (s : SdpSpec.Stream) : Option Track :=
  let enc := lower s.encoding
  let dec := Drv.Codec.real.b64dec
  if enc == SdpSpec.str "h264" then
    let sets : Sets := match s.h264Sets dec with
      | some [sp, pp] => ([], sp, pp)
      | _ => ([], [], [])
    some { pt := s.pt, rate := s.clockRate, codec := "avc", sets := sets }
  else if enc == SdpSpec.str "h265" then
    let sets : Sets := match s.h265Sets dec with
      | some ([v], [sp], [pp]) => (v, sp, pp)
      | _ => ([], [], [])
    some { pt := s.pt, rate := s.clockRate, codec := "hevc", sets := sets }
  else if enc == SdpSpec.str "mpeg4-generic" then
    some { pt := s.pt, rate := s.clockRate, codec := "aac", asc := s.aacConfig hexDec }
  else if enc == SdpSpec.str "pcma" then some { pt := s.pt, rate := s.clockRate, codec := "pcma" }
  else if enc == SdpSpec.str "pcmu" then some { pt := s.pt, rate := s.clockRate, codec := "pcmu" }
  else if enc == SdpSpec.str "opus" then some { pt := s.pt, rate := s.clockRate, codec := "opus" }
  else none

/-- per-packet depacketisation with the RFC reference steps: the units each packet completes -/
def videoUnits (hevc : Bool) : RtpSpec.Pending → List RtpSpec.Packet → Option (List VUnit)
  | pend, [] => if pend.isSome then none else some []
  | pend, p :: ps =>
    match (if hevc then RtpSpec.step7798 pend p.payload else RtpSpec.step6184 pend p.payload) with
    | none => none
    | some (pend', nals) =>
      (videoUnits hevc pend' ps).map fun r => if nals.isEmpty then r else { ts := p.ts, nals := nals } :: r

def aacUnits : Option (Nat × Bytes) → List RtpSpec.Packet → Option (List AUnit)
  | pend, [] => if pend.isSome then none else some []
  | pend, p :: ps =>
    match RtpSpec.step3640 pend p.payload with
    | none => none
    | some (pend', aus) =>
      (aacUnits pend' ps).map fun r =>
        ((List.range aus.length).zip aus).map (fun (i, a) => ({ ts := p.ts + i * 1024, frame := a } : AUnit)) ++ r

def consecutiveSeq (ps : List RtpSpec.Packet) : Bool :=
  match ps with
  | [] => true
  | p0 :: _ => ((List.range ps.length).zip ps).all fun (i, p) => p.seq == (p0.seq + i) % 65536

def monoTs (l : List Nat) : Bool := (l.zip (l.drop 1)).all fun (a, b) => a ≤ b

/-- one run (one arrival order) against the sent streams; `strictTail`: how many units may be held back -/
def checkRtspRun (vt at_ : Option Track) (vu : List VUnit) (au : List AUnit) (out : String) : String :=
  if out == "panic" || out == "err" then "bad:ingest-failed" else
  match parseMsgs out with
  | none => "bad:unparsable-output"
  | some ms =>
    match checkEnvelope ms with
    | some e => e
    | none =>
      let hevc := (vt.map (·.codec == "hevc")).getD false
      match decodeAll hevc ms with
      | .error e => e
      | .ok (vev, aev) =>
        let initSets : Sets := (vt.map (·.sets)).getD ([], [], [])
        let srcSets := (flatten vu).filterMap fun (_, _, n) => if isParamSet hevc n then some n else none
        let allSets := [initSets.1, initSets.2.1, initSets.2.2] ++ srcSets
        let vrate := (vt.map (·.rate)).getD 90000
        let arate := (at_.map (·.rate)).getD 8000
        let both := vt.isSome ∧ at_.isSome
        match runVideo hevc (.rel vrate) allSets { pub := initSets, con := none, src := flatten vu } vev with
        | .error e => tag "video" e
        | .ok vs =>
          let acodec := (at_.map (·.codec)).getD ""
          let apt : Int := if acodec == "aac" then ptAac else if acodec == "pcma" then ptG711A else if acodec == "pcmu" then ptG711U else ptOpus
          let wantAsc := if apt = ptAac then ((at_.bind (·.asc)).orElse fun _ => some []) else none
          match runAudio (soundByte apt) wantAsc (.rel arate) { src := au } aev with
          | .error e => tag "audio" e
          | .ok as =>
            let vrem := remainingData hevc vs.src
            let arem := as.src
            if !both then
              (if !vrem.isEmpty then "bad:nal-not-forwarded" else if !arem.isEmpty then "bad:audio-frame-not-forwarded" else "ok")
            else if !vrem.isEmpty ∧ !arem.isEmpty then "bad:both-tracks-held-back"
            else
              -- the queue may hold the tail of one track back until the other catches up: every held unit is not
              -- earlier (in re-based ms, 1 ms slack for the two roundings) than the last one delivered of the other track
              let relMs (base : Option (Nat × Nat)) (rate src : Nat) : Int :=
                match base with
                | some (s0, _) => ((src : Int) - s0) * 1000 / rate
                | none => 0
              if !vrem.isEmpty ∧ !(vrem.all fun t => relMs vs.base vrate t + 1 ≥ (if as.base.isSome then (as.lastOut : Int) - (as.base.map (·.2)).getD 0 else 0)) then "bad:video-held-back-behind-audio"
              else if !arem.isEmpty ∧ !(arem.all fun u => relMs as.base arate u.ts + 1 ≥ (if vs.base.isSome then (vs.lastOut : Int) - (vs.base.map (·.2)).getD 0 else 0)) then "bad:audio-held-back-behind-video"
              else "ok"

def rtsp (sdp : Bytes) (raws : List Bytes) (ord : Option (List Nat)) (impl : String) : String :=
  match SdpSpec.read sdp with
  | none => "na:g17"
  | some medias =>
    let streams := medias.filterMap (·.stream)
    if streams.length ≠ medias.length then "na:g18" else
    let tracks := streams.filterMap trackOf
    if tracks.length ≠ streams.length then "na:g19" else
    let vts := tracks.filter fun t => t.codec == "avc" || t.codec == "hevc"
    let ats := tracks.filter fun t => !(t.codec == "avc" || t.codec == "hevc")
    if vts.length > 1 ∨ ats.length > 1 then "na:g20" else
    let vt := vts.head?
    let at_ := ats.head?
    if (match vt, at_ with | some v, some a => v.pt == a.pt | _, _ => false) then "na:g21" else
    if tracks.any (fun t => t.rate = 0) then "na:g22" else
    if (match at_ with | some a => a.codec == "aac" && (match a.asc with | some c => decide (c.length < 2) | none => true) | none => false) then "na:g23" else
    match raws.mapM RtpSpec.parse with
    | none => "na:g24"
    | some pkts =>
      let vp := pkts.filter fun p => some p.pt == vt.map (·.pt)
      let ap := pkts.filter fun p => some p.pt == at_.map (·.pt)
      if vp.length + ap.length ≠ pkts.length then "na:g25" else
      if !consecutiveSeq vp ∨ !consecutiveSeq ap ∨ vp.length > 32768 ∨ ap.length > 32768 then "na:g26" else
      let hevc := (vt.map (·.codec == "hevc")).getD false
      let vu := videoUnits hevc none vp
      let au : Option (List AUnit) := match at_.map (·.codec) with
        | some "aac" => aacUnits none ap
        | some _ => some (ap.map fun p => { ts := p.ts, frame := p.payload })
        | none => some []
      match vu, au with
      | some vu, some au =>
        -- guard: timestamps per track non-decreasing and no 32-bit wrap inside the stream; frames non-empty
        if !monoTs (vu.map (·.ts)) ∨ !monoTs (au.map (·.ts)) then "na:g27" else
        if au.any (·.frame.isEmpty) then "na:g28" else
        let initSets : Sets := (vt.map (·.sets)).getD ([], [], [])
        let spsList := ([initSets.2.1] ++ (flatten vu).filterMap fun (_, _, n) => if nalType hevc n == (if hevc then 33 else 7) then some n else none).filter (!·.isEmpty)
        if !hevc ∧ spsList.any (fun s => (Sps.parseSps s).toOption.isNone) then "na:g29" else
        match ord with
        | none => checkRtspRun vt at_ vu au impl
        | some o =>
          -- guard of the reorder clause: every packet arrives, each track's first arrival is its first packet (S23)
          let n := raws.length
          if !(o.all (· < n)) ∨ !((List.range n).all (o.contains ·)) then "na:g30" else
          let firstOf (pt : Option Nat) : Option Nat := (List.range n).find? fun i => some ((pkts[i]?.map (·.pt)).getD 999) == pt
          let firstArr (pt : Option Nat) : Option Nat := o.find? fun i => some ((pkts[i]?.map (·.pt)).getD 999) == pt
          if firstArr (vt.map (·.pt)) ≠ firstOf (vt.map (·.pt)) ∨ firstArr (at_.map (·.pt)) ≠ firstOf (at_.map (·.pt)) then "na:g31" else
          match impl.splitOn " ; " with
          | [a, b] =>
            let ra := checkRtspRun vt at_ vu au a
            let rb := checkRtspRun vt at_ vu au b
            if rb != "ok" then rb
            else if ra.startsWith "bad:" then "bad:reordered-" ++ (ra.drop 4).toString
            else ra
          | _ => "bad:ingest-failed"
      | _, _ => "na:g32"

/-! ### ps.ingest -/

/-- in-window order of the packets: by distance from the first arrival's sequence number, duplicates removed -/
def sortBySeq (ps : List RtpSpec.Packet) : List RtpSpec.Packet :=
  match ps with
  | [] => []
  | p0 :: _ =>
    let key (p : RtpSpec.Packet) : Nat := (p.seq + 65536 - p0.seq) % 65536
    let ins (acc : List RtpSpec.Packet) (p : RtpSpec.Packet) : List RtpSpec.Packet :=
      if acc.any (fun q => q.seq == p.seq) then acc
      else (acc.takeWhile fun q => key q < key p) ++ p :: (acc.dropWhile fun q => key q < key p)
    ps.foldl ins []

def ps (mode items impl : String) : String :=
  if items == "none" then "na:g33" else
  let bodies : Option (List Bytes) :=
    if mode == "rtp" then
      ((splitOnChar items ',').map hex!).mapM RtpSpec.parse |>.map fun ps => (sortBySeq ps).map (·.payload)
    else some ((splitOnChar items ',').map fun x => match splitOnChar x ':' with | [_, b] => hex! b | _ => [])
  match bodies with
  | none => "na:g34"
  | some bs =>
    match PsSpec.read bs.flatten with
    | none => "na:g35"
    | some units =>
      -- guard: a PSM precedes the first PES, video is H.264/H.265 on stream e0, audio G.711/AAC on c0, PTS present
      let firstPes := units.findIdx? fun u => match u with | .pes _ => true | _ => false
      let firstPsm := units.findIdx? fun u => match u with | .psm _ => true | _ => false
      if (match firstPes, firstPsm with | some a, some b => decide (a < b) | some _, none => true | _, _ => false) then "na:g36" else
      if units.any (fun u => match u with | .pes p => p.streamId ≠ 0xe0 ∧ p.streamId ≠ 0xc0 ∧ p.streamId ≠ 0xbd | _ => false) then "na:g37" else
      let vtype := PsSpec.streamType 0xe0 units
      let atype := PsSpec.streamType 0xc0 units
      let hevc := vtype == some 0x24
      if (PsSpec.pesOf 0xe0 units).length > 0 ∧ vtype ≠ some 0x1b ∧ vtype ≠ some 0x24 then "na:g38" else
      if (PsSpec.pesOf 0xc0 units).length > 0 ∧ atype ≠ some 0x0f ∧ atype ≠ some 0x90 ∧ atype ≠ some 0x91 then "na:g39" else
      -- DTS, when present, equals PTS (no B-frames: lal stamps the PTS and writes no composition time)
      if units.any (fun u => match u with | .pes p => p.dts.isSome ∧ p.dts ≠ p.pts | _ => false) then "na:g40" else
      match PsSpec.accessUnits 0xe0 units, PsSpec.accessUnits 0xc0 units with
      | some vaus, some aaus =>
        if impl == "panic" then "bad:unpacker-panics" else
        match impl.splitOn " ; " with
        | [_, msgs] =>
          -- video: all access units but the last (delivered when the next one starts), from the first parameter set on
          let vsrc0 : Option (List VUnit) := vaus.dropLast.mapM fun a => (AnnexB.read a.data).map fun nals => { ts := a.pts, nals := nals }
          match vsrc0 with
          | none => "na:g41"
          | some vsrc0 =>
            let flat0 := flatten vsrc0
            let flat := flat0.dropWhile fun (_, _, n) => !isParamSet hevc n
            if flat.any (fun (_, _, n) => n.isEmpty) then "na:g42" else
            let spsList := flat.filterMap fun (_, _, n) => if nalType hevc n == (if hevc then 33 else 7) then some n else none
            if !hevc ∧ spsList.any (fun s => (Sps.parseSps s).toOption.isNone) then "na:g43" else
            let asrc : Option (List AUnit) := aaus.dropLast.mapM fun a =>
              if atype == some 0x0f then
                match AudioSpec.readAdts a.data with
                | some h => if h.frameLength = a.data.length ∧ h.protectionAbsent = 1 ∧ a.data.length ≥ 12 then some { ts := a.pts, frame := a.data.drop 7 } else none
                | none => none
              else some { ts := a.pts, frame := a.data }
            match asrc with
            | none => "na:g44"
            | some asrc =>
              match parseMsgs msgs with
              | none => "bad:unparsable-output"
              | some ms =>
                match checkEnvelope ms with
                | some e => e
                | none =>
                  match decodeAll hevc ms with
                  | .error e => e
                  | .ok (vev, aev) =>
                    let srcSets := flat.filterMap fun (_, _, n) => if isParamSet hevc n then some n else none
                    match runVideo hevc (.abs 90000) srcSets { pub := ([], [], []), con := none, src := flat } vev with
                    | .error e => tag "video" e
                    | .ok vs =>
                      if !(remainingData hevc vs.src).isEmpty then "bad:nal-not-forwarded" else
                      let apt : Int := if atype == some 0x0f then ptAac else if atype == some 0x90 then ptG711A else ptG711U
                      let wantAsc : Option Bytes :=
                        if apt ≠ ptAac then none else
                        match aaus with
                        | a :: _ => ((AudioSpec.readAdts a.data).map fun h =>
                            [b8 ((h.profileObjectType + 1) * 8 + h.samplingFrequencyIndex / 2), b8 (h.samplingFrequencyIndex % 2 * 128 + h.channelConfiguration * 8)])
                        | [] => some []
                      match runAudio (soundByte apt) wantAsc (.abs 90000) { src := asrc } aev with
                      | .error e => tag "audio" e
                      | .ok as => if !as.src.isEmpty then "bad:audio-frame-not-forwarded" else "ok"
        | _ => "bad:unparsable-output"
      | _, _ => "na:g45"

end Drv.C07.Oracle
