import LalModel.Model.Bytes
import LalModel.Model.Hex
import LalModel.Model.Flv
import LalModel.Model.Ws
import LalModel.Spec.FlvSpec
import LalModel.Spec.WsSpec
import LalModel.Generated.Consts
/-
  Line-protocol driver (DESIGN.md §4.1). For each line
      <component> <args...> => <implementation output>
  prints
      <model output> | <oracle verdict>
  where the model output is what the Lean model computes for the same
  arguments (compared with the implementation output by ./check: the
  correspondence) and the verdict is the property's own oracle — the
  specification-side reader applied to the *implementation's* output
  (`ok`, `na` when the op is outside the property's guard, `bad:<why>`).
-/
open Lal

def nat! (s : String) : Nat := s.toNat?.getD 0
def hex! (s : String) : Bytes := (Hex.toBytes s).getD []

def splitOnChar (s : String) (c : Char) : List String := s.splitOn (String.singleton c)

structure Ans where
  model : String
  verdict : String := "na"

def tagsArg (s : String) : List (UInt8 × Nat × Bytes) :=
  if s == "-" then [] else
  (splitOnChar s ',').map fun t =>
    match splitOnChar t ':' with
    | [a, b, c] => (UInt8.ofNat (nat! a), nat! b, hex! c)
    | _ => (0, 0, [])

def showTags (ts : List (UInt8 × Nat × Bytes)) : String :=
  String.join (ts.map fun (t, ts, p) => s!" {t.toNat}:{ts}:{Hex.ofBytes p}")

def handle (comp : String) (a : List String) (impl : String) : Ans :=
  match comp, a with
  | "flv.pack", [t, ts, p] =>
    let t8 := UInt8.ofNat (nat! t); let tsn := nat! ts; let pb := hex! p
    let m := Flv.packTag t8 tsn pb
    let ib := hex! impl
    let v :=
      if t8.toNat ≥ 32 then "na" else
      match FlvSpec.readTag ib, Flv.readTag ib with
      | some (tag, []), some (h, raw, []) =>
        if tag.typ == t8 && tag.ts == tsn && tag.payload == pb && h.typ == t8 && h.ts == tsn
           && h.dataSize == pb.length && raw == ib && Flv.payloadOfRaw raw == pb
        then "ok" else "bad:decoded-differs"
      | none, _ => "bad:spec-reader-rejects"
      | _, none => "bad:lal-reader-rejects"
      | _, _ => "bad:trailing-bytes"
    { model := Hex.ofBytes m, verdict := v }
  | "flv.read", [b] =>
    let bb := hex! b
    match Flv.readTag bb with
    | none => { model := "err" }
    | some (h, raw, rest) => { model := s!"ok {h.typ.toNat} {h.dataSize} {h.ts} {raw.length} {rest.length}" }
  | "flv.file", [ts] =>
    let tags := tagsArg ts
    let file := Gen.flvHeader ++ tags.flatMap fun (t, ts, p) => Flv.packTag t ts p
    let back := match Flv.readFile file with
      | none => " hdr-err"
      | some l => showTags (l.map fun (h, raw) => (h.typ, h.ts, Flv.payloadOfRaw raw))
    -- oracle: the implementation's file, read by the specification reader, is exactly the tags written
    let implFile := hex! ((impl.splitOn " ;").headD "")
    let v := match FlvSpec.readFile implFile with
      | none => "bad:spec-reader-rejects-file"
      | some f =>
        if f.tags.map (fun t => (t.typ, t.ts, t.payload)) == tags then "ok" else "bad:file-tags-differ"
    let guard := tags.all fun (t, ts, p) => t.toNat < 32 && ts < 4294967296 && p.length < 16777216
    { model := Hex.ofBytes file ++ " ;" ++ back, verdict := if guard then v else "na" }
  | "ws.hdr", [fin, r1, r2, r3, op, len, mk, key] =>
    let h : Ws.Header :=
      { fin := fin == "1", rsv1 := r1 == "1", rsv2 := r2 == "1", rsv3 := r3 == "1",
        opcode := nat! op, payloadLength := nat! len, masked := mk == "1", maskKey := nat! key }
    { model := Hex.ofBytes (Ws.makeFrameHeader h) }
  | "ws.sub", [isWs, units] =>
    let us := (splitOnChar units ',').map hex!
    let items := us.flatMap (Ws.subWrite (isWs == "1"))
    let implItems := (splitOnChar impl ',').map hex!
    let stream := implItems.flatten
    let v :=
      if isWs == "1" then
        match WsSpec.readFrames stream.length stream with
        | none => "bad:rfc6455-reader-rejects"
        | some fs =>
          if fs.all (fun f => f.fin && f.opcode == 2) && fs.map (·.payload) == us then "ok"
          else "bad:frames-differ"
      else if stream == us.flatten then "ok" else "bad:bytes-differ"
    { model := String.intercalate "," (items.map Hex.ofBytes), verdict := v }
  | _, _ => { model := "bad-op" }

partial def loop (h : IO.FS.Stream) (out : IO.FS.Stream) : IO Unit := do
  let line ← h.getLine
  if line.isEmpty then return ()
  let line := (line.dropEndWhile (fun c => c == '\n' || c == '\r')).toString
  let (op, impl) := match line.splitOn " => " with
    | [o, i] => (o, i)
    | [o] => (o, "")
    | o :: rest => (o, String.intercalate " => " rest)
    | [] => ("", "")
  let ans := match op.splitOn " " with
    | comp :: args => handle comp args impl
    | [] => { model := "bad-op" }
  out.putStrLn (ans.model ++ " | " ++ ans.verdict)
  loop h out

def main : IO Unit := do
  let out ← IO.getStdout
  loop (← IO.getStdin) out
  out.flush
