import Driver.Common
import Driver.C11
import Driver.C08
import Driver.C01
import Driver.C09
import Driver.C12
import Driver.C18
import Driver.C19
import Driver.C04
import Driver.C10
import Driver.C14
import Driver.C20
import Driver.C15
import Driver.C05
import Driver.C13
import Driver.C03
import Driver.C17
import Driver.C07
import Driver.C06
/-
  Line-protocol driver (DESIGN.md §4.1). For each line
      <component> <args...> => <implementation output>
  prints
      <model output> | <oracle verdict>
  where the model output is what the Lean model computes for the same
  arguments (compared with the implementation output by ./check: the
  correspondence) and the verdict is the property's own oracle — the
  specification-side reader applied to the *implementation's* output
  (`ok`, `na` when the op is outside the property's guard, `bad:<why>`).
  One handler per property file `Driver/Cxx.lean`; the first that knows the
  component answers.
-/
open Lal Drv

def handlers : List Handler := [Drv.C11.handleC11, Drv.C08.handleC08, Drv.C01.handleC01, Drv.C09.handleC09, Drv.C12.handleC12, Drv.C18.handleC18, Drv.C19.handleC19, Drv.C04.handleC04, Drv.C10.handleC10, Drv.C14.handleC14, Drv.C20.handleC20, Drv.C15.handleC15, Drv.C05.handleC05, Drv.C13.handleC13, Drv.C03.handleC03, Drv.C17.handleC17, Drv.C07.handleC07, Drv.C06.handleC06]

def dispatch (comp : String) (args : List String) (impl : String) : Ans :=
  match handlers.findSome? (fun h => h comp args impl) with
  | some a => a
  | none => { model := "bad-op" }

partial def loop (h : IO.FS.Stream) (out : IO.FS.Stream) : IO Unit := do
  let line ← h.getLine
  if line.isEmpty then return ()
  let line := (line.dropEndWhile (fun c => c == '\n' || c == '\r')).toString
  let (op, impl) := match line.splitOn " => " with
    | [o, i] => (o, i)
    | [o] => (o, "")
    | o :: rest => (o, String.intercalate " => " rest)
    | [] => ("", "")
  let ans := match op.splitOn " " with
    | comp :: args => dispatch comp args impl
    | [] => { model := "bad-op" }
  out.putStrLn (ans.model ++ " | " ++ ans.verdict)
  loop h out

def main : IO Unit := do
  let out ← IO.getStdout
  loop (← IO.getStdin) out
  out.flush
