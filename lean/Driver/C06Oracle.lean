import Driver.Common
import Driver.Codec
import Driver.C19Oracle
import LalModel.Spec.Demux
import LalModel.Spec.SdpSpec
import LalModel.Model.TsRmx
/-
  The property oracle of C06: the specification-side demultiplexers of Spec/Demux.lean applied to the
  IMPLEMENTATION's output, compared with what the publisher sent as the container specifications read it
  (Lal.Publish). Nothing here uses lal's model of the remuxers.
-/
open Lal Drv Lal.Publish Lal.Demux

namespace Drv.C06O

/-! ### the published streams -/

structure PubVideo where
  ts    : Nat
  cts   : Nat
  key   : Bool
  nals  : List Bytes
  /-- the decoder's active parameter sets after this access unit (sequence headers and in-band sets so far) -/
  sets  : ParamSets
deriving Repr

inductive PubAudio where
  | aac (ts : Nat) (cfg : AudioSpec.Asc) (frame : Bytes)
  | raw (ts : Nat) (data : Bytes)        -- Opus packet / G.711 samples
deriving Repr

def PubAudio.ts : PubAudio → Nat
  | .aac t _ _ => t
  | .raw t _ => t

structure Pub where
  vcodec  : Option VCodec := none
  video   : List PubVideo := []
  /-- sound format of the audio track: 10 AAC, 13 Opus, 7 / 8 G.711 -/
  aformat : Option Nat := none
  audio   : List PubAudio := []
  /-- the first sequence header / AudioSpecificConfig -/
  sets0   : Option ParamSets := none
  /-- the parameter sets of every sequence header -/
  setsAll : List ParamSets := []
  asc0    : Option Bytes := none
  /-- index (among all messages) of the first message of each track -/
  firstV  : Option Nat := none
  firstA  : Option Nat := none
  /-- a frame arrived before its track's configuration, a message the container specifications cannot read, a codec
      change, an empty NAL unit / access unit -/
  irregular : Bool := false
deriving Repr

structure Acc where
  pub   : Pub := {}
  sets  : Option ParamSets := none
  asc   : Option AudioSpec.Asc := none
  idx   : Nat := 0

def aacCfgOk (a : AudioSpec.Asc) : Bool :=
  1 ≤ a.objectType && a.objectType ≤ 4 && a.samplingFrequencyIndex < 13 && a.channelConfiguration < 8 && 1 ≤ a.channelConfiguration

def stepPub (a : Acc) (m : TsRmx.Msg) : Acc :=
  let a' := { a with idx := a.idx + 1 }
  let irr (a : Acc) : Acc := { a with pub := { a.pub with irregular := true } }
  if m.typ = 9 then
    let a' := if a'.pub.firstV.isNone then { a' with pub := { a'.pub with firstV := some a.idx } } else a'
    match videoTag m.payload with
    | none => irr a'
    | some t =>
      if a'.pub.vcodec.isSome ∧ a'.pub.vcodec ≠ some t.codec then irr a' else
      let a' := { a' with pub := { a'.pub with vcodec := some t.codec } }
      match t.kind with
      | .other => irr a'
      | .seqHeader =>
        match seqHeaderSets t m.payload with
        | none => irr a'
        | some s => { a' with sets := some s, pub := { a'.pub with sets0 := a'.pub.sets0 <|> some s, setsAll := a'.pub.setsAll ++ [s] } }
      | .frame =>
        match a'.sets, ConfigRecord.readLengthPrefixed t.body with
        | some s, some nals =>
          if nals.isEmpty ∨ nals.any (·.isEmpty) then irr a' else
          let s' := nals.foldl (ParamSets.feed t.codec) s
          { a' with sets := some s',
                    pub := { a'.pub with video := a'.pub.video ++ [{ ts := m.ts, cts := t.cts, key := t.key, nals := nals, sets := s' }] } }
        | _, _ => irr a'
  else if m.typ = 8 then
    let a' := if a'.pub.firstA.isNone then { a' with pub := { a'.pub with firstA := some a.idx } } else a'
    let fmt := (m.payload.headD 0).toNat / 16
    if a'.pub.aformat.isSome ∧ a'.pub.aformat ≠ some fmt then irr a' else
    let a' := { a' with pub := { a'.pub with aformat := some fmt } }
    match audioTag m.payload with
    | .aacConfig b =>
      match AudioSpec.readAsc b with
      | some c => if aacCfgOk c then { a' with asc := some c, pub := { a'.pub with asc0 := a'.pub.asc0 <|> some b } } else irr a'
      | none => irr a'
    | .aacRaw f =>
      match a'.asc with
      | some c => if f.isEmpty then irr a' else { a' with pub := { a'.pub with audio := a'.pub.audio ++ [.aac m.ts c f] } }
      | none => irr a'
    | .opus p | .g711 _ p =>
      if p.isEmpty then irr a' else { a' with pub := { a'.pub with audio := a'.pub.audio ++ [.raw m.ts p] } }
    | .other => irr a'
  else irr a'

def published (ms : List TsRmx.Msg) : Pub := (ms.foldl stepPub {}).pub

/-- the scenario classes the generator tags its ops with -/
def lateTrack (p : Pub) : Bool :=
  (match p.firstV with | some i => i ≥ 16 | none => false) || (match p.firstA with | some i => i ≥ 16 | none => false)

def belowFirst (ts : List Nat) : Bool :=
  match ts with
  | [] => false
  | t0 :: rest => rest.any (· < t0)

/-- some frame's timestamp lies below the first frame's of its track (a backward jump past the start, or the uint32
    millisecond clock wrapping): the region S22 is about -/
def s22Region (p : Pub) : Bool := belowFirst (p.video.map (·.ts)) || belowFirst (p.audio.map (·.ts))

/-- an in-band parameter-set group that is not complete within its message: a PPS without the SPS (H.265: VPS and SPS)
    before it, or an SPS / VPS with no PPS after it -/
def incompleteGroup (c : VCodec) (nals : List Bytes) : Bool :=
  let rec go (ns : List Bytes) (v s : Bool) (pending : Bool) : Bool :=
    match ns with
    | [] => pending
    | n :: rest =>
      if isVps c n then go rest true s true
      else if isSps c n then go rest v true true
      else if isPps c n then
        (if (c == .avc && s) || (c == .hevc && v && s) then go rest v s false else true)
      else go rest v s pending
  go nals false false false

def classOf (p : Pub) : String :=
  if p.irregular then "irr"
  else if lateTrack p then "late"
  else if (match p.vcodec with | some c => p.video.any (fun f => incompleteGroup c f.nals) | none => false) then "psx"
  else if s22Region p then "s22" else "wf"

/-! ### MPEG-TS -/

structure TsItem where
  sid      : Nat
  boundary : Bool
  packets  : List Bytes

structure TsImpl where
  patpmt : Option Bytes
  items  : List TsItem

def parseTsImpl (impl : String) : Option TsImpl :=
  if impl == "none" then some { patpmt := none, items := [] } else
  let parts := splitOnChar impl ';'
  let rec go (ps : List String) (acc : TsImpl) : Option TsImpl :=
    match ps with
    | [] => some { acc with items := acc.items.reverse }
    | p :: rest =>
      match splitOnChar p ':' with
      | ["P", h] => if acc.patpmt.isSome || !acc.items.isEmpty then none else go rest { acc with patpmt := some (hex! h) }
      | ["T", sid, _, _, _, _, b, h] =>
        let bytes := hex! h
        if bytes.length % 188 ≠ 0 then none else
        go rest { acc with items := { sid := nat! sid, boundary := b == "1", packets := TsSpec.chunk188 bytes.length bytes } :: acc.items }
      | _ => none
  go parts { patpmt := none, items := [] }

def two33 : Nat := 8589934592

/-- `a - b` modulo 2^33 -/
def sub33 (a b : Nat) : Nat := (a % two33 + two33 - b % two33) % two33

def vcodecTs : VCodec → TsSpec.Codec
  | .avc => .avc
  | .hevc => .hevc

def isPrefix {α} [BEq α] : List α → List α → Bool
  | [], _ => true
  | _ :: _, [] => false
  | a :: as, b :: bs => a == b && isPrefix as bs

/-- video: access unit by access unit -/
def checkVideo (c : VCodec) (exp : List PubVideo) (got : List VideoAu) (checkTime : Bool) : String :=
  let exp := exp.filter fun e => !(normTs c e.nals).isEmpty
  if got.length > exp.length then "bad:video-more-access-units-than-published" else
  let rec go (es : List PubVideo) (gs : List VideoAu) (st : ParamSets) (first : Option (PubVideo × VideoAu)) : String :=
    match es, gs with
    | _, [] => "ok"
    | [], _ :: _ => "bad:video-more-access-units-than-published"
    | e :: es', g :: gs' =>
      if normTs c g.nals != normTs c e.nals then "bad:video-nal-units-differ"
      else if g.nals.any (fun n => isParamSet c n && !(e.sets.vps == some n || e.sets.sps == some n || e.sets.pps == some n)) then
        "bad:video-stale-parameter-set"
      else
        let st' := g.nals.foldl (ParamSets.feed c) st
        if (st'.sps.isSome || st'.pps.isSome) && st' != e.sets then "bad:video-parameter-set-state-differs"
        else if g.rai != e.key then "bad:video-random-access-flag"
        else if checkTime && sub33 g.pts g.dts != 90 * e.cts % two33 then "bad:video-pts-minus-dts"
        else
          match first with
          | none => go es' gs' st' (some (e, g))
          | some (e0, g0) =>
            if checkTime && sub33 g.dts g0.dts != sub33 (90 * e.ts) (90 * e0.ts) then "bad:video-dts-not-constant-offset"
            else go es' gs' st' first
  go exp got {} none

def cfgMatches (cfg : AudioSpec.Asc) (h : AudioSpec.Adts) (n : Nat) : Bool :=
  h.layer == 0 && h.protectionAbsent == 1 && h.profileObjectType + 1 == cfg.objectType
  && h.samplingFrequencyIndex == cfg.samplingFrequencyIndex && h.channelConfiguration == cfg.channelConfiguration
  && h.frameLength == n + 7 && h.rawDataBlocks == 0

/-- AAC: the ADTS frames of all PES packets are the published raw frames; each PES carries its first frame's time -/
def checkAac (exp : List PubAudio) (got : List AudioPes) (all : Bool) (checkTime : Bool) : String :=
  let rec frames (es : List PubAudio) (fs : List (AudioSpec.Adts × Bytes)) : Option (List PubAudio) :=
    match fs with
    | [] => some es
    | (h, d) :: fs' =>
      match es with
      | .aac _ cfg f :: es' => if f == d && cfgMatches cfg h d.length then frames es' fs' else none
      | _ => none
  let rec go (es : List PubAudio) (gs : List AudioPes) (first : Option (Nat × Nat)) : String :=
    match gs with
    | [] => if all && !es.isEmpty then "bad:audio-frames-missing" else "ok"
    | g :: gs' =>
      if g.frames.isEmpty then "bad:audio-empty-pes" else
      match es with
      | [] => "bad:audio-more-frames-than-published"
      | e :: _ =>
        match frames es g.frames with
        | none => "bad:audio-adts-frames-differ"
        | some es' =>
          match first with
          | none => go es' gs' (some (e.ts, g.pts))
          | some (t0, p0) =>
            if checkTime && sub33 g.pts p0 != sub33 (90 * e.ts) (90 * t0) then "bad:audio-pts-not-first-frame-time"
            else go es' gs' first
  go exp got none

/-- Opus: one packet per PES packet -/
def checkOpus (exp : List PubAudio) (got : List TsSpec.Unit) (all : Bool) (checkTime : Bool) : String :=
  let rec go (es : List PubAudio) (gs : List TsSpec.Unit) (first : Option (Nat × Nat)) : String :=
    match gs with
    | [] => if all && !es.isEmpty then "bad:audio-frames-missing" else "ok"
    | g :: gs' =>
      match es, g.pes.pts with
      | .raw t d :: es', some p =>
        if g.pes.data != d then "bad:audio-opus-packet-differs"
        else match first with
          | none => go es' gs' (some (t, p))
          | some (t0, p0) =>
            if checkTime && sub33 p p0 != sub33 (90 * t) (90 * t0) then "bad:audio-pts-not-frame-time" else go es' gs' first
      | _, _ => "bad:audio-more-frames-than-published"
  go exp got none

def firstBad (l : List String) : String := (l.find? (· != "ok")).getD "ok"

def tsVerdict (tag : String) (evs : List TsRmx.Ev) (impl : String) : String :=
  if impl == "panic" then "bad:panic" else
  let ms := evs.filterMap fun e => match e with | .msg m => some m | .flush => none
  let pub := published ms
  let cls := classOf pub
  let tagCls := if tag == "s22x" then "s22" else tag
  if tagCls != cls then s!"bad:class-tag-{tag}-but-scenario-is-{cls}" else
  match parseTsImpl impl with
  | none => "bad:output-shape"
  | some out =>
    let stream := out.items.flatMap (·.packets)
    if out.patpmt.isNone then (if out.items.isEmpty then "ok" else "bad:packets-before-pat-pmt") else
    match Demux.program (out.patpmt.getD []) with
    | none => "bad:pat-pmt-invalid"
    | some prog =>
      let vpid := Gen.tsPidVideo
      let apid := Gen.tsPidAudio
      let declared (c : TsSpec.Codec) (pid : Nat) : Bool := prog.streams.contains (some c, pid)
      match Demux.pidUnits vpid stream, Demux.pidUnits apid stream with
      | none, _ => "bad:video-pid-not-demuxable"
      | _, none => "bad:audio-pid-not-demuxable"
      | some vu, some au =>
        -- every PID that carries something is declared with the right codec
        let psi :=
          if !(Demux.strayPids [vpid, apid] stream).isEmpty then "bad:stray-pid"
          else if !vu.isEmpty && !(match pub.vcodec with | some c => declared (vcodecTs c) vpid | none => false) then "bad:video-pid-not-in-pmt"
          else if !au.isEmpty && !(match pub.aformat with
                                   | some 10 => declared .aac apid
                                   | some 13 => declared .opus apid
                                   | _ => false) then "bad:audio-pid-not-in-pmt"
          else if vu.any (fun u => !TsSpec.videoStreamId u.pes.sid) || au.any (fun u => u.pes.sid / 32 != 6) then "bad:stream-id"
          else "ok"
        if cls == "irr" then (if psi == "ok" then "na" else psi) else
        let checkTime := tag != "s22x"
        let endsFlushed := evs.getLast? == some .flush
        let video := match pub.vcodec with
          | none => if vu.isEmpty then "ok" else "bad:video-without-publisher"
          | some c =>
            match Demux.videoAus vu with
            | none => "bad:video-pes-not-annexb"
            | some aus =>
              -- once the PAT/PMT is out, nothing is held back on the video side
              if aus.length != (pub.video.filter fun e => !(normTs c e.nals).isEmpty).length then "bad:video-access-units-missing"
              else checkVideo c pub.video aus checkTime
        let audio := match pub.aformat with
          | some 10 =>
            (match Demux.aacPess au with
             | none => "bad:audio-pes-not-adts"
             | some ps => checkAac pub.audio ps endsFlushed checkTime)
          | some 13 => checkOpus pub.audio au true checkTime
          | _ => if au.isEmpty then "ok" else "bad:audio-without-publisher"
        -- a consumer that joins at a boundary: PAT/PMT, then the packets from that call on
        let joins := (List.range out.items.length).filter fun i => (out.items.getD i { sid := 0, boundary := false, packets := [] }).boundary
        let pick := [joins.head?, joins[joins.length / 2]?, joins.getLast?].filterMap id |>.eraseDups
        let joinOk := pick.map fun i =>
          let skipped := out.items.take i
          let nv := (skipped.filter (·.sid == Gen.tsStreamIdVideo)).length
          let na := skipped.length - nv
          let sub := (out.items.drop i).flatMap (·.packets)
          if Demux.pidUnits vpid sub == some (vu.drop nv) && Demux.pidUnits apid sub == some (au.drop na) then "ok"
          else "bad:join-point-stream-differs"
        firstBad ([psi, video, audio] ++ joinOk)

/-! ### Opus in MPEG-2 TS -/

/-- `opus_control_header()` of the Opus-in-TS mapping (ETSI TS 103 491 annex / the Opus project's "Opus in MPEG-2 TS"
    draft, what FFmpeg and GStreamer write and expect): control_header_prefix (11 bits, 0x3ff), start_trim_flag,
    end_trim_flag, control_extension_flag, 2 reserved bits, au_size as a run of 0xFF bytes closed by a byte < 0xFF,
    optional 16-bit trim fields and extension. Returns au_size and the bytes after the header. -/
def opusControlHeader (b : Bytes) : Option (Nat × Bytes) :=
  match b with
  | b0 :: b1 :: rest =>
    if b0.toNat ≠ 0x7f ∨ b1.toNat / 32 ≠ 7 then none else
    let rec size (fuel : Nat) (r : Bytes) (acc : Nat) : Option (Nat × Bytes) :=
      match fuel, r with
      | 0, _ => none
      | _, [] => none
      | f+1, x :: r' => if x.toNat = 255 then size f r' (acc + 255) else some (acc + x.toNat, r')
    match size rest.length rest 0 with
    | none => none
    | some (n, r1) =>
      let r2 := if b1.toNat / 16 % 2 = 1 then r1.drop 2 else r1
      let r3 := if b1.toNat / 8 % 2 = 1 then r2.drop 2 else r2
      if b1.toNat / 4 % 2 = 1 then
        match r3 with
        | l :: r4 => some (n, r4.drop l.toNat)
        | [] => none
      else some (n, r3)
  | _ => none

/-- every PES packet of the (Opus) audio PID is a sequence of access units, each behind its control header -/
def tsOpusVerdict (impl : String) : String :=
  if impl == "panic" then "bad:panic" else
  match parseTsImpl impl with
  | none => "bad:output-shape"
  | some out =>
    match Demux.pidUnits Gen.tsPidAudio (out.items.flatMap (·.packets)) with
    | none => "bad:audio-pid-not-demuxable"
    | some au =>
      let rec aus (fuel : Nat) (b : Bytes) : Bool :=
        match fuel with
        | 0 => false
        | f+1 =>
          if b.isEmpty then true else
          match opusControlHeader b with
          | none => false
          | some (n, r) => n ≤ r.length && n > 0 && aus f (r.drop n)
      if au.isEmpty then "na"
      else if au.all (fun u => aus (u.pes.data.length + 1) u.pes.data) then "ok"
      else "bad:opus-access-unit-without-control-header"

/-! ### HLS: the concatenated segments -/

/-- Every segment file is PAT + PMT followed by whole transport packets; the concatenation, read as ONE transport stream
    by a receiver that starts with the first segment, gives the published frames from some point on: the video access
    units are a contiguous run of the published ones that reaches the end, likewise the audio frames (an `f` at the end of
    the scenario flushes the audio cache). Counters continue across the segment borders (the PSI packets, always sent with
    counter 0, are not counted in). -/
def hlsVerdict (tag : String) (evs : List TsRmx.Ev) (impl : String) : String :=
  if impl == "panic" then "bad:panic" else
  let ms := evs.filterMap fun e => match e with | .msg m => some m | .flush => none
  let pub := published ms
  let cls := classOf pub
  let tagCls := if tag == "s22x" then "s22" else tag
  if tagCls != cls then s!"bad:class-tag-{tag}-but-scenario-is-{cls}" else
  if impl == "none" then "ok" else
  let segs := (splitOnChar impl ';').map fun g => hex! (g.drop 2).toString
  if segs.any (fun g => g.length < 376 || g.length % 188 != 0) then "bad:segment-not-pat-pmt-and-whole-packets" else
  let patpmt := (segs.headD []).take 376
  if segs.any (fun g => g.take 376 != patpmt) then "bad:segment-does-not-start-with-pat-pmt" else
  match Demux.program patpmt with
  | none => "bad:pat-pmt-invalid"
  | some prog =>
    if cls == "irr" then "na" else
    let body := segs.flatMap fun g => g.drop 376
    let stream := TsSpec.chunk188 body.length body
    let vpid := Gen.tsPidVideo
    let apid := Gen.tsPidAudio
    let declared (c : TsSpec.Codec) (pid : Nat) : Bool := prog.streams.contains (some c, pid)
    match Demux.pidUnits vpid stream, Demux.pidUnits apid stream with
    | none, _ => "bad:video-pid-not-demuxable"
    | _, none => "bad:audio-pid-not-demuxable"
    | some vu, some au =>
      let psi :=
        if !(Demux.strayPids [vpid, apid] stream).isEmpty then "bad:stray-pid"
        else if !vu.isEmpty && !(match pub.vcodec with | some c => declared (vcodecTs c) vpid | none => false) then "bad:video-pid-not-in-pmt"
        else if !au.isEmpty && !(match pub.aformat with
                                 | some 10 => declared .aac apid
                                 | some 13 => declared .opus apid
                                 | _ => false) then "bad:audio-pid-not-in-pmt"
        else "ok"
      let checkTime := tag != "s22x"
      let endsFlushed := evs.getLast? == some .flush
      let video := match pub.vcodec with
        | none => if vu.isEmpty then "ok" else "bad:video-without-publisher"
        | some c =>
          match Demux.videoAus vu with
          | none => "bad:video-pes-not-annexb"
          | some aus =>
            let exp := pub.video.filter fun e => !(normTs c e.nals).isEmpty
            if aus.length > exp.length then "bad:video-more-access-units-than-published"
            else checkVideo c (exp.drop (exp.length - aus.length)) aus checkTime
      let audio := match pub.aformat with
        | some 10 =>
          (match Demux.aacPess au with
           | none => "bad:audio-pes-not-adts"
           | some ps =>
             -- the frames present are a contiguous run of the published ones; which run: by count from the end when the
             -- cache was flushed, otherwise the run that starts where the first recovered frame matches
             let n := (ps.map (·.frames.length)).sum
             if endsFlushed then
               (if n > pub.audio.length then "bad:audio-more-frames-than-published"
                else checkAac (pub.audio.drop (pub.audio.length - n)) ps true checkTime)
             else
               let starts := (List.range (pub.audio.length + 1)).filter fun k => checkAac (pub.audio.drop k) ps false checkTime == "ok"
               if starts.isEmpty then "bad:audio-not-a-run-of-the-published-frames" else "ok")
        | some 13 =>
          if au.length > pub.audio.length then "bad:audio-more-frames-than-published"
          else checkOpus (pub.audio.drop (pub.audio.length - au.length)) au true checkTime
        | _ => if au.isEmpty then "ok" else "bad:audio-without-publisher"
      firstBad [psi, video, audio]

/-! ### RTSP / RTP -/

def rtpKindOfPt (pt : Nat) : Option RtpKind :=
  if pt = 96 then some .avc else if pt = 98 then some .hevc else if pt = 97 then some .aac
  else if pt = 0 ∨ pt = 8 ∨ pt = 101 then some .raw else none

structure RtspImpl where
  sdp  : List Bytes
  pkts : List RtpSpec.Packet

def parseRtspImpl (impl : String) : Option RtspImpl :=
  if impl == "none" then some { sdp := [], pkts := [] } else
  let rec go (ps : List String) (acc : RtspImpl) : Option RtspImpl :=
    match ps with
    | [] => some { acc with pkts := acc.pkts.reverse, sdp := acc.sdp.reverse }
    | p :: rest =>
      match splitOnChar p ':' with
      | ["S", h] => go rest { acc with sdp := (if h == "-" then [] else hex! h) :: acc.sdp }
      | ["R", h] =>
        match RtpSpec.parse (hex! h) with
        | none => none
        | some q => go rest { acc with pkts := q :: acc.pkts }
      | _ => none
  go (splitOnChar impl ';') { sdp := [], pkts := [] }

/-- `rtpTs` is the media time at the clock rate within one tick, modulo 2^32 -/
def tsWithinTick (rtpTs ms rate : Nat) : Bool :=
  let m := 4294967296 * 1000
  (ms * rate % m + m - rtpTs * 1000 % m) % m < 1000

def checkRtpVideo (c : VCodec) (exp : List PubVideo) (got : List RtpAu) : String :=
  let exp := exp.filter fun e => !(normRtp c e.nals).isEmpty
  let rec go (es : List PubVideo) (gs : List RtpAu) : String :=
    match es, gs with
    | [], [] => "ok"
    | [], _ :: _ => "bad:rtp-video-more-access-units-than-published"
    | _ :: _, [] => "bad:rtp-video-access-units-missing"
    | e :: es', g :: gs' =>
      if g.units != normRtp c e.nals then "bad:rtp-video-nal-units-differ"
      else if !tsWithinTick g.ts e.ts 90000 then "bad:rtp-video-timestamp"
      else go es' gs'
  go exp got

def checkRtpAudio (rate : Nat) (exp : List PubAudio) (got : List RtpAu) : String :=
  let rec go (es : List PubAudio) (gs : List RtpAu) : String :=
    match es, gs with
    | [], [] => "ok"
    | [], _ :: _ => "bad:rtp-audio-more-frames-than-published"
    | _ :: _, [] => "bad:rtp-audio-frames-missing"
    | e :: es', g :: gs' =>
      let data := match e with | .aac _ _ f => f | .raw _ d => d
      if g.units != [data] then "bad:rtp-audio-frame-differs"
      else if !tsWithinTick g.ts e.ts rate then "bad:rtp-audio-timestamp"
      else go es' gs'
  go exp got

/-- the session description against the published configuration (RFC 4566 reader of C19) -/
def checkSdp (raw : Bytes) (pub : Pub) : String :=
  match SdpSpec.read raw with
  | none => "bad:sdp-rfc4566-reader-rejects"
  | some ms =>
    match ms.mapM SdpSpec.Media.stream with
    | none => "bad:sdp-media-without-rtpmap"
    | some ss =>
      let dec := Drv.Codec.b64dec
      let v := match pub.vcodec, pub.sets0 with
        | some .avc, some _ =>
          (match ss.find? (·.media == SdpSpec.str "video") with
           | some m => if m.pt == 96 && m.encoding == SdpSpec.str "H264" && m.clockRate == 90000
                          && pub.setsAll.any (fun s => m.h264Sets dec == (match s.sps, s.pps with | some a, some b => some [a, b] | _, _ => none)) then "ok"
                       else "bad:sdp-video-description"
           | none => "bad:sdp-no-video")
        | some .hevc, some _ =>
          (match ss.find? (·.media == SdpSpec.str "video") with
           | some m => if m.pt == 98 && m.encoding == SdpSpec.str "H265" && m.clockRate == 90000
                          && pub.setsAll.any (fun s => m.h265Sets dec == (match s.vps, s.sps, s.pps with | some x, some a, some b => some ([x], [a], [b]) | _, _, _ => none)) then "ok"
                       else "bad:sdp-video-description"
           | none => "bad:sdp-no-video")
        | _, _ => if ss.any (·.media == SdpSpec.str "video") then "bad:sdp-video-without-publisher" else "ok"
      let a := match pub.aformat with
        | none => if ss.any (·.media == SdpSpec.str "audio") then "bad:sdp-audio-without-publisher" else "ok"
        | some f =>
          match ss.find? (·.media == SdpSpec.str "audio") with
          | none => "bad:sdp-no-audio"
          | some m =>
            if f = 10 then
              let rate := match pub.audio.head? with
                | some (.aac _ cfg _) => AudioSpec.frequencies[cfg.samplingFrequencyIndex]?
                | _ => (pub.asc0.bind AudioSpec.readAsc).bind fun c => AudioSpec.frequencies[c.samplingFrequencyIndex]?
              if m.pt == 97 && m.encoding == SdpSpec.str "MPEG4-GENERIC" && some m.clockRate == rate
                 && m.aacConfig Drv.Codec.hexdec == pub.asc0 then "ok" else "bad:sdp-audio-description"
            else if f = 13 then (if m.pt == 101 && m.encoding == SdpSpec.str "opus" && m.clockRate == 48000 then "ok" else "bad:sdp-audio-description")
            else if f = 7 then (if m.pt == 8 && m.encoding == SdpSpec.str "PCMA" && m.clockRate == 8000 then "ok" else "bad:sdp-audio-description")
            else if f = 8 then (if m.pt == 0 && m.encoding == SdpSpec.str "PCMU" && m.clockRate == 8000 then "ok" else "bad:sdp-audio-description")
            else "bad:sdp-audio-description"
      firstBad [v, a]

def rtspVerdict (tag : String) (ms : List TsRmx.Msg) (impl : String) : String :=
  if impl == "panic" then "bad:panic" else
  let pub := published ms
  let cls := if classOf pub == "late" || classOf pub == "irr" then classOf pub else "wf"
  if tag != cls then s!"bad:class-tag-{tag}-but-scenario-is-{cls}" else
  match parseRtspImpl impl with
  | none => "bad:output-shape-or-rtp-header"
  | some out =>
    if out.sdp.length > 1 then "bad:sdp-sent-twice" else
    if out.sdp.isEmpty then (if out.pkts.isEmpty then "ok" else "bad:rtp-before-sdp") else
    if cls == "irr" then "na" else
    let sdp := checkSdp (out.sdp.headD []) pub
    let vpk := out.pkts.filter fun p => p.pt == 96 || p.pt == 98
    let apk := out.pkts.filter fun p => !(p.pt == 96 || p.pt == 98)
    let chains := if Demux.seqChain vpk && Demux.seqChain apk then "ok" else "bad:rtp-sequence-numbers"
    let video := match pub.vcodec with
      | none => if vpk.isEmpty then "ok" else "bad:rtp-video-without-publisher"
      | some c =>
        if vpk.any (fun p => p.pt != (if c == .avc then 96 else 98)) then "bad:rtp-video-payload-type" else
        match Demux.rtpAus (if c == .avc then .avc else .hevc) vpk with
        | none => "bad:rtp-video-not-depacketisable"
        | some aus => checkRtpVideo c pub.video aus
    let audio := match pub.aformat with
      | none => if apk.isEmpty then "ok" else "bad:rtp-audio-without-publisher"
      | some f =>
        let (pt, kind, rate) : Nat × RtpKind × Nat :=
          if f = 10 then
            (97, .aac, match pub.audio.head? with
                       | some (.aac _ cfg _) => (AudioSpec.frequencies[cfg.samplingFrequencyIndex]?).getD 0
                       | _ => 0)
          else if f = 13 then (101, .raw, 48000) else if f = 7 then (8, .raw, 8000) else (0, .raw, 8000)
        if apk.any (fun p => p.pt != pt) then "bad:rtp-audio-payload-type" else
        match Demux.rtpAus kind apk with
        | none => "bad:rtp-audio-not-depacketisable"
        | some aus => checkRtpAudio rate pub.audio aus
    firstBad [sdp, chains, video, audio]

end Drv.C06O
