import LalModel.Model.Bytes
import LalModel.Model.Flv
import LalModel.Model.Ws
import LalModel.Spec.FlvSpec
import LalModel.Spec.WsSpec
