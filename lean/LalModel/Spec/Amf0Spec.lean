import LalModel.Model.Amf0
/-
  An AMF0 decoder written from the Adobe "Action Message Format -- AMF 0" specification (2007), §2:
    2.2  number-type      = number-marker(0x00) DOUBLE
    2.3  boolean-type     = boolean-marker(0x01) U8          (0 is false, everything else true)
    2.4  string-type      = string-marker(0x02) UTF-8        (UTF-8 = U16 length, bytes)
    2.5  object-type      = object-marker(0x03) *(object-property), object-property =
                            (UTF-8 value-type) | (UTF-8-empty object-end-marker(0x09))
    2.7  null-type        = null-marker(0x05)
    2.8  undefined-type   = undefined-marker(0x06)
    2.10 ecma-array-type  = ecma-array-marker(0x08) associative-count(U32) *(object-property)
    2.12 strict-array-type= strict-array-marker(0x0A) array-count(U32) *(value-type)
    2.14 long-string-type = long-string-marker(0x0C) UTF-8-long (U32 length, bytes)
  Independent of lal's reader: it consumes a byte list and returns the value and the unread rest; only the
  tree type `Amf` is shared with the model. Strings are byte strings (no UTF-8 validation: lal does none
  and the property is about bytes). The associative-count of an ECMA array is read strictly: it must equal
  the number of properties before the end marker (encodings where it differs are outside the oracle).
  Markers this property does not cover (movieclip 0x04, reference 0x07, date 0x0B, unsupported 0x0D,
  recordset 0x0E, XML 0x0F, typed object 0x10, AVM+ 0x11) are rejected.
-/
namespace Lal.Amf0Spec
open Lal Lal.Amf0

mutual
/-- value-type -/
def value : Nat → Bytes → Option (Amf × Bytes)
  | 0, _ => none
  | fuel + 1, b =>
    match b with
    | [] => none
    | m :: r =>
      if m = 0x00 then
        if r.length < 8 then none else some (.num (r.take 8), r.drop 8)
      else if m = 0x01 then
        match r with
        | x :: r' => some (.bool (x.toNat ≠ 0), r')
        | [] => none
      else if m = 0x02 then
        match r with
        | l0 :: l1 :: r' =>
          let n := l0.toNat * 256 + l1.toNat
          if r'.length < n then none else some (.str (r'.take n), r'.drop n)
        | _ => none
      else if m = 0x0c then
        match r with
        | l0 :: l1 :: l2 :: l3 :: r' =>
          let n := ((l0.toNat * 256 + l1.toNat) * 256 + l2.toNat) * 256 + l3.toNat
          if r'.length < n then none else some (.str (r'.take n), r'.drop n)
        | _ => none
      else if m = 0x05 then some (.null, r)
      else if m = 0x06 then some (.undef, r)
      else if m = 0x03 then
        match props fuel r with
        | some (kvs, r') => some (.obj kvs, r')
        | none => none
      else if m = 0x08 then
        match r with
        | c0 :: c1 :: c2 :: c3 :: r' =>
          match props fuel r' with
          | some (kvs, r'') =>
            if kvs.length = ((c0.toNat * 256 + c1.toNat) * 256 + c2.toNat) * 256 + c3.toNat
            then some (.ecma kvs, r'') else none
          | none => none
        | _ => none
      else if m = 0x0a then
        match r with
        | c0 :: c1 :: c2 :: c3 :: r' =>
          match elems fuel (((c0.toNat * 256 + c1.toNat) * 256 + c2.toNat) * 256 + c3.toNat) r' with
          | some (vs, r'') => some (.strict vs, r'')
          | none => none
        | _ => none
      else none

/-- *(object-property) up to and including `UTF-8-empty object-end-marker` -/
def props : Nat → Bytes → Option (List (Bytes × Amf) × Bytes)
  | 0, _ => none
  | fuel + 1, b =>
    match b with
    | l0 :: l1 :: r =>
      let n := l0.toNat * 256 + l1.toNat
      if n = 0 ∧ r.head? = some 0x09 then some ([], r.drop 1)
      else if r.length < n then none
      else
        match value fuel (r.drop n) with
        | none => none
        | some (v, r') =>
          match props fuel r' with
          | none => none
          | some (kvs, r'') => some ((r.take n, v) :: kvs, r'')
    | _ => none

/-- exactly `count` values -/
def elems : Nat → Nat → Bytes → Option (List Amf × Bytes)
  | 0, _, _ => none
  | _ + 1, 0, b => some ([], b)
  | fuel + 1, count + 1, b =>
    match value fuel b with
    | none => none
    | some (v, r) =>
      match elems fuel count r with
      | none => none
      | some (vs, r') => some (v :: vs, r')
end

/-- Decode one value at the head of `b`: the value and the number of bytes it occupies. -/
def decode (b : Bytes) : Option (Amf × Nat) :=
  match value (2 * b.length + 2) b with
  | some (v, r) => some (v, b.length - r.length)
  | none => none

/-- IEEE-754 binary64 → integer, when the double is an integer (`none` for fractions, NaN, ±Inf).
    sign(1) exponent(11, bias 1023) fraction(52). -/
def f64ToInt? (bits : Bytes) : Option Int :=
  match bits with
  | [a, b, c, d, e, f, g, h] =>
    let n := ((((((a.toNat * 256 + b.toNat) * 256 + c.toNat) * 256 + d.toNat) * 256 + e.toNat) * 256 + f.toNat) * 256
      + g.toNat) * 256 + h.toNat
    let sign := n / 2 ^ 63
    let ex := n / 2 ^ 52 % 2048
    let frac := n % 2 ^ 52
    let mag : Option Nat :=
      if ex = 0 then (if frac = 0 then some 0 else none)      -- ±0, subnormals
      else if ex = 2047 then none                             -- Inf, NaN
      else
        let m := 2 ^ 52 + frac
        if ex ≥ 1075 then some (m * 2 ^ (ex - 1075))
        else if 1075 - ex ≤ 52 ∧ m % 2 ^ (1075 - ex) = 0 then some (m / 2 ^ (1075 - ex))
        else none
    match mag with
    | some k => some (if sign = 1 then -(k : Int) else (k : Int))
    | none => none
  | _ => none

end Lal.Amf0Spec
