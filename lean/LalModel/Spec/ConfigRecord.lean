import LalModel.Model.Bytes
/-
  Specification-side readers of the decoder configuration records, independent of lal's parsers:
    Adobe FLV v10.1 E.4.3.1 VIDEODATA / AVCVIDEOPACKET header (FrameType, CodecID, AVCPacketType, CompositionTime)
    ISO/IEC 14496-15 §5.2.4.1.1 AVCDecoderConfigurationRecord
    ISO/IEC 14496-15 §8.3.3.1.2 HEVCDecoderConfigurationRecord
  and ISO/IEC 14496-15 §4.3.3 length-prefixed NAL unit samples (lengthSizeMinusOne = 3).
-/
namespace Lal.ConfigRecord

structure VideoTagHeader where
  frameType : Nat
  codecId : Nat
  packetType : Nat
  compositionTime : Nat
deriving Repr, DecidableEq

def videoTagHeader : Bytes → Option (VideoTagHeader × Bytes)
  | a :: t :: c0 :: c1 :: c2 :: rest =>
    some ({ frameType := a.toNat / 16, codecId := a.toNat % 16, packetType := t.toNat,
            compositionTime := rd24 c0 c1 c2 }, rest)
  | _ => none

/-- `n` × { unsigned int(16) length; bit(8*length) nalUnit } -/
def nalus16 : Nat → Bytes → Option (List Bytes × Bytes)
  | 0, b => some ([], b)
  | n+1, l0 :: l1 :: rest =>
    let len := rd16 l0 l1
    if rest.length < len then none
    else (nalus16 n (rest.drop len)).map fun (us, r) => (rest.take len :: us, r)
  | _, _ => none

structure AvcC where
  profile : Nat
  compatibility : Nat
  level : Nat
  lengthSize : Nat
  sps : List Bytes
  pps : List Bytes
deriving Repr, DecidableEq

/-- AVCDecoderConfigurationRecord; the reserved bits must be ones, the version 1. Returns the unread rest
    (profile-specific extension fields may follow). -/
def avcC : Bytes → Option (AvcC × Bytes)
  | v :: p :: c :: l :: ls :: ns :: rest =>
    if v ≠ 1 ∨ ls.toNat / 4 ≠ 63 ∨ ns.toNat / 32 ≠ 7 then none else
    match nalus16 (ns.toNat % 32) rest with
    | none => none
    | some (sps, np :: rest') =>
      (nalus16 np.toNat rest').map fun (pps, r) =>
        ({ profile := p.toNat, compatibility := c.toNat, level := l.toNat, lengthSize := ls.toNat % 4 + 1,
           sps := sps, pps := pps }, r)
    | some (_, []) => none
  | _ => none

/-- the (sps list, pps list) of an FLV/RTMP AVC sequence header -/
def avcSeqHeader (b : Bytes) : Option (List Bytes × List Bytes) :=
  match videoTagHeader b with
  | some (h, rest) =>
    if h.codecId ≠ 7 ∨ h.packetType ≠ 0 then none
    else (avcC rest).map fun (r, _) => (r.sps, r.pps)
  | none => none

structure HvcCArray where
  completeness : Bool
  nalType : Nat
  nalus : List Bytes
deriving Repr, DecidableEq

def hvcArrays : Nat → Bytes → Option (List HvcCArray × Bytes)
  | 0, b => some ([], b)
  | n+1, t :: n0 :: n1 :: rest =>
    if t.toNat / 64 % 2 ≠ 0 then none else           -- reserved bit
    match nalus16 (rd16 n0 n1) rest with
    | none => none
    | some (us, r) =>
      (hvcArrays n r).map fun (as, r') =>
        ({ completeness := t.toNat / 128 = 1, nalType := t.toNat % 64, nalus := us } :: as, r')
  | _, _ => none

structure HvcC where
  profileSpace : Nat
  tier : Nat
  profileIdc : Nat
  level : Nat
  lengthSize : Nat
  arrays : List HvcCArray
deriving Repr, DecidableEq

/-- HEVCDecoderConfigurationRecord: 22 fixed bytes (reserved bits must be ones) + numOfArrays + arrays -/
def hvcC (b : Bytes) : Option HvcC :=
  if b.length < 23 then none else
  let g (i : Nat) : Nat := (b.getD i 0).toNat
  if g 0 ≠ 1 ∨ g 13 / 16 ≠ 15 ∨ g 15 / 4 ≠ 63 ∨ g 16 / 4 ≠ 63 ∨ g 17 / 8 ≠ 31 ∨ g 18 / 8 ≠ 31 then none else
  match hvcArrays (g 22) (b.drop 23) with
  | some (as, []) =>
    some { profileSpace := g 1 / 64, tier := g 1 / 32 % 2, profileIdc := g 1 % 32, level := g 12,
           lengthSize := g 21 % 4 + 1, arrays := as }
  | _ => none

/-- the NAL units of the given type in an FLV/RTMP HEVC sequence header (CodecID 12, as lal and the
    common non-enhanced HEVC-over-FLV convention use it) -/
def hevcSeqHeader (b : Bytes) : Option HvcC :=
  match videoTagHeader b with
  | some (h, rest) => if h.codecId ≠ 12 ∨ h.packetType ≠ 0 then none else hvcC rest
  | none => none

def HvcC.ofType (r : HvcC) (t : Nat) : List Bytes := (r.arrays.filter (·.nalType = t)).flatMap (·.nalus)

/-- ISO/IEC 14496-15 sample format with 4-byte NALUnitLength: all units, the sample must be consumed exactly -/
def lengthPrefixed : Nat → Bytes → Option (List Bytes)
  | _, [] => some []
  | 0, _ => none
  | fuel+1, a :: b :: c :: d :: rest =>
    let len := rd32 a b c d
    if rest.length < len then none
    else (lengthPrefixed fuel (rest.drop len)).map (rest.take len :: ·)
  | _, _ => none

def readLengthPrefixed (b : Bytes) : Option (List Bytes) := lengthPrefixed b.length b

end Lal.ConfigRecord
