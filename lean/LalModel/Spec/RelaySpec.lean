/-
  The relay rules as property C17 states them, written from the property text, not from lal's code:

    "A relay pull (static or API-started) is attempted only while it is enabled, the stream has no input, no
     attempt is in flight, the retry budget is not exhausted and - when auto-stop is configured - a consumer
     has been present within the configured window; it is stopped when the last consumer has been gone for
     that window or on API stop or kick, and each API response reports what actually happened. Relay push
     opens one session per configured target once an RTMP or RTSP publisher is accepted, retries a failed
     target on later ticks, forwards an RTMP publisher's URL parameters whatever their length, and ends with
     the publisher."

  (1) `View` / `wantPull`: the rule for attempting a pull, used by the theorems of Props/C17.lean.
  (2) `monitor`: an executable rendering of the whole property over an OBSERVED history (the bookkeeping a real
      `logic.Group` printed after each event), used as the check's oracle on the implementation's output.
-/
namespace Lal.RelaySpec

/-- what the rule looks at -/
structure View where
  enabled : Bool          -- static relay pull configured, or started by the API and not stopped since
  hasInput : Bool
  inFlight : Bool         -- an attempt was started and has not ended (connecting or attached)
  attempts : Nat          -- attempts since the last stop
  budget : Int            -- retry budget: < 0 forever, n = n retries (n+1 attempts)
  autoStop : Int          -- < 0 never, 0 immediately, t ms
  consumerPresent : Bool
  lastConsumer : Int      -- when a consumer was last seen (ms)

/-- a consumer has been present within the configured window -/
def consumerWithinWindow (v : View) (now : Int) : Prop :=
  v.consumerPresent ∨ (v.autoStop > 0 ∧ now - v.lastConsumer < v.autoStop)

/-- the retry budget is not exhausted -/
def budgetLeft (v : View) : Prop := v.budget < 0 ∨ (v.attempts : Int) ≤ v.budget

def wantPull (v : View) (now : Int) : Prop :=
  v.enabled = true ∧ v.hasInput = false ∧ v.inFlight = false ∧ budgetLeft v ∧ (v.autoStop < 0 ∨ consumerWithinWindow v now)

instance (v : View) (now : Int) : Decidable (wantPull v now) := by
  unfold wantPull budgetLeft consumerWithinWindow; infer_instance

/-- the last consumer has been gone for the window -/
def consumerGoneForWindow (v : View) (now : Int) : Prop :=
  v.autoStop ≥ 0 ∧ v.consumerPresent = false ∧ (v.autoStop = 0 ∨ now - v.lastConsumer ≥ v.autoStop)

instance (v : View) (now : Int) : Decidable (consumerGoneForWindow v now) := by
  unfold consumerGoneForWindow; infer_instance

/-! ### monitor over an observed history -/

/-- the bookkeeping printed after an event -/
structure Snap where
  static : Bool := false
  api : Bool := false
  retry : Int := 0
  auto : Int := 0
  count : Nat := 0
  pulling : Bool := false      -- an attempt exists (connecting or attached)
  wanted : Bool := false       -- a connecting attempt that may still attach
  attached : Bool := false
  hasIn : Bool := false
  hasOut : Bool := false
  lastOut : Int := 0
  starts : Nat := 0
  stops : Nat := 0
  push : List (Bool × Bool) := []   -- per target: a push exists, its session is attached
  extra : Bool := false             -- a second connection reached a stub that still holds one
deriving Repr, DecidableEq, Inhabited

/-- one observed event: its name and arguments, its answer, the clock before and after, the bookkeeping after -/
structure Step where
  ev : List String
  res : String
  t0 : Int
  t1 : Int
  snap : Snap
deriving Repr, Inhabited

structure Mon where
  prev : Snap
  lastLo : Int := 0         -- when a consumer was last SAMPLED as present (clock before / after that event).
  lastHi : Int := 0         -- Presence is sampled at joins, ticks and API starts - the instants at which the group
                            -- looks - and the creation of the group (time 0) counts as the first sample.
  stopped : Bool := false   -- stop / kick answered "done" since the current attempt started
  consumers : Nat := 0      -- consumers the MONITOR counted from the join / leave events (any protocol)
  since : Nat := 0          -- attempts the MONITOR counted since the last API stop / successful kick (the implementation's
                            -- own counter is not trusted for the budget rule; an auto-stop tick resets only the latter,
                            -- which can make the implementation more permissive than this count, never less)
  pushSrc : Bool := false   -- the accepted publisher is RTMP or RTSP
  hasPub : Bool := false
  pubCount : Nat := 0       -- publishers accepted so far
  bad : Option String := none

def Mon.fail (m : Mon) (why : String) : Mon := if m.bad.isSome then m else { m with bad := some why }

def Mon.req (m : Mon) (c : Bool) (why : String) : Mon := if c then m else m.fail why

def monStep (m : Mon) (st : Step) : Mon :=
  let p := m.prev
  let c := st.snap
  let name := st.ev.headD ""
  let sampling := name == "J" || name == "T" || name == "AS"
  let started := c.pulling && !p.pulling
  let m := m.req (!c.extra) "two-connections-to-one-peer"
  -- (a) an attempt starts only when the rule allows it
  let m :=
    if started then
      let m := m.req (c.static || c.api) "attempt-while-disabled"
      let m := m.req (!p.hasIn) "attempt-while-input-exists"
      let m := m.req (c.retry < 0 || (c.count : Int) ≤ c.retry + 1) "attempt-beyond-retry-budget"
      let m := m.req (c.auto < 0 || c.hasOut || (c.auto > 0 && st.t0 - m.lastHi < c.auto)) "attempt-without-consumer-in-window"
      let m := m.req sampling "attempt-from-unexpected-event"
      { m with stopped := false, since := m.since + 1 }
    else m
  -- (b) API answers
  let m :=
    if name == "AS" then
      let m := m.req ((st.res == "ok") == started) "api-start-answer-differs-from-what-happened"
      let m := m.req (st.res != "dup" || p.hasIn || p.pulling) "api-start-says-duplicate-without-input-or-attempt"
      let m := m.req (st.res != "lim" || (c.retry ≥ 0 && (c.count : Int) > c.retry)) "api-start-says-retry-limited-with-budget-left"
      -- the budget counts attempts since the last stop: a start after a stop is never refused for the attempts made before it
      m.req (st.res != "lim" || (c.retry ≥ 0 && (m.since : Int) > c.retry)) "api-start-says-retry-limited-although-stopped-since"
    else if name == "AX" then
      let m := m.req (!c.api) "api-stop-leaves-pull-enabled"
      let m := m.req ((st.res == "stopped") == (p.attached || p.wanted)) "api-stop-answer-differs-from-what-happened"
      let m := m.req (!c.attached && !c.wanted) "api-stop-leaves-a-session"
      let m := { m with since := 0 }
      if p.pulling then { m with stopped := true } else m
    else if name == "K" then
      let m := m.req (st.res != "1" || (!c.attached && !c.wanted && !c.api)) "kick-answered-done-but-session-stays"
      if st.res == "1" then { m with stopped := true, since := 0 } else m
    else m
  -- (c) an attempt that was stopped or kicked while connecting never attaches
  let m := if c.attached && !p.attached then
             (m.req (!m.stopped) "attached-after-stop").req (c.static || c.api) "attached-while-disabled"
           else m
  -- (d) auto stop on tick: exactly when the last consumer has been gone for the window
  let m :=
    if name == "T" && p.attached then
      -- "the last consumer has been gone": by the implementation's own view AND by the monitor's count of joins and leaves
      let gone := c.auto ≥ 0 && !p.hasOut && !c.hasOut && m.consumers == 0
      let m := m.req (!(gone && (c.auto == 0 || st.t0 - m.lastHi ≥ c.auto)) || !c.attached) "no-auto-stop-after-window"
      m.req (c.attached || (gone && (c.auto == 0 || st.t1 - m.lastLo ≥ c.auto))) "auto-stop-before-window"
    else m
  let m := if name == "J" then { m with consumers := m.consumers + 1 }
           else if name == "L" then { m with consumers := m.consumers - 1 } else m
  let m := if sampling && (c.hasOut || m.consumers > 0) then { m with lastLo := max m.lastLo st.t0, lastHi := max m.lastHi st.t1 } else m
  -- (e) publisher bookkeeping of the monitor
  let m :=
    if name == "P" && st.res == "ok" then
      { m with hasPub := true, pushSrc := (st.ev.getD 1 "") != "c", pubCount := m.pubCount + 1 }
    else if name == "p" && st.res == "ok" then { m with hasPub := false, pushSrc := false }
    else m
  -- (f) relay push
  let m := m.req (m.pushSrc || c.push.all (fun x => !x.2)) "push-session-without-publisher"
  let m :=
    if (name == "P" && st.res == "ok" && m.pushSrc) || (name == "T" && m.pushSrc) then
      m.req (c.push.all (·.1)) "target-without-push-attempt"
    else m
  let m := if name == "QA" && st.res.startsWith "att" && m.pubCount ≤ 1 then
             m.req (st.res.endsWith "true") "url-parameters-not-forwarded"
           else m
  { m with prev := c }

/-- the verdict on an observed history -/
def monitor (init : Snap) (steps : List Step) : String :=
  let m := steps.foldl monStep { prev := init }
  match m.bad with
  | some w => "bad:" ++ w
  | none => "ok"

end Lal.RelaySpec
