import LalModel.Model.Bytes
/-
  Reference readers written from the RFCs, independent of lal's unpackers:
    RFC 3550 §5.1   RTP fixed header, CSRC list, header extension (§5.3.1), padding
    RFC 6184 §5.6-5.8  H.264: single NAL unit packet, STAP-A, FU-A   (non-interleaved mode)
    RFC 7798 §4.4.1-4.4.3  H.265: single NAL unit packet, AP, FU   (sprop-max-don-diff = 0: no DONL/DOND)
    RFC 3640 §3.2.1, §3.3.6  mpeg4-generic AAC-hbr: sizeLength 13, indexLength 3, indexDeltaLength 3
  A depacketiser consumes the RTP payloads of one stream in sequence order and returns the NAL units /
  access units, or `none` when any payload is not what the RFC allows.
-/
namespace Lal.RtpSpec
open Lal

/-! ### RFC 3550 -/

structure Packet where
  marker  : Bool
  pt      : Nat
  seq     : Nat
  ts      : Nat
  ssrc    : Nat
  csrc    : List Nat
  payload : Bytes
deriving Repr, DecidableEq

def csrcList : Nat → Bytes → Option (List Nat × Bytes)
  | 0, b => some ([], b)
  | n+1, a :: b :: c :: d :: rest => (csrcList n rest).map fun r => (rd32 a b c d :: r.1, r.2)
  | _+1, _ => none

/-- V=2 | P | X | CC | M | PT | sequence number | timestamp | SSRC | CSRC* | [extension] | payload | [padding] -/
def parse (b : Bytes) : Option Packet :=
  match b with
  | v :: m :: s0 :: s1 :: t0 :: t1 :: t2 :: t3 :: c0 :: c1 :: c2 :: c3 :: rest =>
    if v.toNat / 64 ≠ 2 then none else
    match csrcList (v.toNat % 16) rest with
    | none => none
    | some (csrc, rest1) =>
      let afterExt : Option Bytes :=
        if v.toNat / 16 % 2 = 1 then
          match rest1 with
          | _ :: _ :: l0 :: l1 :: rest2 => if rest2.length < 4 * rd16 l0 l1 then none else some (rest2.drop (4 * rd16 l0 l1))
          | _ => none
        else some rest1
      match afterExt with
      | none => none
      | some body =>
        let payload : Option Bytes :=
          if v.toNat / 32 % 2 = 1 then
            match body.getLast? with
            | none => none
            | some n => if n.toNat = 0 ∨ n.toNat > body.length then none else some (body.take (body.length - n.toNat))
          else some body
        payload.map fun p =>
          { marker := m.toNat / 128 = 1, pt := m.toNat % 128, seq := rd16 s0 s1, ts := rd32 t0 t1 t2 t3,
            ssrc := rd32 c0 c1 c2 c3, csrc := csrc, payload := p }
  | _ => none

/-! ### aggregation units shared by STAP-A (RFC 6184 §5.7.1) and AP (RFC 7798 §4.4.2): `16-bit size, NAL unit` repeated -/

def aggUnits (minNal : Nat) : Nat → Bytes → Option (List Bytes)
  | _, [] => some []
  | 0, _ => none
  | _, [_] => none
  | fuel+1, a :: b :: rest =>
    let n := rd16 a b
    if n < minNal ∨ rest.length < n then none
    else (aggUnits minNal fuel (rest.drop n)).map fun r => rest.take n :: r

/-! ### RFC 6184 -/

/-- Reassembly state: the NAL unit under reassembly (its reconstructed header octet first). -/
abbrev Pending := Option Bytes

/-- One RTP payload. Result: new state and the NAL units completed by this payload. -/
def step6184 (pend : Pending) (p : Bytes) : Option (Pending × List Bytes) :=
  match p with
  | [] => none
  | h :: rest =>
    let t := h.toNat % 32
    if 1 ≤ t ∧ t ≤ 23 then
      -- single NAL unit packet: the payload is the NAL unit, header octet included
      if pend.isSome then none else some (none, [p])
    else if t = 24 then
      -- STAP-A
      if pend.isSome then none else
      match aggUnits 1 rest.length rest with
      | some (u :: us) => some (none, u :: us)
      | _ => none
    else if t = 28 then
      -- FU-A: FU indicator (F, NRI, 28), FU header (S, E, R, type), fragment
      match rest with
      | [] => none
      | fh :: frag =>
        let s := fh.toNat / 128 = 1
        let e := fh.toNat / 64 % 2 = 1
        let nalHdr := b8 (h.toNat / 32 * 32 + fh.toNat % 32)
        if s ∧ e then none
        else if s then
          if pend.isSome then none else some (some (nalHdr :: frag), [])
        else
          match pend with
          | some (h0 :: acc) =>
            if h0 ≠ nalHdr then none
            else if e then some (none, [h0 :: (acc ++ frag)])
            else some (some (h0 :: (acc ++ frag)), [])
          | _ => none
    else none

def run (step : Pending → Bytes → Option (Pending × List Bytes)) : Pending → List Bytes → Option (List Bytes)
  | pend, [] => if pend.isSome then none else some []
  | pend, p :: ps =>
    match step pend p with
    | none => none
    | some (pend', out) => (run step pend' ps).map fun r => out ++ r

/-- RFC 6184 depacketiser over the payloads of consecutive packets. -/
def depack6184 (payloads : List Bytes) : Option (List Bytes) := run step6184 none payloads

/-! ### RFC 7798 -/

/-- NAL unit header: F(1) Type(6) LayerId(6) TID(3). -/
structure HevcHdr where
  f       : Nat
  type    : Nat
  layerId : Nat
  tid     : Nat
deriving Repr, DecidableEq

def hevcHdr (b0 b1 : UInt8) : HevcHdr :=
  { f := b0.toNat / 128, type := b0.toNat / 2 % 64, layerId := b0.toNat % 2 * 32 + b1.toNat / 8, tid := b1.toNat % 8 }

def HevcHdr.bytes (h : HevcHdr) : Bytes :=
  [b8 (h.f * 128 + h.type * 2 + h.layerId / 32), b8 (h.layerId % 32 * 8 + h.tid)]

def step7798 (pend : Pending) (p : Bytes) : Option (Pending × List Bytes) :=
  match p with
  | b0 :: b1 :: rest =>
    let ph := hevcHdr b0 b1
    if ph.type < 48 then
      -- single NAL unit packet: PayloadHdr is the NAL unit header
      if pend.isSome then none else some (none, [p])
    else if ph.type = 48 then
      -- AP: two or more aggregation units
      if pend.isSome then none else
      match aggUnits 2 rest.length rest with
      | some (u :: v :: us) => some (none, u :: v :: us)
      | _ => none
    else if ph.type = 49 then
      -- FU: PayloadHdr (F, 49, LayerId, TID of the NAL unit), FU header (S, E, FuType), non-empty fragment
      match rest with
      | fh :: f0 :: frag =>
        let s := fh.toNat / 128 = 1
        let e := fh.toNat / 64 % 2 = 1
        let nalHdr := ({ ph with type := fh.toNat % 64 } : HevcHdr).bytes
        if s ∧ e then none
        else if s then
          if pend.isSome then none else some (some (nalHdr ++ f0 :: frag), [])
        else
          match pend with
          | some (h0 :: h1 :: acc) =>
            if [h0, h1] ≠ nalHdr then none
            else if e then some (none, [h0 :: h1 :: (acc ++ f0 :: frag)])
            else some (some (h0 :: h1 :: (acc ++ f0 :: frag)), [])
          | _ => none
      | _ => none
    else none
  | _ => none

def depack7798 (payloads : List Bytes) : Option (List Bytes) := run step7798 none payloads

/-! ### RFC 3640 (AAC-hbr) -/

/-- AU-headers: 13-bit AU-size, 3-bit AU-Index (first) / AU-Index-delta (others), all zero without interleaving. -/
def auHeaders : Nat → Bytes → Option (List Nat × Bytes)
  | 0, b => some ([], b)
  | n+1, a :: b :: rest =>
    if b.toNat % 8 ≠ 0 then none
    else (auHeaders n rest).map fun r => ((a.toNat * 256 + b.toNat) / 8 :: r.1, r.2)
  | _+1, _ => none

def splitAus : List Nat → Bytes → Option (List Bytes)
  | [], [] => some []
  | [], _ :: _ => none
  | n :: ns, b => if b.length < n then none else (splitAus ns (b.drop n)).map fun r => b.take n :: r

/-- Fragment state: (AU-size announced, bytes so far). -/
def step3640 (pend : Option (Nat × Bytes)) (p : Bytes) : Option (Option (Nat × Bytes) × List Bytes) :=
  match p with
  | l0 :: l1 :: rest =>
    let bits := rd16 l0 l1
    if bits = 0 ∨ bits % 16 ≠ 0 then none else
    match auHeaders (bits / 16) rest with
    | none => none
    | some (sizes, data) =>
      match pend, sizes with
      | none, [n] =>
        if data.length < n then (if data = [] then none else some (some (n, data), []))   -- first fragment
        else if data.length = n then some (none, [data]) else none
      | none, ns => (splitAus ns data).map fun aus => (none, aus)
      | some (total, acc), [n] =>
        if n ≠ total ∨ data = [] then none
        else if acc.length + data.length < total then some (some (total, acc ++ data), [])
        else if acc.length + data.length = total then some (none, [acc ++ data])
        else none
      | some _, _ => none
  | _ => none

def run3640 : Option (Nat × Bytes) → List Bytes → Option (List Bytes)
  | pend, [] => if pend.isSome then none else some []
  | pend, p :: ps =>
    match step3640 pend p with
    | none => none
    | some (pend', out) => (run3640 pend' ps).map fun r => out ++ r

def depack3640 (payloads : List Bytes) : Option (List Bytes) := run3640 none payloads

/-! ### jitter-buffer occupancy of an arrival order
  Packets are numbered 0, 1, 2, … in sending order and grouped into units (`lens` = packets per unit).
  A receiver that has seen the arrivals so far can have delivered every unit all of whose packets arrived,
  provided all earlier units were delivered; `s` is the sorted set of packets that arrived and are still
  waiting, `c` the number of packets delivered. `inWindow listMax` says that after every arrival fewer than
  `listMax` packets are waiting: the arrival order stays inside the reorder window. -/

def insertIdx (i : Nat) : List Nat → List Nat
  | [] => [i]
  | j :: r => if i = j then j :: r else if i < j then i :: j :: r else j :: insertIdx i r

/-- deliver whole units while the pending set starts with all indices of the next unit -/
def consume : List Nat → Nat → List Nat → List Nat × Nat × List Nat
  | [], c, s => ([], c, s)
  | len :: ls, c, s =>
    if s.take len = List.range' c len then consume ls (c + len) (s.drop len) else (len :: ls, c, s)

def inWindow (listMax : Nat) : List Nat → Nat → List Nat → List Nat → Bool
  | _, _, _, [] => true
  | lens, c, s, i :: order =>
    if i < c then inWindow listMax lens c s order else
    let r := consume lens c (insertIdx i s)
    r.2.2.length < listMax && inWindow listMax r.1 r.2.1 r.2.2 order

end Lal.RtpSpec
