import LalModel.Model.Bits
/-
  A specification-following H.264 sequence-parameter-set WRITER and the picture dimensions the
  specification assigns to its output — independent of lal's reader.

  ITU-T H.264 (ISO/IEC 14496-10):
    §7.3.1      NAL unit syntax, §7.4.1 emulation prevention (0x000003 before a byte ≤ 3 after two zero bytes)
    §7.3.2.1.1  seq_parameter_set_data( ), §7.3.2.1.1.1 scaling_list( )
    §7.3.2.11   rbsp_trailing_bits( )
    §E.1.1      vui_parameters( ) (aspect_ratio_info; the elements after it are carried opaquely as bits)
    §9.1        ue(v), se(v)
    §7.4.2.1.1  semantics: PicWidthInMbs, FrameHeightInMbs, ChromaArrayType, CropUnitX/Y, the cropping rectangle
-/
namespace Lal.SpsEnc
open Lal Lal.Bits

structure Vui where
  /-- aspect_ratio_idc, sar_width, sar_height (the latter two are written iff idc = 255 Extended_SAR) -/
  aspect : Option (Nat × Nat × Nat)
  /-- overscan_info_present_flag … bitstream_restriction: already encoded, irrelevant to the dimensions -/
  tail : List Bool
deriving Repr, DecidableEq

inductive Poc where
  | t0 (log2MaxPocLsbMinus4 : Nat)
  | t1 (deltaAlwaysZero : Bool) (offsetNonRef offsetTopToBottom : Int) (offsetsRefFrame : List Int)
  | t2
deriving Repr, DecidableEq

structure SpsParams where
  nalRefIdc : Nat                 -- 1..3 (an SPS NAL has nal_ref_idc ≠ 0)
  profileIdc : Nat
  constraintFlags : Nat           -- constraint_set0..5_flag + reserved_zero_2bits as one byte
  levelIdc : Nat
  spsId : Nat                     -- 0..31
  -- the following five are written only for the profiles of `hasChromaInfo`
  chromaFormatIdc : Nat           -- 0..3
  separateColourPlane : Bool      -- written only when chroma_format_idc = 3
  bitDepthLumaMinus8 : Nat
  bitDepthChromaMinus8 : Nat
  qpprimeYZeroTransformBypass : Bool
  /-- seq_scaling_matrix: per list `none` = seq_scaling_list_present_flag 0, else the delta_scale candidates
      (16 or 64; one is consumed per position while nextScale ≠ 0) -/
  scalingMatrix : Option (List (Option (List Int)))
  log2MaxFrameNumMinus4 : Nat
  poc : Poc
  maxNumRefFrames : Nat
  gapsInFrameNumAllowed : Bool
  picWidthInMbsMinus1 : Nat
  picHeightInMapUnitsMinus1 : Nat
  frameMbsOnly : Bool
  mbAdaptiveFrameField : Bool     -- written only when frame_mbs_only_flag = 0
  direct8x8Inference : Bool
  crop : Option (Nat × Nat × Nat × Nat)   -- left, right, top, bottom
  vui : Option Vui
deriving Repr, DecidableEq

/-- §7.3.2.1.1: the profile_idc values whose SPS carries chroma_format_idc … seq_scaling_matrix -/
def chromaProfiles : List Nat := [100, 110, 122, 244, 44, 83, 86, 118, 128, 138, 139, 134, 135]

def hasChromaInfo (p : SpsParams) : Bool := chromaProfiles.contains p.profileIdc

def flag (b : Bool) : List Bool := [b]

/-- §7.3.2.1.1.1 scaling_list: `ds` are the delta_scale values for the remaining positions -/
def scalingListBits : List Int → Nat → Nat → List Bool
  | [], _, _ => []
  | d :: ds, last, next =>
    if next ≠ 0 then
      let next' := (((last : Int) + d + 256) % 256).toNat
      seBits d ++ scalingListBits ds (if next' = 0 then last else next') next'
    else scalingListBits ds last next

def scalingMatrixBits (m : List (Option (List Int))) : List Bool :=
  m.flatMap fun l => match l with
    | none => [false]
    | some ds => true :: scalingListBits ds 8 8

def chromaBits (p : SpsParams) : List Bool :=
  if hasChromaInfo p then
    ueBits p.chromaFormatIdc
    ++ (if p.chromaFormatIdc = 3 then flag p.separateColourPlane else [])
    ++ ueBits p.bitDepthLumaMinus8 ++ ueBits p.bitDepthChromaMinus8
    ++ flag p.qpprimeYZeroTransformBypass
    ++ (match p.scalingMatrix with
        | none => [false]
        | some m => true :: scalingMatrixBits m)
  else []

def pocBits : Poc → List Bool
  | .t0 l => ueBits 0 ++ ueBits l
  | .t1 z a b offs => ueBits 1 ++ flag z ++ seBits a ++ seBits b ++ ueBits offs.length ++ offs.flatMap seBits
  | .t2 => ueBits 2

def dimsBits (p : SpsParams) : List Bool :=
  ueBits p.maxNumRefFrames ++ flag p.gapsInFrameNumAllowed
  ++ ueBits p.picWidthInMbsMinus1 ++ ueBits p.picHeightInMapUnitsMinus1
  ++ flag p.frameMbsOnly ++ (if p.frameMbsOnly then [] else flag p.mbAdaptiveFrameField)
  ++ flag p.direct8x8Inference

def cropBits (p : SpsParams) : List Bool :=
  match p.crop with
  | none => [false]
  | some (l, r, t, b) => true :: (ueBits l ++ ueBits r ++ ueBits t ++ ueBits b)

def vuiBits (p : SpsParams) : List Bool :=
  match p.vui with
  | none => [false]
  | some v =>
    true :: ((match v.aspect with
      | none => [false]
      | some (idc, w, h) => true :: (natBits 8 idc ++ (if idc = 255 then natBits 16 w ++ natBits 16 h else [])))
      ++ v.tail)

/-- seq_parameter_set_data( ) followed by the rbsp_stop_one_bit (alignment zeros are added by `packBits`) -/
def rbspBits (p : SpsParams) : List Bool :=
  natBits 8 p.profileIdc ++ natBits 8 p.constraintFlags ++ natBits 8 p.levelIdc ++ ueBits p.spsId
  ++ chromaBits p
  ++ ueBits p.log2MaxFrameNumMinus4 ++ pocBits p.poc
  ++ dimsBits p ++ cropBits p ++ vuiBits p
  ++ [true]

/-- §7.4.1: insert emulation_prevention_three_byte; `z` = number of zero bytes just written (0..2) -/
def escape : Bytes → Nat → Bytes
  | [], _ => []
  | b :: rest, z =>
    if z ≥ 2 ∧ b.toNat ≤ 3 then 3 :: b :: escape rest (if b = 0 then 1 else 0)
    else b :: escape rest (if b = 0 then z + 1 else 0)

/-- §7.4.1 decoding side: drop a 0x03 that follows two zero bytes -/
def unescape : Bytes → Nat → Bytes
  | [], _ => []
  | b :: rest, z =>
    if z ≥ 2 ∧ b = 3 then unescape rest 0
    else b :: unescape rest (if b = 0 then z + 1 else 0)

/-- the NAL unit: header (forbidden_zero_bit 0, nal_ref_idc, nal_unit_type 7) + escaped RBSP -/
def encSps (p : SpsParams) : Bytes :=
  b8 (p.nalRefIdc % 4 * 32 + 7) :: escape (packBits (rbspBits p)) 0

/- §7.4.2.1.1 -/
def chromaFormatOf (p : SpsParams) : Nat := if hasChromaInfo p then p.chromaFormatIdc else 1
def chromaArrayType (p : SpsParams) : Nat :=
  if hasChromaInfo p ∧ p.chromaFormatIdc = 3 ∧ p.separateColourPlane then 0 else chromaFormatOf p
/-- Table 6-1 -/
def subWidthC (cf : Nat) : Nat := if cf = 3 then 1 else 2
def subHeightC (cf : Nat) : Nat := if cf = 1 then 2 else 1
def frameMbsOnlyNat (p : SpsParams) : Nat := if p.frameMbsOnly then 1 else 0
def cropUnitX (p : SpsParams) : Nat := if chromaArrayType p = 0 then 1 else subWidthC (chromaFormatOf p)
def cropUnitY (p : SpsParams) : Nat :=
  if chromaArrayType p = 0 then 2 - frameMbsOnlyNat p else subHeightC (chromaFormatOf p) * (2 - frameMbsOnlyNat p)

def picWidthInSamplesL (p : SpsParams) : Nat := (p.picWidthInMbsMinus1 + 1) * 16
def frameHeightInSamplesL (p : SpsParams) : Nat := (2 - frameMbsOnlyNat p) * (p.picHeightInMapUnitsMinus1 + 1) * 16

/-- width and height of the frame cropping rectangle (the whole frame when frame_cropping_flag = 0) -/
def specDims (p : SpsParams) : Nat × Nat :=
  match p.crop with
  | none => (picWidthInSamplesL p, frameHeightInSamplesL p)
  | some (l, r, t, b) =>
    (picWidthInSamplesL p - cropUnitX p * (l + r), frameHeightInSamplesL p - cropUnitY p * (t + b))

def scalingListWF (i : Nat) : Option (List Int) → Prop
  | none => True
  | some ds => ds.length = (if i < 6 then 16 else 64) ∧ ∀ d ∈ ds, -128 ≤ d ∧ d ≤ 127

/-- The value ranges of §7.4.2.1.1 that the encoding relies on (every ue(v)/se(v) within 32 bits,
    cropping rectangle inside the picture, picture size within 32 bits). -/
structure SpsWF (p : SpsParams) : Prop where
  profile : p.profileIdc < 256
  cflags : p.constraintFlags < 256
  level : p.levelIdc < 256
  spsId : p.spsId < 32
  chroma : p.chromaFormatIdc ≤ 3
  bdl : p.bitDepthLumaMinus8 ≤ 6
  bdc : p.bitDepthChromaMinus8 ≤ 6
  scaling : ∀ m, p.scalingMatrix = some m →
    m.length = (if p.chromaFormatIdc = 3 then 12 else 8) ∧ ∀ i (h : i < m.length), scalingListWF i m[i]
  log2fn : p.log2MaxFrameNumMinus4 ≤ 12
  poc : match p.poc with
    | .t0 l => l ≤ 12
    | .t1 _ a b offs => offs.length ≤ 255 ∧ (-2147483647 ≤ a ∧ a ≤ 2147483647) ∧ (-2147483647 ≤ b ∧ b ≤ 2147483647)
        ∧ ∀ o ∈ offs, -2147483647 ≤ o ∧ o ≤ 2147483647
    | .t2 => True
  nref : p.maxNumRefFrames ≤ 16
  width : (p.picWidthInMbsMinus1 + 1) * 16 < 4294967296
  height : 2 * (p.picHeightInMapUnitsMinus1 + 1) * 16 < 4294967296
  crop : ∀ l r t b, p.crop = some (l, r, t, b) →
    cropUnitX p * (l + r) < picWidthInSamplesL p ∧ cropUnitY p * (t + b) < frameHeightInSamplesL p
  vui : ∀ v idc w h, p.vui = some v → v.aspect = some (idc, w, h) → idc < 256 ∧ w < 65536 ∧ h < 65536

end Lal.SpsEnc
