import LalModel.Model.AdmissionRun
/-
  C03 — the vocabulary of the property, written from its statement (not from the Go):
  what "the notifications about one session" are and which sequences of them are acceptable, which
  events are departures, which session a media event comes from, what a stat view lists.
-/
namespace Lal.Adm.Spec
open Lal.Adm

/-- the notifications about session `x`, in order -/
def proj (log : List Notif) (x : Sid) : List NKind := (log.filter (·.sid = x)).map (·.kind)

/-- "start/stop notifications are emitted exactly once per accepted network session, as matching pairs
    carrying the same session id; a relay-pull attempt reports exactly one stop, preceded by a start
    only if it attached": the acceptable per-session sequences -/
def Paired (l : List NKind) : Prop :=
  l = [] ∨ l = [.pubStart] ∨ l = [.pubStart, .pubStop] ∨ l = [.subStart] ∨ l = [.subStart, .subStop] ∨
  l = [.pullStart] ∨ l = [.pullStart, .pullStop] ∨ l = [.pullStop]

instance (l : List NKind) : Decidable (Paired l) := by unfold Paired; infer_instance

def startOf : RTyp → NKind
  | .sub => .subStart
  | _ => .pubStart
def stopOf : RTyp → NKind
  | .sub => .subStop
  | _ => .pubStop

/-- what the notifications about a session must be, given where the session is in its life: nothing for
    a session that was refused (or has not asked for anything yet), `start` for an accepted one,
    `start, stop` once it has gone; a relay-pull attempt: nothing while in flight, `start` once attached,
    and when it is over exactly one `stop`, preceded by `start` iff it had attached; customize and
    GB28181 publishers are never notified -/
def expect : Option Sess → List NKind
  | some (.rtmp r) =>
    if r.typ = .unknown ∨ r.flag = true then [] else startOf r.typ :: (if r.closed then [stopOf r.typ] else [])
  | some (.rtspPub p) => if p.accepted then .pubStart :: (if p.ended then [.pubStop] else []) else []
  | some (.rtspSub q) => if q.accepted then .subStart :: (if q.ended then [.subStop] else []) else []
  | some (.pull p) =>
    (match p.st with
     | .inflight => []
     | .attached => [.pullStart]
     | .done => (if p.wasAttached then [.pullStart] else []) ++ [.pullStop])
  | _ => []

/-- the accepted inputs of stream `st` (at most one, says the property) -/
def inputsAt (s : Srv) (st : Stream) : List Sid := ((s.groups st).map Grp.inputs).getD []

/-- the pipeline of stream `st`: `some key` while it runs -/
def pipeAt (s : Srv) (st : Stream) : Option (Option Sid) := (s.groups st).bind (·.hook)

/-- the session a media event comes from -/
def source (s : Srv) : Ev → Option Sid
  | .rMedia c => some c
  | .sMedia c => match s.sess c with
    | some (.rtspConn k) => k.pub
    | _ => none
  | .custFeed k => some k
  | .psMedia k => some k
  | .pullMedia a => some a
  | _ => none

/-- the sessions whose departure, failure or kick the event is -/
def leaving (s : Srv) : Ev → List Sid
  | .rClose c => [c]
  | .rPublish c _ _ => [c]          -- only when answered `closed` (second command)
  | .rPlay c _ _ _ => [c]
  | .sClose c | .sSetup c | .sPlay c _ | .sMedia c | .sAnnounce c _ _ _ | .sDescribe c _ _ _ =>
    (match s.sess c with
     | some (.rtspConn k) => k.pub.toList ++ k.sub.toList
     | _ => [])
  | .custDel k => [k]
  | .psEnd k => [k]
  | .pullDone a => [a]
  | .kick _ x => [x]
  | _ => []

/-- the event is the departure, failure or kick of the sessions `leaving` names: the connection-end
    events, and any command the server answers by closing the connection -/
def isDeparture (e : Ev) (r : Res) : Bool :=
  match e with
  | .rClose _ | .sClose _ | .custDel _ | .psEnd _ | .pullDone _ | .kick _ _ => true
  | _ => r == .closed

/-- the session ids a stat view shows -/
def statIds (v : Option Sid × Option Sid × List Sid) : List Sid := v.1.toList ++ v.2.1.toList ++ v.2.2

end Lal.Adm.Spec
