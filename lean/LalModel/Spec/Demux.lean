import LalModel.Spec.TsSpec
import LalModel.Spec.AnnexB
import LalModel.Spec.AudioSpec
import LalModel.Spec.RtpSpec
import LalModel.Spec.ConfigRecord
/-
  What "a standards-conforming demuxer recovers" means for C06, end to end — written from the standards,
  independent of lal's writers and of lal's own readers:

    transport stream  → the PES packets of one PID                     ISO/IEC 13818-1 §2.4.3 (Spec/TsSpec)
    video PES payload → NAL units                                      H.264 / H.265 Annex B byte stream (Spec/AnnexB)
    AAC PES payload   → ADTS frames (header fields + raw_data_block)   ISO/IEC 14496-3 §1.A.2 (Spec/AudioSpec)
    RTP packets       → access units of one payload type               RFC 3550, RFC 6184, RFC 7798, RFC 3640 (Spec/RtpSpec)

  and what the PUBLISHER sent, read from the RTMP messages by the container specifications:

    Adobe FLV v10.1 E.4.3 VIDEODATA / E.4.2 AUDIODATA, enhanced RTMP v1 (ExVideoTagHeader, FourCC 'hvc1'),
    ISO/IEC 14496-15 length-prefixed samples and decoder configuration records (Spec/ConfigRecord).
-/
namespace Lal.Demux
open Lal

/-! ### transport stream → PES packets of one PID -/

/-- the packets up to (not including) the next payload_unit_start, and what follows -/
def takeUnit : List (Bytes × Bool) → List Bytes × List (Bytes × Bool)
  | [] => ([], [])
  | (p, pusi) :: rest =>
    if pusi then ([], (p, pusi) :: rest) else
    let r := takeUnit rest
    (p :: r.1, r.2)

/-- The packets of one PID cut at every payload_unit_start_indicator: each piece is one PES packet
    (§2.4.3.3: the payload of a packet with the indicator set begins with the first byte of a PES packet).
    Packets before the first start belong to a PES packet the receiver did not see the beginning of and
    are discarded. (`fuel` = number of packets.) -/
def unitsF : Nat → List (Bytes × Bool) → List (List Bytes)
  | 0, _ => []
  | _, [] => []
  | fuel+1, (p, pusi) :: rest =>
    let r := takeUnit rest
    if pusi then (p :: r.1) :: unitsF fuel r.2 else unitsF fuel r.2

def units (l : List (Bytes × Bool)) : List (List Bytes) := unitsF l.length l

/-- every packet parsed, or `none` if one of them is not a transport packet -/
def parseAll : List Bytes → Option (List (Bytes × TsSpec.Packet))
  | [] => some []
  | p :: ps =>
    match TsSpec.parsePacket p, parseAll ps with
    | some q, some qs => some ((p, q) :: qs)
    | _, _ => none

def mapUnits : List (List Bytes) → Option (List TsSpec.Unit)
  | [] => some []
  | g :: gs =>
    match TsSpec.demuxUnit g, mapUnits gs with
    | some u, some us => some (u :: us)
    | _, _ => none

/-- All PES packets carried on `pid`, in order. `none`: a malformed transport packet anywhere in the stream, a
    continuity_counter that does not advance by one from one payload-carrying packet of the PID to the next, or a
    malformed PES packet. -/
def pidUnits (pid : Nat) (pkts : List Bytes) : Option (List TsSpec.Unit) :=
  match parseAll pkts with
  | none => none
  | some all =>
    let mine := all.filter (·.2.pid == pid)
    let contOk := match mine with
      | [] => true
      | x :: rest => TsSpec.ccChain x.2.cc (rest.map (·.2))
    if !contOk then none
    else mapUnits (units (mine.map fun x => (x.1, x.2.pusi)))

/-- the PIDs that carry anything, other than `known` -/
def strayPids (known : List Nat) (pkts : List Bytes) : List Nat :=
  match parseAll pkts with
  | none => []
  | some all => ((all.map (·.2.pid)).filter (fun p => !known.contains p)).eraseDups

/-- PAT + PMT as the first two packets of a consumer's stream: the program's streams -/
def program (patpmt : Bytes) : Option TsSpec.PmtInfo :=
  if patpmt.length ≠ 376 then none else
  match TsSpec.readPat (patpmt.take 188), TsSpec.readPmt (patpmt.drop 188) with
  | some pat, some pmt => if pat.programs.contains (pmt.program, pmt.pid) then some pmt else none
  | _, _ => none

/-! ### elementary streams -/

/-- one video access unit as the decoder gets it -/
structure VideoAu where
  dts  : Nat
  pts  : Nat
  rai  : Bool
  nals : List Bytes
deriving Repr, DecidableEq

def videoAu (u : TsSpec.Unit) : Option VideoAu :=
  match u.pes.dts, u.pes.pts, AnnexB.read u.pes.data with
  | some d, some p, some ns => some { dts := d, pts := p, rai := u.rai, nals := ns }
  | _, _, _ => none

def videoAus : List TsSpec.Unit → Option (List VideoAu)
  | [] => some []
  | u :: us =>
    match videoAu u, videoAus us with
    | some a, some as => some (a :: as)
    | _, _ => none

/-- ADTS frames of an AAC PES payload: (header, raw data block bytes). adts_frame = fixed + variable header
    (7 bytes, or 9 with the CRC when protection_absent = 0), `aac_frame_length` counts the header. -/
def adtsFrames : Nat → Bytes → Option (List (AudioSpec.Adts × Bytes))
  | _, [] => some []
  | 0, _ :: _ => none
  | fuel+1, b =>
    match AudioSpec.readAdts b with
    | none => none
    | some h =>
      let hl := if h.protectionAbsent = 1 then 7 else 9
      if h.frameLength < hl ∨ b.length < h.frameLength then none
      else (adtsFrames fuel (b.drop h.frameLength)).map fun r => (h, (b.take h.frameLength).drop hl) :: r

structure AudioPes where
  pts    : Nat
  frames : List (AudioSpec.Adts × Bytes)
deriving Repr, DecidableEq

def aacPes (u : TsSpec.Unit) : Option AudioPes :=
  match u.pes.pts, adtsFrames u.pes.data.length u.pes.data with
  | some p, some fs => some { pts := p, frames := fs }
  | _, _ => none

def aacPess : List TsSpec.Unit → Option (List AudioPes)
  | [] => some []
  | u :: us =>
    match aacPes u, aacPess us with
    | some a, some as => some (a :: as)
    | _, _ => none

/-! ### RTP → access units of one stream -/

/-- the packets up to and including the first one with the marker bit (RFC 6184 §5.1 / RFC 7798 §4.1 / RFC 3640 §3.1:
    the marker bit is set on the last packet of an access unit), and the rest -/
def takeAu : List RtpSpec.Packet → List RtpSpec.Packet × List RtpSpec.Packet
  | [] => ([], [])
  | p :: rest => if p.marker then ([p], rest) else let r := takeAu rest; (p :: r.1, r.2)

structure RtpAu where
  ts    : Nat
  units : List Bytes
deriving Repr, DecidableEq

inductive RtpKind where
  | avc | hevc | aac | raw
deriving Repr, DecidableEq

def depack (k : RtpKind) (payloads : List Bytes) : Option (List Bytes) :=
  match k with
  | .avc => RtpSpec.depack6184 payloads
  | .hevc => RtpSpec.depack7798 payloads
  | .aac => RtpSpec.depack3640 payloads
  | .raw => if payloads.any (·.isEmpty) then none else some payloads

/-- Access units of one RTP stream (one SSRC / payload type), packets in sequence order. Every access unit ends
    with a marker packet, all its packets carry the same timestamp, fragmentation never crosses an access unit.
    (`fuel` = number of packets.) -/
def rtpAusF (k : RtpKind) : Nat → List RtpSpec.Packet → Option (List RtpAu)
  | _, [] => some []
  | 0, _ :: _ => none
  | fuel+1, p :: rest =>
    let r := takeAu (p :: rest)
    if !(r.1.getLast?.map (·.marker)).getD false then none          -- stream ends inside an access unit
    else if r.1.any (·.ts != p.ts) then none
    else
      match depack k (r.1.map (·.payload)), rtpAusF k fuel r.2 with
      | some us, some t => some ({ ts := p.ts, units := us } :: t)
      | _, _ => none

def rtpAus (k : RtpKind) (l : List RtpSpec.Packet) : Option (List RtpAu) := rtpAusF k l.length l

/-- sequence numbers advance by one (mod 2^16) -/
def seqChain : List RtpSpec.Packet → Bool
  | [] => true
  | [_] => true
  | a :: b :: rest => b.seq == (a.seq + 1) % 65536 && seqChain (b :: rest)

end Lal.Demux

/-! ## The publisher's side -/
namespace Lal.Publish
open Lal

inductive VCodec where
  | avc | hevc
deriving Repr, DecidableEq

inductive VKind where
  | seqHeader | frame | other
deriving Repr, DecidableEq

/-- a VIDEODATA tag body, classic (E.4.3.1; CodecID 7 = AVC, 12 = HEVC by the widespread convention) or enhanced RTMP
    (bit 7 of the first byte set: frame type (3 bits), packet type (4 bits), FourCC) -/
structure VideoTag where
  codec : VCodec
  key   : Bool
  kind  : VKind
  cts   : Nat
  body  : Bytes
deriving Repr, DecidableEq

def videoTag (p : Bytes) : Option VideoTag :=
  match p with
  | b0 :: b1 :: b2 :: b3 :: b4 :: rest =>
    if b0.toNat / 128 = 1 then
      if [b1, b2, b3, b4] ≠ [0x68, 0x76, 0x63, 0x31] then none else
      let key := b0.toNat / 16 % 8 = 1
      let pt := b0.toNat % 16
      if pt = 0 then some { codec := .hevc, key := key, kind := .seqHeader, cts := 0, body := rest }
      else if pt = 1 then
        match rest with
        | c0 :: c1 :: c2 :: body => some { codec := .hevc, key := key, kind := .frame, cts := rd24 c0 c1 c2, body := body }
        | _ => none
      else if pt = 3 then some { codec := .hevc, key := key, kind := .frame, cts := 0, body := rest }
      else some { codec := .hevc, key := key, kind := .other, cts := 0, body := rest }
    else
      let codec := b0.toNat % 16
      if codec ≠ 7 ∧ codec ≠ 12 then none else
      some { codec := if codec = 7 then .avc else .hevc, key := b0.toNat / 16 = 1,
             kind := if b1 = 0 then .seqHeader else if b1 = 1 then .frame else .other,
             cts := rd24 b2 b3 b4, body := rest }
  | _ => none

/-- NAL unit type: H.264 §7.3.1 `nal_unit_type` (5 bits), H.265 §7.3.1.2 (6 bits after the forbidden bit) -/
def nalType (c : VCodec) (n : Bytes) : Nat :=
  match c, n with
  | .avc, h :: _ => h.toNat % 32
  | .hevc, h :: _ => h.toNat / 2 % 64
  | _, [] => 255

def isAud (c : VCodec) (n : Bytes) : Bool := match c with | .avc => nalType c n == 9 | .hevc => nalType c n == 35
def isSps (c : VCodec) (n : Bytes) : Bool := match c with | .avc => nalType c n == 7 | .hevc => nalType c n == 33
def isPps (c : VCodec) (n : Bytes) : Bool := match c with | .avc => nalType c n == 8 | .hevc => nalType c n == 34
def isVps (c : VCodec) (n : Bytes) : Bool := match c with | .avc => false | .hevc => nalType c n == 32
def isSei (c : VCodec) (n : Bytes) : Bool := match c with | .avc => nalType c n == 6 | .hevc => nalType c n == 39 || nalType c n == 40
def isParamSet (c : VCodec) (n : Bytes) : Bool := isSps c n || isPps c n || isVps c n

/-- THE NORMALISATION of C06 for the transport stream: what may differ between the published access unit and the one
    recovered from TS / HLS — access unit delimiters, parameter sets (re-inserted before key frames), H.265 SEI. -/
def normTs (c : VCodec) (nals : List Bytes) : List Bytes :=
  nals.filter fun n => !(isAud c n || isParamSet c n || (c == .hevc && isSei c n))

/-- the units that are never forwarded to TS: access unit delimiters (the remuxer writes its own) and H.265 SEI -/
def skipped (c : VCodec) (n : Bytes) : Bool := isAud c n || (c == .hevc && isSei c n)

/-- an access unit of which something is forwarded: one that has a unit other than AUD / H.265 SEI. The others
    (e.g. a message carrying only an SEI) produce no PES packet. -/
def forwards (c : VCodec) (nals : List Bytes) : Bool := nals.any fun n => !skipped c n

/-- …and for RTP: access unit delimiters only. -/
def normRtp (c : VCodec) (nals : List Bytes) : List Bytes := nals.filter fun n => !isAud c n

/-- the decoder's active parameter sets after a run of NAL units -/
structure ParamSets where
  vps : Option Bytes := none
  sps : Option Bytes := none
  pps : Option Bytes := none
deriving Repr, DecidableEq

def ParamSets.feed (c : VCodec) (s : ParamSets) (n : Bytes) : ParamSets :=
  if isVps c n then { s with vps := some n } else if isSps c n then { s with sps := some n }
  else if isPps c n then { s with pps := some n } else s

/-- the parameter sets a sequence header message carries (single SPS / PPS / VPS, as encoders send them) -/
def seqHeaderSets (t : VideoTag) (payload : Bytes) : Option ParamSets :=
  match t.codec with
  | .avc =>
    match ConfigRecord.avcC t.body with
    | some (r, _) => (match r.sps, r.pps with | [s], [p] => some { sps := some s, pps := some p } | _, _ => none)
    | none => none
  | .hevc =>
    let _ := payload
    match ConfigRecord.hvcC t.body with
    | some r => (match r.ofType 32, r.ofType 33, r.ofType 34 with
                 | [v], [s], [p] => some { vps := some v, sps := some s, pps := some p } | _, _, _ => none)
    | none => none

/-- an AUDIODATA tag body: SoundFormat (4 bits); AAC (10) has the AACPacketType byte -/
inductive ATag where
  | aacConfig (asc : Bytes)
  | aacRaw (frame : Bytes)
  | opus (pkt : Bytes)
  | g711 (alaw : Bool) (samples : Bytes)
  | other
deriving Repr, DecidableEq

def audioTag (p : Bytes) : ATag :=
  match p with
  | b0 :: rest =>
    let f := b0.toNat / 16
    if f = 10 then
      match rest with
      | 0 :: asc => .aacConfig asc
      | 1 :: raw => .aacRaw raw
      | _ => .other
    else if f = 13 then .opus rest
    else if f = 7 then .g711 true rest
    else if f = 8 then .g711 false rest
    else .other
  | [] => .other

end Lal.Publish
