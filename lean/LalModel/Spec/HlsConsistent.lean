import LalModel.Model.Hls
/-
  C10's property, stated over the directory alone — no reference to the muxer's functions or state.

  An observer (an HLS client, or whoever inspects the directory after a crash) sees the directory after every
  file-system operation. `Obs` is what it can remember: the directory now and the successive versions of the live
  playlist it has seen (newest first; forgotten when the playlist disappears). `Good` is the property at one instant,
  `AllGood o ops` says it holds at every instant while `ops` are performed one by one.

  Durations are 90 kHz ticks; "rounded to the nearest second" is `nearestSec`.
-/
namespace Lal.HlsC
open Lal Lal.Hls Lal.Fs

structure Obs where
  dir      : Dir := Fs.empty
  versions : List Playlist := []

def Obs.step (o : Obs) (op : FOp) : Obs :=
  let d := Fs.apply under o.dir op
  { dir := d
    versions := match d .live with
      | none => []
      | some f => match f.content with
        | .doc pl => if o.versions.head? = some pl then o.versions else pl :: o.versions
        | .data _ => o.versions }

def Obs.run (o : Obs) (ops : List FOp) : Obs := ops.foldl Obs.step o

/-- seconds, rounded to the nearest integer (half up), of a duration in ticks -/
def nearestSec (t : Nat) : Nat := (2 * t + 90000) / 180000

def hasVideo (fs : List Frame) : Prop := ∃ f ∈ fs, f.audio = false
def noVideoIn (fs : List Frame) : Prop := ∀ f ∈ fs, f.audio = true

/-- the first video frame, if there is one, is a key frame -/
def firstVideoKey : List Frame → Prop
  | [] => True
  | f :: fs => if f.audio then firstVideoKey fs else f.key = true

/-- A segment file: PAT/PMT (a byte string the source delivered, `PP`), then the packets of whole frames, each a
    whole number of 188-byte packets; unless the segment was opened by a discontinuity its first video frame is a key frame. -/
def SegOk (PP : Bytes → Prop) (discont : Bool) (chunks : List Chunk) : Prop :=
  ∃ pp fs, chunks = .patpmt pp :: fs.map .frame ∧ PP pp ∧ (∀ f ∈ fs, f.pkts.length % 188 = 0) ∧
    (discont = false → firstVideoKey fs)

/-- Entry number `i` of a playlist with media sequence `s` is segment number `s + i` (its file name carries that
    number), its rounded duration does not exceed the target duration, its file is present, closed and well formed. -/
def EntryOk (PP : Bytes → Prop) (d : Dir) (target seqNo : Nat) (e : Entry) : Prop :=
  nearestSec e.dur ≤ target ∧
  ∃ now chunks, e.name = some (now, seqNo) ∧ d (.seg now seqNo) = some { content := .data chunks, isOpen := false } ∧
    SegOk PP e.discont chunks

def EntriesOk (PP : Bytes → Prop) (d : Dir) (target : Nat) : Nat → List Entry → Prop
  | _, [] => True
  | s, e :: es => EntryOk PP d target s e ∧ EntriesOk PP d target (s + 1) es

def VersionOk (PP : Bytes → Prop) (d : Dir) (v : Playlist) : Prop := EntriesOk PP d v.target v.mediaSeq v.entries

/-- first sequence number after the playlist's window -/
def _root_.Lal.Hls.Playlist.fin (v : Playlist) : Nat := v.mediaSeq + v.entries.length

/-- The property at one instant. `delThr` = `delete_threshold`. -/
structure Good (PP : Bytes → Prop) (delThr : Nat) (o : Obs) : Prop where
  /-- the live playlist, if present, is a complete document (never a file being written) and is the newest version -/
  live_doc : ∀ f, o.dir .live = some f → ∃ pl, f = { content := .doc pl, isOpen := false } ∧ o.versions.head? = some pl
  live_none : o.dir .live = none → o.versions = []
  /-- the current and the previous `delete_threshold` versions: every listed segment is present and well formed -/
  recent : ∀ v ∈ o.versions.take (delThr + 1), VersionOk PP o.dir v
  /-- across versions the media sequence number (and the end of the window) never decreases -/
  mono : o.versions.Pairwise fun newer older => older.mediaSeq ≤ newer.mediaSeq ∧ older.fin ≤ newer.fin

/-- `Good` after each of `ops`, performed one at a time from `o` (and at `o` itself). -/
def AllGood (PP : Bytes → Prop) (delThr : Nat) : Obs → List FOp → Prop
  | o, [] => Good PP delThr o
  | o, op :: ops => Good PP delThr o ∧ AllGood PP delThr (o.step op) ops

end Lal.HlsC

/-! ### Segments partition the packets

  The observer's log of segment files — every file ever created (also those deleted since), newest first, with the
  frames appended to it; an append to any file other than the newest one is LOST by this log. `accepted` is what must be
  in the segments: per publish, nothing before the first fragment opens, afterwards every frame handed to the muxer in
  order, the audio the remuxer had cached being handed over (once) by the call that opens a fragment. -/
namespace Lal.HlsC
open Lal Lal.Hls Lal.Fs

structure SegLog where
  segs : List (Path × List Frame) := []

def SegLog.step (s : SegLog) : FOp → SegLog
  | .create p => { segs := (p, []) :: s.segs }
  | .write p (.frame f) =>
    match s.segs with
    | (q, fs) :: rest => if q = p then { segs := (q, fs ++ [f]) :: rest } else s
    | [] => s
  | _ => s

def SegLog.run (s : SegLog) (ops : List FOp) : SegLog := ops.foldl SegLog.step s

/-- all frames in the segment files, in the order of the files -/
def SegLog.frames (s : SegLog) : List Frame := s.segs.reverse.flatMap (·.2)

def hasCreate (ops : List FOp) : Bool := ops.any fun op => match op with
  | .create _ => true
  | _ => false

structure AccState where
  alive  : Bool := false
  opened : Bool := false
  pend   : Option Frame := none

/-- the frames one event adds to what must be in the segments; `g` = the operations of that event -/
def accStep (st : AccState) (e : Ev) (g : List FOp) : AccState × List Frame :=
  match e with
  | .start => (if st.alive then st else { alive := true, opened := false, pend := none }, [])
  | .patpmt _ => (st, [])
  | .pend a => ({ st with pend := some a }, [])
  | .feed f _ =>
    if !st.alive then (st, []) else
    let opened' := st.opened || f.boundary
    ({ st with opened := opened', pend := if hasCreate g then none else st.pend },
     (if hasCreate g then st.pend.toList else []) ++ (if opened' then [f] else []))
  | .dispose => ({ st with alive := false, opened := false }, [])
  | .cleanup => (st, [])

def accepted : AccState → List Ev → List (List FOp) → List Frame
  | st, e :: es, g :: gs => (accStep st e g).2 ++ accepted (accStep st e g).1 es gs
  | _, _, _ => []

end Lal.HlsC

/-! ### The record playlist lists every segment -/
namespace Lal.HlsC
open Lal Lal.Hls Lal.Fs

/-- file names listed in the record playlist, in order -/
def recordNames (d : Dir) : List (Option (Nat × Nat)) :=
  match d .record with
  | some { content := .doc pl, .. } => pl.entries.map (·.name)
  | _ => []

/-- the segment files closed since the directory was last wiped, oldest first — read off the operation log -/
def logStep (log : List (Nat × Nat)) : FOp → List (Nat × Nat)
  | .close (.seg now id) => log ++ [(now, id)]
  | .removeAll _ => []
  | _ => log

def closedLog (log : List (Nat × Nat)) (ops : List FOp) : List (Nat × Nat) := ops.foldl logStep log

end Lal.HlsC
