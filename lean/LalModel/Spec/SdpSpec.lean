import LalModel.Model.Bytes
/-
  An SDP reader written from the RFCs, independent of lal's pkg/sdp parser:
    RFC 4566 §5     <type>=<value> lines ending in CRLF; session part, then media descriptions starting at m=
             §5.14  m=<media> <port> <proto> <fmt> ...
             §6     a=rtpmap:<payload type> <encoding name>/<clock rate>[/<encoding parameters>]
                    a=fmtp:<format> <format specific parameters>
    RFC 2326 C.1.1  a=control:<url>
    RFC 6184 §8.1   H264 fmtp: `;`-separated name=value; sprop-parameter-sets = comma-separated base64 NAL units
    RFC 7798 §7.1   H265 fmtp: sprop-vps, sprop-sps, sprop-pps, each a comma-separated base64 list
    RFC 3640 §4.1   MPEG4-GENERIC fmtp: config = hexadecimal AudioSpecificConfig
  base64 / hex decoding are parameters (the same law-carrying parameters the model uses).
  The reader is strict: an attribute it interprets must be well-formed, an rtpmap / fmtp must refer to a
  format listed in its m= line.
-/
namespace Lal.SdpSpec

def ch (c : Char) : UInt8 := UInt8.ofNat c.toNat
def str (s : String) : Bytes := s.toList.map ch

/-- split at every occurrence of the byte -/
def fields (sep : UInt8) (s : Bytes) : List Bytes :=
  (s.foldr (fun x (acc : List Bytes) =>
    if x = sep then [] :: acc else match acc with
      | cur :: rest => (x :: cur) :: rest
      | [] => [[x]]) [[]])

/-- the text before / after the first occurrence -/
def before (sep : UInt8) (s : Bytes) : Bytes := s.takeWhile (· != sep)
def after (sep : UInt8) (s : Bytes) : Option Bytes :=
  match s.dropWhile (· != sep) with
  | _ :: r => some r
  | [] => none

/-- lines: every line ends in CRLF (§5); `none` when the text does not -/
def crlfLines : Bytes → Bytes → Option (List Bytes)
  | [], [] => some []
  | [], _ :: _ => none
  | 13 :: 10 :: rest, cur => (crlfLines rest []).map (cur.reverse :: ·)
  | x :: rest, cur => crlfLines rest (x :: cur)

def decimal (s : Bytes) : Option Nat :=
  if s.isEmpty ∨ ¬ s.all (fun x => 48 ≤ x.toNat ∧ x.toNat ≤ 57) then none
  else some (s.foldl (fun a x => a * 10 + (x.toNat - 48)) 0)

def strip (s : Bytes) : Bytes :=
  let sp := fun (x : UInt8) => x == 32 || x == 9
  ((s.dropWhile sp).reverse.dropWhile sp).reverse

structure RtpMap where
  pt : Nat
  encoding : Bytes
  clockRate : Nat
  params : Option Bytes
deriving Repr, DecidableEq

structure Media where
  media : Bytes
  port : Bytes
  proto : Bytes
  fmts : List Nat
  rtpmaps : List RtpMap := []
  fmtps : List (Nat × List (Bytes × Bytes)) := []
  control : Option Bytes := none
deriving Repr, DecidableEq

def readM (v : Bytes) : Option Media :=
  match fields 32 v with
  | media :: port :: proto :: fmts =>
    if fmts.isEmpty then none else
    (fmts.mapM decimal).map fun f => { media := media, port := port, proto := proto, fmts := f }
  | _ => none

def readRtpMap (v : Bytes) : Option RtpMap :=
  match decimal (before 32 v), after 32 v with
  | some pt, some r =>
    match fields 47 r with
    | [enc, rate] => (decimal rate).map fun cr => { pt := pt, encoding := enc, clockRate := cr, params := none }
    | [enc, rate, p] => (decimal rate).map fun cr => { pt := pt, encoding := enc, clockRate := cr, params := some p }
    | _ => none
  | _, _ => none

/-- one `name=value` item, surrounding blanks ignored -/
def readParam (item : Bytes) : Option (Bytes × Bytes) :=
  let item := strip item
  match after 61 item with
  | some value => some (before 61 item, value)
  | none => none

/-- `name=value` items separated by `;` -/
def readFmtp (v : Bytes) : Option (Nat × List (Bytes × Bytes)) :=
  match decimal (before 32 v), after 32 v with
  | some f, some r => ((fields 59 r).mapM readParam).map fun ps => (f, ps)
  | _, _ => none

/-- one `a=` line inside a media description -/
def addAttr (m : Media) (v : Bytes) : Option Media :=
  let name := before 58 v
  if name = str "rtpmap" then
    match (after 58 v).bind readRtpMap with
    | some r => if m.fmts.contains r.pt then some { m with rtpmaps := m.rtpmaps ++ [r] } else none
    | none => none
  else if name = str "fmtp" then
    match (after 58 v).bind readFmtp with
    | some f => if m.fmts.contains f.1 then some { m with fmtps := m.fmtps ++ [f] } else none
    | none => none
  else if name = str "control" then
    match after 58 v with
    | some u => some { m with control := some u }
    | none => none
  else some m

def mediaLoop : List Bytes → List Media → Option Media → Option (List Media)
  | [], done, cur => some (match cur with | some m => (m :: done).reverse | none => done.reverse)
  | l :: rest, done, cur =>
    match l with
    | t :: 61 :: v =>
      if t = ch 'm' then
        match readM v with
        | some m => mediaLoop rest (match cur with | some c => c :: done | none => done) (some m)
        | none => none
      else if t = ch 'a' then
        match cur with
        | some m => match addAttr m v with
          | some m' => mediaLoop rest done (some m')
          | none => none
        | none => mediaLoop rest done none          -- session-level attribute
      else mediaLoop rest done cur
    | _ => none                                     -- not <type>=<value>

/-- the media descriptions of an SDP; the first line must be `v=0` -/
def read (b : Bytes) : Option (List Media) :=
  match crlfLines b [] with
  | some (first :: rest) => if first = str "v=0" then mediaLoop rest [] none else none
  | _ => none

/-- what a receiver learns about one media stream -/
structure Stream where
  media : Bytes
  pt : Nat
  encoding : Bytes
  clockRate : Nat
  encParams : Option Bytes
  control : Option Bytes
  params : List (Bytes × Bytes)
deriving Repr, DecidableEq

/-- the stream of a media description with a single format that has an rtpmap -/
def Media.stream (m : Media) : Option Stream :=
  match m.fmts with
  | [pt] =>
    match m.rtpmaps.find? (·.pt = pt) with
    | some r => some { media := m.media, pt := pt, encoding := r.encoding, clockRate := r.clockRate, encParams := r.params,
                       control := m.control, params := ((m.fmtps.find? (·.1 = pt)).map (·.2)).getD [] }
    | none =>
      -- RFC 3551 table 4: static payload types need no rtpmap (0 = PCMU/8000, 8 = PCMA/8000)
      if m.media = str "audio" ∧ (pt = 0 ∨ pt = 8) then
        some { media := m.media, pt := pt, encoding := (if pt = 0 then str "PCMU" else str "PCMA"), clockRate := 8000,
               encParams := none, control := m.control, params := [] }
      else none
  | _ => none

def Stream.param (s : Stream) (k : String) : Option Bytes := (s.params.find? (·.1 = str k)).map (·.2)

/-- comma-separated base64 list -/
def b64List (dec : Bytes → Bytes × Bool) (v : Bytes) : Option (List Bytes) :=
  (fields 44 v).mapM fun x => let (b, ok) := dec x; if ok then some b else none

/-- RFC 6184 sprop-parameter-sets -/
def Stream.h264Sets (s : Stream) (dec : Bytes → Bytes × Bool) : Option (List Bytes) :=
  (s.param "sprop-parameter-sets").bind (b64List dec)

/-- RFC 7798 sprop-vps / sprop-sps / sprop-pps -/
def Stream.h265Sets (s : Stream) (dec : Bytes → Bytes × Bool) : Option (List Bytes × List Bytes × List Bytes) := do
  let v ← (s.param "sprop-vps").bind (b64List dec)
  let sp ← (s.param "sprop-sps").bind (b64List dec)
  let p ← (s.param "sprop-pps").bind (b64List dec)
  pure (v, sp, p)

/-- RFC 3640 config -/
def Stream.aacConfig (s : Stream) (dec : Bytes → Bytes × Bool) : Option Bytes :=
  (s.param "config").bind fun v => let (b, ok) := dec v; if ok then some b else none

end Lal.SdpSpec
