import LalModel.Spec.Demux
import LalModel.Model.TsRmx
/-
  The publisher's side as a WRITER: the elements of a publish (decoder configurations, access units, audio frames)
  and the RTMP messages that carry them, written from Adobe FLV v10.1 Annex E.4.2 / E.4.3, ISO/IEC 14496-15 (decoder
  configuration records, length-prefixed samples) and ISO/IEC 14496-3 (AudioSpecificConfig). The theorems of C06 are
  stated for `render`ed elements, so that what goes in is known by construction; `Publish.videoTag` / `audioTag`
  (Spec/Demux.lean) are the matching readers.
  (`TsRmx.Msg` is only the triple message type id / timestamp / payload.)
-/
namespace Lal.Publish
open Lal

/-- ISO/IEC 14496-15 sample with 4-byte lengths: every NAL unit behind its length -/
def sample (nals : List Bytes) : Bytes := nals.flatMap fun n => be32 n.length ++ n

/-- one element of a publish -/
inductive Elem where
  /-- AVCDecoderConfigurationRecord with one SPS and one PPS (`profile`, `level`: AVCProfileIndication, AVCLevelIndication) -/
  | avcConfig (profile level : UInt8) (sps pps : Bytes)
  /-- HEVCDecoderConfigurationRecord with one VPS, SPS, PPS (`general`: the 22 bytes before numOfArrays) -/
  | hevcConfig (general : Bytes) (vps sps pps : Bytes)
  /-- one access unit: decoding time (ms), composition offset (ms), key frame flag, NAL units -/
  | video (ts cts : Nat) (key : Bool) (nals : List Bytes)
  /-- AudioSpecificConfig: object type, sampling frequency index, channel configuration -/
  | aacConfig (objType sfi ch : Nat)
  | aacFrame (ts : Nat) (frame : Bytes)
  | opus (ts : Nat) (pkt : Bytes)
deriving Repr, DecidableEq

/-- the RTMP message that carries the element (`c`: the video codec of the publish) -/
def render (c : VCodec) : Elem → TsRmx.Msg
  | .avcConfig x y sps pps =>
    { typ := 9, ts := 0,
      payload := [0x17, 0, 0, 0, 0, 1, x, 0, y, 0xFF, 0xE1] ++ be16 sps.length ++ sps ++ [1] ++ be16 pps.length ++ pps }
  | .hevcConfig g vps sps pps =>
    { typ := 9, ts := 0,
      payload := [0x1c, 0, 0, 0, 0] ++ g ++ [3] ++ ([32, 0, 1] ++ be16 vps.length ++ vps) ++ ([33, 0, 1] ++ be16 sps.length ++ sps)
                   ++ ([34, 0, 1] ++ be16 pps.length ++ pps) }
  | .video ts cts key nals =>
    let b0 : UInt8 := match c, key with
      | .avc, true => 0x17 | .avc, false => 0x27 | .hevc, true => 0x1c | .hevc, false => 0x2c
    { typ := 9, ts := ts, payload := [b0, 1] ++ be24 cts ++ sample nals }
  | .aacConfig o s ch =>
    { typ := 8, ts := 0, payload := [0xaf, 0, b8 (o * 8 + s / 2), b8 (s % 2 * 128 + ch * 8)] }
  | .aacFrame ts f => { typ := 8, ts := ts, payload := [0xaf, 1] ++ f }
  | .opus ts p => { typ := 8, ts := ts, payload := 0xdf :: p }

/-- What emulation prevention (H.264 / H.265 §7.4.1) guarantees of a NAL unit: non-empty, no `00 00 00` / `00 00 01`
    inside, last byte non-zero. -/
def nalOK (n : Bytes) : Bool :=
  let rec noSc : Bytes → Bool
    | [] => true
    | x :: rest => (match x, rest with
                    | 0, 0 :: y :: _ => !(y == 0 || y == 1)
                    | _, _ => true) && noSc rest
  !n.isEmpty && noSc n && n.getLast? != some 0

/-- well-formed elements of a publish with video codec `c` -/
def ElemWF (c : VCodec) : Elem → Prop
  | .avcConfig _ _ sps pps =>
    c = .avc ∧ nalOK sps = true ∧ nalOK pps = true ∧ isSps .avc sps = true ∧ isPps .avc pps = true
    ∧ sps.length < 65536 ∧ pps.length < 65536
  | .hevcConfig g vps sps pps =>
    c = .hevc ∧ g.length = 22 ∧ nalOK vps = true ∧ nalOK sps = true ∧ nalOK pps = true
    ∧ isVps .hevc vps = true ∧ isSps .hevc sps = true ∧ isPps .hevc pps = true
    ∧ vps.length < 65536 ∧ sps.length < 65536 ∧ pps.length < 65536
  | .video ts cts _ nals =>
    nals ≠ [] ∧ (∀ n ∈ nals, nalOK n = true ∧ n.length < 4294967296) ∧ ts < 4294967296 ∧ cts < 16777216
  | .aacConfig o s ch => 1 ≤ o ∧ o ≤ 4 ∧ s < 13 ∧ 1 ≤ ch ∧ ch < 8
  | .aacFrame ts f => f ≠ [] ∧ f.length + 7 < 8192 ∧ ts < 4294967296
  | .opus ts p => p ≠ [] ∧ p.length ≤ 65526 ∧ ts < 4294967296

instance (c : VCodec) (e : Elem) : Decidable (ElemWF c e) := by
  cases e <;> unfold ElemWF <;> infer_instance

def Elem.isVideoConfig : Elem → Bool
  | .avcConfig .. => true
  | .hevcConfig .. => true
  | _ => false

def Elem.isVideoFrame : Elem → Bool
  | .video .. => true
  | _ => false

/-- no access unit before the first decoder configuration -/
def ConfigFirst : List Elem → Bool
  | [] => true
  | e :: es => if e.isVideoConfig then true else if e.isVideoFrame then false else ConfigFirst es

/-- the access units of a publish -/
structure Au where
  ts   : Nat
  cts  : Nat
  key  : Bool
  nals : List Bytes
deriving Repr, DecidableEq

def videoAus : List Elem → List Au
  | [] => []
  | .video ts cts key nals :: es => { ts := ts, cts := cts, key := key, nals := nals } :: videoAus es
  | _ :: es => videoAus es

/-- an AAC frame with the configuration in force when it was published -/
structure AacFrame where
  ts      : Nat
  objType : Nat
  sfi     : Nat
  ch      : Nat
  frame   : Bytes
deriving Repr, DecidableEq

/-- the AAC frames of a publish, each with the AudioSpecificConfig that precedes it; a frame before any configuration
    cannot be decoded by anybody and is left out -/
def aacFrames : Option (Nat × Nat × Nat) → List Elem → List AacFrame
  | _, [] => []
  | _, .aacConfig o s ch :: es => aacFrames (some (o, s, ch)) es
  | some (o, s, ch), .aacFrame ts f :: es => { ts := ts, objType := o, sfi := s, ch := ch, frame := f } :: aacFrames (some (o, s, ch)) es
  | none, .aacFrame _ _ :: es => aacFrames none es
  | cfg, _ :: es => aacFrames cfg es

/-- the Opus packets of a publish with their times -/
def opusPackets : List Elem → List (Nat × Bytes)
  | [] => []
  | .opus ts p :: es => (ts, p) :: opusPackets es
  | _ :: es => opusPackets es

end Lal.Publish
