import LalModel.Model.Bytes
/-
  Specification-side reader of an MPEG-2 program stream, written from ISO/IEC 13818-1 (independent of lal's
  PsUnpacker):
    §2.5.3.3  pack_header()            00 00 01 BA, '01' SCR …, program_mux_rate, pack_stuffing_length, stuffing
    §2.5.3.5  system_header()          00 00 01 BB, header_length
    §2.5.4.1  program_stream_map()     00 00 01 BC, length, program_stream_info, elementary_stream_map, CRC_32
    §2.4.3.6  PES_packet()             00 00 01 <stream_id>, PES_packet_length, ['10' flags header_data_length
                                       PTS DTS … stuffing] data   (stream ids without the optional header: Table 2-18)
    §2.5.3.1  MPEG_program_end_code    00 00 01 B9
  and of the access units of one elementary stream: a PES packet that carries a PTS starts a new access unit when
  the PTS differs from the current one (GB/T 28181 Annex C packs one access unit per PTS value).
-/
namespace Lal.PsSpec
open Lal

structure Pes where
  streamId : Nat
  pts : Option Nat
  dts : Option Nat
  data : Bytes
deriving Repr, DecidableEq

inductive PsUnit where
  | pack
  | system
  | psm (entries : List (Nat × Nat))     -- (stream_type, elementary_stream_id)
  | pes (p : Pes)
  | other (streamId : Nat) (data : Bytes)
  | end_
deriving Repr, DecidableEq

/-- a 33-bit time stamp in 5 bytes: 4-bit prefix, [32..30], marker, [29..15], marker, [14..0], marker -/
def timestamp (pfx : Nat) : Bytes → Option Nat
  | a :: b :: c :: d :: e :: _ =>
    if a.toNat / 16 ≠ pfx ∨ a.toNat % 2 ≠ 1 ∨ c.toNat % 2 ≠ 1 ∨ e.toNat % 2 ≠ 1 then none
    else some (a.toNat / 2 % 8 * 1073741824 + (b.toNat * 128 + c.toNat / 2) * 32768 + (d.toNat * 128 + e.toNat / 2))
  | _ => none

/-- stream ids whose PES packets have no optional header (Table 2-18): program_stream_map, padding_stream,
    private_stream_2, ECM, EMM, DSMCC, H.222.1 type E, program_stream_directory -/
def plainStream (id : Nat) : Bool :=
  id = 0xbc || id = 0xbe || id = 0xbf || id = 0xf0 || id = 0xf1 || id = 0xf2 || id = 0xf8 || id = 0xff

/-- the entries of an elementary_stream_map of `n` bytes -/
def esMap : Nat → Bytes → Option (List (Nat × Nat))
  | _, [] => some []
  | 0, _ => none
  | fuel+1, t :: id :: l0 :: l1 :: rest =>
    let n := rd16 l0 l1
    if rest.length < n then none else (esMap fuel (rest.drop n)).map ((t.toNat, id.toNat) :: ·)
  | _, _ => none

/-- the body of a PES packet with the optional header -/
def pesBody (id : Nat) (body : Bytes) : Option Pes :=
  match body with
  | f0 :: f1 :: hl :: rest =>
    if f0.toNat / 64 ≠ 2 then none else                    -- '10'
    let flags := f1.toNat / 64
    if rest.length < hl.toNat then none else
    let hd := rest.take hl.toNat
    let data := rest.drop hl.toNat
    if flags = 2 then
      if hd.length < 5 then none else (timestamp 2 hd).map fun p => { streamId := id, pts := some p, dts := none, data := data }
    else if flags = 3 then
      if hd.length < 10 then none else
      match timestamp 3 hd, timestamp 1 (hd.drop 5) with
      | some p, some d => some { streamId := id, pts := some p, dts := some d, data := data }
      | _, _ => none
    else if flags = 0 then some { streamId := id, pts := none, dts := none, data := data }
    else none                                                -- '01' is forbidden
  | _ => none

/-- one unit at the head of the stream and the rest -/
def readUnit : Bytes → Option (PsUnit × Bytes)
  | 0 :: 0 :: 1 :: id :: rest =>
    let sid := id.toNat
    if sid = 0xb9 then some (.end_, rest)
    else if sid = 0xba then
      -- MPEG-2 pack header: 10 bytes, the first starts with '01', the last has pack_stuffing_length in its low 3 bits
      match rest with
      | s0 :: _ :: _ :: _ :: _ :: _ :: _ :: _ :: _ :: sl :: rest' =>
        if s0.toNat / 64 ≠ 1 then none else
        let n := sl.toNat % 8
        if rest'.length < n ∨ (rest'.take n).any (· ≠ 0xff) then none else some (.pack, rest'.drop n)
      | _ => none
    else
      match rest with
      | l0 :: l1 :: rest' =>
        let n := rd16 l0 l1
        if rest'.length < n then none else
        let body := rest'.take n
        let tail := rest'.drop n
        if sid = 0xbb then some (.system, tail)
        else if sid = 0xbc then
          match body with
          | _ :: _ :: p0 :: p1 :: r1 =>
            let psil := rd16 p0 p1
            if r1.length < psil + 2 then none else
            match r1.drop psil with
            | e0 :: e1 :: r2 =>
              let esml := rd16 e0 e1
              if r2.length ≠ esml + 4 then none else (esMap (esml + 1) (r2.take esml)).map fun es => (.psm es, tail)
            | _ => none
          | _ => none
        else if plainStream sid then some (.other sid body, tail)
        else if sid ≥ 0xbd then (pesBody sid body).map fun p => (.pes p, tail)
        else none
      | _ => none
  | _ => none

/-- the whole stream as a list of units (`none`: not a conforming program stream) -/
def readAll : Nat → Bytes → Option (List PsUnit)
  | _, [] => some []
  | 0, _ => none
  | fuel+1, b =>
    match readUnit b with
    | none => none
    | some (u, rest) => (readAll fuel rest).map (u :: ·)

def read (b : Bytes) : Option (List PsUnit) := readAll (b.length + 1) b

/-- An access unit of an elementary stream: its PTS and its bytes. -/
structure Au where
  pts : Nat
  data : Bytes
deriving Repr, DecidableEq

/-- the access units of the PES packets of one stream, in order: a packet with a PTS different from the
    current access unit's starts a new one, a packet without PTS (or with the same PTS) continues it;
    `none` when the stream starts without a PTS -/
def ausFrom (cur : Option Au) : List Pes → Option (List Au)
  | [] => some (match cur with | some a => [a] | none => [])
  | p :: ps =>
    match cur, p.pts with
    | none, none => none
    | none, some t => ausFrom (some { pts := t, data := p.data }) ps
    | some a, none => ausFrom (some { a with data := a.data ++ p.data }) ps
    | some a, some t =>
      if t = a.pts then ausFrom (some { a with data := a.data ++ p.data }) ps
      else (ausFrom (some { pts := t, data := p.data }) ps).map (a :: ·)

def pesOf (id : Nat) (us : List PsUnit) : List Pes :=
  us.filterMap fun u => match u with | .pes p => if p.streamId = id then some p else none | _ => none

def accessUnits (id : Nat) (us : List PsUnit) : Option (List Au) := ausFrom none (pesOf id us)

/-- the stream type the last PSM before use assigns to an elementary stream id -/
def streamType (id : Nat) (us : List PsUnit) : Option Nat :=
  (us.filterMap fun u => match u with | .psm es => (es.find? (·.2 = id)).map (·.1) | _ => none).getLast?

/-! ### writer side (what a conforming sender may emit), used to state `ps_frames` -/

/-- a 33-bit time stamp field with the 4-bit prefix `pfx` ('0010' for a lone PTS) -/
def tsField (pfx v : Nat) : Bytes :=
  [b8 (pfx * 16 + v / 1073741824 % 8 * 2 + 1), b8 (v / 4194304), b8 (v / 32768 % 128 * 2 + 1), b8 (v / 128), b8 (v % 128 * 2 + 1)]

/-- PES header data: the PTS if present, then `stuff` stuffing bytes -/
def pesHeaderData (pts : Option Nat) (stuff : Nat) : Bytes :=
  (match pts with | some p => tsField 2 p | none => []) ++ List.replicate stuff 0xff

/-- one PES packet (with the optional header) of stream `id` carrying the bytes `es` -/
def pesPacket (id : Nat) (pts : Option Nat) (stuff : Nat) (es : Bytes) : Bytes :=
  0 :: 0 :: 1 :: b8 id :: b8 ((3 + (pesHeaderData pts stuff).length + es.length) / 256)
    :: b8 (3 + (pesHeaderData pts stuff).length + es.length)
    :: 0x80 :: (if pts.isSome then 0x80 else 0x00) :: b8 (pesHeaderData pts stuff).length :: (pesHeaderData pts stuff ++ es)

/-- a pack header: the nine bytes after the start code (SCR, program_mux_rate), then `11111sss` and `sss` stuffing bytes -/
def packHeader (body9 : Bytes) (stuff : Nat) : Bytes :=
  0 :: 0 :: 1 :: 0xba :: (body9 ++ b8 (0xf8 + stuff) :: List.replicate stuff 0xff)

/-- a unit that is only a length-prefixed body: system header (bb), private_stream_1/2 (bd, bf), padding (be), ECM/EMM
    (f0, f1), program stream directory (ff) -/
def lengthUnit (id : Nat) (body : Bytes) : Bytes :=
  0 :: 0 :: 1 :: b8 id :: b8 (body.length / 256) :: b8 body.length :: body

/-- MPEG_program_end_code -/
def packEnd : Bytes := [0, 0, 1, 0xb9]

end Lal.PsSpec
