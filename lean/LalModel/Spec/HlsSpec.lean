import LalModel.Model.Bytes
import LalModel.Model.Fs
import LalModel.Spec.TsSpec
/-
  What an HLS client may rely on, written from RFC 8216 (HTTP Live Streaming) and ISO/IEC 13818-1 —
  independent of lal's writer:

    §4.1      a playlist is UTF-8 text, lines end in LF (or CRLF); blank lines are ignored; lines starting with
              `#EXT` are tags, other `#` lines are comments, anything else is a URI
    §4.3.1.1  `#EXTM3U` MUST be the first line
    §4.3.1.2  `#EXT-X-VERSION:<n>` at most once
    §4.3.2.1  `#EXTINF:<duration>,[<title>]` applies to the next Media Segment URI; required for each segment;
              duration is a decimal-integer or decimal-floating-point number
    §4.3.2.3  `#EXT-X-DISCONTINUITY` applies to the next Media Segment
    §4.3.3.1  `#EXT-X-TARGETDURATION:<s>` REQUIRED, exactly once; "The EXTINF duration of each Media Segment in the
              Playlist file, when rounded to the nearest integer, MUST be less than or equal to the target duration"
    §4.3.3.2  `#EXT-X-MEDIA-SEQUENCE:<n>` at most once, MUST appear before the first Media Segment; absent = 0
    §4.3.3.4  `#EXT-X-ENDLIST`: no more Media Segments will be added
    §6.2.1    a server MUST NOT change the playlist except to append lines, remove segment URIs from the front in
              order (incrementing the media sequence by one per removed URI) or add ENDLIST;
              "the Media Sequence Number ... MUST NOT decrease"
    §6.2.2    a segment removed from the playlist SHOULD stay available for at least the duration of the playlist
              (lal's `delete_threshold` versions)
    §3        each MPEG-2 TS segment MUST contain a PAT and a PMT, SHOULD start with them; (§3, §6.2.2 / EXT-X-DISCONTINUITY)
              a segment that is not marked discontinuous continues the encoding of the previous one; segments SHOULD
              begin with a key frame

  The crash-point quantifier of the property ("at every instant, including between two file-system operations") is
  `checkTrace`: the operation log of the implementation is replayed one operation at a time over `Fs.Dir` and `checkNow`
  is evaluated after each.
-/
namespace Lal.HlsSpec
open Lal

/-! ### Playlist reader -/

structure SEntry where
  discont : Bool
  /-- duration as a fraction `num / den` seconds (`den` = 10^(number of fraction digits)) -/
  num     : Nat
  den     : Nat
  uri     : String
deriving Repr, DecidableEq

structure SPlaylist where
  target   : Nat
  mediaSeq : Nat
  entries  : List SEntry
  ended    : Bool
deriving Repr, DecidableEq

def stripPrefix : List Char → List Char → Option (List Char)
  | [], s => some s
  | _ :: _, [] => none
  | p :: ps, c :: cs => if p = c then stripPrefix ps cs else none

def digitsVal : List Char → Nat → Option Nat
  | [], acc => some acc
  | c :: cs, acc => if '0' ≤ c ∧ c ≤ '9' then digitsVal cs (acc * 10 + (c.toNat - 48)) else none

/-- decimal-integer: one or more digits -/
def parseDecInt (s : List Char) : Option Nat := if s.isEmpty then none else digitsVal s 0

/-- decimal-integer or decimal-floating-point (`digits "." digits`), as a fraction -/
def parseDecimal (s : List Char) : Option (Nat × Nat) :=
  let ip := s.takeWhile (· ≠ '.')
  let rest := s.dropWhile (· ≠ '.')
  match parseDecInt ip with
  | none => none
  | some i =>
    match rest with
    | [] => some (i, 1)
    | _ :: fp =>
      match parseDecInt fp with
      | none => none
      | some f => some (i * 10 ^ fp.length + f, 10 ^ fp.length)

def splitLines : List Char → List Char → List (List Char)
  | [], cur => [cur.reverse]
  | '\n' :: cs, cur => cur.reverse :: splitLines cs []
  | c :: cs, cur => splitLines cs (c :: cur)

structure PState where
  version  : Option Nat := none
  target   : Option Nat := none
  mediaSeq : Option Nat := none
  entries  : List SEntry := []          -- reversed
  inf      : Option (Nat × Nat) := none -- an EXTINF waiting for its URI
  discont  : Bool := false
  ended    : Bool := false

def tag (name : String) (l : List Char) : Option (List Char) := stripPrefix name.toList l

/-- One line after `#EXTM3U`; `none` = not a media playlist a client can use. -/
def parseLine (st : PState) (l : List Char) : Option PState :=
  if l.isEmpty then some st
  else if st.ended then none                                   -- nothing may follow ENDLIST (lal always writes it last)
  else match tag "#EXT-X-VERSION:" l with
  | some v => if st.version.isSome then none else (parseDecInt v).map fun n => { st with version := some n }
  | none =>
  match tag "#EXT-X-TARGETDURATION:" l with
  | some v => if st.target.isSome then none else (parseDecInt v).map fun n => { st with target := some n }
  | none =>
  match tag "#EXT-X-MEDIA-SEQUENCE:" l with
  | some v =>
    if st.mediaSeq.isSome ∨ !st.entries.isEmpty ∨ st.inf.isSome then none
    else (parseDecInt v).map fun n => { st with mediaSeq := some n }
  | none =>
  match tag "#EXT-X-ALLOW-CACHE:" l with
  | some v => if v = "NO".toList ∨ v = "YES".toList then some st else none
  | none =>
  match tag "#EXTINF:" l with
  | some v =>
    if st.inf.isSome then none else
    let d := v.takeWhile (· ≠ ',')
    if d.length = v.length then none                           -- the comma is required
    else (parseDecimal d).map fun q => { st with inf := some q }
  | none =>
  if l = "#EXT-X-DISCONTINUITY".toList then (if st.inf.isSome then none else some { st with discont := true })
  else if l = "#EXT-X-ENDLIST".toList then (if st.inf.isSome then none else some { st with ended := true })
  else if (tag "#EXT" l).isSome then none                      -- a tag this reader does not know
  else if (tag "#" l).isSome then some st                      -- comment
  else
    match st.inf with
    | none => none                                             -- a segment without EXTINF
    | some (n, d) => some { st with entries := { discont := st.discont, num := n, den := d, uri := String.ofList l } :: st.entries,
                                    inf := none, discont := false }

def parseLines : PState → List (List Char) → Option PState
  | st, [] => some st
  | st, l :: ls => match parseLine st l with
    | none => none
    | some st' => parseLines st' ls

/-- A complete media playlist: ends with a line feed, `#EXTM3U` first, a target duration, no dangling EXTINF. -/
def parsePlaylist (text : List Char) : Option SPlaylist :=
  match splitLines text [] with
  | first :: rest =>
    if first ≠ "#EXTM3U".toList then none
    else if rest.getLast? ≠ some [] then none                  -- the last line is not terminated: a torn file
    else match parseLines {} rest with
      | none => none
      | some st =>
        match st.target with
        | none => none
        | some t =>
          if st.inf.isSome ∨ st.discont then none
          else some { target := t, mediaSeq := st.mediaSeq.getD 0, entries := st.entries.reverse, ended := st.ended }
  | [] => none

/-- EXTINF duration rounded to the nearest integer (half up) -/
def roundNearest (e : SEntry) : Nat := (2 * e.num + e.den) / (2 * e.den)

/-! ### Segment reader -/

def chunks188 : Nat → Bytes → List Bytes
  | 0, _ => []
  | fuel + 1, b => if b.isEmpty then [] else b.take 188 :: chunks188 fuel (b.drop 188)

/-- Why a byte string is not a usable segment (`none` = fine): whole packets, PAT then the PMT the PAT points to,
    every packet has the sync byte; with `needKey`, the first access unit of the video PID announced by the PMT is a
    random access point. -/
def segmentDefect (b : Bytes) (needPat needKey : Bool) : Option String :=
  if b.length % 188 ≠ 0 then some "segment-not-whole-packets"
  else if !needPat then none
  else
    match chunks188 b.length b with
    | p0 :: p1 :: rest =>
      match TsSpec.readPat p0, TsSpec.readPmt p1 with
      | some pat, some pmt =>
        if !(pat.programs.any fun pr => pr.2 = pmt.pid ∧ pr.1 = pmt.program) then some "segment-pmt-not-announced-by-pat"
        else if rest.any (fun p => p.head? ≠ some 0x47) then some "segment-sync-byte"
        else if !needKey then none
        else
          let vpids := pmt.streams.filterMap fun s => match s.1 with
            | some .avc => some s.2
            | some .hevc => some s.2
            | _ => none
          let firstVideo := rest.findSome? fun p =>
            match TsSpec.parsePacket p with
            | some q => if vpids.contains q.pid ∧ q.pusi then some q else none
            | none => none
          match firstVideo with
          | none => none                                        -- no video access unit in this segment
          | some q => if (q.af.map (·.randomAccess)).getD false then none else some "segment-first-video-not-key"
      | none, _ => some "segment-no-pat-first"
      | _, none => some "segment-no-pmt-second"
    | _ => some "segment-shorter-than-pat-pmt"

/-! ### The directory at one instant -/

abbrev SDir := Fs.Dir String String Bytes
abbrev SOp := Fs.Op String String Bytes

def sUnder (root p : String) : Bool := (root ++ "/").toList.isPrefixOf p.toList

structure Params where
  dirPath      : String        -- `<root>/<stream>`
  delThr       : Nat
  /-- record playlist must list everything (cleanup mode is not "as soon as possible") -/
  recordKeeps  : Bool
  /-- the frame source respects "a boundary is proposed on video only at key frames" (otherwise the key check is void) -/
  keyGuarantee : Bool
  /-- the frame source delivers PAT/PMT once, before the first frame of a publish (otherwise the PAT/PMT check is void) -/
  patGuarantee : Bool

def livePath (P : Params) : String := P.dirPath ++ "/playlist.m3u8"
def recordPath (P : Params) : String := P.dirPath ++ "/record.m3u8"

/-- What is remembered from one instant to the next. -/
structure Hist where
  /-- successive contents of the live playlist, newest first (emptied when the playlist disappears) -/
  versions : List (String × SPlaylist) := []

def segBytes (f : Fs.File String Bytes) : Option Bytes :=
  match f.content with
  | .data l => some l.flatten
  | .doc _ => none

/-- every listed segment of `pl` is present, closed and well formed -/
def entriesDefect (P : Params) (d : SDir) (pl : SPlaylist) (checkKey : Bool) : Option String :=
  pl.entries.findSome? fun e =>
    if roundNearest e > pl.target then some "target-duration-below-rounded-extinf"
    else match d (P.dirPath ++ "/" ++ e.uri) with
    | none => some "listed-segment-missing"
    | some f =>
      if f.isOpen then some "listed-segment-still-open"
      else match segBytes f with
      | none => some "listed-segment-not-a-segment"
      | some b => segmentDefect b P.patGuarantee (checkKey && P.keyGuarantee && !e.discont)

/-- The property at one instant; `none` = consistent. Returns the updated history. -/
def checkNow (P : Params) (h : Hist) (d : SDir) : Option String × Hist :=
  -- live playlist
  let (r1, h1) : Option String × Hist :=
    match d (livePath P) with
    | none => (none, { versions := [] })
    | some f =>
      match f.content with
      | .data _ => (some "playlist-not-a-document", h)
      | .doc text =>
        match parsePlaylist text.toList with
        | none => (some "playlist-malformed", h)
        | some pl =>
          let h' : Hist := match h.versions with
            | (t, _) :: _ => if t = text then h else { versions := (text, pl) :: h.versions }
            | [] => { versions := [(text, pl)] }
          let seqBad : Bool := match h.versions with
            | (_, prev) :: _ => decide (pl.mediaSeq < prev.mediaSeq)
            | [] => false
          if seqBad then (some "media-sequence-decreased", h')
          else match entriesDefect P d pl true with
          | some why => (some why, h')
          | none =>
            -- retention: the previous delete_threshold versions
            let old := (h'.versions.drop 1).take P.delThr
            match old.findSome? fun v => v.2.entries.findSome? fun e =>
                    if (d (P.dirPath ++ "/" ++ e.uri)).isNone then some "segment-of-recent-version-deleted" else none with
            | some why => (some why, h')
            | none => (none, h')
  match r1 with
  | some why => (some why, h1)
  | none =>
    -- record playlist
    match d (recordPath P) with
    | none => (none, h1)
    | some f =>
      match f.content with
      | .data _ => (some "record-not-a-document", h1)
      | .doc text =>
        match parsePlaylist text.toList with
        | none => (some "record-malformed", h1)
        | some pl =>
          if !pl.ended then (some "record-without-endlist", h1)
          else if P.recordKeeps then ((entriesDefect P d pl false).map ("record-" ++ ·), h1)
          else (none, h1)

/-- Replay `ops` from directory `d`, checking after every operation. -/
def checkOps (P : Params) : Hist → SDir → List SOp → Option String × Hist × SDir
  | h, d, [] => (none, h, d)
  | h, d, op :: ops =>
    let d' := Fs.apply sUnder d op
    match checkNow P h d' with
    | (some why, h') => (some why, h', d')
    | (none, h') => checkOps P h' d' ops

end Lal.HlsSpec
