import LalModel.Model.Bytes
/-
  RFC 6455 §5.2 base framing, as a reader of one server-to-client frame.
  Enforces what the RFC states as MUST for such a frame: RSV bits 0, the
  minimal length form, most significant bit of the 64-bit length 0, and (server
  to client, §5.1) no masking.
-/
namespace Lal.WsSpec

structure Frame where
  fin : Bool
  opcode : Nat
  payload : Bytes
deriving Repr, DecidableEq

def readFrame (b : Bytes) : Option (Frame × Bytes) :=
  match b with
  | b0 :: b1 :: rest =>
    let fin := b0.toNat / 128 = 1
    let rsv := b0.toNat / 16 % 8
    let opcode := b0.toNat % 16
    let masked := b1.toNat / 128 = 1
    let l7 := b1.toNat % 128
    if rsv ≠ 0 ∨ masked then none else
    let body (n : Nat) (r : Bytes) : Option (Frame × Bytes) :=
      if r.length < n then none
      else some ({ fin := fin, opcode := opcode, payload := r.take n }, r.drop n)
    if l7 < 126 then body l7 rest
    else if l7 = 126 then
      match rest with
      | x0 :: x1 :: r =>
        let n := rd16 x0 x1
        if n < 126 then none else body n r      -- minimal encoding
      | _ => none
    else
      match rest with
      | x0 :: x1 :: x2 :: x3 :: x4 :: x5 :: x6 :: x7 :: r =>
        let n := rd64 x0 x1 x2 x3 x4 x5 x6 x7
        if n < 65536 ∨ n ≥ 9223372036854775808 then none else body n r
      | _ => none
  | _ => none

def readFrames : Nat → Bytes → Option (List Frame)
  | _, [] => some []
  | 0, _ :: _ => none
  | fuel+1, b@(_ :: _) =>
    match readFrame b with
    | none => none
    | some (f, rest) => (readFrames fuel rest).map (f :: ·)

end Lal.WsSpec
