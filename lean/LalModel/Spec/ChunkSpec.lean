import LalModel.Model.Bytes
/-
  A chunk-stream reader written from the RTMP 1.0 specification (§5.3.1 Chunk
  Format, §5.4.1 Set Chunk Size, §6.1/7.1.6 aggregate message), independent of
  lal's ChunkComposer.

  Per chunk stream id it remembers what §5.3.1.2 says a later chunk inherits:
  message stream id, length, type id, the timestamp of the last message, the
  last timestamp delta, and whether the most recent type 0/1/2 chunk carried an
  extended timestamp (§5.3.1.3: then type 3 chunks carry it too).
-/
namespace Lal.ChunkSpec

structure Message where
  csid : Nat
  typ : Nat
  msid : Nat
  ts : Nat
  payload : Bytes
deriving Repr, DecidableEq

structure Cs where
  msid : Nat := 0
  len : Nat := 0
  typ : Nat := 0
  msgTs : Nat := 0        -- timestamp of the message being assembled / last completed
  delta : Nat := 0        -- what a type 3 chunk that starts a message repeats
  ext : Bool := false     -- most recent type 0/1/2 chunk had the extended timestamp field
  part : Bytes := []      -- payload bytes of the message being assembled
  open_ : Bool := false   -- a message is being assembled
deriving Repr, DecidableEq, Inhabited

structure St where
  chunkSize : Nat := 128
  css : List (Nat × Cs) := []
deriving Repr

def St.get (s : St) (csid : Nat) : Cs := (s.css.lookup csid).getD {}
def St.put (s : St) (csid : Nat) (c : Cs) : St :=
  { s with css := (csid, c) :: s.css.filter (·.1 != csid) }

def u32 : Nat := 4294967296

/-- split an aggregate message body into its sub-messages -/
def splitAggregate (csid aggTs : Nat) : Nat → Bytes → Option Nat → Option (List Message)
  | _, [], _ => some []
  | 0, _ :: _, _ => none
  | fuel+1, t :: l0 :: l1 :: l2 :: t0 :: t1 :: t2 :: t3 :: s0 :: s1 :: s2 :: rest, first =>
    let len := rd24 l0 l1 l2
    let ts := t3.toNat * 16777216 + rd24 t0 t1 t2
    let f := first.getD ts
    if rest.length < len + 4 then none else
    match splitAggregate csid aggTs fuel (rest.drop (len + 4)) (some f) with
    | none => none
    | some ms => some ({ csid := csid, typ := t.toNat, msid := rd24 s0 s1 s2,
                         ts := (aggTs + ts + u32 - f) % u32, payload := rest.take len } :: ms)
  | _, _, _ => none

/-- read one chunk; `none` = input ends inside the chunk (or is not a chunk stream) -/
def readChunk (s : St) (inp : Bytes) : Option (St × List Message × Bytes) :=
  match inp with
  | [] => none
  | b0 :: r0 =>
    let fmt := b0.toNat / 64
    let low := b0.toNat % 64
    -- §5.3.1.1 basic header: 1, 2 or 3 bytes
    let basic : Option (Nat × Bytes) :=
      match low, r0 with
      | 0, x :: r => some (x.toNat + 64, r)
      | 0, _ => none
      | 1, x :: y :: r => some (y.toNat * 256 + x.toNat + 64, r)
      | 1, _ => none
      | n, r => some (n, r)
    match basic with
    | none => none
    | some (csid, r1) =>
      let c := s.get csid
      -- §5.3.1.2 message header; yields the updated inherited fields, the raw 24-bit field, and
      -- whether this chunk begins a message
      let starts := !c.open_
      let hdr : Option (Cs × Option Nat × Bytes) :=
        match fmt, r1 with
        | 0, t0 :: t1 :: t2 :: l0 :: l1 :: l2 :: ty :: i0 :: i1 :: i2 :: i3 :: r =>
          some ({ c with len := rd24 l0 l1 l2, typ := ty.toNat,
                         msid := i0.toNat + i1.toNat * 256 + i2.toNat * 65536 + i3.toNat * 16777216 },
                some (rd24 t0 t1 t2), r)
        | 1, t0 :: t1 :: t2 :: l0 :: l1 :: l2 :: ty :: r =>
          some ({ c with len := rd24 l0 l1 l2, typ := ty.toNat }, some (rd24 t0 t1 t2), r)
        | 2, t0 :: t1 :: t2 :: r => some (c, some (rd24 t0 t1 t2), r)
        | 3, r => some (c, none, r)
        | _, _ => none
      match hdr with
      | none => none
      | some (c1, field, r2) =>
        -- §5.3.1.3 extended timestamp
        let hasExt := match field with
          | some v => v == 16777215
          | none => c1.ext
        let extv : Option (Option Nat × Bytes) :=
          if hasExt then
            (match r2 with
             | e0 :: e1 :: e2 :: e3 :: r => some (some (rd32 e0 e1 e2 e3), r)
             | _ => none)
          else some (none, r2)
        match extv with
        | none => none
        | some (ev, r3) =>
          -- the timestamp / delta value this chunk states
          let stated : Option Nat := match field with
            | some v => some (if v == 16777215 then ev.getD v else v)
            | none => none
          let c2 : Cs :=
            if fmt = 0 then { c1 with msgTs := stated.getD 0, delta := stated.getD 0, ext := hasExt }
            else if fmt = 1 ∨ fmt = 2 then
              { c1 with msgTs := (c1.msgTs + stated.getD 0) % u32, delta := stated.getD 0, ext := hasExt }
            else if starts then { c1 with msgTs := (c1.msgTs + c1.delta) % u32 }
            else c1
          -- chunk data: min(remaining, chunk size)
          let remaining := c2.len - c2.part.length
          let n := if remaining < s.chunkSize then remaining else s.chunkSize
          if r3.length < n then none else
          let part := c2.part ++ r3.take n
          let rest := r3.drop n
          if part.length = c2.len then
            let s' := if c2.typ = 1 then
                (match part with
                 | a :: b :: c' :: d :: _ => { s with chunkSize := rd32 a b c' d }
                 | _ => s)
              else s
            let done := { c2 with part := [], open_ := false }
            let whole : Message := { csid := csid, typ := c2.typ, msid := c2.msid, ts := c2.msgTs, payload := part }
            if c2.typ = 22 then
              match splitAggregate csid c2.msgTs part.length part none with
              | some ms => some (s'.put csid done, ms, rest)
              | none => none
            else some (s'.put csid done, [whole], rest)
          else some (s.put csid { c2 with part := part, open_ := true }, [], rest)

def readAll : Nat → St → Bytes → List Message → Option (List Message)
  | _, _, [], acc => some acc
  | 0, _, _ :: _, _ => none
  | fuel+1, s, inp@(_ :: _), acc =>
    match readChunk s inp with
    | none => none
    | some (s', ms, rest) => readAll fuel s' rest (acc ++ ms)

/-- the whole input must be a sequence of complete chunks -/
def read (chunkSize : Nat) (inp : Bytes) : Option (List Message) :=
  readAll inp.length { chunkSize := chunkSize } inp []

end Lal.ChunkSpec
