import LalModel.Model.Bytes
/-
  A chunk-stream reader written from the RTMP 1.0 specification (§5.3.1 Chunk
  Format, §5.4.1 Set Chunk Size, §6.1/7.1.6 aggregate message), independent of
  lal's ChunkComposer.

  Per chunk stream id it remembers what §5.3.1.2 says a later chunk inherits:
  message stream id, length, type id, the timestamp of the last message, the
  last timestamp delta, and whether the most recent type 0/1/2 chunk carried an
  extended timestamp (§5.3.1.3: then type 3 chunks carry it too).
-/
namespace Lal.ChunkSpec

structure Message where
  csid : Nat
  typ : Nat
  msid : Nat
  ts : Nat
  payload : Bytes
deriving Repr, DecidableEq

structure Cs where
  msid : Nat := 0
  len : Nat := 0
  typ : Nat := 0
  msgTs : Nat := 0        -- timestamp of the message being assembled / last completed
  delta : Nat := 0        -- what a type 3 chunk that starts a message repeats
  ext : Bool := false     -- most recent type 0/1/2 chunk had the extended timestamp field
  part : Bytes := []      -- payload bytes of the message being assembled
  open_ : Bool := false   -- a message is being assembled
  have_ : Bool := false   -- a type 0 header has been seen on this chunk stream
deriving Repr, DecidableEq, Inhabited

structure St where
  chunkSize : Nat := 128
  css : List (Nat × Cs) := []
deriving Repr

def St.get (s : St) (csid : Nat) : Cs := (s.css.lookup csid).getD {}
def St.put (s : St) (csid : Nat) (c : Cs) : St :=
  { s with css := (csid, c) :: s.css.filter (·.1 != csid) }

def u32 : Nat := 4294967296

/-- split an aggregate message body into its sub-messages -/
def splitAggregate (csid aggTs : Nat) : Nat → Bytes → Option Nat → Option (List Message)
  | _, [], _ => some []
  | 0, _ :: _, _ => none
  | fuel+1, t :: l0 :: l1 :: l2 :: t0 :: t1 :: t2 :: t3 :: s0 :: s1 :: s2 :: rest, first =>
    let len := rd24 l0 l1 l2
    let ts := t3.toNat * 16777216 + rd24 t0 t1 t2
    let f := first.getD ts
    if rest.length < len + 4 then none else
    match splitAggregate csid aggTs fuel (rest.drop (len + 4)) (some f) with
    | none => none
    | some ms => some ({ csid := csid, typ := t.toNat, msid := rd24 s0 s1 s2,
                         ts := (aggTs + ts + u32 - f) % u32, payload := rest.take len } :: ms)
  | _, _, _ => none

/-- §5.3.1.1 chunk basic header: format, chunk stream id (1, 2 or 3 byte form), rest -/
def basicHeader : Bytes → Option (Nat × Nat × Bytes)
  | [] => none
  | b0 :: r0 =>
    if b0.toNat % 64 = 0 then
      (match r0 with
       | x :: r => some (b0.toNat / 64, x.toNat + 64, r)
       | _ => none)
    else if b0.toNat % 64 = 1 then
      (match r0 with
       | x :: y :: r => some (b0.toNat / 64, y.toNat * 256 + x.toNat + 64, r)
       | _ => none)
    else some (b0.toNat / 64, b0.toNat % 64, r0)

/-- §5.3.1.2 chunk message header. Returns the inherited fields as updated by this header and the
    raw 24-bit timestamp field (`none` for type 3). Legality (what a conforming encoder may send):
    types 0/1/2 only begin a message; types 1/2/3 need an earlier message on the chunk stream. -/
def messageHeader (fmt : Nat) (c : Cs) (r1 : Bytes) : Option (Cs × Option Nat × Bytes) :=
  if fmt = 0 then
    (match r1 with
     | t0 :: t1 :: t2 :: l0 :: l1 :: l2 :: ty :: i0 :: i1 :: i2 :: i3 :: r =>
       if c.open_ then none else
       some ({ c with len := rd24 l0 l1 l2, typ := ty.toNat, have_ := true,
                      msid := i0.toNat + i1.toNat * 256 + i2.toNat * 65536 + i3.toNat * 16777216 },
             some (rd24 t0 t1 t2), r)
     | _ => none)
  else if fmt = 1 then
    (match r1 with
     | t0 :: t1 :: t2 :: l0 :: l1 :: l2 :: ty :: r =>
       if c.open_ ∨ c.have_ = false then none else
       some ({ c with len := rd24 l0 l1 l2, typ := ty.toNat }, some (rd24 t0 t1 t2), r)
     | _ => none)
  else if fmt = 2 then
    (match r1 with
     | t0 :: t1 :: t2 :: r =>
       if c.open_ ∨ c.have_ = false then none else some (c, some (rd24 t0 t1 t2), r)
     | _ => none)
  else if c.have_ = false then none else some (c, none, r1)

/-- §5.3.1.3 extended timestamp and the timestamp bookkeeping of §5.3.1.2.
    Type 0: the field (or, when it is 0xFFFFFF, the extended field, which then is ≥ 0xFFFFFF) is the
    absolute timestamp. Types 1/2: the field is a delta; deltas ≥ 0xFFFFFF are outside the property
    and rejected. Type 3: carries the extended field iff the most recent type 0/1/2 chunk did, with
    the same value; when it begins a message the previous delta is repeated. -/
def timestamps (fmt : Nat) (starts : Bool) (c1 : Cs) (field : Option Nat) (r2 : Bytes) : Option (Cs × Bytes) :=
  match field with
  | some v =>
    if fmt = 0 then
      if v = 16777215 then
        (match r2 with
         | e0 :: e1 :: e2 :: e3 :: r =>
           let t := rd32 e0 e1 e2 e3
           if t < 16777215 then none else some ({ c1 with msgTs := t, delta := t, ext := true }, r)
         | _ => none)
      else some ({ c1 with msgTs := v, delta := v, ext := false }, r2)
    else
      if v = 16777215 then none
      else some ({ c1 with msgTs := (c1.msgTs + v) % u32, delta := v, ext := false }, r2)
  | none =>
    let c2 := if starts then { c1 with msgTs := (c1.msgTs + c1.delta) % u32 } else c1
    if c1.ext then
      (match r2 with
       | e0 :: e1 :: e2 :: e3 :: r => if rd32 e0 e1 e2 e3 = c1.delta then some (c2, r) else none
       | _ => none)
    else some (c2, r2)

/-- chunk data (min(remaining, chunk size) bytes) and message completion; §5.4.1 Set Chunk Size takes
    effect for the chunks after it; aggregate messages are delivered as their sub-messages -/
def chunkData (s : St) (csid : Nat) (c2 : Cs) (r3 : Bytes) : Option (St × List Message × Bytes) :=
  let remaining := c2.len - c2.part.length
  let n := if remaining < s.chunkSize then remaining else s.chunkSize
  if r3.length < n then none else
  let part := c2.part ++ r3.take n
  let rest := r3.drop n
  if part.length = c2.len then
    let done := { c2 with part := [], open_ := false }
    if c2.typ = 1 then
      (match part with
       | [a, b, c', d] =>
         let v := rd32 a b c' d
         if v = 0 then none
         else some ({ s with chunkSize := v }.put csid done,
                    [{ csid := csid, typ := c2.typ, msid := c2.msid, ts := c2.msgTs, payload := part }], rest)
       | _ => none)
    else if c2.typ = 22 then
      match splitAggregate csid c2.msgTs part.length part none with
      | some ms => some (s.put csid done, ms, rest)
      | none => none
    else some (s.put csid done, [{ csid := csid, typ := c2.typ, msid := c2.msid, ts := c2.msgTs, payload := part }], rest)
  else some (s.put csid { c2 with part := part, open_ := true }, [], rest)

/-- read one chunk; `none` = the input ends inside the chunk or is not a conforming chunk stream -/
def readChunk (s : St) (inp : Bytes) : Option (St × List Message × Bytes) :=
  match basicHeader inp with
  | none => none
  | some (fmt, csid, r1) =>
    let c := s.get csid
    match messageHeader fmt c r1 with
    | none => none
    | some (c1, field, r2) =>
      match timestamps fmt (!c.open_) c1 field r2 with
      | none => none
      | some (c2, r3) => chunkData s csid c2 r3

def readAll : Nat → St → Bytes → List Message → Option (List Message)
  | _, _, [], acc => some acc
  | 0, _, _ :: _, _ => none
  | fuel+1, s, inp@(_ :: _), acc =>
    match readChunk s inp with
    | none => none
    | some (s', ms, rest) => readAll fuel s' rest (acc ++ ms)

/-- the whole input must be a sequence of complete chunks -/
def read (chunkSize : Nat) (inp : Bytes) : Option (List Message) :=
  readAll inp.length { chunkSize := chunkSize } inp []

end Lal.ChunkSpec
