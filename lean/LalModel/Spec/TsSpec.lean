import LalModel.Model.Bytes
/-
  A demultiplexer for ONE elementary stream of an MPEG-2 transport stream, a PSI section reader and
  the CRC of Annex A, written from ITU-T H.222.0 | ISO/IEC 13818-1 — independent of lal's writer and of
  lal's own reader (`ParseTsPacketHeader`, `ParsePes`, `ParsePat`, `ParsePmt`).

    §2.4.3.2 / Table 2-2   transport packet: sync_byte 0x47, transport_error_indicator,
                           payload_unit_start_indicator, transport_priority, PID(13),
                           transport_scrambling_control(2), adaptation_field_control(2), continuity_counter(4)
    §2.4.3.4 / Table 2-6   adaptation field: adaptation_field_length, 8 flags, PCR (33 + 6 reserved + 9),
                           OPCR, splice_countdown, private data, extension, stuffing_byte = 0xFF
    §2.4.3.6 / Table 2-21  PES packet: packet_start_code_prefix 0x000001, stream_id, PES_packet_length,
                           '10', flags, PES_header_data_length, PTS / DTS in 3+15+15 bits with marker bits
    §2.4.4   / Tables 2-29, 2-30, 2-33  pointer_field, program association section, program map section
    Annex A                CRC decoder model: polynomial x^32+x^26+x^23+x^22+x^16+x^12+x^11+x^10+x^8+x^7+x^5+x^4+x^2+x+1,
                           register preset to all ones, a section is valid when the register is zero after its last byte
-/
namespace Lal.TsSpec

/-! ### Transport packet -/

structure AdaptationField where
  discontinuity : Bool := false
  randomAccess  : Bool := false
  /-- program_clock_reference_base (90 kHz, 33 bits) and _extension (27 MHz, 9 bits) -/
  pcr           : Option (Nat × Nat) := none
deriving Repr, DecidableEq

/-- The `adaptation_field_length` bytes after the length byte. Optional fields are skipped in the order of
    Table 2-6; what is left must be stuffing bytes 0xFF. -/
def parseAfBody : Bytes → Option AdaptationField
  | [] => some {}
  | flags :: rest =>
    let fl := flags.toNat
    -- PCR_flag
    let r1 : Option (Option (Nat × Nat) × Bytes) :=
      if fl / 16 % 2 = 1 then
        match rest with
        | p0 :: p1 :: p2 :: p3 :: p4 :: p5 :: r =>
          some (some (p0.toNat * 33554432 + p1.toNat * 131072 + p2.toNat * 512 + p3.toNat * 2 + p4.toNat / 128,
                      p4.toNat % 2 * 256 + p5.toNat), r)
        | _ => none
      else some (none, rest)
    match r1 with
    | none => none
    | some (pcr, rest) =>
    -- OPCR_flag
    let r2 : Option Bytes := if fl / 8 % 2 = 1 then (if rest.length < 6 then none else some (rest.drop 6)) else some rest
    match r2 with
    | none => none
    | some rest =>
    -- splicing_point_flag
    let r3 : Option Bytes := if fl / 4 % 2 = 1 then (if rest.length < 1 then none else some (rest.drop 1)) else some rest
    match r3 with
    | none => none
    | some rest =>
    -- transport_private_data_flag
    let r4 : Option Bytes :=
      if fl / 2 % 2 = 1 then
        match rest with
        | n :: r => if r.length < n.toNat then none else some (r.drop n.toNat)
        | [] => none
      else some rest
    match r4 with
    | none => none
    | some rest =>
    -- adaptation_field_extension_flag
    let r5 : Option Bytes :=
      if fl % 2 = 1 then
        match rest with
        | n :: r => if r.length < n.toNat then none else some (r.drop n.toNat)
        | [] => none
      else some rest
    match r5 with
    | none => none
    | some rest =>
      if rest.all (· == 0xFF) then
        some { discontinuity := fl / 128 % 2 = 1, randomAccess := fl / 64 % 2 = 1, pcr := pcr }
      else none

structure Packet where
  pusi    : Bool
  pid     : Nat
  cc      : Nat
  af      : Option AdaptationField   -- `none` when adaptation_field_control = '01'
  payload : Bytes                    -- empty when adaptation_field_control = '10'
deriving Repr, DecidableEq

/-- One 188-byte transport packet. Rejected: wrong length or sync byte, transport_error_indicator set,
    scrambled, reserved adaptation_field_control '00', adaptation_field_length out of range
    (must be 183 for '10', 0..182 for '11'), malformed adaptation field. -/
def parsePacket (p : Bytes) : Option Packet :=
  if p.length ≠ 188 then none else
  match p with
  | s :: b1 :: b2 :: b3 :: body =>
    if s ≠ 0x47 then none
    else if b1.toNat / 128 % 2 = 1 then none            -- transport_error_indicator
    else if b3.toNat / 64 ≠ 0 then none                 -- transport_scrambling_control
    else
      let pusi := b1.toNat / 64 % 2 = 1
      let pid := b1.toNat % 32 * 256 + b2.toNat
      let afc := b3.toNat / 16 % 4
      let cc := b3.toNat % 16
      if afc = 1 then some { pusi := pusi, pid := pid, cc := cc, af := none, payload := body }
      else if afc = 0 then none
      else
        match body with
        | l :: rest =>
          let n := l.toNat
          if afc = 2 ∧ n ≠ 183 then none
          else if afc = 3 ∧ n > 182 then none
          else
            match parseAfBody (rest.take n) with
            | none => none
            | some af => some { pusi := pusi, pid := pid, cc := cc, af := some af, payload := rest.drop n }
        | [] => none
  | _ => none

def parsePackets : List Bytes → Option (List Packet)
  | [] => some []
  | p :: ps =>
    match parsePacket p with
    | none => none
    | some q =>
      match parsePackets ps with
      | none => none
      | some qs => some (q :: qs)

/-! ### PES packet -/

/-- Five bytes `prefix(4) X[32..30] 1 X[29..15] 1 X[14..0] 1`. -/
def parseTimestamp (pfx : Nat) : Bytes → Option Nat
  | [t0, t1, t2, t3, t4] =>
    if t0.toNat / 16 ≠ pfx then none
    else if t0.toNat % 2 ≠ 1 ∨ t2.toNat % 2 ≠ 1 ∨ t4.toNat % 2 ≠ 1 then none   -- marker_bit
    else some (t0.toNat / 2 % 8 * 1073741824 + (t1.toNat * 256 + t2.toNat) / 2 * 32768 + (t3.toNat * 256 + t4.toNat) / 2)
  | _ => none

/-- stream_ids whose PES packet has no optional header (Table 2-21): program_stream_map, padding_stream,
    private_stream_2, ECM, EMM, DSMCC, H.222.1 type E, program_stream_directory -/
def plainStreamId (sid : Nat) : Bool :=
  sid == 0xBC || sid == 0xBE || sid == 0xBF || sid == 0xF0 || sid == 0xF1 || sid == 0xF2 || sid == 0xF8 || sid == 0xFF

/-- video stream '1110 xxxx' (Table 2-22) -/
def videoStreamId (sid : Nat) : Bool := 0xE0 ≤ sid && sid ≤ 0xEF

structure Pes where
  sid     : Nat
  /-- PES_packet_length as declared (0 = unbounded) -/
  declLen : Nat
  pts     : Option Nat
  /-- decoding time: the DTS field, or the PTS when only a PTS is present (§2.4.3.7) -/
  dts     : Option Nat
  data    : Bytes
deriving Repr, DecidableEq

/-- A complete PES packet (the concatenated payloads from one payload_unit_start to the next).
    `PES_packet_length = 0` is accepted only for video streams; otherwise the unit must be exactly
    6 + PES_packet_length bytes long. -/
def parsePes (b : Bytes) : Option Pes :=
  match b with
  | 0x00 :: 0x00 :: 0x01 :: sid :: l0 :: l1 :: rest =>
    let declLen := rd16 l0 l1
    if sid.toNat < 0xBC then none
    else if declLen = 0 ∧ !videoStreamId sid.toNat then none
    else if declLen ≠ 0 ∧ rest.length ≠ declLen then none
    else if plainStreamId sid.toNat then
      some { sid := sid.toNat, declLen := declLen, pts := none, dts := none, data := rest }
    else
      match rest with
      | f0 :: f1 :: hl :: rest2 =>
        if f0.toNat / 64 ≠ 2 then none                      -- '10'
        else if rest2.length < hl.toNat then none
        else
          let hdr := rest2.take hl.toNat
          let data := rest2.drop hl.toNat
          let ptsDts := f1.toNat / 64
          if ptsDts = 0 then some { sid := sid.toNat, declLen := declLen, pts := none, dts := none, data := data }
          else if ptsDts = 1 then none                      -- forbidden
          else if ptsDts = 2 then
            if hdr.length < 5 then none else
            match parseTimestamp 2 (hdr.take 5) with
            | none => none
            | some pts => some { sid := sid.toNat, declLen := declLen, pts := some pts, dts := some pts, data := data }
          else
            if hdr.length < 10 then none else
            match parseTimestamp 3 (hdr.take 5), parseTimestamp 1 ((hdr.drop 5).take 5) with
            | some pts, some dts => some { sid := sid.toNat, declLen := declLen, pts := some pts, dts := some dts, data := data }
            | _, _ => none
      | _ => none
  | _ => none

/-! ### One access unit of one PID -/

/-- continuity_counter: +1 (mod 16) on every packet that carries payload, unchanged on adaptation-only packets -/
def ccChain : Nat → List Packet → Bool
  | _, [] => true
  | prev, p :: ps =>
    let expect := if p.payload.isEmpty then prev else (prev + 1) % 16
    p.cc == expect && ccChain p.cc ps

structure Unit where
  pid     : Nat
  /-- continuity_counter of the first packet and the number of packets -/
  cc0     : Nat
  packets : Nat
  /-- random_access_indicator of the packet in which the unit starts -/
  rai     : Bool
  /-- PCR carried by that packet: base (33 bit, 90 kHz) and extension -/
  pcr     : Option (Nat × Nat)
  /-- some later packet of the unit sets random_access_indicator / discontinuity_indicator or carries a PCR
      (markings that would concern the NEXT access unit, §2.4.3.5) -/
  laterMarks : Bool
  pes     : Pes
deriving Repr, DecidableEq

/-- The packets of one PES packet of one PID, in order: the first has payload_unit_start_indicator = 1
    (its payload begins with the PES header, §2.4.3.3), none of the others has; all carry the same PID;
    continuity counters advance; the concatenated payloads are one PES packet. -/
def demuxUnit (pkts : List Bytes) : Option Unit :=
  match parsePackets pkts with
  | none => none
  | some [] => none
  | some (p0 :: ps) =>
    if !p0.pusi then none
    else if ps.any (·.pusi) then none
    else if ps.any (·.pid != p0.pid) then none
    else if p0.payload.isEmpty then none
    else if !ccChain p0.cc ps then none
    else
      match parsePes (p0.payload ++ ps.flatMap (·.payload)) with
      | none => none
      | some pes =>
        some { pid := p0.pid, cc0 := p0.cc, packets := ps.length + 1,
               rai := match p0.af with | some a => a.randomAccess | none => false,
               pcr := match p0.af with | some a => a.pcr | none => none,
               laterMarks := ps.any fun q => match q.af with
                 | some a => a.randomAccess || a.discontinuity || a.pcr.isSome
                 | none => false,
               pes := pes }

/-- a byte string cut into 188-byte pieces (the last may be short and is then rejected by `parsePacket`) -/
def chunk188 : Nat → Bytes → List Bytes
  | 0, _ => []
  | fuel + 1, b => if b.isEmpty then [] else b.take 188 :: chunk188 fuel (b.drop 188)

/-! ### CRC (Annex A) -/

/-- One shift of the 32-bit register z(31)…z(0) with the feedback of the generator polynomial
    0x04C11DB7 (no reflection). -/
def crcShift (c : Nat) : Nat :=
  if c / 2147483648 % 2 = 1 then (c * 2 % 4294967296) ^^^ 0x04C11DB7 else c * 2 % 4294967296

/-- One message byte, most significant bit first: added (xor) into the top of the register, eight shifts. -/
def crcByte (c : Nat) (v : UInt8) : Nat :=
  crcShift (crcShift (crcShift (crcShift (crcShift (crcShift (crcShift (crcShift (c ^^^ (v.toNat * 16777216)))))))))

/-- CRC-32/MPEG-2 of `b` from register value `init` (no final xor). -/
def crc32From (init : Nat) (b : Bytes) : Nat := b.foldl crcByte init

/-- preset to all ones -/
def crc32 (b : Bytes) : Nat := crc32From 0xFFFFFFFF b

/-! ### PSI sections -/

structure Section where
  tableId   : Nat
  /-- table_id_extension: transport_stream_id (PAT) / program_number (PMT) -/
  ext       : Nat
  version   : Nat
  current   : Bool
  number    : Nat
  last      : Nat
  /-- the bytes between last_section_number and CRC_32 -/
  data      : Bytes
  /-- section_length as declared -/
  length    : Nat
  /-- the CRC_32 field -/
  crc       : Nat
deriving Repr, DecidableEq

/-- A transport packet that starts a PSI section (payload_unit_start_indicator = 1): pointer_field, then one
    long-syntax section (section_syntax_indicator = 1, '0', section_length ≤ 1021 with its two top bits 0)
    whose CRC register ends at zero; the rest of the packet is 0xFF stuffing (§2.4.4). -/
def parsePsiPacket (p : Bytes) : Option (Nat × Section) :=
  match parsePacket p with
  | none => none
  | some pk =>
    if !pk.pusi then none else
    match pk.payload with
    | [] => none
    | ptr :: rest0 =>
      if rest0.length < ptr.toNat then none else
      match rest0.drop ptr.toNat with
      | tid :: h1 :: h2 :: body =>
        let sl := h1.toNat % 16 * 256 + h2.toNat
        if h1.toNat / 128 ≠ 1 then none            -- section_syntax_indicator
        else if h1.toNat / 64 % 2 ≠ 0 then none    -- '0'
        else if sl > 1021 ∨ sl < 9 then none
        else if body.length < sl then none
        else
          let sec := body.take sl
          if crc32 (tid :: h1 :: h2 :: sec) ≠ 0 then none
          else if !(body.drop sl).all (· == 0xFF) then none
          else
            match sec with
            | e0 :: e1 :: v :: sn :: lsn :: rest =>
              let crcBytes := rest.drop (sl - 9)
              match crcBytes with
              | [c0, c1, c2, c3] =>
                some (pk.pid, { tableId := tid.toNat, ext := rd16 e0 e1, version := v.toNat / 2 % 32, current := v.toNat % 2 = 1,
                                number := sn.toNat, last := lsn.toNat, data := rest.take (sl - 9), length := sl,
                                crc := rd32 c0 c1 c2 c3 })
              | _ => none
            | _ => none
      | _ => none

/-- program association section body: (program_number, PID) pairs of 4 bytes -/
def parsePatData : Nat → Bytes → Option (List (Nat × Nat))
  | _, [] => some []
  | 0, _ :: _ => none
  | fuel + 1, p0 :: p1 :: q0 :: q1 :: rest =>
    (parsePatData fuel rest).map ((rd16 p0 p1, q0.toNat % 32 * 256 + q1.toNat) :: ·)
  | _ + 1, _ => none

/-- descriptor loop: (tag, body) pairs -/
def parseDescriptors : Nat → Bytes → Option (List (Nat × Bytes))
  | _, [] => some []
  | 0, _ :: _ => none
  | fuel + 1, tag :: len :: rest =>
    if rest.length < len.toNat then none
    else (parseDescriptors fuel (rest.drop len.toNat)).map ((tag.toNat, rest.take len.toNat) :: ·)
  | _ + 1, _ => none

structure EsInfo where
  streamType  : Nat
  pid         : Nat
  descriptors : List (Nat × Bytes)
deriving Repr, DecidableEq

def parseEsLoop : Nat → Bytes → Option (List EsInfo)
  | _, [] => some []
  | 0, _ :: _ => none
  | fuel + 1, st :: p0 :: p1 :: l0 :: l1 :: rest =>
    let n := l0.toNat % 16 * 256 + l1.toNat
    if rest.length < n then none else
    match parseDescriptors n (rest.take n), parseEsLoop fuel (rest.drop n) with
    | some ds, some es => some ({ streamType := st.toNat, pid := p0.toNat % 32 * 256 + p1.toNat, descriptors := ds } :: es)
    | _, _ => none
  | _ + 1, _ => none

structure Pmt where
  pcrPid  : Nat
  streams : List EsInfo
deriving Repr, DecidableEq

/-- TS_program_map_section body: PCR_PID, program_info (descriptors), elementary stream loop -/
def parsePmtData : Bytes → Option Pmt
  | c0 :: c1 :: i0 :: i1 :: rest =>
    let n := i0.toNat % 16 * 256 + i1.toNat
    if rest.length < n then none else
    match parseDescriptors n (rest.take n), parseEsLoop rest.length (rest.drop n) with
    | some _, some es => some { pcrPid := c0.toNat % 32 * 256 + c1.toNat, streams := es }
    | _, _ => none
  | _ => none

inductive Codec where
  | avc | hevc | aac | opus
deriving Repr, DecidableEq

/-- What a stream_type (Table 2-34) announces: 0x1B AVC, 0x24 HEVC, 0x0F AAC in ADTS; Opus is carried as
    private data (0x06) identified by a registration_descriptor (tag 5) with format_identifier "Opus". -/
def codecOf (e : EsInfo) : Option Codec :=
  if e.streamType = 0x1B then some .avc
  else if e.streamType = 0x24 then some .hevc
  else if e.streamType = 0x0F then some .aac
  else if e.streamType = 0x06 ∧ e.descriptors.any (fun d => d.1 == 5 && d.2.take 4 == [0x4f, 0x70, 0x75, 0x73]) then some .opus
  else none


/-- What a receiver learns from a PAT packet: it must be on PID 0 with table_id 0, a single current section 0 of 0
    (so the table is complete), valid under `parsePsiPacket` (syntax, length, CRC, stuffing). -/
structure PatInfo where
  transportStreamId : Nat
  /-- (program_number, program_map_PID) -/
  programs          : List (Nat × Nat)
deriving Repr, DecidableEq

def readPat (p : Bytes) : Option PatInfo :=
  match parsePsiPacket p with
  | none => none
  | some (pid, s) =>
    if pid ≠ 0 ∨ s.tableId ≠ 0 ∨ !s.current ∨ s.number ≠ 0 ∨ s.last ≠ 0 then none
    else (parsePatData s.data.length s.data).map fun ps => { transportStreamId := s.ext, programs := ps }

/-- What a receiver learns from a PMT packet (table_id 2, a single current section): the PID it came on, the
    program, PCR_PID and for every elementary stream the codec its stream_type / descriptors announce. -/
structure PmtInfo where
  pid      : Nat
  program  : Nat
  pcrPid   : Nat
  streams  : List (Option Codec × Nat)
deriving Repr, DecidableEq

def readPmt (p : Bytes) : Option PmtInfo :=
  match parsePsiPacket p with
  | none => none
  | some (pid, s) =>
    if s.tableId ≠ 2 ∨ !s.current ∨ s.number ≠ 0 ∨ s.last ≠ 0 then none
    else (parsePmtData s.data).map fun m =>
      { pid := pid, program := s.ext, pcrPid := m.pcrPid, streams := m.streams.map fun e => (codecOf e, e.pid) }

end Lal.TsSpec
