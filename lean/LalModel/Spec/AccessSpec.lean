import LalModel.Model.Str
import LalModel.Model.Path
import LalModel.Model.Auth
/-
  Specification side of C14, written from the property and the standards, not from lal's code:

  * what "the URL carries the lal_secret" means (a query string read as `application/x-www-form-urlencoded`:
    pairs separated by `&`, name and value separated by the first `=`, percent-decoded, `+` = space);
  * valid RTSP credentials: RFC 7617 (Basic: `base64(user-id ":" password)`) and RFC 2617 §3.2.2 without qop
    (Digest: `response = H(H(user:realm:pass) ":" nonce ":" H(method:uri))`, the nonce being the one this server
    issued last on this connection), with an independent reader of the `name="value"` list;
  * the blacklist as a function of the history of `add` calls;
  * path confinement is `Path.under` (stated on cleaned paths).

  MD5 / base64 are parameters here as well.
-/
namespace Lal.AccessSpec
open Lal.Str

/-! ### which requests simple auth applies to (the configuration keys of `simple_auth`) -/

/-- simple auth is enabled for this kind of request of this protocol: `pub_rtmp_enable`, `sub_rtmp_enable`,
    `sub_httpflv_enable`, `sub_httpts_enable`, `pub_rtsp_enable`, `sub_rtsp_enable`, `hls_m3u8_enable` -/
def enabled (cfg : Auth.SimpleAuthConfig) (d : Auth.Dir) (protocol : Bytes) : Prop :=
  match d with
  | .pub => (cfg.pubRtmp = true ∧ protocol = asc "RTMP") ∨ (cfg.pubRtsp = true ∧ protocol = asc "RTSP")
  | .sub => (cfg.subRtmp = true ∧ protocol = asc "RTMP") ∨ (cfg.subHttpflv = true ∧ protocol = asc "FLV") ∨
            (cfg.subHttpts = true ∧ protocol = asc "TS") ∨ (cfg.subRtsp = true ∧ protocol = asc "RTSP")
  | .hls => cfg.hlsM3u8 = true

/-! ### query strings -/

/-- percent-decoding that leaves malformed escapes untouched (WHATWG urlencoded parser) -/
def pctDecodeLenient : Bytes → Bytes
  | [] => []
  | 37 :: a :: b :: r =>
    if isHexDigit a && isHexDigit b then UInt8.ofNat (unhex a * 16 + unhex b) :: pctDecodeLenient r
    else 37 :: pctDecodeLenient (a :: b :: r)
  | x :: r => (if x == 43 then 32 else x) :: pctDecodeLenient r

/-- every escape is `%` followed by two hex digits -/
def escapesOk : Bytes → Bool
  | [] => true
  | 37 :: a :: b :: r => isHexDigit a && isHexDigit b && escapesOk r
  | 37 :: _ => false
  | _ :: r => escapesOk r

/-- the (name, value) pairs of a query -/
def pairs (q : Bytes) : List (Bytes × Bytes) :=
  ((splitByte 38 q).filter (· ≠ [])).map fun p =>
    let (k, v, _) := cut 61 p
    (pctDecodeLenient k, pctDecodeLenient v)

/-- a value is the secret of the stream: the MD5 of key ++ stream in either letter case, or the configured override -/
def isSecret (md5hex : Bytes → Bytes) (key override stream v : Bytes) : Bool :=
  lower v == md5hex (key ++ stream) || (override != [] && v == override)

/-- some `lal_secret` pair of the query is the secret (what an admitted request must at least carry) -/
def carriesSomewhere (md5hex : Bytes → Bytes) (key override stream q : Bytes) : Bool :=
  (pairs q).any fun kv => kv.1 == asc "lal_secret" && isSecret md5hex key override stream kv.2

/-- the query is well-formed (no `;`, every escape complete) and its first `lal_secret` pair is the secret
    (a request that must be admitted) -/
def carriesProperly (md5hex : Bytes → Bytes) (key override stream q : Bytes) : Bool :=
  !q.contains 59 && escapesOk q &&
  match (pairs q).find? (fun kv => kv.1 == asc "lal_secret") with
  | some kv => isSecret md5hex key override stream kv.2
  | none => false

/-! ### RTSP credentials -/

/-- reader of `name="value", name="value"` lists (RFC 2617 auth-param with quoted-string values, no escapes):
    returns the pairs in order; parameter names are trimmed of spaces and commas -/
def authParams (fuel : Nat) (s : Bytes) : List (Bytes × Bytes) :=
  match fuel with
  | 0 => []
  | fuel + 1 =>
    match cut 61 s with
    | (name, rest, true) =>
      let name := (name.filter fun c => c != 32 && c != 44 && c != 9)
      match rest with
      | 34 :: r =>
        let (v, after, closed) := cut 34 r
        if closed then (name, v) :: authParams fuel after else []
      | _ =>
        -- token value: up to the next comma
        let (v, after, _) := cut 44 rest
        (name, trimSpace v) :: authParams fuel after
    | _ => []

def param (ps : List (Bytes × Bytes)) (name : Bytes) : Option Bytes :=
  (ps.find? (fun kv => kv.1 == name)).map (·.2)

/-- RFC 7617: the header is `Basic ` followed by the base64 of `user:pass` -/
def validBasic (b64dec : Bytes → Option Bytes) (user pass header : Bytes) : Bool :=
  hasPrefix header (asc "Basic ") && b64dec (header.drop 6) == some (user ++ [58] ++ pass)

/-- RFC 2617 §3.2.2 (no qop): the response matches, for the nonce this server issued last on the connection -/
def validDigest (md5hex : Bytes → Bytes) (user pass issued method header : Bytes) : Bool :=
  hasPrefix header (asc "Digest ") && issued != [] &&
  let ps := authParams header.length (header.drop 7)
  match param ps (asc "nonce"), param ps (asc "realm"), param ps (asc "uri"), param ps (asc "response") with
  | some nonce, some realm, some uri, some response =>
    nonce == issued &&
    response == md5hex (md5hex (user ++ [58] ++ realm ++ [58] ++ pass) ++ [58] ++ nonce ++ [58] ++ md5hex (method ++ [58] ++ uri))
  | _, _, _, _ => false

/-! ### what a path means -/

/-- one element of a path, walking a directory tree without symbolic links: the position is the stack of
    directory names below `/` (innermost first); `..` at `/` stays at `/` -/
def walkStep (st : List Bytes) (seg : Bytes) : List Bytes :=
  if seg = [] ∨ seg = Path.dot then st else if seg = Path.dotdot then st.drop 1 else seg :: st

/-- where the path `p` leads from the working directory `cwd` -/
def walk (cwd : List Bytes) (p : Bytes) : List Bytes :=
  (splitByte 47 p).foldl walkStep (if Path.isRooted p then [] else cwd)

/-! ### blacklist from the history -/

/-- history of `Add(ip, duration)` calls with the second at which each happened, latest first -/
abbrev History := List (Bytes × Int × Int)

/-- listed at `now`: the latest `Add` for this address has not run out -/
def listed (h : History) (ip : Bytes) (now : Int) : Bool :=
  match h.find? (fun e => e.1 == ip) with
  | some (_, t0, d) => decide (now ≤ t0 + d)
  | none => false

end Lal.AccessSpec
