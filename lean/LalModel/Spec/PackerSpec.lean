import LalModel.Spec.ChunkSpec
import LalModel.Spec.Amf0Spec
/-
  What an RTMP peer must be able to read from lal's connect / play / publish commands, written with the
  specification-side readers (RTMP 1.0 chunk stream: Spec/ChunkSpec.lean, AMF0: Spec/Amf0Spec.lean), and what a
  growable write buffer must contain - independent of lal's packer.
-/
namespace Lal.PackerSpec
open Lal Lal.Amf0

def str (s : String) : Bytes := s.toUTF8.toList

/-- IEEE-754 binary64 of the small integers used as transaction ids -/
def f64 : Nat → Bytes
  | 1 => [0x3f, 0xf0, 0, 0, 0, 0, 0, 0]
  | 2 => [0x40, 0x00, 0, 0, 0, 0, 0, 0]
  | 3 => [0x40, 0x08, 0, 0, 0, 0, 0, 0]
  | _ => [0, 0, 0, 0, 0, 0, 0, 0]

/-- RTMP 1.0 §7.2.1.1 connect: name, transaction id 1, command object -/
def connectCmd (app tcUrl flashVer : Bytes) : List Amf :=
  [.str (str "connect"), .num (f64 1),
   .obj [(str "app", .str app), (str "type", .str (str "nonprivate")), (str "flashVer", .str flashVer),
         (str "fpad", .bool false), (str "tcUrl", .str tcUrl)]]

/-- §7.2.2.1 play: name, transaction id, null, stream name -/
def playCmd (tid : Nat) (name : Bytes) : List Amf := [.str (str "play"), .num (f64 tid), .null, .str name]

/-- §7.2.2.6 publish: name, transaction id, null, publishing name, publishing type -/
def publishCmd (tid : Nat) (name : Bytes) : List Amf :=
  [.str (str "publish"), .num (f64 tid), .null, .str name, .str (str "live")]

/-- all AMF0 values of a command message body -/
def values : Nat → Bytes → Option (List Amf)
  | 0, _ => none
  | _, [] => some []
  | fuel+1, b =>
    match Amf0Spec.decode b with
    | none => none
    | some (v, n) =>
      if n = 0 then none else
      match values fuel (b.drop n) with
      | some vs => some (v :: vs)
      | none => none

/-- read what was handed to the connection as ONE command message (chunk size `cs`) -/
def readCommand (cs : Nat) (wire : Bytes) : Option (ChunkSpec.Message × List Amf) :=
  match ChunkSpec.read cs wire with
  | some [m] =>
    match values (m.payload.length + 1) m.payload with
    | some vs => some (m, vs)
    | none => none
  | _ => none

def sameValues : List Amf → List Amf → Bool
  | [], [] => true
  | a :: as, b :: bs => (Amf.decEq a b).decide && sameValues as bs
  | _, _ => false

/-- the verdict on the bytes of one command: a conforming reader gets the command with the caller's strings -/
def commandOk (cs : Nat) (wire : Bytes) (csid sid : Nat) (want : List Amf) : Bool :=
  match readCommand cs wire with
  | some (m, vs) => m.csid == csid && m.typ == 20 && m.msid == sid && m.ts == 0 && sameValues vs want
  | none => false

/-! ### a write buffer, abstractly: an array that is as long as it needs to be -/

structure SBuf where
  data : Bytes := []
  rp : Nat := 0
  wp : Nat := 0

def SBuf.put (b : SBuf) (p : Bytes) : SBuf :=
  let d := b.data ++ List.replicate (b.wp - b.data.length) 0
  { b with data := d.take b.wp ++ p ++ d.drop (b.wp + p.length), wp := b.wp + p.length }

/-- readable content; `none` when the positions were set past what was ever written (unspecified) -/
def SBuf.content (b : SBuf) : Option Bytes :=
  if b.rp ≤ b.wp ∧ b.wp ≤ b.data.length then some ((b.data.drop b.rp).take (b.wp - b.rp)) else none

end Lal.PackerSpec
