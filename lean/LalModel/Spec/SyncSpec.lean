import LalModel.Model.Sync
import LalModel.Generated.C20
/-
  C20 — the synchronisation discipline claimed of lal, stated over the tables the extractor regenerates from
  the source tree on every run (`Generated/C20.lean`): the lock order, the lock set of every tracked field,
  the channel facts, and the explicit, hand-reviewed list of fields that are NOT protected by a lock.
  Nothing here is read from lal's code by hand except `exempt`, whose entries are generated field constants.
  Core Lean only.
-/
namespace Lal.SyncSpec
open Lal.Sync Lal.Gen.C20

/-- acquired-while-holding edges of the generated table -/
def edges : List (Lock × Lock) := holds.map (fun p => (p.1, p.2.1))

def nLocks : Nat := lockNames.length

/-- one relaxation round: rank l ≥ rank a + 1 for every edge (a, l) -/
def relax (r : List Nat) : List Nat :=
  (List.range nLocks).map (fun l => edges.foldl (fun m p => if p.2 == l then max m (r.getD p.1 0 + 1) else m) 0)

def iter (f : List Nat → List Nat) : Nat → List Nat → List Nat
  | 0, r => r
  | n + 1, r => iter f n (f r)

/-- longest-chain rank of every lock class (stable after `nLocks` rounds when the relation is acyclic) -/
def ranks : List Nat := iter relax nLocks (List.replicate nLocks 0)

def lalRank (l : Lock) : Nat := ranks.getD l 0

/-- the table, reduced to (field, write?, lock set) -/
def rows : List AccessRow := access.map (fun r => (r.1, r.2.1, r.2.2.1))

/-- the field is written somewhere outside construction (generated summary; `summary_sound` checks it row by row) -/
def written (f : Loc) : Bool := fieldWritten.getD f true

/-- locks held at EVERY access of the field outside construction (generated summary, checked row by row) -/
def common (f : Loc) : List Lock := fieldCommon.getD f []

def fieldName (f : Loc) : String := fieldNames.getD f ""
def fieldKind (f : Loc) : Nat := fieldKinds.getD f 0

/-- the generated per-field summaries agree with the rows: a written row makes the field `written`, and every
    lock of `common` is in the lock set of every row -/
def summarySound : Bool :=
  rows.all (fun r => (!r.2.1 || written r.1) && (common r.1).all (fun l => r.2.2.contains l))

/-- Fields that are written after construction WITHOUT a common lock, with the reason they are claimed safe.
    This list is the hand-reviewed part of C20: each entry is an assumption, not a theorem. Categories:
    * `publish`  — written only by the goroutine that owns the object before it hands the object to other
                   goroutines through a lock or a `go` statement (happens-before by lock release / goroutine start);
    * `own`      — read and written only by the object's own goroutine (connection read loop / accept loop);
    * `perObject`— every OBJECT has a common lock, but different embedders use different ones, so the class-level
                   intersection is empty (BasicSessionStat inside pull sessions is used under Group.mutex only,
                   inside server sessions under ServerManager.mutex; BaseOutSession's log counters are written under
                   Group.mutex for a server SubSession and by the single writer goroutine of a client PushSession);
    * `signalling` — RTSP session state set by the command goroutine during ANNOUNCE/DESCRIBE/SETUP, read by the RTP
                   goroutines it starts afterwards and by the group only after the atomic `Stage` / RECORD hand-over
                   (assumes the peer keeps the RTSP method order; a kick between ANNOUNCE and SETUP is the residual window);
    * `syncClosure` — read inside an option-modifier closure that rtmp/rtsp.NewPullSession runs before returning, i.e.
                   under the caller's Group.mutex; the extractor loses the lock because the constructor is also an entry point;
    * `startup`  — written during single-threaded start-up (before `RunLoop` spawns the goroutine that reads it). -/
def exempt : List (Loc × String) := [
  (F.«base.BasicSessionStat.stat», "perObject"),
  (F.«base.BasicSessionStat.prevConnStat», "perObject"),
  (F.«base.BasicSessionStat.staleStat», "perObject"),
  (F.«base.HttpServerManager.addr2ServerCtx», "startup"),
  (F.«logic.HttpApiServer.ln», "startup"),
  (F.«rtmp.Server.ln», "startup"),
  (F.«rtsp.Server.ln», "startup"),
  (F.«logic.ServerManager.onHookSession», "startup"),
  (F.«logic.pullProxy.pullTimeoutMs», "syncClosure"),
  (F.«logic.pullProxy.rtspMode», "syncClosure"),
  (F.«logic.CustomizePubSessionContext.onRtmpMsg», "publish"),
  (F.«logic.CustomizePubSessionContext.dumpFile», "publish"),
  (F.«hls.SubSession.stat», "perObject"),
  (F.«gb28181.PubSession.hookOnReadPacket», "publish"),
  (F.«gb28181.PubSession.isTcpFlag», "publish"),
  (F.«gb28181.PubSession.listener», "publish"),
  (F.«gb28181.PubSession.udpConn», "publish"),
  (F.«rtmp.ServerSession.DisposeByObserverFlag», "own"),
  -- written by Server.OnNewRtsp{Pub,Sub}Session…, which the command session calls from inside RunLoop, and read after
  -- RunLoop returns in the same handleTcpConnect / websocket handler goroutine (same pattern as the rtmp flag above)
  (F.«rtsp.PubSession.DisposeByObserverFlag», "own"),
  (F.«rtsp.SubSession.DisposeByObserverFlag», "own"),
  (F.«rtmp.ServerSession.appName», "publish"),
  (F.«rtmp.ServerSession.avObserver», "own"),
  (F.«rtmp.ServerSession.peerWinAckSize», "own"),
  (F.«rtmp.ServerSession.rawQuery», "publish"),
  (F.«rtmp.ServerSession.recvLastAck», "own"),
  (F.«rtmp.ServerSession.seqNum», "own"),
  (F.«rtmp.ServerSession.streamName», "publish"),
  (F.«rtmp.ServerSession.streamNameWithRawQuery», "publish"),
  (F.«rtmp.ServerSession.tcUrl», "publish"),
  (F.«rtmp.ServerSession.url», "publish"),
  (F.«rtsp.BaseInSession.audioRrProducer», "signalling"),
  (F.«rtsp.BaseInSession.audioRtcpChannel», "signalling"),
  (F.«rtsp.BaseInSession.audioRtcpConn», "signalling"),
  (F.«rtsp.BaseInSession.audioRtpChannel», "signalling"),
  (F.«rtsp.BaseInSession.audioRtpConn», "signalling"),
  (F.«rtsp.BaseInSession.audioUnpacker», "signalling"),
  (F.«rtsp.BaseInSession.observer», "signalling"),
  (F.«rtsp.BaseInSession.sdpCtx», "signalling"),
  (F.«rtsp.BaseInSession.videoRrProducer», "signalling"),
  (F.«rtsp.BaseInSession.videoRtcpChannel», "signalling"),
  (F.«rtsp.BaseInSession.videoRtcpConn», "signalling"),
  (F.«rtsp.BaseInSession.videoRtpChannel», "signalling"),
  (F.«rtsp.BaseInSession.videoRtpConn», "signalling"),
  (F.«rtsp.BaseInSession.videoUnpacker», "signalling"),
  (F.«rtsp.BaseOutSession.audioRtcpChannel», "signalling"),
  (F.«rtsp.BaseOutSession.audioRtpChannel», "signalling"),
  (F.«rtsp.BaseOutSession.audioRtpConn», "signalling"),
  (F.«rtsp.BaseOutSession.sdpCtx», "signalling"),
  (F.«rtsp.BaseOutSession.loggedWriteAudioRtpCount», "perObject"),
  (F.«rtsp.BaseOutSession.loggedWriteVideoRtpCount», "perObject"),
  (F.«rtsp.BaseOutSession.videoRtcpChannel», "signalling"),
  (F.«rtsp.BaseOutSession.videoRtpChannel», "signalling"),
  (F.«rtsp.BaseOutSession.videoRtpConn», "signalling"),
  -- rtsp client handshake state (the struct has a mutex since the conn fix): written by the one handshake goroutine
  -- of doContext, read by it, and after the errChan hand-over by the goroutine that called Start (RunLoop, keep-alive).
  -- `conn` is written under connMu and read under it by dispose, the only reader that can overlap the handshake
  (F.«rtsp.ClientCommandSession.channel», "signalling"),
  (F.«rtsp.ClientCommandSession.conn», "signalling"),
  (F.«rtsp.ClientCommandSession.cseq», "signalling"),
  (F.«rtsp.ClientCommandSession.methodGetParameterSupported», "signalling"),
  (F.«rtsp.ClientCommandSession.option», "signalling"),
  (F.«rtsp.ClientCommandSession.rawUrl», "signalling"),
  (F.«rtsp.ClientCommandSession.sdpCtx», "signalling"),
  (F.«rtsp.ClientCommandSession.sessionId», "signalling"),
  (F.«rtsp.ClientCommandSession.urlCtx», "signalling"),
  (F.«rtsp.ServerCommandSession.describeSeq», "publish"),
  (F.«rtsp.ServerCommandSession.pubSession», "own"),
  (F.«rtsp.ServerCommandSession.subSession», "own")
]

/-- field ids of the exemptions (the entries name generated constants, so a vanished field fails to elaborate) -/
def exemptIds : List Loc := exempt.map (fun e => e.1)

def isExempt (f : Loc) : Bool := exemptIds.contains f

/-- (id, kind, written, common) of every field, in one pass over the generated summaries -/
def fieldInfo : List (Loc × Nat × Bool × List Lock) :=
  let rec go (i : Nat) : List Nat → List Bool → List (List Lock) → List (Loc × Nat × Bool × List Lock)
    | k :: ks, w :: ws, c :: cs => (i, k, w, c) :: go (i + 1) ks ws cs
    | _, _, _ => []
  go 0 fieldKinds fieldWritten fieldCommon

/-- plain-memory fields written after construction without a lock common to all their accesses -/
def unguarded : List Loc :=
  (fieldInfo.filter (fun e => e.2.1 == 0 && e.2.2.1 && e.2.2.2.isEmpty)).map (fun e => e.1)

/-- the three generated summaries cover every field -/
def summariesComplete : Bool :=
  fieldKinds.length == fieldNames.length && fieldWritten.length == fieldNames.length && fieldCommon.length == fieldNames.length

/-- fields the lock-set theorem speaks about: plain memory with a lock common to all accesses -/
def sel (f : Loc) : Bool := fieldKind f == 0 && !(common f).isEmpty

/-- the guard of a selected field: the first common lock -/
def guardOf (f : Loc) : Lock := (common f).headD 0

/-- every send that can block (not inside a select with another alternative) is on a channel made with a
    constant capacity ≥ 1 -/
def blockingSendsBuffered : Bool :=
  sends.all (fun s => s.2.1 || ((chanCaps.getD s.1 []).all (fun c => decide (1 ≤ c)) && !(chanCaps.getD s.1 []).isEmpty))

def isOnce (l : Lock) : Bool := lockKinds.getD l 0 == 2

/-- channels with a send that can block (no select alternative), is not inside a sync.Once (so it can run more than
    once per object) and is made while a mutex may be held: a blocked send there stalls every waiter of that mutex -/
def riskySendChans : List String :=
  (sends.filter (fun s => !s.2.1 && !s.2.2.2.1.any isOnce && s.2.2.1.any (fun l => !isOnce l))).map
    (fun s => chanNames.getD s.1 "")

/-- every exemption is still needed: it names a field that is unguarded in the current table -/
def exemptAllNeeded : Bool := exemptIds.all (fun f => unguarded.contains f)

end Lal.SyncSpec
