import LalModel.Model.Bytes
/-
  An FLV reader written from the Adobe FLV specification v10.1, Annex E
  (E.2 header, E.3 body, E.4.1 FLVTAG) — independent of lal's reader.
  It checks everything the format makes mutually consistent: signature,
  version, DataOffset = 9, PreviousTagSize0 = 0, reserved bits, StreamID = 0,
  PreviousTagSize = 11 + DataSize.
-/
namespace Lal.FlvSpec

structure Tag where
  typ     : UInt8     -- TagType, 5 bits (8 audio, 9 video, 18 script)
  ts      : Nat       -- Timestamp | TimestampExtended << 24
  payload : Bytes
deriving Repr, DecidableEq

/-- One FLVTAG followed by its PreviousTagSize. -/
def readTag (b : Bytes) : Option (Tag × Bytes) :=
  match b with
  | t :: s0 :: s1 :: s2 :: t0 :: t1 :: t2 :: te :: i0 :: i1 :: i2 :: rest =>
    let size := rd24 s0 s1 s2
    if t.toNat ≥ 32 then none                     -- Reserved(2)=0, Filter(1)=0
    else if rd24 i0 i1 i2 ≠ 0 then none           -- StreamID always 0
    else if rest.length < size + 4 then none
    else
      let body := rest.take size
      match rest.drop size with
      | p0 :: p1 :: p2 :: p3 :: rest' =>
        if rd32 p0 p1 p2 p3 = 11 + size
        then some ({ typ := t, ts := te.toNat * 16777216 + rd24 t0 t1 t2, payload := body }, rest')
        else none
      | _ => none
  | _ => none

def readTags : Nat → Bytes → Option (List Tag)
  | _, [] => some []
  | 0, _ :: _ => none
  | fuel+1, b@(_ :: _) =>
    match readTag b with
    | none => none
    | some (t, rest) => (readTags fuel rest).map (t :: ·)

structure File where
  hasAudio : Bool
  hasVideo : Bool
  tags     : List Tag
deriving Repr, DecidableEq

/-- E.2 header + PreviousTagSize0 + tags to the end of the input. -/
def readFile (b : Bytes) : Option File :=
  match b with
  | 0x46 :: 0x4c :: 0x56 :: 0x01 :: flags :: 0 :: 0 :: 0 :: 9 :: 0 :: 0 :: 0 :: 0 :: rest =>
    if flags.toNat / 8 ≠ 0 ∨ flags.toNat / 2 % 2 ≠ 0 then none   -- reserved bits
    else (readTags rest.length rest).map fun ts =>
      { hasAudio := flags.toNat / 4 % 2 = 1, hasVideo := flags.toNat % 2 = 1, tags := ts }
  | _ => none

end Lal.FlvSpec
