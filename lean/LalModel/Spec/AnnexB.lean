import LalModel.Model.Bytes
/-
  The byte stream format of ITU-T H.264 Annex B (identical in H.265 Annex B), read as the
  specification describes it — independent of lal's IterateNaluAnnexb:

    byte_stream_nal_unit:  leading_zero_8bits*  [zero_byte]  start_code_prefix_one_3bytes (00 00 01)
                           nal_unit  trailing_zero_8bits*
  B.2: the NAL unit extends up to (not including) the next 00 00 00 or 00 00 01, or the end of the stream.
  Any other byte between units makes the stream non-conforming (`none`).
-/
namespace Lal.AnnexB

/-- the bytes of one NAL unit and what follows it -/
def takeNal : Bytes → Bytes × Bytes
  | [] => ([], [])
  | 0 :: 0 :: 0 :: rest => ([], 0 :: 0 :: 0 :: rest)
  | 0 :: 0 :: 1 :: rest => ([], 0 :: 0 :: 1 :: rest)
  | x :: rest => let (n, r) := takeNal rest; (x :: n, r)

/-- zero bytes then `01` after at least two of them: the rest after the start code.
    `some none` = only zero bytes remained (trailing_zero_8bits to the end). -/
def skipStart : Bytes → Nat → Option (Option Bytes)
  | [], _ => some none
  | x :: rest, z =>
    if x = 0 then skipStart rest (z + 1)
    else if x = 1 ∧ z ≥ 2 then some (some rest)
    else none

def units : Nat → Bytes → Option (List Bytes)
  | 0, _ => none
  | fuel+1, b =>
    match skipStart b 0 with
    | none => none
    | some none => some []
    | some (some rest) =>
      let (n, r) := takeNal rest
      if n.isEmpty then none               -- a NAL unit has at least its header byte
      else (units fuel r).map (n :: ·)

/-- all NAL units of a conforming byte stream -/
def read (b : Bytes) : Option (List Bytes) := units (b.length + 1) b

end Lal.AnnexB
