import LalModel.Model.Bytes
/-
  RFC 2326 §10.12 "Embedded (Interleaved) Binary Data", as a reader of the binary frames of an RTSP
  TCP connection once the session is playing: an ASCII dollar sign (0x24), a one-byte channel
  identifier, the length of the encapsulated binary data as a binary two-byte integer in network
  byte order, then exactly that many bytes of data. (RTSP text responses may be mixed in between
  frames; this reader is applied to a stretch of the connection that carries media only, and so
  rejects anything that does not start with '$'.)
-/
namespace Lal.InterleavedSpec

structure Frame where
  channel : Nat
  data : Bytes
deriving Repr, DecidableEq

def readFrame (b : Bytes) : Option (Frame × Bytes) :=
  match b with
  | d :: ch :: l0 :: l1 :: rest =>
    if d ≠ 0x24 then none else
    let n := rd16 l0 l1
    if rest.length < n then none
    else some ({ channel := ch.toNat, data := rest.take n }, rest.drop n)
  | _ => none

def readFrames : Nat → Bytes → Option (List Frame)
  | _, [] => some []
  | 0, _ :: _ => none
  | fuel+1, b@(_ :: _) =>
    match readFrame b with
    | none => none
    | some (f, rest) => (readFrames fuel rest).map (f :: ·)

end Lal.InterleavedSpec
