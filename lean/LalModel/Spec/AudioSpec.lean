import LalModel.Model.Bits
/-
  Specification-side readers for AAC configuration, independent of lal's:
    ISO/IEC 14496-3 §1.6.2.1 AudioSpecificConfig (GetAudioObjectType with the 31 escape,
                   samplingFrequencyIndex with the 0xf escape, channelConfiguration)
    ISO/IEC 14496-3 §1.A.2.2 adts_fixed_header / adts_variable_header
-/
namespace Lal.AudioSpec
open Lal.Bits

def take? (n : Nat) (l : List Bool) : Option (Nat × List Bool) :=
  if l.length < n then none else some (bitsVal (l.take n), l.drop n)

structure Asc where
  objectType : Nat
  samplingFrequencyIndex : Nat
  samplingFrequency : Option Nat    -- explicit, when the index is 0xf
  channelConfiguration : Nat
deriving Repr, DecidableEq

def readAsc (b : Bytes) : Option Asc := do
  let (ot, r) ← take? 5 (bitsOf b)
  let (ot, r) ← (if ot = 31 then do let (e, r) ← take? 6 r; pure (32 + e, r) else pure (ot, r))
  let (sfi, r) ← take? 4 r
  let (sf, r) ← (if sfi = 15 then do let (f, r) ← take? 24 r; pure (some f, r) else pure (none, r))
  let (ch, _) ← take? 4 r
  pure { objectType := ot, samplingFrequencyIndex := sfi, samplingFrequency := sf, channelConfiguration := ch }

structure Adts where
  id : Nat
  layer : Nat
  protectionAbsent : Nat
  profileObjectType : Nat
  samplingFrequencyIndex : Nat
  channelConfiguration : Nat
  frameLength : Nat
  bufferFullness : Nat
  rawDataBlocks : Nat
deriving Repr, DecidableEq

/-- fixed + variable header (56 bits); syncword must be 0xFFF and layer '00' -/
def readAdts (b : Bytes) : Option Adts := do
  let (sync, r) ← take? 12 (bitsOf b)
  if sync ≠ 4095 then none
  let (id, r) ← take? 1 r
  let (layer, r) ← take? 2 r
  if layer ≠ 0 then none
  let (pa, r) ← take? 1 r
  let (prof, r) ← take? 2 r
  let (sfi, r) ← take? 4 r
  let (_, r) ← take? 1 r       -- private_bit
  let (ch, r) ← take? 3 r
  let (_, r) ← take? 4 r       -- original_copy, home, copyright_identification_bit, copyright_identification_start
  let (len, r) ← take? 13 r
  let (full, r) ← take? 11 r
  let (blocks, _) ← take? 2 r
  pure { id := id, layer := layer, protectionAbsent := pa, profileObjectType := prof, samplingFrequencyIndex := sfi,
         channelConfiguration := ch, frameLength := len, bufferFullness := full, rawDataBlocks := blocks }

/-- Table 1.16 sampling frequencies -/
def frequencies : List Nat := [96000, 88200, 64000, 48000, 44100, 32000, 24000, 22050, 16000, 12000, 11025, 8000, 7350]

end Lal.AudioSpec
