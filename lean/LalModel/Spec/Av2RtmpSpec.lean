import LalModel.Model.AvPacket
import LalModel.Spec.ConfigRecord
/-
  What C07 demands of the RTMP/FLV video messages made from a publisher's access units, independent of lal's remuxer:

    * a consumer reads every video message with the FLV VIDEODATA header (Adobe FLV v10.1 E.4.3.1) and the
      ISO/IEC 14496-15 configuration records / length-prefixed samples (`readVideo`);
    * the publisher's NAL units are walked in order (`expectUnit`): access-unit delimiters vanish, parameter sets
      are collected and — each time a group (SPS+PPS, resp. VPS+SPS+PPS) is complete — announced by one sequence
      header carrying exactly them, every other NAL unit of the access unit goes, in order, into ONE frame
      message, which is a key frame iff one of them is an IDR (H.264) / IRAP (H.265) slice.
-/
namespace Lal.Av2RtmpSpec
open Lal Lal.Av

/-- parameter sets (vps, sps, pps); the vps component is unused for H.264 -/
abbrev Sets := Bytes × Bytes × Bytes

inductive Ev where
  | seqHdr (ts : Nat) (sets : Sets)
  | frame (ts : Nat) (key : Bool) (nals : List Bytes)
deriving Repr, DecidableEq

/-- nal_unit_type (H.264 §7.3.1: low 5 bits; H.265 §7.3.1.2: bits 1..6 of the first byte) -/
def nalType (hevc : Bool) (n : Bytes) : Nat :=
  if hevc then (n.headD 0).toNat % 128 / 2 else (n.headD 0).toNat % 32

def isAud (hevc : Bool) (n : Bytes) : Bool := nalType hevc n == (if hevc then 35 else 9)
def isParamSet (hevc : Bool) (n : Bytes) : Bool :=
  if hevc then nalType hevc n == 32 || nalType hevc n == 33 || nalType hevc n == 34
  else nalType hevc n == 7 || nalType hevc n == 8
/-- IDR slice (5) / IRAP picture types 16..23 -/
def isKey (hevc : Bool) (n : Bytes) : Bool :=
  if hevc then decide (16 ≤ nalType hevc n ∧ nalType hevc n ≤ 23) else nalType hevc n == 5

def addSet (hevc : Bool) (s : Sets) (n : Bytes) : Sets :=
  if hevc then
    (if nalType hevc n == 32 then (n, s.2.1, s.2.2) else if nalType hevc n == 33 then (s.1, n, s.2.2) else (s.1, s.2.1, n))
  else (if nalType hevc n == 7 then (s.1, n, s.2.2) else (s.1, s.2.1, n))

def complete (hevc : Bool) (s : Sets) : Bool :=
  (!hevc || decide (s.1.length > 0)) && decide (s.2.1.length > 0) && decide (s.2.2.length > 0)

/-- the groups of in-band parameter sets completed while walking the NAL units, and what is still pending -/
def headers (hevc : Bool) : Sets → List Bytes → Sets × List Sets
  | pend, [] => (pend, [])
  | pend, n :: ns =>
    if isParamSet hevc n then
      let p := addSet hevc pend n
      if complete hevc p then
        let r := headers hevc ([], [], []) ns
        (r.1, p :: r.2)
      else headers hevc p ns
    else headers hevc pend ns

def dataNals (hevc : Bool) (nals : List Bytes) : List Bytes :=
  nals.filter fun n => !isAud hevc n && !isParamSet hevc n

/-- one access unit (one AvPacket): the sequence headers, then the frame -/
def expectUnit (hevc : Bool) (pend : Sets) (ts : Nat) (nals : List Bytes) : Sets × List Ev :=
  let r := headers hevc pend nals
  let d := dataNals hevc nals
  (r.1, r.2.map (Ev.seqHdr ts) ++ (if d = [] then [] else [Ev.frame ts (d.any (isKey hevc)) d]))

def expectAll (hevc : Bool) : Sets → List (Nat × List Bytes) → List Ev
  | _, [] => []
  | pend, (ts, nals) :: rest =>
    let r := expectUnit hevc pend ts nals
    r.2 ++ expectAll hevc r.1 rest

/-- a consumer's reading of one RTMP video message -/
def readVideo (hevc : Bool) (m : RtmpMsg) : Option Ev :=
  if m.typ ≠ 9 ∨ m.msid ≠ 1 then none else
  match ConfigRecord.videoTagHeader m.payload with
  | none => none
  | some (h, rest) =>
    if h.codecId ≠ (if hevc then 12 else 7) ∨ h.compositionTime ≠ 0 then none
    else if h.packetType = 0 then
      if h.frameType ≠ 1 then none
      else if hevc then
        match ConfigRecord.hevcSeqHeader m.payload with
        | some r =>
          match r.ofType 32, r.ofType 33, r.ofType 34 with
          | [v], [s], [p] => some (.seqHdr m.ts (v, s, p))
          | _, _, _ => none
        | none => none
      else
        match ConfigRecord.avcSeqHeader m.payload with
        | some ([s], [p]) => some (.seqHdr m.ts ([], s, p))
        | _ => none
    else if h.packetType = 1 then
      if h.frameType = 1 ∨ h.frameType = 2 then
        (ConfigRecord.readLengthPrefixed rest).map fun nals => .frame m.ts (h.frameType = 1) nals
      else none
    else none

/-- equality of the sets a sequence header announces, up to the unused vps of H.264 -/
def normSets (hevc : Bool) (s : Sets) : Sets := if hevc then s else ([], s.2.1, s.2.2)

def normEv (hevc : Bool) : Ev → Ev
  | .seqHdr ts s => .seqHdr ts (normSets hevc s)
  | e => e

end Lal.Av2RtmpSpec
