import LalModel.Spec.SyncSpec
import LalModel.Proof.Sync
/-
  C20 — "Concurrent sessions, API calls, ticks and shutdown are race- and deadlock-free".

  What is a THEOREM here is the logic of the synchronisation, over tables that the extractor regenerates from the
  lal source tree on every run (`Generated/C20.lean`) and an abstract machine (`Model/Sync.lean`):

  generic, proved once for every program set and every interleaving:
    acyclic_no_deadlock, lock_progress, lockset_no_race, no_close_no_abort
  about lal's tables (decided by the kernel on the regenerated data):
    lock_order_acyclic, lockset_nonempty, summary_sound, guard_in_every_row, no_send_on_closed, blocking_sends_buffered, blocking_send_under_lock_partial,
    locks_balanced, runners_classified, exemptions_current
  instantiations:
    lal_no_lock_deadlock, lal_lock_progress, lal_no_race_on_guarded_fields, lal_no_abort_on_closed_channel

  NOT theorems (trusted, see checklib/p_C20.py): that lal's goroutines are instances of programs that `conform` to the
  tables (soundness of the extractor's call graph), the Go memory model, the hand-reviewed `SyncSpec.exempt` list, and
  bounded-time completion of callbacks (`callbacks_terminate` is not stated: the machine has no notion of time).
-/
namespace Lal.Props.C20
open Lal.Sync Lal.SyncSpec

/-! ### generic theorems (re-exported so that they are audited with the property) -/

/-- Threads that acquire their locks strictly upwards along a ranking never form a wait-for cycle. -/
theorem acyclic_no_deadlock (cap : Chan → Nat) (rank : Lock → Nat) (progs : List (List Op))
    (hp : ∀ p ∈ progs, ordered rank [] p = true) {s : State} (hr : Reach cap (init progs) s) :
    ∀ i, ¬ WaitsPlus s i i :=
  Lal.Sync.acyclic_no_deadlock cap rank progs hp hr

/-- With ordered acquisition and no channel operations some thread can always execute its next operation. -/
theorem lock_progress (cap : Chan → Nat) (rank : Lock → Nat) (progs : List (List Op))
    (hp : ∀ p ∈ progs, ordered rank [] p = true) (hlo : ∀ p ∈ progs, lockOnly p = true)
    {s : State} (hr : Reach cap (init progs) s) (hu : ∃ t ∈ s.threads, t.todo ≠ []) :
    ∃ i s', next cap s i = some s' :=
  Lal.Sync.lock_progress cap rank progs hp hlo hr hu

/-- Accesses that all hold the location's guard are never co-enabled with a conflicting access. -/
theorem lockset_no_race (cap : Chan → Nat) (sel : Loc → Bool) (guard : Loc → Lock) (progs : List (List Op))
    (hp : ∀ p ∈ progs, guarded sel guard [] p = true) {s : State} (hr : Reach cap (init progs) s) :
    ∀ x, sel x = true → ¬ Race s x :=
  Lal.Sync.lockset_no_race cap sel guard progs hp hr

/-! ### facts about lal's regenerated tables -/

/-- Every acquired-while-holding pair of the generated table goes strictly upwards in the computed ranking. -/
theorem lock_order_ranked : ∀ p ∈ edges, lalRank p.1 < lalRank p.2 := by decide +kernel

/-- The acquired-while-holding relation extracted from lal (mutexes and sync.Once) has no cycle. -/
theorem lock_order_acyclic : Acyclic edges := acyclic_of_rank lalRank lock_order_ranked

/-- Every field of every tracked struct is atomic/sync/channel-typed, or never written after construction, or has a
    lock common to ALL its accesses, or is in the reviewed exemption list. A new unguarded field breaks this. -/
theorem lockset_nonempty : ∀ f ∈ unguarded, isExempt f = true := by decide +kernel

/-- The generated per-field summaries (written flag, common lock set) agree with every row of the access table. -/
theorem summary_sound : summarySound = true ∧ summariesComplete = true := by decide +kernel

/-- The guard chosen for a lock-protected field occurs in the lock set of every one of its rows. -/
theorem guard_in_every_row : ∀ r ∈ rows, sel r.1 = true → guardOf r.1 ∈ r.2.2 := by decide +kernel

/-- lal never closes a channel held in a struct field or package variable (it signals by sending). -/
theorem no_send_on_closed : Lal.Gen.C20.closes = [] := by decide

/-- Every send that can block is on a channel made with a constant capacity ≥ 1. -/
theorem blocking_sends_buffered : blockingSendsBuffered = true := by decide +kernel

/-- PARTIAL (full statement `sends_le_capacity` below is not proved): the only send that can block while a mutex may be
    held and that is not limited to one execution by a sync.Once is `group.exitChan <- struct{}{}` in Group.Dispose
    (under ServerManager.mutex; capacity 1, received once by Group.RunLoop). It cannot block as long as Dispose runs
    at most twice per group — an environment assumption, not a theorem. A new such send breaks this. -/
theorem blocking_send_under_lock_partial : riskySendChans = ["logic.Group.exitChan"] := by decide +kernel

/-- No function returns with a lock still held (the extractor's walk relies on it). -/
theorem locks_balanced : Lal.Gen.C20.unbalanced = [] := by decide

/-- Every function outside lal/pkg that is handed a lal function value is classified (runs it now / runs it later). -/
theorem runners_classified : Lal.Gen.C20.unclassifiedRunners = [] := by decide

/-- Every exemption is still needed (names a field that is unguarded in the current table); entries are generated
    constants, so an exemption of a field that no longer exists does not even elaborate. -/
theorem exemptions_current : exemptAllNeeded = true := by decide +kernel

/-! ### instantiations -/

/-- **No lock deadlock.** For ANY set of threads whose lock operations conform to lal's extracted
    acquired-while-holding table, under ANY interleaving, no reachable state has a wait-for cycle. -/
theorem lal_no_lock_deadlock (cap : Chan → Nat) (progs : List (List Op))
    (hp : ∀ p ∈ progs, conforms edges [] p = true) {s : State} (hr : Reach cap (init progs) s) :
    ∀ i, ¬ WaitsPlus s i i :=
  Lal.Sync.acyclic_no_deadlock cap lalRank progs
    (fun p h => ordered_of_conforms lock_order_ranked p [] (hp p h)) hr

/-- **Never stuck on locks.** Threads conforming to lal's lock table (and not blocked on a channel) always leave
    some thread able to move until all have finished: no interleaving leads to a state where everybody waits. -/
theorem lal_lock_progress (cap : Chan → Nat) (progs : List (List Op))
    (hp : ∀ p ∈ progs, conforms edges [] p = true) (hlo : ∀ p ∈ progs, lockOnly p = true)
    {s : State} (hr : Reach cap (init progs) s) (hu : ∃ t ∈ s.threads, t.todo ≠ []) :
    ∃ i s', next cap s i = some s' :=
  Lal.Sync.lock_progress cap lalRank progs
    (fun p h => ordered_of_conforms lock_order_ranked p [] (hp p h)) hlo hr hu

/-- **No race on lock-protected fields.** For ANY set of threads whose field accesses are rows of lal's extracted
    access table, under ANY interleaving, no two threads are ever about to perform conflicting accesses to a field
    that the table shows to be written under a common lock. -/
theorem lal_no_race_on_guarded_fields (cap : Chan → Nat) (progs : List (List Op))
    (hp : ∀ p ∈ progs, conformsAccess rows [] p = true) {s : State} (hr : Reach cap (init progs) s) :
    ∀ f, sel f = true → ¬ Race s f :=
  Lal.Sync.lockset_no_race cap sel guardOf progs
    (fun p h => guarded_of_conformsAccess guard_in_every_row p [] (hp p h)) hr

/-- **No abort on a closed channel.** Threads that never close (as lal's table shows) never abort. -/
theorem lal_no_abort_on_closed_channel (cap : Chan → Nat) (progs : List (List Op))
    (hp : ∀ p ∈ progs, ∀ c, Lal.Sync.closes c p = false) {s : State} (hr : Reach cap (init progs) s) :
    s.panicked = false :=
  (no_close_no_abort cap progs hp hr).1

/-
  NOT PROVED (kept visible):
    sends_le_capacity : for exitChan / waitChan-style channels the number of sends executed on one channel object
      never exceeds its capacity, hence no send blocks. The table gives capacity 1 and the send sites, but the number
      of DYNAMIC sends is the number of calls of Dispose, which is an environment fact (ServerManager.Dispose /
      Group.Dispose called at most twice per object). `blocking_sends_buffered` is the table-level part.
    callbacks_terminate : every admission callback / API call is a bounded sequence of steps — needs a model of the
      code executed under the locks, not only of the locks.
-/

/-! ### non-vacuity -/

-- lock ids in the generated table
def gSM : Lock := (Lal.Gen.C20.lockNames.idxOf "logic.ServerManager.mutex")
def gG : Lock := (Lal.Gen.C20.lockNames.idxOf "logic.Group.mutex")
def fPub : Loc := (Lal.Gen.C20.fieldNames.idxOf "logic.Group.rtmpPubSession")

/-- the tick: ServerManager.mutex, then Group.mutex, reads the publisher slot -/
def tickProg : List Op := [.acquire gSM, .acquire gG, .read fPub, .release gG, .release gSM]
/-- a publisher admission: ServerManager.mutex, Group.mutex, writes the publisher slot -/
def pubProg : List Op := [.acquire gSM, .acquire gG, .write fPub, .release gG, .release gSM]
/-- a relay-pull goroutine: Group.mutex only -/
def pullProg : List Op := [.acquire gG, .write fPub, .release gG]

example : [tickProg, pubProg, pullProg].all (fun p => conforms edges [] p) = true := by decide
example : [tickProg, pubProg, pullProg].all (fun p => conformsAccess rows [] p) = true := by decide
example : [tickProg, pubProg, pullProg].all lockOnly = true := by decide
example : sel fPub = true := by decide
-- a thread taking the two locks in the opposite order does NOT conform, and the machine can deadlock on it:
def badProg : List Op := [.acquire gG, .acquire gSM, .release gSM, .release gG]
example : conforms edges [] badProg = false := by decide
example : ∃ s, Reach (fun _ => 1) (init [tickProg, badProg]) s ∧ WaitsPlus s 0 0 := by
  refine ⟨_, Reach.step 1 (Reach.step 0 Reach.refl rfl) rfl, ?_⟩
  refine WaitsPlus.cons (i := 0) (j := 1) (k := 0) ⟨{ todo := [.acquire gG, .read fPub, .release gG, .release gSM], held := [gSM] },
      { todo := [.acquire gSM, .release gSM, .release gG], held := [gG] }, gG, _, rfl, rfl, rfl, ?_⟩
    (WaitsPlus.single (i := 1) (j := 0) ⟨{ todo := [.acquire gSM, .release gSM, .release gG], held := [gG] },
      { todo := [.acquire gG, .read fPub, .release gG, .release gSM], held := [gSM] }, gSM, _, rfl, rfl, rfl, ?_⟩)
  · decide
  · decide
-- an unguarded write is a race in the machine:
example : ∃ s, Reach (fun _ => 1) (init [[.write fPub], [.read fPub]]) s ∧ Race s fPub :=
  ⟨_, Reach.refl, 0, 1, _, _, true, false, by decide, rfl, rfl, rfl, rfl, Or.inl rfl⟩

end Lal.Props.C20
