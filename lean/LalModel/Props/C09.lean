import LalModel.Proof.Ts
import LalModel.Proof.Crc
import LalModel.Model.Psi
import LalModel.Generated.C09
/-
  C09 — MPEG-TS packetisation is well-formed and lossless for every frame.
  Property theorems only; helper lemmas live in LalModel/Proof/{Ts,Crc}.lean.

  `Ts.pack` models `mpegts.Frame.Pack` (tree of branch w-C09: with the two `fix:` commits),
  `Psi.packPat` / `Psi.packPmt` model `mpegts.PackPat` / `PackPmt`, `Crc.calcCrc32` models
  `mpegts.CalcCrc32` over `Gen.crcTable`, which is regenerated from pkg/mpegts/crc32.go on every run
  (as are `delay`, the PIDs, stream types and RTMP codec ids used below).
  The reader on the other side of every statement is `TsSpec`: a demultiplexer, PSI reader and CRC written from
  ISO/IEC 13818-1.
-/
namespace Lal.Props.C09
open Lal

/-- The frames the property quantifies over, as `Frame.Pack` can receive them:
    at least one byte of payload, `Cc` a `uint8`, a 13-bit PID, an audio or video stream_id (0xC0–0xEF), and
    — because ISO/IEC 13818-1 allows `PES_packet_length = 0` for video only — either a video stream_id or a PES
    packet that fits its 16-bit length field (see known finding C09-pes-length-0-non-video for the other case).
    Nothing is assumed about the length otherwise, nor about PTS / DTS (any `uint64`, equal or not) or `Key`. -/
def FrameWF (f : Ts.Frame) : Prop :=
  f.raw ≠ [] ∧ f.cc < 256 ∧ f.pid < 8192 ∧ (0xC0 ≤ f.sid ∧ f.sid ≤ 0xEF)
    ∧ (TsSpec.videoStreamId f.sid = true ∨ f.raw.length + Ts.pesHeaderSize f + 3 ≤ 65535)

instance (f : Ts.Frame) : Decidable (FrameWF f) := by unfold FrameWF; exact inferInstance

/-- Every packet `Pack` produces is 188 bytes long and starts with the sync byte; the returned buffer is their
    concatenation (so a whole number of packets). No hypothesis on the frame. -/
theorem pack_188 (f : Ts.Frame) :
    (∀ p ∈ (Ts.pack f).1, p.length = 188 ∧ p.head? = some 0x47)
    ∧ (Ts.pack f).1.flatten.length = 188 * (Ts.pack f).1.length := by
  have h := Ts.packLoop_all188 f f.raw.length true f.cc f.raw
  refine ⟨h, ?_⟩
  unfold Ts.pack at *
  generalize (Ts.packLoop f f.raw.length true f.cc f.raw).1 = l at h ⊢
  induction l with
  | nil => rfl
  | cons p ps ih =>
    have hp := (h p (by simp)).1
    have := ih (fun q hq => h q (by simp [hq]))
    simp only [List.flatten_cons, List.length_append, List.length_cons, hp, this]
    omega

/-- LOSSLESS, for every payload length ≥ 1 and every combination of key / non-key, PTS = DTS / PTS ≠ DTS, PID,
    stream id and incoming counter: the ISO 13818-1 demultiplexer accepts the packets of the frame as one PES packet of
    that PID and returns the stream id, PTS and DTS (33 bits, with lal's constant 63000-tick `delay` added to both),
    random_access_indicator = `Key`, a PCR exactly on key frames (base = DTS − delay, clamped at 0; extension 0) in the
    first packet and no such marking in any later packet,
    the declared PES_packet_length (0 = unbounded above 65535) and a byte-identical elementary payload. -/
theorem pack_demux (f : Ts.Frame) (h : FrameWF f) :
    TsSpec.demuxUnit (Ts.pack f).1
      = some { pid := f.pid, cc0 := (f.cc + 1) % 16, packets := (Ts.pack f).1.length, rai := f.key,
               pcr := if f.key then some ((if f.dts > Ts.delay then f.dts - Ts.delay else 0) % 8589934592, 0) else none,
               laterMarks := false,
               pes := { sid := f.sid,
                        declLen := if f.raw.length + Ts.pesHeaderSize f + 3 > 65535 then 0
                                   else f.raw.length + Ts.pesHeaderSize f + 3,
                        pts := some ((f.pts + Ts.delay) % 8589934592),
                        dts := some ((f.dts + Ts.delay) % 8589934592),
                        data := f.raw } } :=
  Ts.demux_pack f h.1 h.2.1 h.2.2.1 h.2.2.2.1 h.2.2.2.2

/-- Continuity counters: the i-th packet of the frame carries `Cc + 1 + i (mod 16)`, and `Frame.Cc` afterwards is
    `Cc + number of packets` (a `uint8`) — so the frame packed next on this PID continues the sequence. -/
theorem pack_cc (f : Ts.Frame) (hcc : f.cc < 256) :
    ∃ qs, TsSpec.parsePackets (Ts.pack f).1 = some qs ∧ qs.length = (Ts.pack f).1.length
      ∧ (∀ i (h : i < qs.length), qs[i].cc = (f.cc + 1 + i) % 16)
      ∧ (Ts.pack f).2 = (f.cc + qs.length) % 256 := by
  obtain ⟨qs, a, b, c, d⟩ := Ts.pack_packets f hcc
  exact ⟨qs, a, b, fun i h => (d i h).1, c⟩

/-- …across frames: if `g` is packed with the counter `f` left behind, its packets continue `f`'s numbering. -/
theorem pack_cc_across_frames (f g : Ts.Frame) (hcc : f.cc < 256) (hg : g.cc = (Ts.pack f).2) :
    ∃ qf qg, TsSpec.parsePackets (Ts.pack f).1 = some qf ∧ TsSpec.parsePackets (Ts.pack g).1 = some qg
      ∧ ∀ i (h : i < qg.length), qg[i].cc = (f.cc + 1 + (qf.length + i)) % 16 := by
  obtain ⟨qf, a, _, c, _⟩ := Ts.pack_packets f hcc
  have hgc : g.cc < 256 := by rw [hg, c]; omega
  obtain ⟨qg, a', _, _, d'⟩ := Ts.pack_packets g hgc
  refine ⟨qf, qg, a, a', fun i h => ?_⟩
  rw [(d' i h).1, hg, c]
  omega

/-- payload_unit_start_indicator is set on the first packet of the frame and on no other; all packets carry the
    frame's PID and a non-empty payload. -/
theorem pack_pusi (f : Ts.Frame) (hcc : f.cc < 256) :
    ∃ qs, TsSpec.parsePackets (Ts.pack f).1 = some qs ∧ qs.length = (Ts.pack f).1.length
      ∧ ∀ i (h : i < qs.length), qs[i].pusi = (i == 0) ∧ qs[i].pid = f.pid % 8192 ∧ qs[i].payload ≠ [] := by
  obtain ⟨qs, a, b, _, d⟩ := Ts.pack_packets f hcc
  exact ⟨qs, a, b, fun i h => (d i h).2⟩

/-- How many packets: the first takes 184 − 8 (key frame: adaptation field with PCR) − 14 or 19 (PES header with PTS or
    PTS+DTS) bytes of the frame — 170, 165, 162 or 157 —, every further one 184; the last is stuffed up to 188. -/
theorem pack_count (f : Ts.Frame) (hcc : f.cc < 256) (hraw : f.raw ≠ []) :
    (Ts.pack f).1.length
      = 1 + (f.raw.length - (184 - (if f.key then 8 else 0) - (9 + Ts.pesHeaderSize f)) + 183) / 184 := by
  rw [Ts.pack_count f hcc hraw, Ts.bodySize_true]

/-- The CRC table in pkg/mpegts/crc32.go (regenerated as `Gen.crcTable`) is the table of the Annex A polynomial
    0x04C11DB7 — entry `i` is the (byte-swapped) register after shifting byte `i` through it, all 256 entries checked by
    kernel evaluation — and therefore, for EVERY byte string and every start value, the four bytes lal stores
    (`bele.LePutUint32(CalcCrc32(init, b))`) are the big-endian CRC_32 of the bitwise definition. -/
theorem crc_table_eq_bitwise :
    (∀ i, i < 256 → Gen.crcTable.getD i 0 = Crc.bswap32 (TsSpec.crcByte 0 (b8 i)))
    ∧ (∀ (b : Bytes) (init : Nat), init < 4294967296 →
         le32 (Crc.calcCrc32 init b) = be32 (TsSpec.crc32From (Crc.bswap32 init) b))
    ∧ ∀ b : Bytes, le32 (Crc.calcCrc32 0xffffffff b) = be32 (TsSpec.crc32 b) := by
  have hc : Crc.tableCheck Gen.crcTable = true := by decide +kernel
  have ht := Crc.tableOk_of_check _ hc
  have hall : ∀ (b : Bytes) (init : Nat), init < 4294967296 →
      le32 (Crc.calcCrc32 init b) = be32 (TsSpec.crc32From (Crc.bswap32 init) b) := by
    intro b init hi
    rw [Crc.le32_eq_be32_bswap, Crc.calcCrc32, (Crc.calcCrc_spec _ ht b init hi).2]
  refine ⟨fun i hi => ?_, hall, fun b => ?_⟩
  · obtain ⟨h1, h2⟩ := ht i hi
    rw [← h2, Crc.bswap32_bswap32 _ h1]
  · exact hall b 0xffffffff (by decide)

/-- The codecs a PMT must declare for the ids `rtmp2MpegtsFilter` passes to `PackPmt`. -/
def expectedStreams (videoCodecId audioCodecId : Int) : List (Option TsSpec.Codec × Nat) :=
  (if videoCodecId = Gen.rtmpCodecIdAvc then [(some .avc, Gen.tsPidVideo)]
   else if videoCodecId = Gen.rtmpCodecIdHevc then [(some .hevc, Gen.tsPidVideo)] else [])
  ++ (if audioCodecId = Gen.rtmpSoundFormatAac then [(some .aac, Gen.tsPidAudio)]
      else if audioCodecId = Gen.rtmpSoundFormatOpus then [(some .opus, Gen.tsPidAudio)] else [])

/-- PAT and PMT, for every pair of codec ids: one 188-byte packet each; the PSI reader accepts it — long section
    syntax, section_length consistent, CRC register zero after the section (Annex A), nothing but 0xFF after it —
    the PAT maps program 1 to the PID the PMT is sent on, and the PMT declares exactly the stream's codecs
    (AVC / HEVC on the video PID, AAC / Opus on the audio PID, nothing for an absent or unknown track). -/
theorem pat_pmt_valid (videoCodecId audioCodecId : Int) :
    Psi.packPat.length = 188
    ∧ TsSpec.readPat Psi.packPat = some { transportStreamId := 1, programs := [(1, Gen.tsPidPmt)] }
    ∧ (TsSpec.parsePsiPacket Psi.packPat).map (·.2.length) = some 13
    ∧ (Psi.packPmt videoCodecId audioCodecId).length = 188
    ∧ TsSpec.readPmt (Psi.packPmt videoCodecId audioCodecId)
        = some { pid := Gen.tsPidPmt, program := 1, pcrPid := Gen.tsPidVideo,
                 streams := expectedStreams videoCodecId audioCodecId }
    -- section_length: 9 + 4 (PCR_PID, program_info_length) + 5 per stream + the 10 descriptor bytes of Opus
    ∧ (TsSpec.parsePsiPacket (Psi.packPmt videoCodecId audioCodecId)).map (·.2.length)
        = some (13 + 5 * (expectedStreams videoCodecId audioCodecId).length
                  + if audioCodecId = Gen.rtmpSoundFormatOpus then 10 else 0) := by
  refine ⟨by decide +kernel, by decide +kernel, by decide +kernel, ?_⟩
  unfold Psi.packPmt Psi.pmtElems expectedStreams
  by_cases v1 : videoCodecId = Gen.rtmpCodecIdAvc <;> by_cases v2 : videoCodecId = Gen.rtmpCodecIdHevc <;>
    by_cases a1 : audioCodecId = Gen.rtmpSoundFormatAac <;> by_cases a2 : audioCodecId = Gen.rtmpSoundFormatOpus <;>
    simp only [v1, v2, a1, a2, if_true, if_false] <;>
    exact ⟨by decide +kernel, by decide +kernel, by decide +kernel⟩

/-! ### Non-vacuity: concrete frames at the stuffing boundaries meet `FrameWF` and come back intact -/

def frame (n : Nat) (key : Bool) (pts dts cc : Nat) : Ts.Frame :=
  { pid := Gen.tsPidVideo, sid := Gen.tsStreamIdVideo, key := key, pts := pts, dts := dts, cc := cc,
    raw := (List.range n).map fun i => UInt8.ofNat (i * 7 + 1) }

/-- what the demultiplexer must return for `frame n …` -/
def recovered (f : Ts.Frame) (packets : Nat) : Option TsSpec.Unit :=
  some { pid := f.pid, cc0 := (f.cc + 1) % 16, packets := packets, rai := f.key,
         pcr := if f.key then some ((if f.dts > Ts.delay then f.dts - Ts.delay else 0) % 8589934592, 0) else none,
         laterMarks := false,
         pes := { sid := f.sid, declLen := f.raw.length + Ts.pesHeaderSize f + 3,
                  pts := some ((f.pts + Ts.delay) % 8589934592), dts := some ((f.dts + Ts.delay) % 8589934592), data := f.raw } }

-- one byte, key frame, PTS ≠ DTS: one packet, 156 bytes of stuffing next to the PCR (the S3 case)
example : FrameWF (frame 1 true 93600 90000 15)
    ∧ TsSpec.demuxUnit (Ts.pack (frame 1 true 93600 90000 15)).1 = recovered (frame 1 true 93600 90000 15) 1 := by
  decide +kernel
-- 157 = 184 − 8 − 19: a key frame with PTS+DTS fills its first packet exactly; 156 still needs one stuffing byte
example : FrameWF (frame 157 true 93600 90000 0)
    ∧ TsSpec.demuxUnit (Ts.pack (frame 157 true 93600 90000 0)).1 = recovered (frame 157 true 93600 90000 0) 1
    ∧ TsSpec.demuxUnit (Ts.pack (frame 156 true 93600 90000 0)).1 = recovered (frame 156 true 93600 90000 0) 1
    ∧ TsSpec.demuxUnit (Ts.pack (frame 158 true 93600 90000 0)).1 = recovered (frame 158 true 93600 90000 0) 2 := by
  decide +kernel
-- 162 = 184 − 8 − 14 (key, PTS only); 163 spills one byte into a second packet with 183 bytes of stuffing
example : FrameWF (frame 162 true 90000 90000 7) ∧ FrameWF (frame 163 true 90000 90000 7)
    ∧ TsSpec.demuxUnit (Ts.pack (frame 162 true 90000 90000 7)).1 = recovered (frame 162 true 90000 90000 7) 1
    ∧ TsSpec.demuxUnit (Ts.pack (frame 163 true 90000 90000 7)).1 = recovered (frame 163 true 90000 90000 7) 2 := by
  decide +kernel
-- 184 / 185, non-key, timestamps beyond 2^33 (wrap) and a counter that wraps
example : FrameWF (frame 184 false 8589934592 8589934000 255) ∧ FrameWF (frame 185 false 8589934592 8589934000 255)
    ∧ TsSpec.demuxUnit (Ts.pack (frame 184 false 8589934592 8589934000 255)).1
        = recovered (frame 184 false 8589934592 8589934000 255) 2
    ∧ TsSpec.demuxUnit (Ts.pack (frame 185 false 8589934592 8589934000 255)).1
        = recovered (frame 185 false 8589934592 8589934000 255) 2
    ∧ (Ts.pack (frame 185 false 8589934592 8589934000 255)).2 = 1 := by
  decide +kernel
-- PSI: AVC+AAC, HEVC+Opus, audio only
example : TsSpec.readPmt (Psi.packPmt Gen.rtmpCodecIdAvc Gen.rtmpSoundFormatAac)
      = some { pid := Gen.tsPidPmt, program := 1, pcrPid := Gen.tsPidVideo,
               streams := [(some .avc, Gen.tsPidVideo), (some .aac, Gen.tsPidAudio)] }
    ∧ TsSpec.readPmt (Psi.packPmt Gen.rtmpCodecIdHevc Gen.rtmpSoundFormatOpus)
      = some { pid := Gen.tsPidPmt, program := 1, pcrPid := Gen.tsPidVideo,
               streams := [(some .hevc, Gen.tsPidVideo), (some .opus, Gen.tsPidAudio)] }
    ∧ TsSpec.readPmt (Psi.packPmt (-1) Gen.rtmpSoundFormatAac)
      = some { pid := Gen.tsPidPmt, program := 1, pcrPid := Gen.tsPidVideo, streams := [(some .aac, Gen.tsPidAudio)] } := by
  decide +kernel
-- the CRC-32/MPEG-2 check value of "123456789" is 0x0376E6E7
example : TsSpec.crc32 [0x31, 0x32, 0x33, 0x34, 0x35, 0x36, 0x37, 0x38, 0x39] = 0x0376E6E7 := by decide +kernel

/-! ### The pinned tree (before the two `fix:` commits) does NOT have the property: witnesses -/

-- S3: a short key frame — the demultiplexer rejects the packet (stuffing written one byte early, PES header overwritten)
example : TsSpec.demuxUnit (Ts.PreFix.pack (frame 1 true 93600 90000 15)).1 = none := by decide +kernel
example : TsSpec.demuxUnit (Ts.PreFix.pack (frame 156 true 93600 90000 0)).1 = none := by decide +kernel
-- packPts: a timestamp with bit 30 set comes back without it (2^30 + delay is read as delay)
example : (TsSpec.demuxUnit (Ts.PreFix.pack (frame 10 false 1073741824 1073741824 0)).1).map (·.pes.pts)
    = some (some Ts.delay) := by decide +kernel

end Lal.Props.C09
