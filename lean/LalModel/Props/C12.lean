import LalModel.Proof.Seq16
import LalModel.Proof.Rtp
import LalModel.Proof.RtpStream
import LalModel.Generated.RtpConsts
/-
  C12 — RTP packetise / depacketise is lossless under size, reordering and wrap-around.
  Property theorems only; helper lemmas live in LalModel/Proof. `Gen.*` is regenerated from the lal tree on every run.
-/
namespace Lal.Props.C12
open Lal Lal.Rtp Lal.Seq16 Lal.RtpUnpack

/-- The literals used by the models are the constants of the Go source. -/
theorem consts_agree :
    Gen.rtpFixedHeaderLength = 12 ∧ Gen.defaultRtpVersion = 2 ∧ Gen.naluTypeAvcSingleMax = 23 ∧ Gen.naluTypeAvcStapa = 24 ∧
    Gen.naluTypeAvcFua = 28 ∧ Gen.naluTypeHevcAp = 48 ∧ Gen.naluTypeHevcFua = 49 ∧ Gen.positionTypes = [1, 2, 3, 4, 5, 6] := by
  decide

/-! ### sequence numbers -/

/-- `CompareSeq a b` is the sign of the difference wrapped into [-32768, 32767] … -/
theorem compareSeq_spec (a b : Nat) (ha : a < 65536) (hb : b < 65536)
    (hhalf : ((a : Int) - b + 32768) % 65536 - 32768 ≠ -32768) :
    compareSeq a b = Int.sign (((a : Int) - b + 32768) % 65536 - 32768) :=
  compareSeq_eq_sign a b ha hb hhalf

/-- … except exactly half the ring apart, where no order exists (RFC 1982): there the Go code calls the larger number older. -/
theorem compareSeq_half (a b : Nat) (ha : a < 65536) (hb : b < 65536)
    (hhalf : ((a : Int) - b + 32768) % 65536 - 32768 = -32768) :
    compareSeq a b = if a > b then -1 else 1 :=
  Seq16.compareSeq_half a b ha hb hhalf

theorem compareSeq_antisymm (a b : Nat) : compareSeq a b = - compareSeq b a := Seq16.compareSeq_antisymm a b

/-- Inside a half window (any start, wrapping allowed) `CompareSeq` is the order of the packets: total, transitive. -/
theorem compareSeq_window (s0 i j : Nat) (h : i < j + 32768 ∧ j < i + 32768) :
    compareSeq ((s0 + i) % 65536) ((s0 + j) % 65536) = if i = j then 0 else if i < j then -1 else 1 :=
  compareSeq_sq s0 i j h

/-- `SubSeq a b == 1`, the continuity test of the unpackers, is "a is the successor of b modulo 2^16". -/
theorem subSeq_one (a b : Nat) (ha : a < 65536) (hb : b < 65536) : subSeq a b = 1 ↔ a = (b + 1) % 65536 :=
  subSeq_eq_one a b ha hb

/-! ### RtpPacker.Pack: marker, sequence numbers, timestamps — as an RFC 3550 reader sees the packets -/

/-- Sequence numbers increase by one modulo 2^16 inside a `Pack` call and the packer continues from there. -/
theorem seq_succ (kind : Kind) (rate ssrc maxSize seq pt ms : Nat) (payload : Bytes) (pkts : List RtpPacket) (seq' : Nat)
    (hpt : pt < 128) (hseq : seq < 65536) (hss : ssrc < 4294967296)
    (h : packerPack kind rate ssrc maxSize seq pt ms payload = .ok (pkts, seq')) :
    seq' = (seq + pkts.length) % 65536 ∧
    ∀ i (hi : i < pkts.length), ∃ p, RtpSpec.parse pkts[i].raw = some p ∧ p.seq = (seq + i) % 65536 ∧ p.pt = pt ∧ p.ssrc = ssrc := by
  obtain ⟨ps, _, hl, hs, hall⟩ := packerPack_parse kind rate ssrc maxSize seq pt ms payload pkts seq' hpt hseq hss h
  refine ⟨by rw [hl]; exact hs, ?_⟩
  intro i hi
  have := hall i (by omega)
  rw [List.getElem?_eq_getElem hi] at this
  simp only [Option.map_some, Option.some.injEq] at this
  exact ⟨_, this, rfl, rfl, rfl⟩

/-- Only the last packet of a packed frame has the marker bit. -/
theorem marker_last (kind : Kind) (rate ssrc maxSize seq pt ms : Nat) (payload : Bytes) (pkts : List RtpPacket) (seq' : Nat)
    (hpt : pt < 128) (hseq : seq < 65536) (hss : ssrc < 4294967296)
    (h : packerPack kind rate ssrc maxSize seq pt ms payload = .ok (pkts, seq')) :
    ∀ i (hi : i < pkts.length), ∃ p, RtpSpec.parse pkts[i].raw = some p ∧ (p.marker = true ↔ i + 1 = pkts.length) := by
  obtain ⟨ps, _, hl, _, hall⟩ := packerPack_parse kind rate ssrc maxSize seq pt ms payload pkts seq' hpt hseq hss h
  intro i hi
  have := hall i (by omega)
  rw [List.getElem?_eq_getElem hi] at this
  simp only [Option.map_some, Option.some.injEq] at this
  exact ⟨_, this, by simp [hl]⟩

/-- Every packet of a frame carries the media time at the clock rate: ⌊ms·rate/1000⌋ (mod 2^32), i.e. within one tick. -/
theorem ts_rate (kind : Kind) (rate ssrc maxSize seq pt ms : Nat) (payload : Bytes) (pkts : List RtpPacket) (seq' : Nat)
    (hpt : pt < 128) (hseq : seq < 65536) (hss : ssrc < 4294967296)
    (h : packerPack kind rate ssrc maxSize seq pt ms payload = .ok (pkts, seq')) :
    ∀ i (hi : i < pkts.length), ∃ p, RtpSpec.parse pkts[i].raw = some p ∧ p.ts = ms * rate / 1000 % 4294967296 ∧
      (ms * rate / 1000 < 4294967296 → p.ts * 1000 ≤ ms * rate ∧ ms * rate < (p.ts + 1) * 1000) := by
  obtain ⟨ps, _, hl, _, hall⟩ := packerPack_parse kind rate ssrc maxSize seq pt ms payload pkts seq' hpt hseq hss h
  intro i hi
  have := hall i (by omega)
  rw [List.getElem?_eq_getElem hi] at this
  simp only [Option.map_some, Option.some.injEq] at this
  refine ⟨_, this, rfl, ?_⟩
  intro hlt
  show rtpTimestamp ms rate * 1000 ≤ ms * rate ∧ ms * rate < (rtpTimestamp ms rate + 1) * 1000
  unfold rtpTimestamp
  omega

/-! ### payload packers against the RFC reference depacketisers -/

/-- `PackNal` over a sequence of NAL units (what `RtpPacker.Pack` is called with, one unit per call). -/
def packNals (hevc : Bool) (maxSize : Nat) : List Bytes → GoM (List Bytes)
  | [] => .ok []
  | n :: ns =>
    match packNal hevc n maxSize, packNals hevc maxSize ns with
    | .ok a, .ok b => .ok (a ++ b)
    | .error e, _ => .error e
    | _, .error e => .error e

/-- Every video packet respects the payload limit. -/
theorem fu_size (hevc : Bool) (nal : Bytes) (maxSize : Nat) (hwf : NalWF hevc nal maxSize) :
    ∃ ps, packNal hevc nal maxSize = .ok ps ∧ ∀ p ∈ ps, p.length ≤ maxSize :=
  ⟨_, packNal_ok hevc nal maxSize (hwf.fits), nalPayloads_size hevc nal maxSize (hwf.fits)⟩

/-- H.264: for every NAL unit of length ≥ 1 (every type in the FU case, every NRI) and every payload limit above the
    two FU-A octets, the RFC 6184 depacketiser returns the units byte for byte, in order, for every length
    relative to the limit. -/
theorem fu_roundtrip_avc (nals : List Bytes) (maxSize : Nat) (hwf : ∀ n ∈ nals, AvcNalWF n maxSize) :
    ∃ ps, packNals false maxSize nals = .ok ps ∧ RtpSpec.depack6184 ps = some nals := by
  refine ⟨nals.flatMap fun n => nalPayloads false n maxSize, ?_, RtpSpec.run6184_nals maxSize nals hwf⟩
  induction nals with
  | nil => rfl
  | cons n ns ih =>
    have h1 : NalWF false n maxSize := by simpa [NalWF] using hwf n (by simp)
    simp only [packNals, packNal_ok false n maxSize h1.fits, ih (fun m hm => hwf m (by simp [hm])), List.flatMap_cons]

/-- H.265: both NAL header bytes (F, type, layer id, temporal id) survive, for every header value. -/
theorem fu_roundtrip_hevc (nals : List Bytes) (maxSize : Nat) (hwf : ∀ n ∈ nals, HevcNalWF n maxSize) :
    ∃ ps, packNals true maxSize nals = .ok ps ∧ RtpSpec.depack7798 ps = some nals := by
  refine ⟨nals.flatMap fun n => nalPayloads true n maxSize, ?_, RtpSpec.run7798_nals maxSize nals hwf⟩
  induction nals with
  | nil => rfl
  | cons n ns ih =>
    have h1 : NalWF true n maxSize := by simpa [NalWF] using hwf n (by simp)
    simp only [packNals, packNal_ok true n maxSize h1.fits, ih (fun m hm => hwf m (by simp [hm])), List.flatMap_cons]

/-- AAC: one AU-header section per frame (RFC 3640, 13-bit size / 3-bit index); the reference reader returns the frames. -/
theorem aac_roundtrip (frames : List Bytes) (maxSize : Nat) (hm : 0 < maxSize)
    (hwf : ∀ f ∈ frames, 0 < f.length ∧ f.length < 8192) :
    RtpSpec.depack3640 (frames.flatMap fun f => aacPack f maxSize) = some frames :=
  RtpSpec.run3640_frames maxSize hm frames hwf

/-- G.711 / Opus: the payload is the frame. -/
theorem raw_roundtrip (frame : Bytes) (maxSize : Nat) (hm : 0 < maxSize) (h0 : 0 < frame.length) :
    rawPack frame maxSize = [frame] := by
  have : frame ≠ [] := by intro e; subst e; simp at h0
  unfold rawPack; rw [if_neg (by simp [this]; omega)]

/-! ### lal's own depacketiser -/

/-- lal's unpacker on the packets of one NAL unit (as stored in the list after `CalcPositionIfNeeded`), whatever
    follows them: exactly that unit comes out (AVCC: 4-byte length, then the NAL unit with its header byte(s)),
    all its packets and only they are consumed — single packet or FU-A / FU run, every type, NRI, layer id, tid. -/
theorem fu_roundtrip_lal (hevc : Bool) (rate pt ssrc maxSize seq ts : Nat) (nal : Bytes) (T : List RtpPacket)
    (hr : 1000 ≤ rate ∧ rate < 4294967296000) (hs : seq < 65536) (hwf : NalWF hevc nal maxSize) :
    (protoAvcHevc hevc rate).tryUnpackOne
        ((packLoop pt ts ssrc seq (nalPayloads hevc nal maxSize)).map (posOf (protoAvcHevc hevc rate)) ++ T)
      = .ok (some ⟨[{ ts := msOf rate ts, payload := be32 nal.length ++ nal }],
                   (seq + (packLoop pt ts ssrc seq (nalPayloads hevc nal maxSize)).length - 1) % 65536, T,
                   (packLoop pt ts ssrc seq (nalPayloads hevc nal maxSize)).length⟩) :=
  (unit_video hevc rate pt ssrc maxSize seq ts nal hr hs hwf).a1 T

/-! ### reordering, duplication, wrap-around -/

/-- The packets of the frames, numbered in sending order. -/
def sent (kind : Kind) (rate ssrc maxSize pt seq0 : Nat) (frames : List (Nat × Bytes)) : Nat → RtpPacket :=
  rawAt (streamU kind rate ssrc maxSize pt seq0 frames)

/-- packets per frame -/
def unitLens (kind : Kind) (maxSize : Nat) (frames : List (Nat × Bytes)) : List Nat :=
  frames.map fun f => (payloadsOf kind f.2 maxSize).length

/-- Frames packed by one `RtpPacker` (any initial sequence number, wrap-around allowed), then fed to a fresh
    `RtpUnpackContainer` in any order `σ` (indices of the packets, duplicates allowed) such that
      * the first arrival is the first packet (S23: otherwise the container starts in the middle),
      * every packet arrives at least once,
      * after every arrival fewer than `listMax` packets are waiting (`inWindow`, the reorder window),
    give exactly the output of the in-order feed: every frame once, in order, byte for byte. -/
theorem reorder_invariant (kind : Kind) (rate ssrc maxSize pt seq0 listMax : Nat) (frames : List (Nat × Bytes))
    (pkts : List (List RtpPacket)) (σ : List Nat)
    (hr : 1000 ≤ rate ∧ rate < 4294967296000) (hs0 : seq0 < 65536)
    (hwf : ∀ f ∈ frames, UnitWF kind f.2 maxSize)
    (hpack : packerPackAll kind rate ssrc maxSize pt seq0 frames = .ok pkts)
    (hn : pkts.flatten.length ≤ 32768)
    (hσ : ∀ i ∈ σ, i < pkts.flatten.length) (hfirst : σ.head? = some 0) (hall : ∀ i, i < pkts.flatten.length → i ∈ σ)
    (hwin : RtpSpec.inWindow listMax (pkts.map List.length) 0 [] σ = true)
    (hwin0 : RtpSpec.inWindow listMax (pkts.map List.length) 0 [] (List.range pkts.flatten.length) = true) :
    ∃ l₁ l₂,
      feedAll (protoOf kind rate) { maxSize := listMax } (σ.map fun i => pkts.flatten.getD i default)
        = .ok (l₁, frames.map (expected kind rate)) ∧
      feedAll (protoOf kind rate) { maxSize := listMax } ((List.range pkts.flatten.length).map fun i => pkts.flatten.getD i default)
        = .ok (l₂, frames.map (expected kind rate)) := by
  have hp := packerPackAll_ok kind rate ssrc maxSize pt frames seq0 hwf
  rw [hp] at hpack
  simp only [Except.ok.injEq] at hpack
  subst hpack
  have hflat : ((streamU kind rate ssrc maxSize pt seq0 frames).map (·.1)).flatten
      = flat (streamU kind rate ssrc maxSize pt seq0 frames) := rfl
  have hlens : ((streamU kind rate ssrc maxSize pt seq0 frames).map (·.1)).map List.length
      = (streamU kind rate ssrc maxSize pt seq0 frames).map (·.1.length) := by rw [List.map_map]; rfl
  rw [hflat] at hn hσ hall hwin0 ⊢
  rw [hlens] at hwin hwin0
  have h0 : 0 < (flat (streamU kind rate ssrc maxSize pt seq0 frames)).length := by
    cases σ with
    | nil => simp at hfirst
    | cons x xs => simp at hfirst; subst hfirst; exact hσ 0 (by simp)
  obtain ⟨l₁, h1⟩ := feedAll_stream kind rate ssrc maxSize pt seq0 listMax frames σ hr hs0 hwf hn hσ hfirst hall hwin
  obtain ⟨l₂, h2⟩ := feedAll_stream kind rate ssrc maxSize pt seq0 listMax frames
    (List.range (flat (streamU kind rate ssrc maxSize pt seq0 frames)).length) hr hs0 hwf hn
    (fun i hi => by simpa using hi)
    (by
      obtain ⟨k, hk⟩ : ∃ k, (flat (streamU kind rate ssrc maxSize pt seq0 frames)).length = k + 1 := ⟨_, (Nat.succ_pred_eq_of_pos h0).symm⟩
      rw [hk]; simp [List.range_succ_eq_map])
    (fun i hi => by simpa using hi) hwin0
  exact ⟨l₁, l₂, h1, h2⟩

/-- The excluded point is real (S23): three single-packet H.264 units, the second packet overtakes the first —
    the first unit is lost (dropped as stale), although the order is well inside the window. -/
theorem first_arrival_matters :
    ∃ (pkts : List (List RtpPacket)),
      packerPackAll .avc 90000 1 100 96 65535 [(0, [0x65, 1]), (40, [0x41, 2]), (80, [0x41, 3])] = .ok pkts ∧
      RtpSpec.inWindow 8 (pkts.map List.length) 0 [] [1, 0, 2] = true ∧
      ((feedAll (protoOf .avc 90000) { maxSize := 8 } ([1, 0, 2].map fun i => pkts.flatten.getD i default)).toOption.map (·.2))
        ≠ ((feedAll (protoOf .avc 90000) { maxSize := 8 } ([0, 1, 2].map fun i => pkts.flatten.getD i default)).toOption.map (·.2)) := by
  refine ⟨_, rfl, by decide, by decide⟩

/-! ### non-vacuity -/

/-- a stream with single packets and FU runs, starting at 65534 (wraps), fed with reordering and duplicates -/
def exFrames : List (Nat × Bytes) := [(0, [0x65, 1, 2, 3, 4, 5, 6, 7]), (40, [0x41, 9]), (80, [0x41, 1, 2, 3, 4, 5])]
def exOrder : List Nat := [0, 2, 1, 1, 4, 3, 0, 5, 4]

example : (∀ f ∈ exFrames, UnitWF .avc f.2 5) ∧
    (packerPackAll .avc 90000 1 5 96 65534 exFrames).toOption.map (fun p => p.map List.length) = some [3, 1, 2] ∧
    (∀ i ∈ exOrder, i < 6) ∧ exOrder.head? = some 0 ∧ (∀ i, i < 6 → i ∈ exOrder) ∧
    RtpSpec.inWindow 4 [3, 1, 2] 0 [] exOrder = true ∧ RtpSpec.inWindow 4 [3, 1, 2] 0 [] (List.range 6) = true := by
  decide


example : AvcNalWF [0x65, 1, 2, 3, 4, 5, 6, 7] 5 ∧ AvcNalWF [0x7c, 1, 2, 3] 3 ∧ AvcNalWF [0x41] 1200 := by decide
example : HevcNalWF [0x43, 0x2a, 1, 2, 3, 4, 5, 6] 5 ∧ HevcNalWF [0xff, 0xff, 9, 9, 9] 4 ∧ HevcNalWF [0x5e, 0x07] 2 := by decide
example : (packNals true 5 [[0x43, 0x2a, 1, 2, 3, 4, 5, 6], [0x40, 0x01]]).toOption =
    some [[0x63, 0x2a, 0xa1, 1, 2], [0x63, 0x2a, 0x21, 3, 4], [0x63, 0x2a, 0x61, 5, 6], [0x40, 0x01]] := by decide
example : RtpSpec.depack7798 [[0x63, 0x2a, 0xa1, 1, 2], [0x63, 0x2a, 0x21, 3, 4], [0x63, 0x2a, 0x61, 5, 6], [0x40, 0x01]]
    = some [[0x43, 0x2a, 1, 2, 3, 4, 5, 6], [0x40, 0x01]] := by decide
example : (packerPack .avc 90000 7 4 65535 96 40 [0x65, 1, 2, 3, 4]).toOption.map (fun r => (r.1.map (·.raw), r.2)) =
    some ([[0x80, 0x60, 0xff, 0xff, 0, 0, 0x0e, 0x10, 0, 0, 0, 7, 0x7c, 0x85, 1, 2],
           [0x80, 0xe0, 0x00, 0x00, 0, 0, 0x0e, 0x10, 0, 0, 0, 7, 0x7c, 0x45, 3, 4]], 1) := by decide
example : compareSeq 0 65535 = 1 ∧ compareSeq 65535 0 = -1 ∧ compareSeq 0 32768 = 1 ∧ compareSeq 32768 0 = -1 := by decide

end Lal.Props.C12
