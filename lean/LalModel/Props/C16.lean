import LalModel.Proof.GroupFlv
import LalModel.Proof.GopRing
import LalModel.Proof.GroupRecord
import LalModel.Proof.TsGopRing
/-
  C16 — When an input ends every output is finalised once and the name starts clean.
  Property theorems on the group model (`Group.step … .delPub` = Group.delIn, tied to a real logic.Group
  by the correspondence check). What the model does not contain (HLS / TS outputs, relay push, the idle
  check, group removal, goroutines and descriptors) is listed in checklib/p_C16.py.
-/
namespace Lal.Props.C16
open Lal Lal.Group

/-- The name starts clean: when the accepted input ends, in ANY reachable state, no cached metadata,
    sequence header or GOP survives (a later joiner's prologue is empty until the next input publishes),
    the codec information is forgotten, the FLV recording is closed, the merge writer holds nothing,
    and no subscriber that stays keeps waiting for the finished input's key frame. -/
theorem clean_restart (cfg : Cfg) (evs : List Ev) (h : (run cfg evs).hasIn = true) :
    let s' := step (run cfg evs) .delPub
    prologue s'.rtmpGop = [] ∧ prologue s'.flvGop = [] ∧ s'.videoCodecSet = false ∧ s'.recording = none ∧
    s'.hasIn = false ∧ (cfg.mergeSize > 0 → s'.merge.bs.flatten = []) ∧
    (∀ x ∈ s'.rtmpSubs, x.waitKey = false) ∧ (∀ x ∈ s'.flvSubs, x.waitKey = false) := by
  intro s'
  obtain ⟨hF, hI⟩ := frun_inv cfg evs
  obtain ⟨hcr, hcf⟩ := run_caches cfg evs
  have hcfg := run_cfg cfg evs
  have es : s' = afterDelIn (if (run cfg evs).cfg.mergeSize > 0 then (run cfg evs).mergeFlush else run cfg evs)
      (run cfg evs).pubLog.length := by
    simp only [s', step, h, Bool.not_true, Bool.false_eq_true, if_false]
  have hg : (if (run cfg evs).cfg.mergeSize > 0 then (run cfg evs).mergeFlush else run cfg evs).rtmpGop = (run cfg evs).rtmpGop ∧
      (if (run cfg evs).cfg.mergeSize > 0 then (run cfg evs).mergeFlush else run cfg evs).flvGop = (run cfg evs).flvGop := by
    split
    · exact ⟨(flush_effect _ hI).1.rtmpGop, (flush_effect _ hI).1.flvGop⟩
    · exact ⟨rfl, rfl⟩
  have hpro : ∀ g, GopCache.WF g → prologue (GopCache.clear g) = [] := by
    intro g hw
    rw [show prologue (GopCache.clear g) = (GopCache.clear g).metaWithout.toList ++ (GopCache.clear g).vsh.toList ++
      (GopCache.clear g).ash.toList ++ (GopCache.gops (GopCache.clear g)).flatten by simp [prologue, GopCache.allGopData_eq]]
    rw [GopCache.gops_clear g hw]; simp [GopCache.clear]
  have hstop : ∀ n (l : List Sub), ∀ x ∈ l.map (stopWaiting n), x.waitKey = false := by
    intro n l x hx
    obtain ⟨y, _, rfl⟩ := List.mem_map.mp hx
    simp only [stopWaiting]
    by_cases hw : y.waitKey = true
    · simp [hw]
    · simp [hw]
  rw [es]
  refine ⟨?_, ?_, rfl, rfl, rfl, ?_, ?_, ?_⟩
  · show prologue (GopCache.clear _) = []
    rw [hg.1]; exact hpro _ hcr.wf
  · show prologue (GopCache.clear _) = []
    rw [hg.2]; exact hpro _ hcf.wf
  · intro hm
    have hm' : (run cfg evs).cfg.mergeSize > 0 := by rw [hcfg]; exact hm
    show (if (run cfg evs).cfg.mergeSize > 0 then (run cfg evs).mergeFlush else run cfg evs).merge.bs.flatten = []
    rw [if_pos hm']
    exact (flush_effect _ hI).2.2.1
  · exact hstop _ _
  · exact hstop _ _

/-- …and an input that ends is the only thing that resets the stream: a subscriber's bytes already
    written are never taken back, and after the restart a subscriber that stayed keeps exactly what it
    had (its contiguous run simply continues with the next input — C01). Stated for RTMP subscribers:
    the invariant of C01 holds again in the state after `delIn`. -/
theorem restart_keeps_invariant (cfg : Cfg) (evs : List Ev) :
    Inv (step (run cfg evs) .delPub) ∧ FInv (step (run cfg evs) .delPub) := by
  obtain ⟨hF, hI⟩ := frun_inv cfg evs
  exact ⟨step_inv _ _ hI, fstep_inv _ _ hF hI⟩

/-- The FLV recording is finalised exactly once and parses completely: when the input ends the recording
    that was open holds the header and the tags of everything published since it was opened, it is no
    longer the current recording, and no later event writes to it again — whatever follows (`more`). -/
theorem recording_finalised_once (cfg : Cfg) (evs more : List Ev) (r : Nat)
    (hr : (run cfg evs).recording = some r) :
    let s1 := run cfg (evs ++ [.delPub])
    s1.recording = none ∧
    (∃ a, a ≤ s1.pubLog.length ∧ s1.bytes .record r = Gen.flvHeader ++ rawTags (Group.slice s1.pubLog a s1.pubLog.length)) ∧
    (∃ a b, a ≤ b ∧ (run cfg (evs ++ [.delPub] ++ more)).bytes .record r =
        Gen.flvHeader ++ rawTags (Group.slice (run cfg (evs ++ [.delPub] ++ more)).pubLog a b)) := by
  intro s1
  have h0 := rrun_inv cfg evs
  obtain ⟨hlt, a, ha, hb⟩ := h0.open_ r hr
  have hin : (run cfg evs).hasIn = true := h0.needsIn (by rw [hr]; rfl)
  have hI := (frun_inv cfg evs).2
  have es1 : s1 = step (run cfg evs) .delPub := by simp [s1, run, List.foldl_append]
  have hpl : s1.pubLog = (run cfg evs).pubLog := by
    rw [es1]; have := step_published (run cfg evs) .delPub hI; simpa using congrArg Prod.snd this
  have hrec : s1.recording = none := by
    rw [es1]; simp only [step, hin, Bool.not_true, Bool.false_eq_true, if_false]; rfl
  have hbytes : s1.bytes .record r = (run cfg evs).bytes .record r := by
    rw [es1]; simp only [step, hin, Bool.not_true, Bool.false_eq_true, if_false]
    show (if (run cfg evs).cfg.mergeSize > 0 then (run cfg evs).mergeFlush else run cfg evs).bytes .record r = _
    split
    · rw [(flush_effect _ hI).2.2.2.2]; simp
    · rfl
  refine ⟨hrec, ⟨a, by rw [hpl]; exact ha, by rw [hbytes, hpl]; exact hb⟩, ?_⟩
  have h2 := rrun_inv cfg (evs ++ [.delPub] ++ more)
  have hnr : r < (run cfg (evs ++ [.delPub] ++ more)).nextRecord ∨ True := Or.inr trivial
  by_cases hc : (run cfg (evs ++ [.delPub] ++ more)).recording = some r
  · obtain ⟨_, a', ha', hb'⟩ := h2.open_ r hc
    exact ⟨a', _, ha', hb'⟩
  · by_cases hlt2 : r < (run cfg (evs ++ [.delPub] ++ more)).nextRecord
    · obtain ⟨a', b', h1, _, h3⟩ := h2.closed r hlt2 hc
      exact ⟨a', b', h1, h3⟩
    · have := h2.future r (by omega)
      -- cannot happen (nextRecord never decreases), but the statement holds trivially with an empty file only if the
      -- header were absent; we show nextRecord is monotone instead
      exact absurd this (by
        intro _; exact hlt2 (Nat.lt_of_lt_of_le hlt (by
          have := foldl_nextRecord_mono ([.delPub] ++ more) (run cfg evs) hI
          simpa [run, List.foldl_append] using this)))

/-- HTTP-TS: a later publisher starts clean. Whatever the history before the input ended (`Clear()`), the GOP cache of
    the HTTP-TS consumers afterwards holds exactly what the history SINCE then puts there: nothing of the earlier input
    can be replayed to a consumer of the later one. -/
theorem ts_cache_clean_after_input_ends (gopNum cap : Nat) (before after : List GopRing.TsEv) :
    ∃ r, GopRing.tsRun (GopRing.Ring.new gopNum cap) (before ++ [.clear] ++ after) = .ok r ∧
      GopRing.tsGops r = after.foldl (GopRing.tsSpec gopNum cap) [] := by
  obtain ⟨r, e, _, g⟩ := GopRing.tsRun_refines gopNum cap (before ++ [.clear] ++ after) (GopRing.Ring.new gopNum cap)
    (GopRing.Ring.new_wf gopNum cap) rfl rfl
  refine ⟨r, e, ?_⟩
  rw [g, GopRing.ts_new_empty, List.foldl_append, List.foldl_append]
  rfl

/-- non-vacuity: a GOP cached before the input ended is gone, the later input's GOP is there -/
example : (GopRing.tsRun (GopRing.Ring.new 2 0) [.feed [1] true, .feed [2] false, .clear, .feed [9] true]).toOption.map GopRing.tsGops
    = some [[[9]]] := by decide

end Lal.Props.C16
