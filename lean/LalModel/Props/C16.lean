import LalModel.Proof.GroupFlv
import LalModel.Proof.GopRing
/-
  C16 — When an input ends every output is finalised once and the name starts clean.
  Property theorems on the group model (`Group.step … .delPub` = Group.delIn, tied to a real logic.Group
  by the correspondence check). What the model does not contain (HLS / TS outputs, relay push, the idle
  check, group removal, goroutines and descriptors) is listed in checklib/p_C16.py.
-/
namespace Lal.Props.C16
open Lal Lal.Group

/-- The name starts clean: when the accepted input ends, in ANY reachable state, no cached metadata,
    sequence header or GOP survives (a later joiner's prologue is empty until the next input publishes),
    the codec information is forgotten, the FLV recording is closed, the merge writer holds nothing,
    and no subscriber that stays keeps waiting for the finished input's key frame. -/
theorem clean_restart (cfg : Cfg) (evs : List Ev) (h : (run cfg evs).hasIn = true) :
    let s' := step (run cfg evs) .delPub
    prologue s'.rtmpGop = [] ∧ prologue s'.flvGop = [] ∧ s'.videoCodecSet = false ∧ s'.recording = none ∧
    s'.hasIn = false ∧ (cfg.mergeSize > 0 → s'.merge.bs.flatten = []) ∧
    (∀ x ∈ s'.rtmpSubs, x.waitKey = false) ∧ (∀ x ∈ s'.flvSubs, x.waitKey = false) := by
  intro s'
  obtain ⟨hF, hI⟩ := frun_inv cfg evs
  obtain ⟨hcr, hcf⟩ := run_caches cfg evs
  have hcfg := run_cfg cfg evs
  have es : s' = afterDelIn (if (run cfg evs).cfg.mergeSize > 0 then (run cfg evs).mergeFlush else run cfg evs)
      (run cfg evs).pubLog.length := by
    simp only [s', step, h, Bool.not_true, Bool.false_eq_true, if_false]
  have hg : (if (run cfg evs).cfg.mergeSize > 0 then (run cfg evs).mergeFlush else run cfg evs).rtmpGop = (run cfg evs).rtmpGop ∧
      (if (run cfg evs).cfg.mergeSize > 0 then (run cfg evs).mergeFlush else run cfg evs).flvGop = (run cfg evs).flvGop := by
    split
    · exact ⟨(flush_effect _ hI).1.rtmpGop, (flush_effect _ hI).1.flvGop⟩
    · exact ⟨rfl, rfl⟩
  have hpro : ∀ g, GopCache.WF g → prologue (GopCache.clear g) = [] := by
    intro g hw
    rw [show prologue (GopCache.clear g) = (GopCache.clear g).metaWithout.toList ++ (GopCache.clear g).vsh.toList ++
      (GopCache.clear g).ash.toList ++ (GopCache.gops (GopCache.clear g)).flatten by simp [prologue, GopCache.allGopData_eq]]
    rw [GopCache.gops_clear g hw]; simp [GopCache.clear]
  have hstop : ∀ n (l : List Sub), ∀ x ∈ l.map (stopWaiting n), x.waitKey = false := by
    intro n l x hx
    obtain ⟨y, _, rfl⟩ := List.mem_map.mp hx
    simp only [stopWaiting]
    by_cases hw : y.waitKey = true
    · simp [hw]
    · simp [hw]
  rw [es]
  refine ⟨?_, ?_, rfl, rfl, rfl, ?_, ?_, ?_⟩
  · show prologue (GopCache.clear _) = []
    rw [hg.1]; exact hpro _ hcr.wf
  · show prologue (GopCache.clear _) = []
    rw [hg.2]; exact hpro _ hcf.wf
  · intro hm
    have hm' : (run cfg evs).cfg.mergeSize > 0 := by rw [hcfg]; exact hm
    show (if (run cfg evs).cfg.mergeSize > 0 then (run cfg evs).mergeFlush else run cfg evs).merge.bs.flatten = []
    rw [if_pos hm']
    exact (flush_effect _ hI).2.2.1
  · exact hstop _ _
  · exact hstop _ _

/-- …and an input that ends is the only thing that resets the stream: a subscriber's bytes already
    written are never taken back, and after the restart a subscriber that stayed keeps exactly what it
    had (its contiguous run simply continues with the next input — C01). Stated for RTMP subscribers:
    the invariant of C01 holds again in the state after `delIn`. -/
theorem restart_keeps_invariant (cfg : Cfg) (evs : List Ev) :
    Inv (step (run cfg evs) .delPub) ∧ FInv (step (run cfg evs) .delPub) := by
  obtain ⟨hF, hI⟩ := frun_inv cfg evs
  exact ⟨step_inv _ _ hI, fstep_inv _ _ hF hI⟩

end Lal.Props.C16
