import LalModel.Proof.MsgClass
import LalModel.Proof.GopRingTotal
import LalModel.Proof.SeqHeaderTotal
import LalModel.Proof.TsRemux
import LalModel.Proof.RtspRemux
import LalModel.Proof.DummyAudio
import LalModel.Proof.Fanout
import LalModel.Proof.Opaque
/-
  C05 — no published media payload can terminate the server.
  Property theorems only; helper lemmas live in LalModel/Proof.

  All statements are about the tree with the six `fix:` commits of branch w-C05; the pinned behaviour is kept in
  `MsgClass.Pinned`, `SeqHeader.hevcParseRecordPinned`, `DummyAudio.Pinned` with witnesses below.
  `Ok Q x` = the modelled Go call returns normally (no run-time failure, no error) with a result satisfying `Q`.
-/
namespace Lal.Props.C05
open Lal Lal.MsgClass

/-! ## 1. the classification helpers -/

/-- `classify_total`: whatever the payload (empty, 1..5 bytes, any first byte, any enhanced-RTMP header), none of the
    classification helpers of `base.RtmpMsg` reaches a Go run-time failure; each returns the value of its closed form. -/
theorem classify_total (m : Msg) :
    isAvcKeySeqHeader m = .ok (isAvcKeySeqHeaderP m) ∧ isHevcKeySeqHeader m = .ok (isHevcKeySeqHeaderP m)
    ∧ isEnhanced m = .ok (isEnhancedP m) ∧ isVideoKeySeqHeader m = .ok (isVideoKeySeqHeaderP m)
    ∧ isAvcKeyNalu m = .ok (isAvcKeyNaluP m) ∧ isHevcKeyNalu m = .ok (isHevcKeyNaluP m)
    ∧ isVideoKeyNalu m = .ok (isVideoKeyNaluP m) ∧ isEnchanedHevcNalu m = .ok (isEnchanedHevcNaluP m)
    ∧ getEnchanedHevcNaluIndex m = .ok (getEnchanedHevcNaluIndexP m) ∧ isAacSeqHeader m = .ok (isAacSeqHeaderP m)
    ∧ videoCodecId m = .ok (videoCodecIdP m) ∧ audioCodecId m = .ok (audioCodecIdP m)
    ∧ cts m = .ok (ctsP m) ∧ pts m = .ok (ptsP m) :=
  ⟨isAvcKeySeqHeader_eq m, isHevcKeySeqHeader_eq m, isEnhanced_eq m, isVideoKeySeqHeader_eq m, isAvcKeyNalu_eq m,
   isHevcKeyNalu_eq m, isVideoKeyNalu_eq m, isEnchanedHevcNalu_eq m, getEnchanedHevcNaluIndex_eq m, isAacSeqHeader_eq m,
   videoCodecId_eq m, audioCodecId_eq m, cts_eq m, pts_eq m⟩

/-- S6, the pinned tree: a one-byte video message panics the helper the GOP cache calls on every message, a one-byte
    enhanced-RTMP header panics `VideoCodecId` (called by the TS probe filter), a one-byte AAC message panics
    `IsAacSeqHeader`, a six-byte enhanced CodedFrames message panics `Cts`. -/
example : Pinned.isVideoKeySeqHeader ⟨9, 0, [0x17]⟩ = .error (.panic "IsAvcKeySeqHeader[1]") := by decide
example : Pinned.videoCodecId ⟨9, 0, [0x8f]⟩ = .error (.panic "VideoCodecId[1]") := by decide
example : Pinned.isAacSeqHeader ⟨8, 0, [0xaf]⟩ = .error (.panic "IsAacSeqHeader[1]") := by decide
example : Pinned.cts ⟨9, 0, [0x91, 0x68, 0x76, 0x63, 0x31, 0]⟩ = .error (.panic "Cts:BeUint24") := by decide
/-- … and the same inputs on the fixed tree -/
example : isVideoKeySeqHeader ⟨9, 0, [0x17]⟩ = .ok false ∧ videoCodecId ⟨9, 0, [0x8f]⟩ = .ok 7
    ∧ isAacSeqHeader ⟨8, 0, [0xaf]⟩ = .ok false ∧ cts ⟨9, 0, [0x91, 0x68, 0x76, 0x63, 0x31, 0]⟩ = .ok 0 := by decide

/-! ## 2. sequence-header parsers (group statistics, TS and RTSP remuxers) -/

/-- `seqheader_total`: no byte string makes an AVC / HEVC / enhanced-HEVC sequence-header parser, the Annex-B
    fallback, or `NewAscContext` reach a run-time failure (they may return an error). `avc.ParseSps` and
    `hevc.ParseSps` recover the bit reader's failure (`Sps.parseSps`, `HevcPs.parseSps`). -/
theorem seqheader_total (p : Bytes) :
    NoPanicB (SeqHeader.avcParse p) ∧ NoPanicB (SeqHeader.avcSeqHeader2Annexb p)
    ∧ NoPanicB (SeqHeader.hevcParse p) ∧ NoPanicB (SeqHeader.hevcSeqHeader2Annexb p)
    ∧ NoPanicB (SeqHeader.hevcParseEnhanced p) ∧ NoPanicB (SeqHeader.hevcEnhancedSeqHeader2Annexb p)
    ∧ NoPanicB (Aac.ascUnpack p) ∧ NoPanicB (Sps.parseSps p) ∧ NoPanicB (HevcPs.parseSps p {}) :=
  ⟨SeqHeader.avcParse_np p, SeqHeader.avcSeqHeader2Annexb_np p, SeqHeader.hevcParse_np p, SeqHeader.hevcSeqHeader2Annexb_np p,
   SeqHeader.hevcParseEnhanced_np p, SeqHeader.hevcEnhancedSeqHeader2Annexb_np p, Aac.ascUnpack_np p, Fanout.parseSps_np p,
   Fanout.hevcParseSps_np p {}⟩

/-- S6, the pinned tree: the record parser reached from the enhanced path indexes `payload[27]` of a 6-byte message;
    the bit reader fails on the SPS `67 42 00 1e ff` (exp-Golomb code word `1` as the last bit) … -/
example : SeqHeader.hevcParseRecordPinned [0x90, 0x68, 0x76, 0x63, 0x31, 0] = .error (.panic "hevc.record[27]") := by decide
example : Sps.parseSpsWith .fixed [0x67, 0x42, 0x00, 0x1e, 0xff] = .error (.panic "nazabits.ReadBits: core[index]") := by decide
/-- … which the fixed tree turns into errors -/
example : SeqHeader.hevcParseEnhanced [0x90, 0x68, 0x76, 0x63, 0x31, 0] = .error .err
    ∧ Sps.parseSps [0x67, 0x42, 0x00, 0x1e, 0xff] = .error .err := by decide

/-! ## 3. GOP caches -/

/-- `gopcache_total`: `GopCache.Feed` (RTMP and HTTP-FLV caches) returns normally for every message and every cache
    state whose ring indices are inside the ring, and keeps them inside (so the hypothesis holds for ever, starting
    from `NewGopCache`). -/
theorem gopcache_total {α : Type} (c : GopRing.Cache α) (h : c.r.WF) (m : Msg) (b : α) :
    c.feed m b = .ok (c.feedP m b) ∧ (c.feedP m b).1.r.WF :=
  ⟨GopRing.Cache.feed_eq c h m b, GopRing.Cache.feedP_wf c h m b⟩

/-- the invariant holds initially (non-vacuity) … -/
example : (GopRing.Cache.new 2 0 : GopRing.Cache Nat).r.WF := GopRing.Ring.new_wf 2 0
/-- … and the TS cache has the same property -/
theorem gopcache_mpegts_total {α : Type} (r : GopRing.Ring α) (h : r.WF) (b : α) (boundary : Bool) :
    ∃ r', r.feedMpegts b boundary = .ok r' ∧ r'.WF := GopRing.Ring.feedMpegts_ok r h b boundary

/-! ## 4. the TS remuxer -/

/-- `ts_remux_total`: `Rtmp2MpegtsRemuxer.FeedRtmpMessage` (probe filter, `feedVideo`, NAL iteration, SPS/PPS caching,
    `feedAudio`, ADTS, audio batching, `onFrame`) returns normally for EVERY message, EVERY remuxer state and EVERY
    observer — including one that calls `FlushAudio` back from inside `OnTsPackets` — and every invariant of the
    observer's state that its callbacks preserve is preserved. -/
theorem ts_remux_total {σ : Type} (o : TsRemux.Observer σ) (P : σ → Prop) (hI : TsRemux.ObsInv o P)
    (s : TsRemux.St) (os : σ) (m : Msg) (h : P os) : Ok (fun r => P r.2) (TsRemux.feed o s os m) :=
  TsRemux.feed_ok hI s os m h

/-- non-vacuity: the recording observer of the L0 harness with the trivial invariant; a whole publish -/
example (reflush : Bool) (ms : List Msg) : ∃ r, TsRemux.feedAll (TsRemux.recorder reflush) {} [] ms = .ok r := by
  obtain ⟨r, h, _⟩ := TsRemux.feedAll_ok (P := fun _ => True) ⟨fun _ _ _ => trivial, fun _ _ _ _ => trivial⟩ ms {} [] trivial
  exact ⟨r, h⟩

/-! ## 5. the dummy-audio filter -/

/-- `dummy_audio_total` and `dummy_steps_bounded`: `DummyAudioFilter.Feed` returns normally, and over any run of `n`
    published messages it hands at most `K * n` messages on to `broadcastByRtmpMsg` (`K = maxGapMs / 21 + 2 = 478`),
    whatever the timestamps (amortised: a message parked in the analysis queue is paid for when it is parked). -/
theorem dummy_steps_bounded (waitMs : Nat) (ms : List Msg) :
    Ok (fun r => r.2.length ≤ DummyAudio.K * ms.length) (DummyAudio.feedAll (DummyAudio.St.new waitMs) ms) :=
  (DummyAudio.feedAll_ok ms (DummyAudio.St.new waitMs)).mono (fun r hr => by
    have : DummyAudio.potential (DummyAudio.St.new waitMs) = 0 := by simp [DummyAudio.potential, DummyAudio.St.new]
    omega)

/-- the constant, with the threshold read from the source tree on every run (`Gen.dummyAudioFilterMaxGapMs`):
    a larger threshold in pkg/remux/dummy_audio_filter.go breaks this obligation -/
theorem dummy_bound_value : DummyAudio.K = 478 := by decide

/-- one call in the dummy stage: at most `K` messages whatever the timestamp of `m` -/
theorem dummy_stage_bounded (st : DummyAudio.St) (m : Msg) :
    Ok (fun r => r.2.length ≤ DummyAudio.K) (DummyAudio.handleDummy st m) :=
  (DummyAudio.handleDummy_ok st m).mono (fun _ h => h.1)

/-- the iteration budget of the model's catch-up loop is never the reason it stops (the Go loop has none) -/
theorem dummy_loop_budget (f : Nat) (st : DummyAudio.St) (ts : Nat) (h : ts + 1 - st.prevAudioTs ≤ f) :
    DummyAudio.catchUp (f + 1) st ts = DummyAudio.catchUp f st ts := DummyAudio.catchUp_fuel f st ts h

/-- S7, the pinned tree: with a target timestamp of 2^32 - 1 the uint32 sum never exceeds it: every budget is used up
    (the Go loop spins for ever inside the group lock) … -/
theorem dummy_pinned_never_ends (f : Nat) (st : DummyAudio.St) :
    (DummyAudio.Pinned.catchUp f st DummyAudio.maxU32).2.length = f := DummyAudio.Pinned.catchUp_never_ends f st
/-- … and without wrap-around the number of frames emitted for ONE message is linear in the timestamp jump -/
theorem dummy_pinned_linear (f : Nat) (st : DummyAudio.St) (ts : Nat) (h1 : ts < 4294967296 - 22) (h2 : st.prevAudioTs ≤ ts)
    (h3 : (ts - st.prevAudioTs) / 21 < f) : (ts - st.prevAudioTs) / 22 ≤ (DummyAudio.Pinned.catchUp f st ts).2.length :=
  DummyAudio.Pinned.catchUp_linear f st ts h1 h2 h3
/-- the fixed loop on the 2·10^7 ms jump of the finding: one re-synchronising audio frame and the message -/
example : (DummyAudio.handleDummy { waitMs := 150, stage := 3, prevAudioTs := 192, audioCount := 10 } ⟨9, 20000000, [0x27, 1, 0, 0, 0, 0xaa]⟩).toOption.map (·.2.length)
    = some 2 := by decide

/-! ## 6. the RTSP remuxer -/

/-- `rtsp_remux_total`: `Rtmp2RtspRemuxer.FeedRtmpMsg` (metadata hints, analysis cache, sequence-header parsing,
    `sdp.Pack`, RTP packers) returns normally for every message and every state whose cached messages have passed the
    length checks — which is every state reachable from `NewRtmp2RtspRemuxer` (the invariant is preserved). -/
theorem rtsp_remux_total (env : RtspRemux.Env) (s : RtspRemux.St) (m : Msg) (h : s.WF) :
    Ok (fun r => r.1.WF) (RtspRemux.feed env s m) :=
  (RtspRemux.feed_ok env s m h).mono (fun _ hr => hr.1)

example : ({} : RtspRemux.St).WF := RtspRemux.St.init_wf

/-! ## 7. the whole fan-out -/

/-- `broadcast_total`: for every configuration of outputs (RTMP, HTTP-FLV, HLS, HTTP-TS, RTSP with or without
    `out_wait_key_frame_flag`, FLV and TS recording, dummy audio, any GOP cache size), every sequence of published
    messages with arbitrary payloads and timestamps, interleaved in any way with subscribers of every kind joining,
    the fan-out of every message returns normally — the model of `Group.OnReadRtmpAvMsg` never reaches a Go
    run-time failure — and so does the final flush when the publisher leaves. `env` (base64 / hex of `sdp.Pack`)
    is arbitrary. -/
theorem broadcast_total (env : RtspRemux.Env) (cfg : Fanout.Cfg) (evs : List Fanout.Event) :
    ∃ g, Fanout.runAll env (Fanout.G.new cfg) evs = .ok g ∧ ∃ g', Fanout.finish g = .ok g' := by
  obtain ⟨g, hg, hi⟩ := Fanout.runAll_ok env evs (Fanout.G.new cfg) (Fanout.G.new_inv cfg)
  obtain ⟨g', hg', _⟩ := Fanout.finish_ok g hi
  exact ⟨g, hg, g', hg'⟩

/-- one message, any group state satisfying the invariant (rings well formed, RTSP cache length-checked, an SDP exists
    once the RTSP remuxer has left its analysis stage) -/
theorem broadcast_step_total (env : RtspRemux.Env) (g : Fanout.G) (m : Msg) (h : g.Inv) :
    Ok Fanout.G.Inv (Fanout.broadcast env g m) := Fanout.broadcast_ok env g m h

/-! ## 8. cost -/

/- FULL STATEMENT (not proved as such): with a cost semantics `steps` counting every loop iteration of
   `OnReadRtmpAvMsg`, `steps m ≤ c₁ · m.payload.length + c₂ · (#subscribers + #cached items) + c₃` independent of `m.ts`.
   What is proved: the only loop whose trip count depends on the timestamp, the dummy-audio catch-up loop, hands on at
   most `K = 478` messages per published message (amortised over the analysis queue), for all timestamps
   (`dummy_steps_bounded`), so the number of `broadcastByRtmpMsg` calls per published message is bounded by a constant.
   MISSING: the cost semantics itself. Every other loop of the model (AVCC NAL iteration, Annex-B scan, sequence-header
   arrays, TS packetisation, RTP fragmentation, replay of the GOP cache to a fresh subscriber, the subscriber loops) is a
   structural recursion on the payload / the cache / the subscriber list or carries fuel equal to the payload length,
   so its trip count cannot depend on a timestamp; this is visible in the definitions but not stated as a theorem. -/
theorem broadcast_steps_bounded_partial (env : RtspRemux.Env) (cfg : Fanout.Cfg) (ms : List Msg) :
    -- with dummy audio enabled, the messages actually broadcast for `ms` number at most `K * ms.length` …
    (∃ r, DummyAudio.feedAll (DummyAudio.St.new cfg.dummyWaitMs) ms = .ok r ∧ r.2.length ≤ DummyAudio.K * ms.length)
    -- … and broadcasting them terminates normally
    ∧ (∃ g, Fanout.runAll env (Fanout.G.new cfg) (ms.map .msg) = .ok g) := by
  refine ⟨?_, ?_⟩
  · obtain ⟨r, h, hl⟩ := dummy_steps_bounded cfg.dummyWaitMs ms
    exact ⟨r, h, hl⟩
  · obtain ⟨g, hg, _⟩ := broadcast_total env cfg (ms.map .msg)
    exact ⟨g, hg⟩

/-! ## 9. payloads lal cannot interpret -/

/- FULL STATEMENT: a message whose codec lal does not know is forwarded byte for byte to every RTMP and HTTP-FLV
   subscriber that is past its prologue and dropped by the TS and RTSP remuxers.
   What is proved (on the models, which count writes and do not carry the chunk / tag bytes): such a subscriber
   receives exactly one write for the message whatever its payload; the TS remuxer ignores a video message whose codec
   id is neither 7 nor 12 and an audio message whose sound format is neither 10 nor 13 (state and observer untouched);
   the RTSP remuxer emits nothing for a video message while it has no SPS and for an audio message while it has no
   audio payload type.
   MISSING: byte-level equality of the forwarded chunks / tags (that is C01's refinement through Model/Chunk and
   Model/Flv, not this model), and "dropped by RTSP" is FALSE of lal in general: once an AVC/HEVC sequence header was
   seen, `Rtmp2RtspRemuxer.remux` does not look at the codec id and packs ANY video message as length-prefixed NAL
   units (harmless: bounds-checked, see `rtsp_remux_total`). -/
theorem opaque_forward_partial {σ : Type} (o : TsRemux.Observer σ) (s : TsRemux.St) (os : σ) (m : Msg) :
    (m.typeId = tVideo → videoCodecIdP m ≠ 7 ∧ videoCodecIdP m ≠ 12 → TsRemux.onPop o s os m = .ok (s, os))
    ∧ (m.typeId = tAudio → audioCodecIdP m ≠ 10 ∧ audioCodecIdP m ≠ 13 → TsRemux.onPop o s os m = .ok (s, os))
    ∧ (∀ r : RtspRemux.St, m.typeId = tVideo → r.sps = none → RtspRemux.remux r m = .ok (r, []))
    ∧ (∀ r : RtspRemux.St, m.typeId = tAudio → r.audioPacker = none → r.audioPt = Sdp.ptUnknown → RtspRemux.remux r m = .ok (r, []))
    ∧ (∀ (hdr cached n : Nat) (key isHdr : Bool) (u : Fanout.Sub), u.fresh = false → u.wait = false →
          (u.kind = .rtmp → Fanout.rtmpSubStep hdr cached n key isHdr u = { u with count := u.count + 1 })
        ∧ (u.kind = .flv → Fanout.flvSubStep hdr cached n key isHdr u = { u with count := u.count + 1 })) :=
  ⟨TsRemux.onPop_unknown_video o s os m, TsRemux.onPop_unknown_audio o s os m,
   fun r hv hs => RtspRemux.remux_no_video_packer r m hv hs, fun r ha hp hpt => RtspRemux.remux_no_audio_packer r m ha hp hpt,
   fun hdr cached n key isHdr u hf hw => ⟨fun hk => Fanout.rtmpSubStep_live hdr cached n key isHdr u hk hf hw,
                                    fun hk => Fanout.flvSubStep_live hdr cached n key isHdr u hk hf hw⟩⟩

/-- an unknown video codec (Sorenson H.263, codec id 2) and an unknown audio format (MP3, sound format 2) are such messages -/
example : videoCodecIdP ⟨9, 0, [0x22, 1, 2, 3, 4, 5, 6]⟩ = 2 ∧ audioCodecIdP ⟨8, 0, [0x2f, 1, 2, 3]⟩ = 2 := by decide

end Lal.Props.C05
