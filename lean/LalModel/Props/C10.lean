import LalModel.Proof.HlsWorld
import LalModel.Proof.HlsDirLaw
import LalModel.Proof.HlsRecordFiles
/-
  C10 — HLS playlists and segments are consistent at every instant.
  Property theorems only; helper lemmas live in LalModel/Proof (HlsFs, HlsInv, HlsRules, HlsClose, HlsRun, HlsWorld).

  Reading guide.
  * `Hls.run c {} evs` is the list of file-system operations the model of `hls.Muxer` performs for the event sequence
    `evs` (publish, PAT/PMT, frames, the audio the remuxer flushes on `OnFragmentOpen`, unpublish, the delayed cleanup
    task, re-publish), from an empty directory. The correspondence check compares it, operation by operation and byte
    by byte, with the log of the real muxer.
  * `HlsC.Obs.run {} pre` is what an observer has seen after the operations `pre`: the directory and the successive
    versions of the live playlist. `HlsC.Good PP delThr` (Spec/HlsConsistent.lean) is the property at one instant.
  * `HlsC.WF PP kd false false evs` is what the event source must respect — what lal's remuxer and group guarantee:
    PAT/PMT (satisfying `PP`) is delivered before the first frame of a publish; every frame is a whole number of
    188-byte packets; a fragment boundary is proposed only on a video key frame, or (`kd`) the stream has no video.
-/
namespace Lal.Props.C10
open Lal Lal.Hls Lal.HlsC

/-- `writePlaylist` of the pinned tree (`if d > max {max = d+0.5}`, then `int(max)`), in ticks. -/
def liveTargetPinned (c : Cfg) (fs : List FragInfo) : Nat :=
  (fs.foldl (fun mx f => if f.dur > mx then f.dur + 45000 else mx) (c.fragDurMs * 90)) / 90000

/-- S19 on the pinned formula: durations 3.4 s then 3.8 s with a 3 s target give 3 < round(3.8). -/
example : ¬ (nearestSec 342000 ≤ liveTargetPinned { fragDurMs := 3000, fragNum := 6, delThr := 1, cleanup := 0 }
              [{ dur := 306000 }, { dur := 342000 }]) := by decide

/-- The repaired `writePlaylist`: the target duration is at least every listed duration rounded to the nearest second. -/
theorem target_ge_rounded (c : Cfg) (fs : List FragInfo) : ∀ f ∈ fs, nearestSec f.dur ≤ liveTarget c fs := by
  intro f hf; rw [nearestSec_eq_roundSec]; exact liveTarget_ge c fs f hf

/-- **At every instant.** For every configuration and every well-formed event sequence, after EVERY prefix of the
    file-system operations performed — i.e. also between any two operations of one `closeFragment` — the directory
    satisfies `Good`: the live playlist, if present, is a complete document and the newest version; in the current and
    the previous `delete_threshold` versions every entry number `i` is segment `mediaSeq + i`, its rounded duration is
    at most the target duration, its file exists, is closed, begins with the PAT/PMT the source delivered, continues
    with whole frames of whole 188-byte packets and, unless the entry carries the discontinuity mark, its first video
    frame is a key frame; across versions media sequence and window end never decrease. -/
theorem hls_consistent_prefix (PP : Bytes → Prop) (kd : Prop) (c : Cfg) (evs : List Ev)
    (hwf : WF PP kd false false evs) :
    ∀ pre, pre <+: (run c {} evs).flatten → Good PP c.delThr (Obs.run {} pre) :=
  allGood_iff_prefix.mp (run_allGood evs winv_init hwf)

/-- Segments listed in the current or any of the previous `delete_threshold` playlist versions are still present
    (and closed), at every instant. -/
theorem delete_threshold_retention (PP : Bytes → Prop) (kd : Prop) (c : Cfg) (evs : List Ev)
    (hwf : WF PP kd false false evs) (pre : List FOp) (hpre : pre <+: (run c {} evs).flatten)
    (k : Nat) (hk : k ≤ c.delThr) (v : Playlist) (hv : (Obs.run {} pre).versions[k]? = some v)
    (e : Entry) (he : e ∈ v.entries) :
    ∃ now id chunks, e.name = some (now, id) ∧
      (Obs.run {} pre).dir (.seg now id) = some { content := .data chunks, isOpen := false } := by
  have hg := hls_consistent_prefix PP kd c evs hwf pre hpre
  have hmem : v ∈ (Obs.run {} pre).versions.take (c.delThr + 1) := by
    rw [List.getElem?_eq_some_iff] at hv
    obtain ⟨hlt, rfl⟩ := hv
    rw [List.mem_take_iff_getElem]
    exact ⟨k, by omega, rfl⟩
  have hok := hg.recent v hmem
  have aux : ∀ (s : Nat) (es : List Entry), EntriesOk PP (Obs.run {} pre).dir v.target s es → e ∈ es →
      ∃ now id chunks, e.name = some (now, id) ∧
        (Obs.run {} pre).dir (.seg now id) = some { content := .data chunks, isOpen := false } := by
    intro s es
    induction es generalizing s with
    | nil => intro _ h; cases h
    | cons e0 es ih =>
      intro h hm
      cases hm with
      | head => obtain ⟨⟨_, now, chunks, hn, hd, _⟩, _⟩ := h; exact ⟨now, s, chunks, hn, hd⟩
      | tail _ hm' => exact ih (s + 1) h.2 hm'
  exact aux v.mediaSeq v.entries hok he

/-- The media sequence number never decreases from one version of the live playlist to the next — also across a
    re-publish of the same stream name (the new muxer continues after the playlist it finds). -/
theorem media_sequence_monotone (PP : Bytes → Prop) (kd : Prop) (c : Cfg) (evs : List Ev)
    (hwf : WF PP kd false false evs) (pre : List FOp) (hpre : pre <+: (run c {} evs).flatten) :
    (Obs.run {} pre).versions.Pairwise fun newer older => older.mediaSeq ≤ newer.mediaSeq :=
  (hls_consistent_prefix PP kd c evs hwf pre hpre).mono.imp fun h => h.1

/-- A well-formed segment is a whole number of 188-byte TS packets when the PAT/PMT is. -/
theorem segment_whole_packets (PP : Bytes → Prop) (hPP : ∀ b, PP b → b.length % 188 = 0) (discont : Bool)
    (chunks : List Chunk) (h : SegOk PP discont chunks) : (chunks.flatMap Chunk.bytes).length % 188 = 0 := by
  obtain ⟨pp, fs, rfl, hpp, hfs, -⟩ := h
  simp only [List.flatMap_cons, List.length_append, Chunk.bytes]
  have h1 := hPP pp hpp
  have h2 : ((fs.map Chunk.frame).flatMap Chunk.bytes).length % 188 = 0 := by
    induction fs with
    | nil => simp
    | cons f fs ih =>
      simp only [List.map_cons, List.flatMap_cons, List.length_append, Chunk.bytes]
      have h3 : f.pkts.length % 188 = 0 := hfs f List.mem_cons_self
      have h4 : ((fs.map Chunk.frame).flatMap Chunk.bytes).length % 188 = 0 :=
        ih (fun f' hf' => hfs f' (List.mem_cons_of_mem _ hf'))
      omega
  omega

/-- **Ring indexing.** In every reachable state the ring has `fragment_num + delete_threshold + 1` slots, the playlist
    never holds more than `fragment_num` fragments, and the last `cap` fragment numbers in use sit in slot
    `number mod cap` with their own number in `id` and in the file name; slots not reached yet are empty
    (`HlsC.Ring`; `base` is where this publish started numbering). -/
theorem ring_index_inv (PP : Bytes → Prop) (kd : Prop) (c : Cfg) (evs : List Ev) (hwf : WF PP kd false false evs)
    (m : Mux) (hm : (runWorld c {} evs).mux = some m) : ∃ base, Ring c base m := by
  obtain ⟨a, r, _, _, hmux⟩ := run_winv evs (winv_init (PP := PP) (kd := kd) (c := c)) hwf
  rw [hm] at hmux
  obtain ⟨_, _, base, hinv⟩ := hmux
  exact ⟨base, hinv.ring⟩

/-- **The delayed cleanup spares a live stream**: when the task of `CleanupHlsIfNeeded` fires while a muxer for the
    stream name exists, nothing is touched. -/
theorem cleanup_spares_live (c : Cfg) (w : World) (m : Mux) (hm : w.mux = some m) :
    (step c w .cleanup).2 = [] := by
  simp only [step, hm]; split <;> rfl

/-- **End marker.** After every unpublish (`Dispose`) — whatever happened before, including publishes that never
    opened a fragment and re-publishes — the live playlist is absent or is a complete document carrying
    `#EXT-X-ENDLIST`. (`endInv_run` is the stronger invariant: this holds whenever no fragment is open.) -/
theorem ended_on_dispose (c : Cfg) (evs : List Ev) : LiveEnded (runWorld c {} (evs ++ [.dispose])).dir := by
  rw [runWorld_append]
  have h1 : EndInv (runWorld c {} evs) := endInv_run evs {} (Or.inl rfl)
  have h2 := endInv_step (c := c) _ .dispose h1
  show LiveEnded (step c (runWorld c {} evs) .dispose).1.dir
  unfold EndInv at h2
  cases hm : (runWorld c {} evs).mux with
  | none => simp only [step, hm] at h2 ⊢; exact h2
  | some m0 => simp only [step, hm] at h2 ⊢; exact h2

/-- **Segments partition the packets.** For every event sequence (no well-formedness needed), the segment files in the
    order they were created — including files deleted since — contain exactly the accepted frames, each once, in
    order: per publish nothing before the first fragment opens, then every frame handed to `FeedMpegts`, the audio the
    remuxer had cached being inserted (once) by the call that opened a fragment. An append to any file other than the
    newest segment would be lost by `SegLog` and falsify the equation. -/
theorem segments_partition_ts (c : Cfg) (evs : List Ev) :
    (SegLog.run {} (run c {} evs).flatten).frames = accepted {} evs (run c {} evs) := by
  have := partition_run (c := c) evs {} {} {} ⟨rfl, rfl⟩
  simpa [SegLog.frames] using this

/-- **Record playlist.** Unless cleanup is immediate (mode "as soon as possible"), after every event sequence the
    record playlist is absent or a complete document, it lists exactly the segment files closed since the directory
    was last wiped — every segment ever produced, in order, across re-publishes — and every one of those files is
    still present and closed (nothing is ever removed or overwritten in these modes). -/
theorem record_lists_all (c : Cfg) (h01 : c.cleanup = Gen.c10CleanupNever ∨ c.cleanup = Gen.c10CleanupInTheEnd)
    (evs : List Ev) :
    recordNames (runWorld c {} evs).dir = (closedLog [] (run c {} evs).flatten).map some ∧
    (∀ f, (runWorld c {} evs).dir .record = some f → ∃ pl, f = { content := .doc pl, isOpen := false }) ∧
    (∀ p ∈ closedLog [] (run c {} evs).flatten, ∃ chunks,
        (runWorld c {} evs).dir (.seg p.1 p.2) = some { content := .data chunks, isOpen := false }) := by
  have h := rec_run h01 evs {} [] ⟨⟨rfl, fun f hf => by cases hf⟩, fun m hm => by cases hm⟩
  have hf := files_run h01 evs {} [] (by intro p hp; cases hp)
  refine ⟨?_, ?_, ?_⟩
  · rw [runWorld_dir]; exact h.1
  · rw [runWorld_dir]; exact h.2
  · intro p hp
    unfold FilesW at hf
    cases hm : (runWorld c {} evs).mux with
    | none => rw [hm] at hf; exact (hf p hp).2
    | some m0 => rw [hm] at hf; exact (hf.2.2.1 p hp).2

/-! ### non-vacuity -/

def pp0 : Bytes := List.replicate 376 0x47
def pk0 : Bytes := List.replicate 188 0x47
def cfg0 : Cfg := { fragDurMs := 1000, fragNum := 1, delThr := 0, cleanup := 2 }
def key0 (ms : Nat) : Frame := { audio := false, pts := ms * 90, dts := ms * 90, key := true, boundary := true, pkts := pk0 }
def inter0 (ms : Nat) : Frame := { audio := false, pts := ms * 90, dts := ms * 90, key := false, boundary := false, pkts := pk0 }
def aud0 (ms : Nat) : Frame := { audio := true, pts := ms * 90, dts := ms * 90, key := false, boundary := false, pkts := pk0 }
/-- publish, two GOPs of 1.2 s with flushed audio, unpublish, re-publish, one GOP, unpublish, cleanup -/
def evs0 : List Ev :=
  [.start, .patpmt pp0, .pend (aud0 0), .feed (key0 10) 1000, .feed (inter0 600) 1600, .feed (key0 1200) 2200,
   .feed (inter0 1800) 2800, .feed (key0 2400) 3400, .dispose,
   .start, .patpmt pp0, .feed (key0 5000) 9000, .feed (key0 6100) 9100, .dispose, .cleanup]

/-- before the cleanup the example run has closed five fragments, numbered 0..4 across the re-publish, … -/
example : closedLog [] (run cfg0 {} evs0.dropLast).flatten = [(1000, 0), (2200, 1), (3400, 2), (9000, 3), (9100, 4)] := by decide

-- … the observer has seen five versions of the live playlist with media sequence 0,1,2,3,4 (newest first), the
-- third and the fifth ended (the kernel evaluates model and observer on the whole run), …
set_option maxRecDepth 100000 in
example : (Obs.run {} (run cfg0 {} evs0.dropLast).flatten).versions.map (fun v => (v.mediaSeq, v.ended)) =
    [(4, true), (3, false), (2, true), (1, false), (0, false)] := by decide

/-- … and all eight frames (seven fed, one flushed) are in the segments. -/
example : (accepted {} evs0 (run cfg0 {} evs0)).length = 8 := by decide


example : WF (fun b => b.length = 376) False false false evs0 := by
  have h1 : pk0.length = 188 := by simp only [pk0, List.length_replicate]
  have h2 : pp0.length = 376 := by simp only [pp0, List.length_replicate]
  simp [evs0, WF, PendOk, FrameOk, KeyVideo, aud0, key0, inter0, h1, h2]

end Lal.Props.C10
