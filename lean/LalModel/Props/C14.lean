import LalModel.Proof.Auth
import LalModel.Proof.Path
import LalModel.Proof.AuthHeader
import LalModel.Proof.Md5
import LalModel.Proof.Query
import LalModel.Model.Md5
import LalModel.Model.Admission
/-
  C14 — access control admits exactly the authorised requests.
  Property theorems and non-vacuity examples only; lemmas live in LalModel/Proof/Auth.lean, Proof/Path.lean.

  Models (the FIXED lal tree, branch commits "fix: simple auth compares dangerous_lal_secret …", "fix: rtsp server
  accepts correct Basic credentials", "… checks the Digest nonce …", "… does not reuse the credentials …", "… Basic
  header that does not decode …", "fix: hls request mapping cannot leave the hls output directory", "fix: stream names
  that are not a plain file name …"): Model/Auth.lean (pkg/logic/simple_auth.go, pkg/rtsp/auth.go,
  ServerCommandSession.handleAuthorized, pkg/logic/ip_blacklist.go, the gate of ServerManager.serveHls),
  Model/Path.lean (pkg/hls/path_strategy.go, ServeHTTPWithUrlCtx, the paths of hls.Muxer and of the flv / mpegts
  recorders, filepath.Clean / Join), Model/Url.lean (url.ParseQuery, base.parseUrlPath).

  MD5, url.ParseQuery and base64 are PARAMETERS `E : Auth.Ext`; the theorems hold for every `E` satisfying
  `Auth.ExtLaws` (an MD5 digest prints as 32 characters; base64 decode inverts encode). `Drv.C14` and the examples
  below instantiate them with the executable `Md5.md5hex`, `Url.parseQuery`, `Md5.b64enc/b64dec`.
  The constants (`lal_secret`, protocol names, `Basic`/`Digest`, the realm, `playlist.m3u8`, `record.m3u8`) are
  `Gen.c14*`, regenerated from the lal tree on every run.
-/
namespace Lal.Props.C14
open Lal Lal.Str Lal.Auth Lal.Path

/-- the executable instance of the parameters -/
def E0 : Ext := { md5hex := Md5.md5hex, parseQuery := Url.parseQuery, b64enc := Md5.b64enc, b64dec := Md5.b64dec }

/-! ## simple auth -/

/-- the protocol names the model compares with are the ones the property speaks about -/
theorem protocol_names : Gen.c14ProtoRtmp = asc "RTMP" ∧ Gen.c14ProtoRtsp = asc "RTSP" ∧ Gen.c14ProtoFlv = asc "FLV" ∧
    Gen.c14ProtoTs = asc "TS" ∧ Gen.c14SecretName = asc "lal_secret" := by decide

/-- `simple_auth_iff`: when simple auth is enabled for the protocol and direction, a publish / play / playlist
    request is admitted IF AND ONLY IF its URL carries the secret: the query parses and its first `lal_secret`
    value is, in either letter case, the MD5 of key ++ stream name, or is exactly the configured override. -/
theorem simple_auth_iff {E : Ext} (hE : ExtLaws E) (cfg : SimpleAuthConfig) (d : Dir) (protocol streamName urlParam : Bytes)
    (h : AccessSpec.enabled cfg d protocol) :
    admission E cfg d protocol streamName urlParam = .ok ↔ Carries E cfg streamName urlParam := by
  rw [← check_ok_iff hE]
  cases d with
  | pub =>
    have : (cfg.pubRtmp = true ∧ protocol = Gen.c14ProtoRtmp) ∨ (cfg.pubRtsp = true ∧ protocol = Gen.c14ProtoRtsp) := h
    simp only [admission, onPubStart, this, if_true]
  | sub =>
    have : (cfg.subRtmp = true ∧ protocol = Gen.c14ProtoRtmp) ∨ (cfg.subHttpflv = true ∧ protocol = Gen.c14ProtoFlv) ∨
        (cfg.subHttpts = true ∧ protocol = Gen.c14ProtoTs) ∨ (cfg.subRtsp = true ∧ protocol = Gen.c14ProtoRtsp) := h
    simp only [admission, onSubStart, this, if_true]
  | hls =>
    have : cfg.hlsM3u8 = true := h
    simp only [admission, onHls, this, if_true]

/-- `simple_auth_disabled_admits`: protocols whose flag is off are unaffected. -/
theorem simple_auth_disabled_admits (E : Ext) (cfg : SimpleAuthConfig) (d : Dir) (protocol streamName urlParam : Bytes)
    (h : ¬ AccessSpec.enabled cfg d protocol) : admission E cfg d protocol streamName urlParam = .ok := by
  cases d with
  | pub =>
    have : ¬ ((cfg.pubRtmp = true ∧ protocol = Gen.c14ProtoRtmp) ∨ (cfg.pubRtsp = true ∧ protocol = Gen.c14ProtoRtsp)) := h
    simp only [admission, onPubStart, this, if_false]
  | sub =>
    have : ¬ ((cfg.subRtmp = true ∧ protocol = Gen.c14ProtoRtmp) ∨ (cfg.subHttpflv = true ∧ protocol = Gen.c14ProtoFlv) ∨
        (cfg.subHttpts = true ∧ protocol = Gen.c14ProtoTs) ∨ (cfg.subRtsp = true ∧ protocol = Gen.c14ProtoRtsp)) := h
    simp only [admission, onSubStart, this, if_false]
  | hls =>
    have : ¬ cfg.hlsM3u8 = true := h
    simp [admission, onHls, this]

/-- the laws assumed of the parameters hold for the executable MD5, base64 and query parser the driver and
    the examples use (so the theorems are not vacuous, and the correspondence run exercises an instance of them) -/
theorem laws_hold : ExtLaws E0 :=
  { md5len := Md5.md5hex_length, md5hexDigits := Md5.md5hex_digits, b64rt := Md5.b64dec_enc }

/-- the same with Go's query parser spelled out, for the everyday URL `…?lal_secret=<v>` (`v` free of `& ; % + =`):
    when simple auth is enabled the request is admitted iff `v`, lower-cased, is the MD5 of key ++ stream name,
    or `v` is exactly the configured override. -/
theorem simple_auth_plain_query (cfg : SimpleAuthConfig) (d : Dir) (protocol streamName v : Bytes)
    (h : AccessSpec.enabled cfg d protocol) (hv : Url.Plain v) :
    admission E0 cfg d protocol streamName (asc "lal_secret=" ++ v) = .ok ↔
      (lower v = Md5.md5hex (cfg.key ++ streamName) ∨ (cfg.dangerousLalSecret ≠ [] ∧ v = cfg.dangerousLalSecret)) := by
  rw [simple_auth_iff laws_hold cfg d protocol streamName _ h]
  unfold Carries
  have hp : E0.parseQuery (asc "lal_secret=" ++ v) = some [(asc "lal_secret", v)] := Url.parseQuery_plain v hv
  have hg : Url.get [(asc "lal_secret", v)] Gen.c14SecretName = v := by
    have : Gen.c14SecretName = asc "lal_secret" := by decide
    simp [Url.get, this]
  constructor
  · intro ⟨q, hq, hc⟩
    rw [hp] at hq
    injection hq with hq
    subst hq
    rw [hg] at hc
    exact hc
  · intro hc
    exact ⟨_, hp, by rw [hg]; exact hc⟩

def cfg0 : SimpleAuthConfig :=
  { key := asc "q191201771", dangerousLalSecret := asc "AbC", pubRtmp := true, subRtmp := false, subHttpflv := true,
    subHttpts := false, pubRtsp := false, subRtsp := false, hlsM3u8 := true }

-- non-vacuity, with the real MD5: lal's own test vector, in lower and in upper case, the override exactly,
-- and the rejected forms (absent, wrong, another stream's secret, the override in the wrong case, a query that does not parse)
example : admission E0 cfg0 .pub (asc "RTMP") (asc "test110") (asc "lal_secret=700997e1595a06c9ffa60ebef79105b0") = .ok := by decide +kernel
example : admission E0 cfg0 .pub (asc "RTMP") (asc "test110") (asc "a=b&lal_secret=700997E1595A06C9FFA60EBEF79105B0") = .ok := by decide +kernel
example : admission E0 cfg0 .hls (asc "HLS") (asc "test110") (asc "lal_secret=AbC") = .ok := by decide +kernel
example : admission E0 cfg0 .pub (asc "RTMP") (asc "test110") (asc "lal_secret=abc") = .failed := by decide +kernel
example : admission E0 cfg0 .pub (asc "RTMP") (asc "other") (asc "lal_secret=700997e1595a06c9ffa60ebef79105b0") = .failed := by decide +kernel
example : admission E0 cfg0 .sub (asc "FLV") (asc "test110") (asc "") = .notFound := by decide +kernel
example : admission E0 cfg0 .sub (asc "FLV") (asc "test110") (asc "lal_secret=700997e1595a06c9ffa60ebef79105b0&x=%zz") = .badQuery := by decide +kernel
example : admission E0 cfg0 .sub (asc "RTMP") (asc "test110") (asc "") = .ok := by decide +kernel
example : AccessSpec.enabled cfg0 .pub (asc "RTMP") ∧ ¬ AccessSpec.enabled cfg0 .sub (asc "RTMP") := by
  simp only [AccessSpec.enabled]; decide

/-! ## admission: a rejected request has no effect; kicked sessions are disconnected -/

open Admission in
/-- `rejected_has_no_effect`: at every entry point of the server manager a request that does not pass its gate
    (the authentication callback; for RTSP play also the RTSP authentication stage; for HLS also the blacklist)
    leaves the server exactly as it was — no session attached (no publisher, nothing listed in the statistics),
    no notification — and gets no answer; one that passes is attached, listed and notified. -/
theorem rejected_has_no_effect (E : Ext) (cfg : SimpleAuthConfig) (sm : Sm) (e : Entry) (stream query : Bytes) (rtspPassed blacklisted : Bool) :
    (gate E cfg e stream query rtspPassed blacklisted = false →
      onNew E cfg sm e stream query rtspPassed blacklisted = (sm, ⟨false, false⟩)) ∧
    (gate E cfg e stream query rtspPassed blacklisted = true → e.attaches = true →
      ∃ s, s.stream = stream ∧ s.entry = e ∧
        (onNew E cfg sm e stream query rtspPassed blacklisted).1.sessions = s :: sm.sessions ∧
        (onNew E cfg sm e stream query rtspPassed blacklisted).1.notified = (stream, e) :: sm.notified) := by
  constructor
  · intro h; simp [onNew, h]
  · intro h ha; simp [onNew, h, ha]

open Admission in
/-- the gate of every entry point is the callback of ITS OWN protocol and direction (and nothing else for
    RTMP / HTTP-FLV / HTTP-TS / RTSP publish): with `simple_auth_iff`, admitted ⇔ flag off or the secret is carried. -/
theorem gate_is_own_flag {E : Ext} (hE : ExtLaws E) (cfg : SimpleAuthConfig) (e : Entry) (stream query : Bytes)
    (he : e ≠ .hlsTs) (hp : AccessSpec.enabled cfg e.dir e.protocol) :
    gate E cfg e stream query true false = true ↔ Carries E cfg stream query := by
  have h := simple_auth_iff hE cfg e.dir e.protocol stream query hp
  cases e <;> simp_all [gate, Entry.dir]

open Admission in
/-- `kick_disconnects`: kicking the id of an attached session of the stream closes exactly that session's
    connection and removes exactly that session; an id that is not attached to the stream changes nothing. -/
theorem kick_disconnects (sm : Sm) (stream : Bytes) (id : Nat) :
    ((∃ s ∈ sm.sessions, s.id = id ∧ s.stream = stream) →
      (kick sm stream id).2 = true ∧ id ∈ (kick sm stream id).1.closed ∧
      (∀ s ∈ (kick sm stream id).1.sessions, ¬ (s.id = id ∧ s.stream = stream)) ∧
      (∀ s ∈ sm.sessions, ¬ (s.id = id ∧ s.stream = stream) → s ∈ (kick sm stream id).1.sessions)) ∧
    ((¬ ∃ s ∈ sm.sessions, s.id = id ∧ s.stream = stream) → kick sm stream id = (sm, false)) := by
  unfold kick
  constructor
  · intro ⟨s, hs, h1, h2⟩
    have : sm.sessions.any (fun s => s.id == id && s.stream == stream) = true :=
      List.any_eq_true.mpr ⟨s, hs, by simp [h1, h2]⟩
    rw [if_pos this]
    refine ⟨rfl, List.mem_cons_self, ?_, ?_⟩
    · intro x hx
      have h3 := (List.mem_filter.mp hx).2
      intro ⟨h4, h5⟩
      simp [h4, h5] at h3
    · intro x hx hn
      refine List.mem_filter.mpr ⟨hx, ?_⟩
      by_cases h4 : x.id = id
      · by_cases h5 : x.stream = stream
        · exact absurd ⟨h4, h5⟩ hn
        · simp [h5]
      · simp [h4]
  · intro h
    have : ¬ sm.sessions.any (fun s => s.id == id && s.stream == stream) = true := by
      intro ha
      obtain ⟨s, hs, hc⟩ := List.any_eq_true.mp ha
      exact h ⟨s, hs, by simpa using hc⟩
    rw [if_neg this]

-- non-vacuity: a publisher with the right secret is attached and notified, one without leaves no trace; kick
example : (Admission.onNew E0 cfg0 {} .rtmpPub (asc "test110") (asc "lal_secret=700997e1595a06c9ffa60ebef79105b0") true false).1.sessions
    = [⟨0, asc "test110", .rtmpPub⟩] := by decide +kernel
example : Admission.onNew E0 cfg0 {} .rtmpPub (asc "test110") (asc "lal_secret=bad") true false = ({}, ⟨false, false⟩) := by decide +kernel
example : Admission.kick { sessions := [⟨0, asc "a", .flvSub⟩, ⟨1, asc "a", .rtmpPub⟩] } (asc "a") 1
    = ({ sessions := [⟨0, asc "a", .flvSub⟩], closed := [1] }, true) := by decide

/-! ## RTSP authentication -/

/-- `rtsp_auth_iff`, Basic: with authentication enabled and method Basic, whatever was sent before on the
    connection, the DESCRIBE passes the authentication stage (and is answered with the stream description)
    IF AND ONLY IF its Authorization header is `Basic ` followed by the base64 of `username:password` of the
    configured account (RFC 7617; the configured user name contains no colon). -/
theorem rtsp_auth_iff_basic {E : Ext} (conf : AuthConf) (a : AuthSt) (authorization fresh : Bytes)
    (he : conf.enable = true) (hm : conf.method = 0) (hu : (58 : UInt8) ∉ conf.username) :
    (describeAuth E conf a authorization fresh).2 = .pass ↔ ValidBasic E conf authorization := by
  unfold describeAuth
  rw [if_pos he]
  by_cases hne : authorization = []
  · subst hne
    constructor
    · intro h; exact absurd h (handle_empty_not_pass E conf a _ fresh)
    · intro ⟨c, hc, _⟩
      have : (basicPrefix ++ c).length = 0 := by rw [← hc]; rfl
      simp [basicPrefix] at this
  · exact basic_pass_iff conf a _ authorization fresh hm hne hu

/-- `rtsp_auth_iff`, Digest: with method Digest the DESCRIBE passes IF AND ONLY IF its header is `Digest …`
    whose nonce is the one this server issued last on the connection (`a.issued`, none issued = never) and
    whose response is the RFC 2617 request-digest of the configured account for that nonce, the method
    DESCRIBE and the realm / uri the header declares. A replayed header (any other nonce) never passes. -/
theorem rtsp_auth_iff_digest {E : Ext} (conf : AuthConf) (a : AuthSt) (authorization fresh : Bytes)
    (he : conf.enable = true) (hm : conf.method = 1) :
    (describeAuth E conf a authorization fresh).2 = .pass ↔ ValidDigest E conf a.issued (asc "DESCRIBE") authorization := by
  unfold describeAuth
  rw [if_pos he]
  by_cases hne : authorization = []
  · subst hne
    constructor
    · intro h; exact absurd h (handle_empty_not_pass E conf a _ fresh)
    · intro ⟨s, hs, _⟩
      have : (digestPrefix ++ s).length = 0 := by rw [← hs]; rfl
      simp [digestPrefix] at this
  · exact digest_pass_iff conf a _ authorization fresh hm hne

/-- valid Basic credentials are ALWAYS accepted (the pinned tree rejected them all). -/
theorem rtsp_valid_basic_accepted {E : Ext} (hE : ExtLaws E) (conf : AuthConf) (a : AuthSt) (fresh : Bytes)
    (he : conf.enable = true) (hm : conf.method = 0) (hu : (58 : UInt8) ∉ conf.username) :
    (describeAuth E conf a (asc "Basic " ++ E.b64enc (conf.username ++ 58 :: conf.password)) fresh).2 = .pass :=
  (rtsp_auth_iff_basic conf a _ fresh he hm hu).mpr ⟨_, rfl, hE.b64rt _⟩

/-- valid Digest credentials are ALWAYS accepted: a header of the RFC 2617 form `Digest username="…", realm="…",
    nonce="…", uri="…", response="…", algorithm="…"` whose nonce is the one issued on the connection and whose
    response is the request-digest of the configured account passes — for every user name, realm and uri that
    contain no quote and do not end with `=` (`FieldOK`: the values lal's `getV` reads back; a uri with a query
    such as `?lal_secret=abc` is fine). -/
theorem rtsp_valid_digest_accepted {E : Ext} (hE : ExtLaws E) (conf : AuthConf) (a : AuthSt) (fresh user realm uri alg : Bytes)
    (he : conf.enable = true) (hm : conf.method = 1) (hi : a.issued ≠ [])
    (hu : FieldOK user) (hr : FieldOK realm) (hn : FieldOK a.issued) (hx : FieldOK uri) :
    (describeAuth E conf a (digestPrefix ++ digestParams user realm a.issued uri
        (digestResponse E conf.username realm conf.password a.issued (asc "DESCRIBE") uri) alg) fresh).2 = .pass :=
  (rtsp_auth_iff_digest conf a _ fresh he hm).mpr
    (validDigest_of_params conf a.issued (asc "DESCRIBE") user realm a.issued uri _ alg hu hr hn hx (fieldOK_md5 hE _) hi rfl rfl)

/-- only the configured method is accepted: a header of the other scheme (no downgrade), an unknown
    `auth_method`, or no header at all never passes. -/
theorem rtsp_other_scheme_rejected {E : Ext} (conf : AuthConf) (a : AuthSt) (authorization fresh : Bytes) (he : conf.enable = true) :
    (conf.method = 0 → hasPrefix authorization basicPrefix = false → (describeAuth E conf a authorization fresh).2 ≠ .pass) ∧
    (conf.method = 1 → hasPrefix authorization basicPrefix = true → (describeAuth E conf a authorization fresh).2 ≠ .pass) ∧
    (conf.method ≠ 0 → conf.method ≠ 1 → (describeAuth E conf a authorization fresh).2 ≠ .pass) := by
  refine ⟨?_, ?_, ?_⟩
  · intro hm hp h
    by_cases hu : (58 : UInt8) ∉ conf.username
    · obtain ⟨c, hc, _⟩ := (rtsp_auth_iff_basic conf a authorization fresh he hm hu).mp h
      rw [hasPrefix_iff.mpr ⟨c, hc⟩] at hp; cases hp
    · -- a configured user name with a colon matches no Basic header at all
      unfold describeAuth at h
      rw [if_pos he] at h
      by_cases hne : authorization = []
      · subst hne; exact handle_empty_not_pass E conf a _ fresh h
      · have := (handle_pass0_iff E conf a _ authorization fresh hne hm).mp h
        by_cases hd : hasPrefix authorization digestPrefix = true
        · obtain ⟨s, hs⟩ := hasPrefix_iff.mp hd
          subst hs
          rw [parse_digest E a s hp] at this
          exact basic_ne_digest this.1.symm
        · rw [parse_other_typ E a authorization hp (by simpa using hd)] at this
          exact basic_ne_nil this.1.symm
  · intro hm hp h
    obtain ⟨_, _, h2, _⟩ := (rtsp_auth_iff_digest conf a authorization fresh he hm).mp h
    rw [hp] at h2; cases h2
  · intro h0 h1 h
    unfold describeAuth at h
    rw [if_pos he] at h
    by_cases hne : authorization = []
    · subst hne; exact handle_empty_not_pass E conf a _ fresh h
    · have := (handle_pass_iff E conf a _ authorization fresh hne).mp h
      rcases this.1 with h2 | h2
      · exact h0 h2.2
      · exact h1 h2.2

/-- a request without credentials is answered with a challenge of the configured method; the Digest
    challenge carries the fresh nonce and the server remembers exactly that nonce. -/
theorem rtsp_challenge (E : Ext) (conf : AuthConf) (a : AuthSt) (fresh : Bytes) (he : conf.enable = true) :
    (conf.method = 0 → describeAuth E conf a [] fresh =
        (a, .challenge (Gen.c14AuthTypeBasic ++ asc " realm=\"" ++ Gen.c14RtspRealm ++ asc "\""))) ∧
    (conf.method = 1 → describeAuth E conf a [] fresh =
        ({ a with issued := fresh },
         .challenge (Gen.c14AuthTypeDigest ++ asc " realm=\"" ++ Gen.c14RtspRealm ++ asc "\", nonce=\"" ++ fresh ++ asc "\""))) := by
  unfold describeAuth
  rw [if_pos he]
  exact ⟨handle_empty_basic E conf a _ fresh, handle_empty_digest E conf a _ fresh⟩

/-- lal's own RTSP client authenticates against lal's server: the server challenges (`fresh` nonce), the client
    feeds the challenge to `FeedWwwAuthenticate` and answers with `MakeAuthorization`; the server accepts — for
    every account whose user name is not empty and every uri (both `FieldOK`). No lal test does this exchange. -/
theorem rtsp_client_server_digest {E : Ext} (hE : ExtLaws E) (conf : AuthConf) (a : AuthSt) (fresh fresh2 uri : Bytes)
    (he : conf.enable = true) (hm : conf.method = 1) (hune : conf.username ≠ [])
    (hu : FieldOK conf.username) (hx : FieldOK uri) (hf : FieldOK fresh) (hfne : fresh ≠ []) :
    ∃ ch, (describeAuth E conf a [] fresh).2 = .challenge ch ∧
      (describeAuth E conf (describeAuth E conf a [] fresh).1
        (makeAuthorization E (feedWwwAuthenticate {} [ch] conf.username conf.password) (asc "DESCRIBE") uri) fresh2).2 = .pass := by
  have hch := (rtsp_challenge E conf a fresh he).2 hm
  refine ⟨challengeOf fresh, by rw [hch]; rfl, ?_⟩
  rw [hch, feed_challenge {} fresh conf.username conf.password hf,
    makeAuthorization_digest E _ _ _ (by exact hune) rfl]
  exact rtsp_valid_digest_accepted hE conf { a with issued := fresh } fresh2 conf.username Gen.c14RtspRealm uri (asc "MD5")
    he hm hfne hu realm_fieldOK hf hx

/-- …and with Basic: the server challenges, lal's client answers, the server accepts. -/
theorem rtsp_client_server_basic {E : Ext} (hE : ExtLaws E) (conf : AuthConf) (a : AuthSt) (fresh fresh2 uri : Bytes)
    (he : conf.enable = true) (hm : conf.method = 0) (hune : conf.username ≠ []) (hu : (58 : UInt8) ∉ conf.username) :
    ∃ ch, (describeAuth E conf a [] fresh).2 = .challenge ch ∧
      (describeAuth E conf (describeAuth E conf a [] fresh).1
        (makeAuthorization E (feedWwwAuthenticate {} [ch] conf.username conf.password) (asc "DESCRIBE") uri) fresh2).2 = .pass := by
  have hch := (rtsp_challenge E conf a fresh he).1 hm
  refine ⟨_, by rw [hch], ?_⟩
  rw [hch, feed_challenge_basic]
  have : makeAuthorization E { ({} : AuthSt) with username := conf.username, password := conf.password, typ := Gen.c14AuthTypeBasic }
      (asc "DESCRIBE") uri = asc "Basic " ++ E.b64enc (conf.username ++ 58 :: conf.password) := by
    unfold makeAuthorization
    rw [if_neg (by exact hune), if_pos rfl]
    have e : Gen.c14AuthTypeBasic ++ [32] = asc "Basic " := by decide
    simp only [← e, List.append_assoc, List.singleton_append]
  rw [this]
  exact rtsp_valid_basic_accepted hE conf a fresh2 he hm hu

/-- with `auth_enable` off every DESCRIBE passes. -/
theorem rtsp_auth_disabled (E : Ext) (conf : AuthConf) (a : AuthSt) (authorization fresh : Bytes) (he : conf.enable = false) :
    (describeAuth E conf a authorization fresh).2 = .pass := by
  unfold describeAuth; simp [he]

def confB : AuthConf := { enable := true, method := 0, username := asc "admin", password := asc "12:34" }
def confD : AuthConf := { enable := true, method := 1, username := asc "admin", password := asc "123456" }
def uri0 : Bytes := asc "rtsp://127.0.0.1:5544/live/test110"
/-- a Digest header built from the RFC formula for a given nonce -/
def digestHdr (nonce : Bytes) : Bytes :=
  asc "Digest username=\"admin\", realm=\"lal\", nonce=\"" ++ nonce ++ asc "\", uri=\"" ++ uri0 ++ asc "\", response=\"" ++
    digestResponse E0 (asc "admin") (asc "lal") (asc "123456") nonce (asc "DESCRIBE") uri0 ++ asc "\", algorithm=\"MD5\""

-- non-vacuity with the real MD5 / base64: right credentials pass (a password with colons included), wrong ones fail,
-- the other scheme fails; Digest passes for the issued nonce only: a header made for another nonce (replay) fails
example : (describeAuth E0 confB {} (asc "Basic YWRtaW46MTI6MzQ=") (asc "n1")).2 = .pass := by decide +kernel
example : (describeAuth E0 confB {} (asc "Basic YWRtaW46MTI6MzU=") (asc "n1")).2 = .fail := by decide +kernel
example : (describeAuth E0 confB {} (digestHdr (asc "n0")) (asc "n1")).2 = .fail := by decide +kernel
example : (describeAuth E0 confD { issued := asc "n0" } (digestHdr (asc "n0")) (asc "n1")).2 = .pass := by decide +kernel
example : (describeAuth E0 confD { issued := asc "n1" } (digestHdr (asc "n0")) (asc "n2")).2 = .fail := by decide +kernel
example : (describeAuth E0 confD {} (digestHdr []) (asc "n1")).2 = .fail := by decide +kernel
example : (describeAuth E0 confD { issued := asc "n0" } (asc "Basic YWRtaW46MTIzNDU2") (asc "n1")).2 = .fail := by decide +kernel
example : (58 : UInt8) ∉ confB.username := by decide

/-! ## blacklist -/

/-- `blacklist_until_expiry`: after `Add(ip, d)` at second `t0`, whatever other calls are made on the blacklist
    (adds of other addresses, lookups of any address) at seconds up to `t`, `Has(ip)` at second `t` answers
    true exactly while `t ≤ t0 + d`. -/
theorem blacklist_until_expiry (l : Blacklist) (ip : Bytes) (d t0 t : Int) (ops : List (BlOp × Int))
    (hops : ∀ o ∈ ops, o.2 ≤ t ∧ ∀ d', o.1 ≠ .add ip d') :
    (blHas (blRun (blAdd l ip d t0) ops) ip t).2 = decide (t ≤ t0 + d) :=
  blHas_of_inv (blInv_run ops (blInv_add_self l ip d t0 t) hops)

/-- a black-listed address gets no HLS content: `serveHls` never hands its request to the file handler;
    and a playlist request that fails simple auth is never served either. -/
theorem blacklisted_gets_no_hls (E : Ext) (cfg : SimpleAuthConfig) (u : Option Url.UrlCtx) (sn : Url.UrlCtx → Bytes)
    (bl : Blacklist) (ip : Bytes) (now : Int) :
    ((blHas bl ip now).2 = true → serveHlsGate E cfg u sn bl ip now ≠ .serve) ∧
    (∀ x, u = some x → x.fileType = asc "m3u8" → onHls E cfg (sn x) x.rawQuery ≠ .ok → serveHlsGate E cfg u sn bl ip now ≠ .serve) := by
  constructor
  · intro h
    unfold serveHlsGate
    cases u with
    | none => simp
    | some x => dsimp only; split <;> simp [h]
  · intro x hx ht hv
    subst hx
    unfold serveHlsGate
    simp [ht, hv]

example : (blHas (blRun (blAdd [] (asc "10.0.0.1") 60 1000) [(BlOp.has (asc "10.0.0.1"), 1030), (BlOp.add (asc "10.0.0.2") 5, 1040)]) (asc "10.0.0.1") 1060).2 = true := by decide
example : (blHas (blRun (blAdd [] (asc "10.0.0.1") 60 1000) [(BlOp.has (asc "10.0.0.1"), 1030), (BlOp.add (asc "10.0.0.2") 5, 1040)]) (asc "10.0.0.1") 1061).2 = false := by decide

/-! ## file-system confinement -/

/-- `read_confined`: for EVERY request path (whatever the HTTP layer delivers; `path` is the decoded URL path,
    `q` the raw query) the HLS handler either answers "invalid hls request" without touching the file system or
    reads exactly one file, and that file lies at or below the configured root — for every root. -/
theorem read_confined (path q root : Bytes) :
    match serve (Url.parseUrlPath path q) root with
    | .invalid => True
    | .read f => under root f := by
  have h := requestInfo_under path q root
  unfold serve
  dsimp only
  split
  · trivial
  · rename_i f hf
    split at hf
    · cases hf
    · rename_i hc
      injection hf with hf
      rw [← hf]
      rcases h with h | h
      · exact absurd h (fun e => hc (Or.inr (Or.inr (Or.inr e))))
      · exact h

/-- what confinement means for locations: if `under root p`, then from every working directory `p` leads to a
    place reached from the directory `root` leads to by descending through ordinary names only (no `..`). -/
theorem under_means_below (root p : Bytes) (h : under root p) (cwd : List Bytes) :
    ∃ down : List Bytes, (∀ s ∈ down, OkSeg s) ∧ AccessSpec.walk cwd p = down.reverse ++ AccessSpec.walk cwd root :=
  under_walk h cwd

/-- `write_confined`: for every stream name, every path `Group.addIn` and the HLS muxer it starts create, write,
    rename or remove — the stream directory, both playlists and their `.bak`, every fragment, the flv and mpegts
    recordings — lies below the directory configured for it. A stream name that is not an ordinary path element
    (`nameOK` = `hls.StreamNameIsSafePathElement`) starts none of them. -/
theorem write_confined (c : OutConf) (name : Bytes) (now : Int) (frags : List (Int × Int)) :
    (∀ dp ∈ groupPaths c name now frags, under dp.1 dp.2) ∧ (safeName name = false → groupPaths c name now frags = []) :=
  ⟨groupPaths_under c name now frags, fun h => by simp [groupPaths, h]⟩

/-- the muxer alone (no guard of its own): for an ordinary stream name all its paths are below the root. -/
theorem muxer_confined (root name : Bytes) (mode : Nat) (frags : List (Int × Int)) (h : safeName name = true) :
    ∀ p ∈ muxerPaths root name mode frags, under root p :=
  muxerPaths_under root name mode frags (safeName_ok h)

def conf0 : OutConf := { hlsEnable := true, hlsRoot := asc "/data/hls", flvEnable := true, flvRoot := asc "./rec/flv/", tsEnable := true, tsRoot := asc "ts" }

-- non-vacuity and the witnesses outside the guard (what the pinned tree did for these names / requests)
example : groupPaths conf0 (asc "test110") 1700000000 [(0, 1700000000123)] ≠ [] := by decide
example : (asc "/data/hls/test110/test110-1700000000123-0.ts") ∈ muxerPaths (asc "/data/hls") (asc "test110") 1 [(0, 1700000000123)] := by decide
example : ¬ under (asc "/data/hls") (muxerOutPath (asc "/data/hls") (asc "..")) := by decide
example : ¬ under (asc "/data/hls") (liveM3u8 (muxerOutPath (asc "/data/hls") (asc "../../etc/x"))) := by decide
example : ¬ under (asc "./rec/flv/") (recordFile (asc "./rec/flv/") (asc "../x") 1700000000 (asc ".flv")) := by decide
example : groupPaths conf0 (asc "..") 1700000000 [(0, 1)] = [] ∧ groupPaths conf0 (asc "a/b") 1700000000 [] = [] := by decide
example : serve (Url.parseUrlPath (asc "/hls/test110.m3u8") []) (asc "/data/hls") = .read (asc "/data/hls/test110/playlist.m3u8") := by decide
example : serve (Url.parseUrlPath (asc "/hls/...m3u8") []) (asc "/data/hls") = .invalid := by decide
example : serve (Url.parseUrlPath (asc "/hls/..-1-2.ts") []) (asc "/data/hls") = .invalid := by decide
example : ¬ under (asc "/data/hls") (join [asc "/data/hls", asc "..", asc "playlist.m3u8"]) := by decide

/-! ## the model of `filepath.Clean` against its specification -/

/-- `Clean` returns a normal form (only a relative path keeps leading `..`, no empty / `.` elements), is
    idempotent, and leads to the same place as its argument from every working directory. -/
theorem clean_spec (p : Bytes) (cwd : List Bytes) :
    NF (norm p) ∧ clean (clean p) = clean p ∧ AccessSpec.walk cwd (clean p) = AccessSpec.walk cwd p :=
  ⟨norm_nf p, clean_idem p, walk_clean cwd p⟩

example : clean (asc "/a/./b//../c/") = asc "/a/c" ∧ clean (asc "../../x/..") = asc "../.." ∧ clean (asc "/..") = asc "/" ∧ clean [] = asc "." := by decide

end Lal.Props.C14
