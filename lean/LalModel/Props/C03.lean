import LalModel.Proof.AdmissionLog
/-
  C03 — A stream has one input; foreign arrivals and departures never disturb it.
  Property theorems only. `Adm.run Code.fixed evs` is the model of logic.ServerManager (with the groups,
  the RTMP / RTSP connection automata, customize / GB28181 publishers, relay-pull attempts, the
  HTTP-API calls and the notification queue) after the events `evs`, every event being one critical
  section of the Go; `Code.fixed` is the lal tree with the C03 repairs, which is what the
  correspondence check runs against a real logic.Group (L1) and a real logic.ServerManager (L2).
  `Code.pinned` is the tree as it was pinned; the `example`s at the end are the defect witnesses on it
  (each was replayed on the real pinned code, see known_findings.json).

  Vocabulary (Spec/AdmissionSpec.lean): `inputsAt s st` the sessions sitting in an input slot of
  stream `st`; `pipeAt s st` the pipeline (push, HLS, recording, hook session) `addIn` started and
  `delIn` has not stopped; `proj log x` the notifications about session `x`; `leaving s e` the sessions
  whose departure / failure / kick the event `e` is; `source s e` the session a media event comes from.
-/
namespace Lal.Props.C03
open Lal Lal.Adm Lal.Adm.Spec

/-- At every instant a stream has at most one accepted input, and its pipeline runs exactly while it
    has one — for every interleaving of every event over any number of streams. -/
theorem at_most_one_input (evs : List Ev) (st : Stream) :
    (inputsAt (run Code.fixed evs) st).length ≤ 1 ∧
    ((pipeAt (run Code.fixed evs) st).isSome ↔ inputsAt (run Code.fixed evs) st ≠ []) := by
  unfold inputsAt pipeAt
  cases hg : (run Code.fixed evs).groups st with
  | none => simp
  | some g =>
    have ok := ok_run evs st g hg
    refine ⟨by simpa using ok.one, ?_⟩
    have := ok.pipe
    rw [Grp.hasIn_iff_inputs] at this
    simp only [Option.bind_some, Option.map_some, Option.getD_some]
    cases hi : g.inputs <;> simp_all

/-- non-vacuity: two publishers, a relay pull and a `start_rtp_pub` compete for one stream -/
example : inputsAt (run Code.fixed [.startPull 5 false (some 0) 9, .rOpen 1, .rPublish 1 5 true, .rOpen 2,
    .rPublish 2 5 true, .pullAttach 9, .rtpPub 3 5]) 5 = [1] := by decide

/-- An arrival the server refuses (publisher disconnected / API reports failure) leaves the input and the
    pipeline of EVERY stream as they were; except for a relay-pull attempt it changes no group at all and
    causes no notification; a refused relay-pull attempt reports exactly its one `relay_pull_stop`. -/
theorem refusal_is_silent (evs : List Ev) (e : Ev) (h : (step Code.fixed (run Code.fixed evs) e).2 = .refused) :
    (∀ st, inputsAt (step Code.fixed (run Code.fixed evs) e).1 st = inputsAt (run Code.fixed evs) st ∧
           pipeAt (step Code.fixed (run Code.fixed evs) e).1 st = pipeAt (run Code.fixed evs) st) ∧
    ((∀ a, e ≠ .pullAttach a) → (step Code.fixed (run Code.fixed evs) e).1.groups = (run Code.fixed evs).groups ∧
                               (step Code.fixed (run Code.fixed evs) e).1.log = (run Code.fixed evs).log) ∧
    (∀ a, e = .pullAttach a → (step Code.fixed (run Code.fixed evs) e).1.log = (run Code.fixed evs).log ++ [⟨.pullStop, a⟩]) := by
  obtain ⟨h1, h2, h3⟩ := refusal_silent (inv_run evs) h
  exact ⟨fun st => inputsAt_of_core (h1 st), h2, h3⟩

/-- the refused RTMP publisher is told to disconnect: its connection is closed, and marked so that no
    stop callback follows -/
theorem refused_publisher_is_disconnected (s : Srv) (c : Sid) (st : Stream) (a : Bool)
    (h : (step Code.fixed s (.rPublish c st a)).2 = .refused) :
    ∃ r, (step Code.fixed s (.rPublish c st a)).1.sess c = some (.rtmp r) ∧ r.closed = true ∧ r.flag = true := by
  simp only [step] at h ⊢
  obtain ⟨r, hr, e⟩ := rPublish_refused_eq h
  rw [e, modR_modR hr]
  exact ⟨{ r with typ := .pub, stream := st, flag := true, closed := true }, by simp, rfl, rfl⟩

/-- non-vacuity: a second publisher, a `start_rtp_pub` and an overtaken relay pull are all refused -/
example : results Code.fixed init [.startPull 5 false (some 0) 9, .rOpen 1, .rPublish 1 5 true, .rOpen 2, .rPublish 2 5 true,
    .rtpPub 3 5, .custAdd 4 5, .pullAttach 9] = [.ok, .ok, .ok, .ok, .refused, .refused, .refused, .refused] := by decide

/-- non-vacuity: a relay-pull attempt that was stopped (`stop_relay_pull`) or kicked while it was still
    connecting is refused when the origin answers — the calls themselves succeed —, the stream stays
    without input, and the next attempt attaches -/
example : results Code.fixed init [.startPull 5 false none 9, .stopPull 5, .stopPull 5, .pullAttach 9,
      .startPull 5 false none 10, .kick 5 10, .kick 5 10, .pullAttach 10, .startPull 5 false none 11, .pullAttach 11] =
      [.ok, .ok, .fail, .refused, .ok, .ok, .fail, .refused, .ok, .ok] ∧
    inputsAt (run Code.fixed [.startPull 5 false none 9, .stopPull 5, .pullAttach 9]) 5 = [] ∧
    inputsAt (run Code.fixed [.startPull 5 false none 9, .stopPull 5, .pullAttach 9, .startPull 5 false none 11, .pullAttach 11]) 5 = [11] := by
  decide

/-- The departure, failure or kick of any session other than the accepted input of a stream — the end of
    a connection, a second command, a protocol error, the end of a customize / GB28181 / relay-pull
    session, an API kick — leaves that stream's input and pipeline unchanged. Holds in EVERY state. -/
theorem foreign_departure_harmless (s : Srv) (e : Ev) (st : Stream)
    (hd : isDeparture e (step Code.fixed s e).2 = true)
    (hx : ∀ x ∈ leaving s e, x ∉ inputsAt s st) :
    inputsAt (step Code.fixed s e).1 st = inputsAt s st ∧ pipeAt (step Code.fixed s e).1 st = pipeAt s st :=
  inputsAt_of_core (departure_core s e st hd hx)

/-- non-vacuity: a relay-pull attempt that was overtaken by a publisher fails; the publisher stays -/
example : let s := run Code.fixed [.startPull 5 false (some 0) 9, .rOpen 1, .rPublish 1 5 true]
    isDeparture (.pullDone 9) (step Code.fixed s (.pullDone 9)).2 = true ∧ leaving s (.pullDone 9) = [9] ∧
    inputsAt s 5 = [1] ∧ inputsAt (step Code.fixed s (.pullDone 9)).1 5 = [1] := by decide

/-- Media is broadcast into a stream only when it comes from that stream's accepted input: never from a
    refused, departed, not-yet-attached or foreign session. -/
theorem no_forward_from_non_input (evs : List Ev) (e : Ev) (st : Stream)
    (h : (step Code.fixed (run Code.fixed evs) e).2 = .fwd st) :
    ∃ x, source (run Code.fixed evs) e = some x ∧ x ∈ inputsAt (run Code.fixed evs) st :=
  fwd_from_input (inv_run evs) h

/-- non-vacuity: the accepted publisher's media is forwarded, the overtaken pull's and the departed
    customize publisher's are not -/
example : results Code.fixed init [.custAdd 4 5, .custFeed 4, .custDel 4, .startPull 5 false (some 0) 9, .rOpen 1,
    .rPublish 1 5 true, .rMedia 1, .pullMedia 9, .custFeed 4] =
    [.ok, .fwd 5, .ok, .ok, .ok, .ok, .fwd 5, .drop, .drop] := by decide

/-- The stat view of a stream never lists a session that is not attached to it: everybody it names is a
    live session the stream accepted (`claimOf` = the place a live accepted session is registered at). -/
theorem stat_lists_attached_only (evs : List Ev) (st : Stream) (x : Sid)
    (h : x ∈ statIds (statView (run Code.fixed evs) st)) : ∃ sl, claimOf (run Code.fixed evs) x = some (st, sl) :=
  stat_listed_claims (inv_run evs) h

/-- … and conversely every live accepted session is where it claims to be -/
theorem attached_is_registered (evs : List Ev) (x : Sid) (st : Stream) (sl : Slot) :
    claimOf (run Code.fixed evs) x = some (st, sl) ↔ holdsAt (run Code.fixed evs) st sl x :=
  (inv_run evs).ci x st sl

example : statView (run Code.fixed [.rOpen 1, .rPublish 1 5 true, .rOpen 2, .rPlay 2 5 true 9, .rOpen 3, .rPublish 3 5 true,
    .rClose 2]) 5 = (some 1, none, []) := by decide

/-- In every reachable notification log, the notifications about any session are exactly what its life so
    far demands (`Spec.expect`): nothing for a session that was refused or has not asked for anything,
    `start` for an accepted one, the matching `start, stop` pair — same session id, emitted once each —
    when it has gone; a relay-pull attempt reports nothing while in flight, `relay_pull_start` once
    attached, and when it is over exactly one `relay_pull_stop`, preceded by the start iff it had
    attached. In particular every per-session sequence is one of the `Paired` shapes. -/
theorem notify_paired (evs : List Ev) (x : Sid) :
    proj (run Code.fixed evs).log x = expect ((run Code.fixed evs).sess x) ∧ Paired (proj (run Code.fixed evs).log x) := by
  have h := (linv_run evs).hist x
  refine ⟨h, ?_⟩
  rw [h]
  cases hs : (run Code.fixed evs).sess x with
  | none => simp [expect, Paired]
  | some v =>
    cases v with
    | rtmp r =>
      simp only [expect]
      cases ht : r.typ <;> cases hf : r.flag <;> cases hc : r.closed <;> simp [Paired, startOf, stopOf]
    | rtspPub p =>
      simp only [expect]
      cases ha : p.accepted <;> cases he : p.ended <;> simp [Paired]
    | rtspSub q =>
      simp only [expect]
      cases ha : q.accepted <;> cases he : q.ended <;> simp [Paired]
    | pull p =>
      simp only [expect]
      cases ht : p.st <;> cases hw : p.wasAttached <;> simp [Paired]
    | rtspConn k => simp [expect, Paired]
    | cust c => simp [expect, Paired]
    | ps p => simp [expect, Paired]

/-- a refused RTMP session (and one that never issued `publish` / `play`) contributes nothing -/
theorem refused_contributes_nothing (evs : List Ev) (c : Sid) (r : RConn)
    (hc : (run Code.fixed evs).sess c = some (.rtmp r)) (hr : r.flag = true ∨ r.typ = .unknown) :
    proj (run Code.fixed evs).log c = [] := by
  rw [(notify_paired evs c).1, hc]
  rcases hr with h | h <;> simp [expect, h]

/-- a finished relay-pull attempt has reported exactly one stop, preceded by a start iff it had attached -/
theorem pull_attempt_one_stop (evs : List Ev) (a : Sid) (p : Pull)
    (ha : (run Code.fixed evs).sess a = some (.pull p)) (hd : p.st = .done) :
    proj (run Code.fixed evs).log a = (if p.wasAttached then [.pullStart] else []) ++ [.pullStop] := by
  rw [(notify_paired evs a).1, ha]; simp [expect, hd]

/-- non-vacuity: accepted, refused and overtaken sessions in one history -/
example : let s := run Code.fixed [.startPull 5 false (some 0) 9, .rOpen 1, .rPublish 1 5 true, .rOpen 2, .rPublish 2 5 true,
      .pullAttach 9, .sOpen 3, .sAnnounce 3 4 5 true, .rClose 1]
    proj s.log 1 = [.pubStart, .pubStop] ∧ proj s.log 2 = [] ∧ proj s.log 9 = [.pullStop] ∧ proj s.log 4 = [] := by decide

/-- non-vacuity: an attempt stopped while connecting reports its one stop and no start; the one after it both -/
example : let s := run Code.fixed [.startPull 5 false none 9, .stopPull 5, .pullAttach 9, .startPull 5 false none 10,
      .pullAttach 10, .stopPull 5, .pullDone 10]
    proj s.log 9 = [.pullStop] ∧ proj s.log 10 = [.pullStart, .pullStop] := by decide

/-! ### the defects of the pinned tree (`Code.pinned`), as concrete histories -/

/-- S8: a relay-pull attempt that never attached fails after a publisher was accepted: the publisher is
    torn down (pipeline stopped, slot cleared) -/
example : let s := run Code.pinned [.startPull 5 false (some 0) 9, .rOpen 1, .rPublish 1 5 true]
    inputsAt s 5 = [1] ∧ inputsAt (step Code.pinned s (.pullDone 9)).1 5 = [] := by decide

/-- S8: `start_rtp_pub` installs a second input and answers success -/
example : let s := run Code.pinned [.rOpen 1, .rPublish 1 5 true]
    (step Code.pinned s (.rtpPub 3 5)).2 = .ok ∧ inputsAt (step Code.pinned s (.rtpPub 3 5)).1 5 = [1, 3] := by decide

/-- S8: a second `publish` on one RTMP connection terminates the server -/
example : (step Code.pinned (run Code.pinned [.rOpen 1, .rPublish 1 5 true]) (.rPublish 1 5 true)).2 = .crash := by decide

/-- S8: a refused RTSP ANNOUNCE is followed by a `pub_stop` for a session that was never started -/
example : proj (run Code.pinned [.rOpen 1, .rPublish 1 5 true, .sOpen 2, .sAnnounce 2 3 5 true]).log 3 = [.pubStop] := by decide

/-- a second ANNOUNCE on one RTSP connection: the first publisher object is never removed -/
example : statView (run Code.pinned [.sOpen 1, .sAnnounce 1 2 5 true, .sAnnounce 1 3 5 true]) 5 = (some 2, none, []) := by decide

/-- a customize publisher that was removed keeps feeding the stream's new input -/
example : (step Code.pinned (run Code.pinned [.custAdd 1 5, .custDel 1, .rOpen 2, .rPublish 2 5 true]) (.custFeed 1)).2 = .fwd 5 := by decide

/-- a relay pull that has not attached (a publisher overtook it) gets its media broadcast -/
example : (step Code.pinned (run Code.pinned [.startPull 5 false (some 0) 9, .rOpen 1, .rPublish 1 5 true]) (.pullMedia 9)).2 = .fwd 5 := by decide

/-- (found by C17) `stop_relay_pull` does not see an attempt that is still connecting: it reports failure, and
    when the origin answers the attempt attaches although relay pull was stopped -/
example : results Code.pinned init [.startPull 5 false none 9, .stopPull 5, .pullAttach 9] = [.ok, .fail, .ok] ∧
    inputsAt (run Code.pinned [.startPull 5 false none 9, .stopPull 5, .pullAttach 9]) 5 = [9] := by decide

end Lal.Props.C03
