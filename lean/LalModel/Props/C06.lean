import LalModel.Proof.TsFinal
import LalModel.Proof.TsAudioFinal
import LalModel.Proof.HlsFinal
import LalModel.Proof.RtspContent
import LalModel.Proof.RtspRun
import LalModel.Proof.Sdp
import LalModel.Model.RtspRmx
import LalModel.Model.HlsConcat
/-
  C06 — RTMP ingest reaches TS, HLS and RTSP consumers with the same frames.
  Property theorems only; helper lemmas live in LalModel/Proof/{TsStream,TsVideo,TsScenario,TsContent,TsFinal}.lean.

  Cast:
    `TsRmx.run obs {} o evs`   the model of `remux.Rtmp2MpegtsRemuxer` (probe filter, `feedVideo`, `feedAudio` with its
                                 cache, timestamp filter, `Frame.Pack`) fed the events `evs` (RTMP messages and explicit
                                 `FlushAudio()` calls), for ANY observer `obs` — a state machine that may call
                                 `FlushAudio()` at two points inside `OnTsPackets`, as lal's HLS muxer does
                                 (`HlsConcat.observer`) — tree of branch w-C06 (with the three `fix:` commits of C06);
    `TsScenario.tsOf outs`       the transport packets of all `OnTsPackets` calls, i.e. what an HTTP-TS consumer that is
                                 there from the start receives after the PAT/PMT;
    `Demux.pidUnits`, `Demux.videoAus`  the ISO/IEC 13818-1 per-PID demultiplexer and the Annex B reader (Spec/Demux.lean);
    `Publish.render c e`         the RTMP message that carries an element of a publish (Spec/Publisher.lean, from the FLV
                                 and ISO/IEC 14496-15 specifications).
-/
namespace Lal.Props.C06
open Lal Lal.TsRmx Lal.Publish

/-- the constants the models use are the ones in the source tree -/
theorem consts_agree :
    TsRmx.sc3 = Nalu.startCode3 ∧ TsRmx.sc4 = Nalu.startCode4
    ∧ Gen.avcAudNalu = Nalu.startCode4 ++ [0x09, 0xf0] ∧ Gen.hevcAudNalu = Nalu.startCode4 ++ [0x46, 0x01, 0x10]
    ∧ Gen.maxAudioCacheDelayByAudio = 150 * 90 ∧ Gen.maxAudioCacheDelayByVideo = 300 * 90
    ∧ Gen.maxAudioCacheSize + 8 = 65535
    ∧ Gen.calcFragmentHeaderQueueSize = 16 ∧ Gen.maxAnalyzeAvMsgSize = 16 ∧ Gen.rtpMaxPayloadSize = 1200 := by decide

/-! ### The transport stream is well-formed and loses nothing, whatever is published -/

/-- STRUCTURE. For EVERY event list — any video messages at all, audio messages of one codec whose frames fit (an AAC
    frame its 13-bit ADTS length, an Opus packet one PES packet) — and EVERY observer: the packets handed to the observer
    are a transport stream that the ISO/IEC 13818-1 demultiplexer reads, on the video PID and on the audio PID, as
    exactly the PES packets of the frames the remuxer packed (`unitOf f`: stream id, PTS/DTS + lal's constant delay
    mod 2^33, random_access_indicator = `Key`, PCR on key frames, byte-identical payload), in order, each once, with
    continuity counters that advance by one across all packets of the PID. -/
theorem ts_demux {σ : Type} (obs : Observer σ) (o : σ) (aac : Bool) (evs : List Ev)
    (hb : ∀ e ∈ evs, TsScenario.EvBounded aac e) :
    Demux.pidUnits Gen.tsPidVideo (TsScenario.tsOf (run obs {} o evs).2.2)
        = some ((TsScenario.vOf (TsScenario.frames (run obs {} o evs).2.2)).map TsStream.unitOf)
    ∧ Demux.pidUnits Gen.tsPidAudio (TsScenario.tsOf (run obs {} o evs).2.2)
        = some ((TsScenario.aOf (TsScenario.frames (run obs {} o evs).2.2)).map TsStream.unitOf) :=
  TsScenario.demux_of_step
    (TsScenario.run_step obs aac evs {} o TsScenario.sinv_init (fun _ => rfl) (fun m hm => by simp at hm) hb)

/-- JOIN POINTS. A consumer that joins at the `k`-th `OnTsPackets` call (an HTTP-TS subscriber that waited for a boundary,
    an HLS client that starts with a later segment) receives the packets of the calls from `k` on; the demultiplexer
    reads them as exactly the PES packets of the frames packed from that call on — nothing of an earlier frame, nothing
    missing, each once, counters continuous. For every `k`, every event list, every observer. -/
theorem ts_join {σ : Type} (obs : Observer σ) (o : σ) (aac : Bool) (evs : List Ev)
    (hb : ∀ e ∈ evs, TsScenario.EvBounded aac e) (k : Nat) :
    Demux.pidUnits Gen.tsPidVideo (TsStream.stream ((TsScenario.frames (run obs {} o evs).2.2).drop k))
        = some ((TsScenario.vOf ((TsScenario.frames (run obs {} o evs).2.2).drop k)).map TsStream.unitOf)
    ∧ Demux.pidUnits Gen.tsPidAudio (TsStream.stream ((TsScenario.frames (run obs {} o evs).2.2).drop k))
        = some ((TsScenario.aOf ((TsScenario.frames (run obs {} o evs).2.2).drop k)).map TsStream.unitOf) :=
  TsScenario.demux_from
    (TsScenario.run_step obs aac evs {} o TsScenario.sinv_init (fun _ => rfl) (fun m hm => by simp at hm) hb) k

/-! ### HLS: the segment files -/

/-- `hls_concat`. lal's HLS muxer (`HlsConcat.observer`: `FeedPatPmt`, `FeedMpegts`, `updateFragment` with its forced
    split, `openFragment` which calls back `FlushAudio()`, `closeFragment`; any segment duration) wired to the remuxer as
    `logic.Group` wires them, for EVERY event list: either nothing has been sent and there is no file, or every segment
    file begins with the PAT/PMT the remuxer announced and the files' contents after it, concatenated in creation order,
    are exactly the transport packets of the `OnTsPackets` calls from some call `k` on. -/
theorem hls_concat (fragMs : Nat) (evs : List Ev) :
    let r := run HlsConcat.observer {} { fragMs := fragMs } evs
    (r.2.2 = [] ∧ r.2.1.segs = [])
    ∨ (∃ b rest k, r.2.2 = .patpmt b :: rest ∧ k ≤ (TsScenario.frames rest).length
        ∧ (∀ g ∈ r.2.1.segs, g.take b.length = b)
        ∧ r.2.1.segs.flatMap (fun g => g.drop b.length) = (TsStream.stream ((TsScenario.frames rest).drop k)).flatten) :=
  HlsFinal.hls_concat fragMs evs

/-- `hls_demux`. …so a client that concatenates the segments, drops the repeated PAT/PMT and cuts the rest into 188-byte
    packets gets, from the demultiplexer, exactly the PES packets of the frames packed from call `k` on (with `ts_frames`
    / `ts_audio` for their content). -/
theorem hls_demux (fragMs : Nat) (aac : Bool) (evs : List Ev) (hb : ∀ e ∈ evs, TsScenario.EvBounded aac e) :
    let r := run HlsConcat.observer {} { fragMs := fragMs } evs
    r.2.2 = [] ∨ ∃ b rest k, r.2.2 = .patpmt b :: rest
      ∧ (let body := r.2.1.segs.flatMap (fun g => g.drop b.length)
         let pkts := TsSpec.chunk188 body.length body
         Demux.pidUnits Gen.tsPidVideo pkts = some ((TsScenario.vOf ((TsScenario.frames rest).drop k)).map TsStream.unitOf)
         ∧ Demux.pidUnits Gen.tsPidAudio pkts = some ((TsScenario.aOf ((TsScenario.frames rest).drop k)).map TsStream.unitOf)) :=
  HlsFinal.hls_demux fragMs aac evs hb

/-! ### Video: the recovered access units are the published ones -/

/-- The recovered access units `aus` against the published ones `pub` that have anything to forward (`Publish.forwards`:
    a unit other than AUD / H.265 SEI), one to one, in order:
      * `normTs c g.nals = normTs c a.nals` — the same NAL units, byte for byte, in the same order, once the units the
        property lets differ are set aside ON BOTH SIDES (`Publish.normTs`: access unit delimiters, parameter sets,
        H.265 SEI);
      * random_access_indicator = the publisher's key frame flag;
      * DTS = 90·ts re-based (`TsRmx.rebase`) + delay, PTS = DTS + 90·cts, modulo 2^33 (`ts_time` below turns the
        re-basing into "minus one constant"). -/
abbrev AuRel := TsFinal.AuRel

/-- `ts_frames`. For every well-formed publish (`ElemWF`: NAL units as emulation prevention leaves them, of any size from
    1 byte to 2^32−1, any number per access unit, in-band parameter sets included; decoder configuration before the first
    access unit; audio of one codec), every interleaving of `FlushAudio()` calls and every observer: once the PAT/PMT is
    out, demultiplexing the video PID and reading every PES payload as an Annex B byte stream SUCCEEDS and gives the
    published access units in the sense of `AuRel`. -/
theorem ts_frames {σ : Type} (obs : Observer σ) (o : σ) (c : VCodec) (aac : Bool) (elems : List Elem) (evs : List Ev)
    (hm : TsContent.msgsOf evs = elems.map (render c)) (hwf : ∀ e ∈ elems, ElemWF c e) (hcf : ConfigFirst elems = true)
    (hu : TsFinal.AudioUniform aac elems) (hdone : (run obs {} o evs).1.done = true) :
    ∃ aus, (Demux.pidUnits Gen.tsPidVideo (TsScenario.tsOf (run obs {} o evs).2.2)).bind Demux.videoAus = some aus
      ∧ AuRel c none aus ((videoAus elems).filter fun a => forwards c a.nals) :=
  TsFinal.video_end_to_end obs o c aac elems evs hm hwf hcf hu hdone

/-- One access unit, for every cache of well-formed parameter sets and every list of well-formed NAL units: `feedVideo`'s
    loop succeeds, the Annex B reader accepts what it wrote, and the units it finds are the published ones up to the
    normalisation; something was written exactly when there is something to forward; the cache stays well-formed. -/
theorem ts_access_unit (hevc : Bool) (ps : List (Nat × Bytes)) (hps : TsVideo.PsItems (TsVideo.codecOf hevc) ps)
    (nals : List Bytes) (hwf : ∀ n ∈ nals, Nalu.NalWF n) :
    ∃ l units, nalLoop hevc { spspps := some (Nalu.joinAnnexb ps) } nals = some l
      ∧ AnnexB.read l.out = some units
      ∧ normTs (TsVideo.codecOf hevc) units = normTs (TsVideo.codecOf hevc) nals
      ∧ (!l.out.isEmpty) = forwards (TsVideo.codecOf hevc) nals
      ∧ ∃ ps', l.spspps = some (Nalu.joinAnnexb ps') ∧ TsVideo.PsItems (TsVideo.codecOf hevc) ps' :=
  TsVideo.access_unit hevc ps hps nals hwf

/-! ### Audio -/

/-- Recovered audio PES packets against GROUPS of published AAC frames: every PES packet is a run of whole ADTS frames —
    each with a header a reader written from ISO/IEC 14496-3 decodes to the fields of the AudioSpecificConfig in force
    (`TsAudio.adtsOf`: MPEG-4 ID, layer 0, no CRC, profile = object type − 1, sampling index, channel configuration,
    frame length = frame + 7, one raw data block) and the published frame bytes — and is stamped with the time of its
    FIRST frame (re-based + delay, modulo 2^33). -/
abbrev PesRel := TsAudioFinal.PesRel

/-- `ts_audio`. For every well-formed publish with AAC audio, every interleaving of `FlushAudio()` calls and every
    observer, once the PAT/PMT is out: the published AAC frames (`aacFrames`: each with the configuration that precedes
    it) split, in order, into consecutive groups plus a rest that still waits in the cache (empty when the cache is —
    e.g. after the `FlushAudio()` of `Dispose()`, `audio_flush` below); demultiplexing the audio PID and splitting every
    PES payload at its ADTS headers SUCCEEDS and gives exactly the groups, in the sense of `PesRel`. So every frame
    reaches the consumer once, in order, byte for byte, behind a header consistent with the published configuration;
    how frames are batched (150 ms / 300 ms / size / observer) does not matter. -/
theorem ts_audio {σ : Type} (obs : Observer σ) (o : σ) (c : VCodec) (elems : List Elem) (evs : List Ev)
    (hm : TsContent.msgsOf evs = elems.map (render c)) (hwf : ∀ e ∈ elems, ElemWF c e)
    (hu : TsFinal.AudioUniform true elems) (hdone : (run obs {} o evs).1.done = true) :
    ∃ (groups : List (List AacFrame)) (pending : List AacFrame),
      groups.flatten ++ pending = aacFrames none elems
      ∧ ((run obs {} o evs).1.cache = [] → pending = [])
      ∧ ∃ pess, (Demux.pidUnits Gen.tsPidAudio (TsScenario.tsOf (run obs {} o evs).2.2)).bind Demux.aacPess = some pess
          ∧ PesRel none pess groups :=
  TsAudioFinal.aac_end_to_end obs o c elems evs hm hwf hu hdone

/-- after a final `FlushAudio()` nothing waits -/
theorem audio_flush {σ : Type} (obs : Observer σ) (o : σ) (aac : Bool) (evs : List Ev)
    (hb : ∀ e ∈ evs, TsScenario.EvBounded aac e) : (run obs {} o (evs ++ [.flush])).1.cache = [] :=
  TsAudioFinal.flush_last_cache obs aac o evs hb

/-- Opus: one packet per PES packet, byte for byte, in order, stamped with the packet's time. (The packets are written
    bare: see the open finding C06-opus-in-ts-without-control-header.) -/
theorem ts_audio_opus {σ : Type} (obs : Observer σ) (o : σ) (c : VCodec) (elems : List Elem) (evs : List Ev)
    (hm : TsContent.msgsOf evs = elems.map (render c)) (hwf : ∀ e ∈ elems, ElemWF c e)
    (hu : TsFinal.AudioUniform false elems) (hdone : (run obs {} o evs).1.done = true) :
    ∃ units, Demux.pidUnits Gen.tsPidAudio (TsScenario.tsOf (run obs {} o evs).2.2) = some units
      ∧ TsAudioFinal.OpusRel none units (opusPackets elems) :=
  TsAudioFinal.opus_end_to_end obs o c elems evs hm hwf hu hdone

/-- The pinned tree (before `fix:` 1ebd3ee) did NOT have the property. Witness: a PPS sent on its own in front of a non-IDR
    slice. The loop as it was wrote AUD + slice: the published PPS `68 ef` is nowhere in the access unit (nor in the cache,
    which still holds `68 ee`), so the consumer's decoder keeps the old picture parameters. The loop as it is now writes
    AUD + PPS + slice. -/
theorem prefix_lone_pps_lost :
    let cache : Bytes := Nalu.joinAnnexb [(3, [0x67, 0x64, 0x00, 0x1f]), (3, [0x68, 0xee])]
    ((PreFix.nalLoop false { spspps := some cache } [[0x68, 0xef], [0x41, 0x9a]]).map fun l => (AnnexB.read l.out, l.spspps == some cache))
        = some (some [[0x09, 0xf0], [0x41, 0x9a]], true)
    ∧ ((nalLoop false { spspps := some cache } [[0x68, 0xef], [0x41, 0x9a]]).map fun l => AnnexB.read l.out)
        = some (some [[0x09, 0xf0], [0x68, 0xef], [0x41, 0x9a]]) := by decide +kernel

/-! ### Time -/

/-- `ts_time`. Under the hypothesis that no access unit's time lies below the first forwarded one's (`t0 ≤ a.ts`; S22
    outside), the recovered times are the published ones times 90 minus ONE constant (90·t0 − delay), modulo 2^33:
    DTS = 90·(ts − t0) + delay, PTS − DTS = 90·cts. -/
theorem ts_time (c : VCodec) (t0 : Nat) : ∀ (aus : List Demux.VideoAu) (pub : List Au),
    AuRel c (some (t0 * 90)) aus pub → (∀ a ∈ pub, t0 ≤ a.ts) →
    aus.length = pub.length ∧ ∀ p ∈ aus.zip pub,
      p.1.dts = (90 * (p.2.ts - t0) + Ts.delay) % 8589934592 ∧ p.1.pts = (90 * (p.2.ts - t0) + 90 * p.2.cts + Ts.delay) % 8589934592 := by
  intro aus
  induction aus with
  | nil =>
    intro pub h _
    cases pub with
    | nil => exact ⟨rfl, fun p hp => by simp at hp⟩
    | cons a as => exact absurd h (by simp [TsFinal.AuRel])
  | cons g gs ih =>
    intro pub h hmono
    cases pub with
    | nil => exact absurd h (by simp [TsFinal.AuRel])
    | cons a as =>
      obtain ⟨_, _, hd, hp, hrest⟩ := h
      have ha := hmono a (by simp)
      have hb : (rebase (some (t0 * 90)) (a.ts * 90)) = (t0 * 90, a.ts * 90 - t0 * 90) := by
        simp only [rebase, Option.getD_some]
        rw [if_neg (by omega)]
      rw [hb] at hd hp hrest
      obtain ⟨hl, hall⟩ := ih as hrest (fun a' ha' => hmono a' (by simp [ha']))
      refine ⟨by simp [hl], ?_⟩
      intro p hp'
      simp only [List.zip_cons_cons, List.mem_cons] at hp'
      rcases hp' with rfl | hp'
      · refine ⟨by rw [hd]; simp only [TsFinal.two33]; congr 2; omega, by rw [hp]; simp only [TsFinal.two33]; congr 2; omega⟩
      · exact hall p hp'

/-- …and the first forwarded access unit fixes the constant: its DTS is `delay`, and the base from then on is 90·ts. -/
theorem ts_time_first (c : VCodec) (g : Demux.VideoAu) (gs : List Demux.VideoAu) (a : Au) (as : List Au)
    (h : AuRel c none (g :: gs) (a :: as)) :
    g.dts = Ts.delay % 8589934592 ∧ g.pts = (90 * a.cts + Ts.delay) % 8589934592 ∧ AuRel c (some (a.ts * 90)) gs as := by
  obtain ⟨_, _, hd, hp, hrest⟩ := h
  have hb : rebase none (a.ts * 90) = (a.ts * 90, 0) := by simp [rebase]
  rw [hb] at hd hp hrest
  exact ⟨by rw [hd]; simp [TsFinal.two33], by rw [hp]; simp [TsFinal.two33], hrest⟩

/-- S22, the excluded region: a time below the first one is NOT re-based — the frame is stamped with its absolute time,
    a different constant. (`rebase` is `Rtmp2MpegtsTimestampFilter.Do`.) Witness: first frame at 1000 ms, then 900 ms. -/
theorem s22_witness : rebase (some (1000 * 90)) (900 * 90) = (1000 * 90, 900 * 90)
    ∧ (900 * 90 + Ts.delay) % 8589934592 ≠ (8589934592 - 100 * 90 + Ts.delay) % 8589934592 := by decide

/-! ### RTSP / RTP

  `RtspRmx.run codec tool {} msgs` is a fresh `Rtmp2RtspRemuxer` fed `msgs` through `FeedRtmpMsg`: the analysis
  phase (sequence headers kept, other messages cached, `doAnalyze` once both configurations are known or 16 messages
  are cached: `sdp.Pack`, `OnSdp`, cache replay), then `remux` per message. Its output is the SDP followed by RTP
  packets. `RtspRmx.remuxAll s msgs` is `remux` applied to the messages in order from state `s`; a state is READY for
  a track when the analysis phase has put the track's configuration into it (`VReady`, `AReady f`).

  `rtp_frames` / `rtp_audio` speak about the whole remuxer. Their two hypotheses on the final state say in model terms
  "the analysis phase ended" and "the track's configuration arrived before it ended" (after it, `FeedRtmpMsg` drops
  every sequence header, so `sps` / `asc` can only have been set inside the window). The complementary case — a track
  whose configuration shows up after the window — is the open finding C06-late-track-never-reaches-rtsp.
  Proved in three steps: `RtspRun.run_pend` (the analysis phase ends in the ready state built from the collected
  headers and replays cache ++ later frames through `remux` in order), `rtp_frames_ready` / `rtp_audio_ready` (from a
  ready state on), and the C12 packer / depacketiser round trips. The SDP text itself is C19 `rtmp_to_sdp`. -/

/-- `rtp_frames` (video), whole remuxer. For every well-formed publish (configuration records, access units of any
    number of NAL units of any sizes, AAC frames, in any interleaving; no Opus/G.711) on which the analysis phase ended
    with a video configuration: the output is one SDP followed by RTP packets; the packets of the video payload type
    are all accepted by the RFC 3550 reader, their sequence numbers run on modulo 2^16, and regrouped at the marker bit
    and depacketised per RFC 6184 / RFC 7798 they give — for every published access unit, those cached during the
    analysis included, that has a unit other than an AUD — one access unit with exactly the published units minus AUDs,
    in order (`normRtp`), and the RTP timestamp ⌊ts · 90000 / 1000⌋ mod 2^32. -/
theorem rtp_frames (cd : Sdp.Codec) (tool : Bytes) (c : VCodec) (elems : List Elem)
    (hp : ∀ e ∈ elems, RtspRun.Plain c e) (hrtp : RtspContent.RtpWF c elems)
    (hdone : (RtspRmx.run cd tool {} (elems.map (render c))).1.analyzeDone = true)
    (hsps : (RtspRmx.run cd tool {} (elems.map (render c))).1.sps.isSome = true) :
    ∃ ctx rest pkts, (RtspRmx.run cd tool {} (elems.map (render c))).2 = .sdp ctx :: rest
      ∧ RtspContent.parseAll (RtspContent.pktsOf (RtspContent.vptNat c) rest) = some pkts
      ∧ Demux.seqChain pkts = true
      ∧ Demux.rtpAus (RtspContent.rtpKindOf c) pkts
          = some ((((videoAus elems).filter fun a => !(normRtp c a.nals).isEmpty)).map fun a =>
              { ts := Rtp.rtpTimestamp a.ts 90000, units := normRtp c a.nals }) :=
  RtspRun.rtsp_video cd tool c elems hp hrtp hdone hsps

/-- `rtp_frames` (AAC), whole remuxer. One RFC 3640 access unit per published frame, byte for byte, in order, with the
    RTP timestamp ⌊ts · f / 1000⌋ mod 2^32 at the sampling frequency `f` of the AudioSpecificConfig. -/
theorem rtp_audio (cd : Sdp.Codec) (tool : Bytes) (c : VCodec) (elems : List Elem)
    (hp : ∀ e ∈ elems, RtspRun.Plain c e)
    (hdone : (RtspRmx.run cd tool {} (elems.map (render c))).1.analyzeDone = true)
    (hasc : (RtspRmx.run cd tool {} (elems.map (render c))).1.asc.isSome = true) :
    ∃ ctx rest pkts f, (RtspRmx.run cd tool {} (elems.map (render c))).2 = .sdp ctx :: rest
      ∧ RtspContent.parseAll (RtspContent.pktsOf 97 rest) = some pkts
      ∧ Demux.seqChain pkts = true
      ∧ Demux.rtpAus .aac pkts = some ((RtspContent.aacOnly elems).map fun x => { ts := Rtp.rtpTimestamp x.1 f, units := [x.2] }) :=
  RtspRun.rtsp_aac cd tool c elems hp hdone hasc

/-- Before the analysis ends nothing is sent: no SDP, no packet. -/
theorem rtp_silent_until_analyzed (cd : Sdp.Codec) (tool : Bytes) (c : VCodec) (elems : List Elem)
    (hp : ∀ e ∈ elems, RtspRun.Plain c e)
    (hnd : (RtspRmx.run cd tool {} (elems.map (render c))).1.analyzeDone = false) :
    (RtspRmx.run cd tool {} (elems.map (render c))).2 = [] := by
  have hk0 : RtspRun.KInv c {} := { sp := rfl, avc := fun _ => rfl, hevc := fun _ => rfl, asc := fun a h => by cases h }
  have h := RtspRun.run_pend cd tool c elems {} [] hk0 hp
  have hinit : RtspRun.pendK {} (([] : List Elem).map (render c)) = ({} : RtspRmx.St) := rfl
  rw [hinit] at h
  rcases h with ⟨_, h⟩ | ⟨_, _, _, _, _, hd⟩
  · exact h
  · rw [hd] at hnd; cases hnd

/-- `rtp_frames_ready` (video), the stage from a ready state on (any ready state: also a packer that already exists). -/
theorem rtp_frames_ready (c : VCodec) (elems : List Elem) (s : RtspRmx.St) (hr : RtspContent.VReady c s)
    (hapt : (s.audioPt % 256).toNat % 256 ≠ RtspContent.vptNat c)
    (hwf : ∀ e ∈ elems, ElemWF c e) (hrtp : RtspContent.RtpWF c elems) (hnc : ∀ e ∈ elems, e.isVideoConfig = false) :
    ∃ pkts, RtspContent.parseAll (RtspContent.pktsOf (RtspContent.vptNat c) (RtspRmx.remuxAll s (elems.map (render c))).2) = some pkts
      ∧ Demux.seqChain pkts = true
      ∧ Demux.rtpAus (RtspContent.rtpKindOf c) pkts
          = some ((((videoAus elems).filter fun a => !(normRtp c a.nals).isEmpty)).map fun a =>
              { ts := Rtp.rtpTimestamp a.ts 90000, units := normRtp c a.nals }) :=
  RtspContent.rtp_video c elems s hr hapt hwf hrtp hnc

/-- `rtp_audio_ready` (AAC), the stage from a ready state on. -/
theorem rtp_audio_ready (c : VCodec) (f : Nat) (elems : List Elem) (s : RtspRmx.St) (hr : RtspContent.AReady f s)
    (hvpt : (s.videoPt % 256).toNat % 256 ≠ 97) (hwf : ∀ e ∈ elems, ElemWF c e)
    (hno : ∀ e ∈ elems, match e with | .aacConfig .. => False | .opus .. => False | _ => True) :
    ∃ pkts, RtspContent.parseAll (RtspContent.pktsOf 97 (RtspRmx.remuxAll s (elems.map (render c))).2) = some pkts
      ∧ Demux.seqChain pkts = true
      ∧ Demux.rtpAus .aac pkts = some ((RtspContent.aacOnly elems).map fun x => { ts := Rtp.rtpTimestamp x.1 f, units := [x.2] }) :=
  RtspContent.rtp_aac c f elems s hr hvpt hwf hno

/-- `rtp_time`. The RTP timestamp of a frame published at `ms` is the media time at the clock rate within one tick:
    rtpTs · 1000 ≤ ms · rate < (rtpTs + 1) · 1000 as long as it fits 32 bits (beyond that, modulo 2^32). -/
theorem rtp_time (ms rate : Nat) (h : ms * rate / 1000 < 4294967296) :
    Rtp.rtpTimestamp ms rate * 1000 ≤ ms * rate ∧ ms * rate < (Rtp.rtpTimestamp ms rate + 1) * 1000 := by
  unfold Rtp.rtpTimestamp
  omega

/-! ### Non-vacuity: a concrete publish meets the hypotheses and comes back -/

/-- H.264 + AAC: configuration records, a key frame, audio, a B-ish frame with the publisher's own AUD and an in-band
    PPS, audio, and a frame whose time lies below the first one (the S22 region) -/
def exElems : List Elem :=
  [.avcConfig 0x64 0x1f [0x67, 0x64, 0x00, 0x1f] [0x68, 0xee],
   .aacConfig 2 4 2,
   .video 1000 0 true [[0x06, 0x05, 0x80], [0x65, 0x88, 0x84]],
   .aacFrame 1000 [0x21, 0x10],
   .video 1040 80 false [[0x09, 0xf0], [0x68, 0xef], [0x41, 0x9a]],
   .aacFrame 1023 [0x01, 0x02, 0x03]]

def exEvs : List Ev := (exElems.map fun e => Ev.msg (render .avc e)) ++ [.flush]

example : (∀ e ∈ exElems, ElemWF .avc e) ∧ ConfigFirst exElems = true ∧ TsFinal.AudioUniform true exElems
    ∧ TsContent.msgsOf exEvs = exElems.map (render .avc) := by decide

-- the remuxer drains its probe filter on the second message (both tracks known) and sends 2 video + 1 audio PES packets;
-- the demultiplexed access units: AUD, SPS, PPS in front of the IDR picture; AUD (lal's), the in-band PPS and the slice
example : (run (hookObs true) {} () exEvs).1.done = true
    ∧ (Demux.pidUnits Gen.tsPidVideo (TsScenario.tsOf (run (hookObs true) {} () exEvs).2.2)).bind Demux.videoAus
        = some [{ dts := 63000, pts := 63000, rai := true,
                  nals := [[0x09, 0xf0], [0x06, 0x05, 0x80], [0x67, 0x64, 0x00, 0x1f], [0x68, 0xee], [0x65, 0x88, 0x84]] },
                { dts := 63000 + 40 * 90, pts := 63000 + 120 * 90, rai := false,
                  nals := [[0x09, 0xf0], [0x68, 0xef], [0x41, 0x9a]] }] := by
  decide +kernel

-- audio of the same run: one PES packet with both frames (23 ms apart: batched), stamped with the first one's time
example : (Demux.pidUnits Gen.tsPidAudio (TsScenario.tsOf (run (hookObs true) {} () exEvs).2.2)).bind Demux.aacPess
      = some [{ pts := 63000,
                frames := [(TsAudio.adtsOf ⟨2, 4, 2⟩ 2, [0x21, 0x10]), (TsAudio.adtsOf ⟨2, 4, 2⟩ 3, [0x01, 0x02, 0x03])] }]
    ∧ aacFrames none exElems = [⟨1000, 2, 4, 2, [0x21, 0x10]⟩, ⟨1023, 2, 4, 2, [0x01, 0x02, 0x03]⟩] := by
  decide +kernel

-- RTSP: the whole remuxer (analysis phase included, `Sdp.codec16` standing in for base64 / hex) on the same publish —
-- the analysis ends with the second configuration, in a state that is ready for both tracks …
def exRtsp : RtspRmx.St × List RtspRmx.Out := RtspRmx.run Sdp.codec16 [] {} (exElems.map (render .avc))
def exReady : RtspRmx.St := (RtspRmx.run Sdp.codec16 [] {} ((exElems.take 2).map (render .avc))).1

example : RtspContent.VReady .avc exReady ∧ RtspContent.AReady 44100 exReady ∧ exReady.analyzeDone = true :=
  ⟨⟨by decide +kernel, by decide +kernel, Or.inl (by decide +kernel)⟩,
   ⟨by decide +kernel, ⟨[0x12, 0x10], ⟨2, 4, 2⟩, by decide +kernel, by decide +kernel, by decide +kernel⟩, Or.inl (by decide +kernel)⟩,
   by decide +kernel⟩
-- the hypotheses of `rtp_frames` / `rtp_audio` hold on this publish
example : exRtsp.1.analyzeDone = true ∧ exRtsp.1.sps.isSome = true ∧ exRtsp.1.asc.isSome = true := by decide +kernel
example : ∀ e ∈ exElems, RtspRun.Plain .avc e := by
  intro e he
  simp only [exElems, List.mem_cons, List.not_mem_nil, or_false] at he
  rcases he with rfl | rfl | rfl | rfl | rfl | rfl <;> exact ⟨by decide, trivial⟩
example : RtspContent.RtpWF .avc exElems := by
  intro a ha n hn
  have hv : videoAus exElems = [⟨1000, 0, true, [[0x06, 0x05, 0x80], [0x65, 0x88, 0x84]]⟩, ⟨1040, 80, false, [[0x09, 0xf0], [0x68, 0xef], [0x41, 0x9a]]⟩] := by decide
  rw [hv] at ha
  simp only [List.mem_cons, List.not_mem_nil, or_false] at ha
  rcases ha with rfl | rfl
  · have h1 : normRtp VCodec.avc [[0x06, 0x05, 0x80], [0x65, 0x88, 0x84]] = [[0x06, 0x05, 0x80], [0x65, 0x88, 0x84]] := by decide
    rw [h1] at hn
    simp only [List.mem_cons, List.not_mem_nil, or_false] at hn
    rcases hn with rfl | rfl <;> (unfold RtspContent.RtpNalOK Rtp.NalWF; decide)
  · have h1 : normRtp VCodec.avc [[0x09, 0xf0], [0x68, 0xef], [0x41, 0x9a]] = [[0x68, 0xef], [0x41, 0x9a]] := by decide
    rw [h1] at hn
    simp only [List.mem_cons, List.not_mem_nil, or_false] at hn
    rcases hn with rfl | rfl <;> (unfold RtspContent.RtpNalOK Rtp.NalWF; decide)
-- … and the packets of the run, by payload type: the SEI and the IDR slice (no AUD, no parameter sets: they are in the SDP);
-- the in-band PPS and the slice; both AAC frames; video on the 90 kHz clock, audio on the 44.1 kHz clock
example : exRtsp.1.analyzeDone = true
    ∧ (RtspContent.parseAll (RtspContent.pktsOf 96 exRtsp.2)).bind (Demux.rtpAus .avc)
        = some [{ ts := 90000, units := [[0x06, 0x05, 0x80], [0x65, 0x88, 0x84]] }, { ts := 93600, units := [[0x68, 0xef], [0x41, 0x9a]] }]
    ∧ (RtspContent.parseAll (RtspContent.pktsOf 97 exRtsp.2)).bind (Demux.rtpAus .aac)
        = some [{ ts := 44100, units := [[0x21, 0x10]] }, { ts := 45114, units := [[0x01, 0x02, 0x03]] }] := by
  decide +kernel

end Lal.Props.C06
