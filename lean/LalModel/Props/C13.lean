import LalModel.Proof.C13Simple
import LalModel.Proof.RtpTotal
import LalModel.Proof.UnpackTotal
import LalModel.Proof.SessTotal
import LalModel.Proof.SrvTotal
import LalModel.Proof.PsTotal
import LalModel.Proof.C13Sites
import LalModel.Generated.C13
/-
  C13 — no input on the RTSP, RTP/RTCP, GB28181, WebSocket or URL surfaces terminates lal.

  Per modelled entry point: the model (Go run-time failures are the value `Fault.panic`, with exactly the guards the
  code has) never reaches a panic, for ALL inputs — every byte string, datagram sequence, SDP context, clock rate,
  channel assignment, list size. Where a function has a length precondition (ParseSr, ParseRtcpHeader) the theorem
  is stated under it and the caller's theorem shows the caller establishes it. Entry points that are only fuzzed
  (no model) carry no theorem: see checklib/p_C13.py.
-/
namespace Lal.Props.C13
open Lal Lal.Rtp Lal.RtpUnpack

/-! ### RTP header, Body(), key-frame boundary tests -/

/-- `rtprtcp.ParseRtpHeader` ends with a header or ErrRtpRtcpShortBuffer on every byte string. -/
theorem rtp_header_total (b : Bytes) : NoPanic (parseRtpHeader b) := parseRtpHeader_noPanic b

/-- `RtpPacket.Body()` of every packet `ParseRtpPacket` accepts is in range and not empty
    (CSRC count, extension length and padding count included). -/
theorem rtp_body_total (b : Bytes) (p : RtpPacket) (h : parseRtpPacket b = .ok p) :
    ∃ body, p.body = .ok body ∧ 0 < body.length ∧ body.length ≤ b.length := by
  obtain ⟨hh, _⟩ := RtspIn.parseRtpPacket_ok b p h
  obtain ⟨body, hb, h0, hl⟩ := body_ok p hh
  have hr : p.raw = b := by
    unfold parseRtpPacket at h
    split at h
    · cases h; rfl
    · cases h
  exact ⟨body, hb, h0, by rw [← hr]; exact hl⟩

/-- `IsAvcBoundary` / `IsHevcBoundary` on every accepted packet (what logic.Group calls for every RTSP subscriber). -/
theorem rtp_boundary_total (b : Bytes) (p : RtpPacket) (h : parseRtpPacket b = .ok p) :
    NoPanic (RtspIn.isAvcBoundary p) ∧ NoPanic (RtspIn.isHevcBoundary p) := by
  obtain ⟨hh, _⟩ := RtspIn.parseRtpPacket_ok b p h
  exact ⟨RtspIn.isAvcBoundary_noPanic p hh, RtspIn.isHevcBoundary_noPanic p hh⟩

/-- Non-vacuity: a packet with CSRC, extension and padding is accepted, its body is the payload. -/
example : (parseRtpPacket [0xb1, 0x60, 0, 7, 0, 0, 0, 1, 0, 0, 0, 2, 0, 0, 0, 9, 0xbe, 0xde, 0, 1, 1, 2, 3, 4, 0x65, 0x88, 0, 2]).toOption.map
    (fun p => p.body) = some (.ok [0x65, 0x88]) := by decide

/-- The guard is in `ParseRtpHeader`: `Body()` itself slices `Raw[payloadOffset : len(Raw)-paddingLength]` unchecked, a
    padding count of 255 on a 16 byte packet panics there, and `ParseRtpHeader` now refuses that packet (witness of S14). -/
example : isPanic (RtpPacket.body ⟨{ padding := 1, paddingLength := 255, payloadOffset := 12 },
    [0xa0, 0, 0, 1, 0, 0, 0, 0, 0, 0, 0, 1, 0xaa, 0xbb, 0xcc, 0xff], 0⟩) = true := by decide
example : parseRtpPacket [0xa0, 0, 0, 1, 0, 0, 0, 0, 0, 0, 0, 1, 0xaa, 0xbb, 0xcc, 0xff] = .error .err := by decide

/-! ### RTCP -/

/-- `ParseRtcpHeader` and `ParseSr` under their documented precondition `len(b) >= RtcpSrMinLength`. -/
theorem rtcp_parse_total (b : Bytes) (h : Gen.rtcpSrMinLength ≤ b.length) :
    (∃ hd, Rtcp.parseRtcpHeader b = .ok hd) ∧ (∃ s, Rtcp.parseSr b = .ok s) := by
  have h28 : 28 ≤ b.length := h
  exact ⟨Rtcp.parseRtcpHeader_ok b (by omega), Rtcp.parseSr_ok b h28⟩

/-- Without the precondition `ParseSr` indexes past the end (the pinned `handleRtcpPacket` called it on any packet
    whose second byte is 200): the precondition is necessary. -/
example : isPanic (Rtcp.parseSr [0x80, 0xc8, 0, 6]) = true := by decide

/-! ### the three RTP unpackers behind RtpUnpackContainer -/

/-- `RtpUnpackContainer.Feed` over any datagram sequence (those `ParseRtpPacket` rejects are dropped by the callers):
    AVC, HEVC, AAC, G.711, Opus; every clock rate an SDP can announce (any Go int: 0, 999, negative), every list size. -/
theorem unpack_total (k : Kind) (rate : Int) (maxSize : Nat) (raws : List Bytes) :
    ∃ l o, feedAll (protoOf k rate) { maxSize := maxSize } (parseAll raws) = .ok (l, o) :=
  feedAll_total k rate maxSize raws

/-- Non-vacuity: clock rate 500 (division by zero on the pinned tree, S11), one single-NAL packet: delivered. -/
example : (feedAll (protoOf .avc 500) { maxSize := 8 }
    (parseAll [[0x80, 0x60, 0, 1, 0, 0, 0, 0, 0, 0, 0, 1, 0x41, 0xaa]])).toOption.map (·.2) = some [{ ts := 0, payload := [0, 0, 0, 2, 0x41, 0xaa] }] := by
  decide

/-- Non-vacuity: AU-headers-length 65535 on a 14 byte AAC packet (S14): consumed without output. -/
example : (feedAll (protoOf .aac 44100) { maxSize := 8 }
    (parseAll [[0x80, 0x61, 0, 1, 0, 0, 0, 0, 0, 0, 0, 1, 0xff, 0xff]])).toOption.map (·.2) = some [] := by decide

/-! ### BaseInSession: interleaved and UDP RTP / RTCP input of an RTSP publisher or of lal's RTSP pull client -/

/-- `BaseInSession.HandleInterleavedPacket` (the UDP callbacks call the same two handlers) for every SDP context,
    every sequence of SETUPs and every sequence of (channel, packet). -/
theorem insession_total (c : Sdp.LogicContext) (setups : List (Bytes × Int × Int)) (items : List (Int × Bytes)) :
    ∃ r, RtspIn.run (RtspIn.setupAll (RtspIn.initWithSdp c) setups) items = .ok r :=
  RtspIn.session_total c setups items

/-! ### the RTSP command connection -/

/-- `ServerCommandSession.runCmdLoop` over every sequence of parsed requests and interleaved frames, every
    authentication setting, plain or WebSocket, whatever the observer answers to DESCRIBE and whatever base64 / hex
    decoders the SDP parser is given. -/
theorem rtsp_session_total (cdc : Sdp.Codec) (ws : Bool) (auth : Nat) (d : RtspSrv.Describe) (toks : List RtspSrv.Tok) :
    ∃ r, RtspSrv.runSession cdc ws auth d toks = .ok r :=
  RtspSrv.runSession_ok cdc ws auth d toks

/-- lal's own message reader `readHttpMessage` (what both command sessions read requests / responses with), the step behind
    the header section: whatever `Content-Length` the peer announces (absent, not a number, any Go int) and whatever bytes
    follow, no `makeslice` panic; the body is part of what was received and never longer than `maxHttpMsgBodyLength`. -/
theorem rtsp_msg_total (cl : RtspSrv.ContentLength) (avail : Bytes) :
    NoPanic (RtspSrv.readMsgBody cl avail)
      ∧ ∀ body rest, RtspSrv.readMsgBody cl avail = .ok (some (body, rest)) → body ++ rest = avail ∧ body.length ≤ Gen.maxHttpMsgBodyLength :=
  ⟨RtspSrv.readMsgBody_noPanic cl avail, fun body rest h => RtspSrv.readMsgBody_bounded cl avail body rest h⟩

/-- `nazahttp.ReadHttpMessage`, which lal called until the fix, allocates whatever Atoi returned: `Content-Length: -1` in one
    unauthenticated request ended the process (finding C13-naza-content-length); lal's reader answers with an error. -/
example : isPanic (RtspSrv.readMsgBodyNaza (.val (-1)) []) = true := by decide
example : RtspSrv.readMsgBody (.val (-1)) [] = .error .err := by decide
example : RtspSrv.readMsgBody (.val 1048577) [] = .error .err := by decide
example : RtspSrv.readMsgBody (.val 3) [1, 2, 3, 4] = .ok (some ([1, 2, 3], [4])) := by decide
example : RtspSrv.readMsgBody (.val 1048576) [1, 2, 3, 4] = .ok none := by decide

/-! ### WebSocket frames -/

/-- `base.ReadWsPayload` on every byte string. -/
theorem ws_total (b : Bytes) : NoPanic (WsRead.readWsPayload b) := WsRead.readWsPayload_noPanic b

/-- What it returns was received: payload and unread rest are parts of the input behind the two fixed header bytes,
    whatever length the frame announces (the pinned code allocated the announced 64-bit length: 2^40 ends the process
    with out of memory, 2^63 with a makeslice panic). -/
theorem ws_bounded (b p rest : Bytes) (h : WsRead.readWsPayload b = .ok (p, rest)) : p.length + rest.length + 2 ≤ b.length :=
  WsRead.readWsPayload_bounded b p rest h

example : WsRead.readWsPayload [0x81, 0x7f, 0, 0, 1, 0, 0, 0, 0, 0] = .error .err := by decide
example : WsRead.readWsPayload [0x81, 0x7f, 0x80, 0, 0, 0, 0, 0, 0, 0] = .error .err := by decide
example : WsRead.readWsPayload [0x81, 0x83, 1, 2, 3, 4, 0x40, 0x40, 0x40, 9] = .ok ([0x41, 0x42, 0x43], [9]) := by decide

/-! ### GB28181 program stream -/

/-- `PsUnpacker.FeedRtpBody`, any number of calls, from ANY demultiplexer state: pack header stuffing, system header,
    PSM lengths, PES length / header length / PTS-DTS flags, start-code splitting of the video buffer. -/
theorem ps_body_total (s : Ps.Dm) (bodies : List (Nat × Bytes)) : ∃ r, Ps.bodyAll s bodies = .ok r := Ps.bodyAll_ok bodies s

/-- `PsUnpacker.FeedRtpPacket` over any datagram sequence, for lal's list size. -/
theorem ps_feed_total (raws : List Bytes) : ∃ r, Ps.feedAll (Ps.init Gen.maxUnpackRtpListSize) raws = .ok r :=
  Ps.feedAll_ok raws _ (Ps.init_inv _ (by decide))

/-- The list invariant `Size = length` is what `RtpPacketList.Reset` broke on the pinned tree (it left Size): with a
    stale Size the next arrival pops an empty list. -/
example : isPanic (Ps.pktLoop 3 { list := { items := [], size := 5, maxSize := 5 } }) = true := by decide

/-- Non-vacuity: a PES packet shorter than its header fields (length 2) is skipped, a truncated start code waits. -/
example : Ps.bodyAll {} [(0, [0, 0, 1, 0xe0, 0, 2, 0x80, 0x80]), (0, [0, 0, 1])] = .ok ([false, false], []) := by decide

/-! ### URLs -/

/-- lal's own slicing in `ParseUrl`, `ParseRtmpUrl`, `ParseRtspUrl`, `ParseHttpflvUrl` and the file name / type split,
    for EVERY result `net/url.Parse` and `net.SplitHostPort` can return (they are inputs of the model). -/
theorem url_total (u : UrlCtx.Std) (d : Int) :
    NoPanic (UrlCtx.parseUrl u d) ∧ NoPanic (UrlCtx.parseRtmpUrl u) ∧ NoPanic (UrlCtx.parseRtspUrl u) ∧ NoPanic (UrlCtx.parseHttpflvUrl u)
      ∧ ∀ c, NoPanic (UrlCtx.fileNameType c) :=
  ⟨UrlCtx.parseUrl_noPanic u d, UrlCtx.parseRtmpUrl_noPanic u, UrlCtx.parseRtspUrl_noPanic u, UrlCtx.parseHttpflvUrl_noPanic u,
   UrlCtx.fileNameType_noPanic⟩

/-- `rtmp://h/a?b?c` (one-level path, two question marks): `PathWithRawQuery[1:0]` panicked on the pinned tree. -/
example : (UrlCtx.parseRtmpUrl ⟨true, Sdp.asc "rtmp", Sdp.asc "h", Sdp.asc "/a", Sdp.asc "b?c", none⟩).toOption.map (fun c => (c.pathWithoutLastItem, c.lastItemOfPath)) = some ([], Sdp.asc "a?b?c") := by decide

/-! ### the constants and the site inventory the proofs were written against -/

/-- The numbers the models use are the ones of the source tree. -/
theorem consts_agree :
    RtspIn.unpackerItemMaxSize = Gen.unpackerItemMaxSize ∧ Gen.rtcpHeaderLength = 4 ∧ Gen.rtcpSrMinLength = 28 ∧ Gen.rtcpPacketTypeSr = 200
    ∧ Gen.rtpFixedHeaderLen = 12 ∧ 0 < Gen.maxUnpackRtpListSize ∧ RtspSrv.maxHttpMsgBodyLength = Gen.maxHttpMsgBodyLength
    ∧ [Gen.psPackHeader, Gen.psSystemHeader, Gen.psProgramStreamMap, Gen.psAudioStream, Gen.psVideoStream, Gen.psPesPrivate2, Gen.psPesEcm,
       Gen.psPesEmm, Gen.psPesPadding, Gen.psPackEnd, Gen.psHikStream, Gen.psPesPsd]
      = [0x1ba, 0x1bb, 0x1bc, 0x1c0, 0x1e0, 0x1bf, 0x1f0, 0x1f1, 0x1be, 0x1b9, 0x1bd, 0x1ff]
    ∧ Gen.psStreamTypes = [27, 36, 15, 144, 145] ∧ Gen.avPacketPts = [0, 8, 96, 98, 97, 101]
    ∧ Gen.defaultPorts = [80, 443, 1935, 554, 443, 322] := by decide

set_option maxRecDepth 4000 in
/-- The index / slice / divide / make / type-assert sites of the covered lal functions, regenerated by go/ast from the
    current tree, are exactly the ones of the inventory `C13Sites.covered` (each with the theorem or the structural reason
    that covers it): a new `b[7]` in a covered function is a broken proof obligation. -/
theorem sites_covered : Gen.c13SiteDigests = C13Sites.covered.map (·.1) := by decide

end Lal.Props.C13
