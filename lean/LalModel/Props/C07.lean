import LalModel.Model.Av2Rtmp
import LalModel.Model.AvQueue
import LalModel.Model.RtspIngest
import LalModel.Model.PsU
import LalModel.Spec.Av2RtmpSpec
import LalModel.Proof.Av2Rtmp
import LalModel.Proof.Av2RtmpMeta
import LalModel.Proof.TsDrift
import LalModel.Proof.AvQueue
import LalModel.Proof.RtspIngest
import LalModel.Proof.PsU
import LalModel.Props.C12
import LalModel.Generated.C07
/-
  C07 — RTSP, GB28181 and customize ingest reach RTMP/FLV consumers with the same frames.
  Property theorems only; helper lemmas live in LalModel/Proof. `Gen.*` is regenerated from the lal tree on every run.
-/
namespace Lal.Props.C07
open Lal Lal.Av Lal.Av2Rtmp Lal.Av2RtmpSpec

/-- The literals used by the models are the constants of the Go source. -/
theorem consts_agree :
    Gen.c07RtmpIds = [8, 9, 18, 5, 6, 7, 1] ∧
    Gen.c07FrameBytes = [0x17, 0x27, 0x1c, 0x2c, 1, 1, 1, 10, 7, 12] ∧
    Gen.c07NaluTypes = [5, 7, 8, 9, 32, 33, 34, 35, 16, 23] ∧
    Gen.c07StreamFormats = [1, 2, 1, 2, 1, 1] ∧
    Gen.c07PsStreamTypes = [0x1b, 0x24, 0x0f, 0x90, 0x91] ∧
    Gen.c07MaxQueueSize = AvQueue.maxQueueSize ∧
    Gen.c07UnpackerItemMaxSize = RtspIngest.unpackerItemMaxSize ∧
    Gen.c07PsStartCodes = [0x1ba, 0x1bb, 0x1bc, 0x1c0, 0x1e0, 0x1b9, 0x1bd, 0x1bf, 0x1f0, 0x1f1, 0x1be, 0x1ff] ∧
    Gen.c07MaxUnpackRtpListSize = PsU.maxUnpackRtpListSize ∧
    Gen.c07RotateFlags = [1, 1] := by
  decide

/-! ### frames → RTMP messages (AvPacket2RtmpRemuxer.FeedAvPacket; the RTSP, GB28181 and customize-pub paths all end here) -/

/-- `av2rtmp_frames`. A publisher's access units `us` (timestamp, NAL units; H.264 or H.265; handed over as AVCC or as
    an Annex-B byte stream with start codes of any length ≥ 3, according to the remuxer's option) go through
    `FeedAvPacket` one by one, from ANY remuxer state `st`. Read back with the FLV VIDEODATA / ISO 14496-15
    readers of LalModel/Spec (`readVideo`), the video messages are exactly what the specification walk
    `expectAll` demands, in order:
      * one sequence header for every group of in-band parameter sets that becomes complete — carrying exactly
        that SPS and PPS (and VPS), built by C19's builders (`seqhdr_roundtrip`) —, stamped with the unit's time;
      * then one frame message per access unit with all its other NAL units byte for byte, in order, each once,
        access-unit delimiters dropped, no parameter set inside;
      * marked key frame iff ANY of those NAL units is an IDR / IRAP slice (after the S13 fix; the pinned
        behaviour is `key_frame_pinned_witness`);
      * composition time 0, message type 9, stream id 1, timestamp = the unit's (mod 2^32).
    Hypotheses: every NAL unit is one an encoder emits (`UnitWF`), every completed group is accepted by lal's
    sequence-header builder and fits the 16-bit length fields (`SetsOK`). -/
theorem av2rtmp_frames (hevc : Bool) (us : List (Int × List (Nat × Bytes))) (st : St)
    (hwf : ∀ u ∈ us, UnitWF u.2)
    (hok : ∀ ts s, Ev.seqHdr ts s ∈ expectAll hevc (setsOf st) (us.map fun u => (u32 u.1, u.2.map (·.2))) → SetsOK hevc s) :
    (vid (feedAll .fixed st (us.map (videoPkt hevc (decide (st.videoFormat = 1))))).2).map (readVideo hevc)
      = (expectAll hevc (setsOf st) (us.map fun u => (u32 u.1, u.2.map (·.2)))).map fun e => some (normEv hevc e) :=
  feedAll_video hevc us st _ rfl hwf hok

/-- `av2rtmp_frames_mixed`. The same for the packet sequences the ingest paths really produce — video access units
    (`inl`) with audio packets (`inr`: raw AAC, ADTS AAC, G.711, Opus) in between, in any interleaving: audio packets
    emit no video message and leave the parameter-set cache and the input format alone, so the video messages are
    the specification's events for the video access units alone. -/
theorem av2rtmp_frames_mixed (hevc : Bool) (xs : List ((Int × List (Nat × Bytes)) ⊕ AvPacket)) (st : St)
    (hwf : ∀ u, Sum.inl u ∈ xs → UnitWF u.2)
    (hau : ∀ p, Sum.inr p ∈ xs → (p.pt = ptAac ∧ (st.audioFormat = 1 ∨ st.audioFormat = 2)) ∨ p.pt = ptG711A ∨ p.pt = ptG711U ∨ p.pt = ptOpus)
    (hok : ∀ ts s, Ev.seqHdr ts s ∈ expectAll hevc (setsOf st) ((videoUnits xs).map fun u => (u32 u.1, u.2.map (·.2))) → SetsOK hevc s) :
    (vid (feedAll .fixed st (mixedPkts hevc (decide (st.videoFormat = 1)) xs)).2).map (readVideo hevc)
      = (expectAll hevc (setsOf st) ((videoUnits xs).map fun u => (u32 u.1, u.2.map (·.2)))).map fun e => some (normEv hevc e) :=
  feedAll_video_mixed hevc xs st _ rfl hwf hau hok

/-- `init_seq_headers`. `OnSdp` / `InitWithAvConfig` on a fresh remuxer with the AudioSpecificConfig and the parameter
    sets of the SDP (C19 `sdp_roundtrip`, `sdp_to_rtmp`): an AAC sequence header carrying exactly that ASC and a video
    sequence header which a consumer reads back as exactly those sets, both at timestamp 0; in-band sets then start
    from an empty group, the input format is AVCC (what the RTP unpackers deliver). -/
theorem init_seq_headers (asc sps pps : Bytes) (vps : Option Bytes) (hasc : 2 ≤ asc.length)
    (hok : SetsOK vps.isSome (vps.getD [], sps, pps)) :
    aud (initWithAvConfig {} (some asc) vps (some sps) (some pps)).2 = [amsg (0xaf :: 0 :: asc) 0]
    ∧ (vid (initWithAvConfig {} (some asc) vps (some sps) (some pps)).2).map (readVideo vps.isSome)
        = [some (.seqHdr 0 (normSets vps.isSome (vps.getD [], sps, pps)))]
    ∧ setsOf (initWithAvConfig {} (some asc) vps (some sps) (some pps)).1 = ([], [], [])
    ∧ (initWithAvConfig {} (some asc) vps (some sps) (some pps)).1.videoFormat = 1 :=
  init_spec asc sps pps vps hasc hok

/-- `metadata_first`. The one metadata message (`rtmp.BuildMetadata(-1, -1, audiocodecid, videocodecid)`, read back by
    C18 `build_read_back`) is emitted exactly once, immediately in front of the first audio / video message, and
    nothing else depends on it: for EVERY packet sequence and state that still owes it, the output is the output
    `av` of the same run not owing it — which contains no metadata message — with that message in front (none if
    `av` is empty). -/
theorem metadata_first (pkts : List AvPacket) (st : St) (h : st.hasEmittedMetadata = false) :
    (feedAll .fixed st pkts).2 =
      (if (feedAll .fixed (done st) pkts).2 = [] then [] else [metaMsg st]) ++ (feedAll .fixed (done st) pkts).2
    ∧ ∀ m ∈ (feedAll .fixed (done st) pkts).2, m.typ ≠ 18 := by
  obtain ⟨_, h2, h3, _⟩ := feedAll_rel .fixed pkts st
  refine ⟨?_, h3⟩
  rw [h2, h]
  simp

/-- S13 on the pinned code: an IDR slice followed by an SEI in one packet is read back as an INTER frame
    (the byte is rewritten by every NAL unit, the last one decides); the fixed code marks it key. -/
theorem key_frame_pinned_witness :
    (vid (feedAvPacket .pinned { hasEmittedMetadata := true }
        (videoPkt false true (40, [(3, [0x65, 0xb0, 0x01]), (3, [0x06, 0x05, 0x80])]))).2).map (readVideo false)
      = [some (.frame 40 false [[0x65, 0xb0, 0x01], [0x06, 0x05, 0x80]])]
    ∧ (vid (feedAvPacket .fixed { hasEmittedMetadata := true }
        (videoPkt false true (40, [(3, [0x65, 0xb0, 0x01]), (3, [0x06, 0x05, 0x80])]))).2).map (readVideo false)
      = [some (.frame 40 true [[0x65, 0xb0, 0x01], [0x06, 0x05, 0x80]])] := by
  decide

/-- Audio frames: raw AAC, G.711 A-law / µ-law and Opus packets become one message each — the FLV sound byte
    (for AAC followed by AACPacketType 1) and the frame byte for byte, at the packet's timestamp; no video message. -/
theorem av2rtmp_audio (st : St) (pt : Int) (ts : Int) (frame : Bytes)
    (h : (pt = ptAac ∧ st.audioFormat = 1) ∨ pt = ptG711A ∨ pt = ptG711U ∨ pt = ptOpus) :
    aud (feedAvPacket .fixed st { pt := pt, ts := ts, payload := frame }).2 =
      [amsg ((if pt = ptAac then [0xaf, 1] else if pt = ptG711A then [0x72] else if pt = ptG711U then [0x82] else [0xdf]) ++ frame) ts]
    ∧ vid (feedAvPacket .fixed st { pt := pt, ts := ts, payload := frame }).2 = [] :=
  ⟨(feed_audio_raw st pt ts frame h).1, (feed_audio_raw st pt ts frame h).2.1⟩

/-- AAC with ADTS headers (GB28181): the first packet yields the AAC sequence header made from its ADTS header
    (C19 `asc_adts`), every packet its raw frame without the 7 header bytes. -/
theorem av2rtmp_audio_adts (st : St) (ts : Int) (p sh : Bytes) (hf : st.audioFormat = 2) (hl : 12 ≤ p.length)
    (hsh : Aac.makeAudioDataSeqHeaderWithAdtsHeader p = .ok sh) :
    aud (feedAvPacket .fixed st { pt := ptAac, ts := ts, payload := p }).2 =
      (if st.hasAdts2Asc then [] else [amsg sh ts]) ++ [amsg ([0xaf, 1] ++ p.drop 7) ts] :=
  (feed_audio_adts st ts p sh hf hl hsh).1

/-! ### timestamps -/

/-- `ts_no_drift`. The unpackers' millisecond value of an RTP timestamp is ⌊ts·1000/rate⌋ for EVERY clock rate > 0:
    never more than 1 ms below the exact time, whatever the rate and however long the stream … -/
theorem ts_no_drift (rate ts : Nat) (hr : 0 < rate) :
    ∃ ms, RtpUnpack.tsMs rate ts = .ok ms ∧ ms * rate ≤ ts * 1000 ∧ ts * 1000 < (ms + 1) * rate :=
  ⟨_, RtpUnpack.tsMs_eq rate ts hr, RtpUnpack.msOf_bounds rate ts hr⟩

/-- … and after AvPacketQueue's re-basing to the track's first unit the error against the exact elapsed time stays
    below 1 ms at every index: one constant per track, no cumulative drift. -/
theorem ts_no_drift_rebased (rate ts0 ts : Nat) (hr : 0 < rate) (h : ts0 ≤ ts) :
    (RtpUnpack.msOf rate ts - RtpUnpack.msOf rate ts0) * rate < (ts - ts0) * 1000 + rate ∧
    (ts - ts0) * 1000 < (RtpUnpack.msOf rate ts - RtpUnpack.msOf rate ts0) * rate + rate :=
  RtpUnpack.msOf_rebased rate ts0 ts hr h

/-- S11 on the pinned code (`Timestamp / uint32(clockRate/1000)`), 44.1 kHz, after `k` AAC frames: the value `p` is
    ahead of the exact time 1024·k/44.1 ms by more than 1024·k/19404 − 1 ms = 1024·k·(1/44 − 1/44.1) − 1 ms, i.e.
    linearly growing (19404 = 44·441) … -/
theorem ts_drift_pinned (k : Nat) :
    ∃ p, RtpUnpack.tsMsPinned 44100 (1024 * k) = .ok p ∧ 441 * (1024 * k) < 19404 * p + 19404 :=
  RtpUnpack.tsMsPinned_drift k

/-- … 53 ms after 1000 frames (23.2 s): 23272 instead of 23219. -/
theorem ts_drift_pinned_1000 :
    RtpUnpack.tsMsPinned 44100 (1024 * 1000) = .ok 23272 ∧ RtpUnpack.msOf 44100 (1024 * 1000) = 23219 :=
  RtpUnpack.tsMsPinned_1000

/-! ### AvPacketQueue (RTSP input with two tracks; `TimestampFilterHandleRotateFlag = true`, the default) -/

/-- `avqueue_order_preserving`. For EVERY sequence of packets fed to a fresh queue (any timestamps, any interleaving of
    the tracks): per track, what `onAvPacket` received followed by what is still queued is exactly the track's packets
    in their order — nothing dropped (in particular `PushBack` never meets a full queue), nothing duplicated,
    nothing reordered, payloads untouched — with the timestamps rewritten by that track's own `adjustTsHandleRotate`
    closure (`rebase`); at most one track is held back, by fewer than `maxQueueSize` packets. -/
theorem avqueue_order_preserving (ps : List AvPacket) :
    AvQueue.vproj (AvQueue.feedAll true {} ps).2 ++ (AvQueue.feedAll true {} ps).1.videoQueue = AvQueue.rebase {} (AvQueue.vproj ps)
    ∧ AvQueue.aproj (AvQueue.feedAll true {} ps).2 ++ (AvQueue.feedAll true {} ps).1.audioQueue = AvQueue.rebase {} (AvQueue.aproj ps)
    ∧ ((AvQueue.feedAll true {} ps).1.audioQueue = [] ∨ (AvQueue.feedAll true {} ps).1.videoQueue = [])
    ∧ (AvQueue.feedAll true {} ps).1.audioQueue.length < Gen.c07MaxQueueSize
    ∧ (AvQueue.feedAll true {} ps).1.videoQueue.length < Gen.c07MaxQueueSize := by
  obtain ⟨hi, h1, h2, _, _⟩ := AvQueue.feedAll_spec ps {} AvQueue.inv_init
  exact ⟨by simpa using h1, by simpa using h2, hi.one, hi.la, hi.lv⟩

/-- `avqueue_rebase`. A track whose source timestamps are non-negative and non-decreasing comes out re-based to
    start at 0: every timestamp minus the track's first one — "up to one constant per track". -/
theorem avqueue_rebase (p : AvPacket) (ps : List AvPacket) (h0 : 0 ≤ p.ts) (hm : AvQueue.Mono p.ts ps) :
    AvQueue.rebase {} (p :: ps) = (p :: ps).map fun x => { x with ts := x.ts - p.ts } :=
  AvQueue.rebase_first p ps h0 hm

/-- `avqueue_monotone`. If each track's re-stamped timestamps are non-decreasing (e.g. its source timestamps are,
    `sorted_rebase_of_mono`) and no queue ever fills up (`NoFlush`: a track running `maxQueueSize` packets ahead of the
    other is flushed regardless of order — by design), the merged output is non-decreasing in time. -/
theorem avqueue_monotone (ps : List AvPacket)
    (hv : AvQueue.Sorted (AvQueue.rebase {} (AvQueue.vproj ps))) (ha : AvQueue.Sorted (AvQueue.rebase {} (AvQueue.aproj ps)))
    (hnf : AvQueue.NoFlush {} ps) :
    AvQueue.Sorted (AvQueue.feedAll true {} ps).2 :=
  (AvQueue.feedAll_sorted ps {} AvQueue.inv_init (by simpa [AvQueue.futV] using hv) (by simpa [AvQueue.futA] using ha) hnf).1

/-! ### the RTSP pipeline: arrival perturbations -/

/-- `rtsp_ingest_reorder_invariant`. A session with two tracks (so with the AvPacketQueue) in any state, two arrival
    sequences `bs₁`, `bs₂` of RTP packets (UDP datagrams or interleaved frames: both end in `handleRtpPacket`) — for
    instance the sending order and a perturbed one. If each track's RtpUnpackContainer delivers the same units for its
    own arrivals in both (what C12 `reorder_invariant` proves for reordering and duplication inside the jitter window
    and sequence-number wrap-around), then, whatever the interleaving of the two tracks in either sequence:
    the messages are the remuxer's output (`av2rtmp_frames`) for packet sequences `outs₁`, `outs₂` that agree per track —
    same packets, same order, same re-stamped timestamps, each once — up to the packets the queue still holds back
    (`pend`: at most one track, fewer than `maxQueueSize`). -/
theorem rtsp_ingest_reorder_invariant (bs₁ bs₂ : List Bytes) (s : RtspIngest.Sess) (ua uv : RtspIngest.Unp) (q : AvQueue.Q)
    (la₁ lv₁ la₂ lv₂ : RtpUnpack.PktList) (UA UV : List RtpUnpack.AvPacket)
    (ha : s.unp.audio = some ua) (hv : s.unp.video = some uv)
    (hpa : ua.pt ≠ ptAvc ∧ ua.pt ≠ ptHevc) (hpv : uv.pt = ptAvc ∨ uv.pt = ptHevc)
    (hq : s.del.queue = some q) (hi : AvQueue.Inv q)
    (hr₁ : ∀ b ∈ bs₁, ∃ r, RtspIngest.route s.unp.ctx b = .ok r) (hr₂ : ∀ b ∈ bs₂, ∃ r, RtspIngest.route s.unp.ctx b = .ok r)
    (hA₁ : RtpUnpack.feedAll (RtpUnpack.protoOf ua.kind ua.rate) ua.list (RtspIngest.arrA s.unp.ctx bs₁) = .ok (la₁, UA))
    (hA₂ : RtpUnpack.feedAll (RtpUnpack.protoOf ua.kind ua.rate) ua.list (RtspIngest.arrA s.unp.ctx bs₂) = .ok (la₂, UA))
    (hV₁ : RtpUnpack.feedAll (RtpUnpack.protoOf uv.kind uv.rate) uv.list (RtspIngest.arrV s.unp.ctx bs₁) = .ok (lv₁, UV))
    (hV₂ : RtpUnpack.feedAll (RtpUnpack.protoOf uv.kind uv.rate) uv.list (RtspIngest.arrV s.unp.ctx bs₂) = .ok (lv₂, UV)) :
    ∃ s₁ s₂ outs₁ outs₂ pendV₁ pendV₂ pendA₁ pendA₂,
      RtspIngest.handleAll .fixed true s bs₁ = .ok (s₁, (Av2Rtmp.feedAll .fixed s.del.remux outs₁).2) ∧
      RtspIngest.handleAll .fixed true s bs₂ = .ok (s₂, (Av2Rtmp.feedAll .fixed s.del.remux outs₂).2) ∧
      AvQueue.vproj outs₁ ++ pendV₁ = AvQueue.vproj outs₂ ++ pendV₂ ∧
      AvQueue.aproj outs₁ ++ pendA₁ = AvQueue.aproj outs₂ ++ pendA₂ ∧
      (pendA₁ = [] ∨ pendV₁ = []) ∧ (pendA₂ = [] ∨ pendV₂ = []) ∧
      pendV₁.length < Gen.c07MaxQueueSize ∧ pendA₁.length < Gen.c07MaxQueueSize ∧
      pendV₂.length < Gen.c07MaxQueueSize ∧ pendA₂.length < Gen.c07MaxQueueSize := by
  obtain ⟨s₁, o₁, q₁, e₁, _, i₁, v₁, a₁⟩ := RtspIngest.handleAll_two_tracks .fixed bs₁ s ua uv q la₁ lv₁ UA UV ha hv hpa hpv hq hi hr₁ hA₁ hV₁
  obtain ⟨s₂, o₂, q₂, e₂, _, i₂, v₂, a₂⟩ := RtspIngest.handleAll_two_tracks .fixed bs₂ s ua uv q la₂ lv₂ UA UV ha hv hpa hpv hq hi hr₂ hA₂ hV₂
  exact ⟨s₁, s₂, o₁, o₂, q₁.videoQueue, q₂.videoQueue, q₁.audioQueue, q₂.audioQueue, e₁, e₂, by rw [v₁, v₂], by rw [a₁, a₂],
    i₁.one, i₂.one, i₁.lv, i₁.la, i₂.lv, i₂.la⟩

/-- `rtsp_ingest_single_track`. With a single track (video-only or audio-only: no AvPacketQueue since the fix of
    `IsAudioUnpackable`) the statement is an equality of the RTMP message lists themselves: two arrival sequences for
    which the track's container delivers the same units (C12 `reorder_invariant`) produce identical messages —
    the remuxer's output for exactly those units, in order. -/
theorem rtsp_ingest_single_track (bs₁ bs₂ : List Bytes) (s : RtspIngest.Sess) (u : RtspIngest.Unp) (l₁ l₂ : RtpUnpack.PktList)
    (U : List RtpUnpack.AvPacket) (hq : s.del.queue = none)
    (h₁ : (s.unp.audio = none ∧ s.unp.video = some u ∧ RtpUnpack.feedAll (RtpUnpack.protoOf u.kind u.rate) u.list (RtspIngest.arrV s.unp.ctx bs₁) = .ok (l₁, U))
        ∨ (s.unp.audio = some u ∧ s.unp.video = none ∧ RtpUnpack.feedAll (RtpUnpack.protoOf u.kind u.rate) u.list (RtspIngest.arrA s.unp.ctx bs₁) = .ok (l₁, U)))
    (h₂ : (s.unp.audio = none ∧ s.unp.video = some u ∧ RtpUnpack.feedAll (RtpUnpack.protoOf u.kind u.rate) u.list (RtspIngest.arrV s.unp.ctx bs₂) = .ok (l₂, U))
        ∨ (s.unp.audio = some u ∧ s.unp.video = none ∧ RtpUnpack.feedAll (RtpUnpack.protoOf u.kind u.rate) u.list (RtspIngest.arrA s.unp.ctx bs₂) = .ok (l₂, U)))
    (hr₁ : ∀ b ∈ bs₁, ∃ r, RtspIngest.route s.unp.ctx b = .ok r) (hr₂ : ∀ b ∈ bs₂, ∃ r, RtspIngest.route s.unp.ctx b = .ok r) :
    ∃ s₁ s₂ ms, RtspIngest.handleAll .fixed true s bs₁ = .ok (s₁, ms) ∧ RtspIngest.handleAll .fixed true s bs₂ = .ok (s₂, ms)
      ∧ ms = (Av2Rtmp.feedAll .fixed s.del.remux (RtspIngest.tagUnits u.pt U)).2 := by
  obtain ⟨s₁, e₁⟩ := RtspIngest.handleAll_single .fixed true bs₁ s u l₁ U hq h₁ hr₁
  obtain ⟨s₂, e₂⟩ := RtspIngest.handleAll_single .fixed true bs₂ s u l₂ U hq h₂ hr₂
  exact ⟨s₁, s₂, _, e₁, e₂, rfl⟩

/-- … with the hypothesis discharged by C12 `reorder_invariant`: both tracks packed by an RtpPacker (any initial
    sequence numbers, wrap-around allowed); `bs₂` delivers each track's packets in sending order, `bs₁` in arrival
    orders `σa`, `σv` (indices into the track's packets, duplicates allowed) that stay inside the reorder window, start
    with the track's first packet (S23) and contain every packet; the tracks interleaved arbitrarily in both. -/
theorem rtsp_ingest_reorder_invariant_packed (bs₁ bs₂ : List Bytes) (s : RtspIngest.Sess) (ua uv : RtspIngest.Unp) (q : AvQueue.Q)
    (ssrcA ssrcV maxA maxV ptA ptV seqA seqV : Nat) (fa fv : List (Nat × Bytes))
    (pa pv : List (List Rtp.RtpPacket)) (σa σv : List Nat)
    (ha : s.unp.audio = some ua) (hv : s.unp.video = some uv)
    (hpa : ua.pt ≠ ptAvc ∧ ua.pt ≠ ptHevc) (hpv : uv.pt = ptAvc ∨ uv.pt = ptHevc)
    (hq : s.del.queue = some q) (hi : AvQueue.Inv q)
    (hla : ua.list = { maxSize := ua.list.maxSize }) (hlv : uv.list = { maxSize := uv.list.maxSize })
    (hr₁ : ∀ b ∈ bs₁, ∃ r, RtspIngest.route s.unp.ctx b = .ok r) (hr₂ : ∀ b ∈ bs₂, ∃ r, RtspIngest.route s.unp.ctx b = .ok r)
    -- the audio track
    (hra : 1000 ≤ ua.rate ∧ ua.rate < 4294967296000) (hsa : seqA < 65536) (hwa : ∀ f ∈ fa, RtpUnpack.UnitWF ua.kind f.2 maxA)
    (hpka : Rtp.packerPackAll ua.kind ua.rate ssrcA maxA ptA seqA fa = .ok pa) (hna : pa.flatten.length ≤ 32768)
    (hσa : ∀ i ∈ σa, i < pa.flatten.length) (hfa : σa.head? = some 0) (haa : ∀ i, i < pa.flatten.length → i ∈ σa)
    (hwina : RtpSpec.inWindow ua.list.maxSize (pa.map List.length) 0 [] σa = true)
    (hwina0 : RtpSpec.inWindow ua.list.maxSize (pa.map List.length) 0 [] (List.range pa.flatten.length) = true)
    (hA₁ : RtspIngest.arrA s.unp.ctx bs₁ = σa.map fun i => pa.flatten.getD i default)
    (hA₂ : RtspIngest.arrA s.unp.ctx bs₂ = (List.range pa.flatten.length).map fun i => pa.flatten.getD i default)
    -- the video track
    (hrv : 1000 ≤ uv.rate ∧ uv.rate < 4294967296000) (hsv : seqV < 65536) (hwv : ∀ f ∈ fv, RtpUnpack.UnitWF uv.kind f.2 maxV)
    (hpkv : Rtp.packerPackAll uv.kind uv.rate ssrcV maxV ptV seqV fv = .ok pv) (hnv : pv.flatten.length ≤ 32768)
    (hσv : ∀ i ∈ σv, i < pv.flatten.length) (hfv : σv.head? = some 0) (hav : ∀ i, i < pv.flatten.length → i ∈ σv)
    (hwinv : RtpSpec.inWindow uv.list.maxSize (pv.map List.length) 0 [] σv = true)
    (hwinv0 : RtpSpec.inWindow uv.list.maxSize (pv.map List.length) 0 [] (List.range pv.flatten.length) = true)
    (hV₁ : RtspIngest.arrV s.unp.ctx bs₁ = σv.map fun i => pv.flatten.getD i default)
    (hV₂ : RtspIngest.arrV s.unp.ctx bs₂ = (List.range pv.flatten.length).map fun i => pv.flatten.getD i default) :
    ∃ s₁ s₂ outs₁ outs₂ pendV₁ pendV₂ pendA₁ pendA₂,
      RtspIngest.handleAll .fixed true s bs₁ = .ok (s₁, (Av2Rtmp.feedAll .fixed s.del.remux outs₁).2) ∧
      RtspIngest.handleAll .fixed true s bs₂ = .ok (s₂, (Av2Rtmp.feedAll .fixed s.del.remux outs₂).2) ∧
      AvQueue.vproj outs₁ ++ pendV₁ = AvQueue.vproj outs₂ ++ pendV₂ ∧
      AvQueue.aproj outs₁ ++ pendA₁ = AvQueue.aproj outs₂ ++ pendA₂ ∧
      (pendA₁ = [] ∨ pendV₁ = []) ∧ (pendA₂ = [] ∨ pendV₂ = []) ∧
      pendV₁.length < Gen.c07MaxQueueSize ∧ pendA₁.length < Gen.c07MaxQueueSize ∧
      pendV₂.length < Gen.c07MaxQueueSize ∧ pendA₂.length < Gen.c07MaxQueueSize := by
  obtain ⟨la₁, la₂, ea₁, ea₂⟩ := Lal.Props.C12.reorder_invariant ua.kind ua.rate ssrcA maxA ptA seqA ua.list.maxSize fa pa σa
    hra hsa hwa hpka hna hσa hfa haa hwina hwina0
  obtain ⟨lv₁, lv₂, ev₁, ev₂⟩ := Lal.Props.C12.reorder_invariant uv.kind uv.rate ssrcV maxV ptV seqV uv.list.maxSize fv pv σv
    hrv hsv hwv hpkv hnv hσv hfv hav hwinv hwinv0
  rw [← hla, ← hA₁] at ea₁
  rw [← hla, ← hA₂] at ea₂
  rw [← hlv, ← hV₁] at ev₁
  rw [← hlv, ← hV₂] at ev₂
  exact rtsp_ingest_reorder_invariant bs₁ bs₂ s ua uv q la₁ lv₁ la₂ lv₂ _ _ ha hv hpa hpv hq hi hr₁ hr₂ ea₁ ea₂ ev₁ ev₂

/-! ### GB28181: program stream → frames -/

/- `ps_frames` (full statement, NOT proved): for any packing of the same access units into a program stream — pack
   headers with any stuffing, system headers, program stream maps, private / padding packets in between, PES split
   points, PES header stuffing, PTS on the first or on every PES packet of an access unit, audio PES packets
   interleaved — and ANY cut of that byte stream into RTP payloads, delivered in any in-window arrival order,
   `PsUnpacker.FeedRtpPacket` hands out the same NAL units and audio frames with timestamps PTS/90.
   Proved below (`ps_frames_partial`): the video elementary stream with every PES split point, PES header stuffing and
   PTS placement; pack headers with any stuffing, system headers, private / padding / ECM / EMM / directory packets and
   end codes before each access unit; one unit per `FeedRtpBody` call. MISSING, covered by the differential check only:
   (1) cuts of the byte stream that do not coincide with unit boundaries (the model and the code buffer the remainder in
   `p.buf`; pinned defects at such cuts were found and fixed: pack-header stuffing), (2) a program stream map repeated
   inside the stream (the theorem starts after the first one) and units between the PES packets of one access unit,
   (3) audio PES packets, (4) the RTP reorder layer of `FeedRtpPacket`, (5) streams without any PTS (RTP-timestamp
   fallback). -/

/-- `ps_frames_partial`. A video elementary stream (H.264 or H.265 per the PSM) laid out by a sender as access units
    `f₀, f₁, …` — each with its PTS, its NAL units behind start codes of ANY length ≥ 3 (mixed freely), ANY cut of
    its bytes into PES packets (`Frame.first`, `Frame.more`: sizes, PES header stuffing, the PTS repeated or not on
    the later packets), preceded by any pack headers / system headers / skipped packets (`Frame.pre`) — fed one unit
    per `FeedRtpBody` call: the unpacker delivers every access unit but the
    last one (an access unit is complete only when the next one starts), NAL unit by NAL unit, byte for byte with
    its start code, in order, each once, stamped PTS/90 ms — after dropping everything before the first parameter
    set when `waitSpsFlag` is set (`gate`). Each delivered packet is one Annex-B unit for `av2rtmp_frames`. -/
theorem ps_frames_partial (pt : Int) (hpt : pt = ptAvc ∨ pt = ptHevc) (w : Bool) (f₀ : PsU.Frame) (fs : List PsU.Frame) (st : PsU.St)
    (h : PsU.Holding st pt w (-1) []) (h₀ : f₀.WF) (hfs : ∀ f ∈ fs, f.WF) (hc : PsU.Chained f₀ fs) :
    ∃ st', PsU.feedRtpBodies .fixed st ((f₀ :: fs).flatMap PsU.Frame.bodies) = .ok (st', PsU.expectFrames pt w (f₀ :: fs)) := by
  obtain ⟨st1, h1, hh1⟩ := PsU.feed_frame_init pt w f₀ st h₀ h
  obtain ⟨st2, h2⟩ := PsU.feed_frames pt hpt fs f₀ w st1 h₀ hfs hc hh1
  refine ⟨st2, ?_⟩
  simp only [List.flatMap_cons]
  rw [PsU.feedRtpBodies_append _ _ st st1 _ h1, h2]
  rfl

/-- … and each packet the unpacker delivers (a NAL unit behind its start code; the PTS field is not read) goes through the
    remuxer configured as `StartRtpPub` configures it (Annex-B) exactly as the one-unit access unit of `av2rtmp_frames`. -/
theorem ps_packet_remux (hevc : Bool) (st : St) (ts pts : Int) (it : Nat × Bytes) (hf : st.videoFormat ≠ 1)
    (hwf : UnitWF [it]) :
    feedAvPacket .fixed st { pt := if hevc then ptHevc else ptAvc, ts := ts, pts := pts, payload := PsU.scNal it }
      = feedVideoNals .fixed st hevc ts [it.2] := by
  have h := feed_video_pkt hevc st (ts, [it]) hwf
  have hd : decide (st.videoFormat = 1) = false := by simpa using hf
  rw [hd] at h
  have hp : encUnit false [it] = PsU.scNal it := by simp [encUnit, Nalu.joinAnnexb, PsU.scNal]
  simp only [videoPkt, hp, List.map_cons, List.map_nil] at h
  rw [← h]
  rfl

/-! ### non-vacuity -/

/-- video 25 fps from 1000 ms, audio 23 ms frames from 5000 ms, interleaved with ties after re-basing -/
def exQueueIn : List AvPacket :=
  [⟨96, 1000, 0, [1]⟩, ⟨97, 5000, 0, [2]⟩, ⟨96, 1040, 0, [3]⟩, ⟨97, 5023, 0, [4]⟩, ⟨97, 5040, 0, [5]⟩, ⟨96, 1080, 0, [6]⟩, ⟨97, 5069, 0, [7]⟩]

example : AvQueue.Sorted (AvQueue.rebase {} (AvQueue.vproj exQueueIn)) ∧ AvQueue.Sorted (AvQueue.rebase {} (AvQueue.aproj exQueueIn))
    ∧ AvQueue.NoFlush {} exQueueIn
    ∧ (AvQueue.feedAll true {} exQueueIn).2.map (fun p => (p.pt, p.ts)) = [(96, 0), (97, 0), (97, 23), (96, 40), (97, 40), (97, 69)] := by
  decide


def exSps : Bytes := [0x67, 0x42, 0xc0, 0x1e, 0x9e, 0x21, 0x81, 0x1f, 0x60]
def exPps : Bytes := [0x68, 0xce, 0x3c, 0x80]
/-- AUD, in-band SPS + PPS, SEI, IDR slice, suffix SEI (3- and 4-byte start codes), then a P frame -/
def exUnits : List (Int × List (Nat × Bytes)) :=
  [(0, [(3, [0x09, 0xf0]), (3, exSps), (2, exPps), (2, [0x06, 0x05, 0x80]), (3, [0x65, 0xb0, 0x01]), (2, [0x06, 0x01, 0x80])]),
   (40, [(3, [0x41, 0x9a, 0x02])])]

example : SetsOK false ([], exSps, exPps) := by
  refine ⟨?_, by decide, by decide, by decide⟩
  have h : (buildSets false ([], exSps, exPps)).toOption.isSome = true := by decide
  cases hb : buildSets false ([], exSps, exPps) with
  | ok sh => exact ⟨sh, rfl⟩
  | error e => rw [hb] at h; cases h

example : (∀ u ∈ exUnits, UnitWF u.2) ∧ (SeqHeader.avcBuild exSps exPps).toOption.isSome = true ∧
    expectAll false ([], [], []) (exUnits.map fun u => (u32 u.1, u.2.map (·.2))) =
      [.seqHdr 0 ([], exSps, exPps), .frame 0 true [[0x06, 0x05, 0x80], [0x65, 0xb0, 0x01], [0x06, 0x01, 0x80]],
       .frame 40 false [[0x41, 0x9a, 0x02]]] := by
  decide

/-- a two-track session (PCMA 8 kHz as payload type 8, H.264 as 96) and two arrival sequences of the same four packets:
    sending order, and audio first / reordered / with duplicates (video sequence numbers wrap 65535 → 0) -/
def exUa : RtspIngest.Unp := { pt := ptG711A, kind := .pcm, rate := 8000, list := { maxSize := 1024 } }
def exUv : RtspIngest.Unp := { pt := ptAvc, kind := .avc, rate := 90000, list := { maxSize := 1024 } }
def exSess : RtspIngest.Sess :=
  { unp := { ctx := { audioPayloadTypeOrigin := 8, videoPayloadTypeOrigin := 96, hasAudio := true, hasVideo := true },
             audio := some exUa, video := some exUv },
    del := { queue := some {}, remux := {} } }
def exV0 : Bytes := [0x80, 0xe0, 0xff, 0xff, 0, 0, 0x0e, 0x10, 0, 0, 0, 1, 0x65, 0x88, 0x80]
def exV1 : Bytes := [0x80, 0xe0, 0x00, 0x00, 0, 0, 0x1c, 0x20, 0, 0, 0, 1, 0x41, 0x9a, 0x02]
def exA0 : Bytes := [0x80, 0x88, 0x00, 0x07, 0, 0, 0x00, 0xa0, 0, 0, 0, 2, 0xd5, 0xd5]
def exA1 : Bytes := [0x80, 0x88, 0x00, 0x08, 0, 0, 0x01, 0x40, 0, 0, 0, 2, 0x55, 0x55]
def exRef : List Bytes := [exV0, exA0, exV1, exA1]
def exArr : List Bytes := [exA0, exV0, exA1, exA0, exV1, exV1]
def exUnitsOf (u : RtspIngest.Unp) (l : List Rtp.RtpPacket) : Option (List RtpUnpack.AvPacket) :=
  (RtpUnpack.feedAll (RtpUnpack.protoOf u.kind u.rate) u.list l).toOption.map (·.2)

/-- the hypotheses of `rtsp_ingest_reorder_invariant` hold for them: every arrival is routed, and each container
    delivers the same two units for both arrival sequences -/
example : (∀ b ∈ exRef ++ exArr, (RtspIngest.route exSess.unp.ctx b).toOption.isSome = true)
    ∧ exUnitsOf exUa (RtspIngest.arrA exSess.unp.ctx exArr) = exUnitsOf exUa (RtspIngest.arrA exSess.unp.ctx exRef)
    ∧ exUnitsOf exUv (RtspIngest.arrV exSess.unp.ctx exArr) = exUnitsOf exUv (RtspIngest.arrV exSess.unp.ctx exRef)
    ∧ (exUnitsOf exUv (RtspIngest.arrV exSess.unp.ctx exRef)).map List.length = some 2
    ∧ (exUnitsOf exUa (RtspIngest.arrA exSess.unp.ctx exRef)).map List.length = some 2
    ∧ AvQueue.Inv {} := by
  refine ⟨by decide, by decide, by decide, by decide, by decide, AvQueue.inv_init⟩

/-- a program stream map announcing H.264 on stream e0: after it the unpacker is in the state `ps_frames_partial`
    starts from (nothing buffered, no PTS seen, video type known, waiting for a parameter set) -/
def exPsm : Bytes := [0, 0, 1, 0xbc, 0, 14, 0xe0, 0xff, 0, 0, 0, 4, 0x1b, 0xe0, 0, 0, 0x45, 0xbd, 0xdc, 0xf4]
def exPsmState : Option PsU.St := (PsU.feedRtpBody .fixed {} exPsm 0).toOption.map (·.1)

example : exPsmState.map (·.buf) = some [] ∧ exPsmState.map (·.videoBuf) = some [] ∧ exPsmState.map (·.preVideoPts) = some (-1)
    ∧ exPsmState.map (·.videoPt) = some ptAvc ∧ exPsmState.map (·.waitSpsFlag) = some true := by decide

/-- a key frame (SPS, PPS, IDR; 4-, 3- and 3-byte start codes) cut into three PES packets with and without PTS and
    with stuffing, then a P frame in one packet -/
def exItems0 : List (Nat × Bytes) := [(3, exSps), (2, exPps), (2, [0x65, 0x88, 0x80])]
def exFrame0 : PsU.Frame :=
  { pts := 90000, items := exItems0,
    pre := [(90000, PsSpec.packHeader [0x44, 0, 4, 0, 4, 1, 0, 0x61, 0xab] 3), (90000, PsSpec.lengthUnit 0xbb [0x80, 0x61, 0xab, 0x04, 0xe1, 0x7f, 0xe0, 0xe0, 0x80])],
    first := { hasPts := false, stuff := 2, rtpts := 90000, es := (Nalu.joinAnnexb exItems0).take 7 },
    more := [{ hasPts := true, stuff := 0, rtpts := 90000, es := ((Nalu.joinAnnexb exItems0).drop 7).take 9 },
             { hasPts := false, stuff := 1, rtpts := 90000, es := (Nalu.joinAnnexb exItems0).drop 16 }] }
def exFrame1 : PsU.Frame :=
  { pts := 93600, items := [(3, [0x41, 0x9a, 0x02])],
    first := { hasPts := true, stuff := 0, rtpts := 93600, es := Nalu.joinAnnexb [(3, [0x41, 0x9a, 0x02])] }, more := [] }

example : exFrame0.WF := ⟨by decide, by decide, by decide, by decide, by decide, by decide, by
  intro b hb
  simp only [exFrame0, List.mem_cons, List.mem_nil_iff, or_false] at hb
  rcases hb with rfl | rfl
  · exact PsU.Neutral.pack _ 3 rfl (by decide)
  · exact PsU.Neutral.skip 0xbb _ (by decide) (by decide)⟩
example : exFrame1.WF := ⟨by decide, by decide, by decide, by decide, by decide, by decide, by simp [exFrame1]⟩
example : PsU.Chained exFrame0 [exFrame1] ∧
    PsU.expectFrames ptAvc true [exFrame0, exFrame1] = PsU.mkPkts ptAvc 1000 1000 exItems0 := by decide

end Lal.Props.C07
