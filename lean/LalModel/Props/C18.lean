import LalModel.Proof.Amf0Meta
import LalModel.Proof.Amf0Deep
import LalModel.Proof.Amf0F64
import LalModel.Generated.Amf0Consts
/-
  C18 — AMF0 encode/decode is exact, total and bounded.
  Property theorems only; helper lemmas live in LalModel/Proof/Amf0*.lean.

  Model: LalModel/Model/Amf0.lean (pkg/rtmp/amf0.go, metadata.go of the FIXED tree: commits
  "fix: amf0 object/array readers accept long string values" and "fix: limit amf0 container nesting depth
  when reading"; the unfixed model and its witnesses are in the history of this file).
  `Gen.amf0MaxDepth` (= rtmp.Amf0MaxNestingDepth), `Gen.metaEncoder`, `Gen.lalVersionDot` are regenerated from
  the lal tree on every run.

  Vocabulary: `Amf` value trees (numbers = their 8 IEEE bytes); `enc` the AMF0 serialisation (it IS what lal's
  writers produce wherever lal has a writer: `written_is_enc`); `Val`/`top` the value as lal's readers hand it
  back (container kind forgotten, null/undefined members dropped — `top` is injective on what lal writes:
  `read_back_is_same_value`); `readValue` = the exported reader selected by the type marker; readers run with
  a stack budget of `frames` nested container frames, whose exhaustion is a `.panic` like any other Go
  run-time failure.
-/
namespace Lal.Props.C18
open Lal Lal.Amf0

/-- `rtmp.Amf0MaxNestingDepth` -/
abbrev lim : Nat := Gen.amf0MaxDepth
/-- nested container frames available below the outermost reader call -/
abbrev frames : Nat := Gen.amf0MaxDepth - 1

/-- `dec_enc`, lal's readers: for EVERY well-formed tree (all eight kinds, any nesting up to the limit, short and
    long strings, any trailing bytes) the reader its marker selects returns the tree (as lal represents it) and
    consumes exactly the encoded length. -/
theorem dec_enc (v : Amf) (rest : Bytes) (hw : wf v = true) (hd : depth v ≤ lim) :
    readValue lim frames (enc v ++ rest) = .ok (top v, (enc v).length) :=
  readValue_enc lim frames v rest hw hd (by have := hd; simp only [lim, frames] at *; omega)

/-- …and inside containers: `amf0.read` at the encoding of `v` (anywhere in a buffer, at any nesting depth `d`
    that leaves room for `v`) appends exactly `member k v` and advances by exactly the encoded length. -/
theorem dec_enc_member (v : Amf) (hw : wf v = true) (b : Bytes) (index d : Nat) (k : Bytes) (ops : Opa) (rest : Bytes)
    (h : b.drop index = enc v ++ rest) (hd : d + depth v ≤ lim) :
    read lim (fuelFor b) (lim - d) d b index k ops = .ok (ops ++ member k v, index + (enc v).length) := by
  have hc := enc_cost v
  have hl : (b.drop index).length = b.length - index := List.length_drop
  rw [h, List.length_append] at hl
  exact read_enc lim v hw _ _ d b index k ops rest h (by unfold fuelFor; omega) (by omega) hd

/-- `dec_enc`, specification decoder (Adobe AMF0 §2, written independently of lal): every well-formed tree,
    with no nesting limit, decodes to itself with exactly its encoded length consumed. -/
theorem dec_enc_spec (v : Amf) (rest : Bytes) (hw : wf v = true) :
    Amf0Spec.decode (enc v ++ rest) = some (v, (enc v).length) :=
  Amf0Spec.decode_enc v rest hw

/-- What lal's writers (`WriteNumber/Boolean/String/Null/Object`) produce is `enc`: short form below 65536
    bytes, long form from 65536 on, flat objects of scalar members. -/
theorem written_is_enc (v : Amf) (h : lalWritable v = true) : write v = some (enc v) :=
  write_eq_enc v h

/-- Decoding any AMF0 value lal encoded returns the same value and consumes exactly the encoded length — by
    lal's reader and by the specification decoder. -/
theorem lal_written_reads_back (v : Amf) (rest : Bytes) (hl : lalWritable v = true) (hw : wf v = true) :
    ∃ bytes, write v = some bytes ∧
      readValue lim frames (bytes ++ rest) = .ok (top v, bytes.length) ∧
      Amf0Spec.decode (bytes ++ rest) = some (v, bytes.length) := by
  have h1 : 1 ≤ lim := by decide
  have hd := depth_lalWritable v hl
  exact ⟨enc v, write_eq_enc v hl, dec_enc v rest hw (by omega), dec_enc_spec v rest hw⟩

/-- "the same value": on the trees lal writes, lal's representation loses nothing. -/
theorem read_back_is_same_value (v w : Amf) (hv : lalWritable v = true) (hw : lalWritable w = true)
    (h : top v = top w) : v = w :=
  top_inj v w hv hw h

/-- `read_total`: for ALL byte strings no exported reader reaches a Go run-time failure — no index or slice out
    of range, no exhausted fuel (termination), and never more than `frames` nested container frames
    (bounded stack): the limit `Amf0MaxNestingDepth` is checked before every recursion. -/
theorem read_total (b : Bytes) :
    isPanic (readValue lim frames b) = false ∧ isPanic (readObject lim frames b) = false ∧
    isPanic (readArray lim frames b) = false ∧ isPanic (readStrictArray lim frames b) = false ∧
    isPanic (readObjectOrArray lim frames b) = false ∧ isPanic (readString b) = false ∧
    isPanic (readNumber b) = false ∧ isPanic (readBoolean b) = false ∧ isPanic (readNull b) = false ∧
    isPanic (parseMetadata lim frames b) = false ∧ isPanic (metadataEnsureWithSdf b) = false ∧
    isPanic (metadataEnsureWithoutSdf b) = false := by
  have hs : lim ≤ frames + 1 := by simp only [lim, frames]; omega
  exact ⟨(readValue_bd lim frames b hs).notPanic, (readObject_bd lim frames b hs).notPanic,
    (readArray_bd lim frames b hs).notPanic, (readStrictArray_bd lim frames b hs).notPanic,
    (readObjectOrArray_bd lim frames b hs).notPanic, (readString_bd b).notPanic, (readNumber_bd b).notPanic,
    (readBoolean_bd b).notPanic, readNull_notPanic b, parseMetadata_notPanic lim frames b hs,
    with_notPanic b, without_notPanic b⟩

/-- the recursive core, at every position, nesting depth and stack budget that covers the remaining depth -/
theorem read_total_member (b : Bytes) (index d stack : Nat) (k : Bytes) (ops : Opa) (hs : lim ≤ stack + d) :
    isPanic (read lim (fuelFor b) stack d b index k ops) = false :=
  ((read_bd lim (fuelFor b)).1 stack d b index k ops (by unfold fuelFor; omega) hs).notPanic

/-- `read_depth`: the nesting limit is exact. A well-formed encoding is read if and only if its nesting depth
    is at most `Amf0MaxNestingDepth`; deeper ones are refused with an error after at most `frames` nested
    frames (the run-time failure "stack exhausted" is excluded by `read_total`). -/
theorem read_rejects_deeper (v : Amf) (rest : Bytes) (hw : wf v = true) (hd : lim < depth v) :
    readValue lim frames (enc v ++ rest) = .error .err :=
  readValue_deep lim frames v rest hw (by decide) (by simp only [lim, frames]; omega) hd

theorem read_accepts_iff_depth (v : Amf) (rest : Bytes) (hw : wf v = true) :
    (∃ r, readValue lim frames (enc v ++ rest) = .ok r) ↔ depth v ≤ lim := by
  constructor
  · intro ⟨r, hr⟩
    apply Classical.byContradiction
    intro hn
    rw [read_rejects_deeper v rest hw (by omega)] at hr
    cases hr
  · intro hd
    exact ⟨_, dec_enc v rest hw hd⟩

/-- `read_consumes_le`: a successful read consumed at least one byte and at most the input. -/
theorem read_consumes_le (b : Bytes) (v : Option Val) (n : Nat) (h : readValue lim frames b = .ok (v, n)) :
    1 ≤ n ∧ n ≤ b.length :=
  (readValue_bd lim frames b (by simp only [lim, frames]; omega)).consumed h

theorem read_consumes_le_containers (b : Bytes) (v : Opa) (n : Nat) :
    (readObject lim frames b = .ok (v, n) → 4 ≤ n ∧ n ≤ b.length) ∧
    (readArray lim frames b = .ok (v, n) → 5 ≤ n ∧ n ≤ b.length) ∧
    (readStrictArray lim frames b = .ok (v, n) → 5 ≤ n ∧ n ≤ b.length) ∧
    (readObjectOrArray lim frames b = .ok (v, n) → 4 ≤ n ∧ n ≤ b.length) := by
  have hs : lim ≤ frames + 1 := by simp only [lim, frames]; omega
  exact ⟨(readObject_bd lim frames b hs).consumed, (readArray_bd lim frames b hs).consumed,
    (readStrictArray_bd lim frames b hs).consumed, (readObjectOrArray_bd lim frames b hs).consumed⟩

theorem read_consumes_le_scalars (b : Bytes) :
    (∀ v n, readString b = .ok (v, n) → 3 ≤ n ∧ n ≤ b.length) ∧
    (∀ v n, readNumber b = .ok (v, n) → 9 ≤ n ∧ n ≤ b.length) ∧
    (∀ v n, readBoolean b = .ok (v, n) → 2 ≤ n ∧ n ≤ b.length) ∧
    (∀ n, readNull b = .ok n → n = 1 ∧ n ≤ b.length) :=
  ⟨fun _ _ => (readString_bd b).consumed, fun _ _ => (readNumber_bd b).consumed,
   fun _ _ => (readBoolean_bd b).consumed, readNull_consumed b⟩

/-- `sdf_with_without`: `MetadataEnsureWithoutSdf (MetadataEnsureWithSdf b)` and `MetadataEnsureWithoutSdf b`
    return the same bytes, for all `b` (none of the three calls fails at run time). -/
theorem sdf_with_without (b : Bytes) :
    ∃ w e x e' e'', metadataEnsureWithSdf b = .ok (w, e) ∧ metadataEnsureWithoutSdf w = .ok (x, e') ∧
      metadataEnsureWithoutSdf b = .ok (x, e'') :=
  with_without b

/-- stripping the `@setDataFrame` prefix returns the remaining metadata bytes exactly -/
theorem sdf_strip_exact (rest : Bytes) : metadataEnsureWithoutSdf (sdfPrefix ++ rest) = .ok (rest, false) :=
  without_prefix rest

/-- adding it puts exactly the 16 prefix bytes in front of metadata that starts with another string; metadata
    that already starts with it is returned unchanged -/
theorem sdf_add_exact (b v : Bytes) (l : Nat) (h : readString b = .ok (v, l)) :
    metadataEnsureWithSdf b = .ok (if v = sdfName then b else sdfPrefix ++ b, false) := by
  by_cases hv : v = sdfName
  · simp [metadataEnsureWithSdf, h, hv]
  · rw [if_neg hv]; exact with_adds_prefix b v l h hv

/-- the fields `BuildMetadata` is called with, as `ParseMetadata` returns them -/
def builtFields (width height audiocodecid videocodecid : Int) : Opa :=
  (if width ≠ -1 then [(kWidth, Val.num (f64OfInt width))] else []) ++
  (if height ≠ -1 then [(kHeight, Val.num (f64OfInt height))] else []) ++
  (if audiocodecid ≠ -1 then [(kAudiocodecid, Val.num (f64OfInt audiocodecid))] else []) ++
  (if videocodecid ≠ -1 then [(kVideocodecid, Val.num (f64OfInt videocodecid))] else []) ++
  [(kVersion, Val.str Gen.metaEncoder), (kLal, Val.str Gen.lalVersionDot)]

/-- `build_read_back`: for all arguments `BuildMetadata` succeeds, its bytes are the string "onMetaData"
    followed by one object, and `ParseMetadata` of them returns exactly the fields it was built from (each
    argument ≠ -1 as the double `float64(arg)`, in order, then the two version strings). -/
theorem build_read_back (w h a v : Int) :
    ∃ bytes, buildMetadata Gen.metaEncoder Gen.lalVersionDot w h a v = some bytes ∧
      bytes = enc (.str onMetaData) ++ enc (.obj (metadataPairs Gen.metaEncoder Gen.lalVersionDot w h a v)) ∧
      parseMetadata lim frames bytes = .ok (builtFields w h a v) := by
  have hflat : flatOK (metadataPairs Gen.metaEncoder Gen.lalVersionDot w h a v) = true := by
    have h8 : ∀ i : Int, (f64OfInt i).length = 8 := fun i => rfl
    simp only [metadataPairs, flatOK]
    split <;> split <;> split <;> split <;>
      simp [scalarValue, wf, h8, kWidth, kHeight, kAudiocodecid, kVideocodecid, kVersion, kLal,
        Gen.metaEncoder, Gen.lalVersionDot]
  obtain ⟨_, _, hsc⟩ := flatOK_spec _ hflat
  have hw := writeObjectPairs_eq _ hsc
  refine ⟨_, ?_, rfl, ?_⟩
  · simp [buildMetadata, writeObject, hw, enc]
  · have hp := parseMetadata_name_object lim frames onMetaData _ (by decide) (by decide) hflat (by decide)
    simp only [enc] at hp ⊢
    rw [hp]
    simp only [metadataPairs, builtFields]
    split <;> split <;> split <;> split <;> rfl

/-- …and the numeric fields are the arguments themselves: the double `BuildMetadata` writes for an `int`
    argument, read by the IEEE-754 reading of the specification side, is that integer (|i| < 2^53; beyond that
    Go's conversion rounds — the model rounds to nearest even and is compared with the real code on every run). -/
theorem built_numbers_are_the_arguments (i : Int) (h : i.natAbs < 2 ^ 53) :
    Amf0Spec.f64ToInt? (f64OfInt i) = some i :=
  f64_int_roundtrip i h

/-! ### Non-vacuity: concrete inputs meet the hypotheses, at the boundaries the property names -/

/-- a tree using all eight kinds, nested four deep -/
def sample : Amf :=
  .obj [([0x61], .num [0x40, 0x9e, 0, 0, 0, 0, 0, 0]), ([], .bool true), ([0x62, 0x63], .str []),
        ([0x64], .ecma [([0x65], .strict [.null, .undef, .obj [([0x66], .str [0x67])]])])]
example : wf sample = true ∧ depth sample = 4 ∧ depth sample ≤ lim := by decide
example : readValue lim frames (enc sample ++ [0xff]) = .ok (top sample, 59) := by decide
example : top sample = some (.opa [([0x61], .num [0x40, 0x9e, 0, 0, 0, 0, 0, 0]), ([], .bool true), ([0x62, 0x63], .str []),
    ([0x64], .opa [([0x65], .opa [([], .opa [([0x66], .str [0x67])])])])]) := by decide

/-- a flat object as lal writes it (connect/metadata style) -/
def written : Amf := .obj [([0x61], .str [0x62]), ([0x6e], .num [0, 0, 0, 0, 0, 0, 0, 0]), ([0x74], .bool false)]
example : lalWritable written = true ∧ wf written = true := by decide
example : write written = some [3, 0, 1, 0x61, 2, 0, 1, 0x62, 0, 1, 0x6e, 0, 0, 0, 0, 0, 0, 0, 0, 0, 0, 1, 0x74, 1, 0, 0, 0, 9] := by
  decide

/-- short / long string form at 65535 / 65536 bytes, both well-formed -/
example (s : Bytes) (h : s.length = 65535) : wf (.str s) = true ∧ enc (.str s) = 0x02 :: (be16 65535 ++ s) := by
  simp [wf, enc, writeString, h]
example (s : Bytes) (h : s.length = 65536) : wf (.str s) = true ∧ enc (.str s) = 0x0c :: (be32 65536 ++ s) := by
  simp [wf, enc, writeString, h]

/-- the long string as an object member (S4(i)): read back by lal and by the specification decoder -/
def longMember : Bytes := [0x03, 0x00, 0x01, 0x6b, 0x0c, 0x00, 0x00, 0x00, 0x01, 0x41, 0x00, 0x00, 0x09]
example : Amf0Spec.decode longMember = some (.obj [([0x6b], .str [0x41])], 13) := by decide
example : readObject lim frames longMember = .ok ([([0x6b], .str [0x41])], 13) := by decide

/-- nesting (S4(ii)): `nest k` is k strict arrays around a null -/
def nest : Nat → Amf
  | 0 => .null
  | k + 1 => .strict [nest k]
set_option maxRecDepth 100000 in
example : wf (nest 32) = true ∧ depth (nest 32) = 32 ∧ (enc (nest 32)).length = 161 := by decide
-- depth 32 = the limit is read …
set_option maxRecDepth 100000 in
example : (readValue lim frames (enc (nest 32))).toOption.map (·.2) = some 161 := by decide
-- … and needs every one of the `frames` frames (the budget is not slack) …
set_option maxRecDepth 100000 in
example : readValue lim (frames - 1) (enc (nest 32)) = .error (.panic "stack") := by decide
-- … depth 33 is refused with an error, not by exhausting anything
set_option maxRecDepth 100000 in
example : readValue lim frames (enc (nest 33)) = .error .err := by decide

/-- arbitrary bytes: errors, not failures -/
example : readValue lim frames [0x03, 0x00] = .error .err ∧ readValue lim frames [0x0a, 0xff, 0xff, 0xff, 0xff, 0x05] = .error .err
    ∧ readValue lim frames [0x08, 0, 0, 0, 0] = .ok (some (.opa []), 5) := by decide

/-- @setDataFrame -/
example : sdfPrefix = [0x02, 0x00, 0x0d, 0x40, 0x73, 0x65, 0x74, 0x44, 0x61, 0x74, 0x61, 0x46, 0x72, 0x61, 0x6d, 0x65] := by decide
example : metadataEnsureWithSdf [0x02, 0, 1, 0x61, 0x05] = .ok (sdfPrefix ++ [0x02, 0, 1, 0x61, 0x05], false) := by decide
example : metadataEnsureWithSdf [0x05] = .ok ([0x05], true) := by decide

/-- BuildMetadata(1920, 1080, 10, 7): the doubles are exactly those integers -/
example : builtFields 1920 1080 10 7 =
    [(kWidth, .num [0x40, 0x9e, 0, 0, 0, 0, 0, 0]), (kHeight, .num [0x40, 0x90, 0xe0, 0, 0, 0, 0, 0]),
     (kAudiocodecid, .num [0x40, 0x24, 0, 0, 0, 0, 0, 0]), (kVideocodecid, .num [0x40, 0x1c, 0, 0, 0, 0, 0, 0]),
     (kVersion, .str Gen.metaEncoder), (kLal, .str Gen.lalVersionDot)] := by decide
example : [(1920 : Int), 1080, 10, 7, -1, 0, 9007199254740992, -9007199254740992].map (fun i => Amf0Spec.f64ToInt? (f64OfInt i))
    = [some 1920, some 1080, some 10, some 7, some (-1), some 0, some 9007199254740992, some (-9007199254740992)] := by
  decide
example : builtFields (-1) (-1) (-1) (-1) = [(kVersion, .str Gen.metaEncoder), (kLal, .str Gen.lalVersionDot)] := by decide

end Lal.Props.C18
