import LalModel.Proof.SeqHeader
import LalModel.Proof.Aac
import LalModel.Proof.Nalu
import LalModel.Proof.Bits
import LalModel.Proof.Sps
import LalModel.Proof.Sdp
import LalModel.Proof.Chain
import LalModel.Proof.SdpSpec
import LalModel.Proof.AudioSpec
import LalModel.Model.Sdp
import LalModel.Model.CfgChain
import LalModel.Spec.SpsEnc
import LalModel.Generated.C19Consts
/-
  C19 — codec configuration survives every re-encoding; SDP and SPS info are right.
  Property theorems only; helper lemmas live in LalModel/Proof.
-/
namespace Lal.Props.C19
open Lal

/-- the start codes and payload types the models use are the ones in the source tree -/
theorem consts_agree :
    Nalu.startCode3 = Gen.naluStartCode3 ∧ Nalu.startCode4 = Gen.naluStartCode4 ∧ Nalu.startCode4 = Gen.hevcNaluStartCode4
    ∧ Aac.adtsHeaderLength = Gen.adtsHeaderLength
    ∧ Sdp.ptAvc = Gen.avPacketPtAvc ∧ Sdp.ptHevc = Gen.avPacketPtHevc ∧ Sdp.ptAac = Gen.avPacketPtAac
    ∧ Sdp.ptG711A = Gen.avPacketPtG711A ∧ Sdp.ptG711U = Gen.avPacketPtG711U ∧ Sdp.ptOpus = Gen.avPacketPtOpus
    ∧ Sdp.ptMp2 = Gen.avPacketPtMp2 := by decide

/- ================= RTMP sequence headers ================= -/

/-- AVC: whenever `BuildSeqHeaderFromSpsPps` produces a sequence header (it refuses an SPS whose first
    bytes `ParseSps` cannot read), `ParseSpsPpsFromSeqHeader(WithoutMalloc)` and an ISO/IEC 14496-15
    AVCDecoderConfigurationRecord reader both return exactly the two parameter sets, for all contents and
    all lengths the 16-bit length fields can carry. -/
theorem seqhdr_roundtrip_avc (sps pps sh : Bytes) (hs : sps.length < 65536) (hp : pps.length < 65536)
    (hb : SeqHeader.avcBuild sps pps = .ok sh) :
    SeqHeader.avcParse sh = .ok (sps, pps) ∧ ConfigRecord.avcSeqHeader sh = some ([sps], [pps]) := by
  obtain ⟨x, y, rfl⟩ := SeqHeader.avcBuild_layout sps pps sh hb
  exact ⟨SeqHeader.avcParse_layout x y sps pps hs hp, SeqHeader.avcC_layout x y sps pps hs hp⟩

/-- the build succeeds exactly when `ParseSps` accepts the SPS (profile, level and sps_id < 32 readable) -/
theorem seqhdr_avc_builds (sps pps : Bytes) (ctx : Sps.Context) (h : Sps.parseSps sps = .ok ctx) :
    ∃ sh, SeqHeader.avcBuild sps pps = .ok sh := by
  simp [SeqHeader.avcBuild, h]

/-- HEVC, with the VPS. -/
theorem seqhdr_roundtrip_hevc (vps sps pps sh : Bytes)
    (hv : vps.length < 65536) (hs : sps.length < 65536) (hp : pps.length < 65536)
    (hb : SeqHeader.hevcBuild vps sps pps = .ok sh) :
    SeqHeader.hevcParse sh = .ok (vps, sps, pps) := by
  obtain ⟨mid, ⟨hm, _⟩, rfl⟩ := SeqHeader.hevcBuild_layout vps sps pps sh hb
  exact SeqHeader.hevcParse_layout mid vps sps pps hm hv hs hp

/-- …and an ISO/IEC 14496-15 HEVCDecoderConfigurationRecord reader (which also checks the version and every
    reserved bit of the 22 fixed bytes) finds exactly one VPS, SPS and PPS array with exactly these units. -/
theorem seqhdr_roundtrip_hevc_spec (vps sps pps sh : Bytes)
    (hv : vps.length < 65536) (hs : sps.length < 65536) (hp : pps.length < 65536)
    (hb : SeqHeader.hevcBuild vps sps pps = .ok sh) :
    ∃ r, ConfigRecord.hevcSeqHeader sh = some r ∧ r.ofType 32 = [vps] ∧ r.ofType 33 = [sps] ∧ r.ofType 34 = [pps]
      ∧ r.arrays.length = 3 := by
  obtain ⟨mid, ⟨hm, hres⟩, rfl⟩ := SeqHeader.hevcBuild_layout vps sps pps sh hb
  exact SeqHeader.hvcC_layout mid vps sps pps hm hres hv hs hp

/-- sequence header → Annex B: both parameter sets behind 4-byte start codes, byte for byte -/
theorem annexb_of_seqhdr_avc (sps pps sh : Bytes) (hs : sps.length < 65536) (hp : pps.length < 65536)
    (hb : SeqHeader.avcBuild sps pps = .ok sh) :
    SeqHeader.avcSeqHeader2Annexb sh = .ok (SeqHeader.avcBuildAnnexb sps pps) := by
  obtain ⟨x, y, rfl⟩ := SeqHeader.avcBuild_layout sps pps sh hb
  rw [SeqHeader.avcSeqHeader2Annexb_layout x y sps pps hs hp]
  simp [SeqHeader.avcBuildAnnexb]

theorem annexb_of_seqhdr_hevc (vps sps pps sh : Bytes)
    (hv : vps.length < 65536) (hs : sps.length < 65536) (hp : pps.length < 65536)
    (hb : SeqHeader.hevcBuild vps sps pps = .ok sh) :
    SeqHeader.hevcSeqHeader2Annexb sh = .ok (SeqHeader.annexb3 vps sps pps) := by
  simp [SeqHeader.hevcSeqHeader2Annexb, seqhdr_roundtrip_hevc vps sps pps sh hv hs hp hb]

/- ================= NAL unit streams ================= -/

/-- Units joined by start codes of any mix of lengths (2 zero bytes + 01, 3 + 01, or more: trailing zero
    bytes) are split into exactly the units; length-prefixed framing likewise; and the two conversions
    carry the unit list over. `NalWF` is what emulation prevention guarantees. -/
theorem avcc_annexb (items : List (Nat × Bytes)) (hne : items ≠ [])
    (hall : ∀ it ∈ items, it.1 ≥ 2 ∧ Nalu.NalWF it.2 ∧ it.2.length < 4294967296) :
    let nals := items.map (·.2)
    Nalu.splitNaluAnnexb (Nalu.joinAnnexb items) = (nals, false)
    ∧ Nalu.splitNaluAvcc (Nalu.joinNaluAvcc nals) = (nals, false)
    ∧ Nalu.annexb2Avcc (Nalu.joinAnnexb items) = (Nalu.joinNaluAvcc nals, false)
    ∧ Nalu.avcc2Annexb (Nalu.joinNaluAvcc nals) = (Nalu.joinAnnexb (nals.map fun n => (3, n)), false)
    -- and the specification-side readers (H.264 Annex B byte stream, ISO/IEC 14496-15 length-prefixed sample)
    -- read the input and both conversion results as the same units
    ∧ AnnexB.read (Nalu.joinAnnexb items) = some nals
    ∧ AnnexB.read (Nalu.joinAnnexb (nals.map fun n => (3, n))) = some nals
    ∧ ConfigRecord.readLengthPrefixed (Nalu.joinNaluAvcc nals) = some nals := by
  have h1 : ∀ it ∈ items, it.1 ≥ 2 ∧ Nalu.NalWF it.2 := fun it h => ⟨(hall it h).1, (hall it h).2.1⟩
  have hne' : items.map (·.2) ≠ [] := by simpa using hne
  have h2 : ∀ n ∈ items.map (·.2), n ≠ [] ∧ n.length < 4294967296 := by
    intro n hn
    obtain ⟨it, hit, rfl⟩ := List.mem_map.mp hn
    exact ⟨(hall it hit).2.1.1, (hall it hit).2.2⟩
  have h3 : ∀ it ∈ (items.map (·.2)).map (fun n => ((3 : Nat), n)), it.1 ≥ 2 ∧ Nalu.NalWF it.2 := by
    intro it hit
    simp only [List.map_map, List.mem_map, Function.comp] at hit
    obtain ⟨it0, hit0, rfl⟩ := hit
    exact ⟨by simp, (hall it0 hit0).2.1⟩
  have h4 : ∀ n ∈ items.map (·.2), n.length < 4294967296 := fun n hn => (h2 n hn).2
  refine ⟨Nalu.splitNaluAnnexb_join items hne h1, Nalu.splitNaluAvcc_join _ hne' h2,
         Nalu.annexb2Avcc_join items hne h1, Nalu.avcc2Annexb_join _ hne' h2,
         AnnexB.read_join items h1, ?_, ConfigRecord.readLengthPrefixed_join _ h4⟩
  have := AnnexB.read_join _ h3
  have e : ((items.map (·.2)).map (fun n => ((3 : Nat), n))).map (·.2) = items.map (·.2) := by
    simp [List.map_map, Function.comp]
  rw [e] at this
  exact this

/- ================= AAC ================= -/

/-- AudioSpecificConfig pack/unpack, all 5+4+4-bit values -/
theorem asc_roundtrip (c : Aac.AscContext) (ho : c.audioObjectType < 32) (hs : c.samplingFrequencyIndex < 16)
    (hc : c.channelConfiguration < 16) : Aac.ascUnpack (Aac.ascPack c) = .ok c :=
  Aac.ascUnpack_ascPack c ho hs hc

/-- The ADTS header carries the configuration for the object types (1..4), sampling indices and channel
    layouts (< 8) it has room for, and its frame-length field is payload + 7 for every frame that fits 13 bits;
    the ASC rebuilt from it is the original one. -/
theorem asc_adts (c : Aac.AscContext) (n : Nat)
    (ho : 1 ≤ c.audioObjectType ∧ c.audioObjectType ≤ 4) (hs : c.samplingFrequencyIndex < 16)
    (hc : c.channelConfiguration < 8) (hn : n + 7 < 8192) :
    Aac.adtsUnpack (Aac.packAdtsHeader c n) = .ok { asc := c, adtsLength := n + 7 }
    ∧ Aac.makeAscWithAdtsHeader (Aac.packAdtsHeader c n) = .ok (Aac.ascPack c)
    ∧ (Aac.packAdtsHeader c n).length = Gen.adtsHeaderLength :=
  ⟨Aac.adtsUnpack_packAdtsHeader c n ho hs hc hn, Aac.makeAsc_of_adts c n ho hs hc hn, rfl⟩

/-- …and readers written from ISO/IEC 14496-3 (§1.A.2.2 ADTS header with syncword / layer checks, §1.6.2.1
    AudioSpecificConfig) decode lal's bytes to the same fields. -/
theorem asc_adts_spec (c : Aac.AscContext) (n : Nat)
    (ho : 1 ≤ c.audioObjectType ∧ c.audioObjectType ≤ 4) (hs : c.samplingFrequencyIndex < 15)
    (hc : c.channelConfiguration < 8) (hn : n + 7 < 8192) :
    AudioSpec.readAdts (Aac.packAdtsHeader c n) = some
      { id := 0, layer := 0, protectionAbsent := 1, profileObjectType := c.audioObjectType - 1,
        samplingFrequencyIndex := c.samplingFrequencyIndex, channelConfiguration := c.channelConfiguration,
        frameLength := n + 7, bufferFullness := 2047, rawDataBlocks := 0 }
    ∧ AudioSpec.readAsc (Aac.ascPack c) = some { objectType := c.audioObjectType, samplingFrequencyIndex := c.samplingFrequencyIndex,
                                                  samplingFrequency := none, channelConfiguration := c.channelConfiguration } :=
  ⟨AudioSpec.readAdts_packAdtsHeader c n ho (by omega) hc hn, AudioSpec.readAsc_ascPack c (by omega) hs (by omega)⟩

/-- outside that range the ADTS header cannot carry the object type: AAC-HE (5) comes back as 1 -/
example : Aac.adtsUnpack (Aac.packAdtsHeader ⟨5, 4, 2⟩ 100) = .ok { asc := ⟨1, 4, 2⟩, adtsLength := 107 } := by decide

/-- the RTMP AAC sequence header is `af 00` + the configuration, byte for byte -/
theorem aac_seqhdr (asc : Bytes) (h : 2 ≤ asc.length) :
    Aac.makeAudioDataSeqHeaderWithAsc asc = .ok (0xaf :: 0 :: asc) := Aac.seqHeader_of_asc asc h

/- ================= exp-Golomb ================= -/

theorem ue_roundtrip (v : Nat) (rest : List Bool) (hv : v < 4294967295) (h : v ≠ 0 ∨ rest ≠ []) :
    Bits.readUe { bits := Bits.ueBits v ++ rest } = .ok (some v, { bits := rest }) :=
  Bits.readUe_ueBits v rest hv h

theorem se_roundtrip (x : Int) (rest : List Bool) (hx : -1073741823 ≤ x ∧ x ≤ 1073741823) (h : x ≠ 0 ∨ rest ≠ []) :
    Bits.readSe { bits := Bits.seBits x ++ rest } = .ok (some x, { bits := rest }) :=
  Bits.readSe_seBits x rest hx h

/-- nazabits: the code word `1` (ue = 0) as the last bit of the buffer is an index-out-of-range panic … -/
example : Bits.readUe { bits := Bits.ueBits 0 } = .error (.panic "nazabits.ReadBits: core[index]") := by decide
/-- … and se(v) beyond ±(2^30 - 1) comes back wrong (int32 arithmetic) although H.264 allows ±(2^31 - 1) -/
example : Bits.seOfUe (Bits.seCode 1073741824) = -1073741824 := by decide

/- ================= H.264 SPS dimensions ================= -/

/-- For every SPS a specification-following encoder can produce (`SpsEnc.encSps` over all of `SpsParams`:
    every profile class, chroma format, bit depth, scaling-list choice, picture-order-count type, interlaced or
    progressive, cropped or not, with or without VUI, emulation prevention bytes wherever they fall) `avc.ParseSps`
    succeeds and reports exactly the width and height of the cropping rectangle of H.264 §7.4.2.1.1.
    (True of the tree with the two `fix:` commits; see the witnesses below for the pinned tree.) -/
theorem sps_dims (p : SpsEnc.SpsParams) (h : SpsEnc.SpsWF p) :
    ∃ ctx, Sps.parseSps (SpsEnc.encSps p) = .ok ctx ∧ (ctx.width, ctx.height) = SpsEnc.specDims p :=
  Sps.parseSps_encSps p h

/-- …hence `BuildSeqHeaderFromSpsPps` accepts every such SPS -/
theorem seqhdr_avc_builds_spec_sps (p : SpsEnc.SpsParams) (h : SpsEnc.SpsWF p) (pps : Bytes) :
    ∃ sh, SeqHeader.avcBuild (SpsEnc.encSps p) pps = .ok sh := by
  obtain ⟨ctx, hc, _⟩ := sps_dims p h
  exact seqhdr_avc_builds _ pps ctx hc

/-- emulation prevention (H.264 §7.4.1) is undone exactly: the parser sees the RBSP the encoder wrote -/
theorem epb_roundtrip (rbsp : Bytes) : Sps.nal2rbsp (SpsEnc.escape rbsp 0) 0 = rbsp := Sps.nal2rbsp_escape rbsp 0

def base : SpsEnc.SpsParams :=
  { nalRefIdc := 3, profileIdc := 100, constraintFlags := 0, levelIdc := 40, spsId := 0, chromaFormatIdc := 1,
    separateColourPlane := false, bitDepthLumaMinus8 := 0, bitDepthChromaMinus8 := 0, qpprimeYZeroTransformBypass := false,
    scalingMatrix := none, log2MaxFrameNumMinus4 := 0, poc := .t0 2, maxNumRefFrames := 4, gapsInFrameNumAllowed := false,
    picWidthInMbsMinus1 := 119, picHeightInMapUnitsMinus1 := 67, frameMbsOnly := true, mbAdaptiveFrameField := false,
    direct8x8Inference := true, crop := some (0, 0, 0, 4), vui := none }

/-- 1920x1080 interlaced: 34 map units per field, crop bottom 2 in units of 4 lines -/
def w1080i : SpsEnc.SpsParams := { base with picHeightInMapUnitsMinus1 := 33, frameMbsOnly := false, mbAdaptiveFrameField := true, crop := some (0, 0, 0, 2) }
/-- 4:2:2: vertical crop unit 1 -/
def w422 : SpsEnc.SpsParams := { base with profileIdc := 122, chromaFormatIdc := 2, crop := some (0, 0, 0, 8) }
/-- a picture-order-count offset whose code word contains 00 00: an emulation prevention byte before the size fields -/
def wEpb : SpsEnc.SpsParams := { base with profileIdc := 66, poc := .t1 false (-16777216) 0 [], picWidthInMbsMinus1 := 39, picHeightInMapUnitsMinus1 := 29, crop := none }
/-- profile_idc 135 -/
def w135 : SpsEnc.SpsParams := { base with profileIdc := 135, picWidthInMbsMinus1 := 79, picHeightInMapUnitsMinus1 := 44, crop := none }

def dimsOf (r : GoM Sps.Context) : Option (Nat × Nat) := r.toOption.map fun c => (c.width, c.height)

/-- S21, the pinned tree (`Variant.pinned`: no emulation-prevention removal, crop units 2x2, no profile 135):
    the reported dimensions are not those of the specification … -/
example : SpsEnc.specDims w1080i = (1920, 1080) ∧ dimsOf (Sps.parseSpsWith .pinned (SpsEnc.encSps w1080i)) = some (1920, 1084) := by decide +kernel
example : SpsEnc.specDims w422 = (1920, 1080) ∧ dimsOf (Sps.parseSpsWith .pinned (SpsEnc.encSps w422)) = some (1920, 1072) := by decide +kernel
example : SpsEnc.specDims wEpb = (640, 480) ∧ dimsOf (Sps.parseSpsWith .pinned (SpsEnc.encSps wEpb)) = some (16, 32) := by decide +kernel
example : SpsEnc.specDims w135 = (1280, 720) ∧ dimsOf (Sps.parseSpsWith .pinned (SpsEnc.encSps w135)) ≠ some (1280, 720) := by decide +kernel
/- … and are with the fixes -/
example : dimsOf (Sps.parseSps (SpsEnc.encSps w1080i)) = some (1920, 1080) ∧ dimsOf (Sps.parseSps (SpsEnc.encSps w422)) = some (1920, 1080)
    ∧ dimsOf (Sps.parseSps (SpsEnc.encSps wEpb)) = some (640, 480) ∧ dimsOf (Sps.parseSps (SpsEnc.encSps w135)) = some (1280, 720) := by decide +kernel

/-- the hypotheses of `sps_dims` are met by concrete parameter sets (non-vacuity) -/
example : SpsEnc.SpsWF w1080i := by
  refine ⟨by decide, by decide, by decide, by decide, by decide, by decide, by decide, ?_, by decide, by simp [w1080i, base], by decide,
    by decide, by decide, ?_, ?_⟩
  · intro m hm; cases hm
  · intro l r t b hc; cases hc; decide
  · intro v idc w h hv; cases hv

/- ================= SDP ================= -/

/-- The SDP `sdp.Pack` generates for an H.264 or H.265 video stream with AAC, G.711 A/µ-law or Opus audio is
    parsed (a) by lal (`ParseSdp2LogicContext`, which `Pack` itself runs on its text) and (b) by a reader written from
    RFC 4566 / 6184 / 7798 / 3640 (Spec/SdpSpec.lean: CRLF-terminated lines, `v=0` first, rtpmap/fmtp must refer to a
    format of their `m=` line, comma-separated base64 lists, hex config) to the same codecs, payload types, clock rates,
    control URLs and — byte for byte, for every length — the same VPS/SPS/PPS and AudioSpecificConfig.
    base64 / hex enter only through `CodecLaws` (decode ∘ encode = id; no white space, comma or semicolon in the
    encoded text; hex doubles the length); `Gen.lalPackSdp` is `base.LalPackSdp`. -/
theorem sdp_roundtrip (c : Sdp.Codec) (hc : Sdp.CodecLaws c) (v : Sdp.VideoCfg) (a : Sdp.AudioCfg) (ha : a.WF) :
    ∃ ctx mv ma, Sdp.pack c Gen.lalPackSdp v.info a.info = some ctx ∧ Sdp.Reads ctx v a
      ∧ SdpSpec.read ctx.rawSdp = some [mv, ma] ∧ SdpSpec.VideoLearned c mv v ∧ SdpSpec.AudioLearned c ma a := by
  obtain ⟨ctx, h1, h2, h3⟩ := Sdp.pack_reads c hc Gen.lalPackSdp (by decide) v a ha
  refine ⟨ctx, _, _, h1, h2, ?_, SdpSpec.video_learned c hc v, SdpSpec.audio_learned c hc a⟩
  rw [h3]
  exact SdpSpec.read_packed c hc Gen.lalPackSdp (by decide) v a ha

/-- the laws are satisfiable (and the driver checks them of the RFC 4648 codec on every generated case) -/
example : Sdp.CodecLaws Sdp.codec16 := Sdp.codec16_laws
example : (Sdp.AudioCfg.aac [0x12, 0x10] 44100).WF ∧ (Sdp.AudioCfg.pcma 8000).WF ∧ Sdp.AudioCfg.opus.WF := by
  simp [Sdp.AudioCfg.WF]

/- ================= the two remuxers that chain these functions ================= -/

/-- RTMP → RTSP: from the AVC sequence header lal builds and an AAC sequence header, `Rtmp2RtspRemuxer` announces an SDP
    that reads back (by lal) as the same SPS, PPS, AudioSpecificConfig, sampling frequency and payload types. -/
theorem rtmp_to_sdp (c : Sdp.Codec) (hc : Sdp.CodecLaws c) (sps pps sh ascb : Bytes) (actx : Aac.AscContext) (f : Nat)
    (hs : sps.length < 65536) (hp : pps.length < 65536) (hsne : sps ≠ []) (hpne : pps ≠ [])
    (hb : SeqHeader.avcBuild sps pps = .ok sh)
    (ha : Aac.ascUnpack ascb = .ok actx) (hf : Aac.samplingFrequency actx = some f) :
    ∃ ctx, CfgChain.rtmp2rtspSdp c Gen.lalPackSdp (some sh) (some (0xaf :: 0 :: ascb)) = .ok (some ctx)
      ∧ Sdp.Reads ctx (.avc sps pps) (.aac ascb f) := by
  obtain ⟨x, y, rfl⟩ := SeqHeader.avcBuild_layout sps pps sh hb
  have hal : 2 ≤ ascb.length := by
    match ascb, ha with
    | _ :: _ :: _, _ => simp
  have hflt : f < 9223372036854775808 := by
    simp only [Aac.samplingFrequency] at hf
    have : ∀ (i : Nat) (v : Nat), ([96000, 88200, 64000, 48000, 44100, 32000, 24000, 22050, 16000, 12000, 11025, 8000, 7350] : List Nat)[i]? = some v → v ≤ 96000 := by
      intro i v h
      have hi : i < 13 := by
        by_cases hi : i < 13
        · exact hi
        · rw [List.getElem?_eq_none (by simp; omega)] at h; cases h
      have : i = 0 ∨ i = 1 ∨ i = 2 ∨ i = 3 ∨ i = 4 ∨ i = 5 ∨ i = 6 ∨ i = 7 ∨ i = 8 ∨ i = 9 ∨ i = 10 ∨ i = 11 ∨ i = 12 := by omega
      rcases this with h' | h' | h' | h' | h' | h' | h' | h' | h' | h' | h' | h' | h' <;> subst h' <;> simp at h <;> omega
    have := this _ _ hf
    omega
  obtain ⟨ctx, hpk, hrd, _⟩ := Sdp.pack_reads c hc Gen.lalPackSdp (by decide) (.avc sps pps) (.aac ascb f) ⟨hal, hflt⟩
  refine ⟨ctx, ?_, hrd⟩
  rw [CfgChain.rtmp2rtspSdp_avc c Gen.lalPackSdp x y sps pps ascb actx f hs hp hsne hpne ha hf]
  exact congrArg Except.ok hpk

/-- RTSP → RTMP: from the parameter sets and configuration of an SDP, `AvPacket2RtmpRemuxer.InitWithAvConfig` emits
    sequence headers from which they are read back byte for byte. -/
theorem sdp_to_rtmp (ascb sps pps sh : Bytes) (ha : 2 ≤ ascb.length) (hs : sps.length < 65536) (hp : pps.length < 65536)
    (hb : SeqHeader.avcBuild sps pps = .ok sh) :
    CfgChain.initWithAvConfig (some ascb) none (some sps) (some pps) = .ok [(8, 0xaf :: 0 :: ascb), (9, sh)]
    ∧ SeqHeader.avcParse sh = .ok (sps, pps) :=
  ⟨CfgChain.initWithAvConfig_avc ascb sps pps sh ha hb, (seqhdr_roundtrip_avc sps pps sh hs hp hb).1⟩

/- ================= non-vacuity ================= -/

def nvSps : Bytes := [0x67, 0x42, 0x00, 0x1e, 0x9e, 0x21, 0x81, 0x1f, 0x60]
def nvPps : Bytes := [0x68, 0xce, 0x3c, 0x80]

example : (SeqHeader.avcBuild nvSps nvPps).toOption.map List.length = some 29 := by decide
example : Nalu.NalWF nvSps ∧ Nalu.NalWF nvPps ∧ Nalu.NalWF [0x65, 0, 0, 3, 0, 0x80] ∧ ¬ Nalu.NalWF [0x65, 0, 0, 1]
    ∧ ¬ Nalu.NalWF [0x65, 0] := by decide
example : Nalu.splitNaluAnnexb (Nalu.joinAnnexb [(3, nvSps), (2, nvPps), (5, [0x65, 0x88])]) = ([nvSps, nvPps, [0x65, 0x88]], false) := by
  decide

end Lal.Props.C19
