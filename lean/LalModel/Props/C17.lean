import LalModel.Proof.PackerWire
import LalModel.Proof.RelayPush
/-
  C17 — Relay pull and push start, retry and stop exactly when their rules say.
  Property theorems only. `Relay.step` models one critical section of `logic.Group` (Model/Relay.lean),
  `PackerBuf.*` models `rtmp.Buffer` / `rtmp.MessagePacker` (Model/PackerBuf.lean); both are tied to the lal tree by
  the correspondence check. `RelaySpec.wantPull` is the rule as the property states it (Spec/RelaySpec.lean).
-/
namespace Lal.Props.C17
open Lal Lal.PackerBuf Lal.Relay

/-! ## Relay pull -/

/-- `pull_attempt_iff`: for every state of a group and every event, a pull attempt is started at that event IF AND
    ONLY IF the event is one at which the group looks (a consumer joins, a tick, an API start) and, in the state the
    decision is taken in (`decision`: the consumer counted, the API parameters stored, the tick's time stamp refreshed),
    the rule of the property holds: enabled ∧ no input ∧ no attempt in flight ∧ retry budget left ∧ (auto-stop off ∨ a
    consumer present or seen within the window). `lastHasOutTs ≠ -1`: the field is a wall-clock millisecond count; -1
    is a sentinel the code tests but never writes. -/
theorem pull_attempt_iff (s : State) (e : Event) (h : s.pull.lastHasOut ≠ -1) :
    (∃ id, Obs.startPull id ∈ (step s e).2) ↔
      ∃ d now, decision s e = some (d, now) ∧ RelaySpec.wantPull (view d) now := by
  rw [← step_attempt_iff s e h]
  simp only [List.any_eq_true]
  constructor
  · rintro ⟨id, hid⟩; exact ⟨_, hid, rfl⟩
  · rintro ⟨o, ho, hs⟩
    cases o <;> simp [isStartPull] at hs
    exact ⟨_, ho⟩

/-- `retry_budget`: between two stops (no `stopPull` in the history: no API stop, no kick, no auto stop) and with the
    budget unchanged (`keepsBudget`: API starts in between carry the same `pull_retry_num`), a budget of `n` allows
    at most `n + 1` attempts - whatever the outcomes of the attempts, the arrivals and departures, the ticks. -/
theorem retry_budget (n : Nat) (s : State) (es : List Event) (hn : s.pull.retryNum = n) (h0 : s.pull.startCount = 0)
    (hk : ∀ e ∈ es, keepsBudget n e) (hns : ∀ o ∈ (run s es).2, isStop o = false) :
    attempts (run s es).2 ≤ n + 1 := by
  obtain ⟨_, b, c⟩ := run_count n es s hn hk hns
  rw [h0, Nat.zero_add] at b
  by_cases hp : attempts (run s es).2 > 0
  · have := c (by omega) hp
    omega
  · omega

/-- budget 0 (`PullRetryNumNever`): exactly one attempt is possible - never a second one -/
theorem retry_budget_never (s : State) (es : List Event) (hn : s.pull.retryNum = Gen.pullRetryNumNever) (h0 : s.pull.startCount = 0)
    (hk : ∀ e ∈ es, keepsBudget 0 e) (hns : ∀ o ∈ (run s es).2, isStop o = false) :
    attempts (run s es).2 ≤ 1 :=
  retry_budget 0 s es hn h0 hk hns

/-- budget −1 (`PullRetryNumForever`): unbounded - from any idle enabled group with a consumer, for EVERY k there is a
    history (k failing attempts, each retried on the next tick) with exactly k attempts and no stop. -/
theorem retry_forever (s : State) (h : Ready s) (k : Nat) :
    ∃ es, attempts (run s es).2 = k ∧ ∀ o ∈ (run s es).2, isStop o = false :=
  ⟨cycles k s.nextId, run_cycles k s h⟩

/-- `auto_stop`: when no consumer is present and (the window is 0 or the last time a consumer was seen is at least
    the window ago), the next tick stops the pull: the attached session is disposed, a connecting attempt is told it
    is no longer wanted, the retry counter restarts. Window 0 → the first tick without a consumer. -/
theorem auto_stop (s : State) (now : Int) (hl : s.pull.lastHasOut ≠ -1)
    (hg : RelaySpec.consumerGoneForWindow (view s) now) :
    Obs.stopCalled ∈ (step s (.tick now)).2 ∧ (step s (.tick now)).1.pull.startCount = 0 ∧
    (∀ id, s.pull.attached = some id → Obs.disposePull id ∈ (step s (.tick now)).2) ∧
    (∀ id, s.pull.attached = none → s.connecting = true → s.pull.pullingId = some id →
        Obs.cancelPull id ∈ (step s (.tick now)).2 ∧ (step s (.tick now)).1.pull.pullingId = none) :=
  tick_auto_stop s now hl hg

/-- ... and a tick stops the pull ONLY then (a consumer present at the tick refreshes the time stamp first). -/
theorem auto_stop_only_then (s : State) (now : Int) (hl : s.pull.lastHasOut ≠ -1)
    (h : Obs.stopCalled ∈ (step s (.tick now)).2) :
    RelaySpec.consumerGoneForWindow (view (if s.hasSub then { s with pull := { s.pull with lastHasOut := now } } else s)) now :=
  tick_stop_only_if s now hl h

/-- a consumer that joins is recorded at once (not only at the next tick): the window restarts from the join -/
theorem join_restarts_window (s : State) (now : Int) : (step s (.subJoin now)).1.pull.lastHasOut = now := by
  have hd : ({ s with subs := s.subs + 1 } : State).hasOut = true := by simp [State.hasOut, State.hasSub]
  simp only [step, pullIfNeeded, hd, if_true]
  split <;> rfl

/-- `api_reports_truth`, start: the answer is a session id iff an attempt with that id was started by this call; an
    error answer means no attempt was started; the HTTP code is `succ` iff exactly one attempt was started. -/
theorem api_start_reports_truth (s : State) (r a now : Int) :
    ∃ res, (step s (.apiStart r a now)).2 = (step s (.apiStart r a now)).2.dropLast ++ [.apiStart res] ∧
      (∀ id, res = .ok id ↔ Obs.startPull id ∈ (step s (.apiStart r a now)).2) ∧
      (∀ e, res = .error e → attempts (step s (.apiStart r a now)).2 = 0) ∧
      (ctrlStartCode res = .succ ↔ attempts (step s (.apiStart r a now)).2 = 1) :=
  apiStart_truth s r a now

/-- `api_reports_truth`, stop: an attached session is disposed and named; a connecting attempt is cancelled and
    named; only when there is neither does the API answer "session not found"; afterwards relay pull is disabled,
    the retry counter restarts and no connecting attempt is wanted any more. -/
theorem api_stop_reports_truth (s : State) :
    (∀ id, s.pull.attached = some id → (step s .apiStop).2 = [.stopCalled, .disposePull id, .apiStop (some id)]) ∧
    (∀ id, s.pull.attached = none → s.connecting = true → s.pull.pullingId = some id →
        (step s .apiStop).2 = [.stopCalled, .cancelPull id, .apiStop (some id)]) ∧
    (s.pull.attached = none → s.connecting = false → (step s .apiStop).2 = [.stopCalled, .apiStop none]) ∧
    (step s .apiStop).1.pull.apiEnable = false ∧ (step s .apiStop).1.pull.startCount = 0 ∧ (step s .apiStop).1.connecting = false :=
  apiStop_truth s

/-- `api_reports_truth`, kick: a pull session id is found iff it is the attached session or the connecting attempt
    that is still wanted; then relay pull is disabled, the session disposed / the attempt cancelled; otherwise the
    answer is "session not found" and nothing changes. -/
theorem api_kick_reports_truth (s : State) (id : Nat) :
    (Obs.kick true ∈ (step s (.kick id)).2 ↔ (s.pull.attached = some id ∨ (s.connecting = true ∧ s.pull.pullingId = some id))) ∧
    (Obs.kick true ∈ (step s (.kick id)).2 →
        (step s (.kick id)).1.pull.apiEnable = false ∧ (step s (.kick id)).1.pull.startCount = 0 ∧
        (step s (.kick id)).1.connecting = false ∧ (s.pull.attached = some id → Obs.disposePull id ∈ (step s (.kick id)).2)) ∧
    (Obs.kick false ∈ (step s (.kick id)).2 → (step s (.kick id)).1 = s) :=
  kick_truth s id

/-- S24 closed: after an API stop (or a kick, or an auto stop) with nothing attached, NO later history attaches a
    pull session unless it starts a new attempt - in particular the attempt that was connecting at the time of the
    stop is refused when the origin finally answers. -/
theorem stopped_attempt_never_attaches (s : State) (es : List Event) (h : s.pull.attached = none)
    (hno : attempts (run (step s .apiStop).1 es).2 = 0) :
    (run (step s .apiStop).1 es).1.pull.attached = none :=
  (run_noAttach es _ (by simp only [step, apiStopPull]; exact stopPull_noAttach _ h) hno).1

/-! ## Relay push -/

/-- `push_one_per_target`: in every reachable state (any history from a new group with `n` configured targets) there
    are `n` targets and each has at most one push goroutine; `isPushing` says exactly whether it has one; an attached
    push session belongs to that goroutine; and without an RTMP / RTSP publisher no push session is attached. -/
theorem push_one_per_target (static : Bool) (n : Nat) (t0 : Int) (es : List Event) :
    (run (init static n t0) es).1.push.length = n ∧
    (∀ p ∈ (run (init static n t0) es).1.push,
        p.live.length ≤ 1 ∧ (p.isPushing = true ↔ p.live ≠ []) ∧ ∀ id, p.session = some id → id ∈ p.live) ∧
    ((run (init static n t0) es).1.pushSource = none → ∀ p ∈ (run (init static n t0) es).1.push, p.session = none) := by
  have h := run_inv n es _ (init_inv static n t0)
  exact ⟨h.len, fun p hp => ⟨(h.ok p hp).2.1, (h.ok p hp).1, (h.ok p hp).2.2⟩, h.orphan⟩

/-- once an RTMP or RTSP publisher is accepted every configured target has exactly one push attempt or session -/
theorem push_opens_all_targets (static : Bool) (n : Nat) (t0 : Int) (es : List Event) (p : Pub) (hp : p ≠ .other)
    (hin : (run (init static n t0) es).1.hasIn = false) (he : (run (init static n t0) es).1.pushEnable = true) :
    ∀ x ∈ (step (run (init static n t0) es).1 (.pubArrive p)).1.push, x.isPushing = true ∧ x.live.length = 1 :=
  (pubArrive_opens_all n _ p (run_inv n es _ (init_inv static n t0)) hin he hp).2

/-- `push_retries_on_tick`: while an RTMP / RTSP publisher is there, a target whose push failed (not pushing) gets a
    new attempt on the next tick, carrying the publisher's URL parameters. -/
theorem push_retries_on_tick (s : State) (now : Int) (q t : Nat) (p : Push) (he : s.pushEnable = true)
    (hq : s.pushSource = some q) (ht : s.push[t]? = some p) (hp : p.isPushing = false) :
    ∃ id, Obs.startPush t id q ∈ (step s (.tick now)).2 :=
  tick_retries s now q t p he hq ht hp

/-- `push_ends_with_publisher`: when the publisher leaves every attached push session is disposed and none stays
    attached; (with `push_one_per_target`: a push that was still connecting is refused when it completes). -/
theorem push_ends_with_publisher (static : Bool) (n : Nat) (t0 : Int) (es : List Event)
    (hp : (run (init static n t0) es).1.pub.isSome = true) :
    (step (run (init static n t0) es).1 .pubLeave).1.pub = none ∧
    (∀ x ∈ (step (run (init static n t0) es).1 .pubLeave).1.push, x.session = none) ∧
    (∀ (t : Nat) (x : Push) (id : Nat), (run (init static n t0) es).1.push[t]? = some x → x.session = some id →
        Obs.disposePush t id ∈ (step (run (init static n t0) es).1 .pubLeave).2) :=
  pubLeave_ends n _ (run_inv n es _ (init_inv static n t0)) hp

/- Non-vacuity. -/

/-- a statically configured group with one consumer: idle, enabled, budget forever -/
def nvReady : State := { init true 0 0 with subs := 1 }
example : Ready nvReady := ⟨rfl, rfl, rfl, rfl, rfl, by decide, by decide⟩
example : nvReady.pull.lastHasOut ≠ -1 := by decide

/-- budget 1: two attempts, the third tick is refused ("retry limited"); the stop resets; 700-byte URL parameters -/
def nvHistory : List Event :=
  [.subJoin 0, .apiStart 1 (-1) 1, .pullDone 0, .tick 2, .pullDone 1, .tick 3, .tick 4]
example : attempts (run (init false 1 0) nvHistory).2 = 2 := by decide
example : ∀ o ∈ (run (init false 1 0) nvHistory).2, isStop o = false := by decide
example : ∀ e ∈ nvHistory, keepsBudget 1 e := by
  intro e he
  simp only [nvHistory, List.mem_cons, List.mem_nil_iff, or_false] at he
  rcases he with rfl | rfl | rfl | rfl | rfl | rfl | rfl <;> simp [keepsBudget]

/-- S24 history: start, stop while connecting, the origin answers: refused -/
example : (run (init false 0 0) [.subJoin 0, .apiStart (-1) (-1) 1, .apiStop, .pullAttach 0]).2 =
    [.startPull 0, .apiStart (.ok 0), .stopCalled, .cancelPull 0, .apiStop (some 0), .pullRefused 0, .disposePull 0] := by decide

/-- auto stop after 40 ms: gone for 60 ms at the tick -/
example : RelaySpec.consumerGoneForWindow
    (view (run (init false 0 0) [.subJoin 0, .apiStart (-1) 40 1, .pullAttach 0, .subLeave]).1) 61 := by decide

/-- push: publisher with 700 bytes of URL parameters, two targets, one fails and is retried on the tick -/
example : (run (init false 2 0) [.pubArrive (.rtmp 700), .pushAttach 0 0, .pushDone 1 1, .tick 5, .pubLeave]).2 =
    [.pubAccepted, .startPush 0 0 700, .startPush 1 1 700, .pushAttached 0 0, .pushEnded 1 1, .startPush 1 2 700, .disposePush 0 0] := by decide

/-! ## The message packer's buffer: URL parameters of any length -/

/-- `packer_buf_fits`: on a usable buffer (`readPos ≤ writePos ≤ cap`) `grow(n)` never fails and afterwards
    capacity − write position ≥ n, for EVERY n; the pending data is kept. -/
theorem packer_buf_fits (b : PBuf) (n : Nat) (h : WF b) :
    ∃ b', b.grow n = .ok b' ∧ WF b' ∧ b'.core.length - b'.writePos ≥ n ∧ b'.data = b.data := by
  obtain ⟨b', e, wf, fit, d⟩ := grow_fits b n h
  exact ⟨b', e, wf, by omega, d⟩

/-- The defect that was there (S20): the code before the fix doubled ONCE whatever was needed. Scaled-down witness
    (capacity 16, write position 2, 40 bytes to write; the recorded one is capacity 256, position 25, 712 bytes and
    stays in the generator's corpus): the result does not fit. -/
example : ∃ b', ((newBuffer 16).modWritePos 2).growOld 40 = .ok b' ∧ ¬ (b'.writePos + 40 ≤ b'.core.length) :=
  ⟨_, rfl, by decide⟩

/-- the AMF0 body of lal's `publish` / `play` commands for a stream name (with its URL parameters) -/
def publishBody (name : Bytes) : Bytes :=
  Amf0.writeString sPublish ++ Amf0.writeNumber f64_3 ++ Amf0.writeNull ++ Amf0.writeString name ++ Amf0.writeString sLive
def playBody (name : Bytes) : Bytes :=
  Amf0.writeString sPlay ++ Amf0.writeNumber f64_3 ++ Amf0.writeNull ++ Amf0.writeString name

/-- `url_params_any_length`: on the packer of a session (any capacity it has grown to, any earlier commands),
    `publish`, `play` and `connect` with stream name / URL parameters / app / tcUrl of ANY length are packed without
    panic, hand the connection exactly the framed AMF0 command, and leave the packer ready for the next command. -/
theorem url_params_any_length (b : PBuf) (h : PackerWF b) (name app tcUrl : Bytes) (sid : Nat) (isPush : Bool) :
    (∃ b', writePublish b name sid = .ok (frame (publishBody name) csidOverStream typeCommandAmf0 sid, b') ∧ PackerWF b') ∧
    (∃ b', writePlay b name sid = .ok (frame (playBody name) csidOverStream typeCommandAmf0 sid, b') ∧ PackerWF b') ∧
    (∃ b' body, writeConnect b app tcUrl isPush = .ok (frame body csidOverConnection typeCommandAmf0 0, b') ∧ PackerWF b' ∧
       (Amf0.writeObject (connectObject app tcUrl isPush)).map (fun o => Amf0.writeString sConnect ++ Amf0.writeNumber f64_1 ++ o) = some body) := by
  refine ⟨?_, ?_, ?_⟩
  · obtain ⟨b', e, wf, _⟩ := command_spec b (publishWrites name) csidOverStream sid h
    rw [publishWrites_flatten] at e
    exact ⟨b', e, wf⟩
  · obtain ⟨b', e, wf, _⟩ := command_spec b (playWrites name) csidOverStream sid h
    rw [playWrites_flatten] at e
    exact ⟨b', e, wf⟩
  · obtain ⟨b', e, wf, _⟩ := command_spec b (connectWrites app tcUrl isPush) csidOverConnection 0 h
    exact ⟨b', _, e, wf, (connectWrites_flatten app tcUrl isPush).symm⟩

/-- ... and a peer that reads the connection as RTMP 1.0 specifies (the strict reader of C08, chunk size = lal's
    `LocalChunkSize`) gets exactly one command message whose body is that AMF0 command, as long as the body is
    shorter than 2^24 bytes (the 3-byte message length field of RTMP). -/
theorem url_params_peer_reads (name : Bytes) (sid : Nat) (hs : sid < 4294967296) (hl : (publishBody name).length < 16777216) :
    ChunkSpec.read Gen.localChunkSize (frame (publishBody name) csidOverStream typeCommandAmf0 sid) =
      some [{ csid := csidOverStream, typ := typeCommandAmf0, msid := sid, ts := 0, payload := publishBody name }] :=
  frame_readable _ _ _ (by unfold publishBody; simp only [List.append_assoc]; exact writeString_append_ne _ _) hl (by decide) hs

/- Non-vacuity: a fresh packer meets `PackerWF`; a 700-byte name (the S20 witness) is packed. -/
example : PackerWF newPacker := newPacker_wf
example : ∃ out b', writePublish newPacker (List.replicate 700 0x61) 1 = .ok (out, b') ∧ PackerWF b' := by
  obtain ⟨⟨b', e, wf⟩, _, _⟩ := url_params_any_length newPacker newPacker_wf (List.replicate 700 0x61) [] [] 1 false
  exact ⟨_, b', e, wf⟩

end Lal.Props.C17
