import LalModel.Proof.Queue
import LalModel.Proof.Interleaved
import LalModel.Proof.Ws
import LalModel.Props.C08
import LalModel.Props.C09
import LalModel.Props.C11
import LalModel.Generated.C15
/-
  C15 — a stalled consumer cannot delay others or corrupt its own framing.
  Property theorems only; helper lemmas live in LalModel/Proof/{Queue,Interleaved}.lean.

  `Queue.Conn` models naza's asynchronous connection as lal's subscriber sessions configure it,
  `Queue.Sess` a subscriber session, `Queue.fanout` the group's loop over a subscriber set
  (Model/Queue.lean; tied to /repo by the L1 correspondence on real session objects over a gated socket).
  WHAT IS PROVED is the bookkeeping: the fan-out never waits for a consumer, whatever is dropped is dropped in
  whole protocol units for every schedule of the writer goroutine, and the liveness sweep disposes a
  subscriber that made no progress between two sweeps. NOT modelled: time — the latency bound "by more
  than a small bound" and the firing of the write deadline are behaviour of the Go runtime and the kernel;
  a failing socket write appears as the environment event `Ev.fail`.
  `Gen.c15*` are regenerated from /repo (values from the linked packages, structure from go/ast) on every run.
-/
namespace Lal.Props.C15
open Lal Lal.Queue

/-! ### 1. the fan-out never waits -/

/-- naza's default full-queue behaviour as found in its source, as a model value -/
def genBehavior : FullBehavior :=
  if Gen.c15DefaultFullBehavior = "WriteChanFullBehaviorReturnError" then .returnError else .block

/-- the queue capacity each subscriber protocol's connection is given in /repo -/
def capOf : Proto → Nat
  | .rtmp => Gen.c15RtmpWChanSize
  | .flv | .wsflv => Gen.c15FlvWChanSize
  | .ts | .wsts => Gen.c15TsWChanSize
  | .rtsp | .wsrtsp => Gen.c15RtspWChanSize

/-- a subscriber session as /repo creates it -/
def subscriber (p : Proto) : Sess := { proto := p, conn := { cap := capOf p, behavior := genBehavior } }

/-- The extracted configuration facts: every subscriber connection gets `WriteChanSize > 0` (rtmp: through
    `modConnProps`, called by `doPlay` before the group learns of the subscriber), no constructor assigns
    `WriteChanFullBehavior` so naza's default applies, that default is ReturnError and is implemented by a
    `select` with a `default:` branch in both `Write` and `Writev`; the subscriber write path calls nothing
    on the connection but `Write`/`Writev`, and the fan-out never calls a session's (blocking) `Flush`. -/
theorem configured_nonblocking :
    (∀ p, (subscriber p).conn.cap > 0 ∧ (subscriber p).conn.behavior = .returnError)
    ∧ (∀ c ∈ Gen.c15OptionAssigns, ∀ a ∈ c.2, a.1 ≠ "WriteChanFullBehavior")
    ∧ (∀ c ∈ Gen.c15OptionAssigns, c.1 ≠ "rtmp.NewServerSession" → ∃ a ∈ c.2, a.1 = "WriteChanSize")
    ∧ "ModWriteChanSize(wChanSize)" ∈ Gen.c15RtmpModConnProps ∧ Gen.c15RtmpPlayModsConnFirst = 1
    ∧ Gen.c15NazaWriteSelectDefault = 1 ∧ Gen.c15NazaWritevSelectDefault = 1
    ∧ (∀ m ∈ Gen.c15WritePathConnCalls, m ∈ ["Write", "Writev"])
    ∧ Gen.c15FanoutSessionFlushCalls = 0 := by
  refine ⟨fun p => ?_, by decide, by decide, by decide, by decide, by decide, by decide, by decide, by decide⟩
  cases p <;> exact ⟨by decide, by decide⟩

/-- `enqueue_nonblocking`. Take ANY set of subscribers of any protocols, each in ANY state reachable from its
    creation (any history of writes, writer-goroutine steps, write failures, disposals, sweeps — in particular
    any number of them stalled with full queues). One pass of the fan-out over the set makes exactly one
    connection call per subscriber, and none of those calls waits for a consumer: the number of steps the
    publisher's critical section takes does not depend on any consumer's queue. -/
theorem enqueue_nonblocking (hist : List (Proto × List Ev)) (u : U) :
    nonBlocking (fanout (hist.map fun h => (subscriber h.1).run h.2) u).2 = true
    ∧ (fanout (hist.map fun h => (subscriber h.1).run h.2) u).2.length = hist.length := by
  have hcfg : ∀ s ∈ hist.map (fun h => (subscriber h.1).run h.2), s.conn.cap > 0 ∧ s.conn.behavior = .returnError := by
    intro s hs
    simp only [List.mem_map] at hs
    obtain ⟨h, _, rfl⟩ := hs
    have hr := runWith_cfg subItems (subscriber h.1) h.2
    have hc := configured_nonblocking.1 h.1
    exact ⟨by rw [show (subscriber h.1).run h.2 = (subscriber h.1).runWith subItems h.2 from rfl, hr.1]; exact hc.1,
           by rw [show (subscriber h.1).run h.2 = (subscriber h.1).runWith subItems h.2 from rfl, hr.2.1]; exact hc.2⟩
  have := fanout_nonblocking _ u hcfg
  simpa using this

/-- …and the other consumers are untouched by it: after a pass of the fan-out, subscriber i's session state
    (queue, counters, what it will eventually receive) is a function of subscriber i's previous state and the
    unit alone — a stalled neighbour, of this or any other stream, cannot change it. -/
theorem others_unaffected (subs : List Sess) (u : U) (i : Nat) (hi : i < subs.length) :
    (fanout subs u).1[i]'(by simp [fanout, hi]) = (subs[i].write u).1 :=
  fanout_independent subs u i hi

/-! ### 2. what cannot be queued is dropped in whole units -/

/-- `drop_whole_units`, protocol-independent half. For EVERY protocol, queue capacity and event order (writes of
    units interleaved arbitrarily with the writer goroutine taking an item, finishing it, failing after k bytes,
    with disposals and sweeps — i.e. every instant at which the consumer stalls or resumes and every queue-full
    instant): the bytes the consumer received are the frames of a SUBSEQUENCE `del` of the units written, each
    complete, in order; only when the connection was closed under a write may a prefix of one further unit's
    frame follow (the stream then ends: the connection is closed). -/
theorem drop_whole_units (p : Proto) (cap : Nat) (evs : List Ev) :
    ∃ del : List U,
      del.Sublist (written evs)
      ∧ ((Sess.init p cap).run evs).conn.received
          = (del.map (frame p)).flatten ++ ((Sess.init p cap).run evs).conn.tail
      ∧ (((Sess.init p cap).run evs).conn.tail = []
         ∨ (((Sess.init p cap).run evs).conn.closed = true
            ∧ ∃ u, (del ++ [u]).Sublist (written evs) ∧ ((Sess.init p cap).run evs).conn.tail <+: frame p u)) := by
  obtain ⟨del, h1, _, h2, h3⟩ := received_units p cap evs
  exact ⟨del, h1, by rw [Conn.received, h2], h3⟩

/-- Nothing of a fresh session's first `cap` units is dropped, whatever the writer goroutine does: the HTTP /
    WebSocket-upgrade response, the FLV header, PAT/PMT, cached sequence headers reach a consumer whose burst
    fits the queue (`Gen.c15*WChanSize`, 1024). -/
theorem prologue_accepted (p : Proto) (cap : Nat) (evs : List Ev)
    (hev : ∀ e ∈ evs, (∃ u, e = .write u) ∨ e = .take ∨ e = .done) (hfit : (written evs).length ≤ cap) :
    ((Sess.init p cap).run evs).accepted = written evs := by
  have := accepted_all_while_room (Sess.init p cap) evs hev rfl rfl (by simp [Sess.init]) (by simpa [Sess.init] using hfit)
  simpa [Sess.init] using this

/-! ### …so what is received is well framed, protocol by protocol (for ANY list of units: in particular `del`) -/

/-- a unit of an RTMP subscriber: the chunks of the messages of one `Write` / one merge-writer `Writev` batch;
    lal always starts a message with a type-0 chunk (prev = nil), so a unit never depends on a dropped one -/
def rtmpUnit (cs : Nat) (ms : List Chunk.Msg) : U := { data := ms.flatMap (C08.enc cs) }

theorem framed_rtmp (cs : Nat) (hcs : cs ≥ 1) (mss : List (List Chunk.Msg)) (h : ∀ ms ∈ mss, ∀ m ∈ ms, C08.MsgWF m) :
    ChunkSpec.read cs ((mss.map fun ms => frame .rtmp (rtmpUnit cs ms)).flatten)
      = some (mss.flatten.map ChunkEnc.toSpec) := by
  have hfl : (mss.map fun ms => frame .rtmp (rtmpUnit cs ms)).flatten = mss.flatten.flatMap (C08.enc cs) := by
    clear h
    induction mss with
    | nil => rfl
    | cons ms rest ih =>
      simp only [List.map_cons, List.flatten_cons, ih, List.flatMap_append]
      rfl
  rw [hfl]
  exact C08.enc_dec_spec cs hcs mss.flatten (by
    intro m hm; simp only [List.mem_flatten] at hm; obtain ⟨ms, h1, h2⟩ := hm; exact h ms h1 m h2)

/-- HTTP-FLV: the FLV header unit followed by any surviving tags is a valid FLV file with exactly those tags -/
theorem framed_flv (tags : List (UInt8 × Nat × Bytes)) (h : ∀ x ∈ tags, C11.TagWF x) :
    FlvSpec.readFile (frame .flv { data := Gen.flvHeader } ++ (tags.map fun x => frame .flv { data := C11.pack x }).flatten)
      = some { hasAudio := true, hasVideo := true,
               tags := tags.map fun x => { typ := x.1, ts := x.2.1, payload := x.2.2 } } := by
  have hfl : (tags.map fun x => frame .flv { data := C11.pack x }).flatten = tags.flatMap C11.pack := by
    induction tags with
    | nil => rfl
    | cons x rest ih => simp only [List.map_cons, List.flatten_cons, List.flatMap_cons, ih (fun y hy => h y (by simp [hy]))]; rfl
  rw [hfl]
  exact C11.file_roundtrip tags h

/-- WebSocket (FLV, TS, RTSP): every surviving unit is exactly one final binary unmasked frame whose payload is the
    unit's body (the FLV tag / TS packets / interleaved RTP frame) — header and payload can no longer be
    separated by a full queue because they are ONE queue item (`subItems`). -/
theorem framed_ws (p : Proto) (hp : p.ws = true) (us : List U) (hraw : ∀ u ∈ us, u.raw = false)
    (hl : ∀ u ∈ us, (body p u).length < 9223372036854775808) :
    WsSpec.readFrames ((us.map (frame p)).flatten).length ((us.map (frame p)).flatten)
      = some (us.map fun u => { fin := true, opcode := 2, payload := body p u }) := by
  have hfl : (us.map (frame p)).flatten = (us.map (body p)).flatMap fun b => (Ws.subWrite true b).flatten := by
    clear hl
    induction us with
    | nil => rfl
    | cons u rest ih =>
      have hu := hraw u (by simp)
      simp only [List.map_cons, List.flatten_cons, List.flatMap_cons, ih (fun y hy => hraw y (by simp [hy]))]
      simp [frame, hp, hu]
  rw [hfl]
  have := Ws.readFrames_units (us.map (body p)) (by
    intro b hb; simp only [List.mem_map] at hb; obtain ⟨u, hu, rfl⟩ := hb; exact hl u hu) _ (Nat.le_refl _)
  rw [this, List.map_map]; rfl

/-- HTTP-TS: units are runs of 188-byte packets (`Frame.Pack`, C09 `pack_188`), so the surviving stream cut every 188
    bytes is exactly the surviving frames' packets, in order — each frame's packet group is then demultiplexed as
    C09 `pack_demux` states. (Continuity counters jump across a dropped frame: that is the loss itself, signalled
    to the decoder, not a framing error.) -/
theorem framed_ts (fs : List Ts.Frame) :
    TsSpec.chunk188 ((fs.map fun f => frame .ts { data := (Ts.pack f).1.flatten }).flatten).length
        ((fs.map fun f => frame .ts { data := (Ts.pack f).1.flatten }).flatten)
      = fs.flatMap fun f => (Ts.pack f).1 := by
  have hfl : (fs.map fun f => frame .ts { data := (Ts.pack f).1.flatten }).flatten
      = (fs.flatMap fun f => (Ts.pack f).1).flatten := by
    induction fs with
    | nil => rfl
    | cons f rest ih => simp only [List.map_cons, List.flatten_cons, List.flatMap_cons, List.flatten_append, ih]; rfl
  rw [hfl]
  have h188 : ∀ q ∈ (fs.flatMap fun f => (Ts.pack f).1), q.length = 188 := by
    intro q hq; simp only [List.mem_flatMap] at hq; obtain ⟨f, _, hq⟩ := hq
    exact ((C09.pack_188 f).1 q hq).1
  apply TsSpec.chunk188_flatten _ h188
  -- fuel: the byte length is at least the number of packets
  have : ∀ ps : List Bytes, (∀ q ∈ ps, q.length = 188) → ps.flatten.length ≥ ps.length := by
    intro ps hps
    induction ps with
    | nil => simp
    | cons q rest ih =>
      have := hps q (by simp)
      have := ih (fun r hr => hps r (by simp [hr]))
      simp only [List.flatten_cons, List.length_append, List.length_cons]; omega
  exact this _ h188

/-- RTSP over TCP: every surviving RTP packet is one interleaved frame ('$', channel, 16-bit length, packet) -/
theorem framed_rtsp (us : List U) (hraw : ∀ u ∈ us, u.raw = false) (h : ∀ u ∈ us, u.ch < 256 ∧ u.data.length < 65536) :
    InterleavedSpec.readFrames ((us.map (frame .rtsp)).flatten).length ((us.map (frame .rtsp)).flatten)
      = some (us.map fun u => { channel := u.ch, data := u.data }) := by
  have hfl : (us.map (frame .rtsp)).flatten = (us.map fun u => (u.ch, u.data)).flatMap fun x => Interleaved.pack x.1 x.2 := by
    clear h
    induction us with
    | nil => rfl
    | cons u rest ih =>
      have hu := hraw u (by simp)
      simp only [List.map_cons, List.flatten_cons, List.flatMap_cons, ih (fun y hy => hraw y (by simp [hy]))]
      simp [frame, body, Proto.ws, Proto.isRtsp, hu]
  rw [hfl]
  have := Interleaved.readFrames_packs (us.map fun u => (u.ch, u.data)) (by
    intro x hx; simp only [List.mem_map] at hx; obtain ⟨u, hu, rfl⟩ := hx; exact h u hu) _ (Nat.le_refl _)
  rw [this, List.map_map]; rfl

/-- The two halves put together for an RTMP subscriber: whatever the schedule, a specification-conforming RTMP
    reader decodes what the stalled (or slow, or healthy) consumer received into exactly the messages of the
    surviving units — a subsequence of the written units, whole and in order — provided no write died midway. -/
theorem drop_whole_units_rtmp (cs : Nat) (hcs : cs ≥ 1) (cap : Nat) (evs : List Ev)
    (hw : ∀ u ∈ written evs, ∃ ms : List Chunk.Msg, (∀ m ∈ ms, C08.MsgWF m) ∧ u = rtmpUnit cs ms)
    (hclean : ((Sess.init .rtmp cap).run evs).conn.tail = []) :
    ∃ mss : List (List Chunk.Msg),
      (mss.map (rtmpUnit cs)).Sublist (written evs)
      ∧ ChunkSpec.read cs ((Sess.init .rtmp cap).run evs).conn.received = some (mss.flatten.map ChunkEnc.toSpec) := by
  obtain ⟨del, h1, h2, _⟩ := drop_whole_units .rtmp cap evs
  obtain ⟨mss, hwf, rfl⟩ := exists_map_of_forall (rtmpUnit cs) (fun ms => ∀ m ∈ ms, C08.MsgWF m) del
    (fun u hu => hw u (h1.subset hu))
  refine ⟨mss, h1, ?_⟩
  rw [h2, hclean, List.append_nil, List.map_map]
  exact framed_rtmp cs hcs mss hwf

/-- …and for a WebSocket subscriber (FLV, TS or RTSP inside): an RFC 6455 reader reads what the consumer
    received as one complete binary frame per surviving unit, payload = that unit's body, nothing else. -/
theorem drop_whole_units_ws (p : Proto) (hp : p.ws = true) (cap : Nat) (evs : List Ev)
    (hw : ∀ u ∈ written evs, u.raw = false ∧ (body p u).length < 9223372036854775808)
    (hclean : ((Sess.init p cap).run evs).conn.tail = []) :
    ∃ del : List U, del.Sublist (written evs)
      ∧ WsSpec.readFrames ((Sess.init p cap).run evs).conn.received.length ((Sess.init p cap).run evs).conn.received
          = some (del.map fun u => { fin := true, opcode := 2, payload := body p u }) := by
  obtain ⟨del, h1, h2, _⟩ := drop_whole_units p cap evs
  refine ⟨del, h1, ?_⟩
  rw [h2, hclean, List.append_nil]
  exact framed_ws p hp del (fun u hu => (hw u (h1.subset hu)).1) (fun u hu => (hw u (h1.subset hu)).2)

/-- …and for an RTSP subscriber over interleaved TCP -/
theorem drop_whole_units_rtsp (cap : Nat) (evs : List Ev)
    (hw : ∀ u ∈ written evs, u.raw = false ∧ u.ch < 256 ∧ u.data.length < 65536)
    (hclean : ((Sess.init .rtsp cap).run evs).conn.tail = []) :
    ∃ del : List U, del.Sublist (written evs)
      ∧ InterleavedSpec.readFrames ((Sess.init .rtsp cap).run evs).conn.received.length
          ((Sess.init .rtsp cap).run evs).conn.received
          = some (del.map fun u => { channel := u.ch, data := u.data }) := by
  obtain ⟨del, h1, h2, _⟩ := drop_whole_units .rtsp cap evs
  refine ⟨del, h1, ?_⟩
  rw [h2, hclean, List.append_nil]
  exact framed_rtsp del (fun u hu => (hw u (h1.subset hu)).1) (fun u hu => (hw u (h1.subset hu)).2)

/-- a unit of an HTTP-FLV subscriber: one packed tag; the first unit is the 13-byte FLV header -/
def flvUnit (x : UInt8 × Nat × Bytes) : U := { data := C11.pack x }
def flvHeaderUnit : U := { data := Gen.flvHeader }

/-- …for an HTTP-FLV subscriber (the body after the HTTP response header): whatever the schedule, either the consumer
    has received nothing yet, or what it received is a valid FLV file — the header, which as the first unit on a
    fresh queue is never the one dropped, then exactly the surviving tags, whole and in order. -/
theorem drop_whole_units_flv (cap : Nat) (hcap : cap ≥ 1) (evs : List Ev) (tags : List (UInt8 × Nat × Bytes))
    (htags : ∀ x ∈ tags, C11.TagWF x) (hw : written evs = flvHeaderUnit :: tags.map flvUnit)
    (hclean : ((Sess.init .flv cap).run evs).conn.tail = []) :
    ((Sess.init .flv cap).run evs).conn.received = []
    ∨ ∃ tags' : List (UInt8 × Nat × Bytes), tags'.Sublist tags
        ∧ FlvSpec.readFile ((Sess.init .flv cap).run evs).conn.received
            = some { hasAudio := true, hasVideo := true,
                     tags := tags'.map fun x => { typ := x.1, ts := x.2.1, payload := x.2.2 } } := by
  obtain ⟨del, h1, hpre, h2, _⟩ := received_units .flv cap evs
  have hrec : ((Sess.init .flv cap).run evs).conn.received = (del.map (frame .flv)).flatten := by
    rw [Conn.received, h2, hclean, List.append_nil]
  cases del with
  | nil => left; rw [hrec]; rfl
  | cons d del' =>
    right
    -- the first delivered unit is the first accepted unit, which is the first written unit: the FLV header
    have hd : d = flvHeaderUnit := by
      rcases accepted_head .flv cap hcap evs with ha | ha
      · rw [ha] at hpre; simp at hpre
      · obtain ⟨t, ht⟩ := hpre
        rw [← ht, hw] at ha
        simpa using ha
    subst hd
    have hsub : del'.Sublist (tags.map flvUnit) := by
      rw [hw] at h1
      exact List.cons_sublist_cons.mp h1
    obtain ⟨tags', ht1, rfl⟩ := List.sublist_map_iff.mp hsub
    refine ⟨tags', ht1, ?_⟩
    rw [hrec, List.map_cons, List.flatten_cons, List.map_map]
    exact framed_flv tags' (fun x hx => htags x (ht1.subset hx))

/-- a unit of an HTTP-TS subscriber: the packets of one packed frame -/
def tsUnit (f : Ts.Frame) : U := { data := (Ts.pack f).1.flatten }

/-- …for an HTTP-TS subscriber: cut every 188 bytes, what the consumer received is exactly the packets of the surviving
    frames, frame by frame, in order (each group demultiplexes as C09 `pack_demux` states). -/
theorem drop_whole_units_ts (cap : Nat) (evs : List Ev) (fs : List Ts.Frame) (hw : written evs = fs.map tsUnit)
    (hclean : ((Sess.init .ts cap).run evs).conn.tail = []) :
    ∃ fs' : List Ts.Frame, fs'.Sublist fs
      ∧ TsSpec.chunk188 ((Sess.init .ts cap).run evs).conn.received.length ((Sess.init .ts cap).run evs).conn.received
          = fs'.flatMap fun f => (Ts.pack f).1 := by
  obtain ⟨del, h1, h2, _⟩ := drop_whole_units .ts cap evs
  rw [hw] at h1
  obtain ⟨fs', hf1, rfl⟩ := List.sublist_map_iff.mp h1
  refine ⟨fs', hf1, ?_⟩
  rw [h2, hclean, List.append_nil, List.map_map]
  exact framed_ts fs'

/-! ### 3. the liveness sweep -/

/-- `sweep_disconnects`. `s.counter` is what `IsAlive` reads: the connection's count of bytes written to the socket
    (rtmp, http-flv, http-ts, plain and WebSocket), or the session's count of bytes of packets accepted by the queue
    (rtsp). If, between one liveness sweep and the next, whatever else happened (writes, refusals, writer steps),
    that counter did not move, the second sweep disposes the session: its connection is closed. -/
theorem sweep_disconnects (s : Sess) (evs : List Ev) (hns : ∀ e ∈ evs, e ≠ .sweep)
    (hstill : (s.sweep.run evs).counter = s.counter) :
    ((s.sweep.run evs).sweep).conn.closed = true := by
  have hst : (s.sweep.run evs).stale = some s.counter := by rw [stale_run _ evs hns, sweep_stale]
  generalize s.sweep.run evs = b at hst hstill
  unfold Sess.sweep
  have halive : b.isAlive.2 = false := by simp [Sess.isAlive, hst, hstill]
  simp only [halive, Bool.false_eq_true, if_false, Sess.dispose]
  exact close_closed _

/-- a subscriber whose counter moved between the two sweeps is left alone by the second -/
theorem sweep_spares_progress (s : Sess) (evs : List Ev) (hns : ∀ e ∈ evs, e ≠ .sweep)
    (hmoved : (s.sweep.run evs).counter ≠ s.counter) :
    ((s.sweep.run evs).sweep).conn = (s.sweep.run evs).conn := by
  have hst : (s.sweep.run evs).stale = some s.counter := by rw [stale_run _ evs hns, sweep_stale]
  generalize s.sweep.run evs = b at hst hmoved
  unfold Sess.sweep
  have halive : b.isAlive.2 = true := by simp [Sess.isAlive, hst, hmoved]
  simp only [halive, if_true]
  exact isAlive_conn b

/-- A consumer that stops reading: from the first sweep on, no socket write of its connection returns (no `done`,
    no `fail`), whatever the publisher writes meanwhile. The second sweep disposes it (rtmp, http-flv, http-ts,
    plain and WebSocket; for rtsp the counter is on the enqueue side — `sweep_disconnects` applies once its queue has
    refused everything for a whole interval). -/
theorem stalled_consumer_swept (s : Sess) (hp : s.proto.isRtsp = false) (evs : List Ev)
    (hstalled : ∀ e ∈ evs, e ≠ .sweep ∧ e ≠ .done ∧ ∀ k, e ≠ .fail k) :
    ((s.sweep.run evs).sweep).conn.closed = true := by
  apply sweep_disconnects s evs (fun e he => (hstalled e he).1)
  have hp' : s.sweep.proto.isRtsp = false := by
    have := (stepWith_cfg subItems s .sweep).2.2
    rw [show s.sweep = s.stepWith subItems .sweep from rfl, this]; exact hp
  rw [counter_run_stalled s.sweep evs hp' (fun e he => (hstalled e he).2)]
  -- the first sweep itself does not move the counter
  have h1 := wrote_step s .sweep (by simp) (by simp)
  simp only [Sess.counter, hp', hp, Bool.false_eq_true, if_false]
  exact h1

/-! ### Non-vacuity, and the pinned tree's counterexample (S18) -/

def ua : U := { data := [1, 2, 3] }
def ub : U := { data := [4, 5] }
def uc : U := { data := [6] }

/-- the consumer stalls after the first unit went into the writer's hands; capacity 2; `ub` meets a queue with one
    free slot, `uc` is written after the consumer resumed -/
def stallSchedule : List Ev :=
  [.write ua, .take, .write ub, .write ub, .write ub, .done, .take, .done, .take, .done, .write uc, .take, .done, .take, .done]

-- the tree with the fix: units are dropped whole; an RFC 6455 reader sees exactly the survivors
example : WsSpec.readFrames 100 ((Sess.init .wsflv 2).run stallSchedule).conn.received
    = some [{ fin := true, opcode := 2, payload := [1, 2, 3] }, { fin := true, opcode := 2, payload := [4, 5] },
            { fin := true, opcode := 2, payload := [4, 5] }, { fin := true, opcode := 2, payload := [6] }] := by decide
example : ((Sess.init .wsflv 2).run stallSchedule).accepted = [ua, ub, ub, uc]
    ∧ ((Sess.init .wsflv 2).run stallSchedule).offered = [ua, ub, ub, ub, uc] := by decide

-- S18, the pinned tree (header and payload as two queue items): on the SAME schedule the queue fills between a
-- header and its payload; the consumer receives a header whose payload never comes, and the RFC 6455 reader
-- loses the framing for good
example : ((Sess.init .wsflv 2).runWith PreFix.subItems stallSchedule).conn.received
    = [130, 3, 1, 2, 3, 130, 2, 130, 1, 6] := by decide
example : WsSpec.readFrames 100 ((Sess.init .wsflv 2).runWith PreFix.subItems stallSchedule).conn.received = none := by
  decide
-- the same over RTSP-in-WebSocket
example : WsSpec.readFrames 100 ((Sess.init .wsrtsp 2).runWith PreFix.subItems stallSchedule).conn.received = none
    ∧ (WsSpec.readFrames 100 ((Sess.init .wsrtsp 2).run stallSchedule).conn.received).map (·.length) = some 4 := by
  decide

-- what `enqueue_nonblocking` excludes: with the Block behaviour (or a synchronous connection) a full queue stops
-- the fan-out
example : nonBlocking (fanout [{ proto := .flv, conn := { cap := 1, behavior := .block, queue := [[0]] } }] ua).2 = false
    ∧ nonBlocking (fanout [{ proto := .flv, conn := { cap := 0 } }] ua).2 = false
    ∧ nonBlocking (fanout [{ proto := .flv, conn := { cap := 1, queue := [[0]] } }] ua).2 = true := by decide

-- RTMP: real chunked messages as units meet the hypotheses of `drop_whole_units_rtmp`; one is refused, the rest decode
def rtmpSchedule : List Ev :=
  [.write (rtmpUnit 2 [C08.nv1]), .take, .write (rtmpUnit 2 [C08.nv2, C08.nv3]), .write (rtmpUnit 2 [C08.nv1]),
   .write (rtmpUnit 2 [C08.nv3]), .done, .take, .done, .take, .done]
example : ChunkSpec.read 2 ((Sess.init .rtmp 2).run rtmpSchedule).conn.received
    = some ([C08.nv1, C08.nv2, C08.nv3, C08.nv1].map ChunkEnc.toSpec)
    ∧ ((Sess.init .rtmp 2).run rtmpSchedule).conn.tail = [] := by decide

-- HTTP-FLV: header + three tags, the third meets a full queue; the hypotheses of `drop_whole_units_flv` hold and the
-- consumer's bytes are an FLV file with the first two tags
def flvSchedule : List Ev :=
  [.write flvHeaderUnit, .take, .write (flvUnit (9, 0, [1])), .write (flvUnit (8, 5, [2])), .write (flvUnit (9, 40, [3])),
   .done, .take, .done, .take, .done]
example : written flvSchedule = flvHeaderUnit :: [((9 : UInt8), 0, ([1] : Bytes)), (8, 5, [2]), (9, 40, [3])].map flvUnit
    ∧ ((Sess.init .flv 2).run flvSchedule).conn.tail = []
    ∧ FlvSpec.readFile ((Sess.init .flv 2).run flvSchedule).conn.received
        = some { hasAudio := true, hasVideo := true,
                 tags := [{ typ := 9, ts := 0, payload := [1] }, { typ := 8, ts := 5, payload := [2] }] } := by decide

-- a write that dies after 2 bytes (write deadline): whole units, then a truncated one, and the connection is closed
example : ((Sess.init .rtsp 2).run [.write ua, .take, .done, .write ub, .take, .fail 2, .write uc]).conn.received
    = Interleaved.pack 0 [1, 2, 3] ++ [0x24, 0]
    ∧ ((Sess.init .rtsp 2).run [.write ua, .take, .done, .write ub, .take, .fail 2, .write uc]).conn.closed = true := by
  decide

-- the sweep: a stalled HTTP-FLV consumer is disposed by the second sweep, a reading one is not
example : ((Sess.init .flv 4).run [.write ua, .take, .sweep, .write ub, .write uc, .sweep]).conn.closed = true
    ∧ ((Sess.init .flv 4).run [.write ua, .take, .sweep, .write ub, .done, .sweep]).conn.closed = false := by decide

end Lal.Props.C15
