import LalModel.Proof.ChunkSim
import LalModel.Proof.ChunkEnc
/-
  C08 — RTMP chunk stream encode/decode is exact for every size, timestamp and chunking.
  Property theorems only. `Chunk.message2Chunks` / `Chunk.compose` model pkg/rtmp's divider and
  ChunkComposer (tied to /repo by the correspondence check); `ChunkSpec.read` is the strict reader
  written from RTMP 1.0 §5.3.1; "a specification-conforming chunking" = a byte string that reader
  accepts. `Gen.*` constants are regenerated from /repo on every run.
-/
namespace Lal.Props.C08
open Lal Lal.Chunk

/-- what lal hands to `Message2Chunks`: length = payload length in 1..2^24-1, uint32 timestamp,
    chunk stream id 2..65599, any type id except the two the divider never writes
    (Set Chunk Size, aggregate), uint32 message stream id -/
def MsgWF (m : Msg) : Prop := ChunkEnc.WF m ∧ m.payload ≠ []

def enc (cs : Nat) (m : Msg) : Bytes := message2Chunks m.payload m.hdr none cs

/-- Direction 1a: any message sequence lal serialises (any chunk size ≥ 1, chunk streams freely
    mixed) is decoded by the specification reader into the identical messages — type, stream id,
    absolute timestamp (in particular ≥ 0xFFFFFF and exactly 0xFFFFFF), payload. -/
theorem enc_dec_spec (cs : Nat) (hcs : cs ≥ 1) (ms : List Msg) (h : ∀ m ∈ ms, MsgWF m) :
    ChunkSpec.read cs (ms.flatMap (enc cs)) = some (ms.map ChunkEnc.toSpec) :=
  ChunkEnc.spec_read_enc cs hcs ms h

/-- Direction 2: lal's reader, on ANY byte string the specification reader accepts as a conforming
    chunk stream (interleaved chunk streams, all four header formats with deltas < 0xFFFFFF, extended
    absolute timestamps, Set Chunk Size changes between messages and between the chunks of a message,
    aggregate messages), delivers exactly the specification reader's messages, reports no protocol
    error and leaves no byte unconsumed. -/
theorem dec_legal (cs : Nat) (hcs : cs ≥ 1) (bytes : Bytes) (out : List ChunkSpec.Message)
    (h : ChunkSpec.read cs bytes = some out) :
    (compose { peerChunkSize := cs } bytes).msgs = out.map ChunkSim.ofSpec ∧
    (compose { peerChunkSize := cs } bytes).failed = false ∧
    (compose { peerChunkSize := cs } bytes).leftover = 0 :=
  ChunkSim.compose_sim cs hcs bytes out h

/-- Direction 1b: lal's own reader on lal's own chunks returns the identical messages
    (header fields, length, absolute timestamp, payload), for every length, timestamp,
    chunk stream id and chunk size. -/
theorem enc_dec_lal (cs : Nat) (hcs : cs ≥ 1) (ms : List Msg) (h : ∀ m ∈ ms, MsgWF m) :
    (compose { peerChunkSize := cs } (ms.flatMap (enc cs))).msgs = ms ∧
    (compose { peerChunkSize := cs } (ms.flatMap (enc cs))).failed = false ∧
    (compose { peerChunkSize := cs } (ms.flatMap (enc cs))).leftover = 0 := by
  have h1 := enc_dec_spec cs hcs ms h
  obtain ⟨a, b, c⟩ := dec_legal cs hcs _ _ h1
  refine ⟨?_, b, c⟩
  rw [a, List.map_map]
  have : ∀ m ∈ ms, (ChunkSim.ofSpec ∘ ChunkEnc.toSpec) m = m := fun m hm => ChunkEnc.ofSpec_toSpec m (h m hm).1
  rw [List.map_congr_left this, List.map_id']

/-- The length-0 boundary, stated rather than hidden: an empty message yields no chunk at all. -/
theorem enc_empty (h : Header) (prev : Option Header) (cs : Nat) : message2Chunks [] h prev cs = [] := rfl

/-- Shape of what the divider writes: a type 0 header on the first chunk, type 3 on every
    continuation chunk, and the 4-byte extended timestamp on EVERY chunk iff the timestamp is
    ≥ `Gen.maxTimestampInMessageHeader` (0xFFFFFF), the 3-byte field then holding 0xFFFFFF. -/
theorem enc_shape (h : Header) :
    calcHeader h none = basicHeader 0 h.csid ++
      (be24 (if h.ts ≥ Gen.maxTimestampInMessageHeader then Gen.maxTimestampInMessageHeader else h.ts) ++
        be24 h.msgLen ++ [b8 h.typ] ++ le32 h.msid ++
        (if h.ts ≥ Gen.maxTimestampInMessageHeader then be32 h.ts else [])) ∧
    calcHeader h (some h) = basicHeader 3 h.csid ++
      (if h.ts ≥ Gen.maxTimestampInMessageHeader then be32 h.ts else []) :=
  ⟨ChunkEnc.calcHeader_none h, ChunkEnc.calcHeader_some h⟩

/- Non-vacuity: concrete messages at the boundaries the property names meet the hypotheses, and the
   round trip computes. -/
def nv1 : Msg := { hdr := { csid := 64, msgLen := 3, typ := 9, msid := 1, ts := 16777214 }, payload := [1, 2, 3] }
def nv2 : Msg := { hdr := { csid := 320, msgLen := 2, typ := 8, msid := 1, ts := 16777215 }, payload := [4, 5] }
def nv3 : Msg := { hdr := { csid := 3, msgLen := 3, typ := 18, msid := 1, ts := 16777216 }, payload := [6, 7, 8] }

example : MsgWF nv1 ∧ MsgWF nv2 ∧ MsgWF nv3 := by
  refine ⟨⟨⟨rfl, ?_, ?_, ?_, ?_, ?_, ?_, ?_⟩, ?_⟩, ⟨⟨rfl, ?_, ?_, ?_, ?_, ?_, ?_, ?_⟩, ?_⟩, ⟨⟨rfl, ?_, ?_, ?_, ?_, ?_, ?_, ?_⟩, ?_⟩⟩ <;>
    simp [nv1, nv2, nv3]

example : (compose { peerChunkSize := 2 } ([nv1, nv2, nv3].flatMap (enc 2))).msgs = [nv1, nv2, nv3] := by
  decide

example : ChunkSpec.read 2 ([nv1, nv2, nv3].flatMap (enc 2)) = some ([nv1, nv2, nv3].map ChunkEnc.toSpec) := by
  decide

end Lal.Props.C08
