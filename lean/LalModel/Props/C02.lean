import LalModel.Proof.GroupFlv
import LalModel.Proof.GopRing
import LalModel.Proof.GroupKey
import LalModel.Proof.TsGopRing
/-
  C02 — Every consumer starts decodable: headers, then a key frame, bounded GOP replay.
  Property theorems for the RTMP / HTTP-FLV / WS-FLV consumers of the group model (`Group.run`,
  tied to a real logic.Group by the correspondence check) and for remux.GopCache. The TS and RTSP
  consumers are not in this model (see checklib/p_C02.py).
-/
namespace Lal.Props.C02
open Lal Lal.Group

/-- remux.GopCache's ring (first/last indices modulo gopNum+1) IS a queue of GOPs: `Feed` is
    push-a-new-GOP on a key frame (dropping the oldest when `gopNum` are cached), append-to-newest
    otherwise unless the newest already holds `cap` frames, forget-everything when the content of a
    sequence header changes, and nothing for metadata. Ring well-formedness is preserved. -/
theorem gop_ring_refines (g : GopCache.T) (h : GopCache.WF g) (typ : Nat) (payload item : Bytes) :
    GopCache.WF (GopCache.feed g typ payload item).1 ∧
    GopCache.gops (GopCache.feed g typ payload item).1 =
      GopCache.specFeed (g.gopSize - 1) g.cap (GopCache.gops g)
        ((typ == 8 && Classify.isAacSeqHeader typ payload && (match g.ashPayload with | some o => o != payload | none => false)) ||
         (typ == 9 && Classify.isVideoKeySeqHeader typ payload && (match g.vshPayload with | some o => o != payload | none => false)))
        (typ == 18 || (typ == 8 && Classify.isAacSeqHeader typ payload) || (typ == 9 && Classify.isVideoKeySeqHeader typ payload))
        (Classify.isVideoKeyNalu typ payload) item :=
  ⟨(GopCache.gops_feed g h typ payload item).1, (GopCache.gops_feed g h typ payload item).2.2.2⟩

/-- In every reachable state, for every configuration: each cache holds at most the configured number of
    GOPs and no cached GOP is longer than the configured per-GOP frame cap. -/
theorem gop_replay_bounded (cfg : Cfg) (evs : List Ev) :
    (GopCache.gops (run cfg evs).rtmpGop).length ≤ cfg.rtmpGopNum ∧
    (GopCache.gops (run cfg evs).flvGop).length ≤ cfg.flvGopNum ∧
    (cfg.rtmpCap = 0 ∨ ∀ gop ∈ GopCache.gops (run cfg evs).rtmpGop, gop.length ≤ cfg.rtmpCap) ∧
    (cfg.flvCap = 0 ∨ ∀ gop ∈ GopCache.gops (run cfg evs).flvGop, gop.length ≤ cfg.flvCap) := by
  obtain ⟨hr, hf⟩ := run_caches cfg evs
  have h1 := GopCache.gopCount_lt _ hr.wf
  have h2 := GopCache.gopCount_lt _ hf.wf
  rw [hr.size] at h1; rw [hf.size] at h2
  refine ⟨by rw [GopCache.gops_length]; omega, by rw [GopCache.gops_length]; omega, hr.capped, hf.capped⟩

/-- What a fresh consumer is sent before anything else ("headers first, then the cached GOPs, oldest
    first"): cached metadata, video sequence header, audio sequence header — those that exist, in that
    order — followed by the cached GOPs in queue order. -/
theorem prologue_is_headers_then_gops (g : GopCache.T) :
    prologue g = g.metaWithout.toList ++ g.vsh.toList ++ g.ash.toList ++ (GopCache.gops g).flatten := by
  simp [prologue, GopCache.allGopData_eq]

/-- A joiner is told to wait for a key frame exactly when the current input has published a video
    sequence header (`videoCodecSet`, reset when the input ends): a consumer of a stream that currently
    has no video is not held back. -/
theorem joiner_waits_iff_video_known (s : St) (id : Nat) (hnew : id ∉ s.usedIds) (hI : Inv s) (hF : FInv s) :
    (∀ x ∈ (step s (.join .rtmp id)).rtmpSubs, x.id = id → x.waitKey = s.videoCodecSet) ∧
    (∀ x ∈ (step s (.join .flv id)).flvSubs, x.id = id → x.waitKey = s.videoCodecSet) ∧
    (∀ x ∈ (step s (.join .wsflv id)).flvSubs, x.id = id → x.waitKey = s.videoCodecSet) := by
  have hc : s.usedIds.contains id = false := by simpa using hnew
  refine ⟨?_, ?_, ?_⟩
  · intro x hx hid
    simp only [step, hc, Bool.false_eq_true, if_false, List.mem_append, List.mem_singleton] at hx
    rcases hx with hx | rfl
    · exact absurd (hid ▸ hI.used x hx) hnew
    · rfl
  · intro x hx hid
    simp only [step, hc, Bool.false_eq_true, if_false] at hx
    have hx' : x ∈ s.flvSubs ++ [({ id := id, waitKey := s.videoCodecSet, ws := false } : Sub)] := hx
    simp only [List.mem_append, List.mem_singleton] at hx'
    rcases hx' with hx' | rfl
    · exact absurd (hid ▸ hF.used x hx') hnew
    · rfl
  · intro x hx hid
    simp only [step, hc, Bool.false_eq_true, if_false] at hx
    have hx' : x ∈ s.flvSubs ++ [({ id := id, waitKey := s.videoCodecSet, ws := true } : Sub)] := hx
    simp only [List.mem_append, List.mem_singleton] at hx'
    rcases hx' with hx' | rfl
    · exact absurd (hid ▸ hF.used x hx') hnew
    · rfl

/-- A subscriber that is neither fresh nor waiting is live: it holds its prologue and the publish log up
    to the delivery point; a waiting one holds exactly its prologue (cached headers/GOPs plus the headers
    forwarded while it waits). Waiting ends only at a key frame or when the input ends. -/
theorem waiting_holds_only_headers (cfg : Cfg) (evs : List Ev) :
    let s := run cfg evs
    (∀ x ∈ s.rtmpSubs, x.fresh = false → x.waitKey = true → s.bytes .rtmp x.id = x.pro.flatten) ∧
    (∀ x ∈ s.flvSubs, x.fresh = false → x.waitKey = true →
        s.bytes (fkind x) x.id = wrap x.ws Gen.flvHeader ++ wrapAll x.ws x.pro) := by
  intro s
  obtain ⟨hF, hI⟩ := frun_inv cfg evs
  constructor
  · intro x hx hf hw
    have ok := hI.subs x hx (by simp)
    cases hs : x.start with
    | none => exact (ok.wait_ hf hs).2
    | some a => have := (ok.live_ hf a hs).1; rw [hw] at this; cases this
  · intro x hx hf hw
    have ok := hF.subs x hx
    simp only [List.not_mem_nil, if_false] at ok
    cases hs : x.start with
    | none => exact (ok.wait_ hf hs).2
    | some a => have := (ok.live_ hf a hs).1; rw [hw] at this; cases this

/-- "Each consumer's first video frame is a key frame", cache side: in every reachable state every cached GOP of
    both caches is non-empty and begins with the cached form (RTMP chunks / FLV tag) of a key-frame message; hence the
    first thing replayed to a fresh consumer after the headers (`prologue_is_headers_then_gops`) is a key frame. -/
theorem cached_gops_start_with_key_frame (cfg : Cfg) (evs : List Ev) :
    (∀ gop ∈ GopCache.gops (run cfg evs).rtmpGop, ∃ m : InMsg,
        Classify.isVideoKeyNalu m.typ m.payload = true ∧ gop.head? = some (chunksWithoutSdf m)) ∧
    (∀ gop ∈ GopCache.gops (run cfg evs).flvGop, ∃ m : InMsg,
        Classify.isVideoKeyNalu m.typ m.payload = true ∧ gop.head? = some (tagWithoutSdf m)) ∧
    (∀ x, (GopCache.gops (run cfg evs).rtmpGop).flatten.head? = some x →
        ∃ m : InMsg, Classify.isVideoKeyNalu m.typ m.payload = true ∧ x = chunksWithoutSdf m) ∧
    (∀ x, (GopCache.gops (run cfg evs).flvGop).flatten.head? = some x →
        ∃ m : InMsg, Classify.isVideoKeyNalu m.typ m.payload = true ∧ x = tagWithoutSdf m) := by
  obtain ⟨hr, hf⟩ := run_keyheads cfg evs
  have first : ∀ (itemOf : InMsg → Bytes) (G : List (List Bytes)), KeyHeads itemOf G → ∀ x, G.flatten.head? = some x →
      ∃ m : InMsg, Classify.isVideoKeyNalu m.typ m.payload = true ∧ x = itemOf m := by
    intro itemOf G hG x hx
    cases G with
    | nil => simp at hx
    | cons g rest =>
      obtain ⟨m, hk, hh⟩ := hG g List.mem_cons_self
      cases g with
      | nil => simp at hh
      | cons y r =>
        simp only [List.flatten_cons, List.cons_append, List.head?_cons, Option.some.injEq] at hx hh
        exact ⟨m, hk, by rw [← hx, hh]⟩
  exact ⟨hr, hf, first _ _ hr, first _ _ hf⟩

/-- HTTP-TS consumers: the GOP cache of `remux.GopCacheMpegts` (modelled with its Go index expressions; every index is
    in range, C05 `gopcache_mpegts_total`) is, after ANY history of frames and `Clear()` calls from a new cache, exactly
    the queue of the last `gopNum` GOPs — each the frames since its boundary, at most `cap` of them (0 = unbounded),
    in order — and it is empty after `Clear()`: the replay a late HTTP-TS consumer gets is exact and starts at a GOP
    boundary. (`gopts.run` ties the model and this specification to the real type on every run.) -/
theorem ts_gop_cache_is_queue (gopNum cap : Nat) (evs : List GopRing.TsEv) :
    ∃ r, GopRing.tsRun (GopRing.Ring.new gopNum cap) evs = .ok r ∧ r.WF ∧
      GopRing.tsGops r = evs.foldl (GopRing.tsSpec gopNum cap) [] := by
  obtain ⟨r, e, w, g⟩ := GopRing.tsRun_refines gopNum cap evs (GopRing.Ring.new gopNum cap) (GopRing.Ring.new_wf gopNum cap) rfl rfl
  exact ⟨r, e, w, by rw [g, GopRing.ts_new_empty]⟩

/-- non-vacuity: two GOPs, the ring wraps, the oldest is dropped -/
example : (GopRing.tsRun (GopRing.Ring.new 1 0) [.feed [1] true, .feed [2] false, .feed [3] true, .feed [4] false]).toOption.map GopRing.tsGops
    = some [[[3], [4]]] := by decide

/-- non-vacuity: after a key frame the RTMP cache of a caching configuration holds a GOP -/
example : (GopCache.gops (run { rtmpCache := true, rtmpGopNum := 1 } [.addPub, .msg ⟨9, 0, [0x17, 1, 0, 0, 0, 9]⟩]).rtmpGop).length = 1 := by
  decide

end Lal.Props.C02
