import LalModel.Proof.Flv
import LalModel.Proof.Ws
import LalModel.Generated.Consts
/-
  C11 — FLV output (HTTP-FLV, WebSocket-FLV, recordings) is a valid FLV byte stream.
  Property theorems only; helper lemmas live in LalModel/Proof.
  `Gen.flvHeader` is regenerated from /repo on every run.
-/
namespace Lal.Props.C11
open Lal

/-- What lal can hand to `PackHttpflvTag`: a 5-bit tag type (8 audio, 9 video, 18 script),
    `uint32` timestamp, payload shorter than 2^24 (the RTMP message-length limit). -/
def TagWF (x : UInt8 × Nat × Bytes) : Prop :=
  x.1.toNat < 32 ∧ x.2.2.length < 16777216 ∧ x.2.1 < 4294967296

def pack (x : UInt8 × Nat × Bytes) : Bytes := Flv.packTag x.1 x.2.1 x.2.2

/-- A tag lal packs is read back by a conforming FLV parser as the same tag, whatever follows:
    data size, 24+8-bit timestamp, zero stream id and back pointer are mutually consistent. -/
theorem tag_roundtrip_spec (t : UInt8) (ts : Nat) (p r : Bytes)
    (ht : t.toNat < 32) (hl : p.length < 16777216) (hts : ts < 4294967296) :
    FlvSpec.readTag (Flv.packTag t ts p ++ r) = some ({ typ := t, ts := ts, payload := p }, r) :=
  FlvSpec.spec_readTag_packTag t ts p r ht hl hts

/-- …and by lal's own reader (`httpflv.ReadTag`), for every tag type byte. -/
theorem tag_roundtrip_lal (t : UInt8) (ts : Nat) (p r : Bytes)
    (hl : p.length < 16777216) (hts : ts < 4294967296) :
    Flv.readTag (Flv.packTag t ts p ++ r)
      = some ({ typ := t, dataSize := p.length, ts := ts }, Flv.packTag t ts p, r)
    ∧ Flv.payloadOfRaw (Flv.packTag t ts p) = p :=
  ⟨Flv.readTag_packTag t ts p r hl hts, Flv.payloadOfRaw_packTag t ts p⟩

/-- The 13-byte header lal writes followed by any sequence of packed tags is a valid FLV file
    (signature, version 1, audio+video flags, data offset 9, zero first back pointer) whose tags are
    exactly the tags written. Covers HTTP-FLV bodies and recordings. -/
theorem file_roundtrip (tags : List (UInt8 × Nat × Bytes)) (h : ∀ x ∈ tags, TagWF x) :
    FlvSpec.readFile (Gen.flvHeader ++ tags.flatMap pack)
      = some { hasAudio := true, hasVideo := true,
               tags := tags.map fun x => { typ := x.1, ts := x.2.1, payload := x.2.2 } } := by
  have hp : tags.flatMap pack = tags.flatMap (fun x => Flv.packTag x.1 x.2.1 x.2.2) := rfl
  have hr := FlvSpec.readTags_append tags h _ (Nat.le_refl _)
  rw [hp]
  show FlvSpec.readFile (0x46 :: 0x4c :: 0x56 :: 0x01 :: 0x05 :: 0 :: 0 :: 0 :: 9 :: 0 :: 0 :: 0 :: 0 :: _) = _
  simp only [FlvSpec.readFile]
  show (if _ then none else Option.map _ (FlvSpec.readTags (List.flatMap _ tags).length (List.flatMap _ tags))) = _
  rw [hr, if_neg (by decide)]
  simp

/-- Over WebSocket one written unit is one complete FIN, binary, unmasked frame whose declared
    length equals the unit's length, read by an RFC 6455 reader (which insists on the minimal
    length form, so the 7/16/64-bit form is right at 125/126 and 65535/65536). -/
theorem ws_unit_is_one_frame (p r : Bytes) (h : p.length < 9223372036854775808) :
    WsSpec.readFrame ((Ws.subWrite true p).flatten ++ r) = some ({ fin := true, opcode := 2, payload := p }, r) :=
  Ws.readFrame_subWrite p r h

theorem ws_header_form (n : Nat) :
    (Ws.makeFrameHeader (Ws.subHeader n)).length = if n < 126 then 2 else if n ≤ 65535 then 4 else 10 :=
  Ws.subHeader_length n

/-- The concatenated frame payloads of everything written over WebSocket are the concatenation of
    the units, i.e. the same FLV stream a plain HTTP-FLV subscriber receives. -/
theorem ws_stream_is_flv_stream (units : List Bytes) (hl : ∀ u ∈ units, u.length < 9223372036854775808) :
    ∃ frames, WsSpec.readFrames (units.flatMap fun u => (Ws.subWrite true u).flatten).length
                 (units.flatMap fun u => (Ws.subWrite true u).flatten) = some frames
      ∧ (frames.map (·.payload)).flatten = (units.flatMap (Ws.subWrite false)).flatten
      ∧ ∀ f ∈ frames, f.fin = true ∧ f.opcode = 2 := by
  refine ⟨_, Ws.readFrames_units units hl _ (Nat.le_refl _), ?_, ?_⟩
  · clear hl
    induction units with
    | nil => rfl
    | cons u us ih => simpa [Ws.subWrite] using ih
  · intro f hf; simp at hf; obtain ⟨_, _, rfl⟩ := hf; simp

/- Non-vacuity: concrete tags meet the hypotheses, at the boundaries the property names. -/
example : TagWF (9, 0xFFFFFFFF, [1, 2, 3]) ∧ TagWF (18, 0x1000000, []) ∧ TagWF (8, 0xFFFFFF, [0]) := by
  simp [TagWF]
example : FlvSpec.readFile (Gen.flvHeader ++ [((9 : UInt8), 16777216, ([0xAA] : Bytes)), (8, 5, [])].flatMap pack)
    = some { hasAudio := true, hasVideo := true,
             tags := [{ typ := 9, ts := 16777216, payload := [0xAA] }, { typ := 8, ts := 5, payload := [] }] } := by
  decide
example : (Ws.makeFrameHeader (Ws.subHeader 125)).length = 2 ∧ (Ws.makeFrameHeader (Ws.subHeader 126)).length = 4
    ∧ (Ws.makeFrameHeader (Ws.subHeader 65535)).length = 4 ∧ (Ws.makeFrameHeader (Ws.subHeader 65536)).length = 10 := by
  decide

end Lal.Props.C11
