import LalModel.Proof.RtmpServer
import LalModel.Proof.RtmpServerSites
/-
  C04 — no byte sequence from an RTMP peer can terminate the server.
  Property theorems only; helper lemmas live in LalModel/Proof/RtmpServer.lean, the site table in
  LalModel/Proof/RtmpServerSites.lean.

  Model: LalModel/Model/RtmpServer.lean — `ServerSession.RunLoop` of the FIXED tree (lal commits
  "fix: rtmp ServerSession.doUserControl checks the payload length…", "fix: rtmp ServerSession rejects audio/video/data
  messages that arrive before publish…", "fix: rtmp ServerSession refuses a second publish or play on one connection";
  the model of the unfixed code with its panic witnesses is in the history of these files) on top of the composer model
  of C08 (`Chunk.readChunk`) and the AMF0 readers of C18. Go run-time failures are values: `run … = .error site`
  means the process would die; `Final.closed` = RunLoop returned an error and only this connection is closed;
  `Final.alive` = the session consumed every byte the peer sent and waits for more.

  Parameters every theorem quantifies over: HMAC-SHA256 (`hm`), the observer's answers and the first failing
  `conn.Write` (`env`), the time/random bytes of S1 (`s1`), and of course the peer's bytes.
  Fragmentation: the model takes the peer's bytes as one string because the Go code reads only through
  io.ReadAtLeast / io.ReadFull on a bufio.Reader, whose results do not depend on how the bytes arrive (trusted; the
  correspondence runs every stream under several fragmentations).
-/
namespace Lal.Props.C04
open Lal Lal.RtmpServer Lal.Amf0

/-- `rtmp_session_total`: for ALL byte strings a peer can send (before, during and after the handshake, any message
    types, lengths, chunk formats, AMF values), every HMAC function, every observer answer and every write failure,
    the model of `ServerSession.RunLoop` ends without a Go run-time failure — no index/slice out of range, no nil
    observer call, no connection-option panic, no exhausted packer buffer, no AMF stack exhaustion, and the read loop
    terminates (its fuel is never exhausted) — with outcome "this connection closed" or "still serving". -/
theorem rtmp_session_total (hm : Hmac) (env : Env) (s1 inp : Bytes) (hs1 : s1.length = 1536) :
    ∃ o, run hm env s1 inp = .ok o ∧ (o.final = .closed ∨ o.final = .alive) := by
  obtain ⟨o, ho⟩ := run_total hm env s1 inp hs1
  refine ⟨o, ho, ?_⟩
  cases o.final with
  | alive => exact Or.inr rfl
  | closed => exact Or.inl rfl

/-- `handshake_offsets_in_range`: every offset `parseChallenge` / `findDigest` / `makeDigestWithoutCenterPart` /
    `ReadC0C1` compute from peer bytes stays inside its buffer: for all 1537 bytes of C0C1 and every HMAC, `ReadC0C1`
    returns (simple or complex mode), and the two digest positions are at most 1536 − 32. -/
theorem handshake_offsets_in_range (hm : Hmac) (s1 c0c1 : Bytes) (h : c0c1.length = Gen.c04HsC0c1Len) (hs1 : s1.length = 1536) :
    (∃ simple, readC0C1 hm s1 c0c1 = .ok simple) ∧
    (∀ x0 x1 x2 x3 : UInt8, digestOffs x0 x1 x2 x3 8 + Gen.c04HsKeyLen ≤ 771 ∧
       digestOffs x0 x1 x2 x3 (764 + 8) + Gen.c04HsKeyLen ≤ Gen.c04HsC0c1Len - 1) := by
  refine ⟨readC0C1_ok hm s1 c0c1 h hs1, fun x0 x1 x2 x3 => ?_⟩
  have a := digestOffs_le x0 x1 x2 x3 8
  have b := digestOffs_le x0 x1 x2 x3 (764 + 8)
  have hk : Gen.c04HsKeyLen = 32 := by decide
  have hc : Gen.c04HsC0c1Len = 1537 := by decide
  omega

/-- `domsg_total`: in every session state satisfying the invariant, `doMsg` on ANY message (type id, payload) does
    not fail at run time and re-establishes the invariant — hence so does every sequence of callbacks of one chunk
    (aggregate sub-messages included). -/
theorem domsg_total (env : Env) (typ : Nat) (payload : Bytes) (s : Sess) (hI : Inv s) :
    match doMsg env typ payload s with
    | .ok _ s' => Inv s'
    | .err _ => True
    | .panic _ => False := by
  have h := doMsg_safe env typ payload s hI
  cases hx : doMsg env typ payload s with
  | ok a s' => rw [hx] at h; exact h
  | err _ => trivial
  | panic _ => rw [hx] at h; exact h

theorem deliver_total (env : Env) (ms : List Chunk.Msg) (s : Sess) (hI : Inv s) :
    match deliver env ms s with
    | .ok _ s' => Inv s'
    | .err _ => True
    | .panic _ => False := by
  have h := deliver_safe env ms s hI
  cases hx : deliver env ms s with
  | ok a s' => rw [hx] at h; exact h
  | err _ => trivial
  | panic _ => rw [hx] at h; exact h

/-- …per handler, from any state with at least the initial packer capacity (`CI s s`): the handlers that do not
    change the session role keep every connection-level field. -/
theorem handlers_total (env : Env) (typ : Nat) (payload : Bytes) (s : Sess) (hc : Gen.c04PackerInitCap ≤ s.pb.cap) :
    NoPanic (doWinAckSize payload s) ∧ NoPanic (doAck payload s) ∧ NoPanic (doUserControl env payload s) ∧
    NoPanic (doDataMessageAmf0 typ payload s) ∧ NoPanic (doAv typ payload s) ∧ NoPanic (doConnect env payload s) ∧
    NoPanic (doCreateStream env s) ∧ NoPanic (writeAckIfNeeded env s) := by
  have hci : CI s s := CI.refl hc
  have np : ∀ {α} {m : M α}, Safe (CI s) m (fun _ => CI s) → NoPanic (m s) := by
    intro α m hm
    have := hm s hci
    cases hx : m s with
    | ok _ _ => trivial
    | err _ => trivial
    | panic _ => rw [hx] at this; exact this
  exact ⟨np (doWinAckSize_safe payload s), np (doAck_safe payload s), np (doUserControl_safe env payload s),
    np (doData_safe typ payload s), np (doAv_safe typ payload s), np (doConnect_safe env payload s),
    np (doCreateStream_safe env s), np (writeAck_safe env s)⟩

/-- …and the two handlers that change the role (they call `modConnProps`, whose connection options can be set once) -/
theorem publish_play_total (env : Env) (payload : Bytes) (s : Sess) (hI : Inv s) :
    NoPanic (doPublish env payload s) ∧ NoPanic (doPlay env payload s) ∧ NoPanic (doCommandMessage env payload s) ∧
    NoPanic (doCommandAmf3Message env payload s) := by
  have np : ∀ {α} {m : M α}, Safe Inv m (fun _ => Inv) → NoPanic (m s) := by
    intro α m hm
    have := hm s hI
    cases hx : m s with
    | ok _ _ => trivial
    | err _ => trivial
    | panic _ => rw [hx] at this; exact this
  exact ⟨np (doPublish_safe env payload), np (doPlay_safe env payload), np (doCommandMessage_safe env payload),
    np (doCommandMessage_safe env _)⟩

/-- `stack_bounded` (from C18): the AMF0 readers the session calls run within `Amf0MaxNestingDepth − 1` nested
    container frames on every input — neither an index fault nor the stack budget is exhausted — and each session
    callback adds a constant number of frames on top (the handlers do not recurse). -/
theorem stack_bounded (b : Bytes) :
    isPanic (readObject amfLim amfFrames b) = false ∧ isPanic (readString b) = false ∧
    isPanic (readNumber b) = false ∧ isPanic (readNull b) = false ∧ amfFrames + 1 = Gen.amf0MaxDepth :=
  ⟨(readObject_bd amfLim amfFrames b amf_stack).notPanic, (readString_bd b).notPanic, (readNumber_bd b).notPanic,
   readNull_notPanic b, by decide⟩

/-- `packer_total` (S20): the message packer's `Buffer` never overruns — for EVERY sequence of writes of any sizes
    (`Write`, `WriteByte`, `Reset`, `ModWritePos` inside the buffer) from any initial capacity, every operation
    succeeds and the write position stays inside the buffer: `grow` doubles until the write fits (the pinned tree
    doubled once: a write longer than the doubled capacity panicked at the next `Bytes()`). -/
theorem packer_total (cap : Nat) (steps : List PStep) (h : legitSteps cap steps = true) :
    ∃ p', pbufRun { cap := cap, wpos := 0 } steps = .ok p' ∧ isPanic p'.bytesLen = false := by
  obtain ⟨p', h1, h2⟩ := pbufRun_ok steps { cap := cap, wpos := 0 } cap (Nat.le_refl _) (Nat.zero_le _) h
  exact ⟨p', h1, by simp [PBuf.bytesLen, h2, isPanic]⟩

/-- …and every reply the server sends is a fixed script (no peer-controlled string goes through the packer on the
    server side) whose body fits ONE chunk (`LocalChunkSize`), written with a chunk stream id ≤ 63: the single-chunk
    path of `ChunkAndWrite` with its hand-written 12-byte header is the only one taken. -/
theorem replies_single_chunk (p : PBuf) (hc : Gen.c04PackerInitCap ≤ p.cap) (script : List WOp)
    (hs : script ∈ [scriptCtl4, scriptPeerBandwidth, scriptUserControl, scriptConnectResult, scriptCreateStreamResult,
      scriptOnStatusPublish, scriptOnStatusPlay]) :
    okScript script = true ∧
    ∃ p', ({ p with wpos := 12 } : PBuf).run script = .ok p' ∧ p.cap ≤ p'.cap ∧ p'.wpos ≤ p'.cap ∧
      p'.wpos = 12 + scriptTotal script ∧ scriptTotal script ≤ Gen.c04LocalChunkSize := by
  have hok : okScript script = true := by
    simp only [List.mem_cons, List.mem_nil_iff, or_false] at hs
    rcases hs with h | h | h | h | h | h | h <;> subst h
    · exact ok_ctl4
    · exact ok_bw
    · exact ok_uc
    · exact ok_connectResult
    · exact ok_createStreamResult
    · exact ok_onStatusPublish
    · exact ok_onStatusPlay
  refine ⟨hok, ?_⟩
  simp only [okScript, Bool.and_eq_true, decide_eq_true_eq] at hok
  obtain ⟨htot, h12⟩ := hok
  have hK : K = Gen.c04PackerInitCap := rfl
  obtain ⟨p', h1, h2, h3, h4⟩ := PBuf.run_ok script { p with wpos := 12 } (by show 12 ≤ p.cap; omega)
  exact ⟨p', h1, h2, h3, h4, htot⟩

theorem reply_csids_single_byte :
    Gen.c04CsidProtocolControl ≤ 63 ∧ Gen.c04CsidOverConnection ≤ 63 ∧ Gen.c04CsidOverStream ≤ 63 := by decide

/-- the constants the model hard-codes are the ones in the source (regenerated on every run) -/
theorem constants_as_modelled :
    Gen.c04TypeIdWinAckSize = 5 ∧ Gen.c04TypeIdSetChunkSize = 1 ∧ Gen.c04TypeIdCommandMessageAmf0 = 20 ∧
    Gen.c04TypeIdCommandMessageAmf3 = 17 ∧ Gen.c04TypeIdMetadata = 18 ∧ Gen.c04TypeIdAck = 3 ∧
    Gen.c04TypeIdUserControl = 4 ∧ Gen.c04TypeIdAudio = 8 ∧ Gen.c04TypeIdVideo = 9 ∧ Gen.c04TypeIdAggregateMessage = 22 ∧
    Gen.c04TypeIdBandwidth = 6 ∧ Gen.c04HsC0c1Len = 1537 ∧ Gen.c04HsC2Len = 1536 ∧ Gen.c04HsS0s1s2Len = 3073 ∧
    Gen.c04HsS2Len = 1536 ∧ Gen.c04HsKeyLen = 32 ∧ Gen.c04HsClientPartKeyLen = clientPartKey.length ∧
    Gen.c04HsServerPartKeyLen = serverPartKey.length ∧ Gen.c04HsServerFullKeyLen = serverFullKey.length ∧
    Gen.c04LocalChunkSize = Gen.localChunkSize ∧ 0 < Gen.c04WChanSize ∧ 12 ≤ Gen.c04PackerInitCap := by decide

set_option maxRecDepth 100000 in
/-- `sites_covered`: every index / slice / fixed-width read / type assertion / explicit panic / division / interface
    call / connection-option site that go/ast finds in the modelled functions of the CURRENT lal tree is in the
    hand-maintained table `coveredSites` with the same number of occurrences. -/
theorem sites_covered : sitesCovered Gen.c04Sites = true := by decide

/-! ### Non-vacuity and the defects this property found (fixed tree: each now closes the connection) -/

/-- a session right after the handshake -/
def fresh : Sess := { nwrites := 1, readSum := 3073 }
/-- a publisher whose observer registered for A/V data -/
def publisher : Sess := { fresh with role := .pub, avObs := true, queued := true, readTo := true }

example : Inv fresh ∧ Inv publisher := ⟨⟨by decide, fun _ => ⟨rfl, rfl, rfl⟩⟩, ⟨by decide, fun h => by cases h⟩⟩

def isErr {α} : R α → Bool
  | .err _ => true
  | _ => false
def isOk {α} : R α → Bool
  | .ok _ _ => true
  | _ => false

/-- S5a: a User Control message of 0 or 1 bytes, a ping request with 3 of its 4 timestamp bytes: were index panics -/
example : isErr (doMsg {} 4 [] fresh) = true ∧ isErr (doMsg {} 4 [0] fresh) = true ∧ isErr (doMsg {} 4 [0, 6, 1, 2, 3] fresh) = true := by
  decide
/-- …the complete ping request is answered -/
example : (match doMsg {} 4 [0, 6, 1, 2, 3, 4] fresh with | .ok _ s => s.evs | _ => []) = [.reply 4 18 false] := by decide
/-- S5b: audio / video before publish: was a nil-observer panic -/
example : isErr (doMsg {} 8 [0xaf, 1] fresh) = true ∧ isErr (doMsg {} 9 [] fresh) = true := by decide
/-- …and is delivered to the observer of a publisher -/
example : (match doMsg {} 9 [0x17, 0, 0, 0, 0] publisher with | .ok _ s => s.evs | _ => []) = [.av 9 5] := by decide
/-- second publish / play on one connection: was a panic in naza connection.ModWriteChanSize -/
def cmdPublish : Bytes := [2, 0, 7] ++ sPublish ++ [0, 0x40, 8, 0, 0, 0, 0, 0, 0, 5, 2, 0, 1, 0x73]
def cmdPlay : Bytes := [2, 0, 4] ++ sPlay ++ [0, 0x40, 8, 0, 0, 0, 0, 0, 0, 5, 2, 0, 1, 0x73]
example : isErr (doMsg {} 20 cmdPublish publisher) = true ∧ isErr (doMsg {} 20 cmdPlay publisher) = true := by decide
/-- …the first publish succeeds: status reply, role, queue, observer -/
example : (match doMsg {} 20 cmdPublish fresh with | .ok _ s => (s.role, s.avObs, s.queued, s.evs) | _ => (.unknown, false, false, [])) =
    (.pub, true, true, [.newPub, .reply 20 117 false]) := by decide
/-- …refused by the observer: the connection is closed after the status reply -/
example : isErr (doMsg { pubMode := 1 } 20 cmdPublish fresh) = true := by decide

/-- S20: the write that overran the packer buffer of the pinned tree (12 + 737 > 2·256) now grows it to 1024 -/
example : ({ cap := 256, wpos := 12 } : PBuf).run [.w 737, .w 1] = .ok { cap := 1024, wpos := 750 } := by decide
example : legitSteps 256 [.modWritePos 12, .op (.w 737), .op .b, .reset, .modWritePos 12, .op (.w 100000)] = true := by decide
example : scriptTotal scriptConnectResult + 12 = 214 + Gen.c04ConnectResultVersionLen := by decide

/-- a complete stream: simple handshake, then a 1-byte User Control message — closed, not dead -/
def tinyStream : Bytes := 3 :: List.replicate 3072 0 ++ [2, 0, 0, 0, 0, 0, 1, 4, 0, 0, 0, 0, 0]
set_option maxRecDepth 1000000 in
example : (match run (fun _ _ => []) {} (List.replicate 1536 0) tinyStream with
    | .ok o => some (o.final, o.hs, o.evs) | .error _ => none) = some (.closed, 1, []) := by decide
/-- …and with the ping request complete: answered, still serving -/
def pingStream : Bytes := 3 :: List.replicate 3072 0 ++ [2, 0, 0, 0, 0, 0, 6, 4, 0, 0, 0, 0, 0, 6, 0, 0, 0, 9]
set_option maxRecDepth 1000000 in
example : (match run (fun _ _ => []) {} (List.replicate 1536 0) pingStream with
    | .ok o => some (o.final, o.hs, o.evs) | .error _ => none) = some (.alive, 1, [.reply 4 18 false]) := by decide

end Lal.Props.C04
