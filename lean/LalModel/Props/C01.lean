import LalModel.Proof.GroupRtmp
import LalModel.Proof.GroupFlv
import LalModel.Proof.GroupRecord
import LalModel.Props.C08
import LalModel.Props.C11
/-
  C01 — Live relay delivers the publisher's messages intact to RTMP/FLV consumers.
  Property theorems only. `Group.run cfg evs` is the model of logic.Group on the event list `evs`
  (each event = one critical section of the Go: publisher admitted / gone, one message from the
  input, a subscriber joining / leaving), tied to /repo by the correspondence check against a real
  logic.Group. `bytes .rtmp id` is everything written to RTMP subscriber `id`'s connection.
  The byte-level facts compose with C08 (`enc_dec_spec`: a specification reader decodes
  `chunksWithoutSdf` output into the message) and C11.
-/
namespace Lal.Props.C01
open Lal Lal.Group

/-- Every RTMP subscriber present in any reachable state — whatever the publish sequence, the join and
    leave instants of any number of subscribers of every kind, publisher changes, GOP-cache sizes,
    per-GOP frame caps and merge-write size — has been written exactly: its start-up prologue (the
    bytes recorded when it stopped being fresh) followed by the serialisation of ONE CONTIGUOUS
    SLICE `pubLog[a..b)` of the publisher's non-empty messages, in order, nothing duplicated and
    nothing skipped. `b` is the whole log when merge writing is off, and otherwise everything up to
    what the merge writer still holds. -/
theorem rtmp_sub_contiguous (cfg : Cfg) (evs : List Ev) :
    let s := run cfg evs
    ∀ x ∈ s.rtmpSubs, ∃ a b, a ≤ b ∧ b ≤ s.pubLog.length ∧
      s.bytes .rtmp x.id = (if x.fresh then [] else x.pro.flatten) ++ bytesOf (Group.slice s.pubLog a b) ∧
      (cfg.mergeSize = 0 → x.fresh = false → x.waitKey = false → b = s.pubLog.length) := by
  intro s x hx
  have hI := run_inv cfg evs
  have ok := hI.subs x hx (by simp)
  have hcfg : s.cfg = cfg := run_cfg cfg evs
  by_cases hf : x.fresh = true
  · refine ⟨0, 0, Nat.le_refl _, Nat.zero_le _, ?_, ?_⟩
    · simp [hf, Group.slice, bytesOf]; exact (ok.fresh_ hf).1
    · intro _ h; rw [hf] at h; cases h
  · have hf' : x.fresh = false := by simpa using hf
    cases hs : x.start with
    | none =>
      obtain ⟨hw, hb⟩ := ok.wait_ hf' hs
      refine ⟨0, 0, Nat.le_refl _, Nat.zero_le _, ?_, ?_⟩
      · simp [hf', Group.slice, bytesOf]; exact hb
      · intro _ _ h; rw [hw] at h; cases h
    | some a =>
      obtain ⟨hw, hle, hb⟩ := ok.live_ hf' a hs
      refine ⟨a, s.D, hle, D_le s hI, ?_, ?_⟩
      · simp [hf']; exact hb
      · intro hm _ _; simp [St.D, hcfg, hm]

/-- Every HTTP-FLV / WebSocket-FLV subscriber present in any reachable state has been written exactly:
    the FLV header, its start-up prologue (cached metadata / sequence headers / GOPs as FLV tags) and the
    tags of ONE CONTIGUOUS SLICE `pubLog[a..b)` of the publisher's non-empty messages, each unit being
    one write (`wrap`: raw bytes, or one complete WebSocket binary frame — C11). Once the subscriber is
    live (neither fresh nor waiting for a key frame) the slice reaches the end of the log: nothing
    trails, nothing is skipped, nothing is duplicated. -/
theorem flv_sub_contiguous (cfg : Cfg) (evs : List Ev) :
    let s := run cfg evs
    ∀ x ∈ s.flvSubs, ∃ a b, a ≤ b ∧ b ≤ s.pubLog.length ∧
      s.bytes (fkind x) x.id = wrap x.ws Gen.flvHeader ++ (if x.fresh then [] else wrapAll x.ws x.pro) ++
        tagsOf x.ws (Group.slice s.pubLog a b) ∧
      (x.fresh = false → x.waitKey = false → b = s.pubLog.length) := by
  intro s x hx
  have hI := (frun_inv cfg evs).1
  have ok := hI.subs x hx
  simp only [List.not_mem_nil, if_false] at ok
  by_cases hf : x.fresh = true
  · refine ⟨0, 0, Nat.le_refl _, Nat.zero_le _, ?_, ?_⟩
    · simp [hf, Group.slice, tagsOf, wrapAll]; exact (ok.fresh_ hf).1
    · intro h; rw [hf] at h; cases h
  · have hf' : x.fresh = false := by simpa using hf
    cases hs : x.start with
    | none =>
      obtain ⟨hw, hb⟩ := ok.wait_ hf' hs
      refine ⟨0, 0, Nat.le_refl _, Nat.zero_le _, ?_, ?_⟩
      · simp [hf', Group.slice, tagsOf, wrapAll]; simpa [wrapAll] using hb
      · intro _ h; rw [hw] at h; cases h
    | some a =>
      obtain ⟨hw, hle, hb⟩ := ok.live_ hf' a hs
      refine ⟨a, s.pubLog.length, hle, Nat.le_refl _, ?_, fun _ _ => rfl⟩
      simp [hf']; simpa [List.append_assoc] using hb

/-- The publish log the two theorems above speak about IS the publisher's messages: exactly the
    messages of the event list that arrive while a publisher is accepted and have a non-empty payload,
    in order (`publishedOf` is defined on the event list alone, independently of the model). -/
theorem pubLog_is_published (cfg : Cfg) (evs : List Ev) :
    (run cfg evs).pubLog = (publishedOf evs).2 := by
  have := run_published cfg evs
  exact congrArg Prod.snd this

/-- the message an RTMP consumer must decode for a published message: default chunk-stream id by type,
    message stream id 1, same type, same millisecond timestamp, same payload except for the leading
    @setDataFrame string of metadata -/
def asChunkMsg (m : InMsg) : Chunk.Msg :=
  { hdr := defaultHeader m.typ m.ts (withoutSdf m.typ m.payload).length, payload := withoutSdf m.typ m.payload }

/-- what lal can be handed by a publisher and forwards: audio / video / metadata, payload non-empty
    after the @setDataFrame rule, RTMP message-length and timestamp ranges -/
def LiveWF (m : InMsg) : Prop :=
  (m.typ = 8 ∨ m.typ = 9 ∨ m.typ = 18) ∧ withoutSdf m.typ m.payload ≠ [] ∧
  (withoutSdf m.typ m.payload).length < 16777216 ∧ m.ts < 4294967296

/-- Composition with C08: the live part of an RTMP subscriber's byte stream is decoded by the RTMP
    specification reader (chunk size = lal's `LocalChunkSize`) into exactly the published messages —
    same order, byte-identical payloads, identical timestamps. -/
theorem live_part_decodes_rtmp (l : List InMsg) (h : ∀ m ∈ l, LiveWF m) :
    ChunkSpec.read Gen.localChunkSize (bytesOf l) = some (l.map fun m => ChunkEnc.toSpec (asChunkMsg m)) := by
  have hwf : ∀ x ∈ l.map asChunkMsg, Props.C08.MsgWF x := by
    intro x hx
    obtain ⟨m, hm, rfl⟩ := List.mem_map.mp hx
    obtain ⟨ht, hne, hlen, hts⟩ := h m hm
    refine ⟨⟨rfl, hlen, hts, ?_, ?_, ?_, ?_, ?_⟩, hne⟩
    all_goals (simp only [asChunkMsg, defaultHeader]; rcases ht with h | h | h <;> simp [h])
  have := Props.C08.enc_dec_spec Gen.localChunkSize (by decide) (l.map asChunkMsg) hwf
  simp only [List.flatMap_map, List.map_map] at this
  have e : bytesOf l = l.flatMap (fun m => Props.C08.enc Gen.localChunkSize (asChunkMsg m)) := by
    simp only [bytesOf, List.flatMap, Props.C08.enc, asChunkMsg]
    rfl
  rw [e]; exact this

/-- the message a relay-push target must decode for a published message: as `asChunkMsg`, but metadata carries the
    leading @setDataFrame string (added when the publisher did not send it) -/
def asPushMsg (m : InMsg) : Chunk.Msg :=
  { hdr := defaultHeader m.typ m.ts (withSdf m.typ m.payload).length, payload := withSdf m.typ m.payload }

def PushWF (m : InMsg) : Prop :=
  (m.typ = 8 ∨ m.typ = 9 ∨ m.typ = 18) ∧ withSdf m.typ m.payload ≠ [] ∧
  (withSdf m.typ m.payload).length < 16777216 ∧ m.ts < 4294967296

/-- Relay push (the @setDataFrame form, `LazyRtmpChunkDivider.GetEnsureWithSdf`): the chunks lal writes to a push
    target for any list of published messages are decoded by the RTMP specification reader into exactly those messages,
    metadata with its @setDataFrame prefix, the announced message length being the length of the payload sent. (The
    `lazy.msg` op ties `chunksWithSdf` to the real type on every run.) -/
theorem push_form_decodes (l : List InMsg) (h : ∀ m ∈ l, PushWF m) :
    ChunkSpec.read Gen.localChunkSize (l.flatMap chunksWithSdf) = some (l.map fun m => ChunkEnc.toSpec (asPushMsg m)) := by
  have hwf : ∀ x ∈ l.map asPushMsg, Props.C08.MsgWF x := by
    intro x hx
    obtain ⟨m, hm, rfl⟩ := List.mem_map.mp hx
    obtain ⟨ht, hne, hlen, hts⟩ := h m hm
    refine ⟨⟨rfl, hlen, hts, ?_, ?_, ?_, ?_, ?_⟩, hne⟩
    all_goals (simp only [asPushMsg, defaultHeader]; rcases ht with h | h | h <;> simp [h])
  have := Props.C08.enc_dec_spec Gen.localChunkSize (by decide) (l.map asPushMsg) hwf
  simp only [List.flatMap_map, List.map_map] at this
  have e : l.flatMap chunksWithSdf = l.flatMap (fun m => Props.C08.enc Gen.localChunkSize (asPushMsg m)) := by
    simp only [List.flatMap, Props.C08.enc, asPushMsg, chunksWithSdf]
    rfl
  rw [e]; exact this

/-- non-vacuity: a metadata message that starts directly with `onMetaData` is such a message, and its push form begins
    with the added @setDataFrame string -/
example : (withSdf 18 [2, 0, 10, 111, 110, 77, 101, 116, 97, 68, 97, 116, 97, 5]).take 16 =
    [2, 0, 13, 64, 115, 101, 116, 68, 97, 116, 97, 70, 114, 97, 109, 101] := by decide

/-- Composition with C11: the tags of the live part of an HTTP-FLV subscriber's stream are read by the
    FLV specification reader as exactly the published messages. -/
theorem live_part_decodes_flv (l : List InMsg) (h : ∀ m ∈ l, LiveWF m) :
    FlvSpec.readTags (tagsOf false l).length (tagsOf false l) =
      some (l.map fun m => { typ := b8 m.typ, ts := m.ts, payload := withoutSdf m.typ m.payload }) := by
  have hwf : ∀ x ∈ l.map (fun m => (b8 m.typ, m.ts, withoutSdf m.typ m.payload)),
      x.1.toNat < 32 ∧ x.2.2.length < 16777216 ∧ x.2.1 < 4294967296 := by
    intro x hx
    obtain ⟨m, hm, rfl⟩ := List.mem_map.mp hx
    obtain ⟨ht, _, hlen, hts⟩ := h m hm
    refine ⟨?_, hlen, hts⟩
    rcases ht with h | h | h <;> simp [h, b8]
  have := FlvSpec.readTags_append _ hwf _ (Nat.le_refl _)
  have e : tagsOf false l = (l.map (fun m => (b8 m.typ, m.ts, withoutSdf m.typ m.payload))).flatMap
      (fun x => Flv.packTag x.1 x.2.1 x.2.2) := by
    simp [tagsOf, wrapAll, wrap, Ws.subWrite, tagWithoutSdf, List.flatMap, List.map_map, Function.comp_def]
  rw [e]
  simpa [List.map_map, Function.comp_def] using this

/-- Every FLV recording, in any reachable state, is the 13-byte FLV header followed by the tags of ONE
    CONTIGUOUS SLICE of the publish log — for the recording that is being written the slice reaches the
    end of the log (nothing trails); a recording index not yet used holds nothing. By C11
    (`file_roundtrip`) such a file is read back by an FLV parser as exactly those tags. -/
theorem recording_contiguous (cfg : Cfg) (evs : List Ev) :
    let s := run cfg evs
    (∀ i, i < s.nextRecord → ∃ a b, a ≤ b ∧ b ≤ s.pubLog.length ∧
        s.bytes .record i = Gen.flvHeader ++ rawTags (Group.slice s.pubLog a b) ∧
        (s.recording = some i → b = s.pubLog.length)) ∧
    (∀ i, i ≥ s.nextRecord → s.bytes .record i = []) := by
  intro s
  have h := rrun_inv cfg evs
  refine ⟨?_, h.future⟩
  intro i hi
  by_cases hc : s.recording = some i
  · obtain ⟨_, a, ha, hb⟩ := h.open_ i hc
    exact ⟨a, s.pubLog.length, ha, Nat.le_refl _, hb, fun _ => rfl⟩
  · obtain ⟨a, b, h1, h2, h3⟩ := h.closed i hi hc
    exact ⟨a, b, h1, h2, h3, fun e => absurd e hc⟩

/-- zero-length messages are not forwarded (and change nothing) -/
theorem zero_len_dropped (s : St) (typ ts : Nat) : broadcast s { typ := typ, ts := ts, payload := [] } = s := by
  simp [broadcast]

end Lal.Props.C01
