import LalModel.Proof.GroupRtmp
/-
  C01 — Live relay delivers the publisher's messages intact to RTMP/FLV consumers.
  Property theorems only. `Group.run cfg evs` is the model of logic.Group on the event list `evs`
  (each event = one critical section of the Go: publisher admitted / gone, one message from the
  input, a subscriber joining / leaving), tied to /repo by the correspondence check against a real
  logic.Group. `bytes .rtmp id` is everything written to RTMP subscriber `id`'s connection.
  The byte-level facts compose with C08 (`enc_dec_spec`: a specification reader decodes
  `chunksWithoutSdf` output into the message) and C11.
-/
namespace Lal.Props.C01
open Lal Lal.Group

/-- Every RTMP subscriber present in any reachable state — whatever the publish sequence, the join and
    leave instants of any number of subscribers of every kind, publisher changes, GOP-cache sizes,
    per-GOP frame caps and merge-write size — has been written exactly: its start-up prologue (the
    bytes recorded when it stopped being fresh) followed by the serialisation of ONE CONTIGUOUS
    SLICE `pubLog[a..b)` of the publisher's non-empty messages, in order, nothing duplicated and
    nothing skipped. `b` is the whole log when merge writing is off, and otherwise everything up to
    what the merge writer still holds. -/
theorem rtmp_sub_contiguous (cfg : Cfg) (evs : List Ev) :
    let s := run cfg evs
    ∀ x ∈ s.rtmpSubs, ∃ a b, a ≤ b ∧ b ≤ s.pubLog.length ∧
      s.bytes .rtmp x.id = (if x.fresh then [] else x.pro.flatten) ++ bytesOf (Group.slice s.pubLog a b) ∧
      (cfg.mergeSize = 0 → x.fresh = false → x.waitKey = false → b = s.pubLog.length) := by
  intro s x hx
  have hI := run_inv cfg evs
  have ok := hI.subs x hx (by simp)
  have hcfg : s.cfg = cfg := run_cfg cfg evs
  by_cases hf : x.fresh = true
  · refine ⟨0, 0, Nat.le_refl _, Nat.zero_le _, ?_, ?_⟩
    · simp [hf, Group.slice, bytesOf]; exact (ok.fresh_ hf).1
    · intro _ h; rw [hf] at h; cases h
  · have hf' : x.fresh = false := by simpa using hf
    cases hs : x.start with
    | none =>
      obtain ⟨hw, hb⟩ := ok.wait_ hf' hs
      refine ⟨0, 0, Nat.le_refl _, Nat.zero_le _, ?_, ?_⟩
      · simp [hf', Group.slice, bytesOf]; exact hb
      · intro _ _ h; rw [hw] at h; cases h
    | some a =>
      obtain ⟨hw, hle, hb⟩ := ok.live_ hf' a hs
      refine ⟨a, s.D, hle, D_le s hI, ?_, ?_⟩
      · simp [hf']; exact hb
      · intro hm _ _; simp [St.D, hcfg, hm]

/-- zero-length messages are not forwarded (and change nothing) -/
theorem zero_len_dropped (s : St) (typ ts : Nat) : broadcast s { typ := typ, ts := ts, payload := [] } = s := by
  simp [broadcast]

end Lal.Props.C01
