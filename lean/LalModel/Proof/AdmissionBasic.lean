import LalModel.Proof.AdmissionGrp
/- C03 — how the elementary state updates of the server model act on `groups`, `sess`, `log`, `code`. -/
namespace Lal.Adm
namespace Srv

@[simp] theorem setG_groups (s : Srv) (st : Stream) (g : Grp) (k : Stream) :
    (s.setG st g).groups k = if k = st then some g else s.groups k := rfl
@[simp] theorem setG_sess (s : Srv) (st : Stream) (g : Grp) : (s.setG st g).sess = s.sess := rfl
@[simp] theorem setG_log (s : Srv) (st : Stream) (g : Grp) : (s.setG st g).log = s.log := rfl

@[simp] theorem eraseG_groups (s : Srv) (st : Stream) (k : Stream) :
    (s.eraseG st).groups k = if k = st then none else s.groups k := rfl
@[simp] theorem eraseG_sess (s : Srv) (st : Stream) : (s.eraseG st).sess = s.sess := rfl
@[simp] theorem eraseG_log (s : Srv) (st : Stream) : (s.eraseG st).log = s.log := rfl

@[simp] theorem setS_groups (s : Srv) (x : Sid) (v : Sess) : (s.setS x v).groups = s.groups := rfl
@[simp] theorem setS_sess (s : Srv) (x : Sid) (v : Sess) (k : Sid) :
    (s.setS x v).sess k = if k = x then some v else s.sess k := rfl
@[simp] theorem setS_log (s : Srv) (x : Sid) (v : Sess) : (s.setS x v).log = s.log := rfl

@[simp] theorem note_groups (s : Srv) (k : NKind) (x : Sid) : (s.note k x).groups = s.groups := rfl
@[simp] theorem note_sess (s : Srv) (k : NKind) (x : Sid) : (s.note k x).sess = s.sess := rfl
@[simp] theorem note_log (s : Srv) (k : NKind) (x : Sid) : (s.note k x).log = s.log ++ [⟨k, x⟩] := rfl

@[simp] theorem noteRelay_groups (s : Srv) (l : List GObs) : (s.noteRelay l).groups = s.groups := by
  induction l generalizing s with
  | nil => rfl
  | cons o r ih => cases o <;> simp [noteRelay, ih]

@[simp] theorem noteRelay_sess (s : Srv) (l : List GObs) : (s.noteRelay l).sess = s.sess := by
  induction l generalizing s with
  | nil => rfl
  | cons o r ih => cases o <;> simp [noteRelay, ih]

@[simp] theorem spawned_groups (s : Srv) (st : Stream) (r : Bool) (a : Option Sid) :
    (s.spawned st r a).groups = s.groups := by cases a <;> rfl
@[simp] theorem spawned_log (s : Srv) (st : Stream) (r : Bool) (a : Option Sid) :
    (s.spawned st r a).log = s.log := by cases a <;> rfl

@[simp] theorem modR_groups (s : Srv) (c : Sid) (f : RConn → RConn) : (s.modR c f).groups = s.groups := by
  unfold modR; split <;> rfl
@[simp] theorem modR_log (s : Srv) (c : Sid) (f : RConn → RConn) : (s.modR c f).log = s.log := by
  unfold modR; split <;> rfl
@[simp] theorem modSP_groups (s : Srv) (c : Sid) (f : SPub → SPub) : (s.modSP c f).groups = s.groups := by
  unfold modSP; split <;> rfl
@[simp] theorem modSP_log (s : Srv) (c : Sid) (f : SPub → SPub) : (s.modSP c f).log = s.log := by
  unfold modSP; split <;> rfl
@[simp] theorem modSS_groups (s : Srv) (c : Sid) (f : SSub → SSub) : (s.modSS c f).groups = s.groups := by
  unfold modSS; split <;> rfl
@[simp] theorem modSS_log (s : Srv) (c : Sid) (f : SSub → SSub) : (s.modSS c f).log = s.log := by
  unfold modSS; split <;> rfl
@[simp] theorem modC_groups (s : Srv) (c : Sid) (f : Cust → Cust) : (s.modC c f).groups = s.groups := by
  unfold modC; split <;> rfl
@[simp] theorem modC_log (s : Srv) (c : Sid) (f : Cust → Cust) : (s.modC c f).log = s.log := by
  unfold modC; split <;> rfl
@[simp] theorem modP_groups (s : Srv) (c : Sid) (f : Pull → Pull) : (s.modP c f).groups = s.groups := by
  unfold modP; split <;> rfl
@[simp] theorem modP_log (s : Srv) (c : Sid) (f : Pull → Pull) : (s.modP c f).log = s.log := by
  unfold modP; split <;> rfl

end Srv

/-- a property of every group of the server -/
def AllG (P : Grp → Prop) (s : Srv) : Prop := ∀ st g, s.groups st = some g → P g

theorem AllG.setG {P : Grp → Prop} {s : Srv} (h : AllG P s) (st : Stream) {g : Grp} (hg : P g) : AllG P (s.setG st g) := by
  intro k g' hk
  simp at hk
  split at hk
  · cases hk; exact hg
  · exact h k g' hk

theorem AllG.eraseG {P : Grp → Prop} {s : Srv} (h : AllG P s) (st : Stream) : AllG P (s.eraseG st) := by
  intro k g' hk
  simp at hk
  exact h k g' hk.2

theorem AllG.of_groups_eq {P : Grp → Prop} {s s' : Srv} (h : AllG P s) (e : s'.groups = s.groups) : AllG P s' := by
  intro k g hk; rw [e] at hk; exact h k g hk

theorem AllG.getOrCreate {P : Grp → Prop} {s : Srv} (h : AllG P s) (h0 : P {}) (st : Stream) : P (s.getOrCreate st) := by
  unfold Srv.getOrCreate
  cases hg : s.groups st with
  | none => exact h0
  | some g => exact h st g hg

end Lal.Adm
