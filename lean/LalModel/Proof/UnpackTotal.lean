import LalModel.Proof.Total
import LalModel.Proof.RtpTotal
import LalModel.Model.RtpUnpack
/-
  C13: `RtpUnpackContainer.Feed` with any of the three unpacker protocols never panics on packets that
  `ParseRtpHeader` accepted, whatever the clock rate, the list size and the packets already waiting.
  Invariant of the waiting list: every packet has a non-empty body in range (`HdrOk`), and the position type
  `CalcPositionIfNeeded` gave it is consistent with the body length.
-/
namespace Lal.RtpUnpack
open Lal Lal.Rtp

theorem body_withPos (p : RtpPacket) (k : Nat) : ({ p with pos := k } : RtpPacket).body = p.body := rfl

/-- the value `rtpTimestamp2Ms` returns (it never fails) -/
def tsMsV (rate : Int) (ts : Nat) : Nat := if rate ≤ 0 then ts else ts * 1000 / rate.toNat

theorem tsMs_val (rate : Int) (ts : Nat) : tsMs rate ts = .ok (tsMsV rate ts) := by
  unfold tsMs tsMsV; split <;> rfl

theorem tsMs_ok' (rate : Int) (ts : Nat) : ∃ v, tsMs rate ts = .ok v := ⟨_, tsMs_val rate ts⟩

/-- the one division of `rtpTimestamp2Ms`, `uint64(ts)*1000/uint64(clockRate)`, runs behind the `clockRate <= 0` guard:
    the divisor is positive (and `uint64` of a positive Go int is that int) ... -/
theorem tsMs_divisor_pos (rate : Int) (h : ¬ rate ≤ 0) : 0 < rate.toNat := by omega

/-- ... and the dividend of a 32-bit RTP timestamp does not wrap in 64 bits, so `tsMs`'s `Nat` arithmetic is the Go arithmetic -/
theorem tsMs_dividend_lt (ts : Nat) (h : ts < 4294967296) : ts * 1000 < 18446744073709551616 := by omega

/-- position type consistent with the body length -/
def PosOk (hevc : Bool) (p : RtpPacket) (b : Bytes) : Prop :=
  ((p.pos = 2 ∨ p.pos = 3 ∨ p.pos = 4) → (if hevc then 3 else 2) ≤ b.length) ∧ (p.pos = 6 → 2 ≤ b.length)

/-- a packet as it sits in the list of an AVC/HEVC unpacker -/
def Good (hevc : Bool) (p : RtpPacket) : Prop := ∃ b, p.body = .ok b ∧ 0 < b.length ∧ PosOk hevc p b

/-- a packet as it sits in the list of an AAC / raw unpacker -/
def GoodB (p : RtpPacket) : Prop := ∃ b, p.body = .ok b ∧ 0 < b.length

theorem fuPos_cases (fh : UInt8) : fuPos fh = 2 ∨ fuPos fh = 3 ∨ fuPos fh = 4 := by
  unfold fuPos; split; · left; rfl
  split; · right; right; rfl
  right; left; rfl

theorem calcPositionAvc_good (p : RtpPacket) (b : Bytes) (hb : p.body = .ok b) (h0 : 0 < b.length) (hp : p.pos = 0) :
    ∃ p', calcPositionAvc p = .ok p' ∧ p'.hdr = p.hdr ∧ Good false p' := by
  unfold calcPositionAvc
  simp only [hb, bind, Except.bind, pure, Except.pure]
  rw [if_neg (by omega), idx?_ok (by omega)]
  dsimp only
  split
  · exact ⟨_, rfl, rfl, b, by rw [body_withPos]; exact hb, h0, by constructor <;> intro h <;> simp at h⟩
  · split
    · split
      · exact ⟨_, rfl, rfl, b, hb, h0, by constructor <;> intro h <;> simp [hp] at h⟩
      · rw [idx?_ok (by omega)]
        refine ⟨_, rfl, rfl, b, by rw [body_withPos]; exact hb, h0, ?_⟩
        constructor
        · intro _; simp only [Bool.false_eq_true, if_false]; omega
        · intro h; rcases fuPos_cases b[1] with h2 | h2 | h2 <;> simp [h2] at h
    · split
      · exact ⟨_, rfl, rfl, b, by rw [body_withPos]; exact hb, h0, by constructor <;> intro h <;> simp at h⟩
      · exact ⟨_, rfl, rfl, b, hb, h0, by constructor <;> intro h <;> simp [hp] at h⟩

theorem calcPositionHevc_good (p : RtpPacket) (b : Bytes) (hb : p.body = .ok b) (h0 : 0 < b.length) (hp : p.pos = 0) :
    ∃ p', calcPositionHevc p = .ok p' ∧ p'.hdr = p.hdr ∧ Good true p' := by
  unfold calcPositionHevc
  simp only [hb, bind, Except.bind, pure, Except.pure]
  rw [if_neg (by omega), idx?_ok (by omega)]
  dsimp only
  split
  · exact ⟨_, rfl, rfl, b, by rw [body_withPos]; exact hb, h0, by constructor <;> intro h <;> simp at h⟩
  · split
    · split
      · exact ⟨_, rfl, rfl, b, hb, h0, by constructor <;> intro h <;> simp [hp] at h⟩
      · rw [idx?_ok (by omega)]
        refine ⟨_, rfl, rfl, b, by rw [body_withPos]; exact hb, h0, ?_⟩
        constructor
        · intro _; simp only [if_true]; omega
        · intro h; rcases fuPos_cases b[2] with h2 | h2 | h2 <;> simp [h2] at h
    · split
      · split
        · exact ⟨_, rfl, rfl, b, hb, h0, by constructor <;> intro h <;> simp [hp] at h⟩
        · refine ⟨_, rfl, rfl, b, by rw [body_withPos]; exact hb, h0, ?_⟩
          constructor
          · intro h; simp at h
          · intro _; omega
      · exact ⟨_, rfl, rfl, b, hb, h0, by constructor <;> intro h <;> simp [hp] at h⟩


theorem fuCollect_sub : ∀ (l : List RtpPacket) (prev : Nat) (more rest : List RtpPacket),
    fuCollect prev l = some (more, rest) →
    (∀ p ∈ more, p ∈ l ∧ (p.pos = 3 ∨ p.pos = 4)) ∧ (∀ p ∈ rest, p ∈ l) := by
  intro l
  induction l with
  | nil => intro prev more rest h; simp [fuCollect] at h
  | cons q l ih =>
    intro prev more rest h
    unfold fuCollect at h
    split at h; · cases h
    split at h
    · rename_i h3
      cases hr : fuCollect q.hdr.seq l with
      | none => rw [hr] at h; simp at h
      | some r =>
        rw [hr] at h
        simp only [Option.map_some, Option.some.injEq, Prod.mk.injEq] at h
        obtain ⟨hm, hrest⟩ := h
        obtain ⟨i1, i2⟩ := ih _ _ _ (show fuCollect q.hdr.seq l = some (r.1, r.2) from hr)
        subst hm; subst hrest
        constructor
        · intro p hp
          rcases List.mem_cons.mp hp with e | e
          · subst e; exact ⟨List.mem_cons_self, Or.inl h3⟩
          · exact ⟨List.mem_cons_of_mem _ (i1 p e).1, (i1 p e).2⟩
        · intro p hp; exact List.mem_cons_of_mem _ (i2 p hp)
    · split at h
      · rename_i h4
        simp only [Option.some.injEq, Prod.mk.injEq] at h
        obtain ⟨hm, hrest⟩ := h
        subst hm; subst hrest
        constructor
        · intro p hp
          simp only [List.mem_singleton] at hp
          subst hp; exact ⟨List.mem_cons_self, Or.inr h4⟩
        · intro p hp; exact List.mem_cons_of_mem _ hp
      · cases h

theorem fuBodies_ok (n : Nat) : ∀ (ps : List RtpPacket), (∀ p ∈ ps, ∃ b, p.body = .ok b ∧ n ≤ b.length) →
    ∃ d, fuBodies n ps = .ok d := by
  intro ps
  induction ps with
  | nil => intro _; exact ⟨_, rfl⟩
  | cons p ps ih =>
    intro h
    obtain ⟨b, hb, hn⟩ := h p List.mem_cons_self
    obtain ⟨d, hd⟩ := ih (fun q hq => h q (List.mem_cons_of_mem _ hq))
    unfold fuBodies
    simp only [hb, bind, Except.bind, from?_ok hn, hd, pure, Except.pure]
    exact ⟨_, rfl⟩

/-- outcome of a `TryUnpackOne`: nothing unpacked, or unpacked with the remaining list a part of the old one -/
def TryOk (items : List RtpPacket) (r : GoM (Option Unpacked)) : Prop :=
  r = .ok none ∨ ∃ u, r = .ok (some u) ∧ ∀ p ∈ u.rest, p ∈ items

theorem tryAvcHevc_ok (hevc : Bool) (rate : Int) (items : List RtpPacket) (h : ∀ p ∈ items, Good hevc p) :
    TryOk items (tryUnpackOneAvcHevc hevc rate items) := by
  unfold tryUnpackOneAvcHevc
  split
  · left; rfl
  · rename_i first rest
    obtain ⟨b, hb, h0, hpos⟩ := h first List.mem_cons_self
    have hsub : ∀ p ∈ rest, p ∈ first :: rest := fun p hp => List.mem_cons_of_mem _ hp
    split
    · -- single
      right
      simp only [tsMs_val, hb, bind, Except.bind, pure, Except.pure]
      exact ⟨_, rfl, hsub⟩
    · split
      · -- STAP-A / AP
        rename_i h56
        simp only [tsMs_val, hb, bind, Except.bind, pure, Except.pure]
        have hskip : (if first.pos = 5 then 1 else 2) ≤ b.length := by
          split
          · omega
          · have : first.pos = 6 := by omega
            exact hpos.2 this
        rw [from?_ok hskip]
        dsimp only
        split
        · left; rfl
        · right; exact ⟨_, rfl, hsub⟩
      · split
        · -- FU start
          rename_i h2
          split
          · left; rfl
          · rename_i more rest' hcol
            obtain ⟨hm, hr⟩ := fuCollect_sub _ _ _ _ hcol
            have hlen := hpos.1 (Or.inl h2)
            have hbod : ∃ d, fuBodies (if hevc then 3 else 2) (first :: more) = .ok d := by
              apply fuBodies_ok
              intro p hp
              rcases List.mem_cons.mp hp with e | e
              · subst e; exact ⟨b, hb, hlen⟩
              · obtain ⟨hin, h34⟩ := hm p e
                obtain ⟨b', hb', _, hpos'⟩ := h p (hsub p hin)
                exact ⟨b', hb', hpos'.1 (Or.inr h34)⟩
            obtain ⟨d, hd⟩ := hbod
            right
            cases hevc with
            | true =>
              simp only [if_true] at hlen hd
              simp only [tsMs_val, hb, bind, Except.bind, pure, Except.pure, if_true, idx?_ok (show 2 < b.length by omega),
                idx?_ok (show 0 < b.length by omega), idx?_ok (show 1 < b.length by omega), hd]
              exact ⟨_, rfl, fun p hp => hsub p (hr p hp)⟩
            | false =>
              simp only [Bool.false_eq_true, if_false] at hlen hd
              simp only [tsMs_val, hb, bind, Except.bind, pure, Except.pure, Bool.false_eq_true, if_false,
                idx?_ok (show 0 < b.length by omega), idx?_ok (show 1 < b.length by omega), hd]
              exact ⟨_, rfl, fun p hp => hsub p (hr p hp)⟩
        · left; rfl


/-! ### AAC -/

theorem parseAuLoop_ok (b : Bytes) : ∀ (n pauh pau : Nat), pauh + 2 * n ≤ b.length →
    ∃ l, parseAuLoop b n pauh pau = .ok l ∧ (∀ a r, l = a :: r → a.pos = pau) := by
  intro n
  induction n with
  | zero => intro pauh pau _; exact ⟨[], rfl, by intro a r h; cases h⟩
  | succ n ih =>
    intro pauh pau h
    obtain ⟨l, hl, _⟩ := ih (pauh + 2) (pau + (b[pauh]!.toNat * 256 + b[pauh + 1]!.toNat / 8 * 8) / 8) (by omega)
    unfold parseAuLoop
    have h1 : pauh < b.length := by omega
    have h2 : pauh + 1 < b.length := by omega
    simp only [idx?_ok h1, idx?_ok h2, bind, Except.bind, pure, Except.pure]
    have e1 : b[pauh]! = b[pauh] := by simp [h1]
    have e2 : b[pauh + 1]! = b[pauh + 1] := by simp [h2]
    rw [e1, e2] at hl
    rw [hl]
    exact ⟨_, rfl, by intro a r h; cases h; rfl⟩

theorem parseAu_ok (b : Bytes) : ∃ aus, parseAu b = .ok aus ∧ (∀ a, aus = [a] → a.pos ≤ b.length) := by
  unfold parseAu
  by_cases h2 : b.length < 2
  · simp only [h2, if_true, pure, Except.pure]
    exact ⟨[], rfl, by intro a h; cases h⟩
  · have h0 : 0 < b.length := by omega
    have h1 : 1 < b.length := by omega
    simp only [h2, if_false, idx?_ok h0, idx?_ok h1, bind, Except.bind, pure, Except.pure]
    split
    · exact ⟨[], rfl, by intro a h; cases h⟩
    · rename_i hlen
      obtain ⟨l, hl, hhead⟩ := parseAuLoop_ok b ((rd16 b[0] b[1] + 7) / 8 / 2) 2 (2 + (rd16 b[0] b[1] + 7) / 8) (by omega)
      rw [hl]
      refine ⟨l, rfl, ?_⟩
      intro a ha
      have := hhead a [] ha
      omega

theorem aacMulti_ok (rate : Int) (ts : Nat) (b : Bytes) : ∀ (aus : List Au) (i : Nat), ∃ o, aacMulti rate ts b i aus = .ok o := by
  intro aus
  induction aus with
  | nil => intro i; exact ⟨[], rfl⟩
  | cons a rest ih =>
    intro i
    obtain ⟨o, ho⟩ := ih (i + 1)
    unfold aacMulti
    simp only [tsMs_val, bind, Except.bind, pure, Except.pure]
    split
    · exact ⟨_, rfl⟩
    · rw [slice?_ok (by omega) (by omega), ho]
      exact ⟨_, rfl⟩

theorem aacFragLoop_ok (rate : Int) (total ts0 : Nat) (all : List RtpPacket) : ∀ (items : List RtpPacket) (seq cache : Nat) (acc : Bytes) (cnt : Nat),
    (∀ p ∈ items, GoodB p) → (∀ p ∈ items, p ∈ all) → TryOk all (aacFragLoop rate total ts0 seq cache acc cnt items) := by
  intro items
  induction items with
  | nil => intro _ _ _ _ _ _; left; rfl
  | cons p rest ih =>
    intro seq cache acc cnt hg hsub
    unfold aacFragLoop
    split; · left; rfl
    split; · left; rfl
    obtain ⟨b, hb, _⟩ := hg p List.mem_cons_self
    obtain ⟨aus, hau, hpos⟩ := parseAu_ok b
    simp only [hb, hau, bind, Except.bind, pure, Except.pure]
    split
    · rename_i a
      have hp := hpos a rfl
      split
      · left; rfl
      · rw [from?_ok hp]
        dsimp only
        split
        · exact ih _ _ _ _ (fun q hq => hg q (List.mem_cons_of_mem _ hq)) (fun q hq => hsub q (List.mem_cons_of_mem _ hq))
        · split
          · right; simp only [tsMs_val]; exact ⟨_, rfl, fun q hq => hsub q (List.mem_cons_of_mem _ hq)⟩
          · left; rfl
    · left; rfl

theorem tryAac_ok (rate : Int) (items : List RtpPacket) (h : ∀ p ∈ items, GoodB p) : TryOk items (tryUnpackOneAac rate items) := by
  unfold tryUnpackOneAac
  split
  · left; rfl
  · rename_i p rest
    obtain ⟨b, hb, _⟩ := h p List.mem_cons_self
    obtain ⟨aus, hau, hpos⟩ := parseAu_ok b
    have hsub : ∀ q ∈ rest, q ∈ p :: rest := fun q hq => List.mem_cons_of_mem _ hq
    simp only [hb, hau, bind, Except.bind, pure, Except.pure]
    split
    · rename_i a
      have hp := hpos a rfl
      rw [from?_ok hp]
      dsimp only
      split
      · right; simp only [tsMs_val]; exact ⟨_, rfl, hsub⟩
      · exact aacFragLoop_ok rate _ _ (p :: rest) rest _ _ _ _ (fun q hq => h q (hsub q hq)) hsub
    · obtain ⟨o, ho⟩ := aacMulti_ok rate p.hdr.timestamp b aus 0
      rw [ho]
      right; exact ⟨_, rfl, hsub⟩

theorem tryRaw_ok (rate : Int) (items : List RtpPacket) (h : ∀ p ∈ items, GoodB p) : TryOk items (tryUnpackOneRaw rate items) := by
  unfold tryUnpackOneRaw
  split
  · left; rfl
  · rename_i p rest
    obtain ⟨b, hb, _⟩ := h p List.mem_cons_self
    simp only [hb, tsMs_val, bind, Except.bind, pure, Except.pure]
    right; exact ⟨_, rfl, fun q hq => List.mem_cons_of_mem _ hq⟩


/-! ### RtpUnpackContainer -/

/-- what the container needs from a protocol; `G` is the invariant of the packets waiting in the list -/
structure ProtoOk (pr : Proto) (G : RtpPacket → Prop) : Prop where
  calcOk : ∀ p, HdrOk p.raw p.hdr → p.pos = 0 → ∃ p', pr.calcPosition p = .ok p' ∧ p'.hdr = p.hdr ∧ G p'
  tryOk : ∀ items, (∀ p ∈ items, G p) → TryOk items (pr.tryUnpackOne items)

def ListInv (G : RtpPacket → Prop) (l : PktList) : Prop := ∀ p ∈ l.items, G p

theorem insertSorted_mem (p : RtpPacket) : ∀ (l : List RtpPacket), (∀ q ∈ (insertSorted p l).1, q = p ∨ q ∈ l) ∧ (insertSorted p l).1 ≠ [] := by
  intro l
  induction l with
  | nil => simp [insertSorted]
  | cons q l ih =>
    unfold insertSorted
    dsimp only
    split
    · exact ⟨fun x hx => Or.inr hx, by simp⟩
    · split
      · constructor
        · intro x hx
          rcases List.mem_cons.mp hx with e | e
          · left; exact e
          · right; exact e
        · simp
      · constructor
        · intro x hx
          rcases List.mem_cons.mp hx with e | e
          · right; rw [e]; exact List.mem_cons_self
          · rcases ih.1 x e with e' | e'
            · left; exact e'
            · right; exact List.mem_cons_of_mem _ e'
        · simp

theorem tryOne_ok {pr : Proto} {G : RtpPacket → Prop} (hp : ProtoOk pr G) (l : PktList) (hi : ListInv G l) :
    tryOne pr l = .ok none ∨ ∃ l' o, tryOne pr l = .ok (some (l', o)) ∧ ListInv G l' := by
  unfold tryOne
  rcases hp.tryOk l.items hi with h | ⟨u, h, hs⟩
  · left; rw [h]
  · right; rw [h]; exact ⟨_, _, rfl, fun p hp' => hi p (hs p hp')⟩

theorem seqLoop_ok {pr : Proto} {G : RtpPacket → Prop} (hp : ProtoOk pr G) : ∀ (fuel : Nat) (l : PktList), ListInv G l →
    ∃ l' o c, seqLoop pr fuel l = .ok (l', o, c) ∧ ListInv G l' ∧ (c = 0 → l' = l) := by
  intro fuel
  induction fuel with
  | zero => intro l hi; exact ⟨l, [], 0, rfl, hi, fun _ => rfl⟩
  | succ fuel ih =>
    intro l hi
    unfold seqLoop
    split
    · exact ⟨l, [], 0, rfl, hi, fun _ => rfl⟩
    · rcases tryOne_ok hp l hi with h | ⟨l1, o1, h, hi1⟩
      · rw [h]; exact ⟨l, [], 0, rfl, hi, fun _ => rfl⟩
      · rw [h]
        obtain ⟨l2, o2, c2, h2, hi2, _⟩ := ih l1 hi1
        dsimp only
        rw [h2]
        exact ⟨l2, o1 ++ o2, c2 + 1, rfl, hi2, fun hc => by omega⟩

/-- `RtpUnpackContainer.Feed` : no panic, and the list invariant is kept -/
theorem feed_ok {pr : Proto} {G : RtpPacket → Prop} (hp : ProtoOk pr G) (l : PktList) (hi : ListInv G l) (pkt : RtpPacket)
    (hh : HdrOk pkt.raw pkt.hdr) (h0 : pkt.pos = 0) : ∃ l' o, feed pr l pkt = .ok (l', o) ∧ ListInv G l' := by
  unfold feed
  split
  · exact ⟨l, [], rfl, hi⟩
  · obtain ⟨p', hc, _, hg⟩ := hp.calcOk pkt hh h0
    rw [hc]
    dsimp only
    have hins := insertSorted_mem p' l.items
    have hi1 : ListInv G (l.insert p') := by
      intro q hq
      rcases hins.1 q hq with e | e
      · rw [e]; exact hg
      · exact hi q e
    obtain ⟨l2, o2, c, h2, hi2, hc0⟩ := seqLoop_ok hp ((l.insert p').items.length + 1) (l.insert p') hi1
    rw [h2]
    dsimp only
    split
    · exact ⟨_, _, rfl, hi2⟩
    · rename_i hcnt
      have hl2 : l2 = l.insert p' := hc0 (by omega)
      split
      · rcases tryOne_ok hp l2 hi2 with h | ⟨l3, o3, h, hi3⟩
        · rw [h]
          dsimp only
          -- PopFirst: the list still holds the packet just inserted
          have hne : l2.items ≠ [] := by rw [hl2]; exact hins.2
          obtain ⟨x, rest, he⟩ : ∃ x rest, l2.items = x :: rest := by
            cases hI : l2.items with
            | nil => exact absurd hI hne
            | cons x r => exact ⟨x, r, rfl⟩
          have hpop : l2.popFirst = .ok { l2 with items := rest, size := l2.size - 1 } := by
            unfold PktList.popFirst; rw [he]
          rw [hpop]
          refine ⟨_, _, rfl, ?_⟩
          intro q hq
          exact hi2 q (by rw [he]; exact List.mem_cons_of_mem _ hq)
        · rw [h]
          dsimp only
          obtain ⟨l4, o4, c4, h4, hi4, _⟩ := seqLoop_ok hp (l3.items.length + 1) l3 hi3
          rw [h4]
          exact ⟨_, _, rfl, hi4⟩
      · exact ⟨_, _, rfl, hi2⟩

theorem feedAll_ok {pr : Proto} {G : RtpPacket → Prop} (hp : ProtoOk pr G) : ∀ (pkts : List RtpPacket) (l : PktList), ListInv G l →
    (∀ p ∈ pkts, HdrOk p.raw p.hdr ∧ p.pos = 0) → ∃ l' o, feedAll pr l pkts = .ok (l', o) ∧ ListInv G l' := by
  intro pkts
  induction pkts with
  | nil => intro l hi _; exact ⟨l, [], rfl, hi⟩
  | cons p ps ih =>
    intro l hi hall
    obtain ⟨hh, h0⟩ := hall p List.mem_cons_self
    obtain ⟨l1, o1, h1, hi1⟩ := feed_ok hp l hi p hh h0
    obtain ⟨l2, o2, h2, hi2⟩ := ih l1 hi1 (fun q hq => hall q (List.mem_cons_of_mem _ hq))
    unfold feedAll
    rw [h1]; dsimp only; rw [h2]
    exact ⟨_, _, rfl, hi2⟩

/-! ### the three protocols meet the container's requirements -/

theorem protoAvcHevc_ok (hevc : Bool) (rate : Int) : ProtoOk (protoAvcHevc hevc rate) (Good hevc) := by
  constructor
  · intro p hh h0
    obtain ⟨b, hb, hpos, _⟩ := body_ok p hh
    cases hevc with
    | true => exact calcPositionHevc_good p b hb hpos h0
    | false => exact calcPositionAvc_good p b hb hpos h0
  · intro items h; exact tryAvcHevc_ok hevc rate items h

theorem protoAac_ok (rate : Int) : ProtoOk (protoAac rate) GoodB := by
  constructor
  · intro p hh _
    obtain ⟨b, hb, hpos, _⟩ := body_ok p hh
    exact ⟨p, rfl, rfl, b, hb, hpos⟩
  · intro items h; exact tryAac_ok rate items h

theorem protoRaw_ok (rate : Int) : ProtoOk (protoRaw rate) GoodB := by
  constructor
  · intro p hh _
    obtain ⟨b, hb, hpos, _⟩ := body_ok p hh
    exact ⟨p, rfl, rfl, b, hb, hpos⟩
  · intro items h; exact tryRaw_ok rate items h

/-- the invariant of the list of the unpacker of a kind -/
def GoodOf : Kind → RtpPacket → Prop
  | .avc => Good false
  | .hevc => Good true
  | _ => GoodB

theorem protoOf_ok (k : Kind) (rate : Int) : ProtoOk (protoOf k rate) (GoodOf k) := by
  cases k
  · exact protoAvcHevc_ok false rate
  · exact protoAvcHevc_ok true rate
  · exact protoAac_ok rate
  · exact protoRaw_ok rate
  · exact protoRaw_ok rate


/-- the packets of a datagram sequence that `ParseRtpPacket` accepts (the others are dropped by every caller) -/
def parseAll (raws : List Bytes) : List RtpPacket :=
  raws.filterMap fun b => match parseRtpPacket b with | .ok p => some p | .error _ => none

theorem parseAll_ok (raws : List Bytes) : ∀ p ∈ parseAll raws, HdrOk p.raw p.hdr ∧ p.pos = 0 := by
  intro p hp
  unfold parseAll at hp
  rw [List.mem_filterMap] at hp
  obtain ⟨b, _, hb⟩ := hp
  split at hb
  · rename_i q hq
    cases hb
    unfold parseRtpPacket at hq
    split at hq
    · rename_i hd hh
      cases hq
      exact ⟨parseRtpHeader_ok b hd hh, rfl⟩
    · cases hq
  · cases hb

theorem feedAll_total (k : Kind) (rate : Int) (maxSize : Nat) (raws : List Bytes) :
    ∃ l o, feedAll (protoOf k rate) { maxSize := maxSize } (parseAll raws) = .ok (l, o) := by
  obtain ⟨l, o, h, _⟩ := feedAll_ok (protoOf_ok k rate) (parseAll raws) { maxSize := maxSize }
    (by intro p hp; cases hp) (parseAll_ok raws)
  exact ⟨l, o, h⟩

end Lal.RtpUnpack
