import LalModel.Spec.HlsConsistent
/- Lemmas about the observer (`HlsC.Obs`), `AllGood`, and the frame rule: an operation that does not touch the live
   playlist nor a segment listed in a recent version preserves `Good`. -/
namespace Lal.HlsC
open Lal Lal.Hls Lal.Fs

variable {PP : Bytes → Prop} {D : Nat}

theorem run_nil (o : Obs) : o.run [] = o := rfl
theorem run_cons (o : Obs) (op : FOp) (ops : List FOp) : o.run (op :: ops) = (o.step op).run ops := rfl
theorem run_append (o : Obs) (a b : List FOp) : o.run (a ++ b) = (o.run a).run b := by
  simp [Obs.run, List.foldl_append]

theorem step_dir (o : Obs) (op : FOp) : (o.step op).dir = Fs.apply under o.dir op := rfl

theorem run_dir (o : Obs) (ops : List FOp) : (o.run ops).dir = Fs.applyAll under o.dir ops := by
  induction ops generalizing o with
  | nil => rfl
  | cons op ops ih => rw [run_cons, ih, step_dir]; rfl

theorem allGood_head {o : Obs} {ops : List FOp} (h : AllGood PP D o ops) : Good PP D o := by
  cases ops with
  | nil => exact h
  | cons _ _ => exact h.1

theorem allGood_append {o : Obs} {a b : List FOp} :
    AllGood PP D o (a ++ b) ↔ AllGood PP D o a ∧ AllGood PP D (o.run a) b := by
  induction a generalizing o with
  | nil =>
    simp only [List.nil_append, run_nil]
    exact ⟨fun h => ⟨allGood_head h, h⟩, fun h => h.2⟩
  | cons op a ih =>
    simp only [List.cons_append, AllGood, run_cons]
    rw [ih]
    exact ⟨fun h => ⟨⟨h.1, h.2.1⟩, h.2.2⟩, fun h => ⟨h.1.1, h.1.2, h.2⟩⟩

theorem allGood_last {o : Obs} {ops : List FOp} (h : AllGood PP D o ops) : Good PP D (o.run ops) := by
  induction ops generalizing o with
  | nil => exact h
  | cons op ops ih => exact ih h.2

/-- `AllGood` is the crash-point quantifier: the property after every prefix of the operation list. -/
theorem allGood_iff_prefix {o : Obs} {ops : List FOp} :
    AllGood PP D o ops ↔ ∀ pre, pre <+: ops → Good PP D (o.run pre) := by
  induction ops generalizing o with
  | nil =>
    constructor
    · intro h pre hp
      have : pre = [] := List.eq_nil_of_prefix_nil hp
      subst this; exact h
    · intro h; exact h [] (List.prefix_refl _)
  | cons op ops ih =>
    constructor
    · intro h pre hp
      cases pre with
      | nil => exact h.1
      | cons p pre =>
        rw [List.cons_prefix_cons] at hp
        obtain ⟨rfl, hp⟩ := hp
        exact (ih.mp h.2) pre hp
    · intro h
      refine ⟨h [] (List.nil_prefix), ih.mpr ?_⟩
      intro pre hp
      exact h (op :: pre) (by rw [List.cons_prefix_cons]; exact ⟨rfl, hp⟩)

/-! ### frame rule -/

/-- the segment paths a version lists -/
def VListed (v : Playlist) (p : Path) : Prop := ∃ e ∈ v.entries, ∃ now id, e.name = some (now, id) ∧ p = .seg now id

theorem entriesOk_frame {d d' : Dir} {t : Nat} : ∀ {s : Nat} {es : List Entry},
    (∀ e ∈ es, ∀ now id, e.name = some (now, id) → d' (.seg now id) = d (.seg now id)) →
    EntriesOk PP d t s es → EntriesOk PP d' t s es
  | _, [], _, _ => trivial
  | s, e :: es, hfr, h => by
    obtain ⟨⟨ht, now, chunks, hn, hd, hs⟩, hrest⟩ := h
    refine ⟨⟨ht, now, chunks, hn, ?_, hs⟩, entriesOk_frame (fun e' he' => hfr e' (List.mem_cons_of_mem _ he')) hrest⟩
    rw [hfr e (List.mem_cons_self) now s hn]; exact hd

theorem versionOk_frame {d d' : Dir} {v : Playlist}
    (hfr : ∀ p, VListed v p → d' p = d p) (h : VersionOk PP d v) : VersionOk PP d' v :=
  entriesOk_frame (fun e he now id hn => hfr _ ⟨e, he, now, id, hn, rfl⟩) h

/-- An operation that leaves the live playlist and every segment listed in a recent version alone preserves `Good`. -/
theorem good_frame {o : Obs} {op : FOp} (hg : Good PP D o)
    (hlive : Fs.apply under o.dir op .live = o.dir .live)
    (hseg : ∀ v ∈ o.versions.take (D + 1), ∀ p, VListed v p → Fs.apply under o.dir op p = o.dir p) :
    Good PP D (o.step op) ∧ (o.step op).versions = o.versions := by
  have hv : (o.step op).versions = o.versions := by
    show (match Fs.apply under o.dir op .live with
      | none => []
      | some f => match f.content with
        | .doc pl => if o.versions.head? = some pl then o.versions else pl :: o.versions
        | .data _ => o.versions) = o.versions
    rw [hlive]
    cases hl : o.dir .live with
    | none => simp [hg.live_none hl]
    | some f =>
      obtain ⟨pl, rfl, hh⟩ := hg.live_doc f hl
      simp [hh]
  refine ⟨?_, hv⟩
  constructor
  · intro f hf
    rw [step_dir, hlive] at hf
    rw [hv]; exact hg.live_doc f hf
  · intro hn
    rw [step_dir, hlive] at hn
    rw [hv]; exact hg.live_none hn
  · intro v hvm
    rw [hv] at hvm
    exact versionOk_frame (fun p hp => by rw [step_dir]; exact hseg v hvm p hp) (hg.recent v hvm)
  · rw [hv]; exact hg.mono

end Lal.HlsC
