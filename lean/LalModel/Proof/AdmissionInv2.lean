import LalModel.Proof.AdmissionInv
/- C03 — the reachable-state invariant (sessions ↔ groups) and its preservation by every event. -/
set_option linter.unusedSimpArgs false
namespace Lal.Adm
open Grp Spec

structure Inv (s : Srv) : Prop where
  ok : OkAll s
  ci : CI s
  /-- an open RTSP connection has at most one session, which exists, is its own and has not ended -/
  link : ∀ c k, s.sess c = some (.rtspConn k) → k.closed = false →
    (k.pub = none ∨ k.sub = none) ∧
    (∀ p, k.pub = some p → ∃ pp, s.sess p = some (.rtspPub pp) ∧ pp.conn = c ∧ pp.ended = false ∧ pp.flag = false ∧ pp.accepted = true) ∧
    (∀ q, k.sub = some q → ∃ qq, s.sess q = some (.rtspSub qq) ∧ qq.conn = c ∧ qq.ended = false ∧ qq.flag = false ∧ qq.accepted = true)
  /-- a customize context that was deleted is disposed -/
  cust : ∀ k cu, s.sess k = some (.cust cu) → cu.deleted = true → cu.disposed = true
  /-- an RTMP session feeds the group of its own stream, as a publisher nobody refused -/
  obs : ∀ c r st, s.sess c = some (.rtmp r) → r.obs = some st → r.typ = .pub ∧ r.stream = st ∧ r.flag = false
  /-- a refused RTMP session is closed -/
  flag : ∀ c r, s.sess c = some (.rtmp r) → r.flag = true → r.closed = true

theorem inv_init : Inv init := by
  refine ⟨ok_init, ?_, ?_, ?_, ?_, ?_⟩
  · intro x st sl; simp [claimOf, holdsAt, init]
  all_goals (intros; simp_all [init])

/-- a session that claims nothing is registered nowhere -/
theorem CI.not_held {s : Srv} (h : CI s) {x : Sid} (hc : claimOf s x = none) (st : Stream) (sl : Slot) : ¬holdsAt s st sl x := by
  intro hh; have := (h x st sl).mpr hh; rw [hc] at this; cases this

theorem claimOf_fresh {s : Srv} {x : Sid} (h : s.fresh x = true) : claimOf s x = none := by
  simp [Srv.fresh] at h; simp [claimOf, h]

/-! ### sessions other than the one an event is about keep their state -/

theorem sess_modR_ne (s : Srv) (c : Sid) (f : RConn → RConn) {y : Sid} (h : y ≠ c) : (s.modR c f).sess y = s.sess y := by
  unfold Srv.modR; split <;> simp [h]
theorem sess_modR_self {s : Srv} {c : Sid} {r : RConn} (h : s.sess c = some (.rtmp r)) (f : RConn → RConn) :
    (s.modR c f).sess c = some (.rtmp (f r)) := by
  unfold Srv.modR; simp [h]


/-- a brand-new session that claims nothing and is not an RTSP / customize object with obligations -/
theorem Inv.newSess {s : Srv} (h : Inv s) {x : Sid} (hx : s.fresh x = true) (v : Sess) (hv : v.claim = none)
    (hl : ∀ k, v = .rtspConn k → k.pub = none ∧ k.sub = none)
    (hc : ∀ cu, v = .cust cu → cu.deleted = false)
    (ho : ∀ r, v = .rtmp r → r.obs = none ∧ r.flag = false) : Inv (s.setS x v) := by
  have hn : s.sess x = none := by simpa [Srv.fresh] using hx
  refine ⟨OkAll.same h.ok (by simp), ?_, ?_, ?_, ?_, ?_⟩
  · refine h.ci.update x ?_ ?_ ?_
    · intro y hy; simp [hy]
    · intro y st sl _; simp
    · intro st sl; simp [hv]; exact h.ci.not_held (claimOf_fresh hx) st sl
  · intro c k hc' hcl
    simp only [Srv.setS_sess] at hc' ⊢
    split at hc'
    · rename_i e; subst e; cases hc'
      obtain ⟨h1, h2⟩ := hl k rfl
      exact ⟨Or.inl h1, by simp [h1], by simp [h2]⟩
    · obtain ⟨h1, h2, h3⟩ := h.link c k hc' hcl
      refine ⟨h1, ?_, ?_⟩
      · intro p hp; obtain ⟨pp, e1, e2⟩ := h2 p hp
        refine ⟨pp, ?_, e2⟩
        have : p ≠ x := by rintro rfl; rw [hn] at e1; cases e1
        simp [this, e1]
      · intro q hq; obtain ⟨qq, e1, e2⟩ := h3 q hq
        refine ⟨qq, ?_, e2⟩
        have : q ≠ x := by rintro rfl; rw [hn] at e1; cases e1
        simp [this, e1]
  · intro k cu hk hd
    simp only [Srv.setS_sess] at hk
    split at hk
    · cases hk; simp [hc cu rfl] at hd
    · exact h.cust k cu hk hd
  · intro c r st hc' ho'
    simp only [Srv.setS_sess] at hc'
    split at hc'
    · cases hc'; simp [(ho r rfl).1] at ho'
    · exact h.obs c r st hc' ho'
  · intro c r hc' hf
    simp only [Srv.setS_sess] at hc'
    split at hc'
    · cases hc'; simp [(ho r rfl).2] at hf
    · exact h.flag c r hc' hf

theorem inv_rOpen {s : Srv} (h : Inv s) (c : Sid) : Inv (rOpen s c).1 := by
  unfold rOpen; split
  · rename_i hf
    exact h.newSess hf _ (by simp [Sess.claim]) (by simp) (by simp) (by intro r e; cases e; simp)
  · exact h

theorem inv_sOpen {s : Srv} (h : Inv s) (c : Sid) : Inv (sOpen s c).1 := by
  unfold sOpen; split
  · rename_i hf
    exact h.newSess hf _ (by simp [Sess.claim]) (by intro k e; cases e; simp) (by simp) (by simp)
  · exact h


/-! ### the callbacks leave the session table alone (except for a spawned pull attempt) -/
namespace Srv
variable (s : Srv)

@[simp] theorem sess_onNewRtmpPub (x st a) : (s.onNewRtmpPub x st a).1.sess = s.sess := by
  unfold onNewRtmpPub; split
  · rfl
  · dsimp only; split <;> rfl
@[simp] theorem sess_onDelRtmpPub (x st) : (s.onDelRtmpPub x st).sess = s.sess := by
  unfold onDelRtmpPub; split <;> rfl
@[simp] theorem sess_onDelRtmpSub (x st) : (s.onDelRtmpSub x st).sess = s.sess := by
  unfold onDelRtmpSub; split <;> rfl
@[simp] theorem sess_onNewRtspPub (x st a) : (s.onNewRtspPub x st a).1.sess = s.sess := by
  unfold onNewRtspPub; split
  · rfl
  · dsimp only; split <;> rfl
@[simp] theorem sess_onDelRtspPub (x st) : (s.onDelRtspPub x st).sess = s.sess := by
  unfold onDelRtspPub; split <;> rfl
@[simp] theorem sess_onNewRtspSubDescribe (x st a) : (s.onNewRtspSubDescribe x st a).1.sess = s.sess := by
  unfold onNewRtspSubDescribe; split <;> rfl
@[simp] theorem sess_onDelRtspSub (x st) : (s.onDelRtspSub x st).sess = s.sess := by
  unfold onDelRtspSub; split <;> rfl
@[simp] theorem sess_delPull (code x st) : (s.delPull code x st).sess = s.sess := by
  unfold delPull; split
  · rfl
  · simp

theorem sess_spawned (st : Stream) (r : Bool) (a : Option Sid) (y : Sid) :
    (s.spawned st r a).sess y = if some y = a then some (.pull { stream := st, rtsp := r }) else s.sess y := by
  cases a with
  | none => simp [spawned]
  | some n => simp [spawned, eq_comm]

end Srv

/-! ### frames for the per-kind fields -/

def isRtsp : Option Sess → Prop
  | some (.rtspConn _) | some (.rtspPub _) | some (.rtspSub _) => True
  | _ => False
def isCust : Option Sess → Prop
  | some (.cust _) => True
  | _ => False
def isRtmp : Option Sess → Prop
  | some (.rtmp _) => True
  | _ => False

theorem Inv.link_frame {s s' : Srv} (h : Inv s)
    (hf : ∀ y, s'.sess y = s.sess y ∨ (¬isRtsp (s.sess y) ∧ ¬isRtsp (s'.sess y))) :
    ∀ c k, s'.sess c = some (.rtspConn k) → k.closed = false →
    (k.pub = none ∨ k.sub = none) ∧
    (∀ p, k.pub = some p → ∃ pp, s'.sess p = some (.rtspPub pp) ∧ pp.conn = c ∧ pp.ended = false ∧ pp.flag = false ∧ pp.accepted = true) ∧
    (∀ q, k.sub = some q → ∃ qq, s'.sess q = some (.rtspSub qq) ∧ qq.conn = c ∧ qq.ended = false ∧ qq.flag = false ∧ qq.accepted = true) := by
  intro c k hc hcl
  have hc0 : s.sess c = some (.rtspConn k) := by
    rcases hf c with e | ⟨_, e⟩
    · rw [← e]; exact hc
    · rw [hc] at e; exact absurd trivial e
  obtain ⟨h1, h2, h3⟩ := h.link c k hc0 hcl
  refine ⟨h1, ?_, ?_⟩
  · intro p hp; obtain ⟨pp, e1, e2⟩ := h2 p hp
    refine ⟨pp, ?_, e2⟩
    rcases hf p with e | ⟨e, _⟩
    · rw [e]; exact e1
    · rw [e1] at e; exact absurd trivial e
  · intro q hq; obtain ⟨qq, e1, e2⟩ := h3 q hq
    refine ⟨qq, ?_, e2⟩
    rcases hf q with e | ⟨e, _⟩
    · rw [e]; exact e1
    · rw [e1] at e; exact absurd trivial e

theorem Inv.cust_frame {s s' : Srv} (h : Inv s) (hf : ∀ y, s'.sess y = s.sess y ∨ ¬isCust (s'.sess y)) :
    ∀ k cu, s'.sess k = some (.cust cu) → cu.deleted = true → cu.disposed = true := by
  intro k cu hk hd
  rcases hf k with e | e
  · exact h.cust k cu (e ▸ hk) hd
  · rw [hk] at e; exact absurd trivial e

theorem Inv.obs_frame {s s' : Srv} (h : Inv s) (hf : ∀ y, s'.sess y = s.sess y ∨ ¬isRtmp (s'.sess y)) :
    ∀ c r st, s'.sess c = some (.rtmp r) → r.obs = some st → r.typ = .pub ∧ r.stream = st ∧ r.flag = false := by
  intro c r st hc ho
  rcases hf c with e | e
  · exact h.obs c r st (e ▸ hc) ho
  · rw [hc] at e; exact absurd trivial e

theorem Inv.flag_frame {s s' : Srv} (h : Inv s) (hf : ∀ y, s'.sess y = s.sess y ∨ ¬isRtmp (s'.sess y)) :
    ∀ c r, s'.sess c = some (.rtmp r) → r.flag = true → r.closed = true := by
  intro c r hc hfl
  rcases hf c with e | e
  · exact h.flag c r (e ▸ hc) hfl
  · rw [hc] at e; exact absurd trivial e


/-! ### the three shapes of a step, for `CI` -/

theorem holdsAt_remove {s s' : Srv} {k : Stream} {g g' : Grp} {x : Sid} {P : Slot → Prop} (hg : s.groups k = some g)
    (e : s'.groups = (s.setG k g').groups)
    (hh : ∀ sl y, g'.holds sl y ↔ (g.holds sl y ∧ ¬(P sl ∧ y = x))) (st : Stream) (sl : Slot) (y : Sid) :
    holdsAt s' st sl y ↔ (holdsAt s st sl y ∧ ¬(st = k ∧ P sl ∧ y = x)) := by
  rw [holdsAt_congr e, holdsAt_setG]
  split
  · rename_i h; subst h; rw [hh, holdsAt_of_groups hg]; simp
  · rename_i h; simp [h]

theorem holdsAt_add {s s' : Srv} {k : Stream} {g' : Grp} {x : Sid} {sl0 : Slot}
    (e : s'.groups = (s.setG k g').groups)
    (hh : ∀ sl y, g'.holds sl y ↔ ((s.getOrCreate k).holds sl y ∨ (sl = sl0 ∧ y = x))) (st : Stream) (sl : Slot) (y : Sid) :
    holdsAt s' st sl y ↔ (holdsAt s st sl y ∨ (st = k ∧ sl = sl0 ∧ y = x)) := by
  rw [holdsAt_congr e, holdsAt_setG]
  split
  · rename_i h; subst h; rw [hh, holds_getOrCreate]; simp
  · rename_i h; simp [h]

theorem holdsAt_keep {s s' : Srv} {k : Stream} {g' : Grp}
    (e : s'.groups = (s.setG k g').groups)
    (hh : ∀ sl y, g'.holds sl y ↔ (s.getOrCreate k).holds sl y) : holdsAt s' = holdsAt s := by
  funext st sl y
  rw [holdsAt_congr e, holdsAt_setG]
  split
  · rename_i h; subst h; rw [hh, holds_getOrCreate]
  · rfl

theorem getOrCreate_of_groups {s : Srv} {k : Stream} {g : Grp} (hg : s.groups k = some g) : s.getOrCreate k = g := by
  simp [Srv.getOrCreate, hg]

theorem CI.remove {s s' : Srv} (h : CI s) (x : Sid) (k : Stream) (P : Slot → Prop)
    (hs : ∀ y, y ≠ x → claimOf s' y = claimOf s y) (hc : claimOf s' x = none)
    (hP : ∀ st sl, claimOf s x = some (st, sl) → st = k ∧ P sl)
    (hh : ∀ st sl y, holdsAt s' st sl y ↔ (holdsAt s st sl y ∧ ¬(st = k ∧ P sl ∧ y = x))) : CI s' := by
  refine h.update x hs ?_ ?_
  · intro y st sl hy; rw [hh]; simp [hy]
  · intro st sl
    rw [hc, hh]
    constructor
    · intro e; cases e
    · rintro ⟨h1, h2⟩
      exfalso
      have := hP st sl ((h x st sl).mpr h1)
      exact h2 ⟨this.1, this.2, rfl⟩

theorem CI.add {s s' : Srv} (h : CI s) (x : Sid) (k : Stream) (sl0 : Slot)
    (hs : ∀ y, y ≠ x → claimOf s' y = claimOf s y) (hc0 : claimOf s x = none) (hc : claimOf s' x = some (k, sl0))
    (hh : ∀ st sl y, holdsAt s' st sl y ↔ (holdsAt s st sl y ∨ (st = k ∧ sl = sl0 ∧ y = x))) : CI s' := by
  refine h.update x hs ?_ ?_
  · intro y st sl hy; rw [hh]; simp [hy]
  · intro st sl
    rw [hc, hh]
    constructor
    · intro e; cases e; exact Or.inr ⟨rfl, rfl, rfl⟩
    · rintro (h1 | ⟨rfl, rfl, -⟩)
      · exact absurd h1 (h.not_held hc0 st sl)
      · rfl

/-- claims of sessions other than `c` are untouched by `modR c` -/
theorem claimOf_modR_ne (s : Srv) (c : Sid) (f : RConn → RConn) {y : Sid} (h : y ≠ c) : claimOf (s.modR c f) y = claimOf s y := by
  unfold claimOf; rw [sess_modR_ne s c f h]

theorem claimOf_modR_self {s : Srv} {c : Sid} {r : RConn} (h : s.sess c = some (.rtmp r)) (f : RConn → RConn) :
    claimOf (s.modR c f) c = (Sess.rtmp (f r)).claim := by
  unfold claimOf; rw [sess_modR_self h]; rfl

theorem claimOf_of_sess {s : Srv} {x : Sid} {v : Sess} (h : s.sess x = some v) : claimOf s x = v.claim := by
  unfold claimOf; rw [h]; rfl


/-- the common shape of a step: one non-RTSP session `x` changes (or is created), possibly one
    relay-pull attempt `n` is created, every other session is untouched; `ok` and `ci` are supplied -/
theorem Inv.mk2 {s s' : Srv} (h : Inv s) (hok : OkAll s') (hci : CI s') (x : Sid) (n : Option Sid)
    (hne : ∀ y, y ≠ x → some y ≠ n → s'.sess y = s.sess y)
    (hn : ∀ m, n = some m → m ≠ x → s.sess m = none ∧ ∃ p, s'.sess m = some (.pull p))
    (hk : ¬isRtsp (s.sess x) ∧ ¬isRtsp (s'.sess x))
    (hcust : ∀ cu, s'.sess x = some (.cust cu) → cu.deleted = true → cu.disposed = true)
    (hobs : ∀ r st, s'.sess x = some (.rtmp r) → r.obs = some st → r.typ = .pub ∧ r.stream = st ∧ r.flag = false)
    (hflag : ∀ r, s'.sess x = some (.rtmp r) → r.flag = true → r.closed = true) : Inv s' := by
  have cases3 : ∀ y, y = x ∨ (y ≠ x ∧ some y = n) ∨ (y ≠ x ∧ some y ≠ n) := by
    intro y; by_cases h1 : y = x
    · exact Or.inl h1
    · by_cases h2 : some y = n
      · exact Or.inr (Or.inl ⟨h1, h2⟩)
      · exact Or.inr (Or.inr ⟨h1, h2⟩)
  refine ⟨hok, hci, h.link_frame ?_, ?_, ?_, ?_⟩
  · intro y
    rcases cases3 y with rfl | ⟨h1, h2⟩ | ⟨h1, h2⟩
    · exact Or.inr hk
    · obtain ⟨e1, p, e2⟩ := hn y h2.symm h1
      right; rw [e1, e2]; simp [isRtsp]
    · exact Or.inl (hne y h1 h2)
  · intro y cu hy hd
    rcases cases3 y with rfl | ⟨h1, h2⟩ | ⟨h1, h2⟩
    · exact hcust cu hy hd
    · obtain ⟨_, p, e2⟩ := hn y h2.symm h1
      rw [e2] at hy; cases hy
    · exact h.cust y cu (hne y h1 h2 ▸ hy) hd
  · intro y r st hy ho
    rcases cases3 y with rfl | ⟨h1, h2⟩ | ⟨h1, h2⟩
    · exact hobs r st hy ho
    · obtain ⟨_, p, e2⟩ := hn y h2.symm h1
      rw [e2] at hy; cases hy
    · exact h.obs y r st (hne y h1 h2 ▸ hy) ho
  · intro y r hy hf
    rcases cases3 y with rfl | ⟨h1, h2⟩ | ⟨h1, h2⟩
    · exact hflag r hy hf
    · obtain ⟨_, p, e2⟩ := hn y h2.symm h1
      rw [e2] at hy; cases hy
    · exact h.flag y r (hne y h1 h2 ▸ hy) hf

end Lal.Adm
