import LalModel.Proof.Rtp
import LalModel.Proof.RtpReorder
/- lal's unpackers on lal's packets: the per-unit facts (`UnitsOK`) needed by `feedAll_reorder`. -/
namespace Lal.RtpUnpack
open Lal Lal.Rtp Lal.Seq16 Lal.RtpSpec

/-- the packet as stored in the list: after `CalcPositionIfNeeded` -/
def posOf (pr : Proto) (p : RtpPacket) : RtpPacket :=
  match pr.calcPosition p with
  | .ok q => q
  | .error _ => p

theorem packTo_length (h : RtpHeader) : (packTo h).length = 12 := by simp [packTo]

theorem body_withPos (p : RtpPacket) (k : Nat) : ({ p with pos := k } : RtpPacket).body = p.body := rfl

theorem body_mkPacket (pt ts ssrc mark seq : Nat) (payload : Bytes) :
    (mkPacket pt ts ssrc mark seq payload).body = .ok payload := by
  simp [RtpPacket.body, mkPacket, makeRtpPacket, defaultHeader, from?, packTo_length]

theorem tsMs_ok (rate ts : Nat) (hr : 1000 ≤ rate ∧ rate < 4294967296000) : tsMs rate ts = .ok (msOf rate ts) := by
  unfold tsMs msOf
  rw [if_neg (by omega)]
  simp only [Int.toNat_natCast]

theorem calcAvc_single (p : RtpPacket) (b0 : UInt8) (r : Bytes) (hb : p.body = .ok (b0 :: r)) (ht : b0.toNat % 32 ≤ 23) :
    calcPositionAvc p = .ok { p with pos := 1 } := by
  simp [calcPositionAvc, hb, idx?, bind, Except.bind, ht, pure, Except.pure]

theorem calcAvc_fu (p : RtpPacket) (b0 b1 : UInt8) (r : Bytes) (hb : p.body = .ok (b0 :: b1 :: r)) (ht : b0.toNat % 32 = 28) :
    calcPositionAvc p = .ok { p with pos := fuPos b1 } := by
  simp [calcPositionAvc, hb, idx?, bind, Except.bind, ht, pure, Except.pure]
  omega

theorem calcHevc_single (p : RtpPacket) (b0 : UInt8) (r : Bytes) (hb : p.body = .ok (b0 :: r)) (ht : b0.toNat / 2 % 64 < 48) :
    calcPositionHevc p = .ok { p with pos := 1 } := by
  simp [calcPositionHevc, hb, idx?, bind, Except.bind, ht, pure, Except.pure]

theorem calcHevc_fu (p : RtpPacket) (b0 b1 b2 : UInt8) (r : Bytes) (hb : p.body = .ok (b0 :: b1 :: b2 :: r)) (ht : b0.toNat / 2 % 64 = 49) :
    calcPositionHevc p = .ok { p with pos := fuPos b2 } := by
  simp [calcPositionHevc, hb, idx?, bind, Except.bind, ht, pure, Except.pure]
  omega


/-! ### FU packets as stored in the list -/

def fuPosOf (first last : Bool) : Nat := if first then 2 else if last then 4 else 3

theorem fuPos_b8 (x : Nat) (hx : x < 64) (first last : Bool) (hfl : ¬ (first = true ∧ last = true)) :
    fuPos (b8 (x + ((if first then 128 else 0) + (if last then 64 else 0)))) = fuPosOf first last := by
  unfold fuPos fuPosOf
  simp only [b8_toNat]
  cases first <;> cases last <;> simp at hfl ⊢
  · rw [if_neg (by omega), if_neg (by omega)]
  · rw [if_neg (by omega), if_pos (by omega)]
  · omega

theorem posOf_fu (hevc : Bool) (rate pt ts ssrc mark seq : Nat) (n0 n1 : UInt8) (first last : Bool) (frag : Bytes)
    (hfl : ¬ (first = true ∧ last = true)) :
    (protoAvcHevc hevc rate).calcPosition (mkPacket pt ts ssrc mark seq (fuHeader hevc n0 n1 first last ++ frag))
      = .ok { mkPacket pt ts ssrc mark seq (fuHeader hevc n0 n1 first last ++ frag) with pos := fuPosOf first last } := by
  have hx := n0.toNat_lt
  have hb := body_mkPacket pt ts ssrc mark seq (fuHeader hevc n0 n1 first last ++ frag)
  cases hevc with
  | false =>
    rw [fuHeader_avc] at hb ⊢
    simp only [protoAvcHevc, Bool.false_eq_true, if_false]
    rw [calcAvc_fu _ _ _ _ hb (by simp only [b8_toNat]; omega)]
    congr 2
    exact fuPos_b8 _ (by omega) first last hfl
  | true =>
    rw [fuHeader_hevc] at hb ⊢
    simp only [protoAvcHevc, if_true]
    rw [calcHevc_fu _ _ _ _ _ hb (fu_type49 n0)]
    congr 2
    exact fuPos_b8 _ (by omega) first last hfl

theorem fuLoop_cons (hevc : Bool) (n0 n1 : UInt8) (chunk f : Nat) (first : Bool) (rest : Bytes) :
    ∃ y ys, fuLoop hevc n0 n1 chunk (f + 1) first rest = y :: ys := by
  unfold fuLoop
  by_cases h : rest.length > chunk
  · rw [if_pos h]; exact ⟨_, _, rfl⟩
  · rw [if_neg h]; exact ⟨_, _, rfl⟩

section fu
variable (hevc : Bool) (rate pt ts ssrc : Nat) (n0 n1 : UInt8) (chunk : Nat)

/-- a stored FU packet -/
def fuPkt (mark seq : Nat) (first last : Bool) (frag : Bytes) : RtpPacket :=
  { mkPacket pt ts ssrc mark seq (fuHeader hevc n0 n1 first last ++ frag) with pos := fuPosOf first last }

/-- stored packets of the non-first part of an FU run -/
def tailPkts (seq fuel : Nat) (rest : Bytes) : List RtpPacket :=
  (packLoop pt ts ssrc seq (fuLoop hevc n0 n1 chunk fuel false rest)).map (posOf (protoAvcHevc hevc rate))

theorem posOf_fuPkt (mark seq : Nat) (first last : Bool) (frag : Bytes) (hfl : ¬ (first = true ∧ last = true)) :
    posOf (protoAvcHevc hevc rate) (mkPacket pt ts ssrc mark seq (fuHeader hevc n0 n1 first last ++ frag))
      = fuPkt hevc pt ts ssrc n0 n1 mark seq first last frag := by
  unfold posOf
  rw [posOf_fu hevc rate pt ts ssrc mark seq n0 n1 first last frag hfl]
  rfl

theorem tailPkts_more (seq f : Nat) (rest : Bytes) (hl : rest.length > chunk) (hf : 0 < f) :
    tailPkts hevc rate pt ts ssrc n0 n1 chunk seq (f + 1) rest =
      fuPkt hevc pt ts ssrc n0 n1 0 seq false false (rest.take chunk) ::
        tailPkts hevc rate pt ts ssrc n0 n1 chunk ((seq + 1) % 65536) f (rest.drop chunk) := by
  unfold tailPkts
  obtain ⟨f', rfl⟩ : ∃ f', f = f' + 1 := ⟨f - 1, by omega⟩
  conv => lhs; unfold fuLoop
  rw [if_pos hl]
  obtain ⟨y, ys, hy⟩ := fuLoop_cons hevc n0 n1 chunk f' false (rest.drop chunk)
  rw [hy]
  simp only [packLoop, List.map_cons]
  rw [posOf_fuPkt hevc rate pt ts ssrc n0 n1 0 seq false false _ (by simp)]

theorem tailPkts_last (seq f : Nat) (rest : Bytes) (hl : ¬ rest.length > chunk) :
    tailPkts hevc rate pt ts ssrc n0 n1 chunk seq (f + 1) rest =
      [fuPkt hevc pt ts ssrc n0 n1 1 seq false true rest] := by
  unfold tailPkts
  conv => lhs; unfold fuLoop
  rw [if_neg hl]
  simp only [packLoop, List.map_cons, List.map_nil]
  rw [posOf_fuPkt hevc rate pt ts ssrc n0 n1 1 seq false true _ (by simp)]

theorem fuPkt_seq (mark seq : Nat) (first last : Bool) (frag : Bytes) :
    (fuPkt hevc pt ts ssrc n0 n1 mark seq first last frag).hdr.seq = seq := rfl
theorem fuPkt_ts (mark seq : Nat) (first last : Bool) (frag : Bytes) :
    (fuPkt hevc pt ts ssrc n0 n1 mark seq first last frag).hdr.timestamp = ts := rfl
theorem fuPkt_pos (mark seq : Nat) (first last : Bool) (frag : Bytes) :
    (fuPkt hevc pt ts ssrc n0 n1 mark seq first last frag).pos = fuPosOf first last := rfl
theorem fuPkt_body (mark seq : Nat) (first last : Bool) (frag : Bytes) :
    (fuPkt hevc pt ts ssrc n0 n1 mark seq first last frag).body = .ok (fuHeader hevc n0 n1 first last ++ frag) := by
  unfold fuPkt; rw [body_withPos, body_mkPacket]

/-- the walk from the start packet reaches the end packet -/
theorem tail_collect (hc : 0 < chunk) : ∀ (fuel : Nat) (rest : Bytes) (seq prevSeq : Nat) (T : List RtpPacket),
    rest.length < fuel → prevSeq < 65536 → seq = (prevSeq + 1) % 65536 →
    fuCollect prevSeq (tailPkts hevc rate pt ts ssrc n0 n1 chunk seq fuel rest ++ T)
      = some (tailPkts hevc rate pt ts ssrc n0 n1 chunk seq fuel rest, T) := by
  intro fuel
  induction fuel with
  | zero => intro rest seq prevSeq T h; omega
  | succ f ih =>
    intro rest seq prevSeq T hlen hp hs
    have hsub : subSeq seq prevSeq = 1 := (subSeq_eq_one seq prevSeq (by omega) hp).mpr hs
    by_cases hl : rest.length > chunk
    · have hlen' : (rest.drop chunk).length < f := by simp; omega
      rw [tailPkts_more hevc rate pt ts ssrc n0 n1 chunk seq f rest hl (by omega)]
      simp only [List.cons_append, fuCollect, fuPkt_seq, fuPkt_pos, hsub]
      rw [ih (rest.drop chunk) ((seq + 1) % 65536) seq T hlen' (by omega) rfl]
      simp [fuPosOf]
    · rw [tailPkts_last hevc rate pt ts ssrc n0 n1 chunk seq f rest hl]
      simp [fuCollect, fuPkt_seq, fuPkt_pos, hsub, fuPosOf]

/-- … and stops, with nothing unpacked, when the run is cut short -/
theorem tail_collect_none (hc : 0 < chunk) : ∀ (fuel : Nat) (rest : Bytes) (seq prevSeq j : Nat) (T : List RtpPacket),
    rest.length < fuel → prevSeq < 65536 → seq = (prevSeq + 1) % 65536 →
    j < (tailPkts hevc rate pt ts ssrc n0 n1 chunk seq fuel rest).length →
    (T = [] ∨ ∃ p T', T = p :: T' ∧ subSeq p.hdr.seq ((prevSeq + j) % 65536) ≠ 1) →
    fuCollect prevSeq ((tailPkts hevc rate pt ts ssrc n0 n1 chunk seq fuel rest).take j ++ T) = none := by
  intro fuel
  induction fuel with
  | zero => intro rest seq prevSeq j T h; omega
  | succ f ih =>
    intro rest seq prevSeq j T hlen hp hs hj hT
    cases j with
    | zero =>
      simp only [List.take_zero, List.nil_append]
      rcases hT with rfl | ⟨p, T', rfl, hne⟩
      · rfl
      · have : (prevSeq + 0) % 65536 = prevSeq := by omega
        rw [this] at hne
        simp [fuCollect, hne]
    | succ j' =>
      have hsub : subSeq seq prevSeq = 1 := (subSeq_eq_one seq prevSeq (by omega) hp).mpr hs
      by_cases hl : rest.length > chunk
      · have hlen' : (rest.drop chunk).length < f := by simp; omega
        rw [tailPkts_more hevc rate pt ts ssrc n0 n1 chunk seq f rest hl (by omega)] at hj ⊢
        simp only [List.take_succ_cons, List.cons_append, fuCollect, fuPkt_seq, fuPkt_pos, hsub]
        rw [ih (rest.drop chunk) ((seq + 1) % 65536) seq j' T hlen' (by omega) rfl (by simpa using hj)
          (by
            rcases hT with h | ⟨p, T', h, hne⟩
            · exact Or.inl h
            · refine Or.inr ⟨p, T', h, ?_⟩
              have : (seq + j') % 65536 = (prevSeq + (j' + 1)) % 65536 := by omega
              rw [this]; exact hne)]
        simp [fuPosOf]
      · rw [tailPkts_last hevc rate pt ts ssrc n0 n1 chunk seq f rest hl] at hj
        simp at hj

/-- the fragments, FU headers removed, are the bytes that were cut -/
theorem tail_bodies : ∀ (fuel : Nat) (rest : Bytes) (seq : Nat), rest.length < fuel → 0 < chunk →
    fuBodies (fuHeaderSize hevc) (tailPkts hevc rate pt ts ssrc n0 n1 chunk seq fuel rest) = .ok rest := by
  intro fuel
  induction fuel with
  | zero => intro rest seq h; omega
  | succ f ih =>
    intro rest seq hlen hc
    have hfrom : ∀ (first last : Bool) (frag : Bytes),
        from? "Body()[naluTypeLen+1:]" (fuHeader hevc n0 n1 first last ++ frag) (fuHeaderSize hevc) = .ok frag := by
      intro first last frag
      unfold from?
      rw [if_pos (by simp [fuHeader_length])]
      rw [List.drop_append_of_le_length (by simp [fuHeader_length]), List.drop_of_length_le (by simp [fuHeader_length])]
      rfl
    by_cases hl : rest.length > chunk
    · have hlen' : (rest.drop chunk).length < f := by simp; omega
      rw [tailPkts_more hevc rate pt ts ssrc n0 n1 chunk seq f rest hl (by omega)]
      simp only [fuBodies, fuPkt_body, bind, Except.bind, hfrom, ih (rest.drop chunk) _ hlen' hc, pure, Except.pure,
        List.take_append_drop]
    · rw [tailPkts_last hevc rate pt ts ssrc n0 n1 chunk seq f rest hl]
      simp only [fuBodies, fuPkt_body, bind, Except.bind, hfrom, pure, Except.pure, List.append_nil]

theorem tail_last : ∀ (fuel : Nat) (rest : Bytes) (seq : Nat) (d : RtpPacket), rest.length < fuel → 0 < chunk → seq < 65536 →
    ((tailPkts hevc rate pt ts ssrc n0 n1 chunk seq fuel rest).getLastD d).hdr.timestamp = ts ∧
    ((tailPkts hevc rate pt ts ssrc n0 n1 chunk seq fuel rest).getLastD d).hdr.seq
      = (seq + (tailPkts hevc rate pt ts ssrc n0 n1 chunk seq fuel rest).length - 1) % 65536 ∧
    1 ≤ (tailPkts hevc rate pt ts ssrc n0 n1 chunk seq fuel rest).length := by
  intro fuel
  induction fuel with
  | zero => intro rest seq d h; omega
  | succ f ih =>
    intro rest seq d hlen hc hs
    by_cases hl : rest.length > chunk
    · have hlen' : (rest.drop chunk).length < f := by simp; omega
      rw [tailPkts_more hevc rate pt ts ssrc n0 n1 chunk seq f rest hl (by omega)]
      have := ih (rest.drop chunk) ((seq + 1) % 65536) (fuPkt hevc pt ts ssrc n0 n1 0 seq false false (rest.take chunk)) hlen' hc (by omega)
      simp only [List.getLastD_cons, List.length_cons]
      refine ⟨this.1, ?_, by omega⟩
      rw [this.2.1]
      omega
    · rw [tailPkts_last hevc rate pt ts ssrc n0 n1 chunk seq f rest hl]
      simp [fuPkt_ts, fuPkt_seq, Nat.mod_eq_of_lt hs]

end fu

/-! ### `TryUnpackOne` on abstract stored packets -/

theorem try_single (hevc : Bool) (rate : Nat) (p : RtpPacket) (T : List RtpPacket) (b : Bytes)
    (hr : 1000 ≤ rate ∧ rate < 4294967296000) (hp : p.pos = 1) (hb : p.body = .ok b) :
    tryUnpackOneAvcHevc hevc rate (p :: T) =
      .ok (some ⟨[{ ts := msOf rate p.hdr.timestamp, payload := be32 b.length ++ b }], p.hdr.seq, T, 1⟩) := by
  simp [tryUnpackOneAvcHevc, hp, hb, tsMs_ok rate _ hr, bind, Except.bind, pure, Except.pure]

theorem try_fu_avc (rate : Nat) (first : RtpPacket) (more T : List RtpPacket) (ind fh : UInt8) (fr data : Bytes)
    (hr : 1000 ≤ rate ∧ rate < 4294967296000) (hp : first.pos = 2)
    (hcol : fuCollect first.hdr.seq (more ++ T) = some (more, T))
    (hfb : first.body = .ok (ind :: fh :: fr))
    (hdata : fuBodies 2 (first :: more) = .ok data) :
    tryUnpackOneAvcHevc false rate (first :: (more ++ T)) =
      .ok (some ⟨[{ ts := msOf rate (more.getLastD first).hdr.timestamp,
                    payload := be32 (1 + data.length) ++ [b8 (ind.toNat / 32 * 32 + fh.toNat % 32)] ++ data }],
                 (more.getLastD first).hdr.seq, T, 1 + more.length⟩) := by
  have hd : fuBodies 2 (first :: more) = .ok data := hdata
  simp only [tryUnpackOneAvcHevc, hp, hcol, tsMs_ok rate _ hr, hfb, bind, Except.bind, pure, Except.pure, idx?]
  simp [hd]

theorem try_fu_hevc (rate : Nat) (first : RtpPacket) (more T : List RtpPacket) (p0 p1 fh : UInt8) (fr data : Bytes)
    (hr : 1000 ≤ rate ∧ rate < 4294967296000) (hp : first.pos = 2)
    (hcol : fuCollect first.hdr.seq (more ++ T) = some (more, T))
    (hfb : first.body = .ok (p0 :: p1 :: fh :: fr))
    (hdata : fuBodies 3 (first :: more) = .ok data) :
    tryUnpackOneAvcHevc true rate (first :: (more ++ T)) =
      .ok (some ⟨[{ ts := msOf rate (more.getLastD first).hdr.timestamp,
                    payload := be32 (2 + data.length) ++ [b8 (p0.toNat / 128 * 128 + p0.toNat % 2 + fh.toNat % 64 * 2), p1] ++ data }],
                 (more.getLastD first).hdr.seq, T, 1 + more.length⟩) := by
  have hd : fuBodies 3 (first :: more) = .ok data := hdata
  simp only [tryUnpackOneAvcHevc, hp, hcol, tsMs_ok rate _ hr, hfb, bind, Except.bind, pure, Except.pure, idx?]
  simp [hd]

theorem try_fu_none (hevc : Bool) (rate : Nat) (first : RtpPacket) (L : List RtpPacket) (hp : first.pos = 2)
    (hcol : fuCollect first.hdr.seq L = none) :
    tryUnpackOneAvcHevc hevc rate (first :: L) = .ok none := by
  simp [tryUnpackOneAvcHevc, hp, hcol]

/-! ### one unit = the packets of one `RtpPacker.Pack` call -/

/-- what the protocol does with the packets `u` of one unit whose first sequence number is `firstSeq` -/
structure UnitFacts (pr : Proto) (u : List RtpPacket) (firstSeq : Nat) (out : List AvPacket) : Prop where
  len : 1 ≤ u.length
  seqs : ∀ i (h : i < u.length), u[i].hdr.seq = (firstSeq + i) % 65536
  hcalc : ∀ p ∈ u, ∃ q, pr.calcPosition p = .ok q ∧ q.hdr = p.hdr
  a1 : ∀ T, pr.tryUnpackOne (u.map (posOf pr) ++ T) = .ok (some ⟨out, (firstSeq + u.length - 1) % 65536, T, u.length⟩)
  a2 : ∀ j T, 1 ≤ j → j < u.length →
        (T = [] ∨ ∃ p T', T = p :: T' ∧ subSeq p.hdr.seq ((firstSeq + (j - 1)) % 65536) ≠ 1) →
        pr.tryUnpackOne ((u.take j).map (posOf pr) ++ T) = .ok none

theorem packLoop_seqs (pt ts ssrc : Nat) (ps : List Bytes) (seq : Nat) (hs : seq < 65536) (i : Nat)
    (h : i < (packLoop pt ts ssrc seq ps).length) : (packLoop pt ts ssrc seq ps)[i].hdr.seq = (seq + i) % 65536 := by
  have hi : i < ps.length := by rw [packLoop_length] at h; exact h
  have := packLoop_get pt ts ssrc ps seq i hi hs
  rw [List.getElem?_eq_getElem h] at this
  simp only [Option.some.injEq] at this
  rw [this]; rfl

theorem packLoop_mem (pt ts ssrc : Nat) : ∀ (ps : List Bytes) (seq : Nat) (p : RtpPacket), p ∈ packLoop pt ts ssrc seq ps →
    ∃ mark seq' pl, pl ∈ ps ∧ p = mkPacket pt ts ssrc mark seq' pl := by
  intro ps
  induction ps with
  | nil => intro seq p h; simp [packLoop] at h
  | cons x rest ih =>
    intro seq p h
    cases rest with
    | nil => simp [packLoop] at h; exact ⟨1, seq, x, by simp, h⟩
    | cons y r =>
      simp only [packLoop, List.mem_cons] at h
      rcases h with h | h
      · exact ⟨0, seq, x, by simp, h⟩
      · obtain ⟨m, s', pl, hm, he⟩ := ih _ p (by simpa [List.mem_cons] using h)
        exact ⟨m, s', pl, by simp [List.mem_cons] at hm ⊢; exact Or.inr hm, he⟩

theorem fuLoop_mem (hevc : Bool) (n0 n1 : UInt8) (chunk : Nat) : ∀ (fuel : Nat) (first : Bool) (rest pl : Bytes),
    pl ∈ fuLoop hevc n0 n1 chunk fuel first rest →
    ∃ f l frag, ¬ (f = true ∧ l = true) ∧ pl = fuHeader hevc n0 n1 f l ++ frag := by
  intro fuel
  induction fuel with
  | zero => intro first rest pl h; simp [fuLoop] at h
  | succ k ih =>
    intro first rest pl h
    unfold fuLoop at h
    by_cases hl : rest.length > chunk
    · rw [if_pos hl] at h
      rcases List.mem_cons.mp h with h | h
      · exact ⟨first, false, _, by simp, h⟩
      · exact ih _ _ _ h
    · rw [if_neg hl] at h
      simp at h
      exact ⟨false, true, _, by simp, h⟩

/-- the stored packets of a fragmented NAL unit: the start packet, then the tail -/
theorem fu_unit_map (hevc : Bool) (rate pt ts ssrc seq chunk : Nat) (n0 n1 : UInt8) (k : Nat) (rest0 : Bytes)
    (hl : rest0.length > chunk) (hk : (rest0.drop chunk).length < k) :
    (packLoop pt ts ssrc seq (fuLoop hevc n0 n1 chunk (k + 1) true rest0)).map (posOf (protoAvcHevc hevc rate))
      = fuPkt hevc pt ts ssrc n0 n1 0 seq true false (rest0.take chunk) ::
          tailPkts hevc rate pt ts ssrc n0 n1 chunk ((seq + 1) % 65536) k (rest0.drop chunk) := by
  conv => lhs; unfold fuLoop
  rw [if_pos hl]
  obtain ⟨k', rfl⟩ : ∃ k', k = k' + 1 := ⟨k - 1, by omega⟩
  obtain ⟨y, ys, hy⟩ := fuLoop_cons hevc n0 n1 chunk k' false (rest0.drop chunk)
  unfold tailPkts
  rw [hy]
  simp only [packLoop, List.map_cons]
  rw [posOf_fuPkt hevc rate pt ts ssrc n0 n1 0 seq true false _ (by simp)]

theorem fuBodies_cons (hevc : Bool) (pt ts ssrc : Nat) (n0 n1 : UInt8) (mark seq : Nat) (first last : Bool) (frag : Bytes)
    (more : List RtpPacket) (r : Bytes) (hm : fuBodies (fuHeaderSize hevc) more = .ok r) :
    fuBodies (fuHeaderSize hevc) (fuPkt hevc pt ts ssrc n0 n1 mark seq first last frag :: more) = .ok (frag ++ r) := by
  have hfrom : from? "Body()[naluTypeLen+1:]" (fuHeader hevc n0 n1 first last ++ frag) (fuHeaderSize hevc) = .ok frag := by
    unfold from?
    rw [if_pos (by simp [fuHeader_length])]
    rw [List.drop_append_of_le_length (by simp [fuHeader_length]), List.drop_of_length_le (by simp [fuHeader_length])]
    rfl
  simp only [fuBodies, fuPkt_body, bind, Except.bind, hfrom, hm, pure, Except.pure]

theorem fu_a1_avc (rate pt ts ssrc maxSize seq : Nat) (h n1 : UInt8) (t : Bytes) (hr : 1000 ≤ rate ∧ rate < 4294967296000)
    (hs : seq < 65536) (hF : h.toNat < 128) (h1 : ¬ (h :: t).length ≤ maxSize) (hm : 2 < maxSize) (T : List RtpPacket) :
    tryUnpackOneAvcHevc false rate
        ((packLoop pt ts ssrc seq (fuLoop false h n1 (maxSize - 2) (t.length + 1) true t)).map (posOf (protoAvcHevc false rate)) ++ T)
      = .ok (some ⟨[{ ts := msOf rate ts, payload := be32 (t.length + 1) ++ h :: t }],
                   (seq + (packLoop pt ts ssrc seq (fuLoop false h n1 (maxSize - 2) (t.length + 1) true t)).length - 1) % 65536, T,
                   (packLoop pt ts ssrc seq (fuLoop false h n1 (maxSize - 2) (t.length + 1) true t)).length⟩) := by
  have hl : t.length > maxSize - 2 := by simp at h1; omega
  have hk : (t.drop (maxSize - 2)).length < t.length := by simp; omega
  have hmap := fu_unit_map false rate pt ts ssrc seq (maxSize - 2) h n1 t.length t hl hk
  have hlen := congrArg List.length hmap
  simp only [List.length_map, List.length_cons] at hlen
  rw [hmap, hlen, List.cons_append]
  have hcol := tail_collect false rate pt ts ssrc h n1 (maxSize - 2) (by omega) t.length (t.drop (maxSize - 2))
    ((seq + 1) % 65536) seq T hk hs rfl
  have hbod := tail_bodies false rate pt ts ssrc h n1 (maxSize - 2) t.length (t.drop (maxSize - 2)) ((seq + 1) % 65536) hk (by omega)
  have hdata := fuBodies_cons false pt ts ssrc h n1 0 seq true false (t.take (maxSize - 2)) _ _ hbod
  have hlast := tail_last false rate pt ts ssrc h n1 (maxSize - 2) t.length (t.drop (maxSize - 2)) ((seq + 1) % 65536)
    (fuPkt false pt ts ssrc h n1 0 seq true false (t.take (maxSize - 2))) hk (by omega) (by omega)
  have hfb : (fuPkt false pt ts ssrc h n1 0 seq true false (t.take (maxSize - 2))).body
      = .ok (b8 (28 + h.toNat / 32 % 4 * 32) :: b8 (h.toNat % 32 + 128) :: t.take (maxSize - 2)) := by
    rw [fuPkt_body, fuHeader_avc]; rfl
  rw [try_fu_avc rate _ _ T _ _ _ _ hr rfl hcol hfb hdata, hlast.1, hlast.2.1, avc_hdr_back h 128 hF (by simp),
    List.take_append_drop]
  have e1 : 1 + t.length = t.length + 1 := by omega
  have e2 : ((seq + 1) % 65536 + (tailPkts false rate pt ts ssrc h n1 (maxSize - 2) ((seq + 1) % 65536) t.length
      (t.drop (maxSize - 2))).length - 1) % 65536 = (seq + ((tailPkts false rate pt ts ssrc h n1 (maxSize - 2) ((seq + 1) % 65536) t.length
      (t.drop (maxSize - 2))).length + 1) - 1) % 65536 := by have := hlast.2.2; omega
  have e3 : 1 + (tailPkts false rate pt ts ssrc h n1 (maxSize - 2) ((seq + 1) % 65536) t.length (t.drop (maxSize - 2))).length
      = (tailPkts false rate pt ts ssrc h n1 (maxSize - 2) ((seq + 1) % 65536) t.length (t.drop (maxSize - 2))).length + 1 := by omega
  rw [e1, e2, e3]
  rfl

theorem fu_a1_hevc (rate pt ts ssrc maxSize seq : Nat) (h0 h1' : UInt8) (t : Bytes) (hr : 1000 ≤ rate ∧ rate < 4294967296000)
    (hs : seq < 65536) (h1 : ¬ (h0 :: h1' :: t).length ≤ maxSize) (hm : 3 < maxSize) (T : List RtpPacket) :
    tryUnpackOneAvcHevc true rate
        ((packLoop pt ts ssrc seq (fuLoop true h0 h1' (maxSize - 3) (t.length + 1 + 1) true t)).map (posOf (protoAvcHevc true rate)) ++ T)
      = .ok (some ⟨[{ ts := msOf rate ts, payload := be32 (t.length + 1 + 1) ++ h0 :: h1' :: t }],
                   (seq + (packLoop pt ts ssrc seq (fuLoop true h0 h1' (maxSize - 3) (t.length + 1 + 1) true t)).length - 1) % 65536, T,
                   (packLoop pt ts ssrc seq (fuLoop true h0 h1' (maxSize - 3) (t.length + 1 + 1) true t)).length⟩) := by
  have hx := h0.toNat_lt
  have hl : t.length > maxSize - 3 := by simp at h1; omega
  have hk : (t.drop (maxSize - 3)).length < t.length + 1 := by simp; omega
  have hmap := fu_unit_map true rate pt ts ssrc seq (maxSize - 3) h0 h1' (t.length + 1) t hl hk
  have hlen := congrArg List.length hmap
  simp only [List.length_map, List.length_cons] at hlen
  rw [hmap, hlen, List.cons_append]
  have hcol := tail_collect true rate pt ts ssrc h0 h1' (maxSize - 3) (by omega) (t.length + 1) (t.drop (maxSize - 3))
    ((seq + 1) % 65536) seq T hk hs rfl
  have hbod := tail_bodies true rate pt ts ssrc h0 h1' (maxSize - 3) (t.length + 1) (t.drop (maxSize - 3)) ((seq + 1) % 65536) hk (by omega)
  have hdata := fuBodies_cons true pt ts ssrc h0 h1' 0 seq true false (t.take (maxSize - 3)) _ _ hbod
  have hlast := tail_last true rate pt ts ssrc h0 h1' (maxSize - 3) (t.length + 1) (t.drop (maxSize - 3)) ((seq + 1) % 65536)
    (fuPkt true pt ts ssrc h0 h1' 0 seq true false (t.take (maxSize - 3))) hk (by omega) (by omega)
  have hfb : (fuPkt true pt ts ssrc h0 h1' 0 seq true false (t.take (maxSize - 3))).body
      = .ok (b8 (h0.toNat / 128 * 128 + 98 + h0.toNat % 2) :: h1' :: b8 (h0.toNat / 2 % 64 + 128) :: t.take (maxSize - 3)) := by
    rw [fuPkt_body, fuHeader_hevc]; rfl
  have hback : b8 ((b8 (h0.toNat / 128 * 128 + 98 + h0.toNat % 2)).toNat / 128 * 128 + (b8 (h0.toNat / 128 * 128 + 98 + h0.toNat % 2)).toNat % 2 +
      (b8 (h0.toNat / 2 % 64 + 128)).toNat % 64 * 2) = h0 := by
    simp only [b8_toNat]
    have : (h0.toNat / 128 * 128 + 98 + h0.toNat % 2) % 256 / 128 * 128 + (h0.toNat / 128 * 128 + 98 + h0.toNat % 2) % 256 % 2 +
        (h0.toNat / 2 % 64 + 128) % 256 % 64 * 2 = h0.toNat := by omega
    rw [this]; exact b8_of_toNat h0
  rw [try_fu_hevc rate _ _ T _ _ _ _ _ hr rfl hcol hfb hdata, hlast.1, hlast.2.1, hback, List.take_append_drop]
  have e1 : 2 + t.length = t.length + 1 + 1 := by omega
  have e2 : ((seq + 1) % 65536 + (tailPkts true rate pt ts ssrc h0 h1' (maxSize - 3) ((seq + 1) % 65536) (t.length + 1)
      (t.drop (maxSize - 3))).length - 1) % 65536 = (seq + ((tailPkts true rate pt ts ssrc h0 h1' (maxSize - 3) ((seq + 1) % 65536) (t.length + 1)
      (t.drop (maxSize - 3))).length + 1) - 1) % 65536 := by have := hlast.2.2; omega
  have e3 : 1 + (tailPkts true rate pt ts ssrc h0 h1' (maxSize - 3) ((seq + 1) % 65536) (t.length + 1) (t.drop (maxSize - 3))).length
      = (tailPkts true rate pt ts ssrc h0 h1' (maxSize - 3) ((seq + 1) % 65536) (t.length + 1) (t.drop (maxSize - 3))).length + 1 := by omega
  rw [e1, e2, e3]
  rfl

/-- an FU run cut short (next packet missing) is left in the list -/
theorem fu_a2 (hevc : Bool) (rate pt ts ssrc seq chunk : Nat) (n0 n1 : UInt8) (k : Nat) (rest0 : Bytes)
    (hl : rest0.length > chunk) (hk : (rest0.drop chunk).length < k) (hc : 0 < chunk) (hs : seq < 65536)
    (j : Nat) (T : List RtpPacket) (hj1 : 1 ≤ j)
    (hj2 : j < (packLoop pt ts ssrc seq (fuLoop hevc n0 n1 chunk (k + 1) true rest0)).length)
    (hT : T = [] ∨ ∃ p T', T = p :: T' ∧ subSeq p.hdr.seq ((seq + (j - 1)) % 65536) ≠ 1) :
    tryUnpackOneAvcHevc hevc rate
      (((packLoop pt ts ssrc seq (fuLoop hevc n0 n1 chunk (k + 1) true rest0)).take j).map (posOf (protoAvcHevc hevc rate)) ++ T)
      = .ok none := by
  have hmap := fu_unit_map hevc rate pt ts ssrc seq chunk n0 n1 k rest0 hl hk
  have hlen := congrArg List.length hmap
  simp only [List.length_map, List.length_cons] at hlen
  rw [List.map_take, hmap]
  obtain ⟨j', rfl⟩ : ∃ j', j = j' + 1 := ⟨j - 1, by omega⟩
  simp only [List.take_succ_cons, List.cons_append]
  apply try_fu_none hevc rate _ _ rfl
  exact tail_collect_none hevc rate pt ts ssrc n0 n1 chunk hc k (rest0.drop chunk) ((seq + 1) % 65536) seq j' T hk hs rfl
    (by omega) (by simpa using hT)

theorem unit_video (hevc : Bool) (rate pt ssrc maxSize seq ts : Nat) (nal : Bytes)
    (hr : 1000 ≤ rate ∧ rate < 4294967296000) (hs : seq < 65536) (hwf : NalWF hevc nal maxSize) :
    UnitFacts (protoAvcHevc hevc rate) (packLoop pt ts ssrc seq (nalPayloads hevc nal maxSize)) seq
      [{ ts := msOf rate ts, payload := be32 nal.length ++ nal }] := by
  have hlen : 1 ≤ (packLoop pt ts ssrc seq (nalPayloads hevc nal maxSize)).length := by
    rw [packLoop_length]; unfold nalPayloads
    by_cases h1 : nal.length ≤ maxSize
    · rw [if_pos h1]; simp
    · rw [if_neg h1]
      have : 0 < nal.length := by omega
      obtain ⟨k, hk⟩ : ∃ k, nal.length = k + 1 := ⟨nal.length - 1, by omega⟩
      rw [hk]
      obtain ⟨y, ys, hy⟩ := fuLoop_cons hevc (nal.getD 0 0) (nal.getD 1 0) (maxSize - fuHeaderSize hevc) k true (nal.drop (if hevc then 2 else 1))
      rw [hy]; simp
  refine ⟨hlen, fun i h => packLoop_seqs pt ts ssrc _ seq hs i h, ?_, ?_, ?_⟩
  all_goals
    unfold nalPayloads
    by_cases h1 : nal.length ≤ maxSize
  · -- calc, single
    rw [if_pos h1]
    intro p hp
    simp [packLoop] at hp
    subst hp
    unfold NalWF at hwf
    cases hevc with
    | false =>
      simp only [Bool.false_eq_true, if_false] at hwf
      match nal, hwf, h1 with
      | h :: t, hwf, h1 =>
        simp only [AvcNalWF] at hwf; rw [if_pos h1] at hwf
        exact ⟨_, calcAvc_single _ h t (body_mkPacket _ _ _ _ _ _) (by omega), rfl⟩
    | true =>
      simp only [if_true] at hwf
      match nal, hwf, h1 with
      | h0 :: h1' :: t, hwf, h1 =>
        simp only [HevcNalWF] at hwf; rw [if_pos h1] at hwf
        exact ⟨_, calcHevc_single _ h0 (h1' :: t) (body_mkPacket _ _ _ _ _ _) hwf, rfl⟩
  · -- calc, FU
    rw [if_neg h1]
    intro p hp
    obtain ⟨m, s', pl, hpl, rfl⟩ := packLoop_mem pt ts ssrc _ _ p hp
    obtain ⟨f, l, frag, hfl, rfl⟩ := fuLoop_mem hevc _ _ _ _ _ _ _ hpl
    exact ⟨_, posOf_fu hevc rate pt ts ssrc m s' _ _ f l frag hfl, rfl⟩
  · -- a1, single
    rw [if_pos h1]
    intro T
    unfold NalWF at hwf
    cases hevc with
    | false =>
      simp only [Bool.false_eq_true, if_false] at hwf
      match nal, hwf, h1 with
      | h :: t, hwf, h1 =>
        simp only [AvcNalWF] at hwf; rw [if_pos h1] at hwf
        have hb := body_mkPacket pt ts ssrc 1 seq (h :: t)
        simp only [packLoop, List.map_cons, List.map_nil, posOf, protoAvcHevc, Bool.false_eq_true, if_false,
          calcAvc_single _ h t hb (by omega), List.cons_append, List.nil_append]
        rw [try_single false rate _ T (h :: t) hr rfl (by rw [body_withPos]; exact hb)]
        simp [mkPacket, makeRtpPacket, Nat.mod_eq_of_lt hs]
    | true =>
      simp only [if_true] at hwf
      match nal, hwf, h1 with
      | h0 :: h1' :: t, hwf, h1 =>
        simp only [HevcNalWF] at hwf; rw [if_pos h1] at hwf
        have hb := body_mkPacket pt ts ssrc 1 seq (h0 :: h1' :: t)
        simp only [packLoop, List.map_cons, List.map_nil, posOf, protoAvcHevc, if_true,
          calcHevc_single _ h0 (h1' :: t) hb hwf, List.cons_append, List.nil_append]
        rw [try_single true rate _ T (h0 :: h1' :: t) hr rfl (by rw [body_withPos]; exact hb)]
        simp [mkPacket, makeRtpPacket, Nat.mod_eq_of_lt hs]
  · -- a1, FU
    rw [if_neg h1]
    intro T
    unfold NalWF at hwf
    cases hevc with
    | false =>
      simp only [Bool.false_eq_true, if_false] at hwf
      match nal, hwf, h1 with
      | h :: t, hwf, h1 =>
        simp only [AvcNalWF] at hwf; rw [if_neg h1] at hwf
        simp only [protoAvcHevc, Bool.false_eq_true, if_false, fuHeaderSize, List.drop_succ_cons, List.drop_zero,
          List.length_cons]
        have hd : (h :: t).getD 0 0 = h := by simp
        rw [hd]
        exact fu_a1_avc rate pt ts ssrc maxSize seq h _ t hr hs hwf.1 h1 hwf.2 T
    | true =>
      simp only [if_true] at hwf
      match nal, hwf, h1 with
      | h0 :: h1' :: t, hwf, h1 =>
        simp only [HevcNalWF] at hwf; rw [if_neg h1] at hwf
        simp only [protoAvcHevc, if_true, fuHeaderSize, List.drop_succ_cons, List.drop_zero, List.length_cons]
        have hd0 : (h0 :: h1' :: t).getD 0 0 = h0 := by simp
        have hd1 : (h0 :: h1' :: t).getD 1 0 = h1' := by simp
        rw [hd0, hd1]
        exact fu_a1_hevc rate pt ts ssrc maxSize seq h0 h1' t hr hs h1 hwf T
  · -- a2, single
    rw [if_pos h1]
    intro j T hj1 hj2
    simp [packLoop] at hj2
    omega
  · -- a2, FU
    rw [if_neg h1]
    intro j T hj1 hj2 hT
    have hfit := hwf.fits
    have hhs : fuHeaderSize hevc < maxSize := by rcases hfit with h | h; exact absurd h h1; exact h
    unfold NalWF at hwf
    cases hevc with
    | false =>
      simp only [Bool.false_eq_true, if_false] at hwf hj2 hhs ⊢
      have hnl : 1 ≤ nal.length := by match nal, hwf with | _ :: _, _ => simp
      obtain ⟨k, hk⟩ : ∃ k, nal.length = k + 1 := ⟨nal.length - 1, by omega⟩
      rw [hk] at hj2 ⊢
      simp only [fuHeaderSize, Bool.false_eq_true, if_false] at hhs hj2 ⊢
      exact fu_a2 false rate pt ts ssrc seq (maxSize - 2) _ _ k _ (by simp; omega) (by simp; omega) (by omega) hs
        j T hj1 hj2 hT
    | true =>
      simp only [if_true] at hwf hj2 hhs ⊢
      have hnl : 2 ≤ nal.length := by match nal, hwf with | _ :: _ :: _, _ => simp
      obtain ⟨k, hk⟩ : ∃ k, nal.length = k + 1 := ⟨nal.length - 1, by omega⟩
      rw [hk] at hj2 ⊢
      simp only [fuHeaderSize, if_true] at hhs hj2 ⊢
      exact fu_a2 true rate pt ts ssrc seq (maxSize - 3) _ _ k _ (by simp; omega) (by simp; omega) (by omega) hs
        j T hj1 hj2 hT

theorem unit_single_common (pr : Proto) (pt ts ssrc seq : Nat) (payload : Bytes) (hs : seq < 65536) (out : List AvPacket)
    (hc : pr.calcPosition (mkPacket pt ts ssrc 1 seq payload) = .ok (mkPacket pt ts ssrc 1 seq payload))
    (ha : ∀ T, pr.tryUnpackOne (mkPacket pt ts ssrc 1 seq payload :: T) = .ok (some ⟨out, seq, T, 1⟩)) :
    UnitFacts pr (packLoop pt ts ssrc seq [payload]) seq out := by
  refine ⟨by simp [packLoop], fun i h => packLoop_seqs pt ts ssrc _ seq hs i h, ?_, ?_, ?_⟩
  · intro p hp
    simp [packLoop] at hp
    subst hp
    exact ⟨_, hc, rfl⟩
  · intro T
    simp only [packLoop, List.map_cons, List.map_nil, posOf, hc, List.cons_append, List.nil_append, List.length_cons,
      List.length_nil]
    rw [ha T]
    simp [Nat.mod_eq_of_lt hs]
  · intro j T hj1 hj2
    simp [packLoop] at hj2
    omega

theorem parseAu_single (a b : UInt8) (frame : Bytes) :
    parseAu (0 :: 16 :: a :: b :: frame) = .ok [⟨(a.toNat * 256 + b.toNat / 8 * 8) / 8, 4⟩] := by
  have hb : rd16 (0 : UInt8) 16 = 16 := by decide
  simp [parseAu, parseAuLoop, idx?, bind, Except.bind, pure, Except.pure, hb]
  rw [if_neg (by omega), if_neg (by omega)]

theorem try_aac_single (rate : Nat) (p : RtpPacket) (T : List RtpPacket) (a b : UInt8) (frame : Bytes)
    (hr : 1000 ≤ rate ∧ rate < 4294967296000) (hb : p.body = .ok (0 :: 16 :: a :: b :: frame))
    (hsz : (a.toNat * 256 + b.toNat / 8 * 8) / 8 = frame.length) :
    tryUnpackOneAac rate (p :: T) =
      .ok (some ⟨[{ ts := msOf rate p.hdr.timestamp, payload := frame }], p.hdr.seq, T, 1⟩) := by
  simp only [tryUnpackOneAac, hb, bind, Except.bind, parseAu_single, hsz]
  simp [from?, tsMs_ok rate _ hr, pure, Except.pure]

theorem try_raw (rate : Nat) (p : RtpPacket) (T : List RtpPacket) (frame : Bytes)
    (hr : 1000 ≤ rate ∧ rate < 4294967296000) (hb : p.body = .ok frame) :
    tryUnpackOneRaw rate (p :: T) =
      .ok (some ⟨[{ ts := msOf rate p.hdr.timestamp, payload := frame }], p.hdr.seq, T, 1⟩) := by
  simp only [tryUnpackOneRaw, hb, bind, Except.bind, tsMs_ok rate _ hr]
  simp [pure, Except.pure]

theorem unit_aac (rate pt ssrc maxSize seq ts : Nat) (frame : Bytes) (hr : 1000 ≤ rate ∧ rate < 4294967296000)
    (hs : seq < 65536) (h0 : 0 < frame.length) (hl : frame.length < 8192) (hm : 0 < maxSize) :
    UnitFacts (protoAac rate) (packLoop pt ts ssrc seq (aacPack frame maxSize)) seq
      [{ ts := msOf rate ts, payload := frame }] := by
  have hne : frame ≠ [] := by intro e; subst e; simp at h0
  have hp : aacPack frame maxSize = [[0, 16, b8 (frame.length / 32), b8 (frame.length % 32 * 8)] ++ frame] := by
    unfold aacPack; rw [if_neg (by simp [hne]; omega)]
  rw [hp]
  apply unit_single_common _ pt ts ssrc seq _ hs _ rfl
  intro T
  have hsz : ((b8 (frame.length / 32)).toNat * 256 + (b8 (frame.length % 32 * 8)).toNat / 8 * 8) / 8 = frame.length := by
    simp only [b8_toNat]; omega
  have hb := body_mkPacket pt ts ssrc 1 seq ([0, 16, b8 (frame.length / 32), b8 (frame.length % 32 * 8)] ++ frame)
  exact try_aac_single rate _ T _ _ frame hr hb hsz

theorem unit_raw (rate pt ssrc maxSize seq ts : Nat) (frame : Bytes) (hr : 1000 ≤ rate ∧ rate < 4294967296000)
    (hs : seq < 65536) (h0 : 0 < frame.length) (hm : 0 < maxSize) :
    UnitFacts (protoRaw rate) (packLoop pt ts ssrc seq (rawPack frame maxSize)) seq
      [{ ts := msOf rate ts, payload := frame }] := by
  have hne : frame ≠ [] := by intro e; subst e; simp at h0
  have hp : rawPack frame maxSize = [frame] := by
    unfold rawPack; rw [if_neg (by simp [hne]; omega)]
  rw [hp]
  apply unit_single_common _ pt ts ssrc seq _ hs _ rfl
  intro T
  exact try_raw rate _ T frame hr (body_mkPacket pt ts ssrc 1 seq frame)

end Lal.RtpUnpack
