import LalModel.Model.Ws
import LalModel.Spec.WsSpec
import LalModel.Proof.Bytes
namespace Lal.Ws
open Lal Lal.WsSpec

theorem subHeader_bytes (n : Nat) :
    makeFrameHeader (subHeader n) =
      if n < 126 then [130, b8 n]
      else if n ≤ 65535 then [130, 126] ++ be16 n
      else [130, 127] ++ be64 n := by
  simp only [makeFrameHeader, subHeader, Ws.bit]
  by_cases h1 : n < 126
  · simp [h1, b8]
  · by_cases h2 : n ≤ 65535
    · simp [h1, h2, b8]
    · simp [h1, h2, b8]

/-- header form chosen exactly at the RFC 6455 boundaries -/
theorem subHeader_length (n : Nat) :
    (makeFrameHeader (subHeader n)).length = if n < 126 then 2 else if n ≤ 65535 then 4 else 10 := by
  rw [subHeader_bytes]; (repeat' split) <;> simp

/-- One `Write` over WebSocket is read by an RFC 6455 reader as exactly one final,
    binary, unmasked frame carrying the unit. -/
theorem readFrame_subWrite (p r : Bytes) (h : p.length < 9223372036854775808) :
    readFrame ((subWrite true p).flatten ++ r) = some ({ fin := true, opcode := 2, payload := p }, r) := by
  simp only [subWrite, if_true, List.flatten_cons, List.flatten_nil, List.append_nil, subHeader_bytes]
  by_cases h1 : p.length < 126
  · simp only [h1, if_true, List.cons_append, List.nil_append, readFrame]
    have e1 : (130 : UInt8).toNat = 130 := by decide
    simp only [e1, b8_toNat]
    have hm : p.length % 256 = p.length := by omega
    have hd : p.length / 128 = 0 := by omega
    have hm2 : p.length % 128 = p.length := by omega
    simp [hm, hd, hm2, h1]
  · by_cases h2 : p.length ≤ 65535
    · simp only [h1, h2, if_true, if_false, List.cons_append, List.nil_append, readFrame, be16]
      have e1 : (130 : UInt8).toNat = 130 := by decide
      have e2 : (126 : UInt8).toNat = 126 := by decide
      have e3 : rd16 (b8 (p.length/256)) (b8 p.length) = p.length := rd16_be16 _ (by omega)
      simp [e1, e2, e3]
      omega
    · simp only [h1, h2, if_false, List.cons_append, List.nil_append, readFrame, be64]
      have e1 : (130 : UInt8).toNat = 130 := by decide
      have e2 : (127 : UInt8).toNat = 127 := by decide
      have e3 := rd64_be64 p.length (by omega)
      simp [e1, e2, e3]
      omega

theorem subWrite_flatten_length (p : Bytes) :
    ((subWrite true p).flatten).length = p.length + (if p.length < 126 then 2 else if p.length ≤ 65535 then 4 else 10) := by
  simp only [subWrite, if_true, List.flatten_cons, List.flatten_nil, List.append_nil, List.length_append,
    subHeader_length]; omega

/-- Any sequence of units: the frame payloads are the units, so their
    concatenation is the concatenation of what was written. -/
theorem readFrames_units (units : List Bytes) (hl : ∀ u ∈ units, u.length < 9223372036854775808) :
    ∀ fuel, fuel ≥ (units.flatMap fun u => (subWrite true u).flatten).length →
    readFrames fuel (units.flatMap fun u => (subWrite true u).flatten)
      = some (units.map fun u => { fin := true, opcode := 2, payload := u }) := by
  induction units with
  | nil => intro fuel _; cases fuel <;> simp [readFrames]
  | cons u us ih =>
    intro fuel hf
    have hu := hl u (by simp)
    have hus : ∀ v ∈ us, v.length < 9223372036854775808 := fun v hv => hl v (by simp [hv])
    simp only [List.flatMap_cons, List.length_append] at hf ⊢
    have hpos : ((subWrite true u).flatten).length ≥ 2 := by
      rw [subWrite_flatten_length]; (repeat' split) <;> omega
    cases fuel with
    | zero => omega
    | succ f =>
      have hne : ∃ c cs, (subWrite true u).flatten ++ (us.flatMap fun u => (subWrite true u).flatten) = c :: cs := by
        cases hh : (subWrite true u).flatten with
        | nil => rw [hh] at hpos; simp at hpos
        | cons c cs => exact ⟨c, _, rfl⟩
      obtain ⟨c, cs, hc⟩ := hne
      have hrd := readFrame_subWrite u (us.flatMap fun u => (subWrite true u).flatten) hu
      rw [hc] at hrd ⊢
      simp only [readFrames, hrd]
      rw [ih hus f (by omega)]
      simp

end Lal.Ws
