import LalModel.Proof.Amf0Meta
/- float64(int) as modelled for BuildMetadata, read by the IEEE-754 reading of the specification side, is the
   integer again (|i| < 2^53). Helper lemmas for Props/C18.lean. -/
namespace Lal.Amf0
open Lal

theorem log2f_spec : ∀ (f n : Nat), 0 < n → n < 2 ^ f → 2 ^ log2f f n ≤ n ∧ n < 2 ^ (log2f f n + 1)
  | 0, n, h0, h => by simp at h; omega
  | f + 1, n, h0, h => by
    unfold log2f
    by_cases h2 : n ≥ 2
    · rw [if_pos h2]
      have hlt : n / 2 < 2 ^ f := by
        rw [Nat.pow_succ] at h; omega
      have ih := log2f_spec f (n / 2) (by omega) hlt
      rw [Nat.pow_succ, Nat.pow_succ]
      rw [Nat.pow_succ] at ih
      omega
    · rw [if_neg h2]
      simp; omega

/-- the specification-side reading of the 8 bytes `be64 T` in terms of `T` -/
theorem f64ToInt?_be64 (T : Nat) (hT : T < 18446744073709551616) :
    Amf0Spec.f64ToInt? (be64 T) =
      (let sign := T / 2 ^ 63
       let ex := T / 2 ^ 52 % 2048
       let frac := T % 2 ^ 52
       let mag : Option Nat :=
         if ex = 0 then (if frac = 0 then some 0 else none)
         else if ex = 2047 then none
         else
           let m := 2 ^ 52 + frac
           if ex ≥ 1075 then some (m * 2 ^ (ex - 1075))
           else if 1075 - ex ≤ 52 ∧ m % 2 ^ (1075 - ex) = 0 then some (m / 2 ^ (1075 - ex))
           else none
       match mag with
       | some k => some (if sign = 1 then -(k : Int) else (k : Int))
       | none => none) := by
  have e : ((((((((b8 (T / 72057594037927936)).toNat * 256 + (b8 (T / 281474976710656)).toNat) * 256 +
      (b8 (T / 1099511627776)).toNat) * 256 + (b8 (T / 4294967296)).toNat) * 256 + (b8 (T / 16777216)).toNat) * 256 +
      (b8 (T / 65536)).toNat) * 256 + (b8 (T / 256)).toNat) * 256 + (b8 T).toNat) = T := by
    simp only [b8_toNat]; omega
  simp only [Amf0Spec.f64ToInt?, be64, e]
  rfl

theorem f64_nat_roundtrip (n : Nat) (h0 : 0 < n) (h : n < 2 ^ 53) (s : Nat) (hs : s = 0 ∨ s = 1) :
    Amf0Spec.f64ToInt? (be64 (s * 2 ^ 63 + f64BitsOfNat n)) = some (if s = 1 then -(n : Int) else (n : Int)) := by
  obtain ⟨hlo, hhi⟩ := log2f_spec 64 n h0 (by have : (2:Nat) ^ 53 < 2 ^ 64 := by decide
                                              omega)
  generalize he : log2f 64 n = e at hlo hhi
  have he52 : e ≤ 52 := by
    apply Classical.byContradiction
    intro hn
    have : 2 ^ 53 ≤ 2 ^ e := Nat.pow_le_pow_right (by decide) (by omega)
    omega
  -- M = n * 2^(52-e) is the 53-bit significand
  have hM1 : 2 ^ 52 ≤ n * 2 ^ (52 - e) := by
    have : 2 ^ e * 2 ^ (52 - e) = 2 ^ 52 := by rw [← Nat.pow_add]; congr 1; omega
    rw [← this]
    exact Nat.mul_le_mul_right _ hlo
  have hM2 : n * 2 ^ (52 - e) < 2 ^ 53 := by
    have : 2 ^ (e + 1) * 2 ^ (52 - e) = 2 ^ 53 := by rw [← Nat.pow_add]; congr 1; omega
    rw [← this]
    exact Nat.mul_lt_mul_of_pos_right hhi (Nat.two_pow_pos _)
  have hbits : f64BitsOfNat n = (e + 1023) * 2 ^ 52 + (n * 2 ^ (52 - e) - 2 ^ 52) := by
    unfold f64BitsOfNat
    rw [if_neg (by omega)]
    simp only [he, if_pos he52]
  generalize hMd : n * 2 ^ (52 - e) = M at hM1 hM2 hbits
  have hpos : 0 < 2 ^ (52 - e) := Nat.two_pow_pos _
  rw [f64ToInt?_be64 _ (by rw [hbits]; rcases hs with rfl | rfl <;> omega), hbits]
  have hsign : (s * 2 ^ 63 + ((e + 1023) * 2 ^ 52 + (M - 2 ^ 52))) / 2 ^ 63 = s := by
    rcases hs with rfl | rfl <;> omega
  have hex : (s * 2 ^ 63 + ((e + 1023) * 2 ^ 52 + (M - 2 ^ 52))) / 2 ^ 52 % 2048 = e + 1023 := by
    rcases hs with rfl | rfl <;> omega
  have hfrac : (s * 2 ^ 63 + ((e + 1023) * 2 ^ 52 + (M - 2 ^ 52))) % 2 ^ 52 = M - 2 ^ 52 := by
    rcases hs with rfl | rfl <;> omega
  simp only [hsign, hex, hfrac]
  rw [if_neg (by omega), if_neg (by omega)]
  have hm : 2 ^ 52 + (M - 2 ^ 52) = M := by omega
  simp only [hm]
  by_cases h52 : e = 52
  · subst h52
    rw [if_pos (by omega)]
    have : M = n := by rw [← hMd]; simp
    simp [this]
  · rw [if_neg (by omega)]
    have ht : 1075 - (e + 1023) = 52 - e := by omega
    rw [ht]
    have hmod : M % 2 ^ (52 - e) = 0 := by rw [← hMd]; exact Nat.mul_mod_left _ _
    have hdiv : M / 2 ^ (52 - e) = n := by rw [← hMd]; exact Nat.mul_div_cancel _ hpos
    rw [if_pos ⟨by omega, hmod⟩, hdiv]

/-- the double `float64(i)` the model writes reads as the integer `i` (|i| < 2^53) -/
theorem f64_int_roundtrip (i : Int) (h : i.natAbs < 2 ^ 53) : Amf0Spec.f64ToInt? (f64OfInt i) = some i := by
  unfold f64OfInt
  by_cases h0 : i = 0
  · subst h0; decide
  · have hn : 0 < i.natAbs := Int.natAbs_pos.mpr h0
    by_cases hneg : i < 0
    · rw [if_pos hneg]
      have := f64_nat_roundtrip i.natAbs hn h 1 (Or.inr rfl)
      simp only [Nat.one_mul, if_true] at this
      rw [this]
      congr 1
      omega
    · rw [if_neg hneg]
      have := f64_nat_roundtrip i.natAbs hn h 0 (Or.inl rfl)
      simp only [Nat.zero_mul] at this
      rw [this]
      simp
      omega

end Lal.Amf0
