import LalModel.Proof.RtspContent
import LalModel.Proof.TsAudioFinal
/-
  The analysis phase of `Rtmp2RtspRemuxer.FeedRtmpMsg` on the messages of a well-formed publish (classic AVC / HEVC
  video, AAC audio or none): headers are collected, frames are cached, and when `doAnalyze` is satisfied the SDP goes
  out, the cache is replayed through `remux` in order and every later frame goes straight to `remux` — so the RTP
  packets of the whole run are `remuxAll` of all frame messages from the state the analysis ended in.
-/
namespace Lal.RtspRun
open Lal Lal.Rtp Lal.TsRmx Lal.RtspRmx Lal.Publish Lal.TsContent Lal.RtspContent Lal.TsFinal

variable (cd : Sdp.Codec) (tool : Bytes)

/-- the frame elements of a publish (what is cached / remuxed) -/
def frameElems : List Elem → List Elem
  | [] => []
  | e :: es => if e.isVideoConfig || (match e with | .aacConfig .. => true | _ => false) then frameElems es else e :: frameElems es

def isAacConfig : Elem → Bool
  | .aacConfig .. => true
  | _ => false

/-! ### `remux` does not look at / touch the analysis bookkeeping -/

theorem getAudioPacker_fields (s : RtspRmx.St) :
    (getAudioPacker s).1.analyzeDone = s.analyzeDone ∧ (getAudioPacker s).1.msgCache = s.msgCache ∧ (getAudioPacker s).1.sps = s.sps
    ∧ (getAudioPacker s).1.pps = s.pps ∧ (getAudioPacker s).1.vps = s.vps ∧ (getAudioPacker s).1.asc = s.asc
    ∧ (getAudioPacker s).1.audioPt = s.audioPt ∧ (getAudioPacker s).1.videoPt = s.videoPt
    ∧ (getAudioPacker s).1.audioSampleRate = s.audioSampleRate := by
  unfold getAudioPacker
  split
  · exact ⟨rfl, rfl, rfl, rfl, rfl, rfl, rfl, rfl, rfl⟩
  · repeat' split
    all_goals exact ⟨rfl, rfl, rfl, rfl, rfl, rfl, rfl, rfl, rfl⟩

theorem getVideoPacker_fields (s : RtspRmx.St) :
    (getVideoPacker s).1.analyzeDone = s.analyzeDone ∧ (getVideoPacker s).1.msgCache = s.msgCache ∧ (getVideoPacker s).1.sps = s.sps
    ∧ (getVideoPacker s).1.pps = s.pps ∧ (getVideoPacker s).1.vps = s.vps ∧ (getVideoPacker s).1.asc = s.asc
    ∧ (getVideoPacker s).1.audioPt = s.audioPt ∧ (getVideoPacker s).1.videoPt = s.videoPt
    ∧ (getVideoPacker s).1.audioSampleRate = s.audioSampleRate := by
  unfold getVideoPacker
  split
  · exact ⟨rfl, rfl, rfl, rfl, rfl, rfl, rfl, rfl, rfl⟩
  · split <;> exact ⟨rfl, rfl, rfl, rfl, rfl, rfl, rfl, rfl, rfl⟩

/-- the configuration part of the state: everything `remux` reads except the two packers -/
structure SameCfg (s t : RtspRmx.St) : Prop where
  sps : t.sps = s.sps
  pps : t.pps = s.pps
  vps : t.vps = s.vps
  asc : t.asc = s.asc
  apt : t.audioPt = s.audioPt
  vpt : t.videoPt = s.videoPt
  rate : t.audioSampleRate = s.audioSampleRate

theorem sameCfg_refl (s : RtspRmx.St) : SameCfg s s := ⟨rfl, rfl, rfl, rfl, rfl, rfl, rfl⟩

theorem sameCfg_trans {a b c : RtspRmx.St} (h1 : SameCfg a b) (h2 : SameCfg b c) : SameCfg a c :=
  ⟨h2.sps.trans h1.sps, h2.pps.trans h1.pps, h2.vps.trans h1.vps, h2.asc.trans h1.asc, h2.apt.trans h1.apt, h2.vpt.trans h1.vpt,
   h2.rate.trans h1.rate⟩

theorem remux_fields (s : RtspRmx.St) (m : Msg) :
    (remux s m).1.analyzeDone = s.analyzeDone ∧ (remux s m).1.msgCache = s.msgCache ∧ SameCfg s (remux s m).1 := by
  unfold remux
  split
  · have h := getAudioPacker_fields s
    cases hg : getAudioPacker s with
    | mk s' o =>
      rw [hg] at h
      cases o with
      | none => exact ⟨h.1, h.2.1, ⟨h.2.2.1, h.2.2.2.1, h.2.2.2.2.1, h.2.2.2.2.2.1, h.2.2.2.2.2.2.1, h.2.2.2.2.2.2.2.1, h.2.2.2.2.2.2.2.2⟩⟩
      | some pk => exact ⟨h.1, h.2.1, ⟨h.2.2.1, h.2.2.2.1, h.2.2.2.2.1, h.2.2.2.2.2.1, h.2.2.2.2.2.2.1, h.2.2.2.2.2.2.2.1, h.2.2.2.2.2.2.2.2⟩⟩
  · split
    · have h := getVideoPacker_fields s
      cases hg : getVideoPacker s with
      | mk s' o =>
        rw [hg] at h
        cases o with
        | none => exact ⟨h.1, h.2.1, ⟨h.2.2.1, h.2.2.2.1, h.2.2.2.2.1, h.2.2.2.2.2.1, h.2.2.2.2.2.2.1, h.2.2.2.2.2.2.2.1, h.2.2.2.2.2.2.2.2⟩⟩
        | some pk => exact ⟨h.1, h.2.1, ⟨h.2.2.1, h.2.2.2.1, h.2.2.2.2.1, h.2.2.2.2.2.1, h.2.2.2.2.2.2.1, h.2.2.2.2.2.2.2.1, h.2.2.2.2.2.2.2.2⟩⟩
    · exact ⟨rfl, rfl, sameCfg_refl s⟩

theorem remuxAll_fields : ∀ (ms : List Msg) (s : RtspRmx.St),
    (remuxAll s ms).1.analyzeDone = s.analyzeDone ∧ (remuxAll s ms).1.msgCache = s.msgCache ∧ SameCfg s (remuxAll s ms).1 := by
  intro ms
  induction ms with
  | nil => intro s; exact ⟨rfl, rfl, sameCfg_refl s⟩
  | cons m ms ih =>
    intro s
    have h1 := remux_fields s m
    have h2 := ih (remux s m).1
    simp only [remuxAll]
    exact ⟨h2.1.trans h1.1, h2.2.1.trans h1.2.1, sameCfg_trans h1.2.2 h2.2.2⟩

theorem remuxAll_append (s : RtspRmx.St) (a b : List Msg) :
    remuxAll s (a ++ b) = ((remuxAll (remuxAll s a).1 b).1, (remuxAll s a).2 ++ (remuxAll (remuxAll s a).1 b).2) := by
  induction a generalizing s with
  | nil => simp [remuxAll]
  | cons m ms ih => simp only [List.cons_append, remuxAll, ih, List.append_assoc]

/-- the analysis bookkeeping rides along: `remux` neither reads nor writes it -/
theorem remux_flags (s : RtspRmx.St) (m : Msg) (d : Bool) (c : List Msg) :
    remux { s with analyzeDone := d, msgCache := c } m = ({ (remux s m).1 with analyzeDone := d, msgCache := c }, (remux s m).2) := by
  unfold remux
  by_cases h8 : m.typ = 8
  · simp only [h8, if_true]
    have hg : getAudioPacker { s with analyzeDone := d, msgCache := c }
        = ({ (getAudioPacker s).1 with analyzeDone := d, msgCache := c }, (getAudioPacker s).2) := by
      unfold getAudioPacker
      simp only []
      repeat' split
      all_goals first | rfl | simp_all
    rw [hg]
    cases hgp : getAudioPacker s with
    | mk s' o => cases o <;> rfl
  · simp only [h8, if_false]
    by_cases h9 : m.typ = 9
    · simp only [h9, if_true]
      have hg : getVideoPacker { s with analyzeDone := d, msgCache := c }
          = ({ (getVideoPacker s).1 with analyzeDone := d, msgCache := c }, (getVideoPacker s).2) := by
        unfold getVideoPacker
        simp only []
        repeat' split
        all_goals first | rfl | simp_all
      rw [hg]
      cases hgp : getVideoPacker s with
      | mk s' o => cases o <;> rfl
    · simp only [h9, if_false]

theorem remuxAll_flags : ∀ (ms : List Msg) (s : RtspRmx.St) (d : Bool) (c : List Msg),
    remuxAll { s with analyzeDone := d, msgCache := c } ms
      = ({ (remuxAll s ms).1 with analyzeDone := d, msgCache := c }, (remuxAll s ms).2) := by
  intro ms
  induction ms with
  | nil => intro s d c; rfl
  | cons m ms ih =>
    intro s d c
    simp only [remuxAll, remux_flags]
    rw [ih]

/-! ### `FeedRtmpMsg` on the message of each kind of element -/

theorem nilIfEmpty_ne (b : Bytes) (h : b ≠ []) : CfgChain.nilIfEmpty b = some b := by
  cases b with
  | nil => exact absurd rfl h
  | cons x xs => rfl

theorem feed_avcConfig (s : RtspRmx.St) (x y : UInt8) (sps pps : Bytes) (hs : sps.length < 65536) (hp : pps.length < 65536)
    (hsn : sps ≠ []) (hpn : pps ≠ []) :
    RtspRmx.feed cd tool s (render .avc (.avcConfig x y sps pps))
      = if !s.analyzeDone then doAnalyze cd tool { s with sps := some sps, pps := some pps } else (s, []) := by
  have hl : (render .avc (.avcConfig x y sps pps)).payload = SeqHeader.avcLayout x y sps pps := rfl
  have htyp : (render .avc (.avcConfig x y sps pps)).typ = 9 := rfl
  have hpa := SeqHeader.avcParse_layout x y sps pps hs hp
  have e : SeqHeader.avcLayout x y sps pps = 0x17 :: 0 :: 0 :: 0 :: 0 :: ([1, x, 0, y, 0xFF, 0xE1] ++ be16 sps.length ++ sps ++ [1] ++ be16 pps.length ++ pps) := by
    simp [SeqHeader.avcLayout]
  have hlen : ¬ (SeqHeader.avcLayout x y sps pps).length ≤ 5 := by simp [SeqHeader.avcLayout, be16]
  have hsh : isAvcKeySeqHeader (SeqHeader.avcLayout x y sps pps) = true := by
    rw [e]; simp [isAvcKeySeqHeader, pb_cons_zero, pb_cons_succ]
  unfold RtspRmx.feed
  simp only [hl, htyp]
  have h18 : ¬ (9 : Nat) = 18 := by decide
  have h8 : ¬ (9 : Nat) = 8 := by decide
  simp only [h18, h8, if_false, false_and, true_and, hlen, hsh, hpa, nilIfEmpty_ne sps hsn, nilIfEmpty_ne pps hpn, if_true]
  by_cases hd : s.analyzeDone = true <;> simp [hd]

theorem feed_hevcConfig (s : RtspRmx.St) (g vps sps pps : Bytes) (hg : g.length = 22)
    (hv : vps.length < 65536) (hs : sps.length < 65536) (hp : pps.length < 65536) (hvn : vps ≠ []) (hsn : sps ≠ []) (hpn : pps ≠ []) :
    RtspRmx.feed cd tool s (render .hevc (.hevcConfig g vps sps pps))
      = if !s.analyzeDone then doAnalyze cd tool { s with vps := some vps, sps := some sps, pps := some pps } else (s, []) := by
  have hl : (render .hevc (.hevcConfig g vps sps pps)).payload = SeqHeader.hevcLayout g vps sps pps := by
    simp [render, SeqHeader.hevcLayout, SeqHeader.hevcArr]
  have htyp : (render .hevc (.hevcConfig g vps sps pps)).typ = 9 := rfl
  have hpa := SeqHeader.hevcParse_layout g vps sps pps hg hv hs hp
  have e : SeqHeader.hevcLayout g vps sps pps = 0x1c :: 0 :: 0 :: 0 :: 0 :: (g ++ [3] ++ SeqHeader.hevcArr 32 vps ++ SeqHeader.hevcArr 33 sps ++ SeqHeader.hevcArr 34 pps) := by
    simp [SeqHeader.hevcLayout]
  have hlen : ¬ (SeqHeader.hevcLayout g vps sps pps).length ≤ 5 := by
    rw [SeqHeader.hevcLayout_length g vps sps pps hg]; omega
  have hext : isExt (SeqHeader.hevcLayout g vps sps pps) = false := by rw [e]; simp [isExt, pb_cons_zero]
  have hsa : isAvcKeySeqHeader (SeqHeader.hevcLayout g vps sps pps) = false := by
    rw [e]; simp [isAvcKeySeqHeader, pb_cons_zero]
  have hsh : isHevcKeySeqHeader (SeqHeader.hevcLayout g vps sps pps) = true := by
    simp only [isHevcKeySeqHeader, hext]; rw [e]; simp [pb_cons_zero, pb_cons_succ]
  unfold RtspRmx.feed
  simp only [hl, htyp]
  have h18 : ¬ (9 : Nat) = 18 := by decide
  have h8 : ¬ (9 : Nat) = 8 := by decide
  simp only [h18, h8, if_false, false_and, true_and, hlen, hsh, hsa, hext, hpa, nilIfEmpty_ne vps hvn, nilIfEmpty_ne sps hsn,
    nilIfEmpty_ne pps hpn, if_true, Bool.false_eq_true]
  by_cases hd : s.analyzeDone = true <;> simp [hd]

theorem feed_aacConfig (c : VCodec) (s : RtspRmx.St) (o sf ch : Nat) :
    RtspRmx.feed cd tool s (render c (.aacConfig o sf ch))
      = if !s.analyzeDone then doAnalyze cd tool { s with asc := some [b8 (o * 8 + sf / 2), b8 (sf % 2 * 128 + ch * 8)] } else (s, []) := by
  have hp : (render c (.aacConfig o sf ch)).payload = [0xaf, 0, b8 (o * 8 + sf / 2), b8 (sf % 2 * 128 + ch * 8)] := rfl
  have htyp : (render c (.aacConfig o sf ch)).typ = 8 := rfl
  have hid : audioCodecId [0xaf, 0, b8 (o * 8 + sf / 2), b8 (sf % 2 * 128 + ch * 8)] = 10 := by simp [audioCodecId, pb_cons_zero]
  unfold RtspRmx.feed
  simp only [hp, htyp, hid]
  have h18 : ¬ (8 : Nat) = 18 := by decide
  have h9 : ¬ (8 : Nat) = 9 := by decide
  have hcs : (10 : Nat) = Gen.rtmpSoundFormatAac := by decide
  have m1 : ¬ Gen.rtmpSoundFormatAac = Gen.rtmpSoundFormatG711U := by decide
  have m2 : ¬ Gen.rtmpSoundFormatAac = Gen.rtmpSoundFormatG711A := by decide
  have m3 : ¬ Gen.rtmpSoundFormatAac = Gen.rtmpSoundFormatOpus := by decide
  simp [h18, h9, hcs, m1, m2, m3, isAacSeqHeader, audioCodecId, pb_cons_zero, pb_cons_succ]

theorem feed_video (c : VCodec) (s : RtspRmx.St) (ts ct : Nat) (key : Bool) (nals : List Bytes) (hne : nals ≠ []) :
    RtspRmx.feed cd tool s (render c (.video ts ct key nals))
      = if !s.analyzeDone then doAnalyze cd tool { s with msgCache := s.msgCache ++ [render c (.video ts ct key nals)] }
        else remux s (render c (.video ts ct key nals)) := by
  obtain ⟨b0, hp, hb, hcod⟩ := render_video_payload c ts ct key nals
  have htyp : (render c (.video ts ct key nals)).typ = 9 := rfl
  have hpos := sample_length_pos nals hne
  have hlen : ¬ (b0 :: 1 :: (be24 ct ++ sample nals)).length ≤ 5 := by
    have e : (b0 :: 1 :: (be24 ct ++ sample nals)).length = (sample nals).length + 5 := by
      simp only [be24, List.length_cons, List.length_append, List.length_nil]; omega
    rw [e]; omega
  have hext : isExt (b0 :: 1 :: (be24 ct ++ sample nals)) = false := by
    simp only [isExt, pb_cons_zero]
    have : b0.toNat / 128 % 2 = 0 := by omega
    simp [this]
  have hsa : isAvcKeySeqHeader (b0 :: 1 :: (be24 ct ++ sample nals)) = false := by
    simp [isAvcKeySeqHeader, pb_cons_zero, pb_cons_succ]
  have hsh : isHevcKeySeqHeader (b0 :: 1 :: (be24 ct ++ sample nals)) = false := by
    simp [isHevcKeySeqHeader, hext, pb_cons_zero, pb_cons_succ]
  unfold RtspRmx.feed
  have h18 : ¬ (9 : Nat) = 18 := by decide
  have h8 : ¬ (9 : Nat) = 8 := by decide
  generalize hm : render c (.video ts ct key nals) = m at *
  simp only [htyp, hp, h18, h8, if_false, false_and, true_and, hlen, hsa, hsh, and_false, Bool.false_eq_true, or_self]

theorem feed_aacFrame (c : VCodec) (s : RtspRmx.St) (ts : Nat) (fr : Bytes) (hne : fr ≠ []) :
    RtspRmx.feed cd tool s (render c (.aacFrame ts fr))
      = if !s.analyzeDone then doAnalyze cd tool { s with msgCache := s.msgCache ++ [render c (.aacFrame ts fr)] }
        else remux s (render c (.aacFrame ts fr)) := by
  have hp : (render c (.aacFrame ts fr)).payload = 0xaf :: 1 :: fr := rfl
  have htyp : (render c (.aacFrame ts fr)).typ = 8 := rfl
  have hid : audioCodecId (0xaf :: 1 :: fr) = 10 := by simp [audioCodecId, pb_cons_zero]
  have hl : 0 < fr.length := List.length_pos_iff.mpr hne
  unfold RtspRmx.feed
  have h18 : ¬ (8 : Nat) = 18 := by decide
  have h9 : ¬ (8 : Nat) = 9 := by decide
  have hcs : (10 : Nat) = Gen.rtmpSoundFormatAac := by decide
  have m1 : ¬ Gen.rtmpSoundFormatAac = Gen.rtmpSoundFormatG711U := by decide
  have m2 : ¬ Gen.rtmpSoundFormatAac = Gen.rtmpSoundFormatG711A := by decide
  have m3 : ¬ Gen.rtmpSoundFormatAac = Gen.rtmpSoundFormatOpus := by decide
  have e2 : ¬ (fr.length + 1 + 1 ≤ 1) := by omega
  have e3 : ¬ (fr.length = 0) := by omega
  generalize hm : render c (.aacFrame ts fr) = m at *
  simp [htyp, hp, hid, h18, h9, hcs, m1, m2, m3, isAacSeqHeader, audioCodecId, pb_cons_zero, pb_cons_succ, e2, e3]

/-! ### after the analysis -/

theorem remux_done (s : RtspRmx.St) (m : Msg) (h : s.analyzeDone = true) : (remux s m).1.analyzeDone = true := by
  rw [(remux_fields s m).1]; exact h

/-- what a publish may consist of here: classic AVC / HEVC configurations and access units, AAC configurations and frames -/
def Plain (c : VCodec) (e : Elem) : Prop :=
  ElemWF c e ∧ (match e with | .opus .. => False | _ => True)

theorem feed_done (c : VCodec) (s : RtspRmx.St) (e : Elem) (hd : s.analyzeDone = true) (hp : Plain c e) :
    RtspRmx.feed cd tool s (render c e)
      = if e.isVideoConfig || isAacConfig e then (s, []) else remux s (render c e) := by
  obtain ⟨hwf, hno⟩ := hp
  cases e with
  | avcConfig x y sps pps =>
    obtain ⟨hc, h1, h2, _, _, h5, h6⟩ := hwf
    subst hc
    rw [feed_avcConfig cd tool s x y sps pps h5 h6 (nalOK_wf _ h1).1 (nalOK_wf _ h2).1]
    simp [hd, Elem.isVideoConfig]
  | hevcConfig g vps sps pps =>
    obtain ⟨hc, hg, h1, h2, h3, _, _, _, l1, l2, l3⟩ := hwf
    subst hc
    rw [feed_hevcConfig cd tool s g vps sps pps hg l1 l2 l3 (nalOK_wf _ h1).1 (nalOK_wf _ h2).1 (nalOK_wf _ h3).1]
    simp [hd, Elem.isVideoConfig]
  | aacConfig o sf ch => rw [feed_aacConfig]; simp [hd, Elem.isVideoConfig, isAacConfig]
  | video ts ct key nals => rw [feed_video cd tool c s ts ct key nals hwf.1]; simp [hd, Elem.isVideoConfig, isAacConfig]
  | aacFrame ts fr => rw [feed_aacFrame cd tool c s ts fr hwf.1]; simp [hd, Elem.isVideoConfig, isAacConfig]
  | opus ts p => exact absurd hno (by simp)

theorem run_done (c : VCodec) : ∀ (elems : List Elem) (s : RtspRmx.St), s.analyzeDone = true → (∀ e ∈ elems, Plain c e) →
    RtspRmx.run cd tool s (elems.map (render c)) = remuxAll s ((frameElems elems).map (render c)) := by
  intro elems
  induction elems with
  | nil => intro s _ _; rfl
  | cons e es ih =>
    intro s hd hp
    simp only [List.map_cons, RtspRmx.run, feed_done cd tool c s e hd (hp e (by simp))]
    by_cases hcfg : (e.isVideoConfig || isAacConfig e) = true
    · have hf : frameElems (e :: es) = frameElems es := by
        simp only [frameElems]
        cases e <;> simp_all [Elem.isVideoConfig, isAacConfig]
      rw [if_pos hcfg, hf]
      simp only [List.nil_append]
      rw [ih s hd (fun e' he' => hp e' (by simp [he']))]
    · have hf : frameElems (e :: es) = e :: frameElems es := by
        simp only [frameElems]
        cases e <;> simp_all [Elem.isVideoConfig, isAacConfig]
      rw [if_neg hcfg, hf]
      simp only [List.map_cons, remuxAll]
      rw [ih _ (remux_done s _ hd) (fun e' he' => hp e' (by simp [he']))]

/-! ### while the analysis is collecting -/

/-- the remuxer while it is still collecting: headers seen so far and the cached frame messages, nothing else set -/
def pend (vps sps pps asc : Option Bytes) (cache : List Msg) : RtspRmx.St :=
  { vps := vps, sps := sps, pps := pps, asc := asc, msgCache := cache }

/-- the sampling frequency an AudioSpecificConfig announces (0 when there is none: not used then) -/
def freqOf (asc : Option Bytes) : Int :=
  match asc with
  | some a => (match Aac.ascUnpack a with
               | .ok ctx => (match Aac.samplingFrequency ctx with | some f => (f : Int) | none => -1)
               | .error _ => -1)
  | none => -1

/-- the state `doAnalyze` replays the cache from (and `remux` runs in from then on): payload types and sample rate set -/
def ready (vps sps pps asc : Option Bytes) : RtspRmx.St :=
  { vps := vps, sps := sps, pps := pps, asc := asc,
    videoPt := if sps.isSome && pps.isSome then (if vps.isSome then Sdp.ptHevc else Sdp.ptAvc) else -1,
    audioPt := if asc.isSome then Sdp.ptAac else -1,
    audioSampleRate := freqOf asc }

/-- an AudioSpecificConfig `doAnalyze` accepts -/
def AscOK (asc : Option Bytes) : Prop :=
  ∀ a, asc = some a → ∃ ctx f, Aac.ascUnpack a = .ok ctx ∧ Aac.samplingFrequency ctx = some f

def enough (sps pps asc : Option Bytes) (cache : List Msg) : Bool :=
  (sps.isSome && pps.isSome && asc.isSome) || decide (cache.length ≥ Gen.maxAnalyzeAvMsgSize)

theorem remuxAll_cache (ms : List Msg) (s : RtspRmx.St) (c : List Msg) :
    remuxAll { s with msgCache := c } ms = ({ (remuxAll s ms).1 with msgCache := c }, (remuxAll s ms).2) := by
  have := remuxAll_flags ms s s.analyzeDone c
  have e : ({ s with analyzeDone := s.analyzeDone, msgCache := c } : RtspRmx.St) = { s with msgCache := c } := rfl
  rw [e] at this
  rw [this]
  have e2 : ({ (remuxAll s ms).1 with analyzeDone := s.analyzeDone, msgCache := c } : RtspRmx.St) = { (remuxAll s ms).1 with msgCache := c } := by
    have := (remuxAll_fields ms s).1
    cases h : (remuxAll s ms).1
    simp_all
  rw [e2]

theorem settle_pend (vps sps pps asc : Option Bytes) (cache : List Msg) (hasc : AscOK asc) :
    (settle (pend vps sps pps asc cache)).2 = some { ready vps sps pps asc with msgCache := cache } := by
  unfold settle
  cases hA : asc with
  | none =>
    by_cases hv : (sps.isSome && pps.isSome) = true
    · simp [pend, ready, freqOf, hv]
      cases vps <;> rfl
    · simp [pend, ready, freqOf, hv]
  | some a =>
    obtain ⟨ctx, f, hu, hf⟩ := hasc a hA
    by_cases hv : (sps.isSome && pps.isSome) = true
    · simp [pend, ready, freqOf, hv, hu, hf]
      cases vps <;> rfl
    · simp [pend, ready, freqOf, hv, hu, hf]

theorem doAnalyze_pend (vps sps pps asc : Option Bytes) (cache : List Msg) (hasc : AscOK asc) :
    doAnalyze cd tool (pend vps sps pps asc cache)
      = if enough sps pps asc cache then
          ({ (remuxAll (ready vps sps pps asc) cache).1 with msgCache := [], analyzeDone := true },
           .sdp (Sdp.pack cd tool { videoPt := (ready vps sps pps asc).videoPt, vps := vps, sps := sps, pps := pps }
                                  { audioPt := (ready vps sps pps asc).audioPt, samplingFrequency := freqOf asc, asc := asc })
             :: (remuxAll (ready vps sps pps asc) cache).2)
        else (pend vps sps pps asc cache, []) := by
  unfold doAnalyze
  have hen : isAnalyzeEnough (pend vps sps pps asc cache) = enough sps pps asc cache := by
    simp [isAnalyzeEnough, enough, pend]
  rw [hen]
  by_cases he : enough sps pps asc cache = true
  · simp only [he, Bool.not_true, Bool.false_eq_true, if_false, if_true]
    have hs := settle_pend vps sps pps asc cache hasc
    cases hst : settle (pend vps sps pps asc cache) with
    | mk s1 r =>
      rw [hst] at hs
      simp only at hs
      subst hs
      simp only [remuxAll_cache]
      rfl
  · simp only [he, Bool.not_false, if_true, Bool.false_eq_true, if_false]

/-! ### the whole run -/

/-- the headers collected so far -/
structure K where
  vps : Option Bytes := none
  sps : Option Bytes := none
  pps : Option Bytes := none
  asc : Option Bytes := none

def pendK (k : K) (cache : List Msg) : RtspRmx.St := pend k.vps k.sps k.pps k.asc cache
def readyK (k : K) : RtspRmx.St := ready k.vps k.sps k.pps k.asc

/-- what a configuration element does to the collected headers -/
def upd (k : K) : Elem → K
  | .avcConfig _ _ sps pps => { k with sps := some sps, pps := some pps }
  | .hevcConfig _ vps sps pps => { k with vps := some vps, sps := some sps, pps := some pps }
  | .aacConfig o sf ch => { k with asc := some [b8 (o * 8 + sf / 2), b8 (sf % 2 * 128 + ch * 8)] }
  | _ => k

def isFrame (e : Elem) : Bool := !(e.isVideoConfig || isAacConfig e)

/-- the collected headers are consistent with the publish's video codec -/
structure KInv (c : VCodec) (k : K) : Prop where
  sp : k.sps.isSome = k.pps.isSome
  avc : c = .avc → k.vps = none
  hevc : c = .hevc → k.vps.isSome = k.sps.isSome
  asc : AscOK k.asc

theorem ascOK_render (o sf ch : Nat) (h1 : 1 ≤ o) (h2 : o ≤ 4) (h3 : sf < 13) (h5 : ch < 8) :
    AscOK (some [b8 (o * 8 + sf / 2), b8 (sf % 2 * 128 + ch * 8)]) := by
  intro a ha
  simp only [Option.some.injEq] at ha
  subst ha
  refine ⟨⟨o, sf, ch⟩, ?_⟩
  have a1 : (o * 8 + sf / 2) % 256 / 8 = o := by omega
  have a2 : (o * 8 + sf / 2) % 256 % 8 * 2 + (sf % 2 * 128 + ch * 8) % 256 / 128 = sf := by omega
  have a3 : (sf % 2 * 128 + ch * 8) % 256 / 8 % 16 = ch := by omega
  have hu : Aac.ascUnpack [b8 (o * 8 + sf / 2), b8 (sf % 2 * 128 + ch * 8)] = .ok ⟨o, sf, ch⟩ := by
    simp only [Aac.ascUnpack, b8_toNat, a1, a2, a3]
  have hf : ∃ f, Aac.samplingFrequency ⟨o, sf, ch⟩ = some f := by
    simp only [Aac.samplingFrequency]
    exact ⟨_, List.getElem?_eq_getElem (by simp only [List.length_cons, List.length_nil]; omega)⟩
  obtain ⟨f, hf⟩ := hf
  exact ⟨f, hu, hf⟩

theorem kinv_upd (c : VCodec) (k : K) (e : Elem) (hk : KInv c k) (hp : Plain c e) : KInv c (upd k e) := by
  obtain ⟨hwf, _⟩ := hp
  cases e with
  | avcConfig x y sps pps =>
    obtain ⟨hc, _⟩ := hwf
    exact { sp := rfl, avc := fun h => hk.avc h, hevc := fun h => (by rw [hc] at h; cases h), asc := hk.asc }
  | hevcConfig g vps sps pps =>
    obtain ⟨hc, _⟩ := hwf
    exact { sp := rfl, avc := fun h => (by rw [hc] at h; cases h), hevc := fun _ => rfl, asc := hk.asc }
  | aacConfig o sf ch =>
    obtain ⟨h1, h2, h3, _, h5⟩ := hwf
    exact { sp := hk.sp, avc := hk.avc, hevc := hk.hevc, asc := ascOK_render o sf ch h1 h2 h3 h5 }
  | video _ _ _ _ => exact hk
  | aacFrame _ _ => exact hk
  | opus _ _ => exact hk

/-- one message while collecting: the headers / the cache grow, then `doAnalyze` -/
theorem feed_pend (c : VCodec) (k : K) (cache : List Msg) (e : Elem) (hp : Plain c e) :
    RtspRmx.feed cd tool (pendK k cache) (render c e)
      = doAnalyze cd tool (pendK (upd k e) (if isFrame e then cache ++ [render c e] else cache)) := by
  obtain ⟨hwf, hno⟩ := hp
  cases e with
  | avcConfig x y sps pps =>
    obtain ⟨hc, h1, h2, _, _, h5, h6⟩ := hwf
    subst hc
    rw [feed_avcConfig cd tool _ x y sps pps h5 h6 (nalOK_wf _ h1).1 (nalOK_wf _ h2).1]
    rfl
  | hevcConfig g vps sps pps =>
    obtain ⟨hc, hg, h1, h2, h3, _, _, _, l1, l2, l3⟩ := hwf
    subst hc
    rw [feed_hevcConfig cd tool _ g vps sps pps hg l1 l2 l3 (nalOK_wf _ h1).1 (nalOK_wf _ h2).1 (nalOK_wf _ h3).1]
    rfl
  | aacConfig o sf ch => rw [feed_aacConfig]; rfl
  | video ts ct key nals => rw [feed_video cd tool c _ ts ct key nals hwf.1]; rfl
  | aacFrame ts fr => rw [feed_aacFrame cd tool c _ ts fr hwf.1]; rfl
  | opus ts p => exact absurd hno (by simp)

theorem frameElems_cons (e : Elem) (es : List Elem) :
    frameElems (e :: es) = if isFrame e then e :: frameElems es else frameElems es := by
  simp only [frameElems, isFrame]
  cases e <;> simp [Elem.isVideoConfig, isAacConfig]

/-- THE ANALYSIS PHASE. Either it is still collecting and nothing has been sent, or: the SDP went out, then — in order —
    exactly what `remux` makes of ALL frame messages (the cached ones and the later ones) from the state `readyK k'`
    for the headers `k'` collected when `doAnalyze` was satisfied. -/
theorem run_pend (c : VCodec) : ∀ (elems : List Elem) (k : K) (cacheE : List Elem), KInv c k → (∀ e ∈ elems, Plain c e) →
    ((RtspRmx.run cd tool (pendK k (cacheE.map (render c))) (elems.map (render c))).1.analyzeDone = false
      ∧ (RtspRmx.run cd tool (pendK k (cacheE.map (render c))) (elems.map (render c))).2 = [])
    ∨ ∃ k' ctx, KInv c k'
        ∧ (RtspRmx.run cd tool (pendK k (cacheE.map (render c))) (elems.map (render c))).2
            = .sdp ctx :: (remuxAll (readyK k') ((cacheE ++ frameElems elems).map (render c))).2
        ∧ SameCfg (readyK k') (RtspRmx.run cd tool (pendK k (cacheE.map (render c))) (elems.map (render c))).1
        ∧ (RtspRmx.run cd tool (pendK k (cacheE.map (render c))) (elems.map (render c))).1.analyzeDone = true := by
  intro elems
  induction elems with
  | nil => intro k cacheE _ _; exact Or.inl ⟨rfl, rfl⟩
  | cons e es ih =>
    intro k cacheE hk hp
    have hpe := hp e (by simp)
    have hrest : ∀ e' ∈ es, Plain c e' := fun e' he' => hp e' (by simp [he'])
    have hk1 := kinv_upd c k e hk hpe
    simp only [List.map_cons, RtspRmx.run]
    rw [feed_pend cd tool c k _ e hpe]
    have hcache : (if isFrame e then cacheE.map (render c) ++ [render c e] else cacheE.map (render c))
        = (if isFrame e then cacheE ++ [e] else cacheE).map (render c) := by
      by_cases hf : isFrame e = true <;> simp [hf]
    rw [hcache]
    unfold pendK
    rw [doAnalyze_pend cd tool _ _ _ _ _ hk1.asc]
    by_cases hen : enough (upd k e).sps (upd k e).pps (upd k e).asc ((if isFrame e then cacheE ++ [e] else cacheE).map (render c)) = true
    · -- `doAnalyze` is satisfied by this message
      rw [if_pos hen]
      right
      have hl : (cacheE ++ frameElems (e :: es)).map (render c)
          = (if isFrame e then cacheE ++ [e] else cacheE).map (render c) ++ (frameElems es).map (render c) := by
        rw [frameElems_cons]
        by_cases hf : isFrame e = true <;> simp [hf]
      have hrk : ready (upd k e).vps (upd k e).sps (upd k e).pps (upd k e).asc = readyK (upd k e) := rfl
      rw [hrk]
      generalize hX : remuxAll (readyK (upd k e)) ((if isFrame e then cacheE ++ [e] else cacheE).map (render c)) = X
      have hrun : RtspRmx.run cd tool { X.1 with msgCache := [], analyzeDone := true } (es.map (render c))
          = ({ (remuxAll X.1 ((frameElems es).map (render c))).1 with analyzeDone := true, msgCache := [] },
             (remuxAll X.1 ((frameElems es).map (render c))).2) := by
        rw [run_done cd tool c es _ rfl hrest]
        exact remuxAll_flags _ X.1 true []
      have happ := remuxAll_append (readyK (upd k e)) ((if isFrame e then cacheE ++ [e] else cacheE).map (render c)) ((frameElems es).map (render c))
      rw [hX] at happ
      refine ⟨upd k e, Sdp.pack cd tool { videoPt := (readyK (upd k e)).videoPt, vps := (upd k e).vps, sps := (upd k e).sps, pps := (upd k e).pps }
          { audioPt := (readyK (upd k e)).audioPt, samplingFrequency := freqOf (upd k e).asc, asc := (upd k e).asc }, hk1, ?_, ?_, ?_⟩
      · simp only [hrun, List.cons_append]
        rw [hl, happ]
      · simp only [hrun]
        have h1 : SameCfg (readyK (upd k e)) X.1 := by
          rw [← hX]; exact (remuxAll_fields _ _).2.2
        have h2 := (remuxAll_fields ((frameElems es).map (render c)) X.1).2.2
        have := sameCfg_trans h1 h2
        exact ⟨this.sps, this.pps, this.vps, this.asc, this.apt, this.vpt, this.rate⟩
      · simp only [hrun]
    · rw [if_neg hen]
      have := ih (upd k e) (if isFrame e then cacheE ++ [e] else cacheE) hk1 hrest
      unfold pendK at this
      simp only [List.nil_append]
      rcases this with h | ⟨k', ctx, a1, a2, a3, a4⟩
      · exact Or.inl h
      · right
        refine ⟨k', ctx, a1, ?_, a3, a4⟩
        rw [a2, frameElems_cons]
        by_cases hf : isFrame e = true <;> simp [hf]

/-! ### end to end -/

theorem videoAus_frameElems : ∀ (elems : List Elem), videoAus (frameElems elems) = videoAus elems := by
  intro elems
  induction elems with
  | nil => rfl
  | cons e es ih =>
    rw [frameElems_cons]
    cases e <;> simp [isFrame, Elem.isVideoConfig, isAacConfig, videoAus, ih]

theorem aacOnly_frameElems : ∀ (elems : List Elem), aacOnly (frameElems elems) = aacOnly elems := by
  intro elems
  induction elems with
  | nil => rfl
  | cons e es ih =>
    rw [frameElems_cons]
    cases e <;> simp [isFrame, Elem.isVideoConfig, isAacConfig, aacOnly, ih]

theorem mem_frameElems : ∀ (elems : List Elem) (e : Elem), e ∈ frameElems elems → e ∈ elems ∧ isFrame e = true := by
  intro elems
  induction elems with
  | nil => intro e h; simp [frameElems] at h
  | cons x xs ih =>
    intro e h
    rw [frameElems_cons] at h
    by_cases hf : isFrame x = true
    · rw [if_pos hf] at h
      simp only [List.mem_cons] at h
      rcases h with rfl | h
      · exact ⟨by simp, hf⟩
      · exact ⟨by simp [(ih e h).1], (ih e h).2⟩
    · rw [if_neg hf] at h
      exact ⟨by simp [(ih e h).1], (ih e h).2⟩

theorem pktsOf_sdp (pt : Nat) (ctx : Option Sdp.LogicContext) (rest : List RtspRmx.Out) :
    pktsOf pt (.sdp ctx :: rest) = pktsOf pt rest := rfl

/-- RTSP VIDEO, end to end: the whole remuxer — analysis phase, SDP, cache replay, live — on a well-formed publish. -/
theorem rtsp_video (c : VCodec) (elems : List Elem) (hp : ∀ e ∈ elems, Plain c e) (hrtp : RtpWF c elems)
    (hdone : (RtspRmx.run cd tool {} (elems.map (render c))).1.analyzeDone = true)
    (hsps : (RtspRmx.run cd tool {} (elems.map (render c))).1.sps.isSome = true) :
    ∃ ctx rest pkts, (RtspRmx.run cd tool {} (elems.map (render c))).2 = .sdp ctx :: rest
      ∧ parseAll (pktsOf (vptNat c) rest) = some pkts
      ∧ Demux.seqChain pkts = true
      ∧ Demux.rtpAus (rtpKindOf c) pkts
          = some ((((videoAus elems).filter fun a => !(normRtp c a.nals).isEmpty)).map fun a =>
              { ts := rtpTimestamp a.ts 90000, units := normRtp c a.nals }) := by
  have hk0 : KInv c {} := { sp := rfl, avc := fun _ => rfl, hevc := fun _ => rfl, asc := fun a h => by cases h }
  have h := run_pend cd tool c elems {} [] hk0 hp
  have hinit : pendK {} (([] : List Elem).map (render c)) = ({} : RtspRmx.St) := rfl
  rw [hinit] at h
  rcases h with ⟨hnd, _⟩ | ⟨k', ctx, hk', hout, hsame, _⟩
  · rw [hnd] at hdone; cases hdone
  · simp only [List.nil_append] at hout
    have hs : k'.sps.isSome = true := by
      have : (readyK k').sps = k'.sps := rfl
      rw [← this, ← hsame.sps]; exact hsps
    have hpp : k'.pps.isSome = true := by rw [← hk'.sp]; exact hs
    have hr : VReady c (readyK k') := by
      refine { sps := hs, vpt := ?_, pk := Or.inl rfl }
      show (if k'.sps.isSome && k'.pps.isSome then (if k'.vps.isSome then Sdp.ptHevc else Sdp.ptAvc) else -1) = vptOf c
      rw [hs, hpp]
      cases c with
      | avc => simp [hk'.avc rfl, vptOf]
      | hevc => simp [hk'.hevc rfl, hs, vptOf]
    have hapt : ((readyK k').audioPt % 256).toNat % 256 ≠ vptNat c := by
      show ((if k'.asc.isSome then Sdp.ptAac else -1) % 256).toNat % 256 ≠ vptNat c
      cases k'.asc <;> cases c <;> simp [Sdp.ptAac, vptNat, vptOf, Sdp.ptAvc, Sdp.ptHevc] <;> decide
    have hwf : ∀ e ∈ frameElems elems, ElemWF c e := fun e he => (hp e (mem_frameElems elems e he).1).1
    have hnc : ∀ e ∈ frameElems elems, e.isVideoConfig = false := by
      intro e he
      have := (mem_frameElems elems e he).2
      cases e <;> simp_all [isFrame, Elem.isVideoConfig]
    have hrtp' : RtpWF c (frameElems elems) := by
      intro a ha; rw [videoAus_frameElems] at ha; exact hrtp a ha
    obtain ⟨pkts, h1, h2, h3⟩ := rtp_video c (frameElems elems) (readyK k') hr hapt hwf hrtp' hnc
    rw [videoAus_frameElems] at h3
    exact ⟨ctx, _, pkts, hout, h1, h2, h3⟩

/-- RTSP AAC, end to end. `f`: the sampling frequency of the AudioSpecificConfig the SDP announced. -/
theorem rtsp_aac (c : VCodec) (elems : List Elem) (hp : ∀ e ∈ elems, Plain c e)
    (hdone : (RtspRmx.run cd tool {} (elems.map (render c))).1.analyzeDone = true)
    (hasc : (RtspRmx.run cd tool {} (elems.map (render c))).1.asc.isSome = true) :
    ∃ ctx rest pkts f, (RtspRmx.run cd tool {} (elems.map (render c))).2 = .sdp ctx :: rest
      ∧ parseAll (pktsOf 97 rest) = some pkts
      ∧ Demux.seqChain pkts = true
      ∧ Demux.rtpAus .aac pkts = some ((aacOnly elems).map fun x => { ts := rtpTimestamp x.1 f, units := [x.2] }) := by
  have hk0 : KInv c {} := { sp := rfl, avc := fun _ => rfl, hevc := fun _ => rfl, asc := fun a h => by cases h }
  have h := run_pend cd tool c elems {} [] hk0 hp
  have hinit : pendK {} (([] : List Elem).map (render c)) = ({} : RtspRmx.St) := rfl
  rw [hinit] at h
  rcases h with ⟨hnd, _⟩ | ⟨k', ctx, hk', hout, hsame, _⟩
  · rw [hnd] at hdone; cases hdone
  · simp only [List.nil_append] at hout
    have ha : k'.asc.isSome = true := by
      have : (readyK k').asc = k'.asc := rfl
      rw [← this, ← hsame.asc]; exact hasc
    obtain ⟨a, hka⟩ := Option.isSome_iff_exists.mp ha
    obtain ⟨actx, f, hu, hf⟩ := hk'.asc a hka
    have hr : AReady f (readyK k') := by
      refine { apt := ?_, asc := ⟨a, actx, hka, hu, hf⟩, pk := Or.inl rfl }
      show (if k'.asc.isSome then Sdp.ptAac else -1) = Sdp.ptAac
      rw [ha]; rfl
    have hvpt : ((readyK k').videoPt % 256).toNat % 256 ≠ 97 := by
      show ((if k'.sps.isSome && k'.pps.isSome then (if k'.vps.isSome then Sdp.ptHevc else Sdp.ptAvc) else -1) % 256).toNat % 256 ≠ 97
      cases k'.sps <;> cases k'.pps <;> cases k'.vps <;> simp [Sdp.ptAvc, Sdp.ptHevc] <;> decide
    have hwf : ∀ e ∈ frameElems elems, ElemWF c e := fun e he => (hp e (mem_frameElems elems e he).1).1
    have hno : ∀ e ∈ frameElems elems, match e with | .aacConfig .. => False | .opus .. => False | _ => True := by
      intro e he
      have h1 := (mem_frameElems elems e he).2
      have h2 := (hp e (mem_frameElems elems e he).1).2
      cases e <;> simp_all [isFrame, isAacConfig, Elem.isVideoConfig]
    obtain ⟨pkts, h1, h2, h3⟩ := rtp_aac c f (frameElems elems) (readyK k') hr hvpt hwf hno
    rw [aacOnly_frameElems] at h3
    exact ⟨ctx, _, pkts, f, hout, h1, h2, h3⟩

end Lal.RtspRun
