import LalModel.Model.RtspIngest
import LalModel.Proof.AvQueue
import LalModel.Proof.Av2Rtmp
/-
  The RTSP ingest pipeline as a composition (C07 `rtsp_ingest_reorder_invariant`):
    arrivals ──unpackAll──▶ AvPackets (two containers, independent) ──AvPacketQueue──▶ ──AvPacket2RtmpRemuxer──▶ messages
-/
namespace Lal.RtspIngest
open Lal Lal.Rtp Lal.RtpUnpack Lal.Av

/-- the unpacking half over a sequence of arrivals -/
def unpackAll : Unpackers → List Bytes → GoM (Unpackers × List Av.AvPacket)
  | s, [] => .ok (s, [])
  | s, b :: bs =>
    match unpackStep s b with
    | .error f => .error f
    | .ok (s1, u1) =>
      match unpackAll s1 bs with
      | .error f => .error f
      | .ok (s2, u2) => .ok (s2, u1 ++ u2)

/-- the delivery half with a queue: everything through `AvPacketQueue.Feed`, what comes out through `FeedAvPacket` -/
theorem deliver_queue (var : Av2Rtmp.Variant) (rot : Bool) : ∀ (us : List Av.AvPacket) (d : Delivery) (q : AvQueue.Q), d.queue = some q →
    deliver var rot d us =
      ({ queue := some (AvQueue.feedAll rot q us).1, remux := (Av2Rtmp.feedAll var d.remux (AvQueue.feedAll rot q us).2).1 },
       (Av2Rtmp.feedAll var d.remux (AvQueue.feedAll rot q us).2).2)
  | [], d, q, h => by
    simp only [deliver, AvQueue.feedAll, Av2Rtmp.feedAll]
    cases d; simp_all
  | p :: us, d, q, h => by
    simp only [deliver, h, AvQueue.feedAll]
    rw [deliver_queue var rot us _ (AvQueue.feed rot q p).1 rfl]
    simp only [Av2Rtmp.feedAll_append]

/-- … and without one (a single track) -/
theorem deliver_direct (var : Av2Rtmp.Variant) (rot : Bool) : ∀ (us : List Av.AvPacket) (d : Delivery), d.queue = none →
    deliver var rot d us = ({ d with remux := (Av2Rtmp.feedAll var d.remux us).1 }, (Av2Rtmp.feedAll var d.remux us).2)
  | [], d, h => by simp [deliver, Av2Rtmp.feedAll]
  | p :: us, d, h => by
    have ih := deliver_direct var rot us { d with remux := (Av2Rtmp.feedAvPacket var d.remux p).1 } h
    simp only [deliver, h, Av2Rtmp.feedAll] at ih ⊢
    rw [ih]

theorem deliver_append (var : Av2Rtmp.Variant) (rot : Bool) : ∀ (a b : List Av.AvPacket) (d : Delivery),
    deliver var rot d (a ++ b) = ((deliver var rot (deliver var rot d a).1 b).1, (deliver var rot d a).2 ++ (deliver var rot (deliver var rot d a).1 b).2)
  | [], b, d => by simp [deliver]
  | p :: a, b, d => by
    simp only [List.cons_append, deliver]
    rw [deliver_append var rot a b]
    simp

/-- The pipeline is a composition: all arrivals through the containers, then all their packets through queue and
    remuxer (the two halves of the session do not interact). -/
theorem handleAll_compose (var : Av2Rtmp.Variant) (rot : Bool) : ∀ (bs : List Bytes) (s : Sess),
    handleAll var rot s bs =
      match unpackAll s.unp bs with
      | .error f => .error f
      | .ok (u', us) => .ok ({ unp := u', del := (deliver var rot s.del us).1 }, (deliver var rot s.del us).2)
  | [], s => by
    simp only [handleAll, unpackAll, deliver]
  | b :: bs, s => by
    simp only [handleAll, unpackAll, handleRtpPacket]
    cases h1 : unpackStep s.unp b with
    | error f => rfl
    | ok r1 =>
      obtain ⟨u1, us1⟩ := r1
      simp only []
      rw [handleAll_compose var rot bs]
      simp only []
      cases h2 : unpackAll u1 bs with
      | error f => rfl
      | ok r2 =>
        obtain ⟨u2, us2⟩ := r2
        simp only [deliver_append]

/-! ### the two containers are independent -/

/-- where `handleRtpPacket` sends an arrival -/
inductive Route where
  | drop
  | audio (p : RtpPacket)
  | video (p : RtpPacket)

/-- length / payload-type filter, `ParseRtpHeader`, audio before video -/
def route (ctx : Sdp.LogicContext) (b : Bytes) : GoM Route :=
  if b.length < 12 then .ok .drop else
  let packetType : Int := ((b.getD 1 0).toNat % 128 : Nat)
  if ¬ (ctx.audioPayloadTypeOrigin = packetType ∨ ctx.videoPayloadTypeOrigin = packetType) then .ok .drop else
  match parseRtpHeader b with
  | .error .err => .ok .drop
  | .error f => .error f
  | .ok h => if ctx.audioPayloadTypeOrigin = packetType then .ok (.audio { hdr := h, raw := b }) else .ok (.video { hdr := h, raw := b })

/-- the arrivals of the audio / video container, in arrival order -/
def arrA (ctx : Sdp.LogicContext) (bs : List Bytes) : List RtpPacket :=
  bs.filterMap fun b => match route ctx b with | .ok (.audio p) => some p | _ => none
def arrV (ctx : Sdp.LogicContext) (bs : List Bytes) : List RtpPacket :=
  bs.filterMap fun b => match route ctx b with | .ok (.video p) => some p | _ => none

theorem unpackStep_route (s : Unpackers) (b : Bytes) :
    unpackStep s b =
      match route s.ctx b with
      | .error f => .error f
      | .ok .drop => .ok (s, [])
      | .ok (.audio p) =>
        (match s.audio with
        | none => .ok (s, [])
        | some u =>
          match RtpUnpack.feed (protoOf u.kind u.rate) u.list p with
          | .error f => .error f
          | .ok (l', units) => .ok ({ s with audio := some { u with list := l' } }, tagUnits u.pt units))
      | .ok (.video p) =>
        (match s.video with
        | none => .ok (s, [])
        | some u =>
          match RtpUnpack.feed (protoOf u.kind u.rate) u.list p with
          | .error f => .error f
          | .ok (l', units) => .ok ({ s with video := some { u with list := l' } }, tagUnits u.pt units)) := by
  unfold unpackStep route
  simp only []
  split
  · rfl
  · split
    · rfl
    · cases parseRtpHeader b with
      | error e => cases e <;> rfl
      | ok h =>
        simp only []
        split <;> rfl

theorem feedAll_cons_ok (pr : Proto) (l lf : PktList) (p : RtpPacket) (ps : List RtpPacket) (U : List RtpUnpack.AvPacket)
    (h : RtpUnpack.feedAll pr l (p :: ps) = .ok (lf, U)) :
    ∃ l1 o1 o2, RtpUnpack.feed pr l p = .ok (l1, o1) ∧ RtpUnpack.feedAll pr l1 ps = .ok (lf, o2) ∧ U = o1 ++ o2 := by
  simp only [RtpUnpack.feedAll] at h
  cases h1 : RtpUnpack.feed pr l p with
  | error f => rw [h1] at h; cases h
  | ok r1 =>
    obtain ⟨l1, o1⟩ := r1
    rw [h1] at h
    simp only [] at h
    cases h2 : RtpUnpack.feedAll pr l1 ps with
    | error f => rw [h2] at h; cases h
    | ok r2 =>
      obtain ⟨l2, o2⟩ := r2
      rw [h2] at h
      simp only [Except.ok.injEq, Prod.mk.injEq] at h
      exact ⟨l1, o1, o2, rfl, by rw [← h.1]; exact h2, h.2.symm⟩

theorem tagUnits_append (pt : Int) (a b : List RtpUnpack.AvPacket) : tagUnits pt (a ++ b) = tagUnits pt a ++ tagUnits pt b := by
  simp [tagUnits]

theorem tagUnits_video (pt : Int) (h : pt = ptAvc ∨ pt = ptHevc) (l : List RtpUnpack.AvPacket) :
    AvQueue.vproj (tagUnits pt l) = tagUnits pt l ∧ AvQueue.aproj (tagUnits pt l) = [] := by
  apply AvQueue.vproj_of_video
  intro p hp
  simp only [tagUnits, List.mem_map] at hp
  obtain ⟨u, _, rfl⟩ := hp
  rcases h with h | h <;> subst h <;> rfl

theorem tagUnits_audio (pt : Int) (h : pt ≠ ptAvc ∧ pt ≠ ptHevc) (l : List RtpUnpack.AvPacket) :
    AvQueue.aproj (tagUnits pt l) = tagUnits pt l ∧ AvQueue.vproj (tagUnits pt l) = [] := by
  apply AvQueue.aproj_of_audio
  intro p hp
  simp only [tagUnits, List.mem_map] at hp
  obtain ⟨u, _, rfl⟩ := hp
  simp [AvPacket.isVideo, h.1, h.2]

/-- Whatever the interleaving of the two tracks' arrivals: the packets handed to `onAvPacketUnpacked` are, per track,
    exactly what that track's container delivers for ITS arrivals in their order. -/
theorem unpackAll_tracks : ∀ (bs : List Bytes) (s : Unpackers) (ua uv : Unp) (la lv : PktList) (UA UV : List RtpUnpack.AvPacket),
    s.audio = some ua → s.video = some uv → (ua.pt ≠ ptAvc ∧ ua.pt ≠ ptHevc) → (uv.pt = ptAvc ∨ uv.pt = ptHevc) →
    (∀ b ∈ bs, ∃ r, route s.ctx b = .ok r) →
    RtpUnpack.feedAll (protoOf ua.kind ua.rate) ua.list (arrA s.ctx bs) = .ok (la, UA) →
    RtpUnpack.feedAll (protoOf uv.kind uv.rate) uv.list (arrV s.ctx bs) = .ok (lv, UV) →
    ∃ s' us, unpackAll s bs = .ok (s', us) ∧ AvQueue.aproj us = tagUnits ua.pt UA ∧ AvQueue.vproj us = tagUnits uv.pt UV
  | [], s, ua, uv, la, lv, UA, UV, _, _, _, _, _, hA, hV => by
    simp only [arrA, arrV, List.filterMap_nil, RtpUnpack.feedAll, Except.ok.injEq, Prod.mk.injEq] at hA hV
    refine ⟨s, [], rfl, ?_, ?_⟩
    · rw [← hA.2]; rfl
    · rw [← hV.2]; rfl
  | b :: bs, s, ua, uv, la, lv, UA, UV, ha, hv, hpa, hpv, hr, hA, hV => by
    obtain ⟨r, hrb⟩ := hr b (List.mem_cons_self ..)
    have hr' : ∀ b' ∈ bs, ∃ r, route s.ctx b' = .ok r := fun b' hb' => hr b' (List.mem_cons_of_mem _ hb')
    simp only [unpackAll]
    rw [unpackStep_route, hrb]
    cases r with
    | drop =>
      have eA : arrA s.ctx (b :: bs) = arrA s.ctx bs := by simp [arrA, hrb]
      have eV : arrV s.ctx (b :: bs) = arrV s.ctx bs := by simp [arrV, hrb]
      rw [eA] at hA; rw [eV] at hV
      obtain ⟨s', us, h1, h2, h3⟩ := unpackAll_tracks bs s ua uv la lv UA UV ha hv hpa hpv hr' hA hV
      simp only [h1]
      exact ⟨s', us, by simp, h2, h3⟩
    | audio p =>
      have eA : arrA s.ctx (b :: bs) = p :: arrA s.ctx bs := by simp [arrA, hrb]
      have eV : arrV s.ctx (b :: bs) = arrV s.ctx bs := by simp [arrV, hrb]
      rw [eA] at hA; rw [eV] at hV
      obtain ⟨l1, o1, o2, f1, f2, f3⟩ := feedAll_cons_ok _ _ _ _ _ _ hA
      simp only [ha, f1]
      obtain ⟨s', us, h1, h2, h3⟩ := unpackAll_tracks bs { s with audio := some { ua with list := l1 } } { ua with list := l1 } uv la lv o2 UV
        rfl hv hpa hpv hr' f2 hV
      simp only [h1]
      refine ⟨s', tagUnits ua.pt o1 ++ us, rfl, ?_, ?_⟩
      · rw [AvQueue.aproj_append, (tagUnits_audio ua.pt hpa o1).1, h2, f3, tagUnits_append]
      · rw [AvQueue.vproj_append, (tagUnits_audio ua.pt hpa o1).2, h3]; rfl
    | video p =>
      have eA : arrA s.ctx (b :: bs) = arrA s.ctx bs := by simp [arrA, hrb]
      have eV : arrV s.ctx (b :: bs) = p :: arrV s.ctx bs := by simp [arrV, hrb]
      rw [eA] at hA; rw [eV] at hV
      obtain ⟨l1, o1, o2, f1, f2, f3⟩ := feedAll_cons_ok _ _ _ _ _ _ hV
      simp only [hv, f1]
      obtain ⟨s', us, h1, h2, h3⟩ := unpackAll_tracks bs { s with video := some { uv with list := l1 } } ua { uv with list := l1 } la lv UA o2
        ha rfl hpa hpv hr' hA f2
      simp only [h1]
      refine ⟨s', tagUnits uv.pt o1 ++ us, rfl, ?_, ?_⟩
      · rw [AvQueue.aproj_append, (tagUnits_video uv.pt hpv o1).2, h2]; rfl
      · rw [AvQueue.vproj_append, (tagUnits_video uv.pt hpv o1).1, h3, f3, tagUnits_append]

/-- one track only (video): the arrivals of the other payload type are dropped -/
theorem unpackAll_video_only : ∀ (bs : List Bytes) (s : Unpackers) (uv : Unp) (lv : PktList) (UV : List RtpUnpack.AvPacket),
    s.audio = none → s.video = some uv → (∀ b ∈ bs, ∃ r, route s.ctx b = .ok r) →
    RtpUnpack.feedAll (protoOf uv.kind uv.rate) uv.list (arrV s.ctx bs) = .ok (lv, UV) →
    ∃ s', unpackAll s bs = .ok (s', tagUnits uv.pt UV)
  | [], s, uv, lv, UV, _, _, _, hV => by
    simp only [arrV, List.filterMap_nil, RtpUnpack.feedAll, Except.ok.injEq, Prod.mk.injEq] at hV
    exact ⟨s, by rw [← hV.2]; rfl⟩
  | b :: bs, s, uv, lv, UV, ha, hv, hr, hV => by
    obtain ⟨r, hrb⟩ := hr b (List.mem_cons_self ..)
    have hr' : ∀ b' ∈ bs, ∃ r, route s.ctx b' = .ok r := fun b' hb' => hr b' (List.mem_cons_of_mem _ hb')
    simp only [unpackAll]
    rw [unpackStep_route, hrb]
    cases r with
    | drop =>
      have eV : arrV s.ctx (b :: bs) = arrV s.ctx bs := by simp [arrV, hrb]
      rw [eV] at hV
      obtain ⟨s', h1⟩ := unpackAll_video_only bs s uv lv UV ha hv hr' hV
      simp only [h1]
      exact ⟨s', by simp⟩
    | audio p =>
      have eV : arrV s.ctx (b :: bs) = arrV s.ctx bs := by simp [arrV, hrb]
      rw [eV] at hV
      obtain ⟨s', h1⟩ := unpackAll_video_only bs s uv lv UV ha hv hr' hV
      simp only [ha, h1]
      exact ⟨s', by simp⟩
    | video p =>
      have eV : arrV s.ctx (b :: bs) = p :: arrV s.ctx bs := by simp [arrV, hrb]
      rw [eV] at hV
      obtain ⟨l1, o1, o2, f1, f2, f3⟩ := feedAll_cons_ok _ _ _ _ _ _ hV
      simp only [hv, f1]
      obtain ⟨s', h1⟩ := unpackAll_video_only bs { s with video := some { uv with list := l1 } } { uv with list := l1 } lv o2 ha rfl hr' f2
      simp only [h1]
      exact ⟨s', by rw [f3, tagUnits_append]⟩

/-- one track only (audio) -/
theorem unpackAll_audio_only : ∀ (bs : List Bytes) (s : Unpackers) (ua : Unp) (la : PktList) (UA : List RtpUnpack.AvPacket),
    s.audio = some ua → s.video = none → (∀ b ∈ bs, ∃ r, route s.ctx b = .ok r) →
    RtpUnpack.feedAll (protoOf ua.kind ua.rate) ua.list (arrA s.ctx bs) = .ok (la, UA) →
    ∃ s', unpackAll s bs = .ok (s', tagUnits ua.pt UA)
  | [], s, ua, la, UA, _, _, _, hA => by
    simp only [arrA, List.filterMap_nil, RtpUnpack.feedAll, Except.ok.injEq, Prod.mk.injEq] at hA
    exact ⟨s, by rw [← hA.2]; rfl⟩
  | b :: bs, s, ua, la, UA, ha, hv, hr, hA => by
    obtain ⟨r, hrb⟩ := hr b (List.mem_cons_self ..)
    have hr' : ∀ b' ∈ bs, ∃ r, route s.ctx b' = .ok r := fun b' hb' => hr b' (List.mem_cons_of_mem _ hb')
    simp only [unpackAll]
    rw [unpackStep_route, hrb]
    cases r with
    | drop =>
      have eA : arrA s.ctx (b :: bs) = arrA s.ctx bs := by simp [arrA, hrb]
      rw [eA] at hA
      obtain ⟨s', h1⟩ := unpackAll_audio_only bs s ua la UA ha hv hr' hA
      simp only [h1]
      exact ⟨s', by simp⟩
    | video p =>
      have eA : arrA s.ctx (b :: bs) = arrA s.ctx bs := by simp [arrA, hrb]
      rw [eA] at hA
      obtain ⟨s', h1⟩ := unpackAll_audio_only bs s ua la UA ha hv hr' hA
      simp only [hv, h1]
      exact ⟨s', by simp⟩
    | audio p =>
      have eA : arrA s.ctx (b :: bs) = p :: arrA s.ctx bs := by simp [arrA, hrb]
      rw [eA] at hA
      obtain ⟨l1, o1, o2, f1, f2, f3⟩ := feedAll_cons_ok _ _ _ _ _ _ hA
      simp only [ha, f1]
      obtain ⟨s', h1⟩ := unpackAll_audio_only bs { s with audio := some { ua with list := l1 } } { ua with list := l1 } la o2 rfl hv hr' f2
      simp only [h1]
      exact ⟨s', by rw [f3, tagUnits_append]⟩

/-- A single-track session (no AvPacketQueue): the messages are the remuxer's output for the container's units. -/
theorem handleAll_single (var : Av2Rtmp.Variant) (rot : Bool) (bs : List Bytes) (s : Sess) (u : Unp) (l : PktList) (U : List RtpUnpack.AvPacket)
    (hq : s.del.queue = none)
    (hu : (s.unp.audio = none ∧ s.unp.video = some u ∧ RtpUnpack.feedAll (protoOf u.kind u.rate) u.list (arrV s.unp.ctx bs) = .ok (l, U))
        ∨ (s.unp.audio = some u ∧ s.unp.video = none ∧ RtpUnpack.feedAll (protoOf u.kind u.rate) u.list (arrA s.unp.ctx bs) = .ok (l, U)))
    (hr : ∀ b ∈ bs, ∃ r, route s.unp.ctx b = .ok r) :
    ∃ s', handleAll var rot s bs = .ok (s', (Av2Rtmp.feedAll var s.del.remux (tagUnits u.pt U)).2) := by
  rw [handleAll_compose]
  rcases hu with ⟨ha, hv, hf⟩ | ⟨ha, hv, hf⟩
  · obtain ⟨u', h1⟩ := unpackAll_video_only bs s.unp u l U ha hv hr hf
    rw [h1]
    simp only [deliver_direct var rot _ s.del hq]
    exact ⟨_, rfl⟩
  · obtain ⟨u', h1⟩ := unpackAll_audio_only bs s.unp u l U ha hv hr hf
    rw [h1]
    simp only [deliver_direct var rot _ s.del hq]
    exact ⟨_, rfl⟩

/-- A session with two tracks (hence with the AvPacketQueue), any arrival sequence `bs`, whatever its interleaving of
    the tracks: the messages are the remuxer's output for a packet sequence `outs` which, per track, together with
    what the queue still holds, is the track's container output (`UA`, `UV`) re-stamped by the queue. -/
theorem handleAll_two_tracks (var : Av2Rtmp.Variant) (bs : List Bytes) (s : Sess) (ua uv : Unp) (q : AvQueue.Q)
    (la lv : PktList) (UA UV : List RtpUnpack.AvPacket)
    (ha : s.unp.audio = some ua) (hv : s.unp.video = some uv) (hpa : ua.pt ≠ ptAvc ∧ ua.pt ≠ ptHevc) (hpv : uv.pt = ptAvc ∨ uv.pt = ptHevc)
    (hq : s.del.queue = some q) (hi : AvQueue.Inv q)
    (hr : ∀ b ∈ bs, ∃ r, route s.unp.ctx b = .ok r)
    (hA : RtpUnpack.feedAll (protoOf ua.kind ua.rate) ua.list (arrA s.unp.ctx bs) = .ok (la, UA))
    (hV : RtpUnpack.feedAll (protoOf uv.kind uv.rate) uv.list (arrV s.unp.ctx bs) = .ok (lv, UV)) :
    ∃ s' outs q', handleAll var true s bs = .ok (s', (Av2Rtmp.feedAll var s.del.remux outs).2)
      ∧ s'.del.queue = some q' ∧ AvQueue.Inv q'
      ∧ AvQueue.vproj outs ++ q'.videoQueue = q.videoQueue ++ AvQueue.rebase q.video (tagUnits uv.pt UV)
      ∧ AvQueue.aproj outs ++ q'.audioQueue = q.audioQueue ++ AvQueue.rebase q.audio (tagUnits ua.pt UA) := by
  obtain ⟨u', us, h1, h2, h3⟩ := unpackAll_tracks bs s.unp ua uv la lv UA UV ha hv hpa hpv hr hA hV
  obtain ⟨g1, g2, g3, _, _⟩ := AvQueue.feedAll_spec us q hi
  rw [handleAll_compose, h1]
  simp only [deliver_queue var true us s.del q hq]
  exact ⟨_, (AvQueue.feedAll true q us).2, (AvQueue.feedAll true q us).1, rfl, rfl, g1, by rw [g2, h3], by rw [g3, h2]⟩

end Lal.RtspIngest
