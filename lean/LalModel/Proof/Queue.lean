import LalModel.Model.Queue
/-
  Lemmas about the asynchronous write queue (Model/Queue.lean): configuration is invariant,
  a configured connection never blocks its caller, and the bytes on the wire are the frames of a
  prefix of the accepted units (which are a subsequence of the units offered).
-/
namespace Lal.Queue

/-! ### the caller never waits -/

theorem tryEnqueue_cfg (c : Conn) (it : Item) :
    (c.tryEnqueue it).1.cap = c.cap ∧ (c.tryEnqueue it).1.behavior = c.behavior := by
  unfold Conn.tryEnqueue
  split
  · exact ⟨rfl, rfl⟩
  · split
    · exact ⟨rfl, rfl⟩
    · split
      · exact ⟨rfl, rfl⟩
      · split <;> exact ⟨rfl, rfl⟩

theorem tryEnqueue_nonblocking (c : Conn) (it : Item) (hc : c.cap > 0) (hb : c.behavior = .returnError) :
    (c.tryEnqueue it).2 ≠ .blocked := by
  unfold Conn.tryEnqueue
  split
  · simp
  · split
    · omega
    · split
      · simp
      · rw [hb]; simp

theorem enqueueAll_cfg (c : Conn) (its : List Item) :
    (c.enqueueAll its).1.cap = c.cap ∧ (c.enqueueAll its).1.behavior = c.behavior := by
  induction its generalizing c with
  | nil => exact ⟨rfl, rfl⟩
  | cons it rest ih =>
    simp only [Conn.enqueueAll]
    have h1 := tryEnqueue_cfg c it
    have h2 := ih (c.tryEnqueue it).1
    exact ⟨h2.1.trans h1.1, h2.2.trans h1.2⟩

theorem enqueueAll_length (c : Conn) (its : List Item) : (c.enqueueAll its).2.length = its.length := by
  induction its generalizing c with
  | nil => rfl
  | cons it rest ih => simp [Conn.enqueueAll, ih]

theorem enqueueAll_nonblocking (c : Conn) (its : List Item) (hc : c.cap > 0) (hb : c.behavior = .returnError) :
    ∀ o ∈ (c.enqueueAll its).2, o ≠ .blocked := by
  induction its generalizing c with
  | nil => intro o ho; simp [Conn.enqueueAll] at ho
  | cons it rest ih =>
    intro o ho
    simp only [Conn.enqueueAll, List.mem_cons] at ho
    have h1 := tryEnqueue_cfg c it
    rcases ho with rfl | ho
    · exact tryEnqueue_nonblocking c it hc hb
    · exact ih (c.tryEnqueue it).1 (by rw [h1.1]; exact hc) (by rw [h1.2]; exact hb) o ho

theorem take_cfg (c : Conn) : c.take.cap = c.cap ∧ c.take.behavior = c.behavior := by
  unfold Conn.take; split
  · exact ⟨rfl, rfl⟩
  · split <;> exact ⟨rfl, rfl⟩

theorem done_cfg (c : Conn) : c.done.cap = c.cap ∧ c.done.behavior = c.behavior := by
  unfold Conn.done; split
  · exact ⟨rfl, rfl⟩
  · split <;> exact ⟨rfl, rfl⟩

theorem fail_cfg (c : Conn) (k : Nat) : (c.fail k).cap = c.cap ∧ (c.fail k).behavior = c.behavior := by
  unfold Conn.fail; split
  · exact ⟨rfl, rfl⟩
  · split <;> exact ⟨rfl, rfl⟩

theorem close_cfg (c : Conn) : c.close.cap = c.cap ∧ c.close.behavior = c.behavior := by
  unfold Conn.close; split
  · exact ⟨rfl, rfl⟩
  · exact ⟨(fail_cfg c 0).1, (fail_cfg c 0).2⟩

theorem close_closed (c : Conn) : c.close.closed = true := by
  unfold Conn.close; split
  · assumption
  · rfl

theorem isAlive_conn (s : Sess) : s.isAlive.1.conn = s.conn := by
  unfold Sess.isAlive; split <;> rfl

theorem sweep_cfg (s : Sess) : s.sweep.conn.cap = s.conn.cap ∧ s.sweep.conn.behavior = s.conn.behavior := by
  unfold Sess.sweep
  split
  · rw [isAlive_conn]; exact ⟨rfl, rfl⟩
  · simp only [Sess.dispose, isAlive_conn]
    exact close_cfg s.conn

theorem stepWith_cfg (items : Proto → U → List Item) (s : Sess) (e : Ev) :
    (s.stepWith items e).conn.cap = s.conn.cap ∧ (s.stepWith items e).conn.behavior = s.conn.behavior
    ∧ (s.stepWith items e).proto = s.proto := by
  cases e with
  | write u => exact ⟨(enqueueAll_cfg _ _).1, (enqueueAll_cfg _ _).2, rfl⟩
  | take => exact ⟨(take_cfg _).1, (take_cfg _).2, rfl⟩
  | done => exact ⟨(done_cfg _).1, (done_cfg _).2, rfl⟩
  | fail k => exact ⟨(fail_cfg _ k).1, (fail_cfg _ k).2, rfl⟩
  | dispose => exact ⟨(close_cfg _).1, (close_cfg _).2, rfl⟩
  | sweep =>
    refine ⟨(sweep_cfg s).1, (sweep_cfg s).2, ?_⟩
    simp only [Sess.stepWith, Sess.sweep]
    split
    · unfold Sess.isAlive; split <;> rfl
    · simp only [Sess.dispose]; unfold Sess.isAlive; split <;> rfl

theorem runWith_cfg (items : Proto → U → List Item) (s : Sess) (evs : List Ev) :
    (s.runWith items evs).conn.cap = s.conn.cap ∧ (s.runWith items evs).conn.behavior = s.conn.behavior
    ∧ (s.runWith items evs).proto = s.proto := by
  induction evs generalizing s with
  | nil => exact ⟨rfl, rfl, rfl⟩
  | cons e rest ih =>
    simp only [Sess.runWith, List.foldl_cons]
    have h1 := stepWith_cfg items s e
    have h2 := ih (s.stepWith items e)
    simp only [Sess.runWith] at h2
    exact ⟨h2.1.trans h1.1, h2.2.1.trans h1.2.1, h2.2.2.trans h1.2.2⟩

theorem write_outcomes_length (s : Sess) (u : U) : (s.write u).2.length = 1 := by
  simp [Sess.write, Sess.writeWith, enqueueAll_length, subItems]

theorem fanout_nonblocking (subs : List Sess) (u : U)
    (h : ∀ s ∈ subs, s.conn.cap > 0 ∧ s.conn.behavior = .returnError) :
    nonBlocking (fanout subs u).2 = true ∧ (fanout subs u).2.length = subs.length := by
  constructor
  · simp only [nonBlocking, fanout, List.all_eq_true, List.mem_flatMap]
    rintro o ⟨s, hs, ho⟩
    have := enqueueAll_nonblocking s.conn (subItems s.proto u) (h s hs).1 (h s hs).2 o ho
    simpa using this
  · simp only [fanout]
    clear h
    induction subs with
    | nil => rfl
    | cons s rest ih => simp [List.flatMap_cons, write_outcomes_length, ih]; omega

/-- subscriber i's state after the fan-out is a function of subscriber i's state alone -/
theorem fanout_independent (subs : List Sess) (u : U) (i : Nat) (hi : i < subs.length) :
    (fanout subs u).1[i]'(by simp [fanout, hi]) = (subs[i].write u).1 := by
  simp [fanout]

/-! ### what is on the wire -/

/-- the connection-level invariant behind `drop_whole_units`, for one item per unit -/
structure Inv (s : Sess) : Prop where
  /-- the frames of the accepted units = what was written completely, then what is pending -/
  split : ∃ pend : List Item,
    s.accepted.map (frame s.proto) = s.conn.wire ++ pend
    ∧ (s.conn.closed = false → pend = s.conn.inflight.toList ++ s.conn.queue)
    ∧ (s.conn.tail = [] ∨ (s.conn.closed = true ∧ ∃ it rest, pend = it :: rest ∧ s.conn.tail <+: it))
  open_tail : s.conn.closed = false → s.conn.tail = []
  sub : s.accepted.Sublist s.offered

theorem inv_init (p : Proto) (cap : Nat) : Inv (Sess.init p cap) :=
  { split := ⟨[], rfl, fun _ => rfl, Or.inl rfl⟩, open_tail := fun _ => rfl, sub := List.Sublist.refl _ }

theorem inv_write (s : Sess) (u : U) (h : Inv s) : Inv (s.write u).1 := by
  obtain ⟨⟨pend, h1, h2, h3⟩, h4, h5⟩ := h
  unfold Sess.write Sess.writeWith
  simp only [subItems, Conn.enqueueAll]
  unfold Conn.tryEnqueue
  by_cases hc : s.conn.closed = true
  · -- ErrClosedAlready: nothing changes but the offered log
    simp only [hc, if_true, List.all_cons, List.all_nil, Bool.and_true]
    have : (Outcome.closedAlready == Outcome.accepted) = false := by decide
    simp only [this, Bool.false_eq_true, if_false]
    exact { split := ⟨pend, h1, fun hh => by simp [hc] at hh, h3⟩,
            open_tail := fun hh => by simp [hc] at hh,
            sub := List.Sublist.trans h5 (List.sublist_append_left _ _) }
  · have hcf : s.conn.closed = false := by simpa using hc
    simp only [hcf, Bool.false_eq_true, if_false]
    by_cases h0 : s.conn.cap = 0
    · simp only [h0, if_true, List.all_cons, List.all_nil, Bool.and_true]
      have : (Outcome.blocked == Outcome.accepted) = false := by decide
      simp only [this, Bool.false_eq_true, if_false]
      exact { split := ⟨pend, h1, h2, h3⟩, open_tail := h4,
              sub := List.Sublist.trans h5 (List.sublist_append_left _ _) }
    · simp only [h0, if_false]
      by_cases hq : s.conn.queue.length < s.conn.cap
      · simp only [hq, if_true, List.all_cons, List.all_nil, Bool.and_true]
        have : (Outcome.accepted == Outcome.accepted) = true := by decide
        simp only [this, if_true]
        refine { split := ⟨pend ++ [frame s.proto u], ?_, ?_, ?_⟩, open_tail := fun _ => h4 hcf, sub := ?_ }
        · simp only [List.map_append, List.map_cons, List.map_nil, h1, List.append_assoc]
        · intro hh
          simp only [h2 hcf, List.append_assoc]
        · exact Or.inl (h4 hcf)
        · exact List.Sublist.append h5 (List.Sublist.refl _)
      · simp only [hq, if_false]
        cases hb : s.conn.behavior with
        | returnError =>
          simp only [List.all_cons, List.all_nil, Bool.and_true]
          have : (Outcome.full == Outcome.accepted) = false := by decide
          simp only [this, Bool.false_eq_true, if_false]
          exact { split := ⟨pend, h1, h2, h3⟩, open_tail := h4,
                  sub := List.Sublist.trans h5 (List.sublist_append_left _ _) }
        | block =>
          simp only [List.all_cons, List.all_nil, Bool.and_true]
          have : (Outcome.blocked == Outcome.accepted) = false := by decide
          simp only [this, Bool.false_eq_true, if_false]
          exact { split := ⟨pend, h1, h2, h3⟩, open_tail := h4,
                  sub := List.Sublist.trans h5 (List.sublist_append_left _ _) }

theorem inv_conn (s : Sess) (c : Conn) (h : Inv s)
    (hsplit : ∃ pend : List Item,
      s.accepted.map (frame s.proto) = c.wire ++ pend
      ∧ (c.closed = false → pend = c.inflight.toList ++ c.queue)
      ∧ (c.tail = [] ∨ (c.closed = true ∧ ∃ it rest, pend = it :: rest ∧ c.tail <+: it)))
    (htail : c.closed = false → c.tail = []) : Inv { s with conn := c } :=
  { split := hsplit, open_tail := htail, sub := h.sub }

theorem inv_take (s : Sess) (h : Inv s) : Inv { s with conn := s.conn.take } := by
  obtain ⟨pend, h1, h2, h3⟩ := h.split
  unfold Conn.take
  by_cases hc : s.conn.closed = true
  · simp only [hc, if_true]; exact h
  · have hcf : s.conn.closed = false := by simpa using hc
    simp only [hcf, Bool.false_eq_true, if_false]
    cases hi : s.conn.inflight with
    | some it => simp only []; exact h
    | none =>
      cases hq : s.conn.queue with
      | nil => simp only []; exact h
      | cons it q =>
        simp only []
        refine inv_conn s _ h ⟨pend, h1, fun _ => ?_, Or.inl (h.open_tail hcf)⟩ (fun _ => h.open_tail hcf)
        rw [h2 hcf, hi, hq]; rfl

theorem inv_done (s : Sess) (h : Inv s) : Inv { s with conn := s.conn.done } := by
  obtain ⟨pend, h1, h2, h3⟩ := h.split
  unfold Conn.done
  by_cases hc : s.conn.closed = true
  · simp only [hc, if_true]; exact h
  · have hcf : s.conn.closed = false := by simpa using hc
    simp only [hcf, Bool.false_eq_true, if_false]
    cases hi : s.conn.inflight with
    | none => simp only []; exact h
    | some it =>
      simp only []
      refine inv_conn s _ h ⟨s.conn.queue, ?_, fun _ => rfl, Or.inl (h.open_tail hcf)⟩ (fun _ => h.open_tail hcf)
      rw [h1, h2 hcf, hi]; simp

theorem inv_fail (s : Sess) (k : Nat) (h : Inv s) : Inv { s with conn := s.conn.fail k } := by
  obtain ⟨pend, h1, h2, h3⟩ := h.split
  unfold Conn.fail
  by_cases hc : s.conn.closed = true
  · simp only [hc, if_true]; exact h
  · have hcf : s.conn.closed = false := by simpa using hc
    simp only [hcf, Bool.false_eq_true, if_false]
    cases hi : s.conn.inflight with
    | none => simp only []; exact h
    | some it =>
      simp only []
      refine inv_conn s _ h ⟨pend, h1, fun hh => by simp at hh, Or.inr ⟨rfl, it, s.conn.queue, ?_, List.take_prefix _ _⟩⟩
        (fun hh => by simp at hh)
      rw [h2 hcf, hi]; rfl

theorem inv_close (s : Sess) (h : Inv s) : Inv { s with conn := s.conn.close } := by
  unfold Conn.close
  by_cases hc : s.conn.closed = true
  · simp only [hc, if_true]; exact h
  · have hcf : s.conn.closed = false := by simpa using hc
    simp only [hcf, Bool.false_eq_true, if_false]
    have hf := inv_fail s 0 h
    obtain ⟨pend, h1, h2, h3⟩ := hf.split
    refine inv_conn s _ h ⟨pend, h1, fun hh => by simp at hh, ?_⟩ (fun hh => by simp at hh)
    -- after `fail 0` the tail is empty whether or not a write was in flight
    left
    show (s.conn.fail 0).tail = []
    unfold Conn.fail
    simp only [hcf, Bool.false_eq_true, if_false]
    cases hi : s.conn.inflight with
    | none => exact h.open_tail hcf
    | some it => simp

theorem inv_isAlive (s : Sess) (h : Inv s) : Inv s.isAlive.1 := by
  unfold Sess.isAlive
  split
  · exact { split := h.split, open_tail := h.open_tail, sub := h.sub }
  · exact { split := h.split, open_tail := h.open_tail, sub := h.sub }

theorem inv_step (s : Sess) (e : Ev) (h : Inv s) : Inv (s.step e) := by
  cases e with
  | write u => exact inv_write s u h
  | take => exact inv_take s h
  | done => exact inv_done s h
  | fail k => exact inv_fail s k h
  | dispose => exact inv_close s h
  | sweep =>
    simp only [Sess.step, Sess.stepWith, Sess.sweep]
    split
    · exact inv_isAlive s h
    · exact inv_close _ (inv_isAlive s h)

theorem inv_run (s : Sess) (evs : List Ev) (h : Inv s) : Inv (s.run evs) := by
  induction evs generalizing s with
  | nil => exact h
  | cons e rest ih => exact ih (s.step e) (inv_step s e h)

/-- the units offered are the units the event list writes -/
theorem offered_run (s : Sess) (evs : List Ev) : (s.run evs).offered = s.offered ++ written evs := by
  induction evs generalizing s with
  | nil => simp [Sess.run, written]
  | cons e rest ih =>
    have : (s.run (e :: rest)) = (s.step e).run rest := rfl
    rw [this, ih]
    cases e with
    | write u => simp [Sess.step, Sess.stepWith, Sess.writeWith, written]
    | take => simp [Sess.step, Sess.stepWith, written]
    | done => simp [Sess.step, Sess.stepWith, written]
    | fail k => simp [Sess.step, Sess.stepWith, written]
    | dispose => simp [Sess.step, Sess.stepWith, Sess.dispose, written]
    | sweep =>
      have : (s.step .sweep).offered = s.offered := by
        simp only [Sess.step, Sess.stepWith, Sess.sweep]
        split
        · unfold Sess.isAlive; split <;> rfl
        · simp only [Sess.dispose]; unfold Sess.isAlive; split <;> rfl
      simp [this, written]

/-- What the consumer received, for EVERY event order: the frames of whole units — a prefix `del` of the
    accepted units, themselves a subsequence of the units written — followed, only on a connection that
    was closed under a write, by a prefix of the next accepted unit's frame. -/
theorem received_units (p : Proto) (cap : Nat) (evs : List Ev) :
    ∃ del : List U,
      del.Sublist (written evs)
      ∧ del <+: ((Sess.init p cap).run evs).accepted
      ∧ ((Sess.init p cap).run evs).conn.wire = del.map (frame p)
      ∧ (((Sess.init p cap).run evs).conn.tail = []
         ∨ (((Sess.init p cap).run evs).conn.closed = true
            ∧ ∃ u, (del ++ [u]).Sublist (written evs) ∧ ((Sess.init p cap).run evs).conn.tail <+: frame p u)) := by
  have hinv := inv_run _ evs (inv_init p cap)
  have hoff := offered_run (Sess.init p cap) evs
  have hp : ((Sess.init p cap).run evs).proto = p := (runWith_cfg subItems (Sess.init p cap) evs).2.2
  generalize (Sess.init p cap).run evs = s at hinv hoff hp
  obtain ⟨⟨pend, h1, _, h3⟩, _, h5⟩ := hinv
  have hoff' : s.offered = written evs := by simpa [Sess.init] using hoff
  rw [hp] at h1
  rw [hoff'] at h5
  refine ⟨s.accepted.take s.conn.wire.length, ?_, List.take_prefix _ _, ?_, ?_⟩
  · exact List.Sublist.trans (List.take_sublist _ _) h5
  · rw [List.map_take, h1]; simp
  · rcases h3 with h3 | ⟨hc, it, rest, hpe, hpre⟩
    · exact Or.inl h3
    · right
      refine ⟨hc, ?_⟩
      -- the unit whose frame is the first pending item
      have hlen : s.conn.wire.length < s.accepted.length := by
        have := congrArg List.length h1
        simp only [List.length_map, List.length_append, hpe, List.length_cons] at this
        omega
      refine ⟨s.accepted[s.conn.wire.length], ?_, ?_⟩
      · have : s.accepted.take s.conn.wire.length ++ [s.accepted[s.conn.wire.length]]
            = s.accepted.take (s.conn.wire.length + 1) := by
          rw [List.take_succ_eq_append_getElem hlen]
        rw [this]
        exact List.Sublist.trans (List.take_sublist _ _) h5
      · have hget : (s.accepted.map (frame p))[s.conn.wire.length]'(by simpa using hlen) = it := by
          simp only [h1, hpe]
          rw [List.getElem_append_right (Nat.le_refl _)]
          simp
        rw [List.getElem_map] at hget
        rw [hget]; exact hpre

/-! ### the liveness sweep -/

theorem stale_step (s : Sess) (e : Ev) (he : e ≠ .sweep) : (s.step e).stale = s.stale := by
  cases e with
  | sweep => exact absurd rfl he
  | write u => rfl
  | take => rfl
  | done => rfl
  | fail k => rfl
  | dispose => rfl

theorem stale_run (s : Sess) (evs : List Ev) (he : ∀ e ∈ evs, e ≠ .sweep) : (s.run evs).stale = s.stale := by
  induction evs generalizing s with
  | nil => rfl
  | cons e rest ih =>
    have : (s.run (e :: rest)) = (s.step e).run rest := rfl
    rw [this, ih (s.step e) (fun x hx => he x (by simp [hx])), stale_step s e (he e (by simp))]

theorem sweep_stale (s : Sess) : s.sweep.stale = some s.counter := by
  unfold Sess.sweep
  split
  · unfold Sess.isAlive; split <;> rfl
  · simp only [Sess.dispose]; unfold Sess.isAlive; split <;> rfl

/-- the counter the sweep looks at moves only when the socket write in flight returns (rtmp, flv, ts) -/
theorem wrote_step (s : Sess) (e : Ev) (h1 : e ≠ .done) (h2 : ∀ k, e ≠ .fail k) :
    (s.step e).conn.wrote = s.conn.wrote := by
  have hclose : ∀ c : Conn, c.close.wrote = c.wrote := by
    intro c; unfold Conn.close Conn.fail
    (repeat' split) <;> simp
  cases e with
  | done => exact absurd rfl h1
  | fail k => exact absurd rfl (h2 k)
  | write u =>
    simp only [Sess.step, Sess.stepWith, Sess.writeWith, subItems, Conn.enqueueAll]
    unfold Conn.tryEnqueue
    split
    · rfl
    · split
      · rfl
      · split
        · rfl
        · split <;> rfl
  | take =>
    simp only [Sess.step, Sess.stepWith]; unfold Conn.take
    split
    · rfl
    · split <;> rfl
  | dispose => exact hclose s.conn
  | sweep =>
    simp only [Sess.step, Sess.stepWith, Sess.sweep]
    split
    · rw [isAlive_conn]
    · simp only [Sess.dispose, isAlive_conn]; exact hclose s.conn

theorem step_proto (s : Sess) (e : Ev) : (s.step e).proto = s.proto := (stepWith_cfg subItems s e).2.2

theorem counter_run_stalled (s : Sess) (evs : List Ev) (hp : s.proto.isRtsp = false)
    (h : ∀ e ∈ evs, e ≠ .done ∧ ∀ k, e ≠ .fail k) : (s.run evs).counter = s.counter := by
  induction evs generalizing s with
  | nil => rfl
  | cons e rest ih =>
    have hrun : (s.run (e :: rest)) = (s.step e).run rest := rfl
    have hp' : (s.step e).proto.isRtsp = false := by rw [step_proto]; exact hp
    rw [hrun, ih (s.step e) hp' (fun x hx => h x (by simp [hx]))]
    have he := h e (by simp)
    simp only [Sess.counter, hp', hp, Bool.false_eq_true, if_false]
    exact wrote_step s e he.1 he.2

/-- a list all of whose elements are images under `f` of something satisfying `P` is the image of a list -/
theorem exists_map_of_forall {α β : Type} (f : α → β) (P : α → Prop) (l : List β)
    (h : ∀ b ∈ l, ∃ a, P a ∧ b = f a) : ∃ as : List α, (∀ a ∈ as, P a) ∧ l = as.map f := by
  induction l with
  | nil => exact ⟨[], by simp, rfl⟩
  | cons b rest ih =>
    obtain ⟨a, ha, rfl⟩ := h b (by simp)
    obtain ⟨as, has, rfl⟩ := ih (fun x hx => h x (by simp [hx]))
    exact ⟨a :: as, by intro x hx; simp at hx; rcases hx with rfl | hx; exact ha; exact has x hx, rfl⟩

theorem take_facts (c : Conn) :
    c.take.closed = c.closed ∧ c.take.cap = c.cap ∧ c.take.queue.length ≤ c.queue.length := by
  unfold Conn.take
  split
  · simp
  · split
    · next h => simp [h]
    · simp

theorem done_facts (c : Conn) : c.done.closed = c.closed ∧ c.done.cap = c.cap ∧ c.done.queue = c.queue := by
  unfold Conn.done
  split
  · simp
  · split <;> simp

/-- while fewer units have been offered than the queue holds, every one is accepted, whatever the writer does -/
theorem accepted_all_while_room (s : Sess) (evs : List Ev)
    (hev : ∀ e ∈ evs, (∃ u, e = .write u) ∨ e = .take ∨ e = .done)
    (hcl : s.conn.closed = false) (hacc : s.accepted = s.offered)
    (hq : s.conn.queue.length ≤ s.offered.length) (hcap : s.offered.length + (written evs).length ≤ s.conn.cap) :
    (s.run evs).accepted = s.offered ++ written evs := by
  induction evs generalizing s with
  | nil => simp [Sess.run, written, hacc]
  | cons e rest ih =>
    have hrun : (s.run (e :: rest)) = (s.step e).run rest := rfl
    rw [hrun]
    rcases hev e (by simp) with ⟨u, rfl⟩ | rfl | rfl
    · -- a write with room left: accepted
      have hw : written (Ev.write u :: rest) = u :: written rest := by simp [written]
      rw [hw] at hcap ⊢
      simp only [List.length_cons] at hcap
      have hroom : s.conn.queue.length < s.conn.cap := by omega
      have hc0 : ¬ s.conn.cap = 0 := by omega
      have hstep : s.step (.write u) =
          { s with conn := { s.conn with queue := s.conn.queue ++ [frame s.proto u] },
                   statWrote := if s.proto.isRtsp then s.statWrote + u.data.length else s.statWrote,
                   offered := s.offered ++ [u], accepted := s.accepted ++ [u] } := by
        simp [Sess.step, Sess.stepWith, Sess.writeWith, subItems, Conn.enqueueAll, Conn.tryEnqueue, hcl, hc0, hroom]
      rw [hstep, ih]
      · simp
      · exact fun x hx => hev x (by simp [hx])
      · exact hcl
      · simp [hacc]
      · simp; omega
      · simp; omega
    · have hw : written (Ev.take :: rest) = written rest := by simp [written]
      rw [hw] at hcap ⊢
      have hstep : (s.step .take).offered = s.offered ∧ (s.step .take).accepted = s.accepted
          ∧ (s.step .take).conn.closed = false ∧ (s.step .take).conn.cap = s.conn.cap
          ∧ (s.step .take).conn.queue.length ≤ s.conn.queue.length := by
        have hf := take_facts s.conn
        exact ⟨rfl, rfl, hf.1.trans hcl, hf.2.1, hf.2.2⟩
      obtain ⟨a1, a2, a3, a4, a5⟩ := hstep
      rw [ih (s.step .take) (fun x hx => hev x (by simp [hx])) a3 (by rw [a1, a2]; exact hacc)
        (by rw [a1]; omega) (by rw [a1, a4]; exact hcap), a1]
    · have hw : written (Ev.done :: rest) = written rest := by simp [written]
      rw [hw] at hcap ⊢
      have hstep : (s.step .done).offered = s.offered ∧ (s.step .done).accepted = s.accepted
          ∧ (s.step .done).conn.closed = false ∧ (s.step .done).conn.cap = s.conn.cap
          ∧ (s.step .done).conn.queue.length ≤ s.conn.queue.length := by
        have hf := done_facts s.conn
        exact ⟨rfl, rfl, hf.1.trans hcl, hf.2.1, Nat.le_of_eq (congrArg List.length hf.2.2)⟩
      obtain ⟨a1, a2, a3, a4, a5⟩ := hstep
      rw [ih (s.step .done) (fun x hx => hev x (by simp [hx])) a3 (by rw [a1, a2]; exact hacc)
        (by rw [a1]; omega) (by rw [a1, a4]; exact hcap), a1]

/-! ### the first unit -/

/-- bookkeeping behind "the first unit written to a fresh session is the first unit received" -/
structure HeadInv (s : Sess) : Prop where
  capPos : s.conn.cap ≥ 1
  empty : s.offered = [] → s.conn.queue = []
  none : s.accepted = [] → s.offered = [] ∨ s.conn.closed = true
  head : s.accepted ≠ [] → s.accepted.head? = s.offered.head?

theorem headInv_conn (s : Sess) (c : Conn) (h : HeadInv s) (hcap : c.cap = s.conn.cap)
    (hq : s.conn.queue = [] → c.queue = []) (hcl : s.conn.closed = true → c.closed = true) :
    HeadInv { s with conn := c } :=
  { capPos := by rw [show ({ s with conn := c } : Sess).conn.cap = c.cap from rfl, hcap]; exact h.capPos,
    empty := fun ho => hq (h.empty ho),
    none := fun ha => (h.none ha).imp id hcl,
    head := h.head }

theorem head?_append_of_ne {α : Type} (l : List α) (x : α) (h : l ≠ []) : (l ++ [x]).head? = l.head? := by
  cases l with
  | nil => exact absurd rfl h
  | cons a t => rfl

theorem headInv_write (s : Sess) (u : U) (h : HeadInv s) : HeadInv (s.write u).1 := by
  obtain ⟨hc, he, hn, hh⟩ := h
  have hoff : s.accepted ≠ [] → s.offered ≠ [] := by
    intro ha ho
    have := hh ha
    rw [ho] at this
    cases hacc : s.accepted with
    | nil => exact ha hacc
    | cons a t => rw [hacc] at this; simp at this
  unfold Sess.write Sess.writeWith
  simp only [subItems, Conn.enqueueAll]
  unfold Conn.tryEnqueue
  by_cases hcl : s.conn.closed = true
  · simp only [hcl, if_true, List.all_cons, List.all_nil, Bool.and_true]
    have : (Outcome.closedAlready == Outcome.accepted) = false := by decide
    simp only [this, Bool.false_eq_true, if_false]
    exact { capPos := hc, empty := fun ho => by simp at ho, none := fun _ => Or.inr hcl,
            head := fun ha => by rw [head?_append_of_ne _ _ (hoff ha)]; exact hh ha }
  · have hcf : s.conn.closed = false := by simpa using hcl
    have hc0 : ¬ s.conn.cap = 0 := by omega
    simp only [hcf, Bool.false_eq_true, if_false, hc0]
    by_cases hq : s.conn.queue.length < s.conn.cap
    · simp only [hq, if_true, List.all_cons, List.all_nil, Bool.and_true]
      have : (Outcome.accepted == Outcome.accepted) = true := by decide
      simp only [this, if_true]
      refine { capPos := hc, empty := fun ho => by simp at ho, none := fun ha => by simp at ha, head := fun _ => ?_ }
      by_cases ha : s.accepted = []
      · rcases hn ha with ho | hx
        · simp [ha, ho]
        · rw [hcf] at hx; exact absurd hx (by decide)
      · show (s.accepted ++ [u]).head? = (s.offered ++ [u]).head?
        rw [head?_append_of_ne _ _ ha, head?_append_of_ne _ _ (hoff ha)]; exact hh ha
    · -- refused because full: something is queued, so something was accepted before
      have hne : s.accepted ≠ [] := by
        intro ha
        rcases hn ha with ho | hx
        · have := he ho; rw [this] at hq; simp at hq; omega
        · rw [hcf] at hx; exact absurd hx (by decide)
      simp only [hq, if_false]
      cases hb : s.conn.behavior with
      | returnError =>
        simp only [List.all_cons, List.all_nil, Bool.and_true]
        have : (Outcome.full == Outcome.accepted) = false := by decide
        simp only [this, Bool.false_eq_true, if_false]
        exact { capPos := hc, empty := fun ho => by simp at ho, none := fun ha => absurd ha hne,
                head := fun ha => by rw [head?_append_of_ne _ _ (hoff ha)]; exact hh ha }
      | block =>
        simp only [List.all_cons, List.all_nil, Bool.and_true]
        have : (Outcome.blocked == Outcome.accepted) = false := by decide
        simp only [this, Bool.false_eq_true, if_false]
        exact { capPos := hc, empty := fun ho => by simp at ho, none := fun ha => absurd ha hne,
                head := fun ha => by rw [head?_append_of_ne _ _ (hoff ha)]; exact hh ha }

theorem fail_facts (c : Conn) (k : Nat) :
    (c.fail k).cap = c.cap ∧ (c.fail k).queue = c.queue ∧ (c.closed = true → (c.fail k).closed = true) := by
  unfold Conn.fail
  split
  · simp
  · split <;> simp

theorem close_facts (c : Conn) :
    c.close.cap = c.cap ∧ c.close.queue = c.queue ∧ (c.closed = true → c.close.closed = true) := by
  refine ⟨(close_cfg c).1, ?_, fun _ => close_closed c⟩
  unfold Conn.close
  split
  · rfl
  · exact (fail_facts c 0).2.1

theorem headInv_step (s : Sess) (e : Ev) (h : HeadInv s) : HeadInv (s.step e) := by
  cases e with
  | write u => exact headInv_write s u h
  | take =>
    have hf := take_facts s.conn
    exact headInv_conn s _ h hf.2.1 (fun hq => by
      have := hf.2.2; rw [hq] at this; exact List.eq_nil_of_length_eq_zero (by simpa using this))
      (fun hc => by rw [hf.1]; exact hc)
  | done =>
    have hf := done_facts s.conn
    exact headInv_conn s _ h hf.2.1 (fun hq => by rw [hf.2.2]; exact hq) (fun hc => by rw [hf.1]; exact hc)
  | fail k =>
    have hf := fail_facts s.conn k
    exact headInv_conn s _ h hf.1 (fun hq => by rw [hf.2.1]; exact hq) hf.2.2
  | dispose =>
    have hf := close_facts s.conn
    exact headInv_conn s _ h hf.1 (fun hq => by rw [hf.2.1]; exact hq) hf.2.2
  | sweep =>
    have hia : HeadInv s.isAlive.1 := by
      unfold Sess.isAlive
      split
      · exact { capPos := h.capPos, empty := h.empty, none := h.none, head := h.head }
      · exact { capPos := h.capPos, empty := h.empty, none := h.none, head := h.head }
    simp only [Sess.step, Sess.stepWith, Sess.sweep]
    split
    · exact hia
    · have hf := close_facts s.isAlive.1.conn
      exact headInv_conn _ _ hia hf.1 (fun hq => by rw [hf.2.1]; exact hq) hf.2.2

theorem headInv_run (s : Sess) (evs : List Ev) (h : HeadInv s) : HeadInv (s.run evs) := by
  induction evs generalizing s with
  | nil => exact h
  | cons e rest ih => exact ih (s.step e) (headInv_step s e h)

/-- on a session created with room for at least one item, the first unit accepted is the first unit written
    (nothing at all is accepted only if the connection was closed before the first write) -/
theorem accepted_head (p : Proto) (cap : Nat) (hcap : cap ≥ 1) (evs : List Ev) :
    ((Sess.init p cap).run evs).accepted = []
    ∨ ((Sess.init p cap).run evs).accepted.head? = (written evs).head? := by
  have h := headInv_run (Sess.init p cap) evs
    { capPos := hcap, empty := fun _ => rfl, none := fun _ => Or.inl rfl, head := fun ha => absurd rfl ha }
  have hoff := offered_run (Sess.init p cap) evs
  by_cases ha : ((Sess.init p cap).run evs).accepted = []
  · exact Or.inl ha
  · right
    rw [h.head ha, hoff]; simp [Sess.init]

end Lal.Queue
