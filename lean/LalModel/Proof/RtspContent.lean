import LalModel.Proof.RtspPackets
import LalModel.Proof.TsContent
/-
  `Rtmp2RtspRemuxer.remux` on the messages of a well-formed publish, once the analysis phase is over: the RTP packets of
  each track, read by the RFC 3550 reader and depacketised per RFC 6184 / 7798 / 3640, are the published access units /
  frames, with the published time at the track's clock rate.
-/
namespace Lal.RtspContent
open Lal Lal.Rtp Lal.TsRmx Lal.RtspRmx Lal.Publish Lal.TsContent Lal.RtspPackets

def hevcOf (c : VCodec) : Bool := match c with | .hevc => true | .avc => false
def vptOf (c : VCodec) : Int := match c with | .avc => Sdp.ptAvc | .hevc => Sdp.ptHevc
def kindOf (c : VCodec) : Rtp.Kind := match c with | .avc => .avc | .hevc => .hevc

/-- a NAL unit the RTP payload format can carry (C12 `NalWF`): forbidden_zero_bit 0; sent whole only with a single-NAL
    type; H.265: at least the two header bytes -/
def RtpNalOK (c : VCodec) (n : Bytes) : Prop := Rtp.NalWF (hevcOf c) n Gen.rtpMaxPayloadSize

theorem flat_avc : ∀ (l : List Bytes), (∀ n ∈ l, n ≠ []) → (∀ n ∈ normRtp .avc l, RtpNalOK .avc n) →
    (l.flatMap fun nal =>
      if avcNalType (nal.headD 0) = Gen.avcNaluTypeAud then []
      else match Rtp.packNal false nal Gen.rtpMaxPayloadSize with
        | .ok ps => ps
        | .error _ => [])
    = (normRtp .avc l).flatMap fun n => nalPayloads false n Gen.rtpMaxPayloadSize := by
  intro l
  induction l with
  | nil => intro _ _; rfl
  | cons n ns ih =>
    intro hne' hok'
    have hn := hne' n (by simp)
    obtain ⟨h, t, rfl⟩ : ∃ h t, n = h :: t := by
      cases n with
      | nil => exact absurd rfl hn
      | cons h t => exact ⟨h, t, rfl⟩
    simp only [List.flatMap_cons, List.headD_cons]
    by_cases ha : avcNalType h = Gen.avcNaluTypeAud
    · simp only [ha, if_true]
      have hia : isAud .avc (h :: t) = true := by
        simp only [avcNalType, Gen.avcNaluTypeAud] at ha
        simp [isAud, nalType, ha]
      have : normRtp .avc ((h :: t) :: ns) = normRtp .avc ns := by simp [normRtp, List.filter_cons, hia]
      rw [this, List.nil_append]
      exact ih (fun m hm => hne' m (by simp [hm])) (by rw [this] at hok'; exact hok')
    · simp only [ha, if_false]
      have hia : isAud .avc (h :: t) = false := by
        simp only [avcNalType, Gen.avcNaluTypeAud] at ha
        simp [isAud, nalType, ha]
      have hnorm : normRtp .avc ((h :: t) :: ns) = (h :: t) :: normRtp .avc ns := by simp [normRtp, List.filter_cons, hia]
      rw [hnorm, List.flatMap_cons]
      have hwf : RtpNalOK .avc (h :: t) := hok' _ (by rw [hnorm]; simp)
      rw [packNal_ok false (h :: t) Gen.rtpMaxPayloadSize (NalWF.fits _ _ _ hwf)]
      congr 1
      exact ih (fun m hm => hne' m (by simp [hm])) (fun m hm => hok' m (by rw [hnorm]; simp [hm]))

theorem flat_hevc : ∀ (l : List Bytes), (∀ n ∈ l, n ≠ []) → (∀ n ∈ normRtp .hevc l, RtpNalOK .hevc n) →
    (l.flatMap fun nal =>
      if hevcNalType (nal.headD 0) = Gen.hevcNaluTypeAud then []
      else match Rtp.packNal true nal Gen.rtpMaxPayloadSize with
        | .ok ps => ps
        | .error _ => [])
    = (normRtp .hevc l).flatMap fun n => nalPayloads true n Gen.rtpMaxPayloadSize := by
  intro l
  induction l with
  | nil => intro _ _; rfl
  | cons n ns ih =>
    intro hne' hok'
    have hn := hne' n (by simp)
    obtain ⟨h, t, rfl⟩ : ∃ h t, n = h :: t := by
      cases n with
      | nil => exact absurd rfl hn
      | cons h t => exact ⟨h, t, rfl⟩
    have e : h.toNat / 2 % 64 = h.toNat % 128 / 2 := by omega
    simp only [List.flatMap_cons, List.headD_cons]
    by_cases ha : hevcNalType h = Gen.hevcNaluTypeAud
    · simp only [ha, if_true]
      have hia : isAud .hevc (h :: t) = true := by
        simp only [hevcNalType, Gen.hevcNaluTypeAud] at ha
        simp [isAud, nalType, e, ha]
      have : normRtp .hevc ((h :: t) :: ns) = normRtp .hevc ns := by simp [normRtp, List.filter_cons, hia]
      rw [this, List.nil_append]
      exact ih (fun m hm => hne' m (by simp [hm])) (by rw [this] at hok'; exact hok')
    · simp only [ha, if_false]
      have hia : isAud .hevc (h :: t) = false := by
        simp only [hevcNalType, Gen.hevcNaluTypeAud] at ha
        simp [isAud, nalType, e, ha]
      have hnorm : normRtp .hevc ((h :: t) :: ns) = (h :: t) :: normRtp .hevc ns := by simp [normRtp, List.filter_cons, hia]
      rw [hnorm, List.flatMap_cons]
      have hwf : RtpNalOK .hevc (h :: t) := hok' _ (by rw [hnorm]; simp)
      rw [packNal_ok true (h :: t) Gen.rtpMaxPayloadSize (NalWF.fits _ _ _ hwf)]
      congr 1
      exact ih (fun m hm => hne' m (by simp [hm])) (fun m hm => hok' m (by rw [hnorm]; simp [hm]))

/-- the payloads `RtpPackerPayloadAvcHevc.Pack` (AVCC mode) makes of an access unit: AUDs dropped, every other unit
    whole or fragmented -/
theorem packAvcc_sample (c : VCodec) (nals : List Bytes) (hne : nals ≠ []) (hall : ∀ n ∈ nals, n ≠ [] ∧ n.length < 4294967296)
    (hok : ∀ n ∈ normRtp c nals, RtpNalOK c n) :
    packAvcc (hevcOf c) (sample nals) Gen.rtpMaxPayloadSize = (normRtp c nals).flatMap fun n => nalPayloads (hevcOf c) n Gen.rtpMaxPayloadSize := by
  unfold packAvcc
  have hm : ¬ Gen.rtpMaxPayloadSize = 0 := by decide
  rw [if_neg hm, sample_eq, Nalu.splitNaluAvcc_join nals hne hall]
  cases c with
  | avc =>
    simp only [hevcOf, Bool.false_eq_true, if_false]
    exact flat_avc nals (fun n hn => (hall n hn).1) hok
  | hevc =>
    simp only [hevcOf, Bool.false_eq_true, if_false, if_true]
    exact flat_hevc nals (fun n hn => (hall n hn).1) hok

def rtpKindOf (c : VCodec) : Demux.RtpKind := match c with | .avc => .avc | .hevc => .hevc

theorem fuLoop_ne_nil (hevc : Bool) (a b : UInt8) (chunk k : Nat) (first : Bool) (rest : Bytes) :
    fuLoop hevc a b chunk (k + 1) first rest ≠ [] := by
  unfold fuLoop
  split <;> simp

theorem nalPayloads_ne_nil (hevc : Bool) (n : Bytes) (m : Nat) : nalPayloads hevc n m ≠ [] := by
  unfold nalPayloads
  split
  · simp
  · rename_i hgt
    cases hl : n.length with
    | zero => rw [hl] at hgt; omega
    | succ k => exact fuLoop_ne_nil _ _ _ _ _ _ _

/-- the RFC depacketiser on those payloads -/
theorem depack_nals (c : VCodec) (units : List Bytes) (hok : ∀ n ∈ units, RtpNalOK c n) :
    Demux.depack (rtpKindOf c) (units.flatMap fun n => nalPayloads (hevcOf c) n Gen.rtpMaxPayloadSize)
      = some units := by
  cases c with
  | avc =>
    exact RtpSpec.run6184_nals Gen.rtpMaxPayloadSize units (fun n hn => by have := hok n hn; simpa [RtpNalOK, Rtp.NalWF, hevcOf] using this)
  | hevc =>
    exact RtpSpec.run7798_nals Gen.rtpMaxPayloadSize units (fun n hn => by have := hok n hn; simpa [RtpNalOK, Rtp.NalWF, hevcOf] using this)

/-! ### `remux` on a video access unit -/

theorem render_video_payload (c : VCodec) (ts ct : Nat) (key : Bool) (nals : List Bytes) :
    ∃ b0 : UInt8, (render c (.video ts ct key nals)).payload = b0 :: 1 :: (be24 ct ++ sample nals) ∧ b0.toNat < 128
      ∧ b0.toNat % 16 = (match c with | .avc => 7 | .hevc => 12) := by
  cases c <;> cases key
  · exact ⟨0x27, rfl, by decide, by decide⟩
  · exact ⟨0x17, rfl, by decide, by decide⟩
  · exact ⟨0x2c, rfl, by decide, by decide⟩
  · exact ⟨0x1c, rfl, by decide, by decide⟩

/-- the video side of a remuxer that has finished its analysis with a video track -/
structure VReady (c : VCodec) (s : RtspRmx.St) : Prop where
  sps : s.sps.isSome = true
  vpt : s.videoPt = vptOf c
  pk : s.videoPacker = none ∨ ∃ seq, seq < 65536 ∧ s.videoPacker = some { kind := kindOf c, rate := 90000, seq := seq }

/-- the next sequence number of the video packer (0: lal draws it at random; the harness prints it relative to that) -/
def vseq (s : RtspRmx.St) : Nat := match s.videoPacker with | some p => p.seq | none => 0

def vpayloads (c : VCodec) (nals : List Bytes) : List Bytes :=
  (normRtp c nals).flatMap fun n => nalPayloads (hevcOf c) n Gen.rtpMaxPayloadSize

def vptNat (c : VCodec) : Nat := match c with | .avc => 96 | .hevc => 98

theorem remux_video (c : VCodec) (s : RtspRmx.St) (hr : VReady c s) (ts ct : Nat) (key : Bool) (nals : List Bytes)
    (hwf : ElemWF c (.video ts ct key nals)) (hok : ∀ n ∈ normRtp c nals, RtpNalOK c n) :
    (remux s (render c (.video ts ct key nals))).2
        = (packLoop (vptNat c) (rtpTimestamp ts 90000) 0 (vseq s) (vpayloads c nals)).map RtspRmx.Out.rtp
    ∧ VReady c (remux s (render c (.video ts ct key nals))).1
    ∧ vseq (remux s (render c (.video ts ct key nals))).1 = (vseq s + (vpayloads c nals).length) % 65536
    ∧ (remux s (render c (.video ts ct key nals))).1.audioPacker = s.audioPacker
    ∧ (remux s (render c (.video ts ct key nals))).1.audioPt = s.audioPt
    ∧ (remux s (render c (.video ts ct key nals))).1.asc = s.asc
    ∧ (remux s (render c (.video ts ct key nals))).1.audioSampleRate = s.audioSampleRate := by
  obtain ⟨hne, hall, _, _⟩ := hwf
  have hall' : ∀ n ∈ nals, n ≠ [] ∧ n.length < 4294967296 := fun n hn => ⟨(nalOK_wf n (hall n hn).1).1, (hall n hn).2⟩
  obtain ⟨b0, hp, hb, hcod⟩ := render_video_payload c ts ct key nals
  have htyp : (render c (.video ts ct key nals)).typ = 9 := rfl
  have hts : (render c (.video ts ct key nals)).ts = ts := rfl
  have hext : isExt (b0 :: 1 :: (be24 ct ++ sample nals)) = false := by
    simp only [isExt, pb_cons_zero]
    have : b0.toNat / 128 % 2 = 0 := by omega
    simp [this]
  have hen : isEnhancedNalu (b0 :: 1 :: (be24 ct ++ sample nals)) = false := by simp [isEnhancedNalu, hext]
  have hdrop : (b0 :: 1 :: (be24 ct ++ sample nals)).drop 5 = sample nals := by simp [be24]
  have hpay := packAvcc_sample c nals hne hall' hok
  -- the packer
  have hgp : ∃ pk, getVideoPacker s = ({ s with videoPacker := some pk }, some pk) ∧ pk.kind = kindOf c ∧ pk.rate = 90000
      ∧ pk.seq = vseq s ∧ pk.seq < 65536 := by
    unfold getVideoPacker
    have hs : ¬ s.sps.isNone = true := by
      have := hr.sps
      cases h : s.sps <;> simp_all
    rw [if_neg hs]
    rcases hr.pk with h | ⟨seq, hlt, h⟩
    · rw [h]
      refine ⟨{ kind := if s.videoPt = Sdp.ptAvc then .avc else .hevc, rate := 90000 }, rfl, ?_, rfl, by simp [vseq, h],
              by show (0 : Nat) < 65536; omega⟩
      rw [hr.vpt]
      cases c <;> simp [vptOf, kindOf, Sdp.ptAvc, Sdp.ptHevc]
    · rw [h]
      refine ⟨{ kind := kindOf c, rate := 90000, seq := seq }, ?_, rfl, rfl, by simp [vseq, h], hlt⟩
      cases s; simp_all
  obtain ⟨pk, hgpe, hk, hrate, hseq, hlt⟩ := hgp
  have hkind : (pk.kind == Rtp.Kind.hevc) = hevcOf c := by rw [hk]; cases c <;> rfl
  have hpt : ((s.videoPt % 256).toNat) = vptNat c := by rw [hr.vpt]; cases c <;> rfl
  unfold remux
  simp only [htyp, hts, hp]
  have h8 : ¬ (9 : Nat) = 8 := by decide
  simp only [h8, if_false, if_true, hgpe]
  simp only [hen, Bool.and_false, Bool.false_eq_true, if_false, hdrop, hkind, hpay, packerEmit, hrate, hpt, hseq]
  refine ⟨rfl, ?_, by simp [vseq, vpayloads], trivial, trivial, trivial, trivial⟩
  exact { sps := hr.sps, vpt := hr.vpt,
          pk := Or.inr ⟨(vseq s + (vpayloads c nals).length) % 65536, by omega, by
            show some _ = some _
            congr 1
            cases pk
            simp_all [vpayloads]⟩ }

/-! ### audio messages leave the video side alone (and vice versa) -/

/-- the packets of payload type `pt` among the callbacks -/
def pktsOf (pt : Nat) : List RtspRmx.Out → List RtpPacket
  | [] => []
  | .rtp p :: r => if p.hdr.packetType = pt then p :: pktsOf pt r else pktsOf pt r
  | .sdp _ :: r => pktsOf pt r

theorem pktsOf_append (pt : Nat) (a b : List RtspRmx.Out) : pktsOf pt (a ++ b) = pktsOf pt a ++ pktsOf pt b := by
  induction a with
  | nil => rfl
  | cons x xs ih =>
    cases x with
    | sdp _ => simpa [pktsOf] using ih
    | rtp p => by_cases h : p.hdr.packetType = pt <;> simp [pktsOf, h, ih]

theorem packLoop_pt (pt ts : Nat) : ∀ (ps : List Bytes) (seq : Nat), ∀ p ∈ packLoop pt ts 0 seq ps, p.hdr.packetType = pt % 256 := by
  intro ps
  induction ps with
  | nil => intro _ p hp; simp [packLoop] at hp
  | cons x rest ih =>
    intro seq p hp
    cases rest with
    | nil => simp only [packLoop, List.mem_singleton] at hp; rw [hp]; rfl
    | cons q r =>
      simp only [packLoop, List.mem_cons] at hp
      rcases hp with rfl | hp
      · rfl
      · exact ih _ p (by simpa [packLoop] using hp)

theorem pktsOf_all (pt : Nat) (ps : List RtpPacket) (h : ∀ p ∈ ps, p.hdr.packetType = pt) : pktsOf pt (ps.map RtspRmx.Out.rtp) = ps := by
  induction ps with
  | nil => rfl
  | cons p r ih =>
    have hp := h p (by simp)
    simp only [List.map_cons, pktsOf, hp, if_true, ih (fun q hq => h q (by simp [hq]))]

theorem pktsOf_none (pt : Nat) (ps : List RtpPacket) (h : ∀ p ∈ ps, p.hdr.packetType ≠ pt) : pktsOf pt (ps.map RtspRmx.Out.rtp) = [] := by
  induction ps with
  | nil => rfl
  | cons p r ih =>
    have hp := h p (by simp)
    simp only [List.map_cons, pktsOf, hp, if_false, ih (fun q hq => h q (by simp [hq]))]

/-- an audio message: the video side of the state is untouched, every packet carries the audio payload type -/
theorem remux_audio_untouched (s : RtspRmx.St) (m : Msg) (h8 : m.typ = 8) :
    (remux s m).1.videoPacker = s.videoPacker ∧ (remux s m).1.sps = s.sps ∧ (remux s m).1.videoPt = s.videoPt
    ∧ (remux s m).1.audioPt = s.audioPt
    ∧ ∃ ps : List RtpPacket, (remux s m).2 = ps.map RtspRmx.Out.rtp ∧ ∀ p ∈ ps, p.hdr.packetType = (s.audioPt % 256).toNat % 256 := by
  unfold remux
  rw [if_pos h8]
  have hg : (getAudioPacker s).1.videoPacker = s.videoPacker ∧ (getAudioPacker s).1.sps = s.sps ∧ (getAudioPacker s).1.videoPt = s.videoPt
      ∧ (getAudioPacker s).1.audioPt = s.audioPt := by
    unfold getAudioPacker
    split
    · exact ⟨rfl, rfl, rfl, rfl⟩
    · repeat' split
      all_goals exact ⟨rfl, rfl, rfl, rfl⟩
  cases hgp : getAudioPacker s with
  | mk s' opk =>
    rw [hgp] at hg
    cases opk with
    | none => exact ⟨hg.1, hg.2.1, hg.2.2.1, hg.2.2.2, [], rfl, fun _ hp => by simp at hp⟩
    | some pk =>
      simp only [packerEmit]
      refine ⟨hg.1, hg.2.1, hg.2.2.1, hg.2.2.2, _, rfl, ?_⟩
      intro p hp
      have hap : s'.audioPt = s.audioPt := hg.2.2.2
      rw [← hap]
      exact packLoop_pt _ _ _ _ p hp

theorem vready_of_eq (c : VCodec) {s t : RtspRmx.St} (h : VReady c s) (h1 : t.videoPacker = s.videoPacker) (h2 : t.sps = s.sps)
    (h3 : t.videoPt = s.videoPt) : VReady c t :=
  { sps := h2 ▸ h.sps, vpt := h3 ▸ h.vpt, pk := h1 ▸ h.pk }

/-! ### all messages of a publish -/

/-- the video frames of a publish as the RTP side sees them: clock-rate timestamp, payloads, units -/
def vframeP (c : VCodec) (a : Au) : FrameP :=
  { ts := rtpTimestamp a.ts 90000, payloads := vpayloads c a.nals, units := normRtp c a.nals }

/-- well-formedness for the RTP side: every unit other than an AUD can be carried -/
def RtpWF (c : VCodec) (elems : List Elem) : Prop := ∀ a ∈ videoAus elems, ∀ n ∈ normRtp c a.nals, RtpNalOK c n

theorem vptNat_lt (c : VCodec) : vptNat c < 128 := by cases c <;> decide

theorem vseq_lt (c : VCodec) (s : RtspRmx.St) (h : VReady c s) : vseq s < 65536 := by
  rcases h.pk with hp | ⟨seq, hlt, hp⟩
  · simp [vseq, hp]
  · simp [vseq, hp, hlt]

theorem vptNat_mod (c : VCodec) : vptNat c % 256 = vptNat c := by cases c <;> rfl

/-- packets of the video payload type = the `Pack` calls of the access units, one after the other -/
theorem remuxAll_video (c : VCodec) : ∀ (elems : List Elem) (s : RtspRmx.St), VReady c s → (s.audioPt % 256).toNat % 256 ≠ vptNat c →
    (∀ e ∈ elems, ElemWF c e) → RtpWF c elems → (∀ e ∈ elems, e.isVideoConfig = false) →
    (pktsOf (vptNat c) (remuxAll s (elems.map (render c))).2).map (fun p => RtpSpec.parse p.raw)
      = (RtspPackets.stream (vptNat c) (vseq s) ((videoAus elems).map (vframeP c))).map some := by
  intro elems
  induction elems with
  | nil => intro s _ _ _ _ _; rfl
  | cons e es ih =>
    intro s hr hapt hwf hrtp hnc
    have hwfe := hwf e (by simp)
    have hrest : ∀ e' ∈ es, ElemWF c e' := fun e' he' => hwf e' (by simp [he'])
    have hncr : ∀ e' ∈ es, e'.isVideoConfig = false := fun e' he' => hnc e' (by simp [he'])
    simp only [List.map_cons, remuxAll, pktsOf_append, List.map_append]
    -- an audio element
    have haudio : (render c e).typ = 8 → videoAus (e :: es) = videoAus es →
        (pktsOf (vptNat c) (remux s (render c e)).2).map (fun p => RtpSpec.parse p.raw)
          ++ (pktsOf (vptNat c) (remuxAll (remux s (render c e)).1 (es.map (render c))).2).map (fun p => RtpSpec.parse p.raw)
        = (RtspPackets.stream (vptNat c) (vseq s) ((videoAus (e :: es)).map (vframeP c))).map some := by
      intro h8 hv
      obtain ⟨a1, a2, a3, a4, ps, hps, hpt⟩ := remux_audio_untouched s (render c e) h8
      have hnone : pktsOf (vptNat c) (remux s (render c e)).2 = [] := by
        rw [hps]; exact pktsOf_none _ ps (fun p hp => by rw [hpt p hp]; exact hapt)
      have hr' := vready_of_eq c hr a1 a2 a3
      have hvs : vseq (remux s (render c e)).1 = vseq s := by simp [vseq, a1]
      rw [hnone, List.map_nil, List.nil_append, hv]
      have := ih (remux s (render c e)).1 hr' (by rw [a4]; exact hapt) hrest (fun a ha => hrtp a (by rw [hv]; exact ha)) hncr
      rw [hvs] at this
      exact this
    cases e with
    | avcConfig x y sps pps => have := hnc (.avcConfig x y sps pps) (by simp); simp [Elem.isVideoConfig] at this
    | hevcConfig g v sp pp => have := hnc (.hevcConfig g v sp pp) (by simp); simp [Elem.isVideoConfig] at this
    | aacConfig o sf ch => exact haudio rfl rfl
    | aacFrame ts f => exact haudio rfl rfl
    | opus ts p => exact haudio rfl rfl
    | video ts ct key nals =>
      have hok : ∀ n ∈ normRtp c nals, RtpNalOK c n := hrtp ⟨ts, ct, key, nals⟩ (by simp [videoAus])
      obtain ⟨h1, h2, h3, h4, h5, _, _⟩ := remux_video c s hr ts ct key nals hwfe hok
      have hall : pktsOf (vptNat c) (remux s (render c (.video ts ct key nals))).2
          = packLoop (vptNat c) (rtpTimestamp ts 90000) 0 (vseq s) (vpayloads c nals) := by
        rw [h1]
        exact pktsOf_all _ _ (fun p hp => by rw [packLoop_pt _ _ _ _ p hp, vptNat_mod])
      rw [hall, parse_packLoop (vptNat c) _ (vptNat_lt c) (rtpTimestamp_lt ts 90000) _ _ (vseq_lt c s hr)]
      have := ih (remux s (render c (.video ts ct key nals))).1 h2 (by rw [h5]; exact hapt) hrest
        (fun a ha => hrtp a (by simp [videoAus, ha])) hncr
      rw [this, h3]
      simp [videoAus, RtspPackets.stream, vframeP]

/-! ### what the receiver makes of the video packets -/

def parseAll : List RtpPacket → Option (List RtpSpec.Packet)
  | [] => some []
  | p :: ps =>
    match RtpSpec.parse p.raw, parseAll ps with
    | some q, some qs => some (q :: qs)
    | _, _ => none

theorem parseAll_of_map (ps : List RtpPacket) (qs : List RtpSpec.Packet)
    (h : ps.map (fun p => RtpSpec.parse p.raw) = qs.map some) : parseAll ps = some qs := by
  induction ps generalizing qs with
  | nil =>
    cases qs with
    | nil => rfl
    | cons q r => simp at h
  | cons p r ih =>
    cases qs with
    | nil => simp at h
    | cons q r' =>
      simp only [List.map_cons, List.cons.injEq] at h
      simp only [parseAll, h.1, ih r' h.2]

theorem stream_skip_empty (pt : Nat) : ∀ (fs : List FrameP) (seq : Nat), seq < 65536 →
    RtspPackets.stream pt seq fs = RtspPackets.stream pt seq (fs.filter fun f => !f.payloads.isEmpty) := by
  intro fs
  induction fs with
  | nil => intro _ _; rfl
  | cons f fs ih =>
    intro seq hs
    by_cases he : f.payloads.isEmpty = true
    · have hp : f.payloads = [] := by simpa using he
      simp only [RtspPackets.stream, List.filter_cons, he, Bool.not_true, Bool.false_eq_true, if_false, hp, specLoop, List.nil_append,
        List.length_nil, Nat.add_zero, Nat.mod_eq_of_lt hs]
      exact ih seq hs
    · simp only [RtspPackets.stream, List.filter_cons, he, Bool.not_false, if_true]
      rw [ih _ (by omega)]

theorem stream_seqChain (pt : Nat) : ∀ (fs : List FrameP) (seq : Nat), seq < 65536 →
    Demux.seqChain (RtspPackets.stream pt seq fs) = true
    ∧ ∀ y, (RtspPackets.stream pt seq fs).head? = some y → y.seq = seq := by
  intro fs
  induction fs with
  | nil => intro _ _; exact ⟨rfl, fun _ h => by simp [RtspPackets.stream] at h⟩
  | cons f fs ih =>
    intro seq hs
    obtain ⟨h1, h2⟩ := ih ((seq + f.payloads.length) % 65536) (by omega)
    have := seqChain_specLoop pt f.ts f.payloads seq (RtspPackets.stream pt ((seq + f.payloads.length) % 65536) fs) h2 h1 hs
    refine ⟨this.1, ?_⟩
    intro y hy
    by_cases hp : f.payloads = []
    · simp only [RtspPackets.stream, hp, specLoop, List.nil_append, List.length_nil, Nat.add_zero, Nat.mod_eq_of_lt hs] at hy
      exact (ih seq hs).2 y hy
    · exact this.2 y hy hp

/-- VIDEO OVER RTP. From a remuxer whose analysis found the video track, fed the access units (and audio) of a
    well-formed publish: the packets of the video payload type are all read by the RFC 3550 reader; their sequence
    numbers run on from the packer's; regrouped at the marker bit and depacketised per RFC 6184 / RFC 7798 they give, for
    every access unit that has a unit other than an AUD, one access unit with the same units (AUDs left out) and the
    time ⌊ts · 90000 / 1000⌋ mod 2^32. -/
theorem rtp_video (c : VCodec) (elems : List Elem) (s : RtspRmx.St) (hr : VReady c s) (hapt : (s.audioPt % 256).toNat % 256 ≠ vptNat c)
    (hwf : ∀ e ∈ elems, ElemWF c e) (hrtp : RtpWF c elems) (hnc : ∀ e ∈ elems, e.isVideoConfig = false) :
    ∃ pkts, parseAll (pktsOf (vptNat c) (remuxAll s (elems.map (render c))).2) = some pkts
      ∧ Demux.seqChain pkts = true
      ∧ Demux.rtpAus (rtpKindOf c) pkts
          = some ((((videoAus elems).filter fun a => !(normRtp c a.nals).isEmpty)).map fun a =>
              { ts := rtpTimestamp a.ts 90000, units := normRtp c a.nals }) := by
  have hmap := remuxAll_video c elems s hr hapt hwf hrtp hnc
  have hlt := vseq_lt c s hr
  refine ⟨_, parseAll_of_map _ _ hmap, (stream_seqChain _ _ _ hlt).1, ?_⟩
  rw [stream_skip_empty _ _ _ hlt]
  unfold Demux.rtpAus
  have hfil : ((videoAus elems).map (vframeP c)).filter (fun f => !f.payloads.isEmpty)
      = ((videoAus elems).filter fun a => !(normRtp c a.nals).isEmpty).map (vframeP c) := by
    rw [List.filter_map]
    congr 1
    apply List.filter_congr
    intro a _
    simp only [Function.comp, vframeP, vpayloads]
    cases hn : normRtp c a.nals with
    | nil => rfl
    | cons n ns =>
      simp only [List.flatMap_cons, List.isEmpty_cons, Bool.not_false]
      have := nalPayloads_ne_nil (hevcOf c) n Gen.rtpMaxPayloadSize
      cases hq : nalPayloads (hevcOf c) n Gen.rtpMaxPayloadSize with
      | nil => exact absurd hq this
      | cons x xs => rfl
  rw [hfil]
  have := rtpAus_stream (rtpKindOf c) (vptNat c)
    (((videoAus elems).filter fun a => !(normRtp c a.nals).isEmpty).map (vframeP c)) (vseq s) ?_ _ (Nat.le_refl _)
  · rw [this]; simp [vframeP, List.map_map, Function.comp]
  · intro f hf
    obtain ⟨a, ha, rfl⟩ := List.mem_map.mp hf
    obtain ⟨ha1, ha2⟩ := List.mem_filter.mp ha
    refine ⟨?_, depack_nals c _ (hrtp a ha1)⟩
    show vpayloads c a.nals ≠ []
    unfold vpayloads
    cases hn : normRtp c a.nals with
    | nil => rw [hn] at ha2; simp at ha2
    | cons n ns =>
      simp only [List.flatMap_cons]
      intro e
      have := nalPayloads_ne_nil (hevcOf c) n Gen.rtpMaxPayloadSize
      exact this (List.append_eq_nil_iff.mp e).1

/-! ### AAC over RTP -/

/-- the audio side of a remuxer whose analysis found an AAC track with sampling frequency `f` -/
structure AReady (f : Nat) (s : RtspRmx.St) : Prop where
  apt : s.audioPt = Sdp.ptAac
  asc : ∃ a ctx, s.asc = some a ∧ Aac.ascUnpack a = .ok ctx ∧ Aac.samplingFrequency ctx = some f
  pk : s.audioPacker = none ∨ ∃ seq, seq < 65536 ∧ s.audioPacker = some { kind := .aac, rate := f, seq := seq }

def aseq (s : RtspRmx.St) : Nat := match s.audioPacker with | some p => p.seq | none => 0

theorem remux_aac (c : VCodec) (f : Nat) (s : RtspRmx.St) (hr : AReady f s) (ts : Nat) (fr : Bytes) (hwf : ElemWF c (.aacFrame ts fr)) :
    (remux s (render c (.aacFrame ts fr))).2 = (packLoop 97 (rtpTimestamp ts f) 0 (aseq s) (aacPack fr Gen.rtpMaxPayloadSize)).map RtspRmx.Out.rtp
    ∧ AReady f (remux s (render c (.aacFrame ts fr))).1
    ∧ aseq (remux s (render c (.aacFrame ts fr))).1 = (aseq s + 1) % 65536
    ∧ (remux s (render c (.aacFrame ts fr))).1.videoPacker = s.videoPacker
    ∧ (remux s (render c (.aacFrame ts fr))).1.sps = s.sps
    ∧ (remux s (render c (.aacFrame ts fr))).1.videoPt = s.videoPt := by
  obtain ⟨hne, _, _⟩ := hwf
  obtain ⟨a, ctx, ha, hu, hf⟩ := hr.asc
  have hp : (render c (.aacFrame ts fr)).payload = 0xaf :: 1 :: fr := rfl
  have htyp : (render c (.aacFrame ts fr)).typ = 8 := rfl
  have hts : (render c (.aacFrame ts fr)).ts = ts := rfl
  have hid : audioCodecId (0xaf :: 1 :: fr) = 10 := by simp [audioCodecId, pb_cons_zero]
  have hgp : ∃ pk, getAudioPacker s = ({ s with audioPacker := some pk }, some pk) ∧ pk.kind = .aac ∧ pk.rate = f
      ∧ pk.seq = aseq s ∧ pk.seq < 65536 := by
    unfold getAudioPacker
    rcases hr.pk with h | ⟨seq, hlt, h⟩
    · rw [h]
      simp only [hr.apt, ha, hu, hf, Option.getD_some]
      refine ⟨{ kind := .aac, rate := f }, ?_, rfl, rfl, by simp [aseq, h], by show (0 : Nat) < 65536; omega⟩
      simp [Sdp.ptAac, Sdp.ptG711A, Sdp.ptG711U, Sdp.ptOpus]
    · rw [h]
      refine ⟨{ kind := .aac, rate := f, seq := seq }, ?_, rfl, rfl, by simp [aseq, h], hlt⟩
      cases s; simp_all
  obtain ⟨pk, hgpe, hk, hrate, hseq, hlt⟩ := hgp
  have hpl : aacPack fr Gen.rtpMaxPayloadSize = [[0, 16, b8 (fr.length / 32), b8 (fr.length % 32 * 8)] ++ fr] := by
    unfold aacPack
    have : ¬ (fr = [] ∨ Gen.rtpMaxPayloadSize = 0) := by
      intro h; rcases h with h | h
      · exact hne h
      · revert h; decide
    rw [if_neg this]
  have hpt : ((s.audioPt % 256).toNat) = 97 := by rw [hr.apt]; rfl
  unfold remux
  simp only [htyp, hts, hp, if_true, hgpe, hid]
  have hg : (g711 10 || (10 : Nat) == Gen.rtmpSoundFormatOpus) = false := by decide
  simp only [hg, Bool.false_eq_true, if_false, List.drop_succ_cons, List.drop_zero, hk, packerEmit, hrate, hpt, hseq, hpl,
    List.length_singleton]
  refine ⟨trivial, ?_, by simp [aseq], trivial, trivial, trivial⟩
  exact { apt := hr.apt, asc := ⟨a, ctx, ha, hu, hf⟩,
          pk := Or.inr ⟨(aseq s + 1) % 65536, by omega, by
            show some _ = some _
            congr 1⟩ }

/-- a video message leaves the audio side alone, its packets carry the video payload type -/
theorem remux_video_untouched (s : RtspRmx.St) (m : Msg) (h9 : m.typ = 9) :
    (remux s m).1.audioPacker = s.audioPacker ∧ (remux s m).1.asc = s.asc ∧ (remux s m).1.audioPt = s.audioPt
    ∧ (remux s m).1.videoPt = s.videoPt
    ∧ ∃ ps : List RtpPacket, (remux s m).2 = ps.map RtspRmx.Out.rtp ∧ ∀ p ∈ ps, p.hdr.packetType = (s.videoPt % 256).toNat % 256 := by
  unfold remux
  have h8 : ¬ m.typ = 8 := by omega
  rw [if_neg h8, if_pos h9]
  have hg : (getVideoPacker s).1.audioPacker = s.audioPacker ∧ (getVideoPacker s).1.asc = s.asc ∧ (getVideoPacker s).1.audioPt = s.audioPt
      ∧ (getVideoPacker s).1.videoPt = s.videoPt := by
    unfold getVideoPacker
    split
    · exact ⟨rfl, rfl, rfl, rfl⟩
    · split <;> exact ⟨rfl, rfl, rfl, rfl⟩
  cases hgp : getVideoPacker s with
  | mk s' opk =>
    rw [hgp] at hg
    cases opk with
    | none => exact ⟨hg.1, hg.2.1, hg.2.2.1, hg.2.2.2, [], rfl, fun _ hp => by simp at hp⟩
    | some pk =>
      simp only [packerEmit]
      refine ⟨hg.1, hg.2.1, hg.2.2.1, hg.2.2.2, _, rfl, ?_⟩
      intro p hp
      have hvp : s'.videoPt = s.videoPt := hg.2.2.2
      rw [← hvp]
      exact packLoop_pt _ _ _ _ p hp

def aframeP (f : Nat) (ts : Nat) (fr : Bytes) : FrameP :=
  { ts := rtpTimestamp ts f, payloads := aacPack fr Gen.rtpMaxPayloadSize, units := [fr] }

/-- the AAC frames of a publish without their configurations -/
def aacOnly : List Elem → List (Nat × Bytes)
  | [] => []
  | .aacFrame ts fr :: es => (ts, fr) :: aacOnly es
  | _ :: es => aacOnly es

theorem aready_of_eq (f : Nat) {s t : RtspRmx.St} (h : AReady f s) (h1 : t.audioPacker = s.audioPacker) (h2 : t.asc = s.asc)
    (h3 : t.audioPt = s.audioPt) : AReady f t :=
  { apt := h3 ▸ h.apt, asc := h2 ▸ h.asc, pk := h1 ▸ h.pk }

theorem aseq_lt (f : Nat) (s : RtspRmx.St) (h : AReady f s) : aseq s < 65536 := by
  rcases h.pk with hp | ⟨seq, hlt, hp⟩
  · simp [aseq, hp]
  · simp [aseq, hp, hlt]

theorem remuxAll_aac (c : VCodec) (f : Nat) : ∀ (elems : List Elem) (s : RtspRmx.St), AReady f s → (s.videoPt % 256).toNat % 256 ≠ 97 →
    (∀ e ∈ elems, ElemWF c e) → (∀ e ∈ elems, match e with | .aacConfig .. => False | .opus .. => False | _ => True) →
    (pktsOf 97 (remuxAll s (elems.map (render c))).2).map (fun p => RtpSpec.parse p.raw)
      = (RtspPackets.stream 97 (aseq s) ((aacOnly elems).map fun x => aframeP f x.1 x.2)).map some := by
  intro elems
  induction elems with
  | nil => intro s _ _ _ _; rfl
  | cons e es ih =>
    intro s hr hvpt hwf hno
    have hwfe := hwf e (by simp)
    have hrest : ∀ e' ∈ es, ElemWF c e' := fun e' he' => hwf e' (by simp [he'])
    have hnor : ∀ e' ∈ es, match e' with | .aacConfig .. => False | .opus .. => False | _ => True := fun e' he' => hno e' (by simp [he'])
    simp only [List.map_cons, remuxAll, pktsOf_append, List.map_append]
    have hvideo : (render c e).typ = 9 → aacOnly (e :: es) = aacOnly es →
        (pktsOf 97 (remux s (render c e)).2).map (fun p => RtpSpec.parse p.raw)
          ++ (pktsOf 97 (remuxAll (remux s (render c e)).1 (es.map (render c))).2).map (fun p => RtpSpec.parse p.raw)
        = (RtspPackets.stream 97 (aseq s) ((aacOnly (e :: es)).map fun x => aframeP f x.1 x.2)).map some := by
      intro h9 hv
      obtain ⟨a1, a2, a3, a4, ps, hps, hpt⟩ := remux_video_untouched s (render c e) h9
      have hnone : pktsOf 97 (remux s (render c e)).2 = [] := by
        rw [hps]; exact pktsOf_none _ ps (fun p hp => by rw [hpt p hp]; exact hvpt)
      have hr' := aready_of_eq f hr a1 a2 a3
      have hvs : aseq (remux s (render c e)).1 = aseq s := by simp [aseq, a1]
      rw [hnone, List.map_nil, List.nil_append, hv]
      have := ih (remux s (render c e)).1 hr' (by rw [a4]; exact hvpt) hrest hnor
      rw [hvs] at this
      exact this
    cases e with
    | avcConfig x y sps pps => exact hvideo rfl rfl
    | hevcConfig g v sp pp => exact hvideo rfl rfl
    | video ts ct key nals => exact hvideo rfl rfl
    | aacConfig o sf ch => exact absurd (hno (.aacConfig o sf ch) (by simp)) (by simp)
    | opus ts p => exact absurd (hno (.opus ts p) (by simp)) (by simp)
    | aacFrame ts fr =>
      obtain ⟨h1, h2, h3, h4, h5, h6⟩ := remux_aac c f s hr ts fr hwfe
      have hall : pktsOf 97 (remux s (render c (.aacFrame ts fr))).2
          = packLoop 97 (rtpTimestamp ts f) 0 (aseq s) (aacPack fr Gen.rtpMaxPayloadSize) := by
        rw [h1]
        exact pktsOf_all _ _ (fun p hp => by rw [packLoop_pt _ _ _ _ p hp])
      rw [hall, parse_packLoop 97 _ (by decide) (rtpTimestamp_lt ts f) _ _ (aseq_lt f s hr)]
      have := ih (remux s (render c (.aacFrame ts fr))).1 h2 (by rw [h6]; exact hvpt) hrest hnor
      rw [this, h3]
      have hl : (aacPack fr Gen.rtpMaxPayloadSize).length = 1 := by
        unfold aacPack
        have : ¬ (fr = [] ∨ Gen.rtpMaxPayloadSize = 0) := by
          intro h; rcases h with h | h
          · exact hwfe.1 h
          · revert h; decide
        rw [if_neg this]; rfl
      simp [aacOnly, RtspPackets.stream, aframeP, hl]

/-- AAC OVER RTP: one access unit per published frame, byte for byte, with the time ⌊ts · f / 1000⌋ mod 2^32 at the
    sampling frequency `f` of the AudioSpecificConfig. -/
theorem rtp_aac (c : VCodec) (f : Nat) (elems : List Elem) (s : RtspRmx.St) (hr : AReady f s) (hvpt : (s.videoPt % 256).toNat % 256 ≠ 97)
    (hwf : ∀ e ∈ elems, ElemWF c e) (hno : ∀ e ∈ elems, match e with | .aacConfig .. => False | .opus .. => False | _ => True) :
    ∃ pkts, parseAll (pktsOf 97 (remuxAll s (elems.map (render c))).2) = some pkts
      ∧ Demux.seqChain pkts = true
      ∧ Demux.rtpAus .aac pkts = some ((aacOnly elems).map fun x => { ts := rtpTimestamp x.1 f, units := [x.2] }) := by
  have hmap := remuxAll_aac c f elems s hr hvpt hwf hno
  have hlt := aseq_lt f s hr
  refine ⟨_, parseAll_of_map _ _ hmap, (stream_seqChain _ _ _ hlt).1, ?_⟩
  unfold Demux.rtpAus
  have hfr : ∀ x ∈ aacOnly elems, x.2 ≠ [] ∧ x.2.length < 8192 := by
    intro x hx
    induction elems with
    | nil => simp [aacOnly] at hx
    | cons e es ih =>
      have hwfe := hwf e (by simp)
      cases e with
      | aacFrame ts fr =>
        simp only [aacOnly, List.mem_cons] at hx
        rcases hx with rfl | hx
        · exact ⟨hwfe.1, by have := hwfe.2.1; show fr.length < 8192; omega⟩
        · exact ih (fun e' he' => hwf e' (by simp [he'])) (fun e' he' => hno e' (by simp [he'])) (by
            exact remuxAll_aac c f es s hr hvpt (fun e' he' => hwf e' (by simp [he'])) (fun e' he' => hno e' (by simp [he']))) hx
      | avcConfig _ _ _ _ => exact ih (fun e' he' => hwf e' (by simp [he'])) (fun e' he' => hno e' (by simp [he'])) (remuxAll_aac c f es s hr hvpt (fun e' he' => hwf e' (by simp [he'])) (fun e' he' => hno e' (by simp [he']))) (by simpa [aacOnly] using hx)
      | hevcConfig _ _ _ _ => exact ih (fun e' he' => hwf e' (by simp [he'])) (fun e' he' => hno e' (by simp [he'])) (remuxAll_aac c f es s hr hvpt (fun e' he' => hwf e' (by simp [he'])) (fun e' he' => hno e' (by simp [he']))) (by simpa [aacOnly] using hx)
      | video _ _ _ _ => exact ih (fun e' he' => hwf e' (by simp [he'])) (fun e' he' => hno e' (by simp [he'])) (remuxAll_aac c f es s hr hvpt (fun e' he' => hwf e' (by simp [he'])) (fun e' he' => hno e' (by simp [he']))) (by simpa [aacOnly] using hx)
      | aacConfig o sf ch => exact absurd (hno (.aacConfig o sf ch) (by simp)) (by simp)
      | opus ts p => exact absurd (hno (.opus ts p) (by simp)) (by simp)
  have := rtpAus_stream .aac 97 ((aacOnly elems).map fun x => aframeP f x.1 x.2) (aseq s) ?_ _ (Nat.le_refl _)
  · rw [this]; simp [aframeP, List.map_map, Function.comp]
  · intro fp hfp
    obtain ⟨x, hx, rfl⟩ := List.mem_map.mp hfp
    obtain ⟨hne, hl⟩ := hfr x hx
    have hpl : aacPack x.2 Gen.rtpMaxPayloadSize = [[0, 16, b8 (x.2.length / 32), b8 (x.2.length % 32 * 8)] ++ x.2] := by
      unfold aacPack
      have : ¬ (x.2 = [] ∨ Gen.rtpMaxPayloadSize = 0) := by
        intro h; rcases h with h | h
        · exact hne h
        · revert h; decide
      rw [if_neg this]
    refine ⟨by simp [aframeP, hpl], ?_⟩
    show RtpSpec.depack3640 (aacPack x.2 Gen.rtpMaxPayloadSize) = some [x.2]
    have := RtpSpec.run3640_frames Gen.rtpMaxPayloadSize (by decide) [x.2]
      (fun g hg => by simp only [List.mem_singleton] at hg; rw [hg]; exact ⟨List.length_pos_iff.mpr hne, hl⟩)
    simpa [RtpSpec.depack3640] using this

end Lal.RtspContent
