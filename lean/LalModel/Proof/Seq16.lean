import LalModel.Model.Seq16
/- Facts about `CompareSeq` / `SubSeq` (all by case split + `omega`). -/
namespace Lal.Seq16

/-- the wrapped signed difference of two sequence numbers, in [-32768, 32767] -/
def wrapDiff (a b : Nat) : Int := ((a : Int) - b + 32768) % 65536 - 32768

theorem compareSeq_eq_sign (a b : Nat) (ha : a < 65536) (hb : b < 65536) (hhalf : wrapDiff a b ≠ -32768) :
    compareSeq a b = Int.sign (wrapDiff a b) := by
  unfold compareSeq wrapDiff at *
  by_cases h : a = b
  · subst h; simp
  · rw [if_neg h]
    by_cases hgt : a > b
    · rw [if_pos hgt]
      by_cases hd : a - b < 32768
      · rw [if_pos hd]
        have : ((a : Int) - b + 32768) % 65536 - 32768 > 0 := by omega
        exact (Int.sign_eq_one_of_pos this).symm
      · rw [if_neg hd]
        have : ((a : Int) - b + 32768) % 65536 - 32768 < 0 := by omega
        exact (Int.sign_eq_neg_one_of_neg this).symm
    · rw [if_neg hgt]
      by_cases hd : b - a < 32768
      · rw [if_pos hd]
        have : ((a : Int) - b + 32768) % 65536 - 32768 < 0 := by omega
        exact (Int.sign_eq_neg_one_of_neg this).symm
      · rw [if_neg hd]
        have : ((a : Int) - b + 32768) % 65536 - 32768 > 0 := by omega
        exact (Int.sign_eq_one_of_pos this).symm

theorem compareSeq_half (a b : Nat) (_ha : a < 65536) (hb : b < 65536) (hhalf : wrapDiff a b = -32768) :
    compareSeq a b = if a > b then -1 else 1 := by
  unfold compareSeq wrapDiff at *
  by_cases h : a = b
  · subst h; omega
  · rw [if_neg h]
    by_cases hgt : a > b
    · rw [if_pos hgt, if_pos hgt, if_neg (by omega)]
    · rw [if_neg hgt, if_neg hgt, if_neg (by omega)]

theorem compareSeq_antisymm (a b : Nat) : compareSeq a b = - compareSeq b a := by
  unfold compareSeq
  by_cases h : a = b
  · subst h; simp
  · have h' : ¬ b = a := fun e => h e.symm
    rw [if_neg h, if_neg h']
    by_cases hgt : a > b
    · have : ¬ b > a := by omega
      rw [if_pos hgt, if_neg this]
      by_cases hd : a - b < 32768
      · rw [if_pos hd, if_pos hd]; try rfl
      · rw [if_neg hd, if_neg hd]; try rfl
    · have : b > a := by omega
      rw [if_neg hgt, if_pos this]
      by_cases hd : b - a < 32768
      · rw [if_pos hd, if_pos hd]; try rfl
      · rw [if_neg hd, if_neg hd]; try rfl

/-- sequence number of the `i`-th packet of a stream that starts at `s0` -/
def sq (s0 i : Nat) : Nat := (s0 + i) % 65536

theorem sq_lt (s0 i : Nat) : sq s0 i < 65536 := by unfold sq; omega

/-- inside a half window `CompareSeq` orders sequence numbers like the packet indices, across the wrap -/
theorem compareSeq_sq (s0 i j : Nat) (h : i < j + 32768 ∧ j < i + 32768) :
    compareSeq (sq s0 i) (sq s0 j) = if i = j then 0 else if i < j then -1 else 1 := by
  unfold compareSeq sq
  by_cases e : i = j
  · subst e; simp
  · rw [if_neg e]
    have hne : ¬ (s0 + i) % 65536 = (s0 + j) % 65536 := by omega
    rw [if_neg hne]
    by_cases hlt : i < j
    · rw [if_pos hlt]
      by_cases hgt : (s0 + i) % 65536 > (s0 + j) % 65536
      · rw [if_pos hgt, if_neg (by omega)]
      · rw [if_neg hgt, if_pos (by omega)]
    · rw [if_neg hlt]
      by_cases hgt : (s0 + i) % 65536 > (s0 + j) % 65536
      · rw [if_pos hgt, if_pos (by omega)]
      · rw [if_neg hgt, if_neg (by omega)]

/-- `SubSeq(a, b) == 1` is exactly "a is the successor of b modulo 2^16" -/
theorem subSeq_eq_one (a b : Nat) (ha : a < 65536) (hb : b < 65536) :
    subSeq a b = 1 ↔ a = (b + 1) % 65536 := by
  unfold subSeq
  by_cases h : a = b
  · subst h; rw [if_pos rfl]; omega
  · rw [if_neg h]
    by_cases hgt : a > b
    · rw [if_pos hgt]
      by_cases hd : a - b < 16384
      · rw [if_pos hd]; omega
      · rw [if_neg hd]; omega
    · rw [if_neg hgt]
      by_cases hd : b - a < 16384
      · rw [if_pos hd]; omega
      · rw [if_neg hd]; omega

theorem subSeq_sq (s0 i j : Nat) (h : i < j + 65536 ∧ j < i + 65535) :
    subSeq (sq s0 i) (sq s0 j) = 1 ↔ i = j + 1 := by
  rw [subSeq_eq_one _ _ (sq_lt _ _) (sq_lt _ _)]
  unfold sq; omega

end Lal.Seq16
