import LalModel.Proof.GroupFlv
/- Invariant of the FLV recording of the group model. -/
set_option linter.unusedSimpArgs false
set_option linter.unusedVariables false
namespace Lal.Group

/-- the bytes of the tags of a message list, as written to a recording -/
def rawTags (l : List InMsg) : Bytes := (l.map tagWithoutSdf).flatten

theorem rawTags_append (a b : List InMsg) : rawTags (a ++ b) = rawTags a ++ rawTags b := by simp [rawTags]

structure RInv (s : St) : Prop where
  closed : ∀ i, i < s.nextRecord → s.recording ≠ some i →
    ∃ a b, a ≤ b ∧ b ≤ s.pubLog.length ∧ s.bytes .record i = Gen.flvHeader ++ rawTags (slice s.pubLog a b)
  open_ : ∀ r, s.recording = some r →
    r < s.nextRecord ∧ ∃ a, a ≤ s.pubLog.length ∧
      s.bytes .record r = Gen.flvHeader ++ rawTags (slice s.pubLog a s.pubLog.length)
  future : ∀ i, i ≥ s.nextRecord → s.bytes .record i = []
  needsIn : s.recording.isSome = true → s.hasIn = true

/-- a step that does not touch the recordings or the log -/
theorem rinv_transfer (s s' : St) (h : RInv s) (hp : s'.pubLog = s.pubLog) (hr : s'.recording = s.recording)
    (hn : s'.nextRecord = s.nextRecord) (hi : s'.hasIn = s.hasIn) (hb : ∀ i, s'.bytes .record i = s.bytes .record i) :
    RInv s' := by
  refine ⟨?_, ?_, ?_, by rw [hr, hi]; exact h.needsIn⟩
  · intro i hi' hne; rw [hn] at hi'; rw [hr] at hne
    obtain ⟨a, b, h1, h2, h3⟩ := h.closed i hi' hne
    exact ⟨a, b, h1, by rw [hp]; exact h2, by rw [hb, hp]; exact h3⟩
  · intro r hr'; rw [hr] at hr'
    obtain ⟨h1, a, h2, h3⟩ := h.open_ r hr'
    exact ⟨by rw [hn]; exact h1, a, by rw [hp]; exact h2, by rw [hb, hp]; exact h3⟩
  · intro i hi'; rw [hn] at hi'; rw [hb]; exact h.future i hi'

theorem writeFlvAll_rec (sub : Sub) : ∀ (bs : List Bytes) (s : St),
    (s.writeFlvAll sub bs).recording = s.recording ∧ (s.writeFlvAll sub bs).nextRecord = s.nextRecord := by
  intro bs
  induction bs with
  | nil => intro s; exact ⟨rfl, rfl⟩
  | cons c cs ih => intro s; simp only [St.writeFlvAll, List.foldl_cons]; exact ih (s.writeFlv sub c)

theorem flvLoop_record (key isHdr : Bool) (tag : Bytes) (s : St) :
    (∀ i, (flvLoop key isHdr tag s).bytes .record i = s.bytes .record i) ∧
    (flvLoop key isHdr tag s).recording = s.recording ∧ (flvLoop key isHdr tag s).nextRecord = s.nextRecord := by
  unfold flvLoop
  generalize s.flvSubs.map (·.id) = ids
  induction ids generalizing s with
  | nil => exact ⟨fun _ => rfl, rfl, rfl⟩
  | cons i is ih =>
    simp only [List.foldl_cons]
    obtain ⟨a, b, c⟩ := ih (flvOne key isHdr tag s i)
    have h1 : (∀ j, (flvOne key isHdr tag s i).bytes .record j = s.bytes .record j) ∧
        (flvOne key isHdr tag s i).recording = s.recording ∧ (flvOne key isHdr tag s i).nextRecord = s.nextRecord := by
      unfold flvOne
      cases s.getFlv i with
      | none => exact ⟨fun _ => rfl, rfl, rfl⟩
      | some x =>
        refine ⟨?_, ?_, ?_⟩
        · intro j
          show (s.writeFlvAll x _).bytes .record j = _
          rw [bytes_writeFlvAll]
          have : ¬ (Kind.record = fkind x ∧ j = x.id) := by
            intro ⟨h, _⟩; simp only [fkind] at h; split at h <;> cases h
          simp [this]
        · exact (writeFlvAll_rec x _ s).1
        · exact (writeFlvAll_rec x _ s).2
    exact ⟨fun j => (a j).trans (h1.1 j), b.trans h1.2.1, c.trans h1.2.2⟩

theorem rbroadcast_inv (s : St) (m : InMsg) (h : RInv s) (hI : Inv s) : RInv (broadcast s m) := by
  unfold broadcast
  split
  · exact h
  · simp only
    obtain ⟨h0, f0⟩ := rtmpLoop_inv (Classify.isVideoKeyNalu m.typ m.payload)
      (if isHeaderMsg m then some (chunksWithoutSdf m) else none) s hI
    obtain ⟨fp, _, _, _, _, _, fh, _, frec, fnr, _, fb⟩ := forward_frame (rtmpLoop (Classify.isVideoKeyNalu m.typ m.payload)
      (if isHeaderMsg m then some (chunksWithoutSdf m) else none) s) m h0
    obtain ⟨lb, lr, ln⟩ := flvLoop_record (Classify.isVideoKeyNalu m.typ m.payload) (isHeaderMsg m) (tagWithoutSdf m)
      (forward (rtmpLoop (Classify.isVideoKeyNalu m.typ m.payload) (if isHeaderMsg m then some (chunksWithoutSdf m) else none) s) m)
    have lp := (frame2_flvLoop (Classify.isVideoKeyNalu m.typ m.payload) (isHeaderMsg m) (tagWithoutSdf m)
      (forward (rtmpLoop (Classify.isVideoKeyNalu m.typ m.payload) (if isHeaderMsg m then some (chunksWithoutSdf m) else none) s) m)).pubLog
    have lh := flvLoop_hasIn (Classify.isVideoKeyNalu m.typ m.payload) (isHeaderMsg m) (tagWithoutSdf m)
      (forward (rtmpLoop (Classify.isVideoKeyNalu m.typ m.payload) (if isHeaderMsg m then some (chunksWithoutSdf m) else none) s) m)
    generalize flvLoop (Classify.isVideoKeyNalu m.typ m.payload) (isHeaderMsg m) (tagWithoutSdf m)
      (forward (rtmpLoop (Classify.isVideoKeyNalu m.typ m.payload) (if isHeaderMsg m then some (chunksWithoutSdf m) else none) s) m) = s3
      at lb lr ln lp lh ⊢
    -- facts about s3 relative to s
    have hp3 : s3.pubLog = s.pubLog ++ [m] := by rw [lp, fp, f0.pubLog]
    have hr3 : s3.recording = s.recording := by rw [lr, frec, f0.recording]
    have hn3 : s3.nextRecord = s.nextRecord := by rw [ln, fnr, f0.nextRecord]
    have hh3 : s3.hasIn = s.hasIn := by rw [lh, fh, f0.hasIn]
    have hb3 : ∀ i, s3.bytes .record i = s.bytes .record i := by
      intro i; rw [lb, fb _ _ (by simp), f0.other _ _ (by simp)]
    -- the recording stage
    have h4 : RInv (recordStage s3 m) := by
      unfold recordStage
      cases hrec : s3.recording with
      | none =>
        simp only
        refine ⟨?_, ?_, ?_, by rw [hrec]; intro hh; cases hh⟩
        · intro i hi' _
          rw [hn3] at hi'
          have hne : s.recording ≠ some i := by rw [← hr3, hrec]; intro hh; cases hh
          obtain ⟨a, b, h1, h2, h3⟩ := h.closed i hi' hne
          exact ⟨a, b, h1, by rw [hp3]; simp; omega, by rw [hb3, hp3, slice_append_left _ _ _ _ h2]; exact h3⟩
        · intro r hr'; rw [hrec] at hr'; cases hr'
        · intro i hi'; rw [hn3] at hi'; rw [hb3]; exact h.future i hi'
      | some r =>
        simp only
        have hrs : s.recording = some r := by rw [← hr3, hrec]
        obtain ⟨hlt, a, ha, hbytes⟩ := h.open_ r hrs
        refine ⟨?_, ?_, ?_, ?_⟩
        · intro i hi' hne
          have hi'' : i < s.nextRecord := by rw [← hn3]; exact hi'
          have hne' : s.recording ≠ some i := by
            rw [hrs]; intro e; apply hne
            show s3.recording = some i
            rw [hrec]; exact e
          obtain ⟨a', b, h1, h2, h3⟩ := h.closed i hi'' hne'
          refine ⟨a', b, h1, ?_, ?_⟩
          · show b ≤ s3.pubLog.length; rw [hp3]; simp; omega
          · show (s3.write .record r (tagWithoutSdf m)).bytes .record i = _
            rw [bytes_write]
            have hir : i ≠ r := by intro e; apply hne'; rw [hrs, e]
            simp only [hir, and_false, if_false, List.append_nil]
            show s3.bytes .record i = Gen.flvHeader ++ rawTags (slice s3.pubLog a' b)
            rw [hb3, hp3, slice_append_left _ _ _ _ h2]; exact h3
        · intro r' hr'
          have hr'' : s3.recording = some r' := hr'
          rw [hrec] at hr''
          have e : r = r' := by simpa using hr''
          subst e
          refine ⟨by show r < s3.nextRecord; rw [hn3]; exact hlt, a, ?_, ?_⟩
          · show a ≤ s3.pubLog.length; rw [hp3]; simp; omega
          · show (s3.write .record r (tagWithoutSdf m)).bytes .record r = Gen.flvHeader ++ rawTags (slice s3.pubLog a s3.pubLog.length)
            rw [bytes_write]
            simp only [and_self, if_true]
            rw [hb3, hbytes, hp3]
            have : (s.pubLog ++ [m]).length = s.pubLog.length + 1 := by simp
            rw [this, slice_snoc _ _ _ ha, rawTags_append, List.append_assoc]
            simp [rawTags]
        · intro i hi'
          have hi'' : i ≥ s.nextRecord := by rw [← hn3]; exact hi'
          show (s3.write .record r (tagWithoutSdf m)).bytes .record i = []
          rw [bytes_write]
          have hir : i ≠ r := by omega
          simp only [hir, and_false, if_false, List.append_nil]
          rw [hb3]; exact h.future i hi''
        · intro _
          show s3.hasIn = true
          rw [hh3]; exact h.needsIn (by rw [hrs]; rfl)
    have tr : ∀ (t : St), RInv t → ∀ (u : St),
        (u = rtmpCacheStage t m ∨ u = flvCacheStage t m ∨ u = statStage t m) → RInv u := by
      intro t ht u hu
      rcases hu with rfl | rfl | rfl
      · unfold rtmpCacheStage; split
        · exact rinv_transfer t _ ht rfl rfl rfl rfl (fun _ => rfl)
        · exact ht
      · unfold flvCacheStage; split
        · exact rinv_transfer t _ ht rfl rfl rfl rfl (fun _ => rfl)
        · exact ht
      · unfold statStage; split
        · exact rinv_transfer t _ ht rfl rfl rfl rfl (fun _ => rfl)
        · exact ht
    exact tr _ (tr _ (tr _ h4 _ (Or.inl rfl)) _ (Or.inr (Or.inl rfl))) _ (Or.inr (Or.inr rfl))

theorem rstep_inv (s : St) (e : Ev) (h : RInv s) (hI : Inv s) : RInv (step s e) := by
  cases e with
  | addPub =>
    simp only [step]
    by_cases hin : s.hasIn = true
    · simp only [hin, if_true]; exact h
    · simp only [hin, if_false, Bool.false_eq_true]
      have hnone : s.recording = none := by
        cases hr : s.recording with
        | none => rfl
        | some r => exact absurd (h.needsIn (by rw [hr]; rfl)) hin
      by_cases hrec : s.cfg.recordFlv = true
      · simp only [hrec, if_true]
        refine ⟨?_, ?_, ?_, fun _ => rfl⟩
        · intro i hi' hne
          have hi'' : i < s.nextRecord + 1 := hi'
          have hne' : some s.nextRecord ≠ some i := hne
          have hlt : i < s.nextRecord := by
            have : i ≠ s.nextRecord := fun e => hne' (by rw [e])
            omega
          obtain ⟨a, b, h1, h2, h3⟩ := h.closed i hlt (by rw [hnone]; intro hh; cases hh)
          refine ⟨a, b, h1, h2, ?_⟩
          rw [bytes_write]
          have : i ≠ s.nextRecord := by omega
          simp only [this, and_false, if_false, List.append_nil]
          exact h3
        · intro r hr
          have hr' : some s.nextRecord = some r := hr
          have e : s.nextRecord = r := by simpa using hr'
          subst e
          refine ⟨Nat.lt_succ_self _, s.pubLog.length, Nat.le_refl _, ?_⟩
          have hfut : s.bytes .record s.nextRecord = [] := h.future _ (Nat.le_refl _)
          rw [bytes_write]
          simp only [and_self, if_true]
          show s.bytes .record s.nextRecord ++ Gen.flvHeader =
            Gen.flvHeader ++ rawTags (slice s.pubLog s.pubLog.length s.pubLog.length)
          rw [hfut, slice_self]; simp [rawTags]
        · intro i hi'
          have hi'' : i ≥ s.nextRecord + 1 := hi'
          rw [bytes_write]
          have : i ≠ s.nextRecord := by omega
          simp only [this, and_false, if_false, List.append_nil]
          exact h.future i (by omega)
      · simp only [hrec, if_false, Bool.false_eq_true]
        refine ⟨?_, ?_, h.future, fun hh => ?_⟩
        · intro i hi' hne; exact h.closed i hi' hne
        · intro r hr; exact h.open_ r hr
        · have : s.recording.isSome = true := hh
          rw [hnone] at this
  | delPub =>
    simp only [step]
    by_cases hin : s.hasIn = true
    · simp only [hin, Bool.not_true, Bool.false_eq_true, if_false]
      have hs1 : (if s.cfg.mergeSize > 0 then s.mergeFlush else s).pubLog = s.pubLog ∧
          (if s.cfg.mergeSize > 0 then s.mergeFlush else s).nextRecord = s.nextRecord ∧
          (∀ i, (if s.cfg.mergeSize > 0 then s.mergeFlush else s).bytes .record i = s.bytes .record i) := by
        split
        · obtain ⟨hS, _, _, _, hby⟩ := flush_effect s hI
          exact ⟨hS.pubLog, hS.nextRecord, fun i => by simp [hby]⟩
        · exact ⟨rfl, rfl, fun _ => rfl⟩
      generalize (if s.cfg.mergeSize > 0 then s.mergeFlush else s) = s1 at hs1 ⊢
      obtain ⟨hp, hn, hb⟩ := hs1
      refine ⟨?_, ?_, ?_, fun hh => by cases hh⟩
      · intro i hi' _
        have hi'' : i < s.nextRecord := by rw [← hn]; exact hi'
        show ∃ a b, a ≤ b ∧ b ≤ s1.pubLog.length ∧ s1.bytes .record i = Gen.flvHeader ++ rawTags (slice s1.pubLog a b)
        rw [hb, hp]
        by_cases hc : s.recording = some i
        · obtain ⟨_, a, ha, hbytes⟩ := h.open_ i hc
          exact ⟨a, s.pubLog.length, ha, Nat.le_refl _, hbytes⟩
        · exact h.closed i hi'' hc
      · intro r hr; cases hr
      · intro i hi'
        have hi'' : i ≥ s.nextRecord := by rw [← hn]; exact hi'
        show s1.bytes .record i = []
        rw [hb]; exact h.future i hi''
    · have hin' : s.hasIn = false := by simpa using hin
      simp only [hin', Bool.not_false, if_true]; exact h
  | msg m =>
    simp only [step]
    split
    · exact rbroadcast_inv s m h hI
    · exact h
  | join k id =>
    cases k with
    | rtmp =>
      simp only [step]; split
      · exact h
      · exact rinv_transfer s _ h rfl rfl rfl rfl (fun _ => rfl)
    | flv =>
      simp only [step]; split
      · exact h
      · refine rinv_transfer s _ h rfl rfl rfl rfl ?_
        intro i
        show (joinFlv s id false).bytes .record i = _
        unfold joinFlv
        rw [bytes_writeFlv]; simp [fkind]; rfl
    | wsflv =>
      simp only [step]; split
      · exact h
      · refine rinv_transfer s _ h rfl rfl rfl rfl ?_
        intro i
        show (joinFlv s id true).bytes .record i = _
        unfold joinFlv
        rw [bytes_writeFlv]; simp [fkind]; rfl
    | record => exact h
  | leave k id =>
    cases k <;> first | exact h | exact rinv_transfer s _ h rfl rfl rfl rfl (fun _ => rfl)

theorem rinit_inv (cfg : Cfg) : RInv (init cfg) := by
  refine ⟨by intro i hi; simp [init] at hi, by intro r hr; simp [init] at hr, by intro i _; simp [init, St.bytes, St.log],
    by intro hh; simp [init] at hh⟩

theorem rrun_inv (cfg : Cfg) (evs : List Ev) : RInv (run cfg evs) := by
  unfold run
  have : ∀ (s0 : St), Inv s0 → RInv s0 → RInv (evs.foldl step s0) := by
    induction evs with
    | nil => intro s0 _ h; exact h
    | cons e es ih =>
      intro s0 hI h
      simp only [List.foldl_cons]
      exact ih _ (step_inv s0 e hI) (rstep_inv s0 e h hI)
  exact this _ (init_inv cfg) (rinit_inv cfg)

theorem step_nextRecord_mono (s : St) (e : Ev) (hI : Inv s) : s.nextRecord ≤ (step s e).nextRecord := by
  cases e with
  | addPub =>
    simp only [step]; split
    · exact Nat.le_refl _
    · split
      · exact Nat.le_succ _
      · exact Nat.le_refl _
  | delPub =>
    simp only [step]; split
    · exact Nat.le_refl _
    · show s.nextRecord ≤ (if s.cfg.mergeSize > 0 then s.mergeFlush else s).nextRecord
      split
      · rw [(flush_effect s hI).1.nextRecord]; exact Nat.le_refl _
      · exact Nat.le_refl _
  | msg m =>
    simp only [step]; split
    · unfold broadcast; split
      · exact Nat.le_refl _
      · simp only
        obtain ⟨h0, f0⟩ := rtmpLoop_inv (Classify.isVideoKeyNalu m.typ m.payload)
          (if isHeaderMsg m then some (chunksWithoutSdf m) else none) s hI
        obtain ⟨_, _, _, _, _, _, _, _, _, fnr, _⟩ := forward_frame (rtmpLoop (Classify.isVideoKeyNalu m.typ m.payload)
          (if isHeaderMsg m then some (chunksWithoutSdf m) else none) s) m h0
        obtain ⟨_, _, ln⟩ := flvLoop_record (Classify.isVideoKeyNalu m.typ m.payload) (isHeaderMsg m) (tagWithoutSdf m)
          (forward (rtmpLoop (Classify.isVideoKeyNalu m.typ m.payload) (if isHeaderMsg m then some (chunksWithoutSdf m) else none) s) m)
        have e1 : ∀ t : St, (statStage t m).nextRecord = t.nextRecord := by intro t; unfold statStage; split <;> rfl
        have e2 : ∀ t : St, (flvCacheStage t m).nextRecord = t.nextRecord := by intro t; unfold flvCacheStage; split <;> rfl
        have e3 : ∀ t : St, (rtmpCacheStage t m).nextRecord = t.nextRecord := by intro t; unfold rtmpCacheStage; split <;> rfl
        have e4 : ∀ t : St, (recordStage t m).nextRecord = t.nextRecord := by intro t; unfold recordStage; split <;> rfl
        rw [e1, e2, e3, e4, ln, fnr, f0.nextRecord]; exact Nat.le_refl _
    · exact Nat.le_refl _
  | join k id =>
    cases k <;> simp only [step] <;> (try split) <;> exact Nat.le_refl _
  | leave k id => cases k <;> exact Nat.le_refl _

theorem foldl_nextRecord_mono : ∀ (l : List Ev) (s : St), Inv s → s.nextRecord ≤ (l.foldl step s).nextRecord := by
  intro l
  induction l with
  | nil => intro s _; exact Nat.le_refl _
  | cons e es ih =>
    intro s hI
    simp only [List.foldl_cons]
    exact Nat.le_trans (step_nextRecord_mono s e hI) (ih _ (step_inv s e hI))

end Lal.Group
