import LalModel.Proof.GroupRtmp
import LalModel.Proof.GopRing
/-
  Invariant of the HTTP-FLV / WebSocket-FLV subscriber side and of the FLV recording.
-/
set_option linter.unusedSimpArgs false
set_option linter.unusedVariables false
namespace Lal.Group

/-- the connection bytes of one `SubSession.Write(b)`: raw, or one WebSocket frame -/
def wrap (ws : Bool) (b : Bytes) : Bytes := (Ws.subWrite ws b).flatten

def wrapAll (ws : Bool) (bs : List Bytes) : Bytes := (bs.map (wrap ws)).flatten

def tagsOf (ws : Bool) (l : List InMsg) : Bytes := wrapAll ws (l.map tagWithoutSdf)

def fkind (x : Sub) : Kind := if x.ws then .wsflv else .flv

abbrev St.fb (s : St) (x : Sub) : Bytes := s.bytes (fkind x) x.id

/-- `n` = how many entries of the publish log have been offered to this subscriber -/
structure FlvOk (s : St) (n : Nat) (x : Sub) : Prop where
  fresh_ : x.fresh = true → s.fb x = wrap x.ws Gen.flvHeader ∧ x.start = none
  wait_ : x.fresh = false → x.start = none →
    x.waitKey = true ∧ s.fb x = wrap x.ws Gen.flvHeader ++ wrapAll x.ws x.pro
  live_ : x.fresh = false → ∀ a, x.start = some a →
    x.waitKey = false ∧ a ≤ n ∧
    s.fb x = wrap x.ws Gen.flvHeader ++ wrapAll x.ws x.pro ++ tagsOf x.ws (slice s.pubLog a n)

theorem wrapAll_append (ws : Bool) (a b : List Bytes) : wrapAll ws (a ++ b) = wrapAll ws a ++ wrapAll ws b := by
  simp [wrapAll]

theorem tagsOf_append (ws : Bool) (a b : List InMsg) : tagsOf ws (a ++ b) = tagsOf ws a ++ tagsOf ws b := by
  simp [tagsOf, wrapAll]

theorem bytes_writeFlv (s : St) (sub : Sub) (b : Bytes) (k : Kind) (id : Nat) :
    (s.writeFlv sub b).bytes k id = s.bytes k id ++ (if k = fkind sub ∧ id = sub.id then wrap sub.ws b else []) := by
  unfold St.writeFlv
  rw [bytes_writeAll]
  by_cases h : k = fkind sub ∧ id = sub.id
  · have h' : k = (if sub.ws then Kind.wsflv else Kind.flv) ∧ id = sub.id := h
    rw [if_pos h', if_pos h]; rfl
  · have h' : ¬ (k = (if sub.ws then Kind.wsflv else Kind.flv) ∧ id = sub.id) := h
    rw [if_neg h', if_neg h]

theorem bytes_writeFlvAll (sub : Sub) (k : Kind) (id : Nat) : ∀ (bs : List Bytes) (s : St),
    (s.writeFlvAll sub bs).bytes k id = s.bytes k id ++ (if k = fkind sub ∧ id = sub.id then wrapAll sub.ws bs else []) := by
  intro bs
  induction bs with
  | nil => intro s; simp [St.writeFlvAll, wrapAll]
  | cons b bs ih =>
    intro s
    simp only [St.writeFlvAll, List.foldl_cons]
    have := ih (s.writeFlv sub b)
    simp only [St.writeFlvAll] at this
    rw [this, bytes_writeFlv]
    by_cases h : k = fkind sub ∧ id = sub.id
    · simp [h, wrapAll]
    · simp [h]

/-- fields of the state the FLV side depends on, untouched by the writes of `flvOne` -/
theorem writeFlv_fields (s : St) (sub : Sub) (b : Bytes) :
    (s.writeFlv sub b).flvSubs = s.flvSubs ∧ (s.writeFlv sub b).pubLog = s.pubLog ∧
    (s.writeFlv sub b).flvGop = s.flvGop ∧ (s.writeFlv sub b).usedIds = s.usedIds := ⟨rfl, rfl, rfl, rfl⟩

theorem writeFlvAll_fields (sub : Sub) : ∀ (bs : List Bytes) (s : St),
    (s.writeFlvAll sub bs).flvSubs = s.flvSubs ∧ (s.writeFlvAll sub bs).pubLog = s.pubLog ∧
    (s.writeFlvAll sub bs).flvGop = s.flvGop ∧ (s.writeFlvAll sub bs).usedIds = s.usedIds := by
  intro bs
  induction bs with
  | nil => intro s; exact ⟨rfl, rfl, rfl, rfl⟩
  | cons b bs ih =>
    intro s
    simp only [St.writeFlvAll, List.foldl_cons]
    have := ih (s.writeFlv sub b)
    simp only [St.writeFlvAll] at this
    exact this

theorem getFlv_mem {s : St} {id : Nat} {x : Sub} (h : s.getFlv id = some x) : x ∈ s.flvSubs ∧ x.id = id := by
  simp only [St.getFlv] at h
  exact ⟨List.mem_of_find?_eq_some h, by simpa using List.find?_some h⟩

theorem getFlv_modFlv (s : St) (hnd : (s.flvSubs.map (·.id)).Nodup) (x : Sub) (hx : x ∈ s.flvSubs) (f : Sub → Sub)
    (hid : ∀ y, (f y).id = y.id) : (s.modFlv x.id f).getFlv x.id = some (f x) := by
  simp only [St.getFlv, St.modFlv]
  exact find_map_upd x f hid s.flvSubs hnd hx


structure FInvN (s : St) (todo : List Nat) : Prop where
  nodup : (s.flvSubs.map (·.id)).Nodup
  used : ∀ x ∈ s.flvSubs, x.id ∈ s.usedIds
  unused : ∀ id, id ∉ s.usedIds → s.bytes .flv id = [] ∧ s.bytes .wsflv id = []
  subs : ∀ x ∈ s.flvSubs, FlvOk s (if x.id ∈ todo then s.pubLog.length - 1 else s.pubLog.length) x

abbrev FInv (s : St) : Prop := FInvN s []

theorem flvOk_of_eq {s s' : St} {n : Nat} {x : Sub} (hb : s'.fb x = s.fb x) (hp : s'.pubLog = s.pubLog)
    (h : FlvOk s n x) : FlvOk s' n x := by
  constructor
  · intro hf; rw [hb]; exact h.fresh_ hf
  · intro hf hs; rw [hb]; exact h.wait_ hf hs
  · intro hf a hs; rw [hb, hp]; exact h.live_ hf a hs

theorem tagsOf_single (ws : Bool) (m : InMsg) : tagsOf ws [m] = wrap ws (tagWithoutSdf m) := by
  simp [tagsOf, wrapAll]

theorem wrapAll_snoc (ws : Bool) (l : List Bytes) (b : Bytes) : wrapAll ws (l ++ [b]) = wrapAll ws l ++ wrap ws b := by
  simp [wrapAll]

theorem flvOutcome_id (key isHdr : Bool) (g : GopCache.T) (tag : Bytes) (n : Nat) (x : Sub) :
    (flvOutcome key isHdr g tag n x).2.id = x.id ∧ (flvOutcome key isHdr g tag n x).2.ws = x.ws := by
  unfold flvOutcome
  by_cases h1 : x.fresh = true <;> by_cases h2 : GopCache.gopCount g > 0 <;> by_cases h3 : x.waitKey = true <;>
    by_cases h4 : key = true <;> by_cases h5 : isHdr = true <;> simp [h1, h2, h3, h4, h5]

theorem flvOne_inv (m : InMsg) (s : St) (id : Nat) (todo : List Nat) (l : List InMsg)
    (hI : FInvN s (id :: todo)) (hid : id ∉ todo) (hl : s.pubLog = l ++ [m]) :
    FInvN (flvOne (Classify.isVideoKeyNalu m.typ m.payload) (isHeaderMsg m) (tagWithoutSdf m) s id) todo ∧
    (flvOne (Classify.isVideoKeyNalu m.typ m.payload) (isHeaderMsg m) (tagWithoutSdf m) s id).pubLog = s.pubLog ∧
    (flvOne (Classify.isVideoKeyNalu m.typ m.payload) (isHeaderMsg m) (tagWithoutSdf m) s id).flvSubs.map (·.id) = s.flvSubs.map (·.id) ∧
    (flvOne (Classify.isVideoKeyNalu m.typ m.payload) (isHeaderMsg m) (tagWithoutSdf m) s id).flvGop = s.flvGop := by
  have hlen : s.pubLog.length = l.length + 1 := by rw [hl]; simp
  unfold flvOne
  cases hg : s.getFlv id with
  | none =>
    refine ⟨⟨hI.nodup, hI.used, hI.unused, ?_⟩, rfl, rfl, rfl⟩
    intro x hx
    have hne : x.id ≠ id := by
      intro h
      have := (List.find?_eq_none.mp hg) x hx
      simp [h] at this
    have := hI.subs x hx
    simp only [List.mem_cons, hne, false_or] at this
    exact this
  | some x =>
    obtain ⟨hx, hxid⟩ := getFlv_mem hg
    subst hxid
    simp only
    generalize ho : flvOutcome (Classify.isVideoKeyNalu m.typ m.payload) (isHeaderMsg m) s.flvGop (tagWithoutSdf m) (s.pubLog.length - 1) x = o
    obtain ⟨f1, f2, f3, f4⟩ := writeFlvAll_fields x o.1 s
    have hoid : o.2.id = x.id ∧ o.2.ws = x.ws := by rw [← ho]; exact flvOutcome_id _ _ _ _ _ _
    have hbytes : ∀ k i, ((s.writeFlvAll x o.1).modFlv x.id (fun _ => o.2)).bytes k i =
        s.bytes k i ++ (if k = fkind x ∧ i = x.id then wrapAll x.ws o.1 else []) := by
      intro k i
      show (s.writeFlvAll x o.1).bytes k i = _
      exact bytes_writeFlvAll x k i o.1 s
    have hpl' : ((s.writeFlvAll x o.1).modFlv x.id (fun _ => o.2)).pubLog = s.pubLog := f2
    have hus' : ((s.writeFlvAll x o.1).modFlv x.id (fun _ => o.2)).usedIds = s.usedIds := f4
    have hgp' : ((s.writeFlvAll x o.1).modFlv x.id (fun _ => o.2)).flvGop = s.flvGop := f3
    have hsb' : ((s.writeFlvAll x o.1).modFlv x.id (fun _ => o.2)).flvSubs =
        s.flvSubs.map (fun y => if y.id == x.id then o.2 else y) := by
      show (s.writeFlvAll x o.1).flvSubs.map _ = _; rw [f1]
    generalize (s.writeFlvAll x o.1).modFlv x.id (fun _ => o.2) = s' at hbytes hpl' hus' hgp' hsb' ⊢
    have hids : s'.flvSubs.map (·.id) = s.flvSubs.map (·.id) := by
      rw [hsb', List.map_map]
      apply List.map_congr_left
      intro y hy
      simp only [Function.comp]
      by_cases hyx : (y.id == x.id) = true
      · simp only [hyx, if_true]; rw [hoid.1]; exact (by simpa using hyx : y.id = x.id).symm
      · simp [hyx]
    refine ⟨⟨by rw [hids]; exact hI.nodup, ?_, ?_, ?_⟩, hpl', hids, hgp'⟩
    · intro y' hy'
      rw [hsb'] at hy'
      obtain ⟨y, hy, rfl⟩ := List.mem_map.mp hy'
      rw [hus']
      by_cases hyx : (y.id == x.id) = true
      · simp only [hyx, if_true]; rw [hoid.1]; exact hI.used x hx
      · simp only [hyx, if_false, Bool.false_eq_true]; exact hI.used y hy
    · intro i hi
      rw [hus'] at hi
      have hne : i ≠ x.id := fun h => hi (h ▸ hI.used x hx)
      rw [hbytes, hbytes]
      simp [hne, hI.unused i hi]
    · intro y' hy'
      rw [hsb'] at hy'
      obtain ⟨y, hy, rfl⟩ := List.mem_map.mp hy'
      rw [hpl']
      by_cases hyx : y.id = x.id
      · -- the subscriber just served
        have hy_eq : y = x := eq_of_nodup_map (·.id) _ hI.nodup y x hy hx hyx
        subst hy_eq
        simp only [beq_self_eq_true, if_true, hoid.1, hid, if_false]
        have okx := hI.subs y hy
        simp only [List.mem_cons, true_or, if_true] at okx
        have hfb : s'.fb o.2 = s.fb y ++ wrapAll y.ws o.1 := by
          show s'.bytes (fkind o.2) o.2.id = _
          have hk : fkind o.2 = fkind y := by simp [fkind, hoid.2]
          rw [hk, hoid.1, hbytes]; simp
        have hn1 : s.pubLog.length - 1 = l.length := by omega
        have hsl : slice (l ++ [m]) l.length (l.length + 1) = [m] := by
          have := slice_snoc l m l.length (Nat.le_refl _)
          rw [this, slice_self]; rfl
        rw [hn1] at okx ho
        rw [hlen]
        have hows : o.2.ws = y.ws := hoid.2
        -- unfold the outcome by cases
        by_cases hf : y.fresh = true
        · obtain ⟨hb0, hs0⟩ := okx.fresh_ hf
          by_cases hw : (if GopCache.gopCount s.flvGop > 0 then false else y.waitKey) = true
          · by_cases hk : Classify.isVideoKeyNalu m.typ m.payload = true
            · have e : o = (prologue s.flvGop ++ [tagWithoutSdf m],
                  { y with fresh := false, waitKey := false, pro := prologue s.flvGop, start := some l.length }) := by
                rw [← ho]; simp [flvOutcome, hf, hw, hk]
              subst e
              constructor
              · intro h; cases h
              · intro _ h; cases h
              · intro _ a ha
                simp only [Option.some.injEq] at ha; subst ha
                refine ⟨rfl, Nat.le_succ _, ?_⟩
                rw [hfb, hpl', hl, hsl, hb0, wrapAll_snoc, tagsOf_single, List.append_assoc]
            · have hk' : Classify.isVideoKeyNalu m.typ m.payload = false := by simpa using hk
              by_cases hh : isHeaderMsg m = true
              · have e : o = (prologue s.flvGop ++ [tagWithoutSdf m],
                    { y with fresh := false, waitKey := true, pro := prologue s.flvGop ++ [tagWithoutSdf m], start := none }) := by
                  rw [← ho]; simp [flvOutcome, hf, hw, hk', hh]
                subst e
                constructor
                · intro h; cases h
                · intro _ _; exact ⟨rfl, by rw [hfb, hb0]⟩
                · intro _ a ha; cases ha
              · have hh' : isHeaderMsg m = false := by simpa using hh
                have e : o = (prologue s.flvGop,
                    { y with fresh := false, waitKey := true, pro := prologue s.flvGop, start := none }) := by
                  rw [← ho]; simp [flvOutcome, hf, hw, hk', hh']
                subst e
                constructor
                · intro h; cases h
                · intro _ _; exact ⟨rfl, by rw [hfb, hb0]⟩
                · intro _ a ha; cases ha
          · have hw' : (if GopCache.gopCount s.flvGop > 0 then false else y.waitKey) = false := by
              cases h : (if GopCache.gopCount s.flvGop > 0 then false else y.waitKey) <;> simp_all
            have e : o = (prologue s.flvGop ++ [tagWithoutSdf m],
                { y with fresh := false, waitKey := false, pro := prologue s.flvGop, start := some l.length }) := by
              rw [← ho]; simp [flvOutcome, hf, hw']
            subst e
            constructor
            · intro h; cases h
            · intro _ h; cases h
            · intro _ a ha
              simp only [Option.some.injEq] at ha; subst ha
              refine ⟨rfl, Nat.le_succ _, ?_⟩
              rw [hfb, hpl', hl, hsl, hb0, wrapAll_snoc, tagsOf_single, List.append_assoc]
        · have hf' : y.fresh = false := by simpa using hf
          by_cases hw : y.waitKey = true
          · have hstart : y.start = none := by
              cases hs : y.start with
              | none => rfl
              | some a => have := (okx.live_ hf' a hs).1; rw [hw] at this; cases this
            have hb0 := (okx.wait_ hf' hstart).2
            by_cases hk : Classify.isVideoKeyNalu m.typ m.payload = true
            · have e : o = ([tagWithoutSdf m], { y with waitKey := false, start := some l.length }) := by
                rw [← ho]; simp [flvOutcome, hf', hw, hk]
              subst e
              constructor
              · intro h; simp [hf'] at h
              · intro _ h; cases h
              · intro _ a ha
                simp only [Option.some.injEq] at ha; subst ha
                refine ⟨rfl, Nat.le_succ _, ?_⟩
                rw [hfb, hpl', hl, hsl, hb0, tagsOf_single]; simp [wrapAll]
            · have hk' : Classify.isVideoKeyNalu m.typ m.payload = false := by simpa using hk
              by_cases hh : isHeaderMsg m = true
              · have e : o = ([tagWithoutSdf m], { y with pro := y.pro ++ [tagWithoutSdf m] }) := by
                  rw [← ho]; simp [flvOutcome, hf', hw, hk', hh]
                subst e
                constructor
                · intro h; rw [hf'] at h; cases h
                · intro _ _; exact ⟨hw, by rw [hfb, hb0, wrapAll_snoc]; simp [wrapAll]⟩
                · intro _ a ha; rw [hstart] at ha; cases ha
              · have hh' : isHeaderMsg m = false := by simpa using hh
                have e : o = ([], y) := by
                  rw [← ho]; simp [flvOutcome, hf', hw, hk', hh']
                subst e
                constructor
                · intro h; rw [hf'] at h; cases h
                · intro _ _; exact ⟨hw, by rw [hfb, hb0]; simp [wrapAll]⟩
                · intro _ a ha; rw [hstart] at ha; cases ha
          · have hw' : y.waitKey = false := by simpa using hw
            have e : o = ([tagWithoutSdf m], y) := by
              rw [← ho]; simp [flvOutcome, hf', hw']
            subst e
            cases hs : y.start with
            | none => have := (okx.wait_ hf' hs).1; rw [hw'] at this; cases this
            | some a0 =>
              obtain ⟨_, hle, hb0⟩ := okx.live_ hf' a0 hs
              constructor
              · intro h; rw [hf'] at h; cases h
              · intro _ h; rw [hs] at h; cases h
              · intro _ a ha
                rw [hs] at ha; simp only [Option.some.injEq] at ha; subst ha
                refine ⟨hw', Nat.le_succ_of_le hle, ?_⟩
                rw [hfb, hpl', hb0, hl, slice_append_left _ _ _ _ (Nat.le_refl _), slice_snoc _ _ _ hle, tagsOf_append,
                  tagsOf_single]
                simp [wrapAll, List.append_assoc]
      · -- another subscriber: untouched
        have hne : (y.id == x.id) = false := by simpa using hyx
        simp only [hne, Bool.false_eq_true, if_false]
        have oky := hI.subs y hy
        simp only [List.mem_cons, hyx, false_or] at oky
        refine flvOk_of_eq ?_ hpl' oky
        show s'.bytes (fkind y) y.id = _
        rw [hbytes]; simp [hyx]

theorem flvLoop_fold_inv (m : InMsg) (l : List InMsg) : ∀ (ids : List Nat) (s : St), ids.Nodup →
    FInvN s ids → s.pubLog = l ++ [m] →
    FInv (ids.foldl (flvOne (Classify.isVideoKeyNalu m.typ m.payload) (isHeaderMsg m) (tagWithoutSdf m)) s) := by
  intro ids
  induction ids with
  | nil => intro s _ h _; exact h
  | cons i is ih =>
    intro s hnd hI hl
    simp only [List.nodup_cons] at hnd
    simp only [List.foldl_cons]
    obtain ⟨h1, hp, _, _⟩ := flvOne_inv m s i is l hI hnd.1 hl
    exact ih _ hnd.2 h1 (hp.trans hl)

/-- a change that leaves the FLV side's inputs alone -/
theorem finv_transfer {todo : List Nat} (s s' : St) (hI : FInvN s todo)
    (hsubs : s'.flvSubs = s.flvSubs) (hpub : s'.pubLog = s.pubLog) (hused : s'.usedIds = s.usedIds)
    (hb : ∀ k id, k ≠ .rtmp → k ≠ .record → s'.bytes k id = s.bytes k id) : FInvN s' todo := by
  have hfb : ∀ x, s'.fb x = s.fb x := by
    intro x; show s'.bytes (fkind x) x.id = s.bytes (fkind x) x.id
    apply hb <;> (simp only [fkind]; split <;> simp)
  refine ⟨by rw [hsubs]; exact hI.nodup, by rw [hsubs, hused]; exact hI.used, ?_, ?_⟩
  · intro id hid; rw [hused] at hid
    rw [hb _ _ (by simp) (by simp), hb _ _ (by simp) (by simp)]; exact hI.unused id hid
  · intro x hx; rw [hsubs] at hx
    rw [hpub]; exact flvOk_of_eq (hfb x) hpub (hI.subs x hx)

theorem finv_of_frame {s s' : St} (hI : FInv s) (h : Frame s s') : FInv s' :=
  finv_transfer s s' hI h.flvSubs h.pubLog h.usedIds (fun k id hk _ => h.other k id hk)

/-- after `forward`: the new message is in the log but has not been offered to any FLV subscriber -/
theorem finv_forward (s : St) (m : InMsg) (hI : FInv s) (hR : Inv s) :
    FInvN (forward s m) (s.flvSubs.map (·.id)) ∧ (forward s m).pubLog = s.pubLog ++ [m] ∧
    (forward s m).flvSubs = s.flvSubs := by
  obtain ⟨hp, _, hu, hf, _, _, _, _, _, _, _, hb⟩ := forward_frame s m hR
  refine ⟨⟨by rw [hf]; exact hI.nodup, by rw [hf, hu]; exact hI.used, ?_, ?_⟩, hp, hf⟩
  · intro id hid; rw [hu] at hid
    rw [hb _ _ (by simp), hb _ _ (by simp)]; exact hI.unused id hid
  · intro x hx; rw [hf] at hx
    have hmem : x.id ∈ s.flvSubs.map (·.id) := List.mem_map.mpr ⟨x, hx, rfl⟩
    simp only [hmem, if_true, hp, List.length_append, List.length_cons, List.length_nil, Nat.add_sub_cancel]
    have ok := hI.subs x hx
    simp only [List.not_mem_nil, if_false] at ok
    have hfb : (forward s m).fb x = s.fb x := by
      show (forward s m).bytes (fkind x) x.id = _
      apply hb; simp only [fkind]; split <;> simp
    constructor
    · intro h; rw [hfb]; exact ok.fresh_ h
    · intro h1 h2; rw [hfb]; exact ok.wait_ h1 h2
    · intro h1 a h2
      obtain ⟨hw, hle, hb0⟩ := ok.live_ h1 a h2
      refine ⟨hw, hle, ?_⟩
      rw [hfb, hb0, hp, slice_append_left _ _ _ _ (Nat.le_refl _)]

theorem flvLoop_inv (s : St) (m : InMsg) (hI : FInv s) (hR : Inv s) :
    FInv (flvLoop (Classify.isVideoKeyNalu m.typ m.payload) (isHeaderMsg m) (tagWithoutSdf m) (forward s m)) := by
  obtain ⟨h1, hp, hf⟩ := finv_forward s m hI hR
  unfold flvLoop
  rw [hf]
  exact flvLoop_fold_inv m s.pubLog _ _ hI.nodup h1 hp

theorem stage_flv_frame (t : St) (m : InMsg) :
    (∀ (u : St), u = recordStage t m ∨ u = rtmpCacheStage t m ∨ u = flvCacheStage t m ∨ u = statStage t m →
      u.flvSubs = t.flvSubs ∧ u.pubLog = t.pubLog ∧ u.usedIds = t.usedIds ∧
      ∀ k id, k ≠ .rtmp → k ≠ .record → u.bytes k id = t.bytes k id) := by
  intro u hu
  rcases hu with rfl | rfl | rfl | rfl
  · unfold recordStage; split
    · refine ⟨rfl, rfl, rfl, ?_⟩
      intro k id _ hk
      rw [bytes_write]; simp [hk]
    · exact ⟨rfl, rfl, rfl, fun _ _ _ _ => rfl⟩
  · unfold rtmpCacheStage; split <;> exact ⟨rfl, rfl, rfl, fun _ _ _ _ => rfl⟩
  · unfold flvCacheStage; split <;> exact ⟨rfl, rfl, rfl, fun _ _ _ _ => rfl⟩
  · unfold statStage; split <;> exact ⟨rfl, rfl, rfl, fun _ _ _ _ => rfl⟩

theorem fbroadcast_inv (s : St) (m : InMsg) (hI : FInv s) (hR : Inv s) : FInv (broadcast s m) := by
  unfold broadcast
  split
  · exact hI
  · simp only
    obtain ⟨hR0, f0⟩ := rtmpLoop_inv (Classify.isVideoKeyNalu m.typ m.payload) (if isHeaderMsg m then some (chunksWithoutSdf m) else none) s hR
    have hI0 := finv_of_frame hI f0
    have h3 := flvLoop_inv _ m hI0 hR0
    have tr : ∀ (t : St), FInv t → ∀ (u : St),
        (u = recordStage t m ∨ u = rtmpCacheStage t m ∨ u = flvCacheStage t m ∨ u = statStage t m) → FInv u := by
      intro t ht u hu
      obtain ⟨a, b, c, d⟩ := stage_flv_frame t m u hu
      exact finv_transfer t u ht a b c d
    exact tr _ (tr _ (tr _ (tr _ h3 _ (Or.inl rfl)) _ (Or.inr (Or.inl rfl))) _ (Or.inr (Or.inr (Or.inl rfl)))) _
      (Or.inr (Or.inr (Or.inr rfl)))

theorem stopWaiting_props (n : Nat) (x : Sub) :
    (stopWaiting n x).id = x.id ∧ (stopWaiting n x).ws = x.ws ∧ (stopWaiting n x).fresh = x.fresh ∧
    (stopWaiting n x).pro = x.pro := by
  simp only [stopWaiting]; split <;> exact ⟨rfl, rfl, rfl, rfl⟩

theorem joinFlv_finv (s : St) (id : Nat) (ws : Bool) (hI : FInv s) (hnew : id ∉ s.usedIds) : FInv (joinFlv s id ws) := by
  have hfresh : ∀ x ∈ s.flvSubs, x.id ≠ id := fun x hx h => hnew (h ▸ hI.used x hx)
  let x0 : Sub := { id := id, waitKey := s.videoCodecSet, ws := ws }
  let s0 : St := { s with flvSubs := s.flvSubs ++ [x0], usedIds := id :: s.usedIds }
  have e : joinFlv s id ws = s0.writeFlv x0 Gen.flvHeader := rfl
  have hby : ∀ k i, (joinFlv s id ws).bytes k i = s.bytes k i ++ (if k = fkind x0 ∧ i = id then wrap ws Gen.flvHeader else []) := by
    intro k i; rw [e, bytes_writeFlv]; rfl
  have hsubs : (joinFlv s id ws).flvSubs = s.flvSubs ++ [x0] := rfl
  have hused : (joinFlv s id ws).usedIds = id :: s.usedIds := rfl
  have hpl : (joinFlv s id ws).pubLog = s.pubLog := rfl
  refine ⟨?_, ?_, ?_, ?_⟩
  · rw [hsubs]
    simp only [List.map_append, List.map_cons, List.map_nil]
    rw [List.nodup_append]
    refine ⟨hI.nodup, by simp, ?_⟩
    intro a ha b hb
    simp only [List.mem_singleton] at hb; subst hb
    obtain ⟨x, hx, rfl⟩ := List.mem_map.mp ha
    exact hfresh x hx
  · intro x hx
    rw [hsubs] at hx; rw [hused]
    simp only [List.mem_append, List.mem_singleton] at hx
    rcases hx with hx | rfl
    · exact List.mem_cons_of_mem _ (hI.used x hx)
    · exact List.mem_cons_self
  · intro i hi
    rw [hused] at hi
    have h1 : i ∉ s.usedIds := fun h => hi (List.mem_cons_of_mem _ h)
    have h2 : i ≠ id := fun h => hi (h ▸ List.mem_cons_self)
    rw [hby, hby]
    simp [h2, hI.unused i h1]
  · intro x hx
    rw [hsubs] at hx
    simp only [List.mem_append, List.mem_singleton] at hx
    simp only [List.not_mem_nil, if_false]
    rw [hpl]
    rcases hx with hx | rfl
    · have ok := hI.subs x hx
      simp only [List.not_mem_nil, if_false] at ok
      refine flvOk_of_eq ?_ hpl ok
      show (joinFlv s id ws).bytes (fkind x) x.id = s.bytes (fkind x) x.id
      rw [hby]
      have : ¬ (x.id = id) := hfresh x hx
      simp [this]
    · constructor
      · intro _
        refine ⟨?_, rfl⟩
        show (joinFlv s id ws).bytes (fkind x0) id = _
        rw [hby]
        have h0 : s.bytes (fkind x0) id = [] := by
          have := hI.unused id hnew
          simp only [fkind]; split
          · exact this.2
          · exact this.1
        simp [h0]; rfl
      · intro h; cases h
      · intro h; cases h

theorem fstep_inv (s : St) (e : Ev) (hI : FInv s) (hR : Inv s) : FInv (step s e) := by
  cases e with
  | addPub =>
    simp only [step]
    split
    · exact hI
    · split
      · refine finv_transfer s _ hI rfl rfl rfl ?_
        intro k id _ hk; rw [bytes_write]; simp [hk]; rfl
      · exact finv_transfer s _ hI rfl rfl rfl (fun _ _ _ _ => rfl)
  | delPub =>
    simp only [step]
    split
    · exact hI
    · have h1 : FInv (if s.cfg.mergeSize > 0 then s.mergeFlush else s) ∧
          (if s.cfg.mergeSize > 0 then s.mergeFlush else s).pubLog = s.pubLog := by
        split
        · exact ⟨finv_of_frame hI (frame_flush s hR), (flush_effect s hR).1.pubLog⟩
        · exact ⟨hI, rfl⟩
      generalize (if s.cfg.mergeSize > 0 then s.mergeFlush else s) = s1 at h1 ⊢
      obtain ⟨h1, hpl⟩ := h1
      have hids : (s1.flvSubs.map (stopWaiting s.pubLog.length)).map (·.id) = s1.flvSubs.map (·.id) := by
        simp only [List.map_map]; apply List.map_congr_left; intro x _
        exact (stopWaiting_props _ x).1
      refine ⟨by show ((s1.flvSubs.map (stopWaiting s.pubLog.length)).map (·.id)).Nodup; rw [hids]; exact h1.nodup, ?_, h1.unused, ?_⟩
      · intro x' hx'
        have hx'' : x' ∈ s1.flvSubs.map (stopWaiting s.pubLog.length) := hx'
        obtain ⟨x, hx, rfl⟩ := List.mem_map.mp hx''
        rw [(stopWaiting_props _ x).1]; exact h1.used x hx
      · intro x' hx'
        have hx'' : x' ∈ s1.flvSubs.map (stopWaiting s.pubLog.length) := hx'
        obtain ⟨x, hx, rfl⟩ := List.mem_map.mp hx''
        have ok := h1.subs x hx
        simp only [List.not_mem_nil, if_false] at ok ⊢
        obtain ⟨pid, pws, pfr, ppro⟩ := stopWaiting_props s.pubLog.length x
        have hfb : (afterDelIn s1 s.pubLog.length).fb (stopWaiting s.pubLog.length x) = s1.fb x := by
          show s1.bytes (fkind (stopWaiting s.pubLog.length x)) (stopWaiting s.pubLog.length x).id = _
          simp only [fkind, pws, pid]; rfl
        have hpl' : (afterDelIn s1 s.pubLog.length).pubLog = s1.pubLog := rfl
        rw [hpl']
        by_cases hw : x.waitKey = true
        · by_cases hf : x.fresh = true
          · have e : stopWaiting s.pubLog.length x = { x with waitKey := false, start := none } := by
              simp [stopWaiting, hw, hf]
            rw [e] at hfb ⊢
            constructor
            · intro _; exact ⟨by rw [hfb]; exact (ok.fresh_ hf).1, rfl⟩
            · intro h; simp [hf] at h
            · intro h; simp [hf] at h
          · have hf' : x.fresh = false := by simpa using hf
            have e : stopWaiting s.pubLog.length x = { x with waitKey := false, start := some s.pubLog.length } := by
              simp [stopWaiting, hw, hf']
            have hstart : x.start = none := by
              cases hs : x.start with
              | none => rfl
              | some a => have := (ok.live_ hf' a hs).1; rw [hw] at this; cases this
            have hb0 := (ok.wait_ hf' hstart).2
            rw [e] at hfb ⊢
            constructor
            · intro h; simp [hf'] at h
            · intro _ h; cases h
            · intro _ a ha
              simp only [Option.some.injEq] at ha; subst ha
              refine ⟨rfl, Nat.le_of_eq (by rw [hpl]), ?_⟩
              rw [hfb, hb0, hpl, slice_self]; simp [tagsOf, wrapAll]
        · have e : stopWaiting s.pubLog.length x = x := by simp [stopWaiting, hw]
          rw [e] at hfb ⊢
          exact flvOk_of_eq hfb rfl ok
  | msg m =>
    simp only [step]
    split
    · exact fbroadcast_inv s m hI hR
    · exact hI
  | join k id =>
    cases k with
    | rtmp =>
      simp only [step]
      split
      · exact hI
      · refine ⟨hI.nodup, fun x hx => List.mem_cons_of_mem _ (hI.used x hx), ?_, ?_⟩
        · intro i hi; exact hI.unused i (fun h => hi (List.mem_cons_of_mem _ h))
        · intro x hx; exact flvOk_of_eq (s := s) rfl rfl (hI.subs x hx)
    | flv =>
      simp only [step]
      split
      · exact hI
      · rename_i hnew; exact joinFlv_finv s id false hI (by simpa using hnew)
    | wsflv =>
      simp only [step]
      split
      · exact hI
      · rename_i hnew; exact joinFlv_finv s id true hI (by simpa using hnew)
    | record => exact hI
  | leave k id =>
    cases k with
    | rtmp => exact finv_transfer s _ hI rfl rfl rfl (fun _ _ _ _ => rfl)
    | flv =>
      simp only [step]
      refine ⟨List.Nodup.sublist (List.Sublist.map _ List.filter_sublist) hI.nodup,
        fun x hx => hI.used x (List.mem_filter.mp hx).1, hI.unused, ?_⟩
      intro x hx
      exact flvOk_of_eq (s := s) rfl rfl (hI.subs x (List.mem_filter.mp hx).1)
    | wsflv =>
      simp only [step]
      refine ⟨List.Nodup.sublist (List.Sublist.map _ List.filter_sublist) hI.nodup,
        fun x hx => hI.used x (List.mem_filter.mp hx).1, hI.unused, ?_⟩
      intro x hx
      exact flvOk_of_eq (s := s) rfl rfl (hI.subs x (List.mem_filter.mp hx).1)
    | record => exact hI

theorem finit_inv (cfg : Cfg) : FInv (init cfg) := by
  refine ⟨by simp [init], by simp [init], by intro id _; simp [init, St.bytes, St.log], by simp [init]⟩

theorem frun_inv (cfg : Cfg) (evs : List Ev) : FInv (run cfg evs) ∧ Inv (run cfg evs) := by
  unfold run
  generalize hi : init cfg = s0
  have h0 : FInv s0 ∧ Inv s0 := hi ▸ ⟨finit_inv cfg, init_inv cfg⟩
  clear hi
  induction evs generalizing s0 with
  | nil => exact h0
  | cons e es ih => exact ih _ ⟨fstep_inv s0 e h0.1 h0.2, step_inv s0 e h0.2⟩

/-! ### the publish log is the publisher's non-empty messages -/

/-- independent of the model: which messages of an event list are "published" — those that arrive
    while a publisher is accepted and have a non-empty payload -/
def publishedOf (evs : List Ev) : Bool × List InMsg :=
  evs.foldl (fun acc e =>
    match e with
    | .addPub => (true, acc.2)
    | .delPub => (false, acc.2)
    | .msg m => if acc.1 && !m.payload.isEmpty then (acc.1, acc.2 ++ [m]) else acc
    | _ => acc) (false, [])

theorem writeFlvAll_hasIn (sub : Sub) : ∀ (bs : List Bytes) (s : St), (s.writeFlvAll sub bs).hasIn = s.hasIn := by
  intro bs
  induction bs with
  | nil => intro s; rfl
  | cons b bs ih => intro s; simp only [St.writeFlvAll, List.foldl_cons]; exact ih (s.writeFlv sub b)

theorem flvLoop_hasIn (key isHdr : Bool) (tag : Bytes) (s : St) : (flvLoop key isHdr tag s).hasIn = s.hasIn := by
  unfold flvLoop
  generalize s.flvSubs.map (·.id) = ids
  induction ids generalizing s with
  | nil => rfl
  | cons i is ih =>
    simp only [List.foldl_cons]
    rw [ih]
    unfold flvOne
    cases s.getFlv i with
    | none => rfl
    | some x => exact writeFlvAll_hasIn x _ s

theorem stage_hasIn (t : St) (m : InMsg) :
    (recordStage t m).hasIn = t.hasIn ∧ (rtmpCacheStage t m).hasIn = t.hasIn ∧ (flvCacheStage t m).hasIn = t.hasIn ∧
    (statStage t m).hasIn = t.hasIn := by
  refine ⟨?_, ?_, ?_, ?_⟩
  · unfold recordStage; split <;> rfl
  · unfold rtmpCacheStage; split <;> rfl
  · unfold flvCacheStage; split <;> rfl
  · unfold statStage; split <;> rfl

theorem broadcast_hasIn (s : St) (m : InMsg) (hI : Inv s) : (broadcast s m).hasIn = s.hasIn := by
  unfold broadcast
  split
  · rfl
  · simp only
    obtain ⟨h0, f0⟩ := rtmpLoop_inv (Classify.isVideoKeyNalu m.typ m.payload) (if isHeaderMsg m then some (chunksWithoutSdf m) else none) s hI
    obtain ⟨_, _, _, _, _, _, fh, _⟩ := forward_frame (rtmpLoop (Classify.isVideoKeyNalu m.typ m.payload) (if isHeaderMsg m then some (chunksWithoutSdf m) else none) s) m h0
    rw [(stage_hasIn _ m).2.2.2, (stage_hasIn _ m).2.2.1, (stage_hasIn _ m).2.1, (stage_hasIn _ m).1, flvLoop_hasIn, fh, f0.hasIn]

theorem step_published (s : St) (e : Ev) (hI : Inv s) :
    ((step s e).hasIn, (step s e).pubLog) =
      (match e with
       | .addPub => (true, s.pubLog)
       | .delPub => (false, s.pubLog)
       | .msg m => if s.hasIn && !m.payload.isEmpty then (s.hasIn, s.pubLog ++ [m]) else (s.hasIn, s.pubLog)
       | _ => (s.hasIn, s.pubLog)) := by
  cases e with
  | addPub =>
    simp only [step]
    by_cases h : s.hasIn = true
    · simp [h]
    · simp only [h, if_false, Bool.false_eq_true]
      by_cases hr : s.cfg.recordFlv = true
      · simp only [hr, if_true]; rfl
      · simp only [hr, if_false, Bool.false_eq_true]
  | delPub =>
    simp only [step]
    by_cases h : s.hasIn = true
    · simp only [h, Bool.not_true, Bool.false_eq_true, if_false]
      show ((afterDelIn _ _).hasIn, (afterDelIn _ _).pubLog) = _
      have : (if s.cfg.mergeSize > 0 then s.mergeFlush else s).pubLog = s.pubLog := by
        split
        · exact (flush_effect s hI).1.pubLog
        · rfl
      simp [afterDelIn, this]
    · have h' : s.hasIn = false := by simpa using h
      simp [h']
  | msg m =>
    simp only [step]
    by_cases h : s.hasIn = true
    · simp only [h, if_true, Bool.true_and]
      rw [broadcast_hasIn s m hI, (broadcast_cfg_pub s m hI).2, h]
      by_cases he : m.payload.isEmpty = true <;> simp [he]
    · have h' : s.hasIn = false := by simpa using h
      simp [h']
  | join k id =>
    cases k <;> simp only [step] <;> (try split) <;> rfl
  | leave k id => cases k <;> rfl

theorem run_published (cfg : Cfg) (evs : List Ev) :
    ((run cfg evs).hasIn, (run cfg evs).pubLog) = publishedOf evs := by
  unfold run publishedOf
  have : ∀ (s0 : St) (acc : Bool × List InMsg), Inv s0 → (s0.hasIn, s0.pubLog) = acc →
      ((evs.foldl step s0).hasIn, (evs.foldl step s0).pubLog) =
        evs.foldl (fun acc e =>
          match e with
          | .addPub => (true, acc.2)
          | .delPub => (false, acc.2)
          | .msg m => if acc.1 && !m.payload.isEmpty then (acc.1, acc.2 ++ [m]) else acc
          | _ => acc) acc := by
    induction evs with
    | nil => intro s0 acc _ h; exact h
    | cons e es ih =>
      intro s0 acc h0 hacc
      simp only [List.foldl_cons]
      apply ih _ _ (step_inv s0 e h0)
      rw [step_published s0 e h0]
      obtain ⟨a1, a2⟩ := acc
      simp only [Prod.mk.injEq] at hacc
      obtain ⟨rfl, rfl⟩ := hacc
      cases e <;> simp
  exact this _ _ (init_inv cfg) rfl

/-! ### the caches of reachable states -/

structure CacheOk (g : GopCache.T) (gopNum cap : Nat) : Prop where
  wf : GopCache.WF g
  size : g.gopSize = gopNum + 1
  cap_ : g.cap = cap
  /-- no cached GOP is longer than the configured cap -/
  capped : cap = 0 ∨ ∀ gop ∈ GopCache.gops g, gop.length ≤ cap

theorem specFeed_capped (gopNum cap : Nat) (G : List (List Bytes)) (c h k : Bool) (item : Bytes)
    (hG : cap = 0 ∨ ∀ gop ∈ G, gop.length ≤ cap) :
    cap = 0 ∨ ∀ gop ∈ GopCache.specFeed gopNum cap G c h k item, gop.length ≤ cap := by
  rcases hG with h0 | hG
  · exact Or.inl h0
  · by_cases hc0 : cap = 0
    · exact Or.inl hc0
    · right
      unfold GopCache.specFeed
      intro gop hgop
      split at hgop
      · split at hgop
        · cases hgop
        · exact hG gop hgop
      · split at hgop
        · exact hG gop hgop
        · split at hgop
          · simp only [List.mem_append, List.mem_singleton] at hgop
            rcases hgop with h1 | rfl
            · split at h1
              · exact hG gop (List.mem_of_mem_tail h1)
              · exact hG gop h1
            · simp; omega
          · split at hgop
            · exact hG gop hgop
            · rename_i lastG hl
              split at hgop
              · rename_i hlt
                simp only [List.mem_append, List.mem_singleton] at hgop
                rcases hgop with h1 | rfl
                · exact hG gop ((List.dropLast_sublist _).subset h1)
                · simp; rcases hlt with h2 | h2 <;> omega
              · exact hG gop hgop

theorem cacheOk_feed (g : GopCache.T) (gopNum cap : Nat) (h : CacheOk g gopNum cap) (typ : Nat) (p item : Bytes) :
    CacheOk (GopCache.feed g typ p item).1 gopNum cap := by
  obtain ⟨hw, hs, hc, hg⟩ := GopCache.gops_feed g h.wf typ p item
  refine ⟨hw, by rw [hs, h.size], by rw [hc, h.cap_], ?_⟩
  rw [hg, h.cap_]
  exact specFeed_capped _ _ _ _ _ _ _ h.capped

theorem cacheOk_setMetadata (g : GopCache.T) (n c : Nat) (h : CacheOk g n c) (w wo : Bytes) :
    CacheOk (GopCache.setMetadata g w wo) n c :=
  ⟨GopCache.wf_congr (g := g) (g' := GopCache.setMetadata g w wo) rfl rfl rfl rfl h.wf, h.size, h.cap_, by
    rw [GopCache.gops_congr (g := g) (g' := GopCache.setMetadata g w wo) rfl rfl rfl rfl]; exact h.capped⟩

theorem cacheOk_clear (g : GopCache.T) (n c : Nat) (h : CacheOk g n c) : CacheOk (GopCache.clear g) n c :=
  ⟨GopCache.wf_clear g h.wf, h.size, h.cap_, by rw [GopCache.gops_clear g h.wf]; right; intro _ hh; cases hh⟩

theorem cacheOk_new (n c : Nat) : CacheOk (GopCache.new n c) n c :=
  ⟨GopCache.wf_new n c, rfl, rfl, by rw [GopCache.gops_new]; right; intro _ hh; cases hh⟩

theorem writeFlvAll_rtmpGop (sub : Sub) : ∀ (bs : List Bytes) (s : St), (s.writeFlvAll sub bs).rtmpGop = s.rtmpGop := by
  intro bs
  induction bs with
  | nil => intro s; rfl
  | cons b bs ih => intro s; simp only [St.writeFlvAll, List.foldl_cons]; exact ih (s.writeFlv sub b)

theorem flvLoop_gops (key isHdr : Bool) (tag : Bytes) (s : St) :
    (flvLoop key isHdr tag s).rtmpGop = s.rtmpGop ∧ (flvLoop key isHdr tag s).flvGop = s.flvGop ∧
    (flvLoop key isHdr tag s).cfg = s.cfg := by
  unfold flvLoop
  generalize s.flvSubs.map (·.id) = ids
  induction ids generalizing s with
  | nil => exact ⟨rfl, rfl, rfl⟩
  | cons i is ih =>
    simp only [List.foldl_cons]
    obtain ⟨a, b, c⟩ := ih (flvOne key isHdr tag s i)
    have : (flvOne key isHdr tag s i).rtmpGop = s.rtmpGop ∧ (flvOne key isHdr tag s i).flvGop = s.flvGop ∧
        (flvOne key isHdr tag s i).cfg = s.cfg := by
      unfold flvOne
      cases s.getFlv i with
      | none => exact ⟨rfl, rfl, rfl⟩
      | some x =>
        exact ⟨writeFlvAll_rtmpGop x _ s, (writeFlvAll_fields x _ s).2.2.1, (frame2_writeFlvAll x _ s).cfg⟩
    exact ⟨a.trans this.1, b.trans this.2.1, c.trans this.2.2⟩

/-- both caches of every reachable state are well-formed rings holding at most the configured number of
    GOPs, none longer than the configured cap -/
theorem run_caches (cfg : Cfg) (evs : List Ev) :
    CacheOk (run cfg evs).rtmpGop cfg.rtmpGopNum cfg.rtmpCap ∧ CacheOk (run cfg evs).flvGop cfg.flvGopNum cfg.flvCap := by
  unfold run
  have : ∀ (s0 : St), Inv s0 →
      CacheOk s0.rtmpGop cfg.rtmpGopNum cfg.rtmpCap ∧ CacheOk s0.flvGop cfg.flvGopNum cfg.flvCap →
      CacheOk (evs.foldl step s0).rtmpGop cfg.rtmpGopNum cfg.rtmpCap ∧
      CacheOk (evs.foldl step s0).flvGop cfg.flvGopNum cfg.flvCap := by
    induction evs with
    | nil => intro s0 _ h; exact h
    | cons e es ih =>
      intro s0 hI h
      simp only [List.foldl_cons]
      apply ih _ (step_inv s0 e hI)
      cases e with
      | addPub =>
        simp only [step]
        split
        · exact h
        · split <;> exact h
      | delPub =>
        simp only [step]
        split
        · exact h
        · have hg : (if s0.cfg.mergeSize > 0 then s0.mergeFlush else s0).rtmpGop = s0.rtmpGop ∧
              (if s0.cfg.mergeSize > 0 then s0.mergeFlush else s0).flvGop = s0.flvGop := by
            split
            · exact ⟨(flush_effect s0 hI).1.rtmpGop, (flush_effect s0 hI).1.flvGop⟩
            · exact ⟨rfl, rfl⟩
          show CacheOk (GopCache.clear _) _ _ ∧ CacheOk (GopCache.clear _) _ _
          rw [hg.1, hg.2]
          exact ⟨cacheOk_clear _ _ _ h.1, cacheOk_clear _ _ _ h.2⟩
      | msg m =>
        simp only [step]
        split
        · unfold broadcast
          split
          · exact h
          · simp only
            obtain ⟨h0, f0⟩ := rtmpLoop_inv (Classify.isVideoKeyNalu m.typ m.payload)
              (if isHeaderMsg m then some (chunksWithoutSdf m) else none) s0 hI
            obtain ⟨_, _, _, _, fr, ff, _⟩ := forward_frame (rtmpLoop (Classify.isVideoKeyNalu m.typ m.payload)
              (if isHeaderMsg m then some (chunksWithoutSdf m) else none) s0) m h0
            obtain ⟨l1, l2, _⟩ := flvLoop_gops (Classify.isVideoKeyNalu m.typ m.payload) (isHeaderMsg m) (tagWithoutSdf m)
              (forward (rtmpLoop (Classify.isVideoKeyNalu m.typ m.payload) (if isHeaderMsg m then some (chunksWithoutSdf m) else none) s0) m)
            generalize flvLoop (Classify.isVideoKeyNalu m.typ m.payload) (isHeaderMsg m) (tagWithoutSdf m)
              (forward (rtmpLoop (Classify.isVideoKeyNalu m.typ m.payload) (if isHeaderMsg m then some (chunksWithoutSdf m) else none) s0) m) = s3 at l1 l2 ⊢
            have h3 : CacheOk s3.rtmpGop cfg.rtmpGopNum cfg.rtmpCap ∧ CacheOk s3.flvGop cfg.flvGopNum cfg.flvCap := by
              rw [l1, l2, fr, ff, f0.rtmpGop, f0.flvGop]; exact h
            have h4 : CacheOk (recordStage s3 m).rtmpGop cfg.rtmpGopNum cfg.rtmpCap ∧
                CacheOk (recordStage s3 m).flvGop cfg.flvGopNum cfg.flvCap := by
              unfold recordStage; split <;> exact h3
            generalize recordStage s3 m = s4 at h4 ⊢
            have h5 : CacheOk (rtmpCacheStage s4 m).rtmpGop cfg.rtmpGopNum cfg.rtmpCap ∧
                CacheOk (rtmpCacheStage s4 m).flvGop cfg.flvGopNum cfg.flvCap := by
              unfold rtmpCacheStage; split
              · refine ⟨?_, h4.2⟩
                show CacheOk (if (m.typ == 18) = true then _ else _) _ _
                split
                · exact cacheOk_setMetadata _ _ _ (cacheOk_feed _ _ _ h4.1 _ _ _) _ _
                · exact cacheOk_feed _ _ _ h4.1 _ _ _
              · exact h4
            generalize rtmpCacheStage s4 m = s5 at h5 ⊢
            have h6 : CacheOk (flvCacheStage s5 m).rtmpGop cfg.rtmpGopNum cfg.rtmpCap ∧
                CacheOk (flvCacheStage s5 m).flvGop cfg.flvGopNum cfg.flvCap := by
              unfold flvCacheStage; split
              · refine ⟨h5.1, ?_⟩
                show CacheOk (if (m.typ == 18) = true then _ else _) _ _
                split
                · exact cacheOk_setMetadata _ _ _ (cacheOk_feed _ _ _ h5.2 _ _ _) _ _
                · exact cacheOk_feed _ _ _ h5.2 _ _ _
              · exact h5
            generalize flvCacheStage s5 m = s6 at h6 ⊢
            unfold statStage; split <;> exact h6
        · exact h
      | join k id =>
        cases k <;> simp only [step] <;> (try split) <;> first | exact h | (simp only [joinFlv]; exact h)
      | leave k id => cases k <;> exact h
  exact this _ (init_inv cfg) ⟨cacheOk_new _ _, cacheOk_new _ _⟩

end Lal.Group
